From Coq Require Import ZArith List Bool.
From PUN Require Import Model.Units.
Import ListNotations.

(* observed unit of the implementation's result, as an exponent vector over (m, s, kg) *)
Inductive uobs := XOk (u : unit) | XDim | XOther.
Definition ucase := (uop * operand * operand * uobs)%type.
Definition ucheck (c : ucase) : nat :=
  let '(op, a, b, o) := c in
  match unit_binop op a b, o with
  | UOk u, XOk v => if unit_eqb u v then 0%nat else 2%nat
  | UDimErr, XDim => 0%nat
  | UDimErr, XOther => 0%nat      (* the construct-level operation failed first: judged by the oracle *)
  | UOk _, XOther => 0%nat        (* likewise (e.g. division by a quantity containing zero) *)
  | _, _ => 2%nat
  end.
