From Coq Require Import List Bool ZArith PrimFloat.
From PUN Require Import Base.Num Model.Interval Model.Pbox Model.PboxArith Corr.CorrCommon Corr.CorrPbox Gen.GenParams.
Import ListNotations.

(* operation codes *)
Inductive uop := UAdd | URAdd | USub | URSub | UMul | URMul | UDiv (python_number : bool) | URDiv | UNeg | URecip
               | UMap (fl fr : list float) (domain_ok : bool)    (* exp/log/sqrt: arrays f(left), f(right) recorded as oracle *)
               | UPow (tbl : list (float * float)).               (* P ** c : the values x ** c at the bounds' entries, recorded as an oracle table *)
Fixpoint flookup (tbl : list (float * float)) (x : float) : float :=
  match tbl with [] => PrimFloat.nan | (a, b) :: t => if PrimFloat.eqb a x then b else flookup t x end.
Definition ucase := (uop * (list float * list float) * float * pout)%type.
Notation mkS := (mk_staircase FN steps plo phi).
Notation mkL := (mk_staircase_lists FN steps plo phi).
Definition ueval (o : uop) (p : pbox FN) (c : float) : res (pbox FN) :=
  match o with
  | UAdd | URAdd => pnum FN steps plo phi PrimFloat.add p c
  | USub => pnum FN steps plo phi PrimFloat.add p (PrimFloat.opp c)
  | URSub => rbind (pneg FN steps plo phi p) (fun q => pnum FN steps plo phi PrimFloat.add q c)
  | UMul | URMul => pnum FN steps plo phi PrimFloat.mul p c
  | UDiv py => (* 1/c : ZeroDivisionError for a Python number, inf for a numpy scalar *)
      if PrimFloat.eqb c 0 && py then Raise ZeroDivision else pnum FN steps plo phi PrimFloat.mul p (PrimFloat.div 1 c)
  | URDiv => match rbind (precip FN steps plo phi p) (fun q => pnum FN steps plo phi PrimFloat.mul q c) with
             | Ok r => Ok r | _ => Raise TypeErr end
  | UNeg => pneg FN steps plo phi p
  | URecip => precip FN steps plo phi p
  | UMap fl fr ok => if ok then mkS fl fr else Raise ValueErr
  | UPow tbl => ppow FN steps plo phi (fun x _ => flookup tbl x) (fun _ _ => NotImpl) p c     (* the model's routing of Staircase.pow; the zero-straddling route is not modelled *)
  end.
Definition ucheck (c : ucase) : nat := let '(o, p, x, out) := c in pcmp (ueval o p x) out.
