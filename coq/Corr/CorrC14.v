From Coq Require Import List Bool ZArith PrimFloat.
From PUN Require Import Base.Num Model.Interval Model.IntervalFun Model.Pbox Model.B2B Model.Mixed Corr.CorrCommon Corr.CorrC05 Corr.CorrPbox Gen.GenParams.
Import ListNotations.

Fixpoint fpowF14 (x : float) (k : nat) : float := match k with O => 1%float | S O => x | S k' => PrimFloat.mul (fpowF14 x k') x end.
(* interval Monte Carlo / slicing on recorded rows of probability levels: the p-box must be the equal-weight mixture of the
   interval images of the alpha-cut boxes *)
Definition mcase := (Mixed.strat * expr * list (list float * list float) * list (list float) * list (float * float) * pout)%type.
Definition mcheck (c : mcase) : nat :=
  let '(s, e, vars, levels, tab, out) := c in
  pcmp (mixed FN steps plo phi (lookup tab) fpowF14 s e vars levels) out.
(* the rows slicing uses *)
Definition lcase := (nat * nat * list (list float))%type.
Fixpoint rows_cmp (a b : list (list float)) : nat :=
  match a, b with [], [] => 0 | x :: a', y :: b' => Nat.max (fl_cmp x y) (rows_cmp a' b') | _, _ => 2 end.
Definition lcheck (c : lcase) : nat := let '(k, d, rows) := c in rows_cmp (slicing_levels FN plo phi k d) rows.
