From Coq Require Import List Bool ZArith PrimFloat.
From PUN Require Import Base.Num Model.Interval Corr.CorrCommon.
Import ListNotations.

Inductive iout := IOk (z : bool) (l : list (float * float)) | IExc (code : nat).
Definition case := (bop * operand FN * operand FN * iout)%type.
Definition check (c : case) : nat :=
  let '(op, a, b, out) := c in
  match binop FN op a b, out with
  | Ok (z, l), IOk z' l' => if Bool.eqb z z' then fpl_cmp l l' else 2
  | r, IExc code => match res_code r with Some k => if Nat.eqb k code then 0 else 2 | None => 2 end
  | _, _ => 2
  end.
