From Coq Require Import List Bool ZArith PrimFloat.
From PUN Require Import Base.Num Model.Interval Model.Pbox Model.PboxArith Corr.CorrCommon Corr.CorrPbox Gen.GenParams.
Import ListNotations.

(* fold of env / imp over a family of (converted) p-boxes, as aggregation.envelope / imposition do *)
Inductive lop := LEnv | LImp.
Definition lcase := (lop * list (list float * list float) * pout)%type.
Definition lfold (o : lop) (l : list (pbox FN)) : res (pbox FN) :=
  match l with
  | [] => Raise TypeErr
  | p :: r => fold_left (fun acc q => rbind acc (fun a =>
                match o with LEnv => penv FN steps plo phi a q | LImp => pimp FN steps plo phi a q end)) r (Ok p)
  end.
Definition lcheck (c : lcase) : nat := let '(o, l, out) := c in pcmp (lfold o l) out.
