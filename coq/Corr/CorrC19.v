From Coq Require Import List Bool ZArith PrimFloat.
From PUN Require Import Base.Num Model.TMCMC Corr.CorrCommon.
Import ListNotations.

(* ---- bisection: the harness records int(1 / sum(Wm_n ** 2)) of every evaluation, in order ---- *)
Definition tolF : float := 0x1.5798ee2308c3ap-27.   (* 1e-8 *)
Definition bcase := (float * float * list Z * float * Z)%type.     (* beta, rN, ESS observations, returned new_beta, returned ESS *)
Definition bcheck (c : bcase) : nat :=
  let '(beta, rN, obs, out_beta, out_ess) := c in
  match bisect FN (fun k _ => nth k obs 0%Z) tolF rN beta 200 with
  | None => 2%nat
  | Some s =>
      let nb := clamp FN (b_new FN s) in
      let used := b_iter FN s in
      let clamped := PrimFloat.leb 1 (b_new FN s) in
      (* the clamp branch evaluates the weights once more (one extra recorded observation) *)
      if (Nat.eqb used (length obs) || (clamped && Nat.eqb (S used) (length obs))) && f_same nb out_beta && Z.eqb (b_ess FN s) out_ess
      then 0%nat else 2%nat
  end.

(* ---- Metropolis-Hastings on binary64 with recorded oracle values ---- *)
Definition ffinite (x : float) : bool := PrimFloat.eqb (PrimFloat.sub x x) 0.
Definition EF : ENum := mkE float PrimFloat.add PrimFloat.sub PrimFloat.mul ffinite PrimFloat.ltb neg_infinity.
Fixpoint vsame (a b : list float) : bool :=
  match a, b with [], [] => true | x :: a', y :: b' => f_same x y && vsame a' b' | _, _ => false end.
Fixpoint vlookup (t : list (list float * float)) (k : list float) : float :=
  match t with [] => nan | (k', v) :: r => if vsame k' k then v else vlookup r k end.
Fixpoint vadd (a b : list float) : list float :=
  match a, b with x :: a', y :: b' => PrimFloat.add x y :: vadd a' b' | _, _ => [] end.
Record mhcase := mkMH { c_prior : list (list float * float); c_lik : list (list float * float); c_beta : float;
                        c_cur : list float; c_lik0 : float; c_post0 : float; c_acc0 : nat; c_steps : list (list float * float);
                        o_cur : list float; o_lik : float; o_post : float; o_acc : nat }.
Definition mhcheck (c : mhcase) : nat :=
  let s := mh EF (list float) vadd (vlookup (c_prior c)) (vlookup (c_lik c)) (c_beta c)
              (mkM EF (list float) (c_cur c) (c_lik0 c) (c_post0 c) (c_acc0 c)) (c_steps c) in
  if vsame (m_cur EF _ s) (o_cur c) && f_same (m_lik EF _ s) (o_lik c) && f_same (m_post EF _ s) (o_post c) && Nat.eqb (m_acc EF _ s) (o_acc c)
  then 0%nat else 2%nat.
