From Coq Require Import List Bool ZArith PrimFloat.
From PUN Require Import Base.Num Model.Interval Model.Pbox Model.PboxArith Model.PExpr Corr.CorrCommon Corr.CorrPbox Gen.GenParams.
Import ListNotations.

(* recorded values of a library function (numpy exp / log / sqrt) on exactly the arguments the implementation applied it to *)
Fixpoint lookup (tbl : list (float * float)) (x : float) : float :=
  match tbl with
  | [] => PrimFloat.nan
  | (k, v) :: r => if PrimFloat.eqb k x then v else lookup r x
  end.
Definition dom_all (x : float) : bool := true.
Definition dom_pos (x : float) : bool := PrimFloat.ltb 0 x.      (* log: self.lo <= 0 raises ValueError *)
Notation E := (pexpr FN).
Definition ccase := (E * pout)%type.
Definition ccheck (c : ccase) : nat := let '(e, out) := c in pcmp (peval FN steps plo phi e) out.
