From Coq Require Import List Bool ZArith PrimFloat.
From PUN Require Import Base.Num Model.Interval Model.Pbox Model.PboxArith Corr.CorrCommon Gen.GenParams.
Import ListNotations.

Definition opF (o : bop) : float -> float -> float :=
  match o with Add => PrimFloat.add | Sub => PrimFloat.sub | Mul => PrimFloat.mul | Div => PrimFloat.div end.

(* ---- kernel functions called on stub operands of any length ---- *)
Inductive kfn := KFrechet | KNaive | KPerfect | KOpposite | KIndep.
Definition kcase := (kfn * bop * (list float * list float) * (list float * list float) * (list float * list float))%type.
Definition kcheck (c : kcase) : nat :=
  let '(f, o, x, y, out) := c in
  let r := match f with
           | KFrechet => frechet_op FN (opF o) (fst x) (snd x) (fst y) (snd y)
           | KNaive => naive_frechet_op FN (opF o) (fst x) (snd x) (fst y) (snd y)
           | KPerfect => perfect_op FN (opF o) (fst x) (snd x) (fst y) (snd y)
           | KOpposite => opposite_op FN (opF o) (fst x) (snd x) (fst y) (snd y)
           | KIndep => independent_op FN (opF o) (fst x) (snd x) (fst y) (snd y) end in
  Nat.max (fl_cmp (fst r) (fst out)) (fl_cmp (snd r) (snd out)).

(* ---- API level: Pbox.add/sub/mul/div(dependency) at the configured number of steps ---- *)
Inductive pout := POk (l r : list float) | PExc (code : nat) | PSkip.
Definition acase := (bop * dep * (list float * list float) * (list float * list float) * pout)%type.
Definition steps := GenParams.steps.
Definition plo := GenParams.p_lboundary FN.
Definition phi := GenParams.p_hboundary FN.
Definition api (o : bop) (d : dep) (x y : pbox FN) : res (pbox FN) :=
  match o with
  | Add => padd FN steps plo phi d x y | Sub => psub FN steps plo phi d x y
  | Mul => pmul FN steps plo phi d x y | Div => pdiv FN steps plo phi d x y end.
(* verdict 0/1/2 as usual; 3 = route not modelled (counted separately by the harness as exact=skip) *)
Definition pcmp (r : res (pbox FN)) (out : pout) : nat :=
  match r, out with
  | Ok p, POk l r' => Nat.max (fl_cmp (fst p) l) (fl_cmp (snd p) r')
  | NotImpl, _ => 0
  | Raise e, PExc code => if Nat.eqb (exn_code e) code then 0 else 2
  | _, _ => 2 end.
Definition acheck (c : acase) : nat := let '(o, d, x, y, out) := c in pcmp (api o d x y) out.

(* ---- Staircase.balchprod called directly (the Balch product without the naive bound) ---- *)
Definition balchcase := ((list float * list float) * (list float * list float) * pout)%type.
Definition balchcheck (c : balchcase) : nat := let '(x, y, out) := c in pcmp (m_balchprod FN steps plo phi mul_fuel x y) out.
