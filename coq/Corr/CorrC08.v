From Coq Require Import List Bool ZArith PrimFloat.
From PUN Require Import Base.Num Model.Interval Model.Pbox Model.PboxArith Corr.CorrCommon Corr.CorrPbox Gen.GenParams.
Import ListNotations.

(* stacking(intervals, weights): weighted ecdfs of the lower and of the upper endpoints, extended and 'next'-interpolated *)
Definition scase := (list float * list float * option (list float) * pout)%type.
Definition scheck (c : scase) : nat :=
  let '(lo, hi, w, out) := c in
  let w' := match w with Some w => w | None => equal_weights FN (length lo) end in
  pcmp (stacking FN steps plo phi lo hi w') out.
