From Coq Require Import List Bool ZArith PrimFloat.
From PUN Require Import Base.Num Model.Interval Model.IntervalFun Corr.CorrCommon.
Import ListNotations.

(* recorded library values: first entry whose key is the same float *)
Fixpoint lookup (t : list (float * float)) (x : float) : float :=
  match t with [] => nan | (k, v) :: r => if f_same k x then v else lookup r x end.
Definition fpi : float := 0x1.921fb54442d18p+1.

Inductive fcode := FAbs | FSqrt | FExp | FLog | FSin | FSinV | FCos | FCosV | FTan | FTanh | FSigmoid | FPow (k : Z).
(* tables: values of the libm function at the points the model evaluates it, remainders modulo 2 pi and modulo pi, powers *)
Record tabs := mkT { t_fun : list (float * float); t_mod2pi : list (float * float); t_modpi : list (float * float) }.
Inductive fout := FOk (a b : float) | FExc (code : nat).
Definition fcase := (fcode * (float * float) * tabs * fout)%type.
Definition ext_f (e : ext FN) : float := match e with Fin v => v | MInf => neg_infinity | PInf => infinity end.

Definition feval (c : fcode) (x : float * float) (t : tabs) : res (float * float) :=
  let f := lookup (t_fun t) in
  let fm := fun (v p : float) => if PrimFloat.leb p 4 then lookup (t_modpi t) v else lookup (t_mod2pi t) v in
  match c with
  | FAbs => iabs FN x | FSqrt => isqrt FN x | FExp => iexp FN f x | FLog => ilog FN f x
  | FSin => isin FN fpi f fm x | FSinV => isin_v FN fpi f fm x
  | FCos => icos FN fpi f fm x | FCosV => icos_v FN fpi f fm x
  | FTan => rbind (itan FN fpi f fm x) (fun r => Ok (ext_f (fst r), ext_f (snd r)))
  | FTanh => itanh FN f x | FSigmoid => isigmoid FN f x
  | FPow k => ipow FN (fun v _ => lookup (t_fun t) v) x k      (* the powers lo**|k|, hi**|k| are recorded library values *)
  end.
Definition fcheck (c : fcase) : nat :=
  let '(code, x, t, out) := c in
  match feval code x t, out with
  | Ok (a, b), FOk a' b' => Nat.max (f_cmp a a') (f_cmp b b')
  | r, FExc k => match res_code r with Some k' => if Nat.eqb k k' then 0 else 2 | None => 2 end
  | _, _ => 2
  end.
