From Coq Require Import List Bool ZArith PrimFloat.
From PUN Require Import Base.Num Model.Interval Model.IntervalFun Model.Pbox Model.B2B Corr.CorrCommon Corr.CorrC05.
Import ListNotations.

Fixpoint fpowF (x : float) (k : nat) : float := match k with O => 1%float | S O => x | S k' => PrimFloat.mul (fpowF x k') x end.
Inductive strat := SDirect | SEndpoints | SSubDirect (n : nat) | SSubEndpoints (n : nat).
Definition bcase := (expr * list (float * float) * strat * list (float * float) * fout)%type.
Definition bcheck (c : bcase) : nat :=
  let '(e, box, s, tab, out) := c in
  let fexp := lookup tab in
  let r := match s with
           | SDirect => direct FN fexp fpowF e box
           | SEndpoints => endpoints FN fexp fpowF e box
           | SSubDirect n => sub_direct FN fexp fpowF e box n
           | SSubEndpoints n => sub_endpoints FN fexp fpowF e box n end in
  match r, out with
  | Ok (a, b), FOk a' b' => Nat.max (f_cmp a a') (f_cmp b b')
  | r, FExc k => match res_code r with Some k' => if Nat.eqb k k' then 0 else 2 | None => 2 end
  | _, _ => 2
  end.
