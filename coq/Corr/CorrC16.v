From Coq Require Import List Arith Bool.
From PUN Require Import Model.Ctx.
Import ListNotations.

Inductive hev := HEv (i : nat) (e : ev) | HSpawnThread (child : nat) | HSpawnTask (parent child : nat).
Fixpoint run_h (s : state) (h : list hev) : list (option dcode) :=
  match h with
  | [] => []
  | HEv i e :: t => let '(c', o) := step1 (s i) e in o :: run_h (upd s i c') t
  | HSpawnThread c :: t => run_h (upd s c spawn_thread) t
  | HSpawnTask p c :: t => run_h (upd s c (spawn_task (s p))) t
  end.
Definition code (o : option dcode) : nat :=
  match o with Some DepF => 0 | Some DepP => 1 | Some DepO => 2 | Some DepI => 3 | Some DepUnknown => 4 | None => 9 end.
(* a case: history + the observations recorded on the implementation (one per HEv) *)
Definition ccase := (list hev * list nat)%type.
Definition ccheck (c : ccase) : nat :=
  let '(h, obs) := c in
  if list_eq_dec Nat.eq_dec (map code (run_h (fun _ => cinit) h)) obs then 0 else 2.
