From Coq Require Import List Bool ZArith PrimFloat String.
From PUN Require Import Base.Num Model.Interval Model.Pbox Model.PboxArith Corr.CorrCommon Corr.CorrPbox Gen.GenParams Gen.GenDispatch Model.Dispatch.
Import ListNotations.
(* mixed-kind expressions: x, y are the p-box views of the operands (convert_pbox), out the value of the mixed-kind expression:
   the model computes "convert every operand first, then operate".  Which exception is raised depends on the operand kind
   (1 / Interval raises ZeroDivisionError before any conversion, 1 / Pbox ends as TypeError): any exception matches any. *)
Definition hcheck (c : acase) : nat :=
  let '(o, d, x, y, out) := c in
  match api o d x y, out with
  | Raise _, PExc _ => 0%nat
  | r, _ => pcmp r out
  end.
