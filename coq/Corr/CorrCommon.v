(* Glue for correspondence runs: implementation outcomes as recorded by the harness *)
From Coq Require Import List Bool ZArith PrimFloat.
From PUN Require Import Base.Num.
Import ListNotations.

(* exception classes as small codes written by the harness *)
Definition exn_code (e : exn) : nat :=
  match e with ZeroDivision => 0 | AssertionErr => 1 | ValueErr => 2 | TypeErr => 3
             | OtherExn => 4 | IndexErr => 5 | NotIncreasing => 6 | EmptyImp => 7 end.
Definition res_code {A} (r : res A) : option nat :=
  match r with Ok _ => None | Raise e => Some (exn_code e) | NotImpl => Some 3 end.

Fixpoint fpl_cmp (a b : list (float * float)) : nat :=
  match a, b with
  | [], [] => 0
  | (x1, x2) :: a', (y1, y2) :: b' => Nat.max (Nat.max (f_cmp x1 y1) (f_cmp x2 y2)) (fpl_cmp a' b')
  | _, _ => 2 end.
