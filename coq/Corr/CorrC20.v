From Coq Require Import ZArith QArith Qabs String List Bool.
From PUN Require Import Gen.GenHedge Model.Hedge.
Import ListNotations.
Open Scope Q_scope.

(* implementation endpoints, converted exactly from binary64 by the harness *)
Inductive hval := HQ (q : Q) | HPInf | HNInf.
Inductive hout := HOk (a b : hval) | HExc.
Definition hcase := (string * numeral * hout)%type.
(* agreement: within 2^-46 relative (the implementation computes in binary64), or the same infinity *)
Definition near (m : Q) (v : hval) : bool :=
  match v with
  | HQ q => Qle_bool (Qabs (q - m)) ((1 # 70368744177664) * (Qabs m + Qabs q) + (1 # 1000000000000000000000000000000))
  | _ => false end.
Definition vnear (m : qext) (v : hval) : bool :=
  match m, v with QFin q, _ => near q v | QPInf, HPInf => true | QNInf, HNInf => true | _, _ => false end.
Definition hcheck (c : hcase) : nat :=
  let '(kw, n, out) := c in
  let model := if String.eqb kw "" then Some (QFin (fst (sgnumber n)), QFin (snd (sgnumber n))) else hedge kw n in
  match model, out with
  | Some (a, b), HOk a' b' => if vnear a a' && vnear b b' then 0%nat else 2%nat
  | None, _ => 0%nat          (* arms that are not table-like (count, order): oracle only *)
  | _, _ => 2%nat
  end.
