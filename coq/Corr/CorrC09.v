From Coq Require Import List Bool ZArith PrimFloat.
From PUN Require Import Base.Num Model.Interval Model.Pbox Model.Parametric Gen.GenParametric Gen.GenParams Corr.CorrCommon.
Import ListNotations.

(* a case: the parameter box, the corner points the harness evaluated scipy at (in product order), the quantile array of every
   corner, the corner means and variances, and what the implementation returned (left, right, mean lo/hi, var lo/hi) *)
Record pcase := mkP { box : list (float * float); pts : list (list float); arrs : list (list float); means : list float; vars : list float;
                      oL : list float; oR : list float; omean : float * float; ovar : float * float }.
Fixpoint fll_same (a b : list (list float)) : bool :=
  match a, b with [], [] => true | x :: a', y :: b' => Nat.eqb (fl_cmp x y) 0 && fll_same a' b' | _, _ => false end.
Definition pcheck (c : pcase) : nat :=
  if negb (fll_same (corners FN (box c)) (pts c)) then 2%nat
  else
    let n := length (oL c) in
    let l := reduce_cols FN (minl FN) (arrs c) n in
    let r := reduce_cols FN (maxl FN) (arrs c) n in
    Nat.max (Nat.max (fl_cmp l (oL c)) (fl_cmp r (oR c)))
            (Nat.max (fl_cmp [minl FN (means c); maxl FN (means c)] [fst (omean c); snd (omean c)])
                     (fl_cmp [minl FN (vars c); maxl FN (vars c)] [fst (ovar c); snd (ovar c)])).
(* uniform(a, b) *)
Definition ucase := (nat * (float * float) * (float * float) * (list float * list float))%type.
Definition ucheck (c : ucase) : nat :=
  let '(n, a, b, out) := c in
  let m := gen_uniform FN n a b in Nat.max (fl_cmp (fst m) (fst out)) (fl_cmp (snd m) (snd out)).
