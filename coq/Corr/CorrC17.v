From Coq Require Import List Bool ZArith PrimFloat.
From PUN Require Import Base.Num Model.Interval Model.Pbox Model.PboxArith Model.KS Corr.CorrCommon Corr.CorrPbox Gen.GenParams.
Import ListNotations.

Inductive kcase17 :=
  | KPrecise (s : list float) (D : float) (q fl fr : list float)
  | KInterval (lo hi : list float) (D : float) (q1 f1 q2 f2 : list float)
  | KPbox (lo hi : list float) (D : float) (out : pout).     (* precise data: lo = hi *)
Definition check17 (c : kcase17) : nat :=
  match c with
  | KPrecise s D q fl fr => let '(q', fl', fr') := ks_precise FN s D in Nat.max (fl_cmp q' q) (Nat.max (fl_cmp fl' fl) (fl_cmp fr' fr))
  | KInterval lo hi D q1 f1 q2 f2 =>
      let '((a, b), (c, d)) := ks_interval FN lo hi D in Nat.max (Nat.max (fl_cmp a q1) (fl_cmp b f1)) (Nat.max (fl_cmp c q2) (fl_cmp d f2))
  | KPbox lo hi D out => let '(bl, br) := ks_interval FN lo hi D in pcmp (from_cdfbundle FN steps plo phi bl br) out
  end.
