From Coq Require Import List Bool ZArith PrimFloat.
From PUN Require Import Base.Num Model.Interval Model.Pbox Gen.GenFree Gen.GenParams Corr.CorrCommon Corr.CorrPbox.
Import ListNotations.
(* which constructor, its arguments, what the implementation returned *)
Inductive fctor := FMinMean | FMeanStd | FPosMeanStd | FMinMaxMean | FMinMaxMedian.
Definition fcase := (fctor * list float * pout)%type.
Definition a0 (l : list float) := nth 0 l 0%float.
Definition a1 (l : list float) := nth 1 l 0%float.
Definition a2 (l : list float) := nth 2 l 0%float.
(* Staircase(left, right): two Python lists are compared lexicographically by the switch, arrays elementwise *)
Definition feval (c : fctor) (a : list float) : res (pbox FN) :=
  match c with
  | FMinMean => let '(l, r) := free_min_mean FN steps (a0 a) (a1 a) in mk_staircase FN steps plo phi l r
  | FMeanStd => let '(l, r) := free_mean_std FN steps (a0 a) (a1 a) in mk_staircase_lists FN steps plo phi l r
  | FPosMeanStd => let '(l, r) := free_pos_mean_std FN steps (a0 a) (a1 a) in mk_staircase_lists FN steps plo phi l r
  | FMinMaxMean => let '(l, r) := free_min_max_mean FN steps (a0 a) (a1 a) (a2 a) in mk_staircase FN steps plo phi l r
  | FMinMaxMedian => match free_min_max_median FN (p_values FN steps plo phi) (a0 a) (a1 a) (a2 a) with
                     | Some (l, r) => mk_staircase FN steps plo phi l r
                     | None => NotImpl     (* minimum == maximum: delegated to min_max, not sent to this comparison *)
                     end
  end.
Definition fcheck (c : fcase) : nat := let '(k, a, out) := c in pcmp (feval k a) out.
