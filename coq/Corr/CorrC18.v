From Coq Require Import List Bool ZArith PrimFloat.
From PUN Require Import Base.Num Model.Interval Model.Pbox Model.PboxArith Corr.CorrCommon Corr.CorrPbox Gen.GenParams.
Import ListNotations.

Inductive query := QAcut (a : float) | QAcuts (l : list float) | QCdf (x : float) | QDisc (n : nat) | QOuter (n : option nat)
                 | QCond (n : nat) | QPI (alpha : float) (widest : bool).
Inductive qout := QPair (a b : float) | QPairs (l : list (float * float)) | QBox (l r : list float) | QExc (code : nat).
Definition qcase := (query * (list float * list float) * qout)%type.
Definition pair_cmp (a b : float * float) : nat := Nat.max (f_cmp (fst a) (fst b)) (f_cmp (snd a) (snd b)).
Definition ordered_or_raise (p : float * float) : res (float * float) :=
  if PrimFloat.leb (fst p) (snd p) then Ok p else Raise AssertionErr.
Definition qcheck (c : qcase) : nat :=
  let '(q, p, out) := c in
  match q, out with
  | QAcut a, QPair x y => pair_cmp (alpha_cut FN steps plo phi p a) (x, y)
  | QAcuts l, QPairs r => fpl_cmp (map (alpha_cut FN steps plo phi p) l) r
  | QCdf x, _ => match ordered_or_raise (pcdf FN steps plo phi p x), out with
                 | Ok v, QPair a b => pair_cmp v (a, b)
                 | Raise e, QExc code => if Nat.eqb (exn_code e) code then 0 else 2
                 | _, _ => 2 end
  | QDisc n, QPairs r => fpl_cmp (discretise FN steps plo phi p n) r
  | QOuter n, QPairs r => fpl_cmp (outer_discretisation FN steps plo phi p n) r
  | QCond n, _ => match pcondensation FN steps plo phi p n, out with
                  | Ok b, QBox l r => Nat.max (fl_cmp (fst b) l) (fl_cmp (snd b) r)
                  | Raise e, QExc code => if Nat.eqb (exn_code e) code then 0 else 2
                  | _, _ => 2 end
  | QPI alpha w, _ => match (if w then pi_widest FN steps plo phi p alpha else pi_narrowest FN steps plo phi p alpha), out with
                      | Ok v, QPair a b => pair_cmp v (a, b)
                      | Raise e, QExc code => if Nat.eqb (exn_code e) code then 0 else 2
                      | _, _ => 2 end
  | _, _ => 2
  end.
