(* Primitives shared by the hand-written model of the p-box arithmetic (Model/PboxArith.v) and the glue translated from
   pba/pbox_abc.py (Gen/GenGlue.v): dependency codes, support ends, the zero-straddling test, number / p-box. *)
From Coq Require Import List Bool ZArith Arith.
From PUN Require Import Base.Num Base.Sort Model.Interval Model.Pbox.
Import ListNotations.

Inductive dep := DF | DP | DO | DI.
Definition dep_eqb (a b : dep) : bool :=
  match a, b with DF, DF | DP, DP | DO, DO | DI, DI => true | _, _ => false end.
Definition swap_po (d : dep) : dep := match d with DP => DO | DO => DP | _ => d end.

Section B.
Variable N : Num.
Variable steps : nat.
Variable p_lo p_hi : N.
Notation pb := (pbox N).
(* Pbox.lo = left[0], Pbox.hi = right[-1]; straddles_zero = straddles(0, endpoints=False): min(left) < 0 < max(right) *)
Definition p_lo_ (p : pb) : N := nth0 N (fst p) 0.
Definition p_hi_ (p : pb) : N := lastn N (snd p).
Definition straddles_zero (p : pb) : bool :=
  nltb N (minl N (fst p)) nzero && nltb N nzero (maxl N (snd p)).
(* c / q  =  q.__rtruediv__(c) = c * q.reciprocal(): reciprocal, then the number template; any exception => NotImplemented => TypeError *)
Definition prdiv (c : N) (q : pb) : res pb :=
  match rbind (precip N steps p_lo p_hi q) (fun rq => pnum N steps p_lo p_hi (nmul N) rq c) with
  | Ok r => Ok r
  | _ => Raise TypeErr
  end.
End B.
