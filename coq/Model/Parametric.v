(* Model of pba/pbox_parametric.py _parametric_bounds_array: the bounds of a parametric p-box are the pointwise minimum and
   maximum, over the corners of the parameter box (itertools.product of the endpoints), of the family's quantile function
   evaluated on the probability grid; mean and variance intervals likewise.  Definitions only. *)
From Coq Require Import List Bool ZArith.
From PUN Require Import Base.Num Model.Interval Model.Pbox.
Import ListNotations.

Section P.
Variable N : Num.
(* itertools.product over the endpoint pairs i.to_numpy() of the parameters: the first parameter is the slowest index *)
Fixpoint corners (box : list (N * N)) : list (list N) :=
  match box with
  | [] => [[]]
  | (lo, hi) :: r => map (cons lo) (corners r) ++ map (cons hi) (corners r)
  end.
(* np.min(bounds, axis=0), np.max(bounds, axis=0) over the corner quantile arrays *)
Definition bound_lo (f : list N -> N) (box : list (N * N)) : N := minl N (map f (corners box)).
Definition bound_hi (f : list N -> N) (box : list (N * N)) : N := maxl N (map f (corners box)).
Definition param_bounds (ppf : list N -> N -> N) (box : list (N * N)) (ps : list N) : list N * list N :=
  (map (fun p => bound_lo (fun th => ppf th p) box) ps, map (fun p => bound_hi (fun th => ppf th p) box) ps).
End P.

(* the same reduction written on the corner arrays themselves (what numpy does): column k of the stacked arrays *)
Section Cols.
Variable N : Num.
Definition reduce_cols (sel : list N -> N) (arrs : list (list N)) (n : nat) : list N :=
  map (fun k => sel (map (fun a => nth0 N a k) arrs)) (seq 0 n).
End Cols.
