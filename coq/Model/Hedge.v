(* Model of nlp/language_parsing.py (hedge_interpret, interval branch) and characterisation/utils.py (sgnumber),
   exact rational arithmetic.  A numeral is what was written: sign, the digit string as an integer, the number of
   digits after the decimal point (None = no point), and the exponent.  Definitions only. *)
From Coq Require Import ZArith QArith Qpower String List Bool.
From PUN Require Import Gen.GenHedge.
Import ListNotations.
Open Scope Q_scope.

Record numeral := mkNum { nneg : bool; nmant : Z; nfrac : option nat; nexp : Z }.
Definition p10 (k : Z) : Q := (10 # 1) ^ k.
Definition frac_digits (n : numeral) : Z := match nfrac n with Some f => Z.of_nat f | None => 0%Z end.
Definition nvalue (n : numeral) : Q :=
  (if nneg n then -1 else 1) * inject_Z (nmant n) * p10 (nexp n - frac_digits n).
(* decimal place of the last written digit: -Decimal(numeral).as_tuple().exponent *)
Definition decimal_place (n : numeral) : Z := (frac_digits n - nexp n)%Z.

Inductive qext := QFin (q : Q) | QPInf | QNInf.
Definition bound_val (x : Q) (d : Z) (b : bound) : option qext :=
  match b with
  | BOff sx c s => Some (QFin (inject_Z sx * x + c * p10 (- (d + s))))
  | BPInf => Some QPInf | BNInf => Some QNInf | BOther => None end.
Fixpoint lookup_kw (kw : string) (t : list (string * (bound * bound))) : option (bound * bound) :=
  match t with [] => None | (k, v) :: r => if String.eqb k kw then Some v else lookup_kw kw r end.
Definition hedge (kw : string) (n : numeral) : option (qext * qext) :=
  match lookup_kw kw hedge_table with
  | Some (lo, hi) => match bound_val (nvalue n) (decimal_place n) lo, bound_val (nvalue n) (decimal_place n) hi with
                     | Some a, Some b => Some (a, b) | _, _ => None end
  | None => None end.

(* sgnumber: half a unit of the last significant written digit; trailing zeros of an integer are not significant *)
Fixpoint trailing_zeros_fuel (fuel : nat) (m : Z) : Z :=
  match fuel with O => 0%Z | S f => if (Z.eqb (m mod 10) 0) && negb (Z.eqb m 0) then (1 + trailing_zeros_fuel f (m / 10))%Z else 0%Z end.
Definition trailing_zeros (m : Z) : Z := trailing_zeros_fuel (Z.to_nat (Z.log2 (Z.abs m) + 1)) m.
(* j = digits after the point, or minus the number of trailing zeros of an integer mantissa *)
Definition sg_j (n : numeral) : Z := match nfrac n with Some f => Z.of_nat f | None => (- trailing_zeros (nmant n))%Z end.
Definition sgnumber (n : numeral) : Q * Q :=
  let pm := p10 (- sg_j n) * p10 (nexp n) / 2 in (nvalue n - pm, nvalue n + pm).
