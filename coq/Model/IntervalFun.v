(* Model of the interval elementary functions of pba/intervals/methods.py (abs, sqrt, exp, log, sin, cos, tan,
   tanh), activation.sigmoid and Interval.__pow__ (number.py), scalar forms; the array forms are the masked
   variants sin_vector / cos_vector / tan_vector.  libm functions and the float remainder are oracles
   (Section variables): real functions in the theorems, recorded lookup tables in the runs.  Definitions only. *)
From Coq Require Import List Bool ZArith.
From PUN Require Import Base.Num Model.Interval.
Import ListNotations.

Section F.
Variable N : Num.
Notation pr := (N * N)%type.
Notation "x + y" := (nadd N x y). Notation "x - y" := (nsub N x y).
Notation "x * y" := (nmul N x y). Notation "x / y" := (ndiv N x y).
Notation "x <=? y" := (nleb N x y). Notation "x <? y" := (nltb N x y).

Variable pi : N.                                   (* numpy.pi *)
Variables fexp flog fsin fcos ftan : N -> N.       (* numpy.exp / log / sin / cos / tan *)
Variable fmod : N -> N -> N.                       (* Python / numpy float remainder x % p (sign of p) *)
Variable fpow : N -> nat -> N.                     (* numpy x ** k for an integer k >= 0 *)

Definition two := nofZ N 2.
Definition twopi := two * pi.
Definition pihalf := pi / two.
Definition three := nofZ N 3.
Definition mone := nofZ N (-1).

(* Interval(a, b): the constructor assertion *)
Definition mkI (a b : N) : res pr := if a <=? b then Ok (a, b) else Raise AssertionErr.
Definition within (d : pr) (y : N) : bool := (fst d <=? y) && (y <=? snd d).      (* contain(domain, y) *)

Definition iabs (x : pr) : res pr :=
  let a := nabs (fst x) in let b := nabs (snd x) in
  mkI (if (fst x <=? nzero) && (nzero <=? snd x) then nzero else nmin a b) (nmax a b).
Definition isqrt (x : pr) : res pr := mkI (nsqrt N (fst x)) (nsqrt N (snd x)).
Definition iexp (x : pr) : res pr := mkI (fexp (fst x)) (fexp (snd x)).
Definition ilog (x : pr) : res pr := if nzero <? fst x then mkI (flog (fst x)) (flog (snd x)) else Raise AssertionErr.

(* ---------- sin (scalar form, CORA case analysis on the endpoints reduced modulo 2 pi) ---------- *)
Definition isin (x : pr) : res pr :=
  if twopi <=? (snd x - fst x) then mkI mone none else
  let d1 := (nzero, pihalf) in let d2 := (pihalf, three * pihalf) in let d3 := (three * pihalf, twopi) in
  let yl := fmod (fst x) twopi in let yh := fmod (snd x) twopi in
  let sl := fsin yl in let sh := fsin yh in
  let i1 := within d1 in let i2 := within d2 in let i3 := within d3 in
  if i1 yl && i1 yh && (yl <=? yh) then mkI sl sh
  else if i2 yl && i2 yh && (yl <=? yh) then mkI sh sl
  else if i3 yl && i3 yh && (yl <=? yh) then mkI sl sh
  else if (i1 yl && i1 yh && (yh <? yl)) || (i1 yl && i3 yh) || (i2 yl && i2 yh && (yh <? yl)) || (i3 yl && i3 yh && (yh <? yl))
       then mkI mone none
  else if (i1 yl && i1 yh && (yl <=? yh)) || (i3 yl && i1 yh) || (i3 yl && i3 yh && (yl <=? yh)) then mkI sl sh
  else if (i1 yl && i2 yh) || (i3 yl && i2 yh) then mkI (nmin sl sh) none
  else if (i2 yl && i1 yh) || (i2 yl && i3 yh) then mkI mone (nmax sl sh)
  else if i2 yl && i2 yh && (yl <=? yh) then mkI sh sl
  else Raise OtherExn.      (* the Python function falls off its end and returns None *)

(* sin_vector: masked assignments in source order, per element *)
Definition isin_v (x : pr) : res pr :=
  let d1 := (nzero, pihalf) in let d2 := (pihalf, three * pihalf) in let d3 := (three * pihalf, twopi) in
  let yl := fmod (fst x) twopi in let yh := fmod (snd x) twopi in
  let sl := fsin yl in let sh := fsin yh in
  let i1 := within d1 in let i2 := within d2 in let i3 := within d3 in
  let case1 := (twopi <=? (snd x - fst x)) || (i1 yl && i1 yh && (yh <? yl)) || (i1 yl && i3 yh)
               || (i2 yl && i2 yh && (yh <? yl)) || (i3 yl && i3 yh && (yh <? yl)) in
  let r := (sl, sh) in
  let r := if case1 then (mone, none) else r in
  let rest := negb case1 in
  let r := if rest && i2 yl && i2 yh && (yl <=? yh) then (sh, sl) else r in
  let r := if (rest && i1 yl && i2 yh) || (rest && i3 yl && i2 yh) then (nmin sl sh, none) else r in
  let r := if (rest && i2 yl && i1 yh) || (rest && i2 yl && i3 yh) then (mone, nmax sl sh) else r in
  mkI (fst r) (snd r).

(* ---------- cos ---------- *)
Definition icos (x : pr) : res pr :=
  if twopi <=? (snd x - fst x) then mkI mone none else
  let d1 := (nzero, pi) in let d2 := (pi, two * pi) in
  let yl := fmod (fst x) twopi in let yh := fmod (snd x) twopi in
  let cl := fcos yl in let ch := fcos yh in
  let i1 := within d1 in let i2 := within d2 in
  if ((yh <? yl) && i1 yl && i1 yh) || ((yh <? yl) && i2 yl && i2 yh) then mkI mone none
  else if (yl <=? yh) && i2 yl && i2 yh then mkI cl ch
  else if i2 yl && i1 yh then mkI (nmin cl ch) none
  else if i1 yl && i2 yh then mkI mone (nmax cl ch)
  else if (yl <=? yh) && i1 yl && i1 yh then mkI ch cl
  else Raise OtherExn.
Definition icos_v (x : pr) : res pr :=
  let d1 := (nzero, pi) in let d2 := (pi, two * pi) in
  let yl := fmod (fst x) twopi in let yh := fmod (snd x) twopi in
  let cl := fcos yl in let ch := fcos yh in
  let i1 := within d1 in let i2 := within d2 in
  let case1 := (twopi <=? (snd x - fst x)) || ((yh <? yl) && i1 yl && i1 yh) || ((yh <? yl) && i2 yl && i2 yh) in
  let r := (cl, ch) in
  let r := if i2 yl && i1 yh then (nmin cl ch, none) else r in
  let r := if i1 yl && i2 yh then (mone, nmax cl ch) else r in
  let r := if (yl <=? yh) && i1 yl && i1 yh then (ch, cl) else r in
  let r := if case1 then (mone, none) else r in
  mkI (fst r) (snd r).

(* ---------- tan: unbounded result (None, None) when a pole may lie in x ---------- *)
Inductive ext := Fin (v : N) | MInf | PInf.
Definition itan (x : pr) : res (ext * ext) :=
  let d1 := (nzero, pihalf) in let d2 := (pihalf, pi) in
  let zl := fmod (fst x) pi in let zh := fmod (snd x) pi in
  let i1 := within d1 in let i2 := within d2 in
  if (pi <=? (snd x - fst x)) || ((zh <? zl) && i1 zl && i1 zh) || ((zh <? zl) && i2 zl && i2 zh) || (i1 zl && i2 zh)
  then Ok (MInf, PInf)
  else if ftan zl <=? ftan zh then Ok (Fin (ftan zl), Fin (ftan zh)) else Raise AssertionErr.

(* ---------- tanh = 1 - 2 / (1 + exp(2x)),  sigmoid = 1 / (1 + exp(-x)) : compositions of the interval operators ---------- *)
Definition itanh (x : pr) : res pr :=
  let e := (fexp (two * fst x), fexp (two * snd x)) in        (* exp(2*x), 2 > 0 *)
  if negb (fst e <=? snd e) then Raise AssertionErr else
  let d := (none + fst e, none + snd e) in                      (* t/u + exp(2x) *)
  if (fst d <=? nzero) && (nzero <=? snd d) then Raise ZeroDivision else
  let q := if nzero <=? two then (two / snd d, two / fst d) else (two / fst d, two / snd d) in   (* 2 / d via __rtruediv__ *)
  if negb (fst q <=? snd q) then Raise AssertionErr else
  mkI (none - snd q) (none - fst q).                             (* 1 - q via __rsub__ *)
Definition isigmoid (x : pr) : res pr :=
  let e := (fexp (nopp N (snd x)), fexp (nopp N (fst x))) in   (* exp(-x) *)
  if negb (fst e <=? snd e) then Raise AssertionErr else
  let d := (none + fst e, none + snd e) in
  if (fst d <=? nzero) && (nzero <=? snd d) then Raise ZeroDivision else
  mkI (none / snd d) (none / fst d).

(* ---------- integer powers (number.py __pow__) ---------- *)
Definition ipow_nonneg (x : pr) (k : nat) : res pr :=
  let a := fpow (fst x) k in let b := fpow (snd x) k in
  if Nat.even k then
    (* lo = 0; lo[self < 0] = b; lo[self > 0] = a   (self < 0 means hi < 0, self > 0 means lo > 0) *)
    let lo := nzero in
    let lo := if snd x <? nzero then b else lo in
    let lo := if nzero <? fst x then a else lo in
    mkI lo (nmax a b)
  else mkI (nmin a b) (nmax a b).
Definition ipow (x : pr) (k : Z) : res pr :=
  if (k <? 0)%Z then
    rbind (ipow_nonneg x (Z.to_nat (- k))) (fun y =>
      if (fst y <=? nzero) && (nzero <=? snd y) then Raise ZeroDivision
      else mkI (none / snd y) (none / fst y))        (* 1 / y, 1 >= 0 *)
  else ipow_nonneg x (Z.to_nat k).
End F.
Arguments Fin {N}. Arguments MInf {N}. Arguments PInf {N}.
