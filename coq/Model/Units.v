(* Model of UncertainNumber arithmetic (characterisation/uncertainNumber.py): the construct is computed by the construct-level
   operator, the unit by dimensional algebra on pint quantities (units as integer exponent vectors over a fixed basis).
   Definitions only. *)
From Coq Require Import List ZArith Bool.
Import ListNotations.

Definition unit := list Z.                       (* exponents of (m, s, kg) *)
Definition dimensionless : unit := [0; 0; 0]%Z.
Fixpoint zip (f : Z -> Z -> Z) (a b : unit) : unit :=
  match a, b with x :: a', y :: b' => f x y :: zip f a' b' | _, _ => [] end.
Fixpoint unit_eqb (a b : unit) : bool :=
  match a, b with [], [] => true | x :: a', y :: b' => Z.eqb x y && unit_eqb a' b' | _, _ => false end.

Inductive uop := UAdd | USub | UMul | UDiv | UPow (k : Z) | UNeg.
Inductive operand := OUN (u : unit) | ONum.      (* an uncertain number with its unit, or a plain number *)
Inductive ures := UOk (u : unit) | UDimErr | UUnsupported.

(* the unit of `a op b` (either operand may be the plain number; UPow and UNeg use the left operand only) *)
Definition unit_binop (op : uop) (a b : operand) : ures :=
  match op, a, b with
  | (UAdd | USub), OUN u, OUN v => if unit_eqb u v then UOk u else UDimErr
  | (UAdd | USub), OUN u, ONum => UOk u          (* the number takes the operand's unit *)
  | (UAdd | USub), ONum, OUN v => UOk v
  | UMul, OUN u, OUN v => UOk (zip Z.add u v)
  | UMul, OUN u, ONum => UOk u                   (* the number is dimensionless *)
  | UMul, ONum, OUN v => UOk v
  | UDiv, OUN u, OUN v => UOk (zip Z.sub u v)
  | UDiv, OUN u, ONum => UOk u
  | UDiv, ONum, OUN v => UOk (map Z.opp v)
  | UPow k, OUN u, ONum => UOk (map (Z.mul k) u)
  | UNeg, OUN u, _ => UOk u
  | _, _, _ => UUnsupported
  end.
