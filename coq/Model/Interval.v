(* Model of pba/intervals/number.py: Interval constructor assertion, the binary
   operators + - * / with every operand kind on either side, numpy broadcasting
   of 0-d and 1-d operands.  Definitions only; the sign tables come from
   Gen/GenArith.v (translated from arithmetic.py). *)
From Coq Require Import List Bool ZArith.
From PUN Require Import Base.Num Gen.GenArith.
Import ListNotations.

(* a numpy value of shape () or (k,): (true,[x]) is 0-d, (false,l) is 1-d *)
Definition shp (A : Type) := (bool * list A)%type.

Fixpoint map2 {A B C} (f : A -> B -> C) (la : list A) (lb : list B) : list C :=
  match la, lb with a :: la', b :: lb' => f a b :: map2 f la' lb' | _, _ => [] end.

(* numpy broadcasting restricted to shapes () / (1,) / (k,), with the four shape
   branches of arithmetic.multiply / divide made explicit *)
Definition bc2_4 {A B C} (mism : exn) (fss fvv fsv fvs : A -> B -> C) (a : shp A) (b : shp B) : res (shp C) :=
  let '(za, la) := a in let '(zb, lb) := b in
  match la, lb with
  | [x], [y] => Ok (za && zb, [fss x y])
  | [x], _ => Ok (false, map (fsv x) lb)
  | _, [y] => Ok (false, map (fun x => fvs x y) la)
  | _, _ => if Nat.eqb (length la) (length lb) then Ok (false, map2 fvv la lb) else Raise mism
  end.
Definition bc2 {A B C} (mism : exn) (f : A -> B -> C) := bc2_4 mism f f f f.

Inductive bop := Add | Sub | Mul | Div.

Section M.
Variable N : Num.
Notation pr := (N * N)%type.
Notation "x + y" := (nadd N x y). Notation "x - y" := (nsub N x y).
Notation "x * y" := (nmul N x y). Notation "x / y" := (ndiv N x y).
Notation "x <=? y" := (nleb N x y). Notation "x <? y" := (nltb N x y).

Definition ival := shp pr.
Inductive operand := ONum (c : N) | OArr (l : list N) | OInt (i : ival) | OOther.

(* Interval(lo, hi): unassigned element (unbound local / numpy.empty garbage) or lo > hi *)
Definition unassigned (p : option N * option N) : bool :=
  match p with (Some _, Some _) => false | _ => true end.
Definition getp (p : option N * option N) : pr :=
  match p with (Some a, Some b) => (a, b) | _ => (nzero, nzero) end.
Definition ordered (p : pr) : bool := fst p <=? snd p.
Definition finish (r : res (shp (option N * option N))) : res ival :=
  rbind r (fun zl =>
    if existsb unassigned (snd zl) then Raise OtherExn
    else let l' := map getp (snd zl) in
         if forallb ordered l' then Ok (fst zl, l') else Raise AssertionErr).

Definition some2 (p : pr) : option N * option N := (Some (fst p), Some (snd p)).
Definition app4 (f : N -> N -> N -> N -> option N * option N) (s o : pr) := f (fst s) (snd s) (fst o) (snd o).

Definition straddles0 (p : pr) : bool := (fst p <=? nzero) && (nzero <=? snd p).

(* Interval op Interval *)
Definition ii (op : bop) (s o : ival) : res ival :=
  match op with
  | Add => finish (bc2 ValueErr (fun a b => some2 (fst a + fst b, snd a + snd b)) s o)
  | Sub => finish (bc2 ValueErr (fun a b => some2 (fst a - snd b, snd a - fst b)) s o)
  | Mul => finish (bc2_4 OtherExn (app4 (mul_ss N)) (app4 (mul_vv N)) (app4 (mul_sv N)) (app4 (mul_vs N)) s o)
  | Div => if div_has_guard && existsb straddles0 (snd o) then Raise ZeroDivision
           else finish (bc2_4 OtherExn (app4 (div_ss N)) (app4 (div_vv N)) (app4 (div_sv N)) (app4 (div_vs N)) s o)
  end.

(* Interval op number / ndarray  (self.__op__(other)) *)
Definition in_ (op : bop) (s : ival) (c : shp N) : res ival :=
  match op with
  | Add => finish (bc2 ValueErr (fun a c => some2 (fst a + c, snd a + c)) s c)
  | Sub => finish (bc2 ValueErr (fun a c => some2 (fst a - c, snd a - c)) s c)
  | Mul => finish (bc2 ValueErr (fun a c => some2 (if nzero <=? c then (fst a * c, snd a * c) else (snd a * c, fst a * c))) s c)
  | Div => if existsb (fun c => neqb N c nzero) (snd c) then Raise ZeroDivision
           else finish (bc2 ValueErr (fun a c => some2 (if nzero <? c then (fst a / c, snd a / c) else (snd a / c, fst a / c))) s c)
  end.

(* number / ndarray op Interval  (self.__rop__(left)) *)
Definition ni (op : bop) (c : shp N) (s : ival) : res ival :=
  match op with
  | Add => in_ Add s c
  | Mul => in_ Mul s c
  | Sub => finish (bc2 ValueErr (fun c a => some2 (c - snd a, c - fst a)) c s)
  | Div => if existsb straddles0 (snd s) then Raise ZeroDivision
           else finish (bc2 ValueErr (fun c a => some2 (if nzero <=? c then (c / snd a, c / fst a) else (c / fst a, c / snd a))) c s)
  end.

Definition binop (op : bop) (a b : operand) : res ival :=
  match a, b with
  | OInt s, OInt o => ii op s o
  | OInt s, ONum c => in_ op s (true, [c])
  | OInt s, OArr l => in_ op s (false, l)
  | ONum c, OInt o => ni op (true, [c]) o
  | OArr l, OInt o => ni op (false, l) o
  | OOther, OInt o =>   (* __rtruediv__ tests the divisor before the operand type *)
      match op with Div => if existsb straddles0 (snd o) then Raise ZeroDivision else NotImpl | _ => NotImpl end
  | _, _ => NotImpl
  end.

Definition ineg (s : ival) : res ival :=
  finish (Ok (fst s, map (fun a => some2 (nopp N (snd a), nopp N (fst a))) (snd s))).
End M.
Arguments OOther {N}.
