(* Model of propagation/b2b.py: interval strategies direct / endpoints (vertex) / subinterval, over a
   deep-embedded grammar of response functions.  Definitions only. *)
From Coq Require Import List Bool ZArith Arith.
From PUN Require Import Base.Num Model.Interval Model.IntervalFun Model.Pbox.
Import ListNotations.

Inductive expr :=
  | Var (i : nat) | Const (c : Z) (e : nat)          (* the decimal constant c / 10^e *)
  | EAdd (a b : expr) | ESub (a b : expr) | EMul (a b : expr) | EDiv (a b : expr)
  | EPow (a : expr) (k : nat) | EExp (a : expr) | ESqrt (a : expr).

Section B.
Variable N : Num.
Notation pr := (N * N)%type.
Variable fexp : N -> N.
Variable fpow : N -> nat -> N.

(* point evaluation (the vectorised signature, one row) *)
Fixpoint eval (e : expr) (x : list N) : N :=
  match e with
  | Var i => nth i x nzero
  | Const c k => nofdec N c k
  | EAdd a b => nadd N (eval a x) (eval b x) | ESub a b => nsub N (eval a x) (eval b x)
  | EMul a b => nmul N (eval a x) (eval b x) | EDiv a b => ndiv N (eval a x) (eval b x)
  | EPow a k => fpow (eval a x) k | EExp a => fexp (eval a x) | ESqrt a => nsqrt N (eval a x)
  end.

(* scalar interval operators of number.py / methods.py *)
Definition sc (r : res (ival N)) : res pr := rbind r (fun v => match snd v with [p] => Ok p | _ => Raise OtherExn end).
Definition iop (op : bop) (a b : pr) : res pr := sc (ii N op (true, [a]) (true, [b])).
Definition iopn (op : bop) (a : pr) (c : N) : res pr := sc (in_ N op (true, [a]) (true, [c])).
Definition inop (op : bop) (c : N) (a : pr) : res pr := sc (ni N op (true, [c]) (true, [a])).

(* interval evaluation (the iterable signature); a constant operand stays a Python number *)
Inductive ival_or_num := IV (p : pr) | NV (c : N).
Definition bin (op : bop) (a b : ival_or_num) : res ival_or_num :=
  match a, b with
  | IV p, IV q => rbind (iop op p q) (fun r => Ok (IV r))
  | IV p, NV c => rbind (iopn op p c) (fun r => Ok (IV r))
  | NV c, IV q => rbind (inop op c q) (fun r => Ok (IV r))
  | NV c, NV d => Ok (NV (match op with Add => nadd N c d | Sub => nsub N c d | Mul => nmul N c d | Div => ndiv N c d end))
  end.
Fixpoint ieval (e : expr) (box : list pr) : res ival_or_num :=
  match e with
  | Var i => Ok (IV (nth i box (nzero, nzero)))
  | Const c k => Ok (NV (nofdec N c k))
  | EAdd a b => rbind (ieval a box) (fun u => rbind (ieval b box) (fun v => bin Add u v))
  | ESub a b => rbind (ieval a box) (fun u => rbind (ieval b box) (fun v => bin Sub u v))
  | EMul a b => rbind (ieval a box) (fun u => rbind (ieval b box) (fun v => bin Mul u v))
  | EDiv a b => rbind (ieval a box) (fun u => rbind (ieval b box) (fun v => bin Div u v))
  | EPow a k => rbind (ieval a box) (fun u => match u with
                  | IV p => rbind (ipow_nonneg N fpow p k) (fun r => Ok (IV r)) | NV c => Ok (NV (fpow c k)) end)
  | EExp a => rbind (ieval a box) (fun u => match u with
                  | IV p => rbind (iexp N fexp p) (fun r => Ok (IV r)) | NV c => Ok (NV (fexp c)) end)
  | ESqrt a => rbind (ieval a box) (fun u => match u with
                  | IV p => rbind (isqrt N p) (fun r => Ok (IV r)) | NV c => Ok (NV (nsqrt N c)) end)
  end.
Definition as_pr (v : ival_or_num) : pr := match v with IV p => p | NV c => (c, c) end.

(* ---------- strategies ---------- *)
Definition direct (e : expr) (box : list pr) : res pr := rbind (ieval e box) (fun v => Ok (as_pr v)).

(* cartesian product of the endpoint pairs, first variable slowest (meshgrid indexing='ij') *)
Fixpoint cartesian {A} (ls : list (list A)) : list (list A) :=
  match ls with [] => [[]] | l :: r => flat_map (fun a => map (cons a) (cartesian r)) l end.
Definition corners (box : list pr) : list (list N) := cartesian (map (fun p => [fst p; snd p]) box).
Definition endpoints (e : expr) (box : list pr) : res pr :=
  let ys := map (eval e) (corners box) in mkI N (minl N ys) (maxl N ys).

(* subintervalise: n tiles per dimension from linspace(lo, hi, n+1); itertools.product order *)
Definition tiles1 (p : pr) (n : nat) : list pr :=
  let xs := linspace N (fst p) (snd p) (S n) in combine (removelast xs) (tl xs).
Definition subintervalise (box : list pr) (n : nat) : list (list pr) := cartesian (map (fun p => tiles1 p n) box).
Definition reconstitute (l : list pr) : res pr := mkI N (minl N (map fst l)) (maxl N (map snd l)).
Fixpoint sequence {A} (l : list (res A)) : res (list A) :=
  match l with [] => Ok [] | r :: t => rbind r (fun a => rbind (sequence t) (fun b => Ok (a :: b))) end.
Definition sub_direct (e : expr) (box : list pr) (n : nat) : res pr :=
  rbind (sequence (map (direct e) (subintervalise box n))) reconstitute.
Definition sub_endpoints (e : expr) (box : list pr) (n : nat) : res pr :=
  rbind (sequence (map (endpoints e) (subintervalise box n))) reconstitute.
End B.
