(* Model of the p-box kernel: pba/operation.py (frechet_op, naive frechet, perfect_op,
   opposite_op, independent_op), pba/utils.py (condensation, left_right_switch,
   is_increasing, find_nearest, extend_ecdf), pba/constructors.py (interpolate_p),
   pba/ecdf.py (get_ecdf), pba/pbox_abc.py (Staircase construction, neg, reciprocal,
   number ops, env, imp, alpha_cut ...).  Definitions only. *)
From Coq Require Import List Bool ZArith Arith.
From PUN Require Import Base.Num Base.Sort Model.Interval.
Import ListNotations.

(* which operator answers np.subtract(a, b) and its siblings when one input is a p-box: the forward operator of the first input, or (numpy scalar
   on the left) the reflected operator of the p-box *)
Inductive ufunc_route := ForwardOfFirst | ReflectedOfSelf.
Definition ufunc_route_of (first_is_pbox : bool) : ufunc_route := if first_is_pbox then ForwardOfFirst else ReflectedOfSelf.

Section P.
Variable N : Num.
Notation "x + y" := (nadd N x y). Notation "x - y" := (nsub N x y).
Notation "x * y" := (nmul N x y). Notation "x / y" := (ndiv N x y).
Notation "x <=? y" := (nleb N x y). Notation "x <? y" := (nltb N x y).

Definition nsort : list N -> list N := msort (nleb N).
Definition nth0 (l : list N) (i : nat) : N := nth i l nzero.
Definition maxl (l : list N) : N := match l with [] => nzero | x :: r => fold_left nmax r x end.
Definition minl (l : list N) : N := match l with [] => nzero | x :: r => fold_left nmin r x end.
Definition lastn (l : list N) : N := last l nzero.

(* ---------- pba/operation.py ---------- *)
(* frechet_op: left[i] = max_{j+k=i} op xl[j] yl[k];  right[i] = min_{j+k=n-1+i} op xr[j] yr[k]; both sorted *)
Definition frechet_left (op : N -> N -> N) (xl yl : list N) (i : nat) : N :=
  maxl (map2 op (firstn (S i) xl) (rev (firstn (S i) yl))).
Definition frechet_right (op : N -> N -> N) (xr yr : list N) (i : nat) : N :=
  minl (map2 op (skipn i xr) (rev (skipn i yr))).
Definition frechet_op (op : N -> N -> N) (xl xr yl yr : list N) : list N * list N :=
  let n := length xl in
  (nsort (map (frechet_left op xl yl) (seq 0 n)), nsort (map (frechet_right op xr yr) (seq 0 n))).

(* vectorized_cartesian_op: op(a[:,None], b).ravel()  -- row-major, a is the slow index *)
Definition cart (op : N -> N -> N) (a b : list N) : list N := flat_map (fun x => map (op x) b) a.
Definition map4 (f : N -> N -> N -> N -> N) (a b c d : list N) : list N :=
  map2 (fun p q => f (fst p) (snd p) (fst q) (snd q)) (combine a b) (combine c d).
Definition min4l := map4 (fun a b c d => nmin (nmin (nmin a b) c) d).   (* np.minimum.reduce([c1,c2,c3,c4]) *)
Definition max4l := map4 (fun a b c d => nmax (nmax (nmax a b) c) d).

Definition corners (comb : (N -> N -> N) -> list N -> list N -> list N) (op : N -> N -> N) (xl xr yl yr : list N) :=
  let c1 := comb op xl yl in let c2 := comb op xl yr in let c3 := comb op xr yl in let c4 := comb op xr yr in
  (min4l c1 c2 c3 c4, max4l c1 c2 c3 c4).
Definition perfect_op (op : N -> N -> N) (xl xr yl yr : list N) : list N * list N :=
  let '(l, r) := corners map2 op xl xr yl yr in (nsort l, nsort r).
Definition opposite_op (op : N -> N -> N) (xl xr yl yr : list N) : list N * list N :=
  let '(l, r) := corners map2 op xl xr (rev yl) (rev yr) in (nsort l, nsort r).
Definition independent_op (op : N -> N -> N) (xl xr yl yr : list N) : list N * list N :=
  let '(l, r) := corners cart op xl xr yl yr in (nsort l, nsort r).
(* new_vectorised_naive_frechet_op: first n lower values, last n upper values of the n*n combinations *)
Definition naive_frechet_op (op : N -> N -> N) (xl xr yl yr : list N) : list N * list N :=
  let n := length xl in
  let '(l, r) := independent_op op xl xr yl yr in (firstn n l, skipn (n * n - n) r).

(* ---------- pba/utils.py ---------- *)
(* np.linspace(0, len-1, number, dtype=int) *)
(* the index arithmetic is done on binary integers (i * (len - 1) reaches millions for the n*n combinations of independence);
   Proofs/DepOps.v: cond_index_nat shows it is (i * (len - 1)) / (number - 1) on nat *)
Definition cond_index (len number i : nat) : nat :=
  if Nat.eqb number 1 then 0 else Z.to_nat ((Z.of_nat i * Z.of_nat (len - 1)) / Z.of_nat (number - 1)).
Definition condensation (bound : list N) (number : nat) : list N :=
  map (fun i => nth0 bound (cond_index (length bound) number i)) (seq 0 number).
(* np.all(np.diff(arr) >= 0) *)
Fixpoint is_increasing (l : list N) : bool :=
  match l with
  | a :: ((b :: _) as r) => (nzero <=? (b - a)) && is_increasing r
  | _ => true end.
(* np.all(left >= right) on two arrays of equal length *)
Definition all_ge (l r : list N) : bool := forallb (fun p => snd p <=? fst p) (combine l r).
(* np.argmin(|array - value|): first index of the minimum distance *)
Fixpoint argmin_from (best : N) (bi : nat) (i : nat) (l : list N) : nat :=
  match l with
  | [] => bi
  | d :: r => if d <? best then argmin_from d i (S i) r else argmin_from best bi (S i) r end.
Definition find_nearest (array : list N) (value : N) : nat :=
  match map (fun a => nabs (a - value)) array with
  | [] => 0 | d :: r => argmin_from d 0 1 r end.

(* ---------- the probability grid (Params) ---------- *)
Variable steps : nat.
Variable p_lo p_hi : N.
(* np.linspace(a, b, n): i*step + a, last element forced to b *)
Definition linspace (a b : N) (n : nat) : list N :=
  match n with
  | 0 => [] | 1 => [a]
  | _ => let step := (b - a) / nofZ N (Z.of_nat (n - 1)) in
         map (fun i => if Nat.eqb i (n - 1) then b else nofZ N (Z.of_nat i) * step + a) (seq 0 n) end.
Definition p_values : list N := linspace p_lo p_hi steps.

(* interp1d(p, q, kind='next') evaluated on the grid: q[#{p_j < a}] clipped to the last index *)
Definition interp_next (p q : list N) (a : N) : N :=
  let k := length (filter (fun x => x <? a) p) in nth0 q (Nat.min k (length q - 1)).
Definition interpolate_p (p q : list N) : list N := map (interp_next p q) p_values.

Definition bound_steps_check (bound : list N) : list N :=
  if Nat.ltb steps (length bound) then condensation bound steps
  else if Nat.ltb (length bound) steps then interpolate_p (linspace p_lo p_hi (length bound)) bound
  else bound.

(* ---------- Staircase(left, right) ---------- *)
Definition pbox := (list N * list N)%type.
(* np.all(left >= right): elementwise for two arrays; for two Python lists (what sorted(...) returns in
   pbox_number_ops, __neg__, and the lists built by imp) it is ONE lexicographic list comparison *)
Fixpoint lex_ge (l r : list N) : bool :=
  match l, r with
  | [], [] => true | [], _ :: _ => false | _ :: _, [] => true
  | a :: l', b :: r' => if neqb N a b then lex_ge l' r' else (b <=? a)
  end.
Definition left_right_switch (lists : bool) (l r : list N) : list N * list N :=
  if (if lists then lex_ge l r else all_ge l r) then (r, l) else (l, r).
(* np.any(left > right): bounds that cross at some probability level are rejected *)
Definition crosses (l r : list N) : bool := existsb (fun p => snd p <? fst p) (combine l r).
Definition mk_staircase_core (lists : bool) (l r : list N) : res pbox :=
  let '(l, r) := left_right_switch lists l r in
  let l := bound_steps_check l in let r := bound_steps_check r in
  if negb (Nat.eqb (length l) (length r)) then Raise AssertionErr
  else if is_increasing l && is_increasing r then (if crosses l r then Raise ValueErr else Ok (l, r)) else Raise NotIncreasing.
(* np.all(np.isfinite(bound)): x - x = 0 holds for every finite x and fails for an infinity (inf - inf is nan); over the reals it always holds *)
Definition is_finite_n (x : N) : bool := neqb N (x - x) nzero.
Definition all_finite (l : list N) : bool := forallb is_finite_n l.
Definition mk_staircase_gen (lists : bool) (l r : list N) : res pbox :=
  rbind (mk_staircase_core lists l r) (fun p => if all_finite (fst p) && all_finite (snd p) then Ok p else Raise ValueErr).
Definition mk_staircase := mk_staircase_gen false.
Definition mk_staircase_lists := mk_staircase_gen true.

(* ---------- unary / number operations of pbox_abc.py ---------- *)
Definition pneg (p : pbox) : res pbox :=
  mk_staircase_lists (nsort (map (nopp N) (rev (snd p)))) (nsort (map (nopp N) (rev (fst p)))).
Definition precip (p : pbox) : res pbox :=
  if (nth0 (fst p) 0 <=? nzero) && (nzero <=? lastn (snd p)) then Raise ZeroDivision
  else mk_staircase (map (fun x => none / x) (rev (snd p))) (map (fun x => none / x) (rev (fst p))).
Definition pnum (f : N -> N -> N) (p : pbox) (c : N) : res pbox :=
  mk_staircase_lists (nsort (map (fun x => f x c) (fst p))) (nsort (map (fun x => f x c) (snd p))).
Definition punary (f : N -> N) (p : pbox) : res pbox := mk_staircase (map f (fst p)) (map f (snd p)).
(* Staircase.pow with a real exponent c: a negative exponent on a support containing zero raises (0 ** c is infinite); a support that
   straddles zero goes through interval powers and stacking (route0: that route is not modelled here, an arbitrary function); otherwise
   the number template with x ** c (powf) *)
Definition ppow (powf : N -> N -> N) (route0 : pbox -> N -> res pbox) (p : pbox) (c : N) : res pbox :=
  if (c <? nzero) && ((nth0 (fst p) 0 <=? nzero) && (nzero <=? lastn (snd p))) then Raise ZeroDivision
  else if (minl (fst p) <? nzero) && (nzero <? maxl (snd p)) then route0 p c
  else pnum powf p c.

(* env / imp *)
Definition penv (p q : pbox) : res pbox :=
  mk_staircase (map2 nmin (fst p) (fst q)) (map2 nmax (snd p) (snd q)).
Definition pimp (p q : pbox) : res pbox :=
  let u := map2 nmax (fst p) (fst q) in let d := map2 nmin (snd p) (snd q) in
  if existsb (fun x => snd x <? fst x) (combine u d) then Raise EmptyImp else mk_staircase_lists u d.

(* ---------- ecdf / stacking ---------- *)
(* get_ecdf(s, w): sort pairs by value (stable), cumulative sum, prepend (q0, 0) *)
Definition pair_sort (l : list (N * N)) : list (N * N) := msort (fun a b => fst a <=? fst b) l.
Fixpoint cumsum_from (acc : N) (l : list N) : list N :=
  match l with [] => [] | x :: r => let a := acc + x in a :: cumsum_from a r end.
Definition cumsum (l : list N) : list N :=
  match l with [] => [] | x :: r => x :: cumsum_from x r end.
Definition get_ecdf (s w : list N) : list N * list N :=
  let arr := pair_sort (combine s w) in
  let q := map fst arr in
  (match q with [] => [] | q0 :: _ => q0 :: q end, nzero :: cumsum (map snd arr)).
(* extend_ecdf: add probability 0 / 1 when missing *)
Definition extend_ecdf (qp : list N * list N) : list N * list N :=
  let '(q, p) := qp in
  let '(q, p) := match p, q with
                 | p0 :: _, q0 :: _ => if neqb N p0 nzero then (q, p) else (q0 :: q, nzero :: p)
                 | _, _ => (q, p) end in
  if neqb N (last p nzero) none then (q, p) else (q ++ [last q nzero], p ++ [none]).
Definition from_cdfbundle (a b : list N * list N) : res pbox :=
  let '(qa, pa) := extend_ecdf a in let '(qb, pb) := extend_ecdf b in
  mk_staircase (interpolate_p pa qa) (interpolate_p pb qb).
Definition stacking (lo hi w : list N) : res pbox := from_cdfbundle (get_ecdf lo w) (get_ecdf hi w).

(* ---------- queries ---------- *)
Definition alpha_cut (p : pbox) (a : N) : N * N :=
  let i := find_nearest p_values a in (nth0 (fst p) i, nth0 (snd p) i).
Definition pcdf (p : pbox) (x : N) : N * N :=
  (nth0 p_values (find_nearest (snd p) x), nth0 p_values (find_nearest (fst p) x)).
(* discretise(n): the focal intervals themselves for the native count, else alpha-cuts on linspace(p_lo, p_hi, n) *)
Definition discretise (p : pbox) (n : nat) : list (N * N) :=
  if Nat.eqb n steps then combine (fst p) (snd p) else map (alpha_cut p) (linspace p_lo p_hi n).
(* outer_discretisation(n): left bound at the lower level paired with right bound at the upper level *)
Definition outer_levels (n : option nat) : list N := match n with Some k => linspace p_lo p_hi k | None => p_values end.
Definition outer_discretisation (p : pbox) (n : option nat) : list (N * N) :=
  let pv := outer_levels n in
  map2 (fun a b => (fst (alpha_cut p a), snd (alpha_cut p b))) (removelast pv) (tl pv).
(* condensation(n) = stacking of the outer intervals with equal weights 1/len *)
Definition equal_weights (k : nat) : list N := repeat (none / nofZ N (Z.of_nat k)) k.
Definition pcondensation (p : pbox) (n : nat) : res pbox :=
  let iv := outer_discretisation p (Some n) in
  (* make_vec_interval asserts len(vec) > 1 *)
  if Nat.leb (length iv) 1 then Raise AssertionErr else stacking (map fst iv) (map snd iv) (equal_weights (length iv)).
(* get_PI(alpha, style): Interval(lo, hi) asserts lo <= hi; 'narrowest' falls back to 'widest' *)
Definition pi_levels (alpha : N) : N * N := let lc := (none - alpha) / nofZ N 2 in (lc, none - lc).
Definition pi_widest (p : pbox) (alpha : N) : res (N * N) :=
  let '(lc, hc) := pi_levels alpha in
  let lo := fst (alpha_cut p lc) in let hi := snd (alpha_cut p hc) in
  if lo <=? hi then Ok (lo, hi) else Raise AssertionErr.
Definition pi_narrowest (p : pbox) (alpha : N) : res (N * N) :=
  let '(lc, hc) := pi_levels alpha in
  let lo := snd (alpha_cut p lc) in let hi := fst (alpha_cut p hc) in
  if lo <=? hi then Ok (lo, hi) else pi_widest p alpha.
End P.
