(* Model of pba/context.py: a context variable (default 'f') set through a token-based context manager,
   one value per execution context (thread / asyncio task). Definitions only. *)
From Coq Require Import List Arith Bool.
Import ListNotations.

Inductive dcode := DepF | DepP | DepO | DepI | DepUnknown.
(* events of one execution context; a block is identified by the token its enter created *)
Inductive ev := Enter (b : nat) (d : dcode)      (* token_b = var.set(d) *)
              | Exit (b : nat)                    (* var.reset(token_b): normal exit, exception, generator close *)
              | Read.                             (* get_current_dependency() *)
Record cstate := mkC { cur : dcode; saved : list (nat * dcode) }.   (* current value; live tokens with the value they restore *)
Definition cinit : cstate := mkC DepF [].

Fixpoint lookup (b : nat) (l : list (nat * dcode)) : option dcode :=
  match l with [] => None | (k, v) :: r => if Nat.eqb k b then Some v else lookup b r end.
Fixpoint remove_tok (b : nat) (l : list (nat * dcode)) : list (nat * dcode) :=
  match l with [] => [] | (k, v) :: r => if Nat.eqb k b then r else (k, v) :: remove_tok b r end.

(* contextvars.ContextVar within one execution context: set returns a token remembering the previous value, reset(token) puts that value
   back and uses the token up, get reads the current value.  (These three definitions are the assumed meaning of the library calls the
   translated context manager makes - Gen/GenCtx.v.) *)
Definition cv_set (c : cstate) (b : nat) (d : dcode) : cstate := mkC d ((b, cur c) :: saved c).
Definition cv_reset (c : cstate) (b : nat) : option cstate :=
  match lookup b (saved c) with Some v => Some (mkC v (remove_tok b (saved c))) | None => None end.
Definition cv_get (c : cstate) : dcode := cur c.

(* one event; the observation is the value of get_current_dependency() right after it (None: token misuse, RuntimeError) *)
Definition step1 (c : cstate) (e : ev) : cstate * option dcode :=
  match e with
  | Enter b d => (mkC d ((b, cur c) :: saved c), Some d)
  | Exit b => match lookup b (saved c) with
              | Some v => (mkC v (remove_tok b (saved c)), Some v)
              | None => (c, None) end
  | Read => (c, Some (cur c))
  end.
Fixpoint run1 (c : cstate) (h : list ev) : list (option dcode) * cstate :=
  match h with [] => ([], c) | e :: t => let '(c', o) := step1 c e in let '(tr, c'') := run1 c' t in (o :: tr, c'') end.

(* several execution contexts, any interleaving *)
Definition eid := nat.
Definition state := eid -> cstate.
Definition upd (s : state) (i : eid) (c : cstate) : state := fun j => if Nat.eqb j i then c else s j.
Fixpoint run (s : state) (h : list (eid * ev)) : list (eid * option dcode) * state :=
  match h with [] => ([], s)
  | (i, e) :: t => let '(c', o) := step1 (s i) e in let '(tr, s') := run (upd s i c') t in ((i, o) :: tr, s') end.
Definition proj {A} (i : eid) (h : list (eid * A)) : list A := map snd (filter (fun p => Nat.eqb (fst p) i) h).

(* start of a new execution context: a thread starts from the default, an asyncio task from a copy of its creator's value
   (tokens of the creator are not usable in the copy) *)
Definition spawn_thread : cstate := cinit.
Definition spawn_task (parent : cstate) : cstate := mkC (cur parent) [].

(* well-bracketed blocks: with dependency(d): body *)
Inductive block := Blk (b : nat) (d : dcode) (body : list block).
Fixpoint events (bl : block) : list ev :=
  match bl with Blk b d body => Enter b d :: (fix go (l : list block) := match l with [] => [] | x :: r => events x ++ Read :: go r end) body ++ [Exit b] end.

(* dispatch of the bare operators: the ambient code selects the explicit method; an unknown code fails *)
Definition known (d : dcode) : bool := match d with DepUnknown => false | _ => true end.
