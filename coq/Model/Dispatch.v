(* Meaning of the operator dunders that pba/mixins.py installs on Dempster-Shafer structures: each converts self to its
   p-box view P(self) and invokes a dunder of that p-box with the (converted) other operand. *)
From Coq Require Import String List Bool.
From PUN Require Import Gen.GenDispatch.
Import ListNotations.
Open Scope string_scope.

Fixpoint lookup_s (k : string) (t : list (string * string)) : option string :=
  match t with [] => None | (a, b) :: r => if String.eqb a k then Some b else lookup_s k r end.

Section Sem.
Variable V : Type.                       (* p-box values *)
Variable bin : string -> V -> V -> V.    (* bin "__sub__" x y = x - y  etc.: the forward operation of the p-box calculus *)

(* Python data model: x.__op__(y) = x op y,  x.__rop__(y) = y op x *)
Definition pbox_dunder (name : string) (receiver arg : V) : option V :=
  if existsb (fun p => String.eqb (fst p) name) refl_names then Some (bin name receiver arg)
  else match find (fun p => String.eqb (snd p) name) refl_names with
       | Some (fwd, _) => Some (bin fwd arg receiver)
       | None => None end.
(* what the installed dunder of a DS structure computes, given the p-box views of self and other *)
Definition dss_dunder (name : string) (self other : V) : option V :=
  match lookup_s name dss_installed with
  | Some invoked => pbox_dunder invoked self other
  | None => None end.
End Sem.
