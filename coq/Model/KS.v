(* Model of KS_bounds (pba/pbox_free.py) and imprecise_ecdf (pba/imprecise.py). Definitions only. *)
From Coq Require Import List Bool ZArith.
From PUN Require Import Base.Num Model.Interval Model.Pbox.
Import ListNotations.

Section K.
Variable N : Num.
(* logical_bounding: np.where(a < 0, 0, a) then np.where(a < 1, a, 1) *)
Definition clip (a : N) : N := let a := if nltb N a nzero then nzero else a in if nltb N a none then a else none.
Definition equal_w (n : nat) : list N := repeat (ndiv N none (nofZ N (Z.of_nat n))) n.
(* precise data: one quantile grid, upper bound p + D, lower bound p - D, clipped *)
Definition ks_precise (s : list N) (D : N) : list N * list N * list N :=
  let '(q, p) := get_ecdf N s (equal_w (length s)) in
  (q, map (fun x => clip (nadd N x D)) p, map (fun x => clip (nsub N x D)) p).
(* interval data: ecdf of the lower endpoints shifted up, ecdf of the upper endpoints shifted down *)
Definition ks_interval (lo hi : list N) (D : N) : (list N * list N) * (list N * list N) :=
  let '(q1, p1) := get_ecdf N lo (equal_w (length lo)) in
  let '(q2, p2) := get_ecdf N hi (equal_w (length hi)) in
  ((q1, map (fun x => clip (nadd N x D)) p1), (q2, map (fun x => clip (nsub N x D)) p2)).
End K.
