(* Meaning of the numpy constructs that tools/translate_kernels.py recognises in pba/operation.py (definitions only).
   Indices are assumed to be in range: numpy's wrap-around of negative indices is NOT modelled; Proofs/Kernels.v shows that every index
   produced by the translated kernels lies in range when the four bound arrays have the same length. *)
From Coq Require Import List ZArith.
From PUN Require Import Base.Num Model.Interval Model.Pbox.
Import ListNotations.

(* np.arange(a, b): a, a+1, ..., b-1;   np.arange(a, b, -1): a, a-1, ..., b+1 *)
Definition arange_up (a b : Z) : list nat := map (fun k => Z.to_nat (a + Z.of_nat k)) (seq 0 (Z.to_nat (b - a))).
Definition arange_down (a b : Z) : list nat := map (fun k => Z.to_nat (a - Z.of_nat k)) (seq 0 (Z.to_nat (a - b))).
(* fancy indexing arr[idx] *)
Definition gather {N : Num} (l : list N) (idx : list nat) : list N := map (fun j => nth j l (@nzero N)) idx.
(* np.min / np.max of a non-empty array; np.minimum.reduce / np.maximum.reduce of four equal-length arrays; op(a[:, None], b).ravel() *)
Definition amin (N : Num) (l : list N) : N := minl N l.
Definition amax (N : Num) (l : list N) : N := maxl N l.
Definition emin4 (N : Num) (a b c d : list N) : list N := min4l N a b c d.
Definition emax4 (N : Num) (a b c d : list N) : list N := max4l N a b c d.
Definition cartesian {N : Num} (op : N -> N -> N) (a b : list N) : list N := cart N op a b.
