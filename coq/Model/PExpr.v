(* Nested p-box expressions as a user composes them (pbox_abc.py): constructor leaves, number operations on either side,
   negation, reciprocal, monotone maps, binary arithmetic under a dependency, envelope, imposition.  Definitions only. *)
From Coq Require Import List Bool ZArith Arith.
From PUN Require Import Base.Num Base.Sort Model.Interval Model.Pbox Model.PboxArith.
Import ListNotations.

Section E.
Variable N : Num.
Variable steps : nat.
Variable p_lo p_hi : N.
Notation pb := (pbox N).

Inductive numop := KAdd | KSub | KRSub | KMul | KDiv | KRDiv.
Inductive pexpr :=
| ELeaf (l r : list N)                             (* Staircase(left, right) *)
| ENum (k : numop) (e : pexpr) (c : N)             (* e + c, e - c, c - e, e * c, e / c, c / e  (c a Python number) *)
| ENeg (e : pexpr)
| ERecip (e : pexpr)
| EMap (f : N -> N) (dom : N -> bool) (e : pexpr)  (* exp, log, sqrt: dom = the function's domain test on the bounds *)
| EBin (o : bop) (d : dep) (e1 e2 : pexpr)
| EEnv (e1 e2 : pexpr)
| EImp (e1 e2 : pexpr).

Definition num_eval (k : numop) (p : pb) (c : N) : res pb :=
  match k with
  | KAdd => pnum N steps p_lo p_hi (nadd N) p c
  | KSub => pnum N steps p_lo p_hi (nadd N) p (nopp N c)
  | KRSub => rbind (pneg N steps p_lo p_hi p) (fun q => pnum N steps p_lo p_hi (nadd N) q c)
  | KMul => pnum N steps p_lo p_hi (nmul N) p c
  | KDiv => if neqb N c nzero then Raise ZeroDivision else pnum N steps p_lo p_hi (nmul N) p (ndiv N none c)
  | KRDiv => match rbind (precip N steps p_lo p_hi p) (fun q => pnum N steps p_lo p_hi (nmul N) q c) with
             | Ok r => Ok r | _ => Raise TypeErr end
  end.
Definition bin_eval (o : bop) (d : dep) (x y : pb) : res pb :=
  match o with
  | Add => padd N steps p_lo p_hi d x y | Sub => psub N steps p_lo p_hi d x y
  | Mul => pmul N steps p_lo p_hi d x y | Div => pdiv N steps p_lo p_hi d x y end.
Definition map_eval (f : N -> N) (dom : N -> bool) (p : pb) : res pb :=
  if forallb dom (fst p) && forallb dom (snd p) then punary N steps p_lo p_hi f p else Raise ValueErr.

Fixpoint peval (e : pexpr) : res pb :=
  match e with
  | ELeaf l r => mk_staircase N steps p_lo p_hi l r
  | ENum k e c => rbind (peval e) (fun p => num_eval k p c)
  | ENeg e => rbind (peval e) (pneg N steps p_lo p_hi)
  | ERecip e => rbind (peval e) (precip N steps p_lo p_hi)
  | EMap f dom e => rbind (peval e) (map_eval f dom)
  | EBin o d e1 e2 => rbind (peval e1) (fun x => rbind (peval e2) (fun y => bin_eval o d x y))
  | EEnv e1 e2 => rbind (peval e1) (fun x => rbind (peval e2) (fun y => penv N steps p_lo p_hi x y))
  | EImp e1 e2 => rbind (peval e1) (fun x => rbind (peval e2) (fun y => pimp N steps p_lo p_hi x y))
  end.
Fixpoint depth (e : pexpr) : nat :=
  match e with
  | ELeaf _ _ => 0
  | ENum _ e _ | ENeg e | ERecip e | EMap _ _ e => S (depth e)
  | EBin _ _ a b | EEnv a b | EImp a b => S (Nat.max (depth a) (depth b)) end.
End E.
