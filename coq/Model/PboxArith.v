(* Model of Pbox.add / sub / mul / div under the four dependency assumptions (pbox_abc.py). *)
From Coq Require Import List Bool ZArith Arith.
From PUN Require Import Base.Num Base.Sort Model.Interval Model.Pbox.
Import ListNotations.

Inductive dep := DF | DP | DO | DI.
Definition swap_po (d : dep) : dep := match d with DP => DO | DO => DP | _ => d end.

Section A.
Variable N : Num.
Variable steps : nat.
Variable p_lo p_hi : N.
Notation mk := (mk_staircase N steps p_lo p_hi).
Notation pb := (pbox N).

Definition dep_op (d : dep) := match d with DF => frechet_op N | DP => perfect_op N | DO => opposite_op N | DI => independent_op N end.

Definition padd (d : dep) (p q : pb) : res pb :=
  let '(l, r) := dep_op d (nadd N) (fst p) (snd p) (fst q) (snd q) in mk (nsort N l) (nsort N r).
Definition psub (d : dep) (p q : pb) : res pb :=
  rbind (pneg N steps p_lo p_hi q) (fun nq => padd (swap_po d) p nq).

(* p-box states used by the routing of the Frechet product *)
Definition p_lo_ (p : pb) : N := nth0 N (fst p) 0.
Definition p_hi_ (p : pb) : N := lastn N (snd p).
Definition straddles_zero (p : pb) : bool :=
  nltb N (minl N (fst p)) nzero && nltb N nzero (maxl N (snd p)).
Definition classic_mul (p q : pb) : res pb :=
  let '(l, r) := frechet_op N (nmul N) (fst p) (snd p) (fst q) (snd q) in mk l r.
(* frechet_pbox_mul; the zero-straddling route (naive + Balch product + imposition) is not modelled: NotImpl *)
Definition frechet_mul (p q : pb) : res pb :=
  if straddles_zero p || straddles_zero q then NotImpl
  else if nleb N (p_hi_ p) nzero || nleb N (p_hi_ q) nzero then
    let nx := nleb N (p_hi_ p) nzero in let ny := nleb N (p_hi_ q) nzero in
    rbind (if nx then pneg N steps p_lo p_hi p else Ok p) (fun a =>
    rbind (if ny then pneg N steps p_lo p_hi q else Ok q) (fun b =>
    rbind (classic_mul a b) (fun r => if xorb nx ny then pneg N steps p_lo p_hi r else Ok r)))
  else classic_mul p q.
Definition pmul (d : dep) (p q : pb) : res pb :=
  match d with
  | DF => frechet_mul p q
  | _ => let '(l, r) := dep_op d (nmul N) (fst p) (snd p) (fst q) (snd q) in mk l r
  end.
(* 1 / q  =  q.__rtruediv__(1) = 1 * q.reciprocal() : reciprocal, then the number template with c = 1 *)
Definition one_over (q : pb) : res pb :=
  match rbind (precip N steps p_lo p_hi q) (fun rq => pnum N steps p_lo p_hi (nmul N) rq none) with
  | Ok r => Ok r
  | _ => Raise TypeErr      (* __rtruediv__: any exception => NotImplemented => TypeError *)
  end.
Definition pdiv (d : dep) (p q : pb) : res pb :=
  rbind (one_over q) (fun rq => pmul (swap_po d) p rq).
End A.
