(* Model of Pbox.add / sub / mul / div under the four dependency assumptions (pbox_abc.py). *)
From Coq Require Import List Bool ZArith Arith.
From PUN Require Import Base.Num Base.Sort Model.Interval Model.Pbox.
Import ListNotations.

Inductive dep := DF | DP | DO | DI.
Definition swap_po (d : dep) : dep := match d with DP => DO | DO => DP | _ => d end.

Section A.
Variable N : Num.
Variable steps : nat.
Variable p_lo p_hi : N.
Notation mk := (mk_staircase N steps p_lo p_hi).
Notation pb := (pbox N).

Definition dep_op (d : dep) := match d with DF => frechet_op N | DP => perfect_op N | DO => opposite_op N | DI => independent_op N end.

Definition padd (d : dep) (p q : pb) : res pb :=
  let '(l, r) := dep_op d (nadd N) (fst p) (snd p) (fst q) (snd q) in mk (nsort N l) (nsort N r).
Definition psub (d : dep) (p q : pb) : res pb :=
  rbind (pneg N steps p_lo p_hi q) (fun nq => padd (swap_po d) p nq).

(* p-box states used by the routing of the Frechet product *)
Definition p_lo_ (p : pb) : N := nth0 N (fst p) 0.
Definition p_hi_ (p : pb) : N := lastn N (snd p).
Definition straddles_zero (p : pb) : bool :=
  nltb N (minl N (fst p)) nzero && nltb N nzero (maxl N (snd p)).
Definition classic_mul (p q : pb) : res pb :=
  let '(l, r) := frechet_op N (nmul N) (fst p) (snd p) (fst q) (snd q) in mk l r.
(* frechet_pbox_mul without the zero-straddling route (operands of one sign each) *)
Definition frechet_mul_signed (p q : pb) : res pb :=
  if nleb N (p_hi_ p) nzero || nleb N (p_hi_ q) nzero then
    let nx := nleb N (p_hi_ p) nzero in let ny := nleb N (p_hi_ q) nzero in
    rbind (if nx then pneg N steps p_lo p_hi p else Ok p) (fun a =>
    rbind (if ny then pneg N steps p_lo p_hi q else Ok q) (fun b =>
    rbind (classic_mul a b) (fun r => if xorb nx ny then pneg N steps p_lo p_hi r else Ok r)))
  else classic_mul p q.
Definition classic_add (p q : pb) : res pb :=
  let '(l, r) := frechet_op N (nadd N) (fst p) (snd p) (fst q) (snd q) in mk l r.
(* vectorised_naive_frechet_pbox: the n lowest lower products and the n highest upper products of the n*n step pairs *)
Definition naive_mul (p q : pb) : res pb :=
  let '(l, r) := naive_frechet_op N (nmul N) (fst p) (snd p) (fst q) (snd q) in mk l r.
(* Pbox.balchprod(self = p, other = q), as reached from straddle_frechet_pbox (q straddles zero):
   shift the straddling operand(s) to start at zero, multiply the shifted non-negative parts, add the cross terms back *)
Definition balchprod (p q : pb) : res pb :=
  if straddles_zero p && straddles_zero q then
    let x0 := p_lo_ p in let y0 := p_lo_ q in
    rbind (pnum N steps p_lo p_hi (nsub N) p x0) (fun xx0 =>
    rbind (pnum N steps p_lo p_hi (nsub N) q y0) (fun yy0 =>
    rbind (frechet_mul_signed xx0 yy0) (fun a =>
    rbind (pnum N steps p_lo p_hi (nmul N) xx0 y0) (fun b1 =>
    rbind (pnum N steps p_lo p_hi (nmul N) yy0 x0) (fun b2 =>
    rbind (classic_add b1 b2) (fun b =>
    rbind (classic_add a b) (fun r => pnum N steps p_lo p_hi (nadd N) r (nmul N x0 y0))))))))
  else if straddles_zero p then NotImpl         (* not reachable from the product: the straddling operand is always passed second *)
  else if straddles_zero q then
    let y0 := p_lo_ q in
    rbind (pnum N steps p_lo p_hi (nsub N) q y0) (fun yy0 =>
    rbind (frechet_mul_signed p yy0) (fun a =>
    rbind (pnum N steps p_lo p_hi (nmul N) p y0) (fun b => classic_add a b)))
  else frechet_mul_signed p q.
(* straddle_frechet_pbox(x, y): imposition of the naive bound and the Balch product *)
Definition straddle_mul (p q : pb) : res pb :=
  rbind (naive_mul p q) (fun nv => rbind (balchprod p q) (fun bp => pimp N steps p_lo p_hi nv bp)).
(* frechet_pbox_mul *)
Definition frechet_mul (p q : pb) : res pb :=
  if straddles_zero p || straddles_zero q then
    (if straddles_zero q then straddle_mul p q else straddle_mul q p)
  else frechet_mul_signed p q.
Definition pmul (d : dep) (p q : pb) : res pb :=
  match d with
  | DF => frechet_mul p q
  | _ => let '(l, r) := dep_op d (nmul N) (fst p) (snd p) (fst q) (snd q) in mk l r
  end.
(* 1 / q  =  q.__rtruediv__(1) = 1 * q.reciprocal() : reciprocal, then the number template with c = 1 *)
Definition one_over (q : pb) : res pb :=
  match rbind (precip N steps p_lo p_hi q) (fun rq => pnum N steps p_lo p_hi (nmul N) rq none) with
  | Ok r => Ok r
  | _ => Raise TypeErr      (* __rtruediv__: any exception => NotImplemented => TypeError *)
  end.
Definition pdiv (d : dep) (p q : pb) : res pb :=
  rbind (one_over q) (fun rq => pmul (swap_po d) p rq).
End A.
