(* Model of Pbox.add / sub / mul / div under the four dependency assumptions (pbox_abc.py). *)
From Coq Require Import List Bool ZArith Arith.
From PUN Require Import Base.Num Base.Sort Model.Interval Model.Pbox.
From PUN Require Export Model.PboxBase.
Import ListNotations.

Section A.
Variable N : Num.
Variable steps : nat.
Variable p_lo p_hi : N.
Notation mk := (mk_staircase N steps p_lo p_hi).
Notation pb := (pbox N).

Definition dep_op (d : dep) := match d with DF => frechet_op N | DP => perfect_op N | DO => opposite_op N | DI => independent_op N end.

Definition padd (d : dep) (p q : pb) : res pb :=
  let '(l, r) := dep_op d (nadd N) (fst p) (snd p) (fst q) (snd q) in mk (nsort N l) (nsort N r).
Definition psub (d : dep) (p q : pb) : res pb :=
  rbind (pneg N steps p_lo p_hi q) (fun nq => padd (swap_po d) p nq).

(* ---------- the default (Frechet) product: frechet_pbox_mul and its helpers ----------
   Hand-kept model of pbox_abc.py: classic_frechet_pbox, vectorised_naive_frechet_pbox, nagative_frechet_pbox (sic), frechet_pbox_mul,
   straddle_frechet_pbox (naive bound, Balch product, imposition) and Staircase.balchprod.  The last three call each other (the Balch
   product multiplies shifted, non-negative operands), hence the explicit fuel.  Proofs/Glue.v proves that the functions TRANSLATED from the
   source on every run (Gen/GenGlue.v) are equal to these, so a change of the source breaks that proof while this model - the one the
   implementation is compared with - keeps the intended behaviour. *)
Definition m_classic_frechet_pbox (x y : pb) (op : N -> N -> N) : res pb :=
  (let '(v_left, v_right) := frechet_op N op (fst x) (snd x) (fst y) (snd y) in
    (rbind (mk v_left v_right) (fun v_p =>
    (Ok v_p)))).

Definition m_vectorised_naive_frechet_pbox (x y : pb) (op : N -> N -> N) : res pb :=
  (let '(v_Zu, v_Zd) := naive_frechet_op N op (fst x) (snd x) (fst y) (snd y) in
    (rbind (mk v_Zu v_Zd) (fun v_p =>
    (Ok v_p)))).

Definition m_nagative_frechet_pbox (x y : pb) : res pb :=
  (if ((nleb N (p_hi_ N x) nzero) || (nleb N (p_hi_ N y) nzero)) then (rbind (if (nleb N (p_hi_ N x) nzero) then (pneg N steps p_lo p_hi x) else (Ok x)) (fun v_a =>
    (rbind (if (nleb N (p_hi_ N y) nzero) then (pneg N steps p_lo p_hi y) else (Ok y)) (fun v_b =>
    (rbind (m_classic_frechet_pbox v_a v_b (nmul N)) (fun v_result =>
    (if (xorb (nleb N (p_hi_ N x) nzero) (nleb N (p_hi_ N y) nzero)) then (pneg N steps p_lo p_hi v_result) else (Ok v_result))))))))
   else (Raise OtherExn)).


Fixpoint m_frechet_pbox_mul (fuel : nat) (x y : pb) {struct fuel} : res pb :=
  match fuel with
  | O => NotImpl
  | S fuel =>
    let balchprod_ := (fun self other : pb =>
  (if ((straddles_zero N self) && (straddles_zero N other)) then (let v_x0 := (p_lo_ N self) in
    (let v_y0 := (p_lo_ N other) in
    (rbind (pnum N steps p_lo p_hi (nsub N) self v_x0) (fun v_xx0 =>
    (rbind (pnum N steps p_lo p_hi (nsub N) other v_y0) (fun v_yy0 =>
    (rbind (m_frechet_pbox_mul fuel v_xx0 v_yy0) (fun v_a =>
    (rbind (pnum N steps p_lo p_hi (nmul N) v_xx0 v_y0) (fun t1 =>
    (rbind (pnum N steps p_lo p_hi (nmul N) v_yy0 v_x0) (fun v_b2 =>
    (let v_b1 := t1 in (rbind (m_classic_frechet_pbox v_b1 v_b2 (nadd N)) (fun v_b =>
    (rbind (m_classic_frechet_pbox v_a v_b (nadd N)) (fun t2 =>
    (pnum N steps p_lo p_hi (nadd N) t2 (nmul N v_x0 v_y0)))))))))))))))))))
   else (if (straddles_zero N self) then (let v_x0 := (p_lo_ N self) in
    (rbind (pnum N steps p_lo p_hi (nsub N) self v_x0) (fun v_xx0 =>
    (rbind (m_frechet_pbox_mul fuel v_xx0 other) (fun v_a =>
    (rbind (pnum N steps p_lo p_hi (nmul N) other v_x0) (fun v_b =>
    (m_classic_frechet_pbox v_a v_b (nadd N)))))))))
   else (if (straddles_zero N other) then (let v_y0 := (p_lo_ N other) in
    (rbind (pnum N steps p_lo p_hi (nsub N) other v_y0) (fun v_yy0 =>
    (rbind (m_frechet_pbox_mul fuel self v_yy0) (fun v_a =>
    (rbind (pnum N steps p_lo p_hi (nmul N) self v_y0) (fun v_b =>
    (m_classic_frechet_pbox v_a v_b (nadd N)))))))))
   else (m_frechet_pbox_mul fuel self other))))) in
    let straddle_ := (fun x y : pb =>
  (rbind (m_vectorised_naive_frechet_pbox x y (nmul N)) (fun v_naive_base_p =>
    (rbind (balchprod_ x y) (fun v_balch_p =>
    (rbind (pimp N steps p_lo p_hi v_naive_base_p v_balch_p) (fun v_imp_p =>
    (Ok v_imp_p)))))))) in
  (if ((straddles_zero N x) || (straddles_zero N y)) then (if (straddles_zero N y) then (straddle_ x y)
   else (straddle_ y x))
   else (if ((nleb N (p_hi_ N x) nzero) || (nleb N (p_hi_ N y) nzero)) then (m_nagative_frechet_pbox x y)
   else (m_classic_frechet_pbox x y (nmul N))))
  end.

Definition m_balchprod (fuel : nat) (self other : pb) : res pb :=
  (if ((straddles_zero N self) && (straddles_zero N other)) then (let v_x0 := (p_lo_ N self) in
    (let v_y0 := (p_lo_ N other) in
    (rbind (pnum N steps p_lo p_hi (nsub N) self v_x0) (fun v_xx0 =>
    (rbind (pnum N steps p_lo p_hi (nsub N) other v_y0) (fun v_yy0 =>
    (rbind (m_frechet_pbox_mul fuel v_xx0 v_yy0) (fun v_a =>
    (rbind (pnum N steps p_lo p_hi (nmul N) v_xx0 v_y0) (fun t1 =>
    (rbind (pnum N steps p_lo p_hi (nmul N) v_yy0 v_x0) (fun v_b2 =>
    (let v_b1 := t1 in (rbind (m_classic_frechet_pbox v_b1 v_b2 (nadd N)) (fun v_b =>
    (rbind (m_classic_frechet_pbox v_a v_b (nadd N)) (fun t2 =>
    (pnum N steps p_lo p_hi (nadd N) t2 (nmul N v_x0 v_y0)))))))))))))))))))
   else (if (straddles_zero N self) then (let v_x0 := (p_lo_ N self) in
    (rbind (pnum N steps p_lo p_hi (nsub N) self v_x0) (fun v_xx0 =>
    (rbind (m_frechet_pbox_mul fuel v_xx0 other) (fun v_a =>
    (rbind (pnum N steps p_lo p_hi (nmul N) other v_x0) (fun v_b =>
    (m_classic_frechet_pbox v_a v_b (nadd N)))))))))
   else (if (straddles_zero N other) then (let v_y0 := (p_lo_ N other) in
    (rbind (pnum N steps p_lo p_hi (nsub N) other v_y0) (fun v_yy0 =>
    (rbind (m_frechet_pbox_mul fuel self v_yy0) (fun v_a =>
    (rbind (pnum N steps p_lo p_hi (nmul N) self v_y0) (fun v_b =>
    (m_classic_frechet_pbox v_a v_b (nadd N)))))))))
   else (m_frechet_pbox_mul fuel self other)))).

Definition m_straddle_frechet_pbox (fuel : nat) (x y : pb) : res pb :=
  (rbind (m_vectorised_naive_frechet_pbox x y (nmul N)) (fun v_naive_base_p =>
    (rbind (m_balchprod fuel x y) (fun v_balch_p =>
    (rbind (pimp N steps p_lo p_hi v_naive_base_p v_balch_p) (fun v_imp_p =>
    (Ok v_imp_p))))))).


Definition mul_fuel : nat := 4.
Definition frechet_mul (p q : pb) : res pb := m_frechet_pbox_mul mul_fuel p q.
Definition classic_mul (p q : pb) : res pb := m_classic_frechet_pbox p q (nmul N).
Definition pmul (d : dep) (p q : pb) : res pb :=
  match d with
  | DF => frechet_mul p q
  | _ => let '(l, r) := dep_op d (nmul N) (fst p) (snd p) (fst q) (snd q) in mk l r
  end.
(* 1 / q  =  q.__rtruediv__(1) *)
Definition one_over (q : pb) : res pb := prdiv N steps p_lo p_hi none q.
Definition pdiv (d : dep) (p q : pb) : res pb :=
  rbind (one_over q) (fun rq => pmul (swap_po d) p rq).
End A.
