(* Model of Pbox.add / sub / mul / div under the four dependency assumptions (pbox_abc.py). *)
From Coq Require Import List Bool ZArith Arith.
From PUN Require Import Base.Num Base.Sort Model.Interval Model.Pbox Gen.GenGlue.
From PUN Require Export Model.PboxBase.
Import ListNotations.

Section A.
Variable N : Num.
Variable steps : nat.
Variable p_lo p_hi : N.
Notation mk := (mk_staircase N steps p_lo p_hi).
Notation pb := (pbox N).

Definition dep_op (d : dep) := match d with DF => frechet_op N | DP => perfect_op N | DO => opposite_op N | DI => independent_op N end.

Definition padd (d : dep) (p q : pb) : res pb :=
  let '(l, r) := dep_op d (nadd N) (fst p) (snd p) (fst q) (snd q) in mk (nsort N l) (nsort N r).
Definition psub (d : dep) (p q : pb) : res pb :=
  rbind (pneg N steps p_lo p_hi q) (fun nq => padd (swap_po d) p nq).

Notation p_lo_ := (PboxBase.p_lo_ N).
Notation p_hi_ := (PboxBase.p_hi_ N).
Notation straddles_zero := (PboxBase.straddles_zero N).
Definition classic_mul (p q : pb) : res pb :=
  let '(l, r) := frechet_op N (nmul N) (fst p) (snd p) (fst q) (snd q) in mk l r.
Definition classic_add (p q : pb) : res pb :=
  let '(l, r) := frechet_op N (nadd N) (fst p) (snd p) (fst q) (snd q) in mk l r.
(* frechet_pbox_mul, nagative_frechet_pbox, straddle_frechet_pbox (naive bound, Balch product, imposition) and Staircase.balchprod are the
   functions TRANSLATED from pba/pbox_abc.py on every run (Gen/GenGlue.v).  They call each other recursively (the Balch product multiplies
   shifted, non-negative operands); the translation carries explicit fuel, and four levels are more than any call chain needs. *)
Definition mul_fuel : nat := 4.
Definition frechet_mul (p q : pb) : res pb := gen_frechet_pbox_mul N steps p_lo p_hi mul_fuel p q.
Definition pmul (d : dep) (p q : pb) : res pb :=
  match d with
  | DF => frechet_mul p q
  | _ => let '(l, r) := dep_op d (nmul N) (fst p) (snd p) (fst q) (snd q) in mk l r
  end.
(* 1 / q  =  q.__rtruediv__(1) *)
Definition one_over (q : pb) : res pb := prdiv N steps p_lo p_hi none q.
Definition pdiv (d : dep) (p q : pb) : res pb :=
  rbind (one_over q) (fun rq => pmul (swap_po d) p rq).
End A.
