(* Model of calibration/tmcmc.py: the bisection on the tempering exponent (compute_beta_update_evidence) and the
   Metropolis-Hastings mutation (MCMC_MH).  Library calls are oracles: the effective sample size of the re-weighted particles as
   a function of the candidate exponent, the log-prior and log-likelihood of a proposal, the proposal increments and the logs of
   the uniform draws.  Definitions only. *)
From Coq Require Import List Bool ZArith Arith.
From PUN Require Import Base.Num.
Import ListNotations.

(* ---------- the bisection ---------- *)
Section Beta.
Variable N : Num.
Variable ess : nat -> N -> Z.        (* int(1 / sum(Wm_n ** 2)) for the candidate exponent (k-th evaluation) *)
Variable tol : N.                    (* 1e-8 *)
Variable rN : N.                     (* max(0.95 * prev_ESS, 50) *)
Definition two : N := nofZ N 2.
Definition half : N := ndiv N (nofZ N 1) (nofZ N 2).
Record bstate := mkB { b_min : N; b_max : N; b_new : N; b_ess : Z; b_iter : nat; b_hit : bool }.
(* one pass of the while body; b_hit records the `ESS == rN: break` *)
Definition bstep (s : bstate) : bstate :=
  let nb := nmul N half (nadd N (b_max s) (b_min s)) in
  let e := ess (b_iter s) nb in
  let ef := nofZ N e in
  if neqb N ef rN then mkB (b_min s) (b_max s) nb e (S (b_iter s)) true
  else if nltb N ef rN then mkB (b_min s) nb nb e (S (b_iter s)) false
  else mkB nb (b_max s) nb e (S (b_iter s)) false.
Definition bcond (s : bstate) : bool := negb (b_hit s) && nltb N tol (nsub N (b_max s) (b_min s)).
Fixpoint bloop (fuel : nat) (s : bstate) : option bstate :=
  if bcond s then match fuel with O => None | S f => bloop f (bstep s) end else Some s.
Definition bisect (beta : N) (fuel : nat) : option bstate := bloop fuel (mkB beta two beta 0%Z 0 false).
(* if new_beta >= 1: new_beta = 1 *)
Definition clamp (nb : N) : N := if nleb N (nofZ N 1) nb then nofZ N 1 else nb.
Definition next_beta (beta : N) (fuel : nat) : option (N * Z) :=
  match bisect beta fuel with Some s => Some (clamp (b_new s), b_ess s) | None => None end.
End Beta.

(* ---------- Metropolis-Hastings ---------- *)
(* numbers with -inf and nan: reals extended for the theorems, binary64 for the runs *)
Record ENum := mkE { ET : Type; eadd : ET -> ET -> ET; esub : ET -> ET -> ET; emul : ET -> ET -> ET; efinite : ET -> bool; eltb : ET -> ET -> bool; eneginf : ET }.

Section MH.
Variable E : ENum.
Variable P : Type.                                   (* particle locations *)
Variable padd : P -> P -> P.                         (* current + delta *)
Variable log_prior : P -> ET E.
Variable log_lik : P -> ET E.
Variable beta : ET E.
Record mstate := mkM { m_cur : P; m_lik : ET E; m_post : ET E; m_acc : nat }.
(* one MH step with increment delta and log of the uniform draw logu *)
Definition mh_step (s : mstate) (du : P * ET E) : mstate :=
  let proposal := padd (m_cur s) (fst du) in
  let pp := log_prior proposal in
  let '(lp, post) := if efinite E pp then (let l := log_lik proposal in (l, eadd E pp (emul E l beta))) else (eneginf E, eneginf E) in
  let log_acc := esub E post (m_post s) in
  if efinite E log_acc && eltb E (snd du) log_acc then mkM proposal lp post (S (m_acc s)) else s.
Definition mh (s : mstate) (steps : list (P * ET E)) : mstate := fold_left mh_step steps s.
End MH.
