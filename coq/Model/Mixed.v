(* Model of propagation/mixed_up.py: interval Monte Carlo and slicing = stacking, with equal weights, of the interval images
   (b2b) of the boxes formed by one alpha-cut of each input at every row of probability levels.  Definitions only. *)
From Coq Require Import List Bool ZArith Arith.
From PUN Require Import Base.Num Model.Interval Model.IntervalFun Model.Pbox Model.B2B.
Import ListNotations.

Inductive strat := SDirect | SEndpoints | SSubDirect (n : nat) | SSubEndpoints (n : nat).

Section M.
Variable N : Num.
Variable steps : nat.
Variables plo phi : N.
Variable fexp : N -> N.
Variable fpow : N -> nat -> N.
Notation pb := (pbox N).

Definition b2b (s : strat) (e : expr) (box : list (N * N)) : res (N * N) :=
  match s with
  | SDirect => direct N fexp fpow e box
  | SEndpoints => endpoints N fexp fpow e box
  | SSubDirect n => sub_direct N fexp fpow e box n
  | SSubEndpoints n => sub_endpoints N fexp fpow e box n end.
(* one alpha-cut of each input *)
Definition cut_box (vars : list pb) (row : list N) : list (N * N) := map2 (alpha_cut N steps plo phi) vars row.
Definition focal_elements (img : list (N * N) -> res (N * N)) (vars : list pb) (levels : list (list N)) : res (list (N * N)) :=
  sequence (map (fun row => img (cut_box vars row)) levels).
Definition mixture (focal : list (N * N)) : res pb :=
  if Nat.leb (length focal) 1 then Raise AssertionErr      (* make_vec_interval: more than one focal element *)
  else stacking N steps plo phi (map fst focal) (map snd focal) (equal_weights N (length focal)).
(* interval_monte_carlo: the rows are the copula sample (an oracle: dependency.u_sample(n, random_state)) *)
Definition mixed (s : strat) (e : expr) (vars : list pb) (levels : list (list N)) : res pb :=
  rbind (focal_elements (b2b s e) vars levels) mixture.
(* slicing: every combination of the k grid levels linspace(p_lo, p_hi, k), first input slowest (meshgrid indexing 'ij') *)
Definition slicing_levels (k d : nat) : list (list N) := cartesian (repeat (linspace N plo phi k) d).
Definition slicing (s : strat) (e : expr) (vars : list pb) (k : nat) : res pb := mixed s e vars (slicing_levels k (length vars)).
End M.
