(* Generic number structure: every model function is written once over [Num]
   and instantiated with Coq reals (theorems) and IEEE binary64 (runs). *)
From Coq Require Import ZArith Reals Lra List Bool PrimFloat Uint63.
Import ListNotations.

Record Num := mkNum {
  T :> Type;
  nadd : T -> T -> T; nsub : T -> T -> T; nmul : T -> T -> T; ndiv : T -> T -> T;
  nopp : T -> T; nsqrt : T -> T;
  nleb : T -> T -> bool; nltb : T -> T -> bool; neqb : T -> T -> bool;
  nofZ : Z -> T }.

(* ---------- reals ---------- *)
Definition Rleb (x y : R) : bool := if Rle_dec x y then true else false.
Definition Rltb (x y : R) : bool := if Rlt_dec x y then true else false.
Definition Reqb (x y : R) : bool := if Req_EM_T x y then true else false.
Definition RN : Num :=
  mkNum R Rplus Rminus Rmult Rdiv Ropp R_sqrt.sqrt Rleb Rltb Reqb IZR.

Lemma Rleb_spec x y : reflect (x <= y)%R (Rleb x y).
Proof. unfold Rleb; destruct (Rle_dec x y); constructor; auto. Qed.
Lemma Rltb_spec x y : reflect (x < y)%R (Rltb x y).
Proof. unfold Rltb; destruct (Rlt_dec x y); constructor; auto. Qed.
Lemma Reqb_spec x y : reflect (x = y)%R (Reqb x y).
Proof. unfold Reqb; destruct (Req_EM_T x y); constructor; auto. Qed.
Lemma Rleb_true x y : Rleb x y = true <-> (x <= y)%R.
Proof. destruct (Rleb_spec x y); split; auto; try discriminate; intros; contradiction. Qed.
Lemma Rleb_false x y : Rleb x y = false <-> (y < x)%R.
Proof. destruct (Rleb_spec x y); split; auto; try discriminate; intros; lra. Qed.
Lemma Rltb_true x y : Rltb x y = true <-> (x < y)%R.
Proof. destruct (Rltb_spec x y); split; auto; try discriminate; intros; contradiction. Qed.
Lemma Rltb_false x y : Rltb x y = false <-> (y <= x)%R.
Proof. destruct (Rltb_spec x y); split; auto; try discriminate; intros; lra. Qed.

(* ---------- binary64 ---------- *)
Definition f_ofZ (z : Z) : float :=
  match z with
  | Z0 => PrimFloat.zero
  | Zpos _ => PrimFloat.of_uint63 (Uint63.of_Z z)
  | Zneg _ => PrimFloat.opp (PrimFloat.of_uint63 (Uint63.of_Z (Z.opp z)))
  end.
Definition FN : Num :=
  mkNum float PrimFloat.add PrimFloat.sub PrimFloat.mul PrimFloat.div PrimFloat.opp
        PrimFloat.sqrt PrimFloat.leb PrimFloat.ltb PrimFloat.eqb f_ofZ.

(* ---------- generic helpers ---------- *)
Section Generic.
Variable N : Num.
Definition nzero : N := nofZ N 0.
Definition none : N := nofZ N 1.
Definition nmin (a b : N) : N := if nleb N a b then a else b.
Definition nmax (a b : N) : N := if nleb N a b then b else a.
(* m / 10^e : decimal literals of the source; on binary64 this is the correctly
   rounded value when m and 10^e are exactly representable *)
Definition nofdec (m : Z) (e : nat) : N := ndiv N (nofZ N m) (nofZ N (10 ^ Z.of_nat e)).
Definition nabs (a : N) : N := if nleb N nzero a then a else nopp N a.
End Generic.
Arguments nzero {N}. Arguments none {N}.
Arguments nmin {N}. Arguments nmax {N}. Arguments nabs {N}.

Lemma nmin_R a b : @nmin RN a b = Rmin a b.
Proof. unfold nmin, Rmin; cbn [nleb RN]; unfold Rleb; destruct (Rle_dec a b); reflexivity. Qed.
Lemma nmax_R a b : @nmax RN a b = Rmax a b.
Proof. unfold nmax, Rmax; cbn [nleb RN]; unfold Rleb; destruct (Rle_dec a b); reflexivity. Qed.

(* ---------- results of modelled Python calls ---------- *)
Inductive exn := ZeroDivision | AssertionErr | ValueErr | TypeErr | NotIncreasing | IndexErr | EmptyImp | OtherExn.
Inductive res (A : Type) := Ok (a : A) | Raise (e : exn) | NotImpl.
Arguments Ok {A}. Arguments Raise {A}. Arguments NotImpl {A}.
Definition rbind {A B} (r : res A) (f : A -> res B) : res B :=
  match r with Ok a => f a | Raise e => Raise e | NotImpl => NotImpl end.
Definition exn_eqb (a b : exn) : bool :=
  match a, b with
  | ZeroDivision, ZeroDivision | AssertionErr, AssertionErr | ValueErr, ValueErr | TypeErr, TypeErr
  | NotIncreasing, NotIncreasing | IndexErr, IndexErr | EmptyImp, EmptyImp | OtherExn, OtherExn => true
  | _, _ => false end.

(* ---------- float comparison used by correspondence runs ---------- *)
Definition f_isnan (a : float) : bool := negb (PrimFloat.eqb a a).
(* identical value (-0 = +0), or both NaN *)
Definition f_same (a b : float) : bool := PrimFloat.eqb a b || (f_isnan a && f_isnan b).
(* agreement up to a few units of rounding: |a-b| <= 2^-48 max(|a|,|b|) (about 16 ulp) or both tiny *)
Definition f_close (a b : float) : bool :=
  f_same a b ||
  PrimFloat.leb (PrimFloat.abs (PrimFloat.sub a b))
    (PrimFloat.add (PrimFloat.mul 0x1p-48%float (PrimFloat.add (PrimFloat.abs a) (PrimFloat.abs b))) 0x1p-1000%float).
(* 0 = bit-exact, 1 = rounded agreement, 2 = disagreement *)
Definition f_cmp (a b : float) : nat := if f_same a b then 0 else if f_close a b then 1 else 2.
Fixpoint fl_cmp (a b : list float) : nat :=
  match a, b with
  | [], [] => 0
  | x :: a', y :: b' => Nat.max (f_cmp x y) (fl_cmp a' b')
  | _, _ => 2 end.
(* summary of a list of per-case verdicts: (#exact, #rounded, indices of disagreements) *)
Definition summary (v : list nat) : nat * nat * list nat :=
  (length (filter (Nat.eqb 0) v), length (filter (Nat.eqb 1) v),
   map fst (filter (fun p => Nat.leb 2 (snd p)) (combine (seq 0 (length v)) v))).
