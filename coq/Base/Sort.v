(* Generic bottom-up merge sort (the algorithm of Coq's Sorting.Mergesort, adapted from a
   functor to a section so that one definition serves the real and the float instance),
   plus the order-statistic (rank) lemmas shared by the p-box proofs. *)
From Coq Require Import List Setoid Permutation Sorted Arith Lia Bool.
Import ListNotations.
Open Scope bool_scope.

Section Sort.
Variable A : Type.
Variable leb : A -> A -> bool.

Fixpoint merge l1 l2 :=
  let fix merge_aux l2 :=
  match l1, l2 with
  | [], _ => l2
  | _, [] => l1
  | a1::l1', a2::l2' =>
      if leb a1 a2 then a1 :: merge l1' l2 else a2 :: merge_aux l2'
  end
  in merge_aux l2.

Fixpoint merge_list_to_stack stack l :=
  match stack with
  | [] => [Some l]
  | None :: stack' => Some l :: stack'
  | Some l' :: stack' => None :: merge_list_to_stack stack' (merge l' l)
  end.
Fixpoint merge_stack stack :=
  match stack with
  | [] => []
  | None :: stack' => merge_stack stack'
  | Some l :: stack' => merge l (merge_stack stack')
  end.
Fixpoint iter_merge stack l :=
  match l with
  | [] => merge_stack stack
  | a::l' => iter_merge (merge_list_to_stack stack [a]) l'
  end.
Definition msort := iter_merge [].

(* ---------- correctness, under totality (and transitivity for StronglySorted) ---------- *)
Hypothesis leb_total : forall x y, leb x y = true \/ leb y x = true.
Local Notation le := (fun x y => leb x y = true).
Local Notation Sorted := (LocallySorted le) (only parsing).

Fixpoint SortedStack stack :=
  match stack with
  | [] => True
  | None :: stack' => SortedStack stack'
  | Some l :: stack' => Sorted l /\ SortedStack stack'
  end.
Local Ltac invert H := inversion H; subst; clear H.
Fixpoint flatten_stack (stack : list (option (list A))) :=
  match stack with
  | [] => []
  | None :: stack' => flatten_stack stack'
  | Some l :: stack' => l ++ flatten_stack stack'
  end.

Theorem Sorted_merge : forall l1 l2, Sorted l1 -> Sorted l2 -> Sorted (merge l1 l2).
Proof.
induction l1; induction l2; intros; simpl; auto.
  destruct (leb a a0) eqn:Heq1.
    invert H.
      simpl. constructor; trivial; rewrite Heq1; constructor.
      assert (Sorted (merge (b::l) (a0::l2))) by (apply IHl1; auto).
      clear H0 H3 IHl1; simpl in *.
      destruct (leb b a0); constructor; auto || rewrite Heq1; constructor.
    assert (leb a0 a = true) by
      (destruct (leb_total a0 a) as [H'|H']; trivial || (rewrite Heq1 in H'; inversion H')).
    invert H0.
      constructor; trivial.
      assert (Sorted (merge (a::l1) (b::l))) by auto using IHl1.
      clear IHl2; simpl in *.
      destruct (leb a b); constructor; auto.
Qed.
Theorem Permuted_merge : forall l1 l2, Permutation (l1++l2) (merge l1 l2).
Proof.
  induction l1; simpl merge; intro.
    assert (forall l, (fix merge_aux (l0 : list A) : list A := l0) l = l)
    as -> by (destruct l; trivial).
    apply Permutation_refl.
  induction l2.
    rewrite app_nil_r. apply Permutation_refl.
    destruct (leb a a0).
      constructor; apply IHl1.
      apply Permutation_sym, Permutation_cons_app, Permutation_sym, IHl2.
Qed.
Theorem Sorted_merge_list_to_stack : forall stack l,
  SortedStack stack -> Sorted l -> SortedStack (merge_list_to_stack stack l).
Proof.
  induction stack as [|[|]]; intros; simpl.
    auto.
    apply IHstack. destruct H as (_,H1). fold SortedStack in H1. auto.
      apply Sorted_merge; auto; destruct H; auto.
      auto.
Qed.
Theorem Permuted_merge_list_to_stack : forall stack l,
  Permutation (l ++ flatten_stack stack) (flatten_stack (merge_list_to_stack stack l)).
Proof.
  induction stack as [|[]]; simpl; intros.
    reflexivity.
    rewrite app_assoc.
    etransitivity.
      apply Permutation_app_tail.
      etransitivity.
        apply Permutation_app_comm.
      apply Permuted_merge.
    apply IHstack.
    reflexivity.
Qed.
Theorem Sorted_merge_stack : forall stack, SortedStack stack -> Sorted (merge_stack stack).
Proof.
induction stack as [|[|]]; simpl; intros.
  constructor; auto.
  apply Sorted_merge; tauto.
  auto.
Qed.
Theorem Permuted_merge_stack : forall stack, Permutation (flatten_stack stack) (merge_stack stack).
Proof.
induction stack as [|[]]; simpl.
  trivial.
  transitivity (l ++ merge_stack stack).
    apply Permutation_app_head; trivial.
    apply Permuted_merge.
  assumption.
Qed.
Theorem Sorted_iter_merge : forall stack l, SortedStack stack -> Sorted (iter_merge stack l).
Proof.
  intros stack l H; induction l in stack, H |- *; simpl.
    auto using Sorted_merge_stack.
    assert (Sorted [a]) by constructor.
    auto using Sorted_merge_list_to_stack.
Qed.
Theorem Permuted_iter_merge : forall l stack, Permutation (flatten_stack stack ++ l) (iter_merge stack l).
Proof.
  induction l; simpl; intros.
    rewrite app_nil_r. apply Permuted_merge_stack.
    change (a::l) with ([a]++l).
    rewrite app_assoc.
    etransitivity.
      apply Permutation_app_tail.
    etransitivity.
    apply Permutation_app_comm.
    apply Permuted_merge_list_to_stack.
    apply IHl.
Qed.
Theorem msort_perm : forall l, Permutation l (msort l).
Proof. intro; apply (Permuted_iter_merge l []). Qed.
Theorem msort_locally_sorted : forall l, Sorted (msort l).
Proof. intro; apply Sorted_iter_merge. constructor. Qed.

Hypothesis leb_trans : forall x y z, leb x y = true -> leb y z = true -> leb x z = true.
Definition sorted (l : list A) := StronglySorted le l.
Theorem msort_sorted : forall l, sorted (msort l).
Proof. intro l. apply Sorted_StronglySorted. { intros x y z; apply leb_trans. }
  apply Sorted_LocallySorted_iff, msort_locally_sorted. Qed.
Lemma msort_length l : length (msort l) = length l.
Proof. symmetry; apply Permutation_length, msort_perm. Qed.

(* ---------- rank lemmas ---------- *)
Definition ltb x y := negb (leb y x).
Definition cnt (p : A -> bool) (l : list A) := length (filter p l).
Lemma cnt_perm p l l' : Permutation l l' -> cnt p l = cnt p l'.
Proof. unfold cnt. induction 1; simpl; auto; repeat (destruct (p _)); simpl; congruence. Qed.
Lemma cnt_le_length p l : cnt p l <= length l.
Proof. unfold cnt. induction l; simpl; [lia|]. destruct (p a); simpl; lia. Qed.

(* in a sorted list the elements below t come first *)
Lemma sorted_nth_ge t d : forall s, sorted s -> forall i, cnt (fun z => ltb z t) s <= i -> i < length s ->
  leb t (nth i s d) = true.
Proof.
  induction s as [|a s IH]; intros Hs i Hc Hi; simpl in *; [lia|].
  inversion Hs as [|? ? Hs' Hall]; subst.
  unfold cnt in *; simpl in Hc. destruct (ltb a t) eqn:Hat; simpl in Hc.
  - destruct i as [|i]; [lia|]. apply IH; auto; lia.
  - unfold ltb in Hat. apply negb_false_iff in Hat.
    destruct i as [|i]; [exact Hat|].
    assert (Hin : In (nth i s d) s) by (apply nth_In; lia).
    rewrite Forall_forall in Hall. eapply leb_trans; [exact Hat|]. apply Hall; exact Hin.
Qed.
(* ... and the elements above t come last *)
Lemma sorted_nth_le t d : forall s, sorted s -> forall i, i < length s ->
  cnt (fun z => ltb t z) s <= length s - 1 - i -> leb (nth i s d) t = true.
Proof.
  induction s as [|a s IH]; intros Hs i Hi Hc; simpl in *; [lia|].
  inversion Hs as [|? ? Hs' Hall]; subst.
  destruct i as [|i].
  - (* the head: if a > t then every element is > t, too many *)
    destruct (leb a t) eqn:Hat; [reflexivity|exfalso].
    assert (Hall' : forall z, In z (a :: s) -> ltb t z = true).
    { intros z [<-|Hz]; unfold ltb; [rewrite Hat; reflexivity|].
      rewrite Forall_forall in Hall. specialize (Hall z Hz). apply negb_true_iff.
      destruct (leb z t) eqn:Hzt; [|reflexivity]. rewrite (leb_trans a z t Hall Hzt) in Hat. discriminate. }
    assert (E : cnt (fun z => ltb t z) (a :: s) = length (a :: s)).
    { unfold cnt. clear -Hall'. induction (a :: s) as [|b l IHl]; simpl; auto.
      rewrite (Hall' b (or_introl eq_refl)). simpl. f_equal. apply IHl. intros; apply Hall'; right; auto. }
    simpl in E. unfold cnt in *. simpl in *. lia.
  - apply IH; auto; [lia|]. unfold cnt in *; simpl in Hc. destruct (ltb t a); simpl in Hc; lia.
Qed.

Theorem rank_lower t d l s i : Permutation s l -> sorted s ->
  cnt (fun z => ltb z t) l <= i -> i < length l -> leb t (nth i s d) = true.
Proof.
  intros HP Hs Hc Hi. apply sorted_nth_ge; auto.
  - rewrite (cnt_perm _ _ _ HP); exact Hc.
  - rewrite (Permutation_length HP); exact Hi.
Qed.
Theorem rank_upper t d l s i : Permutation s l -> sorted s -> i < length l ->
  cnt (fun z => ltb t z) l <= length l - 1 - i -> leb (nth i s d) t = true.
Proof.
  intros HP Hs Hi Hc. apply sorted_nth_le; auto.
  - rewrite (Permutation_length HP); exact Hi.
  - rewrite (cnt_perm _ _ _ HP), (Permutation_length HP); exact Hc.
Qed.
End Sort.
Arguments merge {A}. Arguments msort {A}. Arguments sorted {A}. Arguments cnt {A}. Arguments ltb {A}.
