(* C02 for whole expressions: an expression built from p-box leaves with +, -, x, / under no dependence assumption, negation and
   operations with numbers evaluates (when it evaluates) to a p-box that bounds the expression computed outcome by outcome on ANY samples
   bounded by the leaves - the same sample may feed several leaves (repeated variables), different leaves may be dependent in any way. *)
From Coq Require Import Reals Lra List Arith Lia Bool Permutation Sorted.
From PUN Require Import Base.Num Base.Sort Model.Interval Model.Pbox Model.PboxArith Model.PExpr
  Proofs.ListR Proofs.PboxWF Proofs.WFExpr Proofs.Compose Proofs.ComposeNaive Proofs.ComposeOps Proofs.ComposeMul Proofs.ComposeAll.
Import ListNotations.
Open Scope R_scope.

Inductive fexpr :=
| FLeaf (l r u : list R)                 (* a p-box (l, r) together with a sample u of the quantity it describes *)
| FAddc (e : fexpr) (c : R) | FSubc (e : fexpr) (c : R) | FRsubc (c : R) (e : fexpr) | FMulc (e : fexpr) (c : R)
| FNeg (e : fexpr)
| FMap (f : R -> R) (dom : R -> bool) (e : fexpr)   (* a map nondecreasing on its upward-closed domain (exp, log, sqrt, ...) applied to both bounds *)
| FBin (o : bop) (e1 e2 : fexpr).

Fixpoint erase (e : fexpr) : pexpr RN :=
  match e with
  | FLeaf l r _ => ELeaf RN l r
  | FAddc e c => ENum RN KAdd (erase e) c | FSubc e c => ENum RN KSub (erase e) c
  | FRsubc c e => ENum RN KRSub (erase e) c | FMulc e c => ENum RN KMul (erase e) c
  | FNeg e => ENeg RN (erase e)
  | FMap f dom e => EMap RN f dom (erase e)
  | FBin o e1 e2 => EBin RN o DF (erase e1) (erase e2)
  end.
(* the expression computed outcome by outcome *)
Fixpoint sample (e : fexpr) : list R :=
  match e with
  | FLeaf _ _ u => u
  | FAddc e c => map (fun a => a + c) (sample e) | FSubc e c => map (fun a => a - c) (sample e)
  | FRsubc c e => map (fun a => c - a) (sample e) | FMulc e c => map (fun a => a * c) (sample e)
  | FNeg e => map Ropp (sample e)
  | FMap f _ e => map f (sample e)
  | FBin o e1 e2 => map2 (match o with Add => Rplus | Sub => Rminus | Mul => Rmult | Div => Rdiv end) (sample e1) (sample e2)
  end.
Fixpoint leaves_ok (steps : nat) (e : fexpr) : Prop :=
  match e with
  | FLeaf l r u => length l = steps /\ length r = steps /\ bounds l r u
  | FAddc e _ | FSubc e _ | FRsubc _ e | FMulc e _ | FNeg e => leaves_ok steps e
  | FMap f dom e => (forall a b, dom a = true -> dom b = true -> a <= b -> f a <= f b) /\ (forall a b, dom a = true -> a <= b -> dom b = true) /\ leaves_ok steps e
  | FBin _ e1 e2 => leaves_ok steps e1 /\ leaves_ok steps e2
  end.

(* nondecreasing on an upward-closed domain that contains all the values involved *)
Lemma bounds_map_incr_dom (f : R -> R) (Dm : R -> Prop) (L Rr u : list R) :
  (forall a b, Dm a -> Dm b -> a <= b -> f a <= f b) -> Forall Dm L -> Forall Dm Rr -> Forall Dm u ->
  bounds L Rr u -> bounds (map f L) (map f Rr) (map f u).
Proof.
  intros Hf DL DR Du (Hu & Hr & H). split; [rewrite !map_length; exact Hu|]. split; [rewrite !map_length; exact Hr|].
  intros s' Hs' Hss' i Hi. rewrite map_length in Hi.
  assert (Dsu : Forall Dm (Rsort u)).
  { apply Forall_forall. intros a Ha. rewrite Forall_forall in Du. apply Du. apply (Permutation_in _ (Permutation_sym (Rsort_perm u))). exact Ha. }
  assert (Ssu : Rsorted (map f (Rsort u))).
  { apply nth_Rsorted. intros a b Hab. rewrite map_length, Rsort_length in Hab.
    rewrite !(nth_indep (map f _) 0 (f 0)) by (rewrite map_length, Rsort_length; lia). rewrite !map_nth. rewrite Forall_forall in Dsu.
    apply Hf; [apply Dsu, nth_In; rewrite Rsort_length; lia|apply Dsu, nth_In; rewrite Rsort_length; lia|].
    apply Rsorted_nth; [apply Rsort_sorted|rewrite Rsort_length; lia]. }
  assert (E : s' = map f (Rsort u)).
  { apply sorted_perm_unique; auto. eapply Permutation_trans; [exact Hs'|]. apply Permutation_map, Rsort_perm. }
  subst s'. specialize (H (Rsort u) (Permutation_sym (Rsort_perm u)) (Rsort_sorted u) i Hi).
  rewrite !(nth_indep (map f _) 0 (f 0)) by (rewrite map_length, ?Rsort_length; lia). rewrite !map_nth.
  rewrite Forall_forall in DL, DR, Dsu.
  assert (D1 : Dm (nth i L 0)) by (apply DL, nth_In; lia). assert (D2 : Dm (nth i Rr 0)) by (apply DR, nth_In; lia).
  assert (D3 : Dm (nth i (Rsort u) 0)) by (apply Dsu, nth_In; rewrite Rsort_length; lia).
  cbn [T RN] in *. split; apply Hf; auto; lra.
Qed.

Section X.
Variable steps : nat.
Variables plo phi : R.
Hypothesis steps_pos : (0 < steps)%nat.
Notation S_ := (snd_ steps).

Lemma map_eval_sound (f : R -> R) (dom : R -> bool) p u r :
  (forall a b, dom a = true -> dom b = true -> a <= b -> f a <= f b) -> (forall a b, dom a = true -> a <= b -> dom b = true) ->
  S_ p u -> map_eval RN steps plo phi f dom p = Ok r -> S_ r (map f u).
Proof.
  intros Hf Hup IH. unfold map_eval.
  match goal with |- (if ?c then _ else _) = _ -> _ => destruct c eqn:Hdom end; [|discriminate]. intros E.
  destruct (S_len steps p _ IH) as (Hl & Hr & Hu).
  apply andb_true_iff in Hdom. destruct Hdom as (DL & DR). rewrite forallb_forall in DL, DR.
  unfold punary, mk_staircase in E. eapply mk_sound; [| |left|exact E]; rewrite ?map_length; auto.
  apply (bounds_map_incr_dom f (fun a => dom a = true)); [exact Hf| | | |exact (proj2 IH)].
  - apply Forall_forall. exact DL.
  - apply Forall_forall. exact DR.
  - apply Forall_forall. intros a Ha. destruct (in_some_step _ _ _ a (proj2 IH) Ha) as (j & Hj & Hb).
    apply (Hup (nth j (fst p) 0)); [apply DL, nth_In; exact Hj|apply Hb].
Qed.

Theorem expression_sound : forall e r, leaves_ok steps e -> peval RN steps plo phi (erase e) = Ok r -> S_ r (sample e).
Proof.
  induction e as [l r0 u|e IH c|e IH c|c e IH|e IH c|e IH|f dom e IH|o e1 IH1 e2 IH2]; intros r HL; cbn [erase peval sample leaves_ok] in *.
  - destruct HL as (Hl & Hr & HB). intros E. unfold mk_staircase in E. eapply mk_sound; [exact Hl|exact Hr|left; exact HB|exact E].
  - destruct (peval RN steps plo phi (erase e)) as [p| |] eqn:Ep; cbn [rbind]; try discriminate. cbn [num_eval].
    apply (pnum_add_sound steps plo phi p _ c r). apply IH; auto.
  - destruct (peval RN steps plo phi (erase e)) as [p| |] eqn:Ep; cbn [rbind]; try discriminate. cbn [num_eval]. intros E.
    pose proof (pnum_add_sound steps plo phi p _ (- c) r (IH p HL eq_refl) E) as S1.
    rewrite (map_ext _ (fun a => a + - c)) by (intros; ring). exact S1.
  - destruct (peval RN steps plo phi (erase e)) as [p| |] eqn:Ep; cbn [rbind]; try discriminate. cbn [num_eval].
    destruct (pneg RN steps plo phi p) as [q| |] eqn:En; cbn [rbind]; try discriminate. intros E.
    pose proof (pneg_sound steps plo phi p _ q (IH p HL eq_refl) En) as S1.
    pose proof (pnum_add_sound steps plo phi q _ c r S1 E) as S2. rewrite map_map in S2.
    rewrite (map_ext _ (fun a => - a + c)) by (intros; ring). exact S2.
  - destruct (peval RN steps plo phi (erase e)) as [p| |] eqn:Ep; cbn [rbind]; try discriminate. cbn [num_eval].
    apply (pnum_mul_sound steps plo phi p _ c r). apply IH; auto.
  - destruct (peval RN steps plo phi (erase e)) as [p| |] eqn:Ep; cbn [rbind]; try discriminate.
    apply (pneg_sound steps plo phi p _ r). apply IH; auto.
  - destruct HL as (Hf & Hup & HL).
    destruct (peval RN steps plo phi (erase e)) as [p| |] eqn:Ep; cbn [rbind]; try discriminate. unfold map_eval.
    match goal with |- (if ?c then _ else _) = _ -> _ => destruct c eqn:Hdom end; [|discriminate]. intros E.
    specialize (IH p HL eq_refl). destruct (S_len steps p _ IH) as (Hl & Hr & Hu).
    apply andb_true_iff in Hdom. destruct Hdom as (DL & DR). rewrite forallb_forall in DL, DR.
    unfold punary, mk_staircase in E. eapply mk_sound; [| |left|exact E]; rewrite ?map_length; auto.
    apply (bounds_map_incr_dom f (fun a => dom a = true)); [exact Hf| | | |exact (proj2 IH)].
    + apply Forall_forall. exact DL.
    + apply Forall_forall. exact DR.
    + apply Forall_forall. intros a Ha. destruct (in_some_step _ _ _ a (proj2 IH) Ha) as (j & Hj & Hb).
      apply (Hup (nth j (fst p) 0)); [apply DL, nth_In; exact Hj|apply Hb].
  - destruct HL as (HL1 & HL2).
    destruct (peval RN steps plo phi (erase e1)) as [p| |] eqn:Ep; cbn [rbind]; try discriminate.
    destruct (peval RN steps plo phi (erase e2)) as [q| |] eqn:Eq; cbn [rbind]; try discriminate.
    specialize (IH1 p HL1 eq_refl). specialize (IH2 q HL2 eq_refl).
    destruct o; cbn [bin_eval]; intros E.
    + eapply add_sound; eauto. + eapply sub_sound; eauto. + eapply mul_sound; eauto. + eapply div_sound; eauto.
Qed.
End X.
