(* C17: "the p-box made from the band contains the empirical distribution".
   The band (upper cdf bound = ecdf + D clipped, lower = ecdf - D clipped, on the ecdf's own abscissae q) is turned into a p-box by
   Staircase.from_CDFbundle: both bounds are extended to probabilities 0 and 1 and inverted on the probability grid with interp1d(kind='next').
   At every grid level a in (0, 1] the left bound lies below, the right bound above the empirical quantile  q[#{p_j < a}]  (the same inversion
   applied to the ecdf itself; Proofs/Stacking.v: ecdf_at_ginv shows it is the generalised inverse). *)
From Coq Require Import Reals Lra List Arith Lia Bool.
From PUN Require Import Base.Num Base.Sort Model.Interval Model.Pbox Model.KS Proofs.ListR Proofs.PboxWF Proofs.WFExpr Proofs.KS.
From PUN Require Import Proofs.CtorFinite.
Import ListNotations.
Open Scope R_scope.

Definition inext (p q : list R) (a : R) : R := interp_next RN p q a.

Lemma cnt_lt_mono (p p' : list R) a : length p = length p' -> (forall j, (j < length p)%nat -> nth j p 0 <= nth j p' 0) ->
  (length (filter (fun x => Rltb x a) p') <= length (filter (fun x => Rltb x a) p))%nat.
Proof.
  revert p'. induction p as [|x p IH]; intros [|y p'] Hl H; cbn in Hl; try lia; try (cbn; lia).
  cbn [filter]. specialize (IH p' ltac:(lia) ltac:(intros j Hj; apply (H (S j)); cbn; lia)).
  pose proof (H 0%nat ltac:(cbn; lia)) as H0. cbn [nth] in H0.
  destruct (Rltb_spec y a), (Rltb_spec x a); cbn [length]; try lia. lra.
Qed.
Lemma inext_mono (p p' q : list R) a : Rsorted q -> length p = length q -> length p' = length q ->
  (forall j, (j < length p)%nat -> nth j p 0 <= nth j p' 0) -> inext p' q a <= inext p q a.
Proof.
  intros Sq L1 L2 H. unfold inext, interp_next, nth0. cbn [T RN nltb]. change (@nzero RN) with 0.
  destruct q as [|q0 qt]; [rewrite !nth_overflow by (cbn; lia); lra|].
  apply Rsorted_nth; auto. pose proof (cnt_lt_mono p p' a ltac:(lia) H). cbn [length] in *. lia.
Qed.
Lemma inext_prepend (p' q : list R) q0 a : 0 < a -> (1 <= length q)%nat -> inext (0 :: p') (q0 :: q) a = inext p' q a.
Proof.
  intros Ha Lq. unfold inext, interp_next, nth0. cbn [T RN nltb filter]. change (@nzero RN) with 0.
  rewrite (proj2 (Rltb_true 0 a) Ha). cbn [length].
  set (c := length (filter (fun x => Rltb x a) p')).
  replace (Nat.min (S c) (S (length q) - 1)) with (S (Nat.min c (length q - 1))) by lia. reflexivity.
Qed.
Lemma inext_append (p' q : list R) a : a <= 1 -> (1 <= length q)%nat -> length p' = length q ->
  inext (p' ++ [1]) (q ++ [last q 0]) a = inext p' q a.
Proof.
  intros Ha Lq Lp. unfold inext, interp_next, nth0. cbn [T RN nltb]. change (@nzero RN) with 0.
  rewrite filter_app. cbn [filter]. rewrite (proj2 (Rltb_false 1 a) Ha). rewrite app_nil_r, app_length. cbn [length].
  set (c := length (filter (fun x => Rltb x a) p')).
  assert (Hc : (c <= length q)%nat) by (unfold c; rewrite <- Lp; apply len_filter_all_R).
  destruct (Nat.lt_ge_cases c (length q)) as [Hlt|Hge].
  - replace (Nat.min c (length q + 1 - 1)) with c by lia. replace (Nat.min c (length q - 1)) with c by lia. apply app_nth1. exact Hlt.
  - assert (c = length q) by lia. replace (Nat.min c (length q + 1 - 1)) with (length q) by lia. replace (Nat.min c (length q - 1)) with (length q - 1)%nat by lia.
    rewrite app_nth2 by lia. rewrite Nat.sub_diag. cbn [nth]. apply last_as_nth.
Qed.

(* extending a cdf bound to the probabilities 0 and 1 does not change its inverse on (0, 1] *)
Lemma extend_inext (q p : list R) a : 0 < a <= 1 -> length p = length q -> (1 <= length q)%nat ->
  inext (snd (extend_ecdf RN (q, p))) (fst (extend_ecdf RN (q, p))) a = inext p q a.
Proof.
  intros Ha Lp Lq. unfold extend_ecdf. destruct p as [|p0 pt]; [cbn in Lp; lia|]. destruct q as [|q0 qt]; [cbn in Lq; lia|].
  cbn [neqb RN T]. change (@nzero RN) with 0. change (@none RN) with 1.
  destruct (Reqb p0 0) eqn:E0.
  - destruct (Reqb (last (p0 :: pt) 0) 1); cbn [fst snd]; [reflexivity|]. apply inext_append; [lra|exact Lq|exact Lp].
  - assert (Hp : inext (0 :: p0 :: pt) (q0 :: q0 :: qt) a = inext (p0 :: pt) (q0 :: qt) a) by (apply inext_prepend; [lra|exact Lq]).
    destruct (Reqb (last (0 :: p0 :: pt) 0) 1); cbn [fst snd]; [exact Hp|].
    rewrite <- Hp. apply inext_append; [lra|cbn [length] in *; lia|cbn [length] in *; lia].
Qed.

Section Band.
Variable steps : nat.
Variables plo phi : R.
Hypothesis grid_in : forall k, (k < steps)%nat -> 0 < nth k (p_values RN steps plo phi) 0 <= 1.
Variables q p : list R.              (* the empirical cdf: abscissae and cumulated probabilities *)
Variable D : R.
Hypothesis Sq : Rsorted q.
Hypothesis Lp : length p = length q.
Hypothesis Lq : (1 <= length q)%nat.
Hypothesis Sp : Rsorted p.
Hypothesis Pu : forall x, In x p -> 0 <= x <= 1.
Hypothesis HD : 0 <= D.
Definition up := map (fun x => clip RN (x + D)) p.
Definition dn := map (fun x => clip RN (x - D)) p.

Theorem band_pbox_contains L R' : from_cdfbundle RN steps plo phi (q, up) (q, dn) = Ok (L, R') ->
  forall k, (k < steps)%nat -> nth k L 0 <= inext p q (nth k (p_values RN steps plo phi) 0) <= nth k R' 0.
Proof.
  intros E k Hk. pose proof (grid_in k Hk) as Ha. set (a := nth k (p_values RN steps plo phi) 0) in *.
  destruct (band_props p D Sp Pu HD) as (_ & _ & _ & Hb & _). fold up dn in Hb.
  assert (Lu : length up = length q) by (unfold up; rewrite map_length; exact Lp).
  assert (Ld : length dn = length q) by (unfold dn; rewrite map_length; exact Lp).
  (* the two candidate bounds at level a *)
  assert (HL : inext (snd (extend_ecdf RN (q, up))) (fst (extend_ecdf RN (q, up))) a <= inext p q a).
  { rewrite extend_inext by auto. apply inext_mono; auto. intros j Hj. apply Hb. exact Hj. }
  assert (HR : inext p q a <= inext (snd (extend_ecdf RN (q, dn))) (fst (extend_ecdf RN (q, dn))) a).
  { rewrite extend_inext by auto. apply inext_mono; auto. intros j Hj. apply Hb. unfold dn in Hj. rewrite map_length in Hj. exact Hj. }
  unfold from_cdfbundle in E. destruct (extend_ecdf RN (q, up)) as [qa pa]. destruct (extend_ecdf RN (q, dn)) as [qb pb]. cbn [fst snd] in *.
  set (l := interpolate_p RN steps plo phi pa qa) in *. set (r := interpolate_p RN steps plo phi pb qb) in *.
  assert (Ll : length l = steps) by (unfold l, interpolate_p, p_values; rewrite map_length; apply linspace_length).
  assert (Lr : length r = steps) by (unfold r, interpolate_p, p_values; rewrite map_length; apply linspace_length).
  assert (Hl : nth k l 0 = inext pa qa a).
  { unfold l, interpolate_p. rewrite (nth_indep _ 0 (interp_next RN pa qa 0)) by (rewrite map_length; unfold p_values; rewrite linspace_length; exact Hk). rewrite map_nth. reflexivity. }
  assert (Hr : nth k r 0 = inext pb qb a).
  { unfold r, interpolate_p. rewrite (nth_indep _ 0 (interp_next RN pb qb 0)) by (rewrite map_length; unfold p_values; rewrite linspace_length; exact Hk). rewrite map_nth. reflexivity. }
  pose proof (mk_total_wf steps plo phi false l r (L, R') E) as W. destruct W as [_ _ _ _ Wle]. cbn [fst snd] in Wle.
  assert (Hp : (L, R') = (l, r) \/ (L, R') = (r, l)).
  { revert E. unfold mk_staircase; rewrite mk_gen_core_R; unfold mk_staircase_core, left_right_switch. destruct (all_ge RN l r).
    - rewrite !bound_steps_id by assumption. destruct (negb _); [discriminate|]. destruct (_ && _); [|discriminate].
      destruct (crosses _ _ _); [discriminate|]. intros A; inversion A; auto.
    - rewrite !bound_steps_id by assumption. destruct (negb _); [discriminate|]. destruct (_ && _); [|discriminate].
      destruct (crosses _ _ _); [discriminate|]. intros A; inversion A; auto. }
  destruct Hp as [Ep|Ep]; inversion Ep; subst L R'.
  - rewrite Hl, Hr. split; assumption.
  - assert (Hk' : (k < length r)%nat) by (rewrite Lr; exact Hk). pose proof (ple_nth _ _ Wle k Hk') as Hx. cbn [T RN] in *. rewrite Hl, Hr in Hx. split; [rewrite Hr|rewrite Hl]; lra.
Qed.
End Band.

(* the probability grid np.linspace(a, b, n) with 0 < a <= b <= 1 lies in (0, 1] *)
From PUN Require Import Proofs.Query.
Lemma linspace_in (a b : R) n k : 0 < a -> a <= b -> b <= 1 -> (2 <= n)%nat -> (k < n)%nat -> 0 < nth k (linspace RN a b n) 0 <= 1.
Proof.
  intros Ha Hab Hb Hn Hk. rewrite linspace_nth by lia.
  assert (Hm : 0 < INR (n - 1)) by (apply lt_0_INR; lia).
  assert (Hi : 0 <= INR k <= INR (n - 1)) by (split; [apply pos_INR|apply le_INR; lia]).
  assert (Hs : 0 <= (b - a) / INR (n - 1)) by (apply Rmult_le_pos; [lra|left; apply Rinv_0_lt_compat; exact Hm]).
  assert (Hu : INR k * ((b - a) / INR (n - 1)) <= b - a).
  { replace (b - a) with (INR (n - 1) * ((b - a) / INR (n - 1))) at 2 by (field; lra). apply Rmult_le_compat_r; lra. }
  split; nra.
Qed.
