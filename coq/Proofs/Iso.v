(* C12: inclusion isotonicity - widening an input never narrows an output. *)
From Coq Require Import Reals Lra Lia Psatz List Bool ZArith Arith Permutation.
From PUN Require Import Base.Num Base.Sort Model.Interval Model.IntervalFun Model.Pbox Model.B2B
                        Proofs.Hull Proofs.ListR Proofs.PboxWF Proofs.IntervalOps Proofs.IntervalFun Proofs.B2B Proofs.DepOps Proofs.Lattice Proofs.Query.
Import ListNotations.
Open Scope R_scope.

(* ---------- intervals: the corner hull is the exact range, hence isotone ---------- *)
Lemma sub_pr_refl p : sub_pr p p.
Proof. unfold sub_pr; lra. Qed.
Lemma sub_pr_in x p q : in_pr x p -> sub_pr p q -> in_pr x q.
Proof. unfold in_pr, sub_pr; lra. Qed.

Theorem corner_hull_iso op s s' o o' : wfp s -> wfp o -> wfp s' -> wfp o' -> sub_pr s s' -> sub_pr o o' ->
  (is_div op = true -> ~ has0 o') -> sub_pr (corner_hull (opR op) s o) (corner_hull (opR op) s' o').
Proof.
  intros Ws Wo Ws' Wo' Hs Ho Hz.
  assert (Hz0 : is_div op = true -> ~ has0 o) by (intros E H0; apply (Hz E); unfold has0, sub_pr in *; lra).
  (* every corner value of (s,o) is a pointwise value of (s',o'), hence inside the wider hull *)
  assert (C : forall x y, (x = fst s \/ x = snd s) -> (y = fst o \/ y = snd o) ->
              fst (corner_hull (opR op) s' o') <= opR op x y <= snd (corner_hull (opR op) s' o')).
  { intros x y Hx Hy. apply corner_hull_encl; auto; unfold wfp, sub_pr in *; destruct Hx as [->| ->], Hy as [->| ->]; lra. }
  destruct (corner_hull_attained (opR op) s o) as [A B]. cbv zeta in A, B. unfold sub_pr. split.
  - destruct A as [-> |[-> |[-> | ->]]]; apply C; auto.
  - destruct B as [-> |[-> |[-> | ->]]]; apply C; auto.
Qed.

(* ---------- integer powers: both ends of the result are attained ---------- *)
Section Pow.
Variable fpow : R -> nat -> R.
Hypothesis fpow_is : forall x k, fpow x k = x ^ k.
Theorem ipow_nonneg_attained lo hi k a b : (0 < k)%nat -> lo <= hi -> ipow_nonneg RN fpow (lo, hi) k = Ok (a, b) ->
  (exists x, lo <= x <= hi /\ x ^ k = a) /\ (exists x, lo <= x <= hi /\ x ^ k = b).
Proof.
  intros Hk H. unfold ipow_nonneg. cbv zeta. cbn [fst snd]. rewrite (fpow_is lo k), (fpow_is hi k), nmin_R, nmax_R. unfold nzero; cbn [nltb nofZ RN T].
  assert (MX : exists x, lo <= x <= hi /\ x ^ k = Rmax (lo ^ k) (hi ^ k)).
  { unfold Rmax. destruct (Rle_dec _ _); [exists hi|exists lo]; split; lra. }
  assert (MN : exists x, lo <= x <= hi /\ x ^ k = Rmin (lo ^ k) (hi ^ k)).
  { unfold Rmin. destruct (Rle_dec _ _); [exists lo|exists hi]; split; lra. }
  destruct (Nat.even k) eqn:E; unfold mkI; cbn [nleb RN T].
  - destruct (Rltb_spec hi 0) as [Hn|Hn]; destruct (Rltb_spec 0 lo) as [Hp|Hp]; try (exfalso; lra);
      destruct (Rleb _ _); intros Eq; inversion Eq; subst; (split; [|exact MX]).
    + exists hi; split; lra. + exists lo; split; lra.
    + exists 0. split; [lra|]. apply pow_i. exact Hk.
  - destruct (Rleb _ _); intros Eq; inversion Eq; subst. split; assumption.
Qed.
Theorem ipow_nonneg_iso lo hi lo' hi' k r r' : (0 < k)%nat -> lo <= hi -> lo' <= lo -> hi <= hi' ->
  ipow_nonneg RN fpow (lo, hi) k = Ok r -> ipow_nonneg RN fpow (lo', hi') k = Ok r' -> sub_pr r r'.
Proof.
  intros Hk H H1 H2 E E'. destruct r as [a b], r' as [a' b'].
  destruct (ipow_nonneg_attained lo hi k a b Hk H E) as [(x & Hx & <-) (y & Hy & <-)].
  destruct (ipow_nonneg_encl fpow fpow_is lo' hi' k ltac:(lra)) as (a2 & b2 & E2 & Henc). rewrite E' in E2. inversion E2; subst.
  unfold sub_pr; cbn [fst snd]. pose proof (Henc x ltac:(lra)). pose proof (Henc y ltac:(lra)). lra.
Qed.
End Pow.

(* ---------- p-box arithmetic ---------- *)
(* P inside P': the wider box has the lower left bound and the higher right bound at every step *)
Definition pinside (p p' : list R * list R) : Prop := ple (fst p') (fst p) /\ ple (snd p) (snd p').

(* pointwise order is preserved by sorting (used for every dependency) *)
Lemma sort_ple (a b : list R) : ple a b -> ple (Rsort a) (Rsort b).
Proof. intros H. pose proof (ple_length _ _ H) as Hl. apply nth_ple; [rewrite !Rsort_length; exact Hl|].
  intros i Hi. rewrite Rsort_length in Hi. apply sort_pointwise_le; auto. intros j Hj. apply ple_nth; auto. Qed.

(* Frechet: the raw bounds are monotone in the operand bounds for an operation nondecreasing in both arguments *)
Section Fre.
Variable op : R -> R -> R.
Hypothesis op_mono : forall a a' b b', a <= a' -> b <= b' -> op a b <= op a' b'.
Lemma map2_ple (a a' b b' : list R) : ple a a' -> ple b b' -> ple (map2 op a b) (map2 op a' b').
Proof. intros Ha. revert b b'. induction Ha as [|x x' a a' Hx Ha IH]; intros b b' Hb; inversion Hb as [|y y' b0 b0' Hy Hb0]; subst; cbn [map2]; constructor.
  - apply op_mono; assumption. - apply IH; assumption. Qed.
Lemma firstn_ple n (a b : list R) : ple a b -> ple (firstn n a) (firstn n b).
Proof. intros H. revert n; induction H as [|x y a b Hxy H IH]; intros [|n]; cbn [firstn]; try constructor; auto. apply IH. Qed.
Lemma skipn_ple n (a b : list R) : ple a b -> ple (skipn n a) (skipn n b).
Proof. intros H. revert n; induction H as [|x y a b Hxy H IH]; intros [|n]; cbn [skipn]; try (constructor; auto; fail); auto. Qed.
Lemma maxl_ple (a b : list R) : ple a b -> a <> [] -> maxl RN a <= maxl RN b.
Proof. intros H Hne. apply maxl_le_all; auto. intros v Hv. destruct (In_nth _ _ 0 Hv) as (i & Hi & <-).
  apply Rle_trans with (nth i b 0); [apply ple_nth; auto|]. apply maxl_ge, nth_In. rewrite <- (ple_length _ _ H). exact Hi. Qed.
Lemma minl_ple (a b : list R) : ple a b -> a <> [] -> minl RN a <= minl RN b.
Proof. intros H Hne. assert (Hb : b <> []) by (intro E; subst; inversion H; subst; congruence).
  apply minl_ge_all; auto. intros v Hv. destruct (In_nth _ _ 0 Hv) as (i & Hi & <-).
  apply Rle_trans with (nth i a 0); [|apply ple_nth; auto; rewrite (ple_length _ _ H); exact Hi]. apply minl_le, nth_In. rewrite (ple_length _ _ H). exact Hi. Qed.

Theorem frechet_iso (XL XR XL' XR' YL YR : list R) n :
  length XL = n -> length XR = n -> length YL = n -> length YR = n ->
  ple XL' XL -> ple XR XR' ->
  pinside (frechet_op RN op XL XR YL YR) (frechet_op RN op XL' XR' YL YR).
Proof.
  intros l1 l2 l3 l4 HL HR. pose proof (ple_length _ _ HL) as l5. pose proof (ple_length _ _ HR) as l6.
  unfold frechet_op, pinside. cbn [fst snd T RN]. rewrite l1, l5, l1. change (nsort RN) with Rsort. split; apply sort_ple; apply nth_ple; rewrite ?map_length, ?seq_length; auto;
    intros i Hi; rewrite !nth_map_seq_gen by exact Hi; unfold frechet_left, frechet_right; cbn [T RN].
  - apply maxl_ple.
    + apply map2_ple; [apply firstn_ple; exact HL|apply ple_refl].
    + intro E. apply (f_equal (@length R)) in E. rewrite map2_length, rev_length, !firstn_length in E. change (T RN) with R in *. cbn [length] in E. lia.
  - apply minl_ple.
    + apply map2_ple; [apply skipn_ple; exact HR|apply ple_refl].
    + intro E. apply (f_equal (@length R)) in E. rewrite map2_length, rev_length, !skipn_length in E. change (T RN) with R in *. cbn [length] in E. lia.
Qed.
End Fre.

(* perfect / opposite / independent: step-wise interval combinations are isotone (corner hull), then sorting preserves the order *)
Lemma istep_iso_list (op : bop) : forall X X' Y : list (R * R),
  Forall2 sub_pr X X' -> Forall wfp X -> Forall wfp X' -> Forall wfp Y -> (is_div op = true -> Forall (fun q => ~ has0 q) Y) ->
  ple (map fst (map2 (istep (opR op)) X' Y)) (map fst (map2 (istep (opR op)) X Y)) /\
  ple (map snd (map2 (istep (opR op)) X Y)) (map snd (map2 (istep (opR op)) X' Y)).
Proof.
  intros X X' Y H. revert Y. induction H as [|p p' X X' Hp H IH]; intros Y W W' WY Hz.
  - cbn. split; constructor.
  - destruct Y as [|q Y]; [cbn; split; constructor|]. inversion W; inversion W'; inversion WY; subst.
    assert (Hz' : is_div op = true -> Forall (fun q0 => ~ has0 q0) Y) by (intros E; specialize (Hz E); inversion Hz; assumption).
    destruct (IH Y ltac:(assumption) ltac:(assumption) ltac:(assumption) Hz') as [I1 I2].
    assert (S : sub_pr (istep (opR op) p q) (istep (opR op) p' q)).
    { apply corner_hull_iso; auto. apply sub_pr_refl. intros E. specialize (Hz E). inversion Hz; assumption. }
    cbn [map2 map]. split; constructor; auto; apply S.
Qed.
Theorem perfect_iso (op : bop) (XL XR XL' XR' YL YR : list R) :
  length XR = length XL -> length YL = length XL -> length YR = length XL -> length XL' = length XL -> length XR' = length XL ->
  Forall2 sub_pr (combine XL XR) (combine XL' XR') -> Forall wfp (combine XL XR) -> Forall wfp (combine XL' XR') -> Forall wfp (combine YL YR) ->
  (is_div op = true -> Forall (fun q => ~ has0 q) (combine YL YR)) ->
  pinside (perfect_op RN (opR op) XL XR YL YR) (perfect_op RN (opR op) XL' XR' YL YR).
Proof.
  intros l1 l2 l3 l4 l5 H W W' WY Hz. rewrite !perfect_op_spec by lia. unfold pinside; cbn [fst snd].
  destruct (istep_iso_list op _ _ (combine YL YR) H W W' WY Hz) as [I1 I2]. split; apply sort_ple; assumption.
Qed.

(* envelope / imposition *)
Theorem env_iso p p' q : pinside p p' -> length (fst p) = length (fst q) -> length (snd p) = length (snd q) -> pinside (env_raw p q) (env_raw p' q).
Proof.
  intros [H1 H2] L1 L2. pose proof (ple_length _ _ H1). pose proof (ple_length _ _ H2). unfold pinside, env_raw; cbn [fst snd].
  split; apply ple_map2_both; try lia; intros i Hi.
  - apply Rmin_mono; [apply ple_nth; auto; lia|lra].
  - apply Rmax_mono; [apply ple_nth; auto|lra].
Qed.
Theorem imp_iso p p' q : pinside p p' -> length (fst p) = length (fst q) -> length (snd p) = length (snd q) -> pinside (imp_raw p q) (imp_raw p' q).
Proof.
  intros [H1 H2] L1 L2. pose proof (ple_length _ _ H1). pose proof (ple_length _ _ H2). unfold pinside, imp_raw; cbn [fst snd].
  split; apply ple_map2_both; try lia; intros i Hi.
  - apply Rmax_mono; [apply ple_nth; auto; lia|lra].
  - apply Rmin_mono; [apply ple_nth; auto|lra].
Qed.

(* ---------- any expression of the response-function grammar (any depth) ---------- *)
Section Expr.
Variables (fexp : R -> R) (fpow : R -> nat -> R).
Hypothesis fexp_is : forall x, fexp x = exp x.
Hypothesis fpow_is : forall x k, fpow x k = x ^ k.
Notation ievalR := (ieval RN fexp fpow).

Fixpoint pos_pows (e : expr) : Prop :=
  match e with
  | Var _ | Const _ _ => True
  | EAdd a b | ESub a b | EMul a b | EDiv a b => pos_pows a /\ pos_pows b
  | EPow a k => (0 < k)%nat /\ pos_pows a
  | EExp a | ESqrt a => pos_pows a end.
Definition sub_v (v v' : ival_or_num RN) : Prop :=
  match v, v' with IV _ p, IV _ p' => sub_pr p p' | NV _ c, NV _ c' => c = c' | _, _ => False end.

Lemma bin_iso op u u' w w' v v' : wfv u -> wfv u' -> wfv w -> wfv w' -> sub_v u u' -> sub_v w w' ->
  bin RN op u w = Ok v -> bin RN op u' w' = Ok v' -> sub_v v v'.
Proof.
  intros Wu Wu' Ww Ww' Su Sw. destruct u as [p|c], u' as [p'|c'], w as [q|d], w' as [q'|d']; cbn [sub_v wfv] in *; try contradiction; cbn [bin].
  - destruct (iop RN op p q) as [r| |] eqn:E; cbn [rbind]; try discriminate. destruct (iop RN op p' q') as [r'| |] eqn:E'; cbn [rbind]; try discriminate.
    intros A B; inversion A; inversion B; subst. destruct (iop_ok op p q r Wu Ww E) as [-> _]. destruct (iop_ok op p' q' r' Wu' Ww' E') as [-> Hz].
    cbn [sub_v]. apply corner_hull_iso; auto.
  - subst d'. destruct (iopn RN op p d) as [r| |] eqn:E; cbn [rbind]; try discriminate. destruct (iopn RN op p' d) as [r'| |] eqn:E'; cbn [rbind]; try discriminate.
    intros A B; inversion A; inversion B; subst. destruct (iopn_ok op p r d Wu E) as [-> _]. destruct (iopn_ok op p' r' d Wu' E') as [-> Hz].
    cbn [sub_v]. apply corner_hull_iso; auto; try (unfold wfp; cbn; lra); try apply sub_pr_refl.
    intros Ed [H1 H2]; cbn in *. apply (Hz Ed). lra.
  - subst c'. destruct (inop RN op c q) as [r| |] eqn:E; cbn [rbind]; try discriminate. destruct (inop RN op c q') as [r'| |] eqn:E'; cbn [rbind]; try discriminate.
    intros A B; inversion A; inversion B; subst. destruct (inop_ok op q r c Ww E) as [-> _]. destruct (inop_ok op q' r' c Ww' E') as [-> Hz].
    cbn [sub_v]. apply corner_hull_iso; auto; try (unfold wfp; cbn; lra); try apply sub_pr_refl.
  - subst. intros A B; inversion A; inversion B; subst. reflexivity.
Qed.

Lemma ieval_wf e box v : wf_box box -> ievalR e box = Ok v -> wfv v.
Proof.
  (* well-formedness follows from soundness applied to the lower corner of the box *)
  intros W E. assert (Hb : in_box (map fst box) box).
  { clear E. induction W as [|p box Wp W IH]; cbn; constructor; auto. unfold in_pr, wfp in *; lra. }
  destruct (ieval_sound fexp fpow fexp_is fpow_is e (map fst box) box v Hb W E) as [Wv _]. exact Wv.
Qed.

Theorem ieval_iso e : forall box box' v v', pos_pows e -> Forall2 sub_pr box box' -> wf_box box -> wf_box box' ->
  ievalR e box = Ok v -> ievalR e box' = Ok v' -> sub_v v v'.
Proof.
  induction e as [i|c k|a IHa b IHb|a IHa b IHb|a IHa b IHb|a IHa b IHb|a IHa k|a IHa|a IHa]; intros box box' v v' Hp Hs W W' E E'; cbn [ieval pos_pows] in *.
  - inversion E; inversion E'; subst. cbn [sub_v]. clear -Hs. revert i. induction Hs; intros [|i]; cbn [nth]; auto; apply sub_pr_refl.
  - inversion E; inversion E'; subst. reflexivity.
  - destruct Hp as [Pa Pb].
    destruct (ievalR a box) as [u| |] eqn:Ea; try discriminate. destruct (ievalR b box) as [w| |] eqn:Eb; try discriminate.
    destruct (ievalR a box') as [u'| |] eqn:Ea'; try discriminate. destruct (ievalR b box') as [w'| |] eqn:Eb'; try discriminate. cbn [rbind] in *.
    eapply (bin_iso Add u u' w w'); eauto using ieval_wf.
  - destruct Hp as [Pa Pb].
    destruct (ievalR a box) as [u| |] eqn:Ea; try discriminate. destruct (ievalR b box) as [w| |] eqn:Eb; try discriminate.
    destruct (ievalR a box') as [u'| |] eqn:Ea'; try discriminate. destruct (ievalR b box') as [w'| |] eqn:Eb'; try discriminate. cbn [rbind] in *.
    eapply (bin_iso Sub u u' w w'); eauto using ieval_wf.
  - destruct Hp as [Pa Pb].
    destruct (ievalR a box) as [u| |] eqn:Ea; try discriminate. destruct (ievalR b box) as [w| |] eqn:Eb; try discriminate.
    destruct (ievalR a box') as [u'| |] eqn:Ea'; try discriminate. destruct (ievalR b box') as [w'| |] eqn:Eb'; try discriminate. cbn [rbind] in *.
    eapply (bin_iso Mul u u' w w'); eauto using ieval_wf.
  - destruct Hp as [Pa Pb].
    destruct (ievalR a box) as [u| |] eqn:Ea; try discriminate. destruct (ievalR b box) as [w| |] eqn:Eb; try discriminate.
    destruct (ievalR a box') as [u'| |] eqn:Ea'; try discriminate. destruct (ievalR b box') as [w'| |] eqn:Eb'; try discriminate. cbn [rbind] in *.
    eapply (bin_iso Div u u' w w'); eauto using ieval_wf.
  - destruct Hp as [Hk Pa].
    destruct (ievalR a box) as [u| |] eqn:Ea; try discriminate. destruct (ievalR a box') as [u'| |] eqn:Ea'; try discriminate. cbn [rbind] in *.
    pose proof (IHa box box' u u' Pa Hs W W' Ea Ea') as S. pose proof (ieval_wf a box u W Ea) as Wu.
    destruct u as [[lo hi]|c], u' as [[lo' hi']|c']; cbn [sub_v] in *; try contradiction.
    + destruct (ipow_nonneg RN fpow (lo, hi) k) as [r| |] eqn:P; cbn [rbind] in E; try discriminate.
      destruct (ipow_nonneg RN fpow (lo', hi') k) as [r'| |] eqn:P'; cbn [rbind] in E'; try discriminate.
      inversion E; inversion E'; subst. cbn [sub_v]. destruct S as [S1 S2]. cbn [fst snd] in *.
      apply (ipow_nonneg_iso fpow fpow_is lo hi lo' hi' k r r' Hk Wu S1 S2 P P').
    + inversion E; inversion E'; subst. reflexivity.
  - destruct (ievalR a box) as [u| |] eqn:Ea; try discriminate. destruct (ievalR a box') as [u'| |] eqn:Ea'; try discriminate. cbn [rbind] in *.
    pose proof (IHa box box' u u' Hp Hs W W' Ea Ea') as S. pose proof (ieval_wf a box u W Ea) as Wu. pose proof (ieval_wf a box' u' W' Ea') as Wu'.
    destruct u as [[lo hi]|c], u' as [[lo' hi']|c']; cbn [sub_v wfv] in *; try contradiction.
    + destruct (iexp_exact fexp fexp_is lo hi Wu) as [X _]. destruct (iexp_exact fexp fexp_is lo' hi' Wu') as [X' _].
      assert (Ev : v = IV RN (exp lo, exp hi)).
      { revert E. match goal with |- rbind ?t _ = _ -> _ => replace t with (@Ok (R * R) (exp lo, exp hi)) by (symmetry; exact X) end. cbn [rbind]. intros A; inversion A; reflexivity. }
      assert (Ev' : v' = IV RN (exp lo', exp hi')).
      { revert E'. match goal with |- rbind ?t _ = _ -> _ => replace t with (@Ok (R * R) (exp lo', exp hi')) by (symmetry; exact X') end. cbn [rbind]. intros A; inversion A; reflexivity. }
      subst. cbn [sub_v]. destruct S as [S1 S2]; cbn [fst snd] in *. unfold sub_pr; cbn [fst snd].
      assert (M : forall a0 b0, a0 <= b0 -> exp a0 <= exp b0) by (intros a0 b0 [H| ->]; [left; apply exp_increasing; exact H|lra]). split; apply M; assumption.
    + inversion E; inversion E'; subst. reflexivity.
  - destruct (ievalR a box) as [u| |] eqn:Ea; try discriminate. destruct (ievalR a box') as [u'| |] eqn:Ea'; try discriminate. cbn [rbind] in *.
    pose proof (IHa box box' u u' Hp Hs W W' Ea Ea') as S.
    destruct u as [[lo hi]|c], u' as [[lo' hi']|c']; cbn [sub_v wfv] in *; try contradiction.
    + unfold isqrt, mkI in E, E'. cbn [fst snd nsqrt nleb RN T] in E, E'.
      destruct (Rleb (sqrt lo) (sqrt hi)); cbn [rbind] in E; try discriminate. destruct (Rleb (sqrt lo') (sqrt hi')); cbn [rbind] in E'; try discriminate.
      inversion E; inversion E'; subst. cbn [sub_v]. destruct S as [S1 S2]; cbn [fst snd] in *. unfold sub_pr; cbn [fst snd]. split; apply sqrt_le_1_alt; assumption.
    + inversion E; inversion E'; subst. reflexivity.
Qed.
End Expr.

(* ---------- opposite and independent dependence ---------- *)
Theorem opposite_iso (op : bop) (XL XR XL' XR' YL YR : list R) :
  length XR = length XL -> length YL = length XL -> length YR = length XL -> length XL' = length XL -> length XR' = length XL ->
  Forall2 sub_pr (combine XL XR) (combine XL' XR') -> Forall wfp (combine XL XR) -> Forall wfp (combine XL' XR') -> Forall wfp (combine YL YR) ->
  (is_div op = true -> Forall (fun q => ~ has0 q) (combine YL YR)) ->
  pinside (opposite_op RN (opR op) XL XR YL YR) (opposite_op RN (opR op) XL' XR' YL YR).
Proof.
  intros l1 l2 l3 l4 l5 H W W' WY Hz. rewrite !opposite_op_spec by lia. unfold pinside; cbn [fst snd].
  destruct (istep_iso_list op _ _ (rev (combine YL YR)) H W W' (Forall_rev WY) ltac:(intros E; apply Forall_rev; apply Hz; exact E)) as [I1 I2].
  split; apply sort_ple; assumption.
Qed.
Lemma ple_app_both (a a' b b' : list R) : ple a a' -> ple b b' -> ple (a ++ b) (a' ++ b').
Proof. intros H Hb. induction H; cbn [app]; [exact Hb|]. constructor; auto. Qed.
Lemma all_pairs_iso (op : bop) : forall X X' Y : list (R * R),
  Forall2 sub_pr X X' -> Forall wfp X -> Forall wfp X' -> Forall wfp Y -> (is_div op = true -> Forall (fun q => ~ has0 q) Y) ->
  ple (map fst (all_pairs (opR op) X' Y)) (map fst (all_pairs (opR op) X Y)) /\
  ple (map snd (all_pairs (opR op) X Y)) (map snd (all_pairs (opR op) X' Y)).
Proof.
  intros X X' Y H. induction H as [|p p' X X' Hp H IH]; intros W W' WY Hz; unfold all_pairs in *; cbn [flat_map map].
  - split; constructor.
  - inversion W as [|? ? Wp WX]; inversion W' as [|? ? Wp' WX']; subst. destruct (IH WX WX' WY Hz) as [I1 I2].
    rewrite !map_app.
    assert (Row : ple (map fst (map (istep (opR op) p') Y)) (map fst (map (istep (opR op) p) Y)) /\
                  ple (map snd (map (istep (opR op) p) Y)) (map snd (map (istep (opR op) p') Y))).
    { clear - Hp WY Hz Wp Wp'. assert (Hz' : is_div op = true -> Forall (fun q => ~ has0 q) Y) by exact Hz. clear Hz.
      induction WY as [|q Y Wq WY IHY]; cbn [map]; [split; constructor|].
      assert (Hz'' : is_div op = true -> Forall (fun q0 => ~ has0 q0) Y) by (intros E; specialize (Hz' E); inversion Hz'; assumption).
      destruct (IHY Hz'') as [J1 J2].
      assert (S : sub_pr (istep (opR op) p q) (istep (opR op) p' q)).
      { apply corner_hull_iso; auto. apply sub_pr_refl. intros E. specialize (Hz' E). inversion Hz'; assumption. }
      split; constructor; auto; apply S. }
    destruct Row as [R1 R2]. split; apply ple_app_both; assumption.
Qed.
Theorem independent_iso (op : bop) (XL XR XL' XR' YL YR : list R) :
  length XR = length XL -> length YR = length YL -> length XL' = length XL -> length XR' = length XL ->
  Forall2 sub_pr (combine XL XR) (combine XL' XR') -> Forall wfp (combine XL XR) -> Forall wfp (combine XL' XR') -> Forall wfp (combine YL YR) ->
  (is_div op = true -> Forall (fun q => ~ has0 q) (combine YL YR)) ->
  pinside (independent_op RN (opR op) XL XR YL YR) (independent_op RN (opR op) XL' XR' YL YR).
Proof.
  intros l1 l2 l4 l5 H W W' WY Hz. rewrite !independent_op_spec by lia. unfold pinside; cbn [fst snd].
  destruct (all_pairs_iso op _ _ (combine YL YR) H W W' WY Hz) as [I1 I2]. split; apply sort_ple; assumption.
Qed.

(* ---------- subinterval reconstitution with direct evaluation lies inside the un-subdivided direct result ---------- *)
Lemma linspace_between (a b : R) n v : a <= b -> (1 <= n)%nat -> In v (linspace RN a b (S n)) -> a <= v <= b.
Proof.
  intros Hab Hn Hv. destruct n as [|n]; [lia|]. unfold linspace in Hv. apply in_map_iff in Hv. destruct Hv as (i & <- & Hi). apply in_seq in Hi.
  cbn [nadd nsub nmul ndiv nofZ RN T]. destruct (Nat.eqb i (S (S n) - 1)); [lra|].
  replace (S (S n) - 1)%nat with (S n) by lia.
  assert (P : 0 < IZR (Z.of_nat (S n))) by (apply IZR_lt; lia).
  assert (Q : 0 <= IZR (Z.of_nat i) <= IZR (Z.of_nat (S n))) by (split; apply IZR_le; lia).
  set (N := IZR (Z.of_nat (S n))) in *. set (I := IZR (Z.of_nat i)) in *.
  assert (E : I * ((b - a) / N) = (I / N) * (b - a)) by (field; lra). rewrite E.
  assert (0 <= I / N <= 1).
  { split; [apply Rmult_le_pos; [lra|left; apply Rinv_0_lt_compat; lra]|]. apply Rmult_le_reg_r with N; [lra|]. unfold Rdiv. rewrite Rmult_assoc, Rinv_l by lra. lra. }
  split; nra.
Qed.
Lemma linspace_step_le (a b : R) n i : a <= b -> (1 <= n)%nat -> (i < n)%nat ->
  nth i (linspace RN a b (S n)) 0 <= nth (S i) (linspace RN a b (S n)) 0.
Proof.
  intros Hab Hn Hi. destruct n as [|n]; [lia|]. unfold linspace. rewrite !nth_map_seq_gen by lia.
  cbn [nadd nsub nmul ndiv nofZ RN T]. replace (S (S n) - 1)%nat with (S n) by lia.
  assert (P : 0 < IZR (Z.of_nat (S n))) by (apply IZR_lt; lia).
  destruct (Nat.eqb_spec i (S n)); [lia|]. 
  assert (St : 0 <= (b - a) / IZR (Z.of_nat (S n))) by (apply Rmult_le_pos; [lra|left; apply Rinv_0_lt_compat; lra]).
  destruct (Nat.eqb_spec (S i) (S n)) as [E|E].
  - (* the last point is b itself *) assert (i = n) by lia. subst i.
    assert (IZR (Z.of_nat n) * ((b - a) / IZR (Z.of_nat (S n))) <= b - a).
    { assert (Q : IZR (Z.of_nat n) <= IZR (Z.of_nat (S n))) by (apply IZR_le; lia).
      set (N := IZR (Z.of_nat (S n))) in *. set (I := IZR (Z.of_nat n)) in *.
      replace (I * ((b - a) / N)) with ((I / N) * (b - a)) by (field; lra).
      assert (0 <= I / N <= 1).
      { assert (0 <= I) by (apply IZR_le; lia). split; [apply Rmult_le_pos; [lra|left; apply Rinv_0_lt_compat; lra]|].
        apply Rmult_le_reg_r with N; [lra|]. unfold Rdiv. rewrite Rmult_assoc, Rinv_l by lra. lra. }
      nra. }
    lra.
  - assert (Q : IZR (Z.of_nat i) <= IZR (Z.of_nat (S i))) by (apply IZR_le; lia). nra.
Qed.
Lemma In_combine_consecutive (l : list R) (t : R * R) : In t (combine (removelast l) (tl l)) ->
  exists i, (S i < length l)%nat /\ t = (nth i l 0, nth (S i) l 0).
Proof.
  induction l as [|a l IH]; [intros []|]. destruct l as [|b l]; [intros []|].
  change (removelast (a :: b :: l)) with (a :: removelast (b :: l)). cbn [tl combine]. intros [<-|H].
  - exists 0%nat. cbn [length nth]. split; [lia|reflexivity].
  - destruct (IH H) as (i & Hi & E). exists (S i). cbn [length nth] in *. split; [lia|exact E].
Qed.
Lemma tile_inside (p : R * R) n t : wfp p -> (1 <= n)%nat -> In t (tiles1 RN p n) -> wfp t /\ sub_pr t p.
Proof.
  intros W Hn Ht. unfold tiles1 in Ht. cbv zeta in Ht. apply In_combine_consecutive in Ht. destruct Ht as (i & Hi & ->).
  rewrite linspace_length in Hi. unfold wfp in W.
  assert (B1 : fst p <= nth i (linspace RN (fst p) (snd p) (S n)) 0 <= snd p) by (apply (linspace_between _ _ n); auto; apply nth_In; rewrite linspace_length; lia).
  assert (B2 : fst p <= nth (S i) (linspace RN (fst p) (snd p) (S n)) 0 <= snd p) by (apply (linspace_between _ _ n); auto; apply nth_In; rewrite linspace_length; lia).
  split; [unfold wfp; cbn [fst snd]; apply linspace_step_le; [exact W|exact Hn|apply Nat.succ_lt_mono; exact Hi]|]. unfold sub_pr; cbn [fst snd]. split; [apply B1|apply B2].
Qed.
Lemma tiles_inside box n tb : wf_box box -> (1 <= n)%nat -> In tb (subintervalise RN box n) -> wf_box tb /\ Forall2 sub_pr tb box.
Proof.
  intros W Hn Ht. unfold subintervalise in Ht. apply in_cartesian in Ht. rewrite Forall2_map_r in Ht || idtac.
  revert tb Ht. induction W as [|p box Wp W IH]; intros tb Ht; cbn [map] in Ht; inversion Ht; subst; [split; constructor|].
  destruct (IH _ ltac:(eassumption)) as [A B]. destruct (tile_inside p n _ Wp Hn ltac:(eassumption)) as [C D]. split; constructor; assumption.
Qed.
Lemma tiles1_nonempty (p : R * R) n : (1 <= n)%nat -> tiles1 RN p n <> [].
Proof. intros Hn. destruct n as [|n]; [lia|]. unfold tiles1, linspace. cbv zeta. cbn [seq map].
  change (removelast (?a :: ?b :: ?l)) with (a :: removelast (b :: l)). cbn [removelast tl combine]. discriminate. Qed.
Section SubDirect.
Variable fexp : R -> R.
Variable fpow : R -> nat -> R.
Hypothesis fexp_is : forall x, fexp x = exp x.
Hypothesis fpow_is : forall x k, fpow x k = x ^ k.
Theorem sub_direct_inside_direct e box n r D : pos_pows e -> wf_box box -> (1 <= n)%nat ->
  sub_direct RN fexp fpow e box n = Ok r -> direct RN fexp fpow e box = Ok D -> sub_pr r D.
Proof.
  intros Hp W Hn Es Ed. unfold sub_direct in Es. destruct (sequence _) as [rs| |] eqn:Eq; cbn [rbind] in Es; try discriminate.
  pose proof (sequence_ok _ _ Eq) as F.
  assert (All : Forall (fun rt => sub_pr rt D) rs).
  { remember (subintervalise RN box n) as tl eqn:Et.
    assert (Htl : forall tb, In tb tl -> wf_box tb /\ Forall2 sub_pr tb box) by (intros tb Hin; subst tl; apply (tiles_inside box n tb W Hn Hin)).
    clear Et Eq Es. revert rs F. induction tl as [|tb tl IH]; intros rs F; cbn [map] in F; inversion F as [|? rt ? rs' Hrt F']; subst; constructor.
    - destruct (Htl tb (or_introl eq_refl)) as [Wt St]. unfold direct in Hrt, Ed.
      destruct (ieval RN fexp fpow e tb) as [v| |] eqn:E1; cbn [rbind] in Hrt; try discriminate.
      destruct (ieval RN fexp fpow e box) as [v'| |] eqn:E2; cbn [rbind] in Ed; try discriminate. inversion Hrt; inversion Ed; subst.
      pose proof (ieval_iso fexp fpow fexp_is fpow_is e tb box v v' Hp St Wt W E1 E2) as S.
      pose proof (ieval_wf fexp fpow fexp_is fpow_is e tb v Wt E1) as Wv.
      destruct v as [p|c], v' as [p'|c']; cbn [sub_v as_pr] in *; try exact S; try contradiction;
        unfold sub_pr, in_pr in *; cbn [fst snd] in *; subst; lra.
    - apply IH; auto. intros tb' Hin. apply Htl. right; exact Hin. }
  unfold reconstitute, mkI in Es. cbn [nleb RN T] in Es. destruct (Rleb _ _); inversion Es; subst. unfold sub_pr; cbn [fst snd].
  assert (Ne : rs <> []).
  { intro E. subst rs. inversion F as [E0|]. symmetry in E0. apply map_eq_nil in E0.
    revert E0. apply cartesian_nonempty. apply Forall_forall. intros l Hl. apply in_map_iff in Hl. destruct Hl as (p & <- & _).
    exact (tiles1_nonempty p n Hn). }
  rewrite Forall_forall in All. split.
  - apply minl_ge_all; [intro E; apply map_eq_nil in E; contradiction|]. intros v Hv. apply in_map_iff in Hv. destruct Hv as (t & <- & Ht). apply All; exact Ht.
  - apply maxl_le_all; [intro E; apply map_eq_nil in E; contradiction|]. intros v Hv. apply in_map_iff in Hv. destruct Hv as (t & <- & Ht). apply All; exact Ht.
Qed.
End SubDirect.

(* ---------- direct evaluation on a box of points gives the point value (precise inputs: zero-width image) ---------- *)
Section Point.
Variables (fexp : R -> R) (fpow : R -> nat -> R).
Hypothesis fexp_is : forall x, fexp x = exp x.
Hypothesis fpow_is : forall x k, fpow x k = x ^ k.
Definition point_v (v : ival_or_num RN) (x : R) : Prop := match v with IV _ p => p = (x, x) | NV _ c => c = x end.
Lemma hull_point (f : R -> R -> R) x y : corner_hull f (x, x) (y, y) = (f x y, f x y).
Proof. unfold corner_hull; cbn [fst snd]. f_equal; [apply min4_eq|apply max4_eq]; auto; lra. Qed.
Lemma wfp_point x : wfp (x, x). Proof. unfold wfp; cbn; lra. Qed.
Lemma bin_point op u w v x y : point_v u x -> point_v w y -> bin RN op u w = Ok v -> point_v v (opR op x y).
Proof.
  destruct u as [p|c], w as [q|d]; cbn [point_v bin]; intros Hu Hw; subst.
  - destruct (iop RN op (x, x) (y, y)) as [r| |] eqn:E; cbn [rbind]; try discriminate. intros A; inversion A; subst.
    destruct (iop_ok op _ _ r (wfp_point x) (wfp_point y) E) as [-> _]. cbn [point_v]. apply hull_point.
  - destruct (iopn RN op (x, x) y) as [r| |] eqn:E; cbn [rbind]; try discriminate. intros A; inversion A; subst.
    destruct (iopn_ok op _ r y (wfp_point x) E) as [-> _]. cbn [point_v]. apply hull_point.
  - destruct (inop RN op x (y, y)) as [r| |] eqn:E; cbn [rbind]; try discriminate. intros A; inversion A; subst.
    destruct (inop_ok op _ r x (wfp_point y) E) as [-> _]. cbn [point_v]. apply hull_point.
  - intros A; inversion A; subst. cbn [point_v]. destruct op; reflexivity.
Qed.
Lemma nth_point_box (xs : list R) i : nth i (map (fun x => (x, x)) xs) (0, 0) = (nth i xs 0, nth i xs 0).
Proof. exact (map_nth (fun x : R => (x, x)) xs 0 i). Qed.
Theorem ieval_point e : forall xs v, pos_pows e -> ieval RN fexp fpow e (map (fun x => (x, x)) xs) = Ok v -> point_v v (eval RN fexp fpow e xs).
Proof.
  induction e as [i|c k|a IHa b IHb|a IHa b IHb|a IHa b IHb|a IHa b IHb|a IHa k|a IHa|a IHa]; intros xs v Hp E; cbn [ieval eval pos_pows] in *.
  - inversion E; subst. cbn [point_v]. unfold nzero; cbn [nofZ RN T]. apply nth_point_box.
  - inversion E; subst. reflexivity.
  - destruct Hp as [Pa Pb]. destruct (ieval RN fexp fpow a _) as [u| |] eqn:Ea; cbn [rbind] in E; try discriminate.
    destruct (ieval RN fexp fpow b _) as [w| |] eqn:Eb; cbn [rbind] in E; try discriminate. exact (bin_point Add u w v _ _ (IHa xs u Pa Ea) (IHb xs w Pb Eb) E).
  - destruct Hp as [Pa Pb]. destruct (ieval RN fexp fpow a _) as [u| |] eqn:Ea; cbn [rbind] in E; try discriminate.
    destruct (ieval RN fexp fpow b _) as [w| |] eqn:Eb; cbn [rbind] in E; try discriminate. exact (bin_point Sub u w v _ _ (IHa xs u Pa Ea) (IHb xs w Pb Eb) E).
  - destruct Hp as [Pa Pb]. destruct (ieval RN fexp fpow a _) as [u| |] eqn:Ea; cbn [rbind] in E; try discriminate.
    destruct (ieval RN fexp fpow b _) as [w| |] eqn:Eb; cbn [rbind] in E; try discriminate. exact (bin_point Mul u w v _ _ (IHa xs u Pa Ea) (IHb xs w Pb Eb) E).
  - destruct Hp as [Pa Pb]. destruct (ieval RN fexp fpow a _) as [u| |] eqn:Ea; cbn [rbind] in E; try discriminate.
    destruct (ieval RN fexp fpow b _) as [w| |] eqn:Eb; cbn [rbind] in E; try discriminate. exact (bin_point Div u w v _ _ (IHa xs u Pa Ea) (IHb xs w Pb Eb) E).
  - destruct Hp as [Hk Pa]. destruct (ieval RN fexp fpow a _) as [u| |] eqn:Ea; cbn [rbind] in E; try discriminate.
    pose proof (IHa xs u Pa Ea) as Hu. destruct u as [p|c]; cbn [point_v] in Hu; subst.
    + destruct (ipow_nonneg RN fpow _ k) as [[r1 r2]| |] eqn:Ep; cbn [rbind] in E; try discriminate. inversion E; subst. cbn [point_v].
      set (x := eval RN fexp fpow a xs) in *.
      destruct (ipow_nonneg_attained fpow fpow_is x x k r1 r2 Hk ltac:(lra) Ep) as [(y1 & Hy1 & <-) (y2 & Hy2 & <-)].
      assert (y1 = x) by lra. assert (y2 = x) by lra. subst. rewrite fpow_is. reflexivity.
    + inversion E; subst. reflexivity.
  - destruct (ieval RN fexp fpow a _) as [u| |] eqn:Ea; cbn [rbind] in E; try discriminate.
    pose proof (IHa xs u Hp Ea) as Hu. destruct u as [p|c]; cbn [point_v] in Hu; subst.
    + unfold iexp, mkI in E. cbn [fst snd nleb RN T] in E. destruct (Rleb _ _); cbn [rbind] in E; try discriminate. inversion E; subst. reflexivity.
    + inversion E; subst. reflexivity.
  - destruct (ieval RN fexp fpow a _) as [u| |] eqn:Ea; cbn [rbind] in E; try discriminate.
    pose proof (IHa xs u Hp Ea) as Hu. destruct u as [p|c]; cbn [point_v] in Hu; subst.
    + unfold isqrt, mkI in E. cbn [fst snd nleb RN T] in E. destruct (Rleb _ _); cbn [rbind] in E; try discriminate. inversion E; subst. reflexivity.
    + inversion E; subst. reflexivity.
Qed.
Corollary direct_point e xs r : pos_pows e -> direct RN fexp fpow e (map (fun x => (x, x)) xs) = Ok r -> r = (eval RN fexp fpow e xs, eval RN fexp fpow e xs).
Proof. intros Hp. unfold direct. destruct (ieval RN fexp fpow e _) as [v| |] eqn:E; cbn [rbind]; try discriminate. intros A; inversion A; subst.
  pose proof (ieval_point e xs v Hp E) as H. destruct v as [p|c]; cbn [point_v as_pr] in *; subst; reflexivity. Qed.
End Point.
