(* C18: nearest-level lookup, alpha-cuts, cdf, discretisations, prediction intervals. *)
From Coq Require Import Reals Lra List Arith Lia Bool Permutation Sorted.
From PUN Require Import Base.Num Base.Sort Model.Interval Model.Pbox Proofs.ListR Proofs.PboxWF.
Import ListNotations.
Open Scope R_scope.

(* ---------- first index of the minimum ---------- *)
Definition is_first_argmin (ds : list R) (r : nat) : Prop :=
  (r < length ds)%nat /\ (forall j, (j < length ds)%nat -> nth r ds 0 <= nth j ds 0) /\
  (forall j, (j < r)%nat -> nth r ds 0 < nth j ds 0).

Lemma argmin_from_spec : forall (l pre : list R) (best : R) (bi : nat),
  (bi < length pre)%nat -> nth bi pre 0 = best ->
  (forall j, (j < length pre)%nat -> best <= nth j pre 0) -> (forall j, (j < bi)%nat -> best < nth j pre 0) ->
  is_first_argmin (pre ++ l) (argmin_from RN best bi (length pre) l).
Proof.
  induction l as [|d l IH]; intros pre best bi Hbi Hn Hall Hfirst; cbn [argmin_from].
  - rewrite app_nil_r. repeat split; auto; rewrite Hn; auto.
  - cbn [nltb RN T]. replace (pre ++ d :: l) with ((pre ++ [d]) ++ l) by (rewrite <- app_assoc; reflexivity).
    replace (S (length pre)) with (length (pre ++ [d])) by (rewrite app_length; cbn; lia).
    destruct (Rltb_spec d best) as [Hlt|Hge].
    + apply IH.
      * rewrite app_length; cbn; lia.
      * rewrite app_nth2, Nat.sub_diag by lia. reflexivity.
      * intros j Hj. rewrite app_length in Hj; cbn in Hj. destruct (Nat.eq_dec j (length pre)) as [->|Hne].
        -- rewrite app_nth2, Nat.sub_diag by lia. cbn. lra.
        -- rewrite app_nth1 by lia. specialize (Hall j ltac:(lia)). lra.
      * intros j Hj. rewrite app_nth1 by lia. specialize (Hall j ltac:(lia)). lra.
    + apply IH.
      * rewrite app_length; cbn; lia.
      * rewrite app_nth1 by lia. exact Hn.
      * intros j Hj. rewrite app_length in Hj; cbn in Hj. destruct (Nat.eq_dec j (length pre)) as [->|Hne].
        -- rewrite app_nth2, Nat.sub_diag by lia. cbn. lra.
        -- rewrite app_nth1 by lia. apply Hall; lia.
      * intros j Hj. rewrite app_nth1 by lia. apply Hfirst; exact Hj.
Qed.

Definition dist_to (a : R) (g : list R) : list R := map (fun x => Rabs (x - a)) g.
Lemma nabs_R x : @nabs RN x = Rabs x.
Proof. unfold nabs, nzero; cbn [nleb nopp nofZ RN T]. unfold Rabs. destruct (Rleb_spec 0 x), (Rcase_abs x); lra. Qed.
Theorem find_nearest_spec (g : list R) (a : R) : g <> [] -> is_first_argmin (dist_to a g) (find_nearest RN g a).
Proof.
  intros Hne. unfold find_nearest.
  assert (E : map (fun x : RN => @nabs RN (nsub RN x a)) g = dist_to a g) by (unfold dist_to; apply map_ext; intros; apply nabs_R).
  rewrite E. destruct (dist_to a g) as [|d r] eqn:Ed.
  - destruct g; [congruence|discriminate].
  - apply (argmin_from_spec r [d] d 0%nat); cbn; auto; try lia.
    intros [|j] Hj; cbn; try lia; lra.
Qed.

(* ---------- monotonicity of the nearest index on a strictly increasing grid ---------- *)
Definition strictly_increasing (g : list R) : Prop := forall i j, (i < j < length g)%nat -> nth i g 0 < nth j g 0.
Lemma nth_dist a g j : (j < length g)%nat -> nth j (dist_to a g) 0 = Rabs (nth j g 0 - a).
Proof. intros H. unfold dist_to. rewrite (nth_indep _ 0 (Rabs (0 - a))) by (rewrite map_length; exact H).
  apply (map_nth (fun x => Rabs (x - a))). Qed.
Theorem nearest_mono (g : list R) (a b : R) : g <> [] -> strictly_increasing g -> a <= b ->
  (find_nearest RN g a <= find_nearest RN g b)%nat.
Proof.
  intros Hne Hg Hab.
  destruct (find_nearest_spec g a Hne) as (Ia & Ma & Fa). destruct (find_nearest_spec g b Hne) as (Ib & Mb & Fb).
  set (i := find_nearest RN g a) in *. set (j := find_nearest RN g b) in *.
  unfold dist_to in Ia, Ib; rewrite map_length in Ia, Ib.
  destruct (le_lt_dec i j) as [|Hji]; [assumption|exfalso].
  specialize (Fa j Hji). specialize (Mb i ltac:(unfold dist_to; rewrite map_length; lia)).
  rewrite !nth_dist in Fa, Mb by lia.
  pose proof (Hg j i ltac:(lia)) as Hlt.
  unfold Rabs in Fa, Mb. repeat destruct (Rcase_abs _); lra.
Qed.
(* a grid value is its own nearest level *)
Theorem nearest_self (g : list R) k : strictly_increasing g -> (k < length g)%nat -> find_nearest RN g (nth k g 0) = k.
Proof.
  intros Hg Hk. assert (Hne : g <> []) by (intro E; subst; cbn in Hk; lia).
  destruct (find_nearest_spec g (nth k g 0) Hne) as (I1 & M1 & F1). set (i := find_nearest RN g (nth k g 0)) in *.
  unfold dist_to in I1; rewrite map_length in I1.
  specialize (M1 k ltac:(unfold dist_to; rewrite map_length; lia)). rewrite !nth_dist in M1 by lia.
  replace (nth k g 0 - nth k g 0) with 0 in M1 by lra. rewrite Rabs_R0 in M1.
  assert (E : nth i g 0 = nth k g 0).
  { pose proof (Rabs_pos (nth i g 0 - nth k g 0)). unfold Rabs in *. destruct (Rcase_abs _); lra. }
  destruct (lt_eq_lt_dec i k) as [[H|H]|H]; auto; [pose proof (Hg i k ltac:(lia))|pose proof (Hg k i ltac:(lia))]; lra.
Qed.

Section Q.
Variable steps : nat.
Variables plo phi : R.
Notation WFs := (WF steps).
Notation grid := (p_values RN steps plo phi).
Hypothesis grid_len : @length R grid = steps.
Hypothesis grid_inc : strictly_increasing grid.
Hypothesis steps_pos : (0 < steps)%nat.
Notation acut := (alpha_cut RN steps plo phi).

Lemma grid_ne : grid <> [].
Proof. intro E. rewrite E in grid_len. cbn in grid_len. lia. Qed.

(* the alpha-cut at level a is the focal interval at the grid level nearest to a *)
Theorem acut_is_nearest (p : list R * list R) (a : R) :
  let i := find_nearest RN grid a in
  acut p a = (nth i (fst p) 0, nth i (snd p) 0) /\ (i < steps)%nat /\
  (forall j, (j < steps)%nat -> Rabs (nth i grid 0 - a) <= Rabs (nth j grid 0 - a)).
Proof.
  cbv zeta. destruct (find_nearest_spec grid a grid_ne) as (I1 & M1 & _). unfold dist_to in I1; rewrite map_length, grid_len in I1.
  split; [reflexivity|]. split; [exact I1|]. intros j Hj.
  specialize (M1 j ltac:(unfold dist_to; rewrite map_length, grid_len; exact Hj)). rewrite !nth_dist in M1 by (rewrite grid_len; lia). exact M1.
Qed.
Theorem acut_at_grid (p : list R * list R) k : (k < steps)%nat -> acut p (nth k grid 0) = (nth k (fst p) 0, nth k (snd p) 0).
Proof. intros Hk. unfold alpha_cut. rewrite nearest_self by (auto; rewrite grid_len; exact Hk). reflexivity. Qed.
Theorem acut_mono (p : list R * list R) (a b : R) : WFs p -> a <= b ->
  fst (acut p a) <= fst (acut p b) /\ snd (acut p a) <= snd (acut p b).
Proof.
  intros [H1 H2 H3 H4 H5] Hab. unfold alpha_cut, nth0; cbn [fst snd T RN] in *.
  pose proof (nearest_mono grid a b grid_ne grid_inc Hab) as Hm.
  destruct (find_nearest_spec grid b grid_ne) as (Ib & _ & _). unfold dist_to in Ib; rewrite map_length, grid_len in Ib.
  split; apply Rsorted_nth; auto; lia.
Qed.
Theorem acut_wf (p : list R * list R) (a : R) : WFs p -> fst (acut p a) <= snd (acut p a).
Proof. intros [H1 H2 H3 H4 H5]. unfold alpha_cut, nth0; cbn [fst snd T RN] in *.
  destruct (find_nearest_spec grid a grid_ne) as (Ia & _ & _). unfold dist_to in Ia; rewrite map_length, grid_len in Ia.
  apply ple_nth; auto. lia. Qed.

(* an outer interval [left at level a, right at level b] contains every alpha-cut of the band [a, b] *)
Theorem outer_contains_band (p : list R * list R) (a b c : R) : WFs p -> a <= c <= b ->
  fst (acut p a) <= fst (acut p c) /\ snd (acut p c) <= snd (acut p b).
Proof. intros W [Hac Hcb]. split; [apply (acut_mono p a c W Hac) | apply (acut_mono p c b W Hcb)]. Qed.

(* cdf and alpha-cut are inverse within one grid step: cutting at the reported upper probability returns the
   left-bound value nearest to x (and dually) *)
Theorem cdf_acut_inverse (p : list R * list R) (x : R) : WFs p ->
  let hi := snd (pcdf RN steps plo phi p x) in let lo := fst (pcdf RN steps plo phi p x) in
  (forall j, (j < steps)%nat -> Rabs (fst (acut p hi) - x) <= Rabs (nth j (fst p) 0 - x)) /\
  (forall j, (j < steps)%nat -> Rabs (snd (acut p lo) - x) <= Rabs (nth j (snd p) 0 - x)).
Proof.
  intros [H1 H2 H3 H4 H5]. cbv zeta. unfold pcdf, nth0; cbn [fst snd T RN] in *.
  assert (NL : fst p <> []) by (intro E; rewrite E in H1; cbn in H1; lia).
  assert (NR : snd p <> []) by (intro E; rewrite E in H2; cbn in H2; lia).
  destruct (find_nearest_spec (fst p) x NL) as (IL & ML & _). destruct (find_nearest_spec (snd p) x NR) as (IR & MR & _).
  unfold dist_to in IL, IR; rewrite map_length in IL, IR.
  rewrite !acut_at_grid by lia. cbn [fst snd]. split; intros j Hj.
  - specialize (ML j ltac:(unfold dist_to; rewrite map_length; lia)). rewrite !nth_dist in ML by lia. exact ML.
  - specialize (MR j ltac:(unfold dist_to; rewrite map_length; lia)). rewrite !nth_dist in MR by lia. exact MR.
Qed.

(* native discretisation returns the focal intervals themselves *)
Theorem discretise_native (p : list R * list R) : discretise RN steps plo phi p steps = combine (fst p) (snd p).
Proof. unfold discretise. rewrite Nat.eqb_refl. reflexivity. Qed.

(* prediction intervals *)
Lemma pi_levels_R alpha : pi_levels RN alpha = ((1 - alpha) / 2, 1 - (1 - alpha) / 2).
Proof. unfold pi_levels, none; cbn [nsub ndiv nofZ RN T]. reflexivity. Qed.
Theorem pi_widest_ok (p : list R * list R) alpha : WFs p -> 0 <= alpha ->
  pi_widest RN steps plo phi p alpha = Ok (fst (acut p ((1 - alpha) / 2)), snd (acut p (1 - (1 - alpha) / 2))).
Proof.
  intros W Ha. unfold pi_widest. rewrite pi_levels_R. cbv beta iota zeta. cbn [nleb RN T].
  assert (Hle : fst (acut p ((1 - alpha) / 2)) <= snd (acut p (1 - (1 - alpha) / 2))).
  { apply Rle_trans with (fst (acut p (1 - (1 - alpha) / 2))); [apply acut_mono; auto; lra | apply acut_wf; auto]. }
  match goal with |- context [Rleb ?a ?b] => destruct (Rleb_spec a b) as [|Hn] end; [reflexivity|]. exfalso; apply Hn. cbn [T RN] in *. exact Hle.
Qed.
Theorem pi_widest_mono (p : list R * list R) a1 a2 lo1 hi1 lo2 hi2 : WFs p -> 0 <= a1 <= a2 ->
  pi_widest RN steps plo phi p a1 = Ok (lo1, hi1) -> pi_widest RN steps plo phi p a2 = Ok (lo2, hi2) -> lo2 <= lo1 /\ hi1 <= hi2.
Proof.
  intros W [H0 H12] E1 E2. rewrite pi_widest_ok in E1, E2 by (auto; lra). inversion E1; inversion E2; subst.
  split; apply acut_mono; auto; lra.
Qed.
Theorem pi_widest_contains_narrowest (p : list R * list R) alpha lo hi lo' hi' : WFs p -> 0 <= alpha ->
  pi_widest RN steps plo phi p alpha = Ok (lo, hi) -> pi_narrowest RN steps plo phi p alpha = Ok (lo', hi') -> lo <= lo' /\ hi' <= hi.
Proof.
  intros W Ha E1 E2. unfold pi_narrowest in E2. rewrite pi_levels_R in E2. cbv beta iota zeta in E2. cbn [nleb RN T] in E2.
  rewrite pi_widest_ok in E1 by auto. inversion E1; subst.
  match type of E2 with context [Rleb ?a ?b] => destruct (Rleb_spec a b) as [Hle|Hgt] end.
  - inversion E2; subst. split; apply acut_wf; auto.
  - rewrite pi_widest_ok in E2 by auto. inversion E2; subst. split; lra.
Qed.
(* 'narrowest' is monotone on the coverage levels where the narrowest interval exists (no fallback) *)
Theorem pi_narrowest_mono_partial (p : list R * list R) a1 a2 : WFs p -> 0 <= a1 <= a2 ->
  snd (acut p ((1 - a1) / 2)) <= fst (acut p (1 - (1 - a1) / 2)) ->
  exists lo1 hi1 lo2 hi2, pi_narrowest RN steps plo phi p a1 = Ok (lo1, hi1) /\ pi_narrowest RN steps plo phi p a2 = Ok (lo2, hi2)
                          /\ lo2 <= lo1 /\ hi1 <= hi2.
Proof.
  intros W [H0 H12] Hex.
  assert (M1 : snd (acut p ((1 - a2) / 2)) <= snd (acut p ((1 - a1) / 2))) by (apply acut_mono; auto; lra).
  assert (M2 : fst (acut p (1 - (1 - a1) / 2)) <= fst (acut p (1 - (1 - a2) / 2))) by (apply acut_mono; auto; lra).
  unfold pi_narrowest. rewrite !pi_levels_R. cbv beta iota zeta. cbn [nleb RN T].
  assert (Hex2 : snd (acut p ((1 - a2) / 2)) <= fst (acut p (1 - (1 - a2) / 2))) by lra.
  repeat match goal with |- context [Rleb ?a ?b] => destruct (Rleb_spec a b) as [|Hn]; [|exfalso; apply Hn; cbn [T RN] in *; assumption] end.
  do 4 eexists. repeat split; eauto.
Qed.
End Q.

(* ---------- the probability grid: np.linspace(a, b, n) is strictly increasing for a < b ---------- *)
Lemma linspace_length (a b : R) n : @length R (linspace RN a b n) = n.
Proof. unfold linspace. destruct n as [|[|n]]; cbn [length]; auto. rewrite map_length, seq_length. reflexivity. Qed.
Lemma linspace_nth (a b : R) n i : (2 <= n)%nat -> (i < n)%nat ->
  nth i (linspace RN a b n) 0 = a + INR i * ((b - a) / INR (n - 1)).
Proof.
  intros Hn Hi. unfold linspace. destruct n as [|[|n]]; try lia.
  set (m := S (S n)) in *.
  rewrite nth_map_seq_gen by exact Hi. cbn [nadd nmul ndiv nsub nofZ RN T]. rewrite <- !INR_IZR_INZ.
  assert (Hm : INR (m - 1) <> 0) by (apply not_0_INR; unfold m; lia).
  destruct (Nat.eqb_spec i (m - 1)) as [->|_]; [field; exact Hm|lra].
Qed.
Theorem linspace_increasing (a b : R) n : a < b -> (2 <= n)%nat -> strictly_increasing (linspace RN a b n).
Proof.
  intros Hab Hn i j Hij. rewrite linspace_length in Hij. rewrite !linspace_nth by lia.
  assert (Hm : 0 < INR (n - 1)) by (apply lt_0_INR; lia).
  assert (Hs : 0 < (b - a) / INR (n - 1)) by (apply Rdiv_lt_0_compat; lra).
  assert (INR i < INR j) by (apply lt_INR; lia). nra.
Qed.
