(* C18: condensation to fewer steps contains the original p-box.
   condensation(n) = stacking (equal weights) of the n-1 outer intervals
   [left at level l_i, right at level l_(i+1)], l = linspace(p_lo, p_hi, n).  The stacked bounds are the generalised inverses
   of the two empirical cdfs (Proofs/Stacking.v); the theorem compares them with the original bounds level by level. *)
From Coq Require Import Reals Lra Lia List Arith Bool Permutation Sorted.
From PUN Require Import Base.Num Base.Sort Model.Interval Model.Pbox Model.Mixed Proofs.ListR Proofs.PboxWF Proofs.Query Proofs.Stacking Proofs.Mixed.
Import ListNotations.
Open Scope R_scope.

(* ---------- nearest level: half-step criteria ---------- *)
Lemma nearest_le_at (g : list R) (a : R) (j : nat) : strictly_increasing g -> (j < length g)%nat ->
  ((S j < length g)%nat -> a <= (nth j g 0 + nth (S j) g 0) / 2) -> (find_nearest RN g a <= j)%nat.
Proof.
  intros Hg Hj Ha. assert (Hne : g <> []) by (intro E; subst; cbn in Hj; lia).
  destruct (find_nearest_spec g a Hne) as (I1 & M1 & F1). set (m := find_nearest RN g a) in *.
  unfold dist_to in I1; rewrite map_length in I1.
  destruct (le_lt_dec m j) as [|Hjm]; [assumption|exfalso].
  specialize (Ha ltac:(lia)). specialize (F1 j Hjm). rewrite !nth_dist in F1 by lia.
  assert (Hm : nth (S j) g 0 <= nth m g 0).
  { destruct (Nat.eq_dec m (S j)) as [->|Hne']; [lra|]. left. apply Hg. lia. }
  pose proof (Hg j (S j) ltac:(lia)) as Hs.
  unfold Rabs in F1. repeat destruct (Rcase_abs _); lra.
Qed.
Lemma nearest_ge_at (g : list R) (a : R) (j : nat) : strictly_increasing g -> (j < length g)%nat ->
  ((0 < j)%nat -> (nth (j - 1) g 0 + nth j g 0) / 2 < a) -> (j <= find_nearest RN g a)%nat.
Proof.
  intros Hg Hj Ha. assert (Hne : g <> []) by (intro E; subst; cbn in Hj; lia).
  destruct (find_nearest_spec g a Hne) as (I1 & M1 & F1). set (m := find_nearest RN g a) in *.
  unfold dist_to in I1; rewrite map_length in I1.
  destruct (le_lt_dec j m) as [|Hmj]; [assumption|exfalso].
  specialize (Ha ltac:(lia)). specialize (M1 j ltac:(unfold dist_to; rewrite map_length; lia)). rewrite !nth_dist in M1 by lia.
  assert (Hm : nth m g 0 <= nth (j - 1) g 0).
  { destruct (Nat.eq_dec m (j - 1)) as [->|Hne']; [lra|]. left. apply Hg. lia. }
  pose proof (Hg (j - 1)%nat j ltac:(lia)) as Hs.
  unfold Rabs in M1. repeat destruct (Rcase_abs _); lra.
Qed.

(* ---------- small list facts ---------- *)
Lemma psorted_combine (s w : list R) : Rsorted s -> psorted (combine s w).
Proof.
  intros Hs. revert w. induction Hs as [|a s Hs IH Hall]; intros [|y w]; cbn [combine]; try constructor.
  - apply IH.
  - apply Forall_forall. intros [x z] Hin. apply in_combine_l in Hin. rewrite Forall_forall in Hall. unfold pleb. cbn [fst]. apply Hall, Hin.
Qed.
Lemma map_fst_combine (s w : list R) : length s = length w -> map fst (combine s w) = s.
Proof. revert w; induction s as [|a s IH]; intros [|y w] H; cbn in *; try lia; auto. f_equal. apply IH. lia. Qed.
Lemma map_snd_combine (s w : list R) : length s = length w -> map snd (combine s w) = w.
Proof. revert w; induction s as [|a s IH]; intros [|y w] H; cbn in *; try lia; auto. f_equal. apply IH. lia. Qed.
Lemma Rsum_firstn_repeat (m : R) : forall K k, (k <= K)%nat -> Rsum (firstn k (repeat m K)) = INR k * m.
Proof.
  induction K as [|K IH]; intros [|k] Hk; cbn [repeat firstn Rsum]; try lia; try (cbn; lra).
  rewrite IH by lia. rewrite S_INR. lra.
Qed.
Lemma ceil_index (K : nat) (x : R) : 0 < x <= 1 -> (0 < K)%nat ->
  exists i, (i < K)%nat /\ INR i < x * INR K <= INR (S i).
Proof.
  intros Hx HK. assert (P : 0 < INR K) by (apply lt_0_INR; exact HK).
  assert (G : forall m, x * INR K <= INR m -> exists i, (i < m)%nat /\ INR i < x * INR K <= INR (S i)).
  { induction m as [|m IH]; intros Hm.
    - cbn in Hm. assert (0 < x * INR K) by (apply Rmult_lt_0_compat; lra). lra.
    - destruct (Rle_dec (x * INR K) (INR m)) as [Hle|Hgt].
      + destruct (IH Hle) as (i & Hi & Hb). exists i. split; [lia|exact Hb].
      + exists m. split; [lia|]. split; [lra|exact Hm]. }
  apply G. assert (x * INR K <= 1 * INR K) by (apply Rmult_le_compat_r; lra). lra.
Qed.
Lemma nth_removelast {A} (l : list A) d i : (S i < length l)%nat -> nth i (removelast l) d = nth i l d.
Proof.
  revert i; induction l as [|a l IH]; intros i Hi; cbn [length] in Hi; [lia|].
  destruct l as [|b l]; [cbn in Hi; lia|]. change (removelast (a :: b :: l)) with (a :: removelast (b :: l)).
  destruct i as [|i]; [reflexivity|]. cbn [nth]. apply IH. cbn [length] in *. lia.
Qed.
Lemma nth_tl {A} (l : list A) d i : nth i (tl l) d = nth (S i) l d.
Proof. destruct l; [destruct i; reflexivity|reflexivity]. Qed.
Lemma removelast_length {A} (l : list A) : length (removelast l) = (length l - 1)%nat.
Proof. induction l as [|a [|b l] IH]; cbn [length removelast] in *; try lia. Qed.
Lemma tl_length {A} (l : list A) : length (tl l) = (length l - 1)%nat.
Proof. destruct l; cbn; lia. Qed.

Lemma len_ne {A} (l : list A) m : length l = m -> (0 < m)%nat -> l <> [].
Proof. intros H Hm E. subst l. cbn in H. lia. Qed.

Section C.
Variable steps : nat.
Variables plo phi : R.
Notation grid := (p_values RN steps plo phi).
Notation acut := (alpha_cut RN steps plo phi).
Hypothesis steps_ge : (2 <= steps)%nat.
Hypothesis Hplo : 0 < plo.
Hypothesis Hphi : phi < 1.
Hypothesis Hlt : plo < phi.
(* the tails cut off by the grid are at most half a grid step *)
Hypothesis Hh_lo : 2 * plo * INR (steps - 1) <= phi - plo.
Hypothesis Hh_hi : 2 * (1 - phi) * INR (steps - 1) <= phi - plo.

Let h := (phi - plo) / INR (steps - 1).
Lemma Nm_pos : 0 < INR (steps - 1). Proof. apply lt_0_INR. lia. Qed.
Lemma h_pos : 0 < h. Proof. unfold h. apply Rdiv_lt_0_compat; [lra|apply Nm_pos]. Qed.
Lemma h_lo : plo <= h / 2.
Proof. unfold h. pose proof Nm_pos as P. apply Rmult_le_reg_r with (INR (steps - 1)); [exact P|].
  replace ((phi - plo) / INR (steps - 1) / 2 * INR (steps - 1)) with ((phi - plo) / 2) by (field; lra). nra. Qed.
Lemma h_hi : 1 - phi <= h / 2.
Proof. unfold h. pose proof Nm_pos as P. apply Rmult_le_reg_r with (INR (steps - 1)); [exact P|].
  replace ((phi - plo) / INR (steps - 1) / 2 * INR (steps - 1)) with ((phi - plo) / 2) by (field; lra). nra. Qed.
Lemma grid_len : @length R grid = steps. Proof. apply linspace_length. Qed.
Lemma grid_inc : strictly_increasing grid. Proof. apply linspace_increasing; [exact Hlt|exact steps_ge]. Qed.
Lemma grid_nth j : (j < steps)%nat -> @nth R j grid 0 = plo + INR j * h.
Proof. intros Hj. unfold p_values. rewrite linspace_nth by (try exact steps_ge; exact Hj). reflexivity. Qed.
Lemma grid_range j : (j < steps)%nat -> plo <= @nth R j grid 0 <= phi.
Proof.
  intros Hj. rewrite grid_nth by exact Hj. pose proof h_pos as P. pose proof (pos_INR j) as Pj. split; [nra|].
  assert (INR j <= INR (steps - 1)) by (apply le_INR; lia).
  assert (E : INR (steps - 1) * h = phi - plo) by (unfold h; field; pose proof Nm_pos; lra). nra.
Qed.
Lemma grid_sorted : Rsorted grid.
Proof. apply nth_Rsorted. intros i j Hij. rewrite grid_len in Hij. destruct (Nat.eq_dec i j) as [->|Hne]; [lra|]. left. apply grid_inc. rewrite grid_len. lia. Qed.
Lemma grid_ok : Forall (fun a => 0 < a <= 1) grid.
Proof. apply Forall_forall. intros a Ha. destruct (In_nth _ _ 0 Ha) as (j & Hj & <-). rewrite grid_len in Hj. destruct (grid_range j Hj) as [G1 G2].
  split; [exact (Rlt_le_trans _ _ _ Hplo G1) | left; exact (Rle_lt_trans _ _ _ G2 Hphi)]. Qed.
Lemma steps_pos : (0 < steps)%nat. Proof. lia. Qed.

(* the outer intervals *)
Lemma outer_length p n : length (outer_discretisation RN steps plo phi p (Some n)) = (n - 1)%nat.
Proof. unfold outer_discretisation, outer_levels. cbv zeta. rewrite map2_length, removelast_length, tl_length, !linspace_length. lia. Qed.
Lemma outer_nth p n i : (S i < n)%nat ->
  nth i (outer_discretisation RN steps plo phi p (Some n)) (0, 0) =
  (fst (acut p (nth i (linspace RN plo phi n) 0)), snd (acut p (nth (S i) (linspace RN plo phi n) 0))).
Proof.
  intros Hi. unfold outer_discretisation, outer_levels. cbv zeta.
  rewrite (map2_nth _ _ _ 0 0) by (rewrite ?removelast_length, ?tl_length, linspace_length; lia).
  rewrite nth_removelast by (rewrite linspace_length; lia). rewrite nth_tl. reflexivity.
Qed.

Theorem condensation_contains (p : list R * list R) (n : nat) : WF steps p -> (3 <= n)%nat ->
  exists c, pcondensation RN steps plo phi p n = Ok c /\ WF steps c /\ ple (fst c) (fst p) /\ ple (snd p) (snd c).
Proof.
  intros W Hn. set (focal := outer_discretisation RN steps plo phi p (Some n)).
  assert (Hlen : length focal = (n - 1)%nat) by apply outer_length.
  assert (HK : (1 < length focal)%nat) by lia.
  set (K := (n - 1)%nat) in *.
  set (lam := fun i : nat => (nth i (linspace RN plo phi n) 0 : R)).
  assert (Hlam : forall i, (i < n)%nat -> lam i = (plo + (phi - plo) * (INR i / INR K))%R :> R).
  { intros i Hi. unfold lam. rewrite linspace_nth by lia. fold K. unfold Rdiv. ring. }
  assert (PK : 0 < INR K) by (apply lt_0_INR; lia).
  assert (Hfocal : forall i, (i < K)%nat -> nth i focal (0, 0) = (fst (acut p (lam i)), snd (acut p (lam (S i))))).
  { intros i Hi. unfold focal, lam. apply outer_nth. lia. }
  assert (Hwf : Forall (fun iv => fst iv <= snd iv) focal).
  { apply Forall_forall. intros iv Hin. destruct (In_nth _ _ (0, 0) Hin) as (i & Hi0 & <-). assert (Hi : (i < K)%nat) by (rewrite <- Hlen; exact Hi0). rewrite Hfocal by exact Hi. cbn [fst snd].
    apply Rle_trans with (snd (acut p (lam i))); [apply (acut_wf steps plo phi grid_len steps_pos p _ W)|].
    apply (acut_mono steps plo phi grid_len grid_inc steps_pos p _ _ W). rewrite !Hlam by lia.
    assert (INR i <= INR (S i)) by (apply le_INR; lia).
    assert (INR i / INR K <= INR (S i) / INR K) by (unfold Rdiv; apply Rmult_le_compat_r; [left; apply Rinv_0_lt_compat; exact PK|assumption]). nra. }
  destruct (mixture_values steps plo phi grid_len grid_ok grid_sorted focal HK Hwf) as (E & Wc & _ & _).
  set (w := equal_weights RN (length focal)) in *. set (lo := map fst focal) in *. set (hi := map snd focal) in *.
  exists (map (ecdf_at lo w) grid, map (ecdf_at hi w) grid). split; [exact E|]. split; [exact Wc|].
  destruct (eqw_props steps plo phi grid_len (length focal) (Nat.lt_trans _ _ _ Nat.lt_0_1 HK)) as (W1 & W2 & W3). fold w in W1, W2, W3.
  assert (Llo : length lo = length w) by (unfold lo; rewrite map_length, W3; reflexivity).
  assert (Lhi : length hi = length w) by (unfold hi; rewrite map_length, W3; reflexivity).
  assert (Wlen : (0 < length w)%nat) by (eapply Nat.lt_le_trans; [exact (Nat.lt_trans _ _ _ Nat.lt_0_1 HK) | apply Nat.eq_le_incl; symmetry; exact W3]).
  assert (Nlo : lo <> []) by (apply (len_ne lo (length w)); [exact Llo | exact Wlen]).
  assert (Nhi : hi <> []) by (apply (len_ne hi (length w)); [exact Lhi | exact Wlen]).
  assert (Ew : w = repeat (1 / INR K) K).
  { unfold w, equal_weights. rewrite Hlen. fold K. cbn [ndiv nofZ RN T]. unfold none; cbn [nofZ RN T]. rewrite <- INR_IZR_INZ. reflexivity. }
  assert (Wpos : Forall (fun q : R * R => 0 <= snd q) (combine lo w) /\ Forall (fun q : R * R => 0 <= snd q) (combine hi w)).
  { split; apply Forall_forall; intros [x y] Hin; apply in_combine_r in Hin; rewrite Forall_forall in W1; cbn [snd]; apply W1, Hin. }
  destruct Wpos as [Wplo Wphi].
  destruct W as [H1 H2 H3 H4 H5].
  assert (Hlo_nth : forall i, (i < K)%nat -> nth i lo 0 = fst (acut p (lam i))).
  { intros i Hi. unfold lo. rewrite (nth_indep _ 0 (fst (0, 0))) by (rewrite map_length, Hlen; exact Hi). rewrite map_nth, Hfocal by exact Hi. reflexivity. }
  assert (Hhi_nth : forall i, (i < K)%nat -> nth i hi 0 = snd (acut p (lam (S i)))).
  { intros i Hi. unfold hi. rewrite (nth_indep _ 0 (snd (0, 0))) by (rewrite map_length, Hlen; exact Hi). rewrite map_nth, Hfocal by exact Hi. reflexivity. }
  assert (WFp : WF steps p) by (constructor; assumption).
  assert (Slo : Rsorted lo).
  { apply nth_Rsorted. intros i j Hij. unfold lo in Hij. rewrite map_length, Hlen in Hij. rewrite !Hlo_nth by lia.
    apply (acut_mono steps plo phi grid_len grid_inc steps_pos p _ _ WFp). rewrite !Hlam by lia.
    assert (INR i <= INR j) by (apply le_INR; lia).
    assert (INR i / INR K <= INR j / INR K) by (unfold Rdiv; apply Rmult_le_compat_r; [left; apply Rinv_0_lt_compat; exact PK|assumption]). nra. }
  assert (Shi : Rsorted hi).
  { apply nth_Rsorted. intros i j Hij. unfold hi in Hij. rewrite map_length, Hlen in Hij. rewrite !Hhi_nth by lia.
    apply (acut_mono steps plo phi grid_len grid_inc steps_pos p _ _ WFp). rewrite !Hlam by lia.
    assert (INR (S i) <= INR (S j)) by (apply le_INR; lia).
    assert (INR (S i) / INR K <= INR (S j) / INR K) by (unfold Rdiv; apply Rmult_le_compat_r; [left; apply Rinv_0_lt_compat; exact PK|assumption]). nra. }
  (* the level-wise comparison *)
  assert (Main : forall j, (j < steps)%nat -> ecdf_at lo w (nth j grid 0) <= nth j (fst p) 0 /\ nth j (snd p) 0 <= ecdf_at hi w (nth j grid 0)).
  { intros j Hj. set (x := @nth R j grid 0). pose proof (grid_range j Hj) as Hx. fold x in Hx.
    assert (Hx01 : 0 < x <= 1) by lra.
    destruct (ceil_index K x Hx01 ltac:(lia)) as (i & Hi & Hb).
    assert (Hb1 : INR i / INR K < x) by (apply Rmult_lt_reg_r with (INR K); [exact PK|]; unfold Rdiv; rewrite Rmult_assoc, Rinv_l by lra; lra).
    assert (Hb2 : x <= INR (S i) / INR K) by (apply Rmult_le_reg_r with (INR K); [exact PK|]; unfold Rdiv; rewrite Rmult_assoc, Rinv_l by lra; lra).
    pose proof h_lo as HL. pose proof h_hi as HH. pose proof h_pos as HP.
    (* nearest level of lam i is at most j; nearest level of lam (S i) is at least j *)
    assert (N1 : (find_nearest RN grid (lam i) <= j)%nat).
    { apply nearest_le_at; [exact grid_inc|rewrite grid_len; exact Hj|]. rewrite grid_len. intros HSj.
      rewrite (grid_nth (S j)) by exact HSj. fold x. assert (Ex : x = plo + INR j * h) by (unfold x; apply grid_nth; exact Hj).
      rewrite S_INR. rewrite Hlam by lia. nra. }
    assert (N2 : (j <= find_nearest RN grid (lam (S i)))%nat).
    { apply nearest_ge_at; [exact grid_inc|rewrite grid_len; exact Hj|]. intros Hj0.
      rewrite (grid_nth (j - 1)) by lia. fold x. assert (Ex : x = plo + INR j * h) by (unfold x; apply grid_nth; exact Hj).
      replace (INR (j - 1)) with (INR j - 1) by (rewrite minus_INR by lia; cbn; lra). rewrite Hlam by lia. nra. }
    assert (B1 : (find_nearest RN grid (lam (S i)) < steps)%nat).
    { destruct (find_nearest_spec grid (lam (S i)) (grid_ne steps plo phi grid_len steps_pos)) as (I & _). unfold dist_to in I. rewrite map_length, grid_len in I. exact I. }
    assert (L1 : nth i lo 0 <= nth j (fst p) 0).
    { rewrite Hlo_nth by exact Hi. unfold alpha_cut, nth0. cbn [fst T RN]. apply Rsorted_nth; [exact H3|]. rewrite H1. lia. }
    assert (R1 : nth j (snd p) 0 <= nth i hi 0).
    { rewrite Hhi_nth by exact Hi. unfold alpha_cut, nth0. cbn [snd T RN]. apply Rsorted_nth; [exact H4|]. rewrite H2. lia. }
    assert (LK : length (combine lo w) = K) by (rewrite combine_length, Llo, W3, Hlen; fold K; lia).
    assert (HK' : length (combine hi w) = K) by (rewrite combine_length, Lhi, W3, Hlen; fold K; lia).
    assert (Hi1 : (i < length (combine lo w))%nat) by (rewrite LK; exact Hi).
    assert (Hi2 : (i < length (combine hi w))%nat) by (rewrite HK'; exact Hi).
    split.
    - destruct (ecdf_at_ginv lo w x Llo Nlo Hx01 W1 ltac:(rewrite W2; lra)) as (_ & _ & Bv).
      destruct (Rle_dec (ecdf_at lo w x) (nth j (fst p) 0)) as [|Hgt]; [assumption|exfalso].
      specialize (Bv (nth j (fst p) 0) ltac:(lra)).
      pose proof (Mass_ge_prefix (combine lo w) i (psorted_combine lo w Slo) Wplo Hi1) as Hm.
      rewrite map_fst_combine, map_snd_combine in Hm by assumption.
      rewrite Ew in Hm at 1. rewrite Rsum_firstn_repeat in Hm by lia.
      pose proof (Mass_mono (combine lo w) _ _ Wplo L1) as Hmm.
      assert (INR (S i) * (1 / INR K) = INR (S i) / INR K) by (unfold Rdiv; ring).
      apply (Rlt_irrefl x). eapply Rle_lt_trans; [|exact Bv]. eapply Rle_trans; [|exact Hmm]. eapply Rle_trans; [|exact Hm]. rewrite H. exact Hb2.
    - destruct (ecdf_at_ginv hi w x Lhi Nhi Hx01 W1 ltac:(rewrite W2; lra)) as (_ & Av & _).
      destruct (Rle_dec (nth j (snd p) 0) (ecdf_at hi w x)) as [|Hgt]; [assumption|exfalso].
      pose proof (Mass_le_prefix (combine hi w) i (ecdf_at hi w x) (psorted_combine hi w Shi) Wphi Hi2) as Hm.
      rewrite map_fst_combine, map_snd_combine in Hm by assumption.
      assert (Hlt' : ecdf_at hi w x < nth i hi 0) by (eapply Rlt_le_trans; [apply Rnot_le_lt; exact Hgt | exact R1]).
      specialize (Hm Hlt'). rewrite Ew in Hm at 3. rewrite Rsum_firstn_repeat in Hm by lia.
      assert (INR i * (1 / INR K) = INR i / INR K) by (unfold Rdiv; ring).
      apply (Rlt_irrefl x). eapply Rle_lt_trans; [exact Av|]. eapply Rle_lt_trans; [exact Hm|]. rewrite H. exact Hb1. }
  cbn [fst snd]. split; apply nth_ple; rewrite ?map_length, ?grid_len; try (symmetry; assumption); try assumption.
  - intros j Hj. rewrite (nth_indep _ 0 (ecdf_at lo w 0)) by (rewrite map_length, grid_len; exact Hj). rewrite map_nth. apply Main. exact Hj.
  - intros j Hj. rewrite H2 in Hj. rewrite (nth_indep (map _ _) 0 (ecdf_at hi w 0)) by (rewrite map_length, grid_len; exact Hj). rewrite map_nth. apply Main. exact Hj.
Qed.
End C.
