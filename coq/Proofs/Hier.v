(* C07: intervals and reals embedded as constant p-boxes; arithmetic on the embeddings under every dependency is the
   embedding of the interval-arithmetic result; interval + precise distribution is the distribution shifted by the interval. *)
From Coq Require Import Reals Lra List Arith Lia Bool Permutation Sorted.
From PUN Require Import Base.Num Base.Sort Model.Interval Model.Pbox Model.PboxArith
  Proofs.ListR Proofs.PboxWF Proofs.PboxUnary Proofs.Hull Proofs.IntervalOps Proofs.DepOps Proofs.WFExpr.
Import ListNotations.
Open Scope R_scope.

Definition embed (n : nat) (i : R * R) : list R * list R := (repeat (fst i) n, repeat (snd i) n).

(* ---------- constant lists ---------- *)
Lemma map2_repeat {A B C} (f : A -> B -> C) a b n : map2 f (repeat a n) (repeat b n) = repeat (f a b) n.
Proof. induction n; cbn [repeat map2]; [reflexivity|f_equal; exact IHn]. Qed.
Lemma rev_repeat_c {A} (a : A) n : rev (repeat a n) = repeat a n.
Proof. induction n; [reflexivity|]. cbn [repeat rev]. rewrite IHn. clear. induction n; [reflexivity|]. cbn [repeat app]. f_equal. exact IHn. Qed.
Lemma map_repeat_c {A B} (f : A -> B) a n : map f (repeat a n) = repeat (f a) n.
Proof. induction n; cbn [repeat map]; [reflexivity|f_equal; exact IHn]. Qed.
Lemma combine_repeat {A B} (a : A) (b : B) n : combine (repeat a n) (repeat b n) = repeat (a, b) n.
Proof. induction n; cbn [repeat combine]; [reflexivity|f_equal; exact IHn]. Qed.
Lemma firstn_repeat_c {A} (a : A) k n : (k <= n)%nat -> firstn k (repeat a n) = repeat a k.
Proof. revert n; induction k; intros [|n] H; cbn [repeat firstn]; try reflexivity; try lia. f_equal. apply IHk; lia. Qed.
Lemma skipn_repeat_c {A} (a : A) k n : skipn k (repeat a n) = repeat a (n - k).
Proof. revert n; induction k; intros [|n]; cbn [repeat skipn Nat.sub]; try reflexivity. apply IHk. Qed.
Lemma nth_repeat_lt_R (a : R) n i : (i < n)%nat -> nth i (repeat a n) 0 = a.
Proof. revert i; induction n; intros [|i] H; cbn [repeat nth]; try lia; auto. apply IHn; lia. Qed.
Lemma Rsorted_repeat a n : Rsorted (repeat a n).
Proof. apply nth_Rsorted. intros i j Hij. rewrite repeat_length in Hij. rewrite !nth_repeat_lt_R by lia. lra. Qed.
Lemma ple_repeat a b n : a <= b -> ple (repeat a n) (repeat b n).
Proof. intros H. induction n; cbn [repeat]; constructor; auto. Qed.
Lemma maxl_repeat a k : maxl RN (repeat a (S k)) = a.
Proof. apply Rle_antisym.
  - apply maxl_le_all; [cbn; discriminate|]. intros v Hv. apply repeat_spec in Hv. subst; lra.
  - apply maxl_ge. cbn [repeat]. left; reflexivity. Qed.
Lemma minl_repeat a k : minl RN (repeat a (S k)) = a.
Proof. apply Rle_antisym.
  - apply minl_le. cbn [repeat]. left; reflexivity.
  - apply minl_ge_all; [cbn; discriminate|]. intros v Hv. apply repeat_spec in Hv. subst; lra. Qed.
Lemma cart_repeat (op : R -> R -> R) a b n m : cart RN op (repeat a n) (repeat b m) = repeat (op a b) (n * m).
Proof. unfold cart. induction n; [reflexivity|]. cbn [repeat flat_map Nat.mul]. rewrite IHn, map_repeat_c, repeat_app. reflexivity. Qed.
Lemma map_const_seq {A} (x : A) n : map (fun _ => x) (seq 0 n) = repeat x n.
Proof. generalize 0%nat. induction n; intros s; cbn [seq map repeat]; [reflexivity|f_equal; apply IHn]. Qed.

(* ---------- the four dependency kernels on constant operands ---------- *)
Section Kernels.
Variable op : R -> R -> R.
Variable n : nat.
Variables a b : R * R.
Notation EA := (embed n a). Notation EB := (embed n b).

Lemma all_pairs_repeat (x y : R * R) m : all_pairs op (repeat x m) (repeat y n) = repeat (istep op x y) (m * n).
Proof. unfold all_pairs. induction m; [reflexivity|]. cbn [repeat flat_map Nat.mul]. rewrite IHm, map_repeat_c, repeat_app. reflexivity. Qed.

Lemma perfect_embed : perfect_op RN op (fst EA) (snd EA) (fst EB) (snd EB) = embed n (corner_hull op a b).
Proof. unfold embed; cbn [fst snd]. rewrite perfect_op_spec by (rewrite !repeat_length; reflexivity).
  rewrite !combine_repeat, map2_repeat, !map_repeat_c, !Rsort_id by apply Rsorted_repeat. reflexivity. Qed.
Lemma opposite_embed : opposite_op RN op (fst EA) (snd EA) (fst EB) (snd EB) = embed n (corner_hull op a b).
Proof. unfold embed; cbn [fst snd]. rewrite opposite_op_spec by (rewrite !repeat_length; reflexivity).
  rewrite !combine_repeat, rev_repeat_c, map2_repeat, !map_repeat_c, !Rsort_id by apply Rsorted_repeat. reflexivity. Qed.
Lemma independent_embed : independent_op RN op (fst EA) (snd EA) (fst EB) (snd EB) = embed (n * n) (corner_hull op a b).
Proof. unfold embed; cbn [fst snd]. rewrite independent_op_spec by (rewrite !repeat_length; reflexivity).
  rewrite !combine_repeat, all_pairs_repeat, !map_repeat_c, !Rsort_id by apply Rsorted_repeat. reflexivity. Qed.
(* Frechet: no rearrangement can matter for constants: (op of the lower endpoints, op of the upper endpoints) *)
Lemma frechet_embed : frechet_op RN op (fst EA) (snd EA) (fst EB) (snd EB) = embed n (op (fst a) (fst b), op (snd a) (snd b)).
Proof.
  unfold embed, frechet_op; cbn [fst snd T RN]. rewrite repeat_length. change (nsort RN) with Rsort.
  assert (L : map (frechet_left RN op (repeat (fst a) n) (repeat (fst b) n)) (seq 0 n) = repeat (op (fst a) (fst b)) n).
  { transitivity (map (fun _ : nat => op (fst a) (fst b)) (seq 0 n)); [|apply map_const_seq]. apply map_ext_in. intros i Hi. apply in_seq in Hi. unfold frechet_left. cbn [T RN].
    rewrite !firstn_repeat_c by lia. rewrite rev_repeat_c, map2_repeat. apply maxl_repeat. }
  assert (R' : map (frechet_right RN op (repeat (snd a) n) (repeat (snd b) n)) (seq 0 n) = repeat (op (snd a) (snd b)) n).
  { transitivity (map (fun _ : nat => op (snd a) (snd b)) (seq 0 n)); [|apply map_const_seq]. apply map_ext_in. intros i Hi. apply in_seq in Hi. unfold frechet_right. cbn [T RN].
    rewrite !skipn_repeat_c, rev_repeat_c, map2_repeat. replace (n - i)%nat with (S (n - i - 1)) by lia. apply minl_repeat. }
  f_equal; (etransitivity; [apply f_equal; first [exact L|exact R']|apply Rsort_id, Rsorted_repeat]).
Qed.
End Kernels.

(* ---------- the constructor and the length normalisation on constants ---------- *)
Section Api.
Variable steps : nat.
Variables plo phi : R.
Hypothesis steps_pos : (0 < steps)%nat.
Notation E := (embed steps).
Notation mkS := (mk_staircase RN steps plo phi).

Lemma mk_embed (i : R * R) : wfp i -> mkS (fst (E i)) (snd (E i)) = Ok (E i).
Proof. intros W. unfold embed; cbn [fst snd]. unfold mk_staircase. apply mk_ordered; rewrite ?repeat_length; auto; try apply Rsorted_repeat. apply ple_repeat; exact W. Qed.
Lemma WF_embed (i : R * R) : wfp i -> WF steps (E i).
Proof. intros W. constructor; unfold embed; cbn [fst snd]; rewrite ?repeat_length; auto; try apply Rsorted_repeat. apply ple_repeat; exact W. Qed.
(* n*n constants condensed back to n steps *)
Lemma condensation_repeat (x : R) m : (0 < m)%nat -> (forall i, (i < steps)%nat -> (cond_index m steps i < m)%nat) ->
  condensation RN (repeat x m) steps = repeat x steps.
Proof. intros Hm Hi. unfold condensation. transitivity (map (fun _ : nat => x) (seq 0 steps)); [|apply map_const_seq]. apply map_ext_in. intros i Hin. apply in_seq in Hin.
  unfold nth0. rewrite repeat_length. unfold nzero; cbn [nofZ RN T]. apply nth_repeat_lt_R. apply Hi; lia. Qed.
Lemma bsc_square (x : R) : bound_steps_check RN steps plo phi (repeat x (steps * steps)) = repeat x steps.
Proof.
  unfold bound_steps_check. cbn [T RN]. rewrite repeat_length.
  destruct (Nat.eq_dec steps 1) as [->|Hne]; [cbn; reflexivity|].
  assert (Hlt : (steps < steps * steps)%nat) by nia. rewrite (proj2 (Nat.ltb_lt _ _) Hlt).
  apply condensation_repeat; [nia|]. intros i Hi. destruct (indep_block steps i ltac:(lia) Hi) as [_ [_ H]]. nia.
Qed.
Lemma mk_embed_square (i : R * R) : wfp i -> mkS (repeat (fst i) (steps * steps)) (repeat (snd i) (steps * steps)) = Ok (E i).
Proof.
  intros W. unfold mk_staircase. rewrite mk_ordered_any; rewrite ?bsc_square; try apply Rsorted_repeat; [reflexivity|apply ple_repeat; exact W].
Qed.
End Api.

Lemma hull_add (a b : R * R) : wfp a -> wfp b -> corner_hull Rplus a b = (fst a + fst b, snd a + snd b).
Proof. unfold wfp, corner_hull. intros; cbn [fst snd]. f_equal; [apply min4_eq|apply max4_eq]; try lra; auto. Qed.
Lemma hull_mul_nonneg (a b : R * R) : wfp a -> wfp b -> 0 <= fst a -> 0 <= fst b -> corner_hull Rmult a b = (fst a * fst b, snd a * snd b).
Proof. unfold wfp, corner_hull. intros; cbn [fst snd]. f_equal; [apply min4_eq|apply max4_eq]; try nra; auto. Qed.

Section Api2.
Variable steps : nat.
Variables plo phi : R.
Hypothesis steps_pos : (0 < steps)%nat.
Notation E := (embed steps).
Notation mkS := (mk_staircase RN steps plo phi).

(* the result of any dependency kernel on two embedded intervals, after the constructor *)
Lemma dep_embed (d : dep) (op : R -> R -> R) (a b : R * R) : d <> DF ->
  let '(l, r) := dep_op RN d op (fst (E a)) (snd (E a)) (fst (E b)) (snd (E b)) in mkS l r = Ok (E (corner_hull op a b)) /\ mkS (Rsort l) (Rsort r) = Ok (E (corner_hull op a b)).
Proof.
  intros Hd. pose proof (corner_hull_wf op a b) as W. destruct d; [contradiction| | |]; cbn [dep_op].
  - rewrite perfect_embed. cbn [embed fst snd]. rewrite !Rsort_id by apply Rsorted_repeat. split; apply (mk_embed steps plo phi); auto.
  - rewrite opposite_embed. cbn [embed fst snd]. rewrite !Rsort_id by apply Rsorted_repeat. split; apply (mk_embed steps plo phi); auto.
  - rewrite independent_embed. cbn [embed fst snd]. rewrite !Rsort_id by apply Rsorted_repeat. split; apply (mk_embed_square steps plo phi); auto.
Qed.

Theorem embed_add (d : dep) (a b : R * R) : wfp a -> wfp b ->
  padd RN steps plo phi d (E a) (E b) = Ok (E (fst a + fst b, snd a + snd b)).
Proof.
  intros Wa Wb. unfold padd. cbn [nadd RN]. destruct d.
  - cbn [dep_op]. rewrite frechet_embed. cbn [embed fst snd]. change (nsort RN) with Rsort. rewrite !Rsort_id by apply Rsorted_repeat.
    apply (mk_embed steps plo phi (fst a + fst b, snd a + snd b)). unfold wfp in *; cbn [fst snd]; lra.
  - pose proof (dep_embed DP Rplus a b ltac:(discriminate)) as H. destruct (dep_op RN DP Rplus _ _ _ _) as [l r]. rewrite <- hull_add by assumption. apply H.
  - pose proof (dep_embed DO Rplus a b ltac:(discriminate)) as H. destruct (dep_op RN DO Rplus _ _ _ _) as [l r]. rewrite <- hull_add by assumption. apply H.
  - pose proof (dep_embed DI Rplus a b ltac:(discriminate)) as H. destruct (dep_op RN DI Rplus _ _ _ _) as [l r]. rewrite <- hull_add by assumption. apply H.
Qed.
Theorem embed_neg (a : R * R) : wfp a -> pneg RN steps plo phi (E a) = Ok (E (- snd a, - fst a)).
Proof. intros Wa. rewrite (pneg_steps steps plo phi (E a) (WF_embed steps a Wa)). unfold embed; cbn [fst snd]. rewrite !rev_repeat_c, !map_repeat_c. reflexivity. Qed.
Theorem embed_sub (d : dep) (a b : R * R) : wfp a -> wfp b ->
  psub RN steps plo phi d (E a) (E b) = Ok (E (fst a - snd b, snd a - fst b)).
Proof.
  intros Wa Wb. unfold psub. rewrite embed_neg by exact Wb. cbn [rbind]. rewrite embed_add; [reflexivity|exact Wa|unfold wfp in *; cbn [fst snd]; lra].
Qed.
(* products under perfect / opposite / independent dependence: every sign *)
Theorem embed_mul (d : dep) (a b : R * R) : d <> DF ->
  pmul RN steps plo phi d (E a) (E b) = Ok (E (corner_hull Rmult a b)).
Proof.
  intros Hd. pose proof (dep_embed d Rmult a b Hd) as H. destruct d; [contradiction| | |]; cbn [pmul nmul RN];
    destruct (dep_op RN _ Rmult _ _ _ _) as [l r]; apply H.
Qed.
(* 1 / interval not containing zero *)
Theorem embed_one_over (b : R * R) : wfp b -> (0 < fst b \/ snd b < 0) ->
  one_over RN steps plo phi (E b) = Ok (E (1 / snd b, 1 / fst b)).
Proof.
  intros Wb Hs. unfold one_over, prdiv.
  assert (Hs' : 0 < nth 0 (fst (E b)) 0 \/ last (snd (E b)) 0 < 0).
  { unfold embed; cbn [fst snd]. rewrite nth_repeat_lt_R by lia. rewrite last_as_nth, repeat_length, nth_repeat_lt_R by lia. exact Hs. }
  rewrite (precip_steps steps plo phi (E b) (WF_embed steps b Wb) Hs'). cbn [rbind].
  unfold embed; cbn [fst snd]. rewrite !rev_repeat_c, !map_repeat_c.
  assert (Wr : wfp (1 / snd b, 1 / fst b)).
  { unfold wfp in *; cbn [fst snd]. unfold Rdiv. rewrite !Rmult_1_l. destruct Hs as [Hs|Hs].
    - apply Rinv_le_contravar; lra.
    - assert (/ - fst b <= / - snd b) by (apply Rinv_le_contravar; lra). rewrite !Rinv_opp in H. lra. }
  change (repeat (1 / snd b) steps, repeat (1 / fst b) steps) with (E (1 / snd b, 1 / fst b)).
  rewrite (pnum_mono steps plo phi (nmul RN) (@none RN) _ (WF_embed steps _ Wr)) by (intros x y Hxy; cbn [nmul RN]; unfold none; cbn [nofZ RN T]; lra).
  unfold embed; cbn [fst snd nmul RN]. rewrite !map_repeat_c. unfold none; cbn [nofZ RN T]. rewrite !Rmult_1_r. reflexivity.
Qed.
Theorem embed_div (d : dep) (a b : R * R) : d <> DF -> wfp b -> (0 < fst b \/ snd b < 0) ->
  pdiv RN steps plo phi d (E a) (E b) = Ok (E (corner_hull Rmult a (1 / snd b, 1 / fst b))).
Proof.
  intros Hd Wb Hs. unfold pdiv. rewrite embed_one_over by assumption. cbn [rbind]. apply embed_mul. destruct d; cbn [swap_po]; congruence.
Qed.
(* reals are the degenerate case *)
Corollary embed_real_add d x y : padd RN steps plo phi d (E (x, x)) (E (y, y)) = Ok (E (x + y, x + y)).
Proof. apply (embed_add d (x, x) (y, y)); unfold wfp; cbn; lra. Qed.
Corollary embed_real_mul d x y : d <> DF -> pmul RN steps plo phi d (E (x, x)) (E (y, y)) = Ok (E (x * y, x * y)).
Proof. intros Hd. rewrite embed_mul by exact Hd. f_equal. unfold corner_hull; cbn [fst snd]. f_equal; f_equal; [apply min4_eq|apply max4_eq]; auto; lra. Qed.
End Api2.

(* ---------- interval + precise distribution = the distribution shifted by the interval ---------- *)
Section Shift.
Variable steps : nat.
Variables plo phi : R.
Notation E := (embed steps).
Variable a : R * R.
Variable q : list R.
Hypothesis Wa : wfp a.
Hypothesis Lq : length q = steps.
Hypothesis Sq : Rsorted q.
Definition shifted : list R * list R := (map (Rplus (fst a)) q, map (Rplus (snd a)) q).

Lemma shifted_ok : mk_staircase RN steps plo phi (fst shifted) (snd shifted) = Ok shifted.
Proof. unfold shifted, mk_staircase; cbn [fst snd]. apply mk_ordered; rewrite ?map_length; auto; try (apply map_mono_sorted; auto; intros; lra).
  apply nth_ple; [rewrite !map_length; reflexivity|]. intros i Hi. rewrite map_length in Hi.
  rewrite (nth_indep (map (Rplus (fst a)) q) 0 (fst a + 0)), (nth_indep (map (Rplus (snd a)) q) 0 (snd a + 0)) by (rewrite map_length; lia).
  rewrite !map_nth. unfold wfp in Wa. lra. Qed.
Lemma istep_shift : forall l : list R, map2 (istep Rplus) (repeat a (length l)) (combine l l) = combine (map (Rplus (fst a)) l) (map (Rplus (snd a)) l).
Proof. induction l as [|x l IH]; [reflexivity|]. cbn [length repeat combine map2 map]. f_equal; [|exact IH].
  unfold istep. rewrite hull_add; [reflexivity|exact Wa|unfold wfp; cbn; lra]. Qed.
Lemma map_fst_combine {A B} (l : list A) (l' : list B) : length l = length l' -> map fst (combine l l') = l.
Proof. revert l'; induction l; intros [|b l'] H; cbn in *; try lia; auto. f_equal. apply IHl; lia. Qed.
Lemma map_snd_combine {A B} (l : list A) (l' : list B) : length l = length l' -> map snd (combine l l') = l'.
Proof. revert l'; induction l; intros [|b l'] H; cbn in *; try lia; auto. f_equal. apply IHl; lia. Qed.

Theorem shift_perfect : padd RN steps plo phi DP (E a) (q, q) = Ok shifted.
Proof.
  unfold padd. cbn [dep_op nadd RN fst snd]. unfold embed; cbn [fst snd].
  rewrite perfect_op_spec by (rewrite ?repeat_length; lia). rewrite combine_repeat.
  replace (repeat (fst a, snd a) steps) with (repeat a (length q)) by (rewrite Lq; destruct a; reflexivity).
  rewrite istep_shift, map_fst_combine, map_snd_combine by (rewrite !map_length; reflexivity).
  change (nsort RN) with Rsort. rewrite !Rsort_id; try apply Rsort_sorted; try (apply map_mono_sorted; auto; intros; lra). apply shifted_ok.
Qed.
Theorem shift_opposite : padd RN steps plo phi DO (E a) (q, q) = Ok shifted.
Proof.
  unfold padd. cbn [dep_op nadd RN fst snd]. unfold embed; cbn [fst snd].
  rewrite opposite_op_spec by (rewrite ?repeat_length; lia). rewrite combine_repeat. 
  replace (rev (combine q q)) with (combine (rev q) (rev q)) by (apply combine_rev; reflexivity).
  replace (repeat (fst a, snd a) steps) with (repeat a (length (rev q))) by (rewrite rev_length, Lq; destruct a; reflexivity).
  rewrite istep_shift, map_fst_combine, map_snd_combine by (rewrite !map_length; reflexivity).
  change (nsort RN) with Rsort.
  assert (P : forall c, Rsort (Rsort (map (Rplus c) (rev q))) = map (Rplus c) q).
  { intros c. rewrite (Rsort_id (Rsort _)) by apply Rsort_sorted. rewrite (Rsort_of_perm _ (map (Rplus c) q)) by (apply Permutation_map, Permutation_sym, Permutation_rev).
    apply Rsort_id. apply map_mono_sorted; auto; intros; lra. }
  rewrite !P. apply shifted_ok.
Qed.
End Shift.

(* ---------- interval + precise distribution under no dependence assumption (Frechet) ---------- *)
Lemma map2_repeat_l {A B C} (f : A -> B -> C) a : forall (l : list B) k, length l = k -> map2 f (repeat a k) l = map (f a) l.
Proof. induction l as [|b l IH]; intros k H; subst k; cbn [length repeat map2 map]; [reflexivity|]. f_equal. apply IH; reflexivity. Qed.
Lemma maxl_shift (a : R) (l : list R) : l <> [] -> maxl RN (map (Rplus a) l) = a + maxl RN l.
Proof. intros Hne. apply Rle_antisym.
  - apply maxl_le_all; [intro E; apply map_eq_nil in E; contradiction|]. intros v Hv. apply in_map_iff in Hv. destruct Hv as (x & <- & Hx). pose proof (maxl_ge l x Hx). lra.
  - pose proof (maxl_in l Hne) as Hin. apply maxl_ge. apply in_map. exact Hin. Qed.
Lemma minl_shift (a : R) (l : list R) : l <> [] -> minl RN (map (Rplus a) l) = a + minl RN l.
Proof. intros Hne. apply Rle_antisym.
  - pose proof (minl_in l Hne) as Hin. apply minl_le. apply in_map. exact Hin.
  - apply minl_ge_all; [intro E; apply map_eq_nil in E; contradiction|]. intros v Hv. apply in_map_iff in Hv. destruct Hv as (x & <- & Hx). pose proof (minl_le l x Hx). lra. Qed.
Lemma maxl_rev (l : list R) : l <> [] -> maxl RN (rev l) = maxl RN l.
Proof. intros Hne. assert (Hr : rev l <> []) by (intro E; apply (f_equal (@rev R)) in E; rewrite rev_involutive in E; contradiction).
  apply Rle_antisym; (apply maxl_le_all; [assumption|]; intros v Hv; apply maxl_ge); [apply in_rev; exact Hv|apply -> in_rev; exact Hv]. Qed.
Lemma minl_rev (l : list R) : l <> [] -> minl RN (rev l) = minl RN l.
Proof. intros Hne. assert (Hr : rev l <> []) by (intro E; apply (f_equal (@rev R)) in E; rewrite rev_involutive in E; contradiction).
  apply Rle_antisym; (apply minl_ge_all; [assumption|]; intros v Hv; apply minl_le); [apply -> in_rev; exact Hv|apply in_rev; exact Hv]. Qed.
Lemma maxl_prefix_sorted (q : list R) i : Rsorted q -> (i < length q)%nat -> maxl RN (firstn (S i) q) = nth i q 0.
Proof. intros Sq Hi. assert (Ne : firstn (S i) q <> []) by (intro E; apply (f_equal (@length R)) in E; rewrite firstn_length in E; cbn [length] in E; lia).
  apply Rle_antisym.
  - apply maxl_le_all; [exact Ne|]. intros v Hv. destruct (In_nth _ _ 0 Hv) as (j & Hj & <-). rewrite firstn_length in Hj. rewrite nth_firstn_lt by lia. apply Rsorted_nth; auto. lia.
  - apply maxl_ge. rewrite <- (nth_firstn_lt q 0 (S i) i) by lia. apply nth_In. rewrite firstn_length. lia. Qed.
Lemma minl_suffix_sorted (q : list R) i : Rsorted q -> (i < length q)%nat -> minl RN (skipn i q) = nth i q 0.
Proof. intros Sq Hi. assert (Ne : skipn i q <> []) by (intro E; apply (f_equal (@length R)) in E; rewrite skipn_length in E; cbn [length] in E; lia).
  apply Rle_antisym.
  - apply minl_le. replace (nth i q 0) with (nth 0 (skipn i q) 0) by (rewrite nth_skipn_add; f_equal; lia). apply nth_In. rewrite skipn_length. lia.
  - apply minl_ge_all; [exact Ne|]. intros v Hv. destruct (In_nth _ _ 0 Hv) as (j & Hj & <-). rewrite skipn_length in Hj. rewrite nth_skipn_add. apply Rsorted_nth; auto. lia. Qed.

Section ShiftF.
Variable steps : nat.
Variables plo phi : R.
Variable a : R * R.
Variable q : list R.
Hypothesis Wa : wfp a.
Hypothesis Lq : length q = steps.
Hypothesis Sq : Rsorted q.
Theorem shift_frechet : padd RN steps plo phi DF (embed steps a) (q, q) = Ok (shifted a q).
Proof.
  unfold padd. cbn [dep_op nadd RN fst snd]. unfold embed, frechet_op; cbn [fst snd T RN]. rewrite repeat_length. change (nsort RN) with Rsort.
  assert (L : map (frechet_left RN Rplus (repeat (fst a) steps) q) (seq 0 steps) = map (Rplus (fst a)) q).
  { rewrite <- (map_nth_seq_R q) at 2. rewrite map_map, Lq. apply map_ext_in. intros i Hi. apply in_seq in Hi. unfold frechet_left. cbn [T RN].
    rewrite firstn_repeat_c by lia. rewrite map2_repeat_l by (rewrite rev_length, firstn_length; lia).
    assert (Ne : firstn (S i) q <> []) by (intro E; apply (f_equal (@length R)) in E; rewrite firstn_length in E; cbn [length] in E; lia).
    rewrite maxl_shift by (intro E; apply (f_equal (@rev R)) in E; rewrite rev_involutive in E; contradiction).
    rewrite maxl_rev by exact Ne. rewrite maxl_prefix_sorted by (auto; lia). reflexivity. }
  assert (R' : map (frechet_right RN Rplus (repeat (snd a) steps) q) (seq 0 steps) = map (Rplus (snd a)) q).
  { rewrite <- (map_nth_seq_R q) at 2. rewrite map_map, Lq. apply map_ext_in. intros i Hi. apply in_seq in Hi. unfold frechet_right. cbn [T RN].
    rewrite skipn_repeat_c. rewrite map2_repeat_l by (rewrite rev_length, skipn_length; lia).
    assert (Ne : skipn i q <> []) by (intro E; apply (f_equal (@length R)) in E; rewrite skipn_length in E; cbn [length] in E; lia).
    rewrite minl_shift by (intro E; apply (f_equal (@rev R)) in E; rewrite rev_involutive in E; contradiction).
    rewrite minl_rev by exact Ne. rewrite minl_suffix_sorted by (auto; lia). reflexivity. }
  assert (S1 : forall c, Rsorted (map (Rplus c) q)) by (intros; apply map_mono_sorted; auto; intros; lra).
  match goal with |- mk_staircase _ _ _ _ (Rsort (Rsort ?x)) (Rsort (Rsort ?y)) = _ => replace x with (map (Rplus (fst a)) q) by (symmetry; exact L); replace y with (map (Rplus (snd a)) q) by (symmetry; exact R') end.
  rewrite !Rsort_id; auto; try apply Rsort_sorted. apply (shifted_ok steps plo phi a q Wa Lq Sq).
Qed.
End ShiftF.
