(* C08: the stacking / DS-structure conversion returns, at every level, the generalised inverse of the
   cumulated-mass function of the lower (plausibility) and upper (belief) endpoints. *)
From Coq Require Import Reals Lra List Arith Lia Bool Permutation Sorted.
From PUN Require Import Base.Num Base.Sort Model.Interval Model.Pbox Proofs.ListR.
Import ListNotations.
Open Scope R_scope.

(* ---------- sums ---------- *)
Fixpoint Rsum (l : list R) : R := match l with [] => 0 | x :: r => x + Rsum r end.
Lemma Rsum_app a b : Rsum (a ++ b) = Rsum a + Rsum b.
Proof. induction a; cbn; lra. Qed.
Lemma Rsum_perm a b : Permutation a b -> Rsum a = Rsum b.
Proof. induction 1; cbn; lra. Qed.
Lemma Rsum_nonneg l : Forall (fun x => 0 <= x) l -> 0 <= Rsum l.
Proof. induction 1; cbn; lra. Qed.

(* cumulated mass of the focal elements whose endpoint is <= v : order-free by construction *)
Definition Mass (l : list (R * R)) (v : R) : R := Rsum (map snd (filter (fun p => Rleb (fst p) v) l)).
Lemma filter_perm {A} (f : A -> bool) l l' : Permutation l l' -> Permutation (filter f l) (filter f l').
Proof. induction 1 as [|x l l' H IH|x y l|l l' l'' H1 IH1 H2 IH2]; cbn [filter].
  - constructor.
  - destruct (f x); [constructor|]; exact IH.
  - destruct (f x), (f y); try apply perm_swap; apply Permutation_refl.
  - eapply Permutation_trans; eassumption. Qed.
Lemma Mass_perm l l' v : Permutation l l' -> Mass l v = Mass l' v.
Proof. intros H. unfold Mass. apply Rsum_perm, Permutation_map, filter_perm, H. Qed.
(* splitting a focal element into two copies sharing its mass does not change the cumulated mass *)
Lemma Mass_split l x m1 m2 v : Mass ((x, m1 + m2) :: l) v = Mass ((x, m1) :: (x, m2) :: l) v.
Proof. unfold Mass. cbn [filter fst]. destruct (Rleb x v); cbn; lra. Qed.
Lemma Mass_mono l v v' : Forall (fun p => 0 <= snd p) l -> v <= v' -> Mass l v <= Mass l v'.
Proof. intros Hw Hv. unfold Mass. induction Hw as [|p l Hp Hl IH]; cbn [filter map Rsum]; [lra|].
  destruct (Rleb_spec (fst p) v), (Rleb_spec (fst p) v'); cbn [map Rsum]; try lra. Qed.

Lemma In_firstn_l {A} n (l : list A) x : In x (firstn n l) -> In x l.
Proof. intros H. rewrite <- (firstn_skipn n l). apply in_or_app; left; exact H. Qed.
Lemma In_skipn_l {A} n (l : list A) x : In x (skipn n l) -> In x l.
Proof. intros H. rewrite <- (firstn_skipn n l). apply in_or_app; right; exact H. Qed.

(* ---------- cumulative sums ---------- *)
Lemma cumsum_from_nth acc (l : list R) i : (i < length l)%nat -> nth i (cumsum_from RN acc l) 0 = acc + Rsum (firstn (S i) l).
Proof. revert acc i; induction l as [|x l IH]; intros acc i Hi; cbn [length] in Hi; [lia|].
  destruct i as [|i]; cbn [cumsum_from nth firstn Rsum nadd RN T]; [lra|]. rewrite IH by lia. cbn [firstn Rsum]. lra. Qed.
Lemma cumsum_nth (l : list R) i : (i < length l)%nat -> nth i (cumsum RN l) 0 = Rsum (firstn (S i) l).
Proof. destruct l as [|x l]; intros Hi; cbn [length] in Hi; [lia|]. destruct i as [|i]; cbn [cumsum nth firstn Rsum]; [lra|].
  rewrite cumsum_from_nth by lia. cbn [firstn Rsum]. lra. Qed.
Lemma cumsum_from_length acc (l : list R) : length (cumsum_from RN acc l) = length l.
Proof. revert acc; induction l; intros; cbn; auto. Qed.
Lemma cumsum_length (l : list R) : length (cumsum RN l) = length l.
Proof. destruct l; cbn; auto. rewrite cumsum_from_length; reflexivity. Qed.

(* a nondecreasing list: the entries below a form a prefix *)
Lemma count_prefix (c : list R) (a : R) : Rsorted c ->
  let k := length (filter (fun x => Rltb x a) c) in
  (forall i, (i < k)%nat -> nth i c 0 < a) /\ (forall i, (k <= i < length c)%nat -> a <= nth i c 0).
Proof.
  induction 1 as [|x c Hs IH Hall]; cbv zeta; cbn [filter length]; [split; intros; lia|].
  destruct (Rltb_spec x a) as [Hlt|Hge]; cbn [length].
  - destruct IH as [I1 I2]. split; intros [|i] Hi; cbn [nth]; auto; try lia; [apply I1; lia | apply I2; lia].
  - (* x >= a: nothing after x is below a *)
    assert (E : filter (fun y => Rltb y a) c = []).
    { rewrite Forall_forall in Hall. clear -Hall Hge. induction c as [|y c IHc]; cbn; auto.
      assert (x <= y) by (apply Rleb_true, Hall; left; reflexivity).
      destruct (Rltb_spec y a); [lra|]. apply IHc. intros z Hz; apply Hall; right; exact Hz. }
    rewrite E in *. cbn [length] in *. split; [intros; lia|]. intros [|i] Hi; cbn [nth]; [lra|]. destruct IH as [_ I2]. apply I2; lia.
Qed.

(* ---------- the sorted pairs ---------- *)
Definition pleb (a b : R * R) : bool := Rleb (fst a) (fst b).
Lemma pleb_total a b : pleb a b = true \/ pleb b a = true.
Proof. unfold pleb. apply Rleb_total. Qed.
Lemma pleb_trans a b c : pleb a b = true -> pleb b c = true -> pleb a c = true.
Proof. unfold pleb. apply Rleb_trans. Qed.
Definition psorted (l : list (R * R)) := sorted pleb l.
Definition psortR (l : list (R * R)) : list (R * R) := pair_sort RN l.
Definition cumsumR (l : list R) : list R := cumsum RN l.
Lemma pair_sort_perm (l : list (R * R)) : Permutation l (psortR l).
Proof. apply msort_perm. Qed.
Lemma pair_sort_sorted (l : list (R * R)) : psorted (psortR l).
Proof. apply msort_sorted; [apply pleb_total | apply pleb_trans]. Qed.
Lemma psorted_fst l : psorted l -> Rsorted (map fst l).
Proof. induction 1 as [|p l Hs IH Hall]; cbn; constructor; auto. apply Forall_forall. intros x Hx.
  apply in_map_iff in Hx. destruct Hx as (q & <- & Hq). rewrite Forall_forall in Hall. apply Hall, Hq. Qed.

(* for value-sorted pairs with non-negative masses: prefix sums bound the cumulated mass from below ... *)
Lemma Mass_ge_prefix l k : psorted l -> Forall (fun p => 0 <= snd p) l -> (k < length l)%nat ->
  Rsum (firstn (S k) (map snd l)) <= Mass l (nth k (map fst l) 0).
Proof.
  intros Hs. revert k. induction Hs as [|p l Hs IH Hall]; intros k Hw Hk; cbn [length] in Hk; [lia|].
  inversion Hw as [|? ? Hp Hw']; subst. unfold Mass in *. destruct k as [|k]; cbn [map nth filter fst].
  - rewrite (proj2 (Rleb_true (fst p) (fst p))) by lra. cbn [map Rsum firstn].
    assert (0 <= Rsum (map snd (filter (fun q : R * R => Rleb (fst q) (fst p)) l))).
    { apply Rsum_nonneg. apply Forall_forall. intros x Hx. apply in_map_iff in Hx. destruct Hx as (q & <- & Hq).
      apply filter_In in Hq. rewrite Forall_forall in Hw'. apply Hw', Hq. }
    cbn. lra.
  - assert (Hle : fst p <= nth k (map fst l) 0).
    { rewrite Forall_forall in Hall. assert (Hin : In (nth k l (0, 0)) l) by (apply nth_In; lia).
      specialize (Hall _ Hin). unfold pleb in Hall. apply Rleb_true in Hall.
      rewrite (nth_indep (map fst l) 0 (fst (0, 0))) by (rewrite map_length; lia). rewrite map_nth. exact Hall. }
    rewrite (proj2 (Rleb_true _ _) Hle). cbn [map]. rewrite firstn_cons. cbn [Rsum]. specialize (IH k Hw' ltac:(lia)). lra.
Qed.
(* ... and a value strictly below the k-th sorted value collects at most the first k masses *)
Lemma Mass_le_prefix l k v : psorted l -> Forall (fun p => 0 <= snd p) l -> (k < length l)%nat ->
  v < nth k (map fst l) 0 -> Mass l v <= Rsum (firstn k (map snd l)).
Proof.
  intros Hs. revert k. induction Hs as [|p l Hs IH Hall]; intros k Hw Hk Hv; cbn [length] in Hk; [lia|].
  inversion Hw as [|? ? Hp Hw']; subst. unfold Mass in *. destruct k as [|k]; cbn [map nth firstn filter fst] in *.
  - (* v below the smallest value: nothing collected *)
    assert (E : filter (fun q : R * R => Rleb (fst q) v) (p :: l) = []).
    { cbn [filter]. rewrite (proj2 (Rleb_false _ _)) by lra.
      rewrite Forall_forall in Hall. clear -Hall Hv. induction l as [|q l IHl]; cbn; auto.
      assert (fst p <= fst q) by (apply Rleb_true, (Hall q); left; reflexivity).
      rewrite (proj2 (Rleb_false _ _)) by lra. apply IHl. intros z Hz; apply Hall; right; exact Hz. }
    cbn [filter] in E. rewrite E. cbn. lra.
  - destruct (Rleb_spec (fst p) v); cbn [map Rsum]; specialize (IH k Hw' ltac:(lia) Hv); try lra.
Qed.

(* ---------- the interpolation step ---------- *)
Section S.
Variable steps : nat.
Variables plo phi : R.

(* value returned by get_ecdf + extend_ecdf + 'next' interpolation at a level a in (0, 1] *)
Definition ecdf_at (s w : list R) (a : R) : R :=
  let '(q, p) := extend_ecdf RN (get_ecdf RN s w) in interp_next RN p q a.

Lemma filter_ltb_app (l1 l2 : list R) a : length (filter (fun x => Rltb x a) (l1 ++ l2)) =
  (length (filter (fun x => Rltb x a) l1) + length (filter (fun x => Rltb x a) l2))%nat.
Proof. rewrite filter_app, app_length. reflexivity. Qed.

Theorem ecdf_at_index (s w : list R) (a : R) : length s = length w -> s <> [] -> 0 < a <= 1 ->
  let arr := psortR (combine s w) in
  let k := length (filter (fun x => Rltb x a) (cumsumR (map snd arr))) in
  ecdf_at s w a = nth (Nat.min k (length arr - 1)) (map fst arr) 0.
Proof.
  intros Hl Hne Ha. cbv zeta. unfold psortR, cumsumR. unfold ecdf_at, get_ecdf, extend_ecdf. cbn [T RN neqb]. change (T RN) with R in *.
  pose proof (Permutation_length (pair_sort_perm (combine s w))) as Hm0. rewrite combine_length in Hm0. unfold psortR in Hm0.
  generalize dependent (pair_sort RN (combine s w)). intros arr0.
  assert (exists arr : list (R * R), arr = arr0) as (arr & Earr) by (exists arr0; reflexivity). rewrite <- Earr. clear Earr arr0. intros Hm0.
  assert (Hm : @length (R * R) arr = length s) by lia.
  assert (Hpos : (0 < @length (R * R) arr)%nat) by (rewrite Hm; destruct s; [congruence|cbn; lia]).
  assert (exists q0 qs, map fst arr = q0 :: qs) as (q0 & qs & Eq).
  { destruct (map fst arr) as [|q0 qs] eqn:Eq; [|eauto]. apply (f_equal (@length R)) in Eq. rewrite map_length in Eq. cbn in Eq. lia. }
  rewrite !Eq. cbv beta iota.
  set (c := cumsum RN (map snd arr)).
  assert (Hc : @length R c = @length (R * R) arr) by (unfold c; rewrite cumsum_length, map_length; reflexivity).
  assert (Hq : @length R (q0 :: qs) = @length (R * R) arr) by (rewrite <- Eq, map_length; reflexivity).
  unfold nzero, none; cbn [nofZ RN T].
  assert (E0 : Reqb 0 0 = true) by (destruct (Reqb_spec 0 0); [reflexivity|lra]). rewrite E0.
  set (k := length (filter (fun x => Rltb x a) c)).
  assert (Hk : (k <= @length (R * R) arr)%nat) by (unfold k; pose proof (len_filter_all_R (fun x => Rltb x a) c); lia).
  assert (Hcount0 : length (filter (fun x : R => Rltb x a) (0 :: c)) = S k).
  { cbn [filter]. rewrite (proj2 (Rltb_true 0 a)) by lra. reflexivity. }
  set (sv := q0 :: qs) in *.
  assert (Hsv : @length R sv = @length (R * R) arr) by exact Hq.
  destruct (Reqb (last (0 :: c) 0) 1) eqn:El; unfold interp_next; cbn [nltb RN T]; change (T RN) with R in *.
  - rewrite Hcount0. unfold nth0. change (length (q0 :: sv)) with (S (length sv)). rewrite Hsv.
    destruct (le_lt_dec (length arr) k) as [Hge|Hlt].
    + replace (Nat.min (S k) (S (length arr) - 1)) with (S (length arr - 1)) by lia.
      replace (Nat.min k (length arr - 1)) with (length arr - 1)%nat by lia. reflexivity.
    + replace (Nat.min (S k) (S (length arr) - 1)) with (S k) by lia. replace (Nat.min k (length arr - 1)) with k by lia. reflexivity.
  - rewrite filter_ltb_app, Hcount0. cbn [filter]. rewrite (proj2 (Rltb_false 1 a)) by lra. cbn [length].
    unfold nth0. rewrite app_length. change (length (q0 :: sv)) with (S (length sv)). cbn [length]. rewrite Hsv.
    destruct (le_lt_dec (length arr) k) as [Hge|Hlt].
    + replace (Nat.min (S k + 0) (S (length arr) + 1 - 1)) with (S (length arr)) by lia.
      replace (Nat.min k (length arr - 1)) with (length arr - 1)%nat by lia.
      rewrite app_nth2 by (change (length (q0 :: sv)) with (S (length sv)); rewrite Hsv; lia).
      change (length (q0 :: sv)) with (S (length sv)). rewrite Hsv, Nat.sub_diag. cbn [nth].
      change (last (q0 :: sv) 0) with (last sv 0). rewrite last_as_nth, Hsv. reflexivity.
    + replace (Nat.min (S k + 0) (S (length arr) + 1 - 1)) with (S k) by lia. replace (Nat.min k (length arr - 1)) with k by lia.
      rewrite app_nth1 by (change (length (q0 :: sv)) with (S (length sv)); rewrite Hsv; lia). reflexivity.
Qed.

(* the generalised inverse: the returned value's cumulated mass reaches the level, no smaller value's does *)
Theorem ecdf_at_ginv (s w : list R) (a : R) : length s = length w -> s <> [] -> 0 < a <= 1 ->
  Forall (fun m => 0 <= m) w -> a <= Rsum w ->
  let v := ecdf_at s w a in
  In v s /\ a <= Mass (combine s w) v /\ (forall v', v' < v -> Mass (combine s w) v' < a).
Proof.
  intros Hl Hne Ha Hw Htot. cbv zeta. rewrite (ecdf_at_index s w a Hl Hne Ha).
  set (arr := psortR (combine s w)).
  pose proof (pair_sort_perm (combine s w)) as HP. fold arr in HP.
  pose proof (pair_sort_sorted (combine s w)) as HS. fold arr in HS.
  assert (Hm : @length (R * R) arr = length s) by (pose proof (Permutation_length HP) as Hm0; rewrite combine_length in Hm0; lia).
  assert (Hpos : (0 < @length (R * R) arr)%nat) by (rewrite Hm; destruct s; [congruence|cbn; lia]).
  assert (Hwa : Forall (fun p : R * R => 0 <= snd p) arr).
  { apply Forall_forall. intros [x y] Hp. apply (Permutation_in _ (Permutation_sym HP)) in Hp.
    apply in_combine_r in Hp. rewrite Forall_forall in Hw. cbn. apply Hw, Hp. }
  set (c := cumsumR (map snd arr)).
  assert (Hcl : length c = length arr) by (unfold c, cumsumR; rewrite cumsum_length, map_length; reflexivity).
  assert (Hcs : Rsorted c).
  { apply nth_Rsorted. intros i j Hij. rewrite Hcl in Hij. unfold c, cumsumR. rewrite !cumsum_nth by (rewrite map_length; lia).
    assert (E : firstn (S j) (map snd arr) = firstn (S i) (map snd arr) ++ firstn (j - i) (skipn (S i) (map snd arr))).
    { rewrite <- (firstn_skipn (S i) (firstn (S j) (map snd arr))) at 1. f_equal.
      - rewrite firstn_firstn. f_equal. lia. - rewrite skipn_firstn_comm. f_equal. }
    rewrite E, Rsum_app. assert (0 <= Rsum (firstn (j - i) (skipn (S i) (map snd arr)))); [|lra].
    apply Rsum_nonneg. apply Forall_forall. intros x Hx. apply In_firstn_l, In_skipn_l in Hx.
    apply in_map_iff in Hx. destruct Hx as (p & <- & Hp). rewrite Forall_forall in Hwa. apply Hwa, Hp. }
  destruct (count_prefix c a Hcs) as [P1 P2]. set (k := length (filter (fun x => Rltb x a) c)) in *.
  (* the total mass reaches a, so k < m *)
  assert (Hk : (k < length arr)%nat).
  { destruct (le_lt_dec (length arr) k) as [Hge|]; [exfalso|assumption].
    specialize (P1 (length arr - 1)%nat ltac:(lia)). unfold c, cumsumR in P1. rewrite cumsum_nth in P1 by (rewrite map_length; lia).
    replace (S (length arr - 1)) with (length (map snd arr)) in P1 by (rewrite map_length; lia). rewrite firstn_all in P1.
    assert (Rsum (map snd arr) = Rsum w).
    { rewrite <- (Rsum_perm _ _ (Permutation_map snd HP)). f_equal. clear -Hl. revert w Hl; induction s; intros [|y w] Hl; cbn in *; try lia; auto. f_equal; apply IHs; lia. }
    lra. }
  replace (Nat.min k (length arr - 1)) with k by lia. clearbody k.
  rewrite !(Mass_perm _ _ _ HP). split; [|split].
  - assert (Hin : In (nth k arr (0, 0)) arr) by (apply nth_In; exact Hk).
    rewrite (nth_indep (map fst arr) 0 (fst (0, 0))) by (rewrite map_length; exact Hk). rewrite map_nth.
    apply (Permutation_in _ (Permutation_sym HP)) in Hin. destruct (nth k arr (0, 0)) as [x y]. cbn. apply (in_combine_l _ _ _ _ Hin).
  - apply Rle_trans with (nth k c 0); [apply P2; lia|]. unfold c, cumsumR. rewrite cumsum_nth by (rewrite map_length; exact Hk).
    apply Mass_ge_prefix; auto.
  - intros v' Hv'. rewrite (Mass_perm _ _ v' HP). destruct k as [|k'].
    + pose proof (Mass_le_prefix arr 0 v' HS Hwa Hk Hv') as H0. cbn [firstn Rsum] in H0. lra.
    + pose proof (Mass_le_prefix arr (S k') v' HS Hwa Hk Hv') as H0.
      specialize (P1 k' ltac:(lia)). unfold c, cumsumR in P1. rewrite cumsum_nth in P1 by (rewrite map_length; lia). lra.
Qed.

(* uniqueness of the generalised inverse => independence of the order of listing and of splitting *)
Definition is_ginv (l : list (R * R)) (a v : R) : Prop := a <= Mass l v /\ (forall v', v' < v -> Mass l v' < a).
Lemma is_ginv_unique l a v1 v2 : is_ginv l a v1 -> is_ginv l a v2 -> v1 = v2.
Proof. intros [A1 B1] [A2 B2]. destruct (Rtotal_order v1 v2) as [H|[H|H]]; auto; [specialize (B2 _ H)|specialize (B1 _ H)]; lra. Qed.
Lemma is_ginv_perm l l' a v : Permutation l l' -> is_ginv l a v -> is_ginv l' a v.
Proof. intros HP [A B]. split; [rewrite <- (Mass_perm _ _ _ HP); exact A | intros v' Hv'; rewrite <- (Mass_perm _ _ _ HP); auto]. Qed.

Theorem ecdf_at_perm (s w s' w' : list R) (a : R) :
  length s = length w -> length s' = length w' -> s <> [] -> s' <> [] -> 0 < a <= 1 ->
  Forall (fun m => 0 <= m) w -> Forall (fun m => 0 <= m) w' -> a <= Rsum w -> a <= Rsum w' ->
  Permutation (combine s w) (combine s' w') -> ecdf_at s w a = ecdf_at s' w' a.
Proof.
  intros L1 L2 N1 N2 Ha W1 W2 T1 T2 HP.
  destruct (ecdf_at_ginv s w a L1 N1 Ha W1 T1) as (_ & A1 & B1). destruct (ecdf_at_ginv s' w' a L2 N2 Ha W2 T2) as (_ & A2 & B2).
  apply (is_ginv_unique (combine s' w') a); [|split; assumption].
  apply (is_ginv_perm _ _ _ _ HP). split; assumption.
Qed.
Theorem ecdf_at_split (s w : list R) (x m1 m2 a : R) :
  length s = length w -> 0 < a <= 1 -> Forall (fun m => 0 <= m) w -> 0 <= m1 -> 0 <= m2 -> a <= m1 + m2 + Rsum w ->
  ecdf_at (x :: s) ((m1 + m2) :: w) a = ecdf_at (x :: x :: s) (m1 :: m2 :: w) a.
Proof.
  intros L Ha W H1 H2 T.
  destruct (ecdf_at_ginv (x :: s) ((m1 + m2) :: w) a) as (_ & A1 & B1); cbn [length Rsum]; auto; try discriminate; try lra.
  { constructor; auto; lra. }
  destruct (ecdf_at_ginv (x :: x :: s) (m1 :: m2 :: w) a) as (_ & A2 & B2); cbn [length Rsum]; auto; try discriminate; try lra.
  apply (is_ginv_unique (combine (x :: x :: s) (m1 :: m2 :: w)) a); [|split; assumption].
  cbn [combine] in *. split; [rewrite <- Mass_split; exact A1 | intros v' Hv'; rewrite <- Mass_split; auto].
Qed.
End S.

(* ---------- monotonicity of the generalised inverse ---------- *)
Lemma is_ginv_mono_level l a a' v v' : a <= a' -> is_ginv l a v -> is_ginv l a' v' -> v <= v'.
Proof. intros Ha [A B] [A' B']. destruct (Rle_dec v v') as [|Hn]; auto. specialize (B v' ltac:(lra)). lra. Qed.
Lemma Mass_dom (s s' w : list R) v : length s = length w -> length s' = length w -> Forall (fun m => 0 <= m) w ->
  Forall2 Rle s s' -> Mass (combine s' w) v <= Mass (combine s w) v.
Proof.
  intros L1 L2 Hw Hle. revert w L1 L2 Hw. unfold Mass. induction Hle as [|x y s s' Hxy Hle IH]; intros [|m w] L1 L2 Hw; cbn in L1, L2; try lia; [cbn; lra|].
  inversion Hw as [|? ? Hm Hw']; subst. cbn [combine filter fst].
  specialize (IH w ltac:(lia) ltac:(lia) Hw').
  destruct (Rleb_spec y v), (Rleb_spec x v); cbn [map Rsum snd]; try lra.
Qed.
Lemma is_ginv_dom (s s' w : list R) a v v' : length s = length w -> length s' = length w -> Forall (fun m => 0 <= m) w ->
  Forall2 Rle s s' -> is_ginv (combine s w) a v -> is_ginv (combine s' w) a v' -> v <= v'.
Proof. intros L1 L2 Hw Hle [A B] [A' B']. destruct (Rle_dec v v') as [|Hn]; auto. specialize (B v' ltac:(lra)).
  pose proof (Mass_dom s s' w v' L1 L2 Hw Hle). lra. Qed.

(* ---------- equal masses: the cumulated mass is a count ---------- *)
Lemma Mass_equal (L : list R) (m v : R) : Mass (combine L (repeat m (length L))) v = m * INR (length (filter (fun x => Rleb x v) L)).
Proof. unfold Mass. induction L as [|x L IH]; cbn [length repeat combine filter fst]; [cbn; lra|].
  destruct (Rleb x v); cbn [map Rsum snd length]; rewrite IH; [rewrite S_INR; lra|reflexivity]. Qed.
Lemma count_le_sorted_ge (L : list R) t : Rsorted L -> (t < length L)%nat -> (S t <= length (filter (fun x => Rleb x (nth t L 0%R)) L))%nat.
Proof.
  intros Hs Ht.
  assert (H : forall k, (k <= length L)%nat -> (forall j, (j < k)%nat -> nth j L 0 <= nth t L 0) ->
              (k <= length (filter (fun x => Rleb x (nth t L 0%R)) L))%nat).
  { generalize (nth t L 0). intros b. clear. induction L as [|x L IH]; intros k Hk Hj; cbn [length filter] in *; [lia|].
    destruct k as [|k]; [lia|]. rewrite (proj2 (Rleb_true x b)) by (apply (Hj 0%nat); lia). cbn [length].
    apply le_n_S, IH; [lia|]. intros j Hjk. apply (Hj (S j)). lia. }
  apply H; [lia|]. intros j Hj. apply Rsorted_nth; auto. lia.
Qed.
Lemma count_le_sorted_lt (L : list R) t v : Rsorted L -> (t < length L)%nat -> v < nth t L 0 -> (length (filter (fun x => Rleb x v) L) <= t)%nat.
Proof.
  intros Hs. revert t. induction Hs as [|x L Hs IH Hall]; intros t Ht Hv; cbn [length filter] in *; [lia|].
  destruct t as [|t]; cbn [nth] in Hv.
  - rewrite (proj2 (Rleb_false x v)) by lra.
    assert (E : filter (fun y => Rleb y v) L = []).
    { rewrite Forall_forall in Hall. clear -Hall Hv. induction L as [|y L IHL]; cbn; auto.
      assert (x <= y) by (apply Rleb_true, Hall; left; reflexivity). rewrite (proj2 (Rleb_false y v)) by lra.
      apply IHL. intros z Hz; apply Hall; right; exact Hz. }
    rewrite E. cbn; lia.
  - specialize (IH t ltac:(lia) Hv). destruct (Rleb x v); cbn [length]; lia.
Qed.

(* p-box -> DS structure -> p-box: with n equal masses the level a_t returns step t whenever t/n < a_t <= (t+1)/n *)
Theorem roundtrip_level (L : list R) (t : nat) (a : R) : Rsorted L -> (t < length L)%nat ->
  INR t / INR (length L) < a <= INR (S t) / INR (length L) -> 0 < a <= 1 ->
  ecdf_at L (repeat (/ INR (length L)) (length L)) a = nth t L 0.
Proof.
  intros Hs Ht [Hlo Hhi] Ha. set (n := length L) in *. set (w := repeat (/ INR n) n).
  assert (Hn : 0 < INR n) by (apply lt_0_INR; lia).
  assert (Hw : Forall (fun m => 0 <= m) w).
  { apply Forall_forall. intros x Hx. apply repeat_spec in Hx. subst x. left. apply Rinv_0_lt_compat; exact Hn. }
  assert (Lw : length L = length w) by (unfold w; rewrite repeat_length; reflexivity).
  assert (Tot : Rsum w = 1).
  { unfold w. clear -Hn. assert (E : forall k, Rsum (repeat (/ INR n) k) = INR k * / INR n).
    { induction k; cbn [repeat Rsum]; [cbn; lra|]. rewrite IHk, S_INR. lra. }
    rewrite E. field. lra. }
  assert (Hne : L <> []) by (intro E; subst L; cbn in Ht; lia).
  destruct (ecdf_at_ginv L w a Lw Hne Ha Hw ltac:(lra)) as (_ & A & B).
  apply (is_ginv_unique (combine L w) a); [split; assumption|].
  unfold w, n. split.
  - rewrite Mass_equal. pose proof (count_le_sorted_ge L t Hs Ht) as Hc. apply le_INR in Hc.
    apply Rle_trans with (INR (S t) / INR (length L)); [exact Hhi|]. unfold Rdiv. rewrite Rmult_comm.
    apply Rmult_le_compat_l; [left; apply Rinv_0_lt_compat; exact Hn | exact Hc].
  - intros v' Hv'. rewrite Mass_equal. pose proof (count_le_sorted_lt L t v' Hs Ht Hv') as Hc. apply le_INR in Hc.
    apply Rle_lt_trans with (INR t / INR (length L)); [|exact Hlo]. unfold Rdiv. rewrite Rmult_comm.
    apply Rmult_le_compat_r; [left; apply Rinv_0_lt_compat; exact Hn | exact Hc].
Qed.

(* stacking = Staircase constructor applied to the generalised inverses evaluated on the probability grid *)
Theorem stacking_bounds (steps : nat) (plo phi : R) (lo hi w : list R) :
  stacking RN steps plo phi lo hi w =
  mk_staircase RN steps plo phi (map (ecdf_at lo w) (p_values RN steps plo phi)) (map (ecdf_at hi w) (p_values RN steps plo phi)).
Proof.
  unfold stacking, from_cdfbundle, ecdf_at, interpolate_p.
  destruct (extend_ecdf RN (get_ecdf RN lo w)) as [qa pa]. destruct (extend_ecdf RN (get_ecdf RN hi w)) as [qb pb]. reflexivity.
Qed.
