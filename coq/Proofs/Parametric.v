(* C09: a function that is monotone (in either direction) in each parameter separately attains its extremes over a box at the
   corners; hence the corner envelope of the quantile function encloses every member of the parameter box. *)
From Coq Require Import Reals Lra List Arith Lia Bool.
From PUN Require Import Base.Num Model.Interval Model.Pbox Model.Parametric Proofs.ListR.
Import ListNotations.
Open Scope R_scope.

Definition inb (t : R) (i : R * R) : Prop := fst i <= t <= snd i.
Definition mono1 (g : R -> R) (lo hi : R) : Prop :=
  (forall a b, lo <= a -> a <= b -> b <= hi -> g a <= g b) \/ (forall a b, lo <= a -> a <= b -> b <= hi -> g b <= g a).
(* monotone in each coordinate separately; the direction may depend on the values of the other coordinates *)
Fixpoint coord_mono (f : list R -> R) (box : list (R * R)) : Prop :=
  match box with
  | [] => True
  | i :: r => (forall rest, Forall2 inb rest r -> mono1 (fun t => f (t :: rest)) (fst i) (snd i)) /\
              (forall t, inb t i -> coord_mono (fun rest => f (t :: rest)) r)
  end.

Lemma corners_ne (box : list (R * R)) : corners RN box <> [].
Proof. induction box as [|[lo hi] r IH]; cbn [corners]; [discriminate|]. intro E. apply app_eq_nil in E. destruct E as [E _].
  apply map_eq_nil in E. contradiction. Qed.
Lemma corner_in (box : list (R * R)) : forall c, In c (corners RN box) -> Forall2 (fun t i => t = fst i \/ t = snd i) c box.
Proof. induction box as [|[lo hi] r IH]; cbn [corners]; intros c H.
  - destruct H as [<-|[]]. constructor.
  - apply in_app_or in H. destruct H as [H|H]; apply in_map_iff in H; destruct H as (c' & <- & Hc); constructor; auto. Qed.

Theorem corner_enclosure : forall (box : list (R * R)) (f : list R -> R) (th : list R),
  Forall (fun i => fst i <= snd i) box -> Forall2 inb th box -> coord_mono f box ->
  bound_lo RN f box <= f th <= bound_hi RN f box.
Proof.
  unfold bound_lo, bound_hi.
  induction box as [|[lo hi] r IH]; intros f th Hw Hin Hm.
  - inversion Hin; subst. cbn. lra.
  - inversion Hin as [|t i th' r' Ht Hr]; subst. inversion Hw as [|? ? Hw1 Hw2]; subst. cbn [fst snd] in *.
    destruct Hm as [Hm1 Hm2]. cbn [corners]. rewrite !map_app, !map_map.
    assert (Hlo : inb lo (lo, hi)) by (unfold inb; cbn; lra). assert (Hhi : inb hi (lo, hi)) by (unfold inb; cbn; lra).
    pose proof (IH (fun rest => f (lo :: rest)) th' Hw2 Hr (Hm2 lo Hlo)) as [L1 L2].
    pose proof (IH (fun rest => f (hi :: rest)) th' Hw2 Hr (Hm2 hi Hhi)) as [H1 H2].
    assert (Ne : map (fun x => f (lo :: x)) (corners RN r) ++ map (fun x => f (hi :: x)) (corners RN r) <> []).
    { intro E. apply app_eq_nil in E. destruct E as [E _]. apply map_eq_nil in E. exact (corners_ne r E). }
    assert (A1 : forall v, In v (map (fun x => f (lo :: x)) (corners RN r)) -> In v (map (fun x => f (lo :: x)) (corners RN r) ++ map (fun x => f (hi :: x)) (corners RN r))) by (intros; apply in_or_app; auto).
    assert (A2 : forall v, In v (map (fun x => f (hi :: x)) (corners RN r)) -> In v (map (fun x => f (lo :: x)) (corners RN r) ++ map (fun x => f (hi :: x)) (corners RN r))) by (intros; apply in_or_app; auto).
    assert (Nl : map (fun x => f (lo :: x)) (corners RN r) <> []) by (intro E; apply map_eq_nil in E; exact (corners_ne r E)).
    assert (Nh : map (fun x => f (hi :: x)) (corners RN r) <> []) by (intro E; apply map_eq_nil in E; exact (corners_ne r E)).
    (* the global min is below both partial minima, the global max above both partial maxima *)
    assert (M1 : minl RN (map (fun x => f (lo :: x)) (corners RN r) ++ map (fun x => f (hi :: x)) (corners RN r)) <= minl RN (map (fun x => f (lo :: x)) (corners RN r))) by (apply minl_le, A1, minl_in, Nl).
    assert (M2 : minl RN (map (fun x => f (lo :: x)) (corners RN r) ++ map (fun x => f (hi :: x)) (corners RN r)) <= minl RN (map (fun x => f (hi :: x)) (corners RN r))) by (apply minl_le, A2, minl_in, Nh).
    assert (X1 : maxl RN (map (fun x => f (lo :: x)) (corners RN r)) <= maxl RN (map (fun x => f (lo :: x)) (corners RN r) ++ map (fun x => f (hi :: x)) (corners RN r))) by (apply maxl_ge, A1, maxl_in, Nl).
    assert (X2 : maxl RN (map (fun x => f (hi :: x)) (corners RN r)) <= maxl RN (map (fun x => f (lo :: x)) (corners RN r) ++ map (fun x => f (hi :: x)) (corners RN r))) by (apply maxl_ge, A2, maxl_in, Nh).
    unfold inb in Ht; cbn [fst snd] in Ht.
    destruct (Hm1 th' Hr) as [Up|Down]; cbn [fst snd] in *.
    + pose proof (Up lo t ltac:(lra) ltac:(lra) ltac:(lra)) as U1. pose proof (Up t hi ltac:(lra) ltac:(lra) ltac:(lra)) as U2. cbn beta in *. split.
      * eapply Rle_trans; [exact M1|]. eapply Rle_trans; [exact L1|exact U1].
      * eapply Rle_trans; [exact U2|]. eapply Rle_trans; [exact H2|exact X2].
    + pose proof (Down lo t ltac:(lra) ltac:(lra) ltac:(lra)) as U1. pose proof (Down t hi ltac:(lra) ltac:(lra) ltac:(lra)) as U2. cbn beta in *. split.
      * eapply Rle_trans; [exact M2|]. eapply Rle_trans; [exact H1|exact U2].
      * eapply Rle_trans; [exact U1|]. eapply Rle_trans; [exact L2|exact X1].
Qed.

(* point-valued parameters: every corner is the parameter point itself, the bounds coincide with the family's function *)
Theorem point_box (f : list R -> R) (th : list R) :
  bound_lo RN f (map (fun t => (t, t)) th) = f th /\ bound_hi RN f (map (fun t => (t, t)) th) = f th.
Proof.
  assert (A : forall v, In v (map f (corners RN (map (fun t => (t, t)) th))) -> v = f th).
  { intros v Hv. apply in_map_iff in Hv. destruct Hv as (c & <- & Hc). f_equal. apply corner_in in Hc.
    clear - Hc. revert c Hc. induction th as [|t th IH]; intros c Hc; inversion Hc; subst; auto. cbn [fst snd] in *. f_equal; [tauto|auto]. }
  assert (Ne : map f (corners RN (map (fun t => (t, t)) th)) <> []) by (intro E; apply map_eq_nil in E; exact (corners_ne _ E)).
  unfold bound_lo, bound_hi. split; [apply A, minl_in, Ne|apply A, maxl_in, Ne].
Qed.

(* the whole p-box: at every probability level of the grid the member's quantile lies between the bounds *)
Theorem param_bounds_enclose (ppf : list R -> R -> R) (box : list (R * R)) (ps : list R) (th : list R) :
  Forall (fun i => fst i <= snd i) box -> Forall2 inb th box -> (forall p, In p ps -> coord_mono (fun t => ppf t p) box) ->
  Forall2 (fun lo q => lo <= q) (fst (param_bounds RN ppf box ps)) (map (ppf th) ps) /\
  Forall2 (fun q hi => q <= hi) (map (ppf th) ps) (snd (param_bounds RN ppf box ps)).
Proof.
  intros Hw Hin Hm. unfold param_bounds; cbn [fst snd]. induction ps as [|p ps IH]; cbn [map]; [split; constructor|].
  destruct IH as [I1 I2]; [intros; apply Hm; right; assumption|].
  pose proof (corner_enclosure box (fun t => ppf t p) th Hw Hin (Hm p (or_introl eq_refl))) as [A B]. split; constructor; auto.
Qed.

(* location-scale families (normal, Gumbel, logistic, Laplace, Rayleigh with loc, exponential with loc): Q(loc, scale; p) = loc + scale * z(p) *)
Theorem locscale_coord_mono (z : R) (box : list (R * R)) : length box = 2%nat ->
  coord_mono (fun th => nth 0 th 0 + nth 1 th 0 * z) box.
Proof.
  destruct box as [|i [|j [|k r]]]; cbn [length]; try lia. intros _. cbn [coord_mono nth]. split; [|intros t Ht; split; [|intros; exact I]].
  - intros rest Hr. left. intros a b _ Hab _. lra.
  - intros rest Hr. destruct (Rle_dec 0 z); [left|right]; intros a b _ Hab _; nra.
Qed.

(* numpy's column-wise reduction of the stacked corner arrays is the model's per-level reduction *)
Lemma map_nth_seq_gen2 {A} (g : R -> A) (ps : list R) : map (fun k => g (nth k ps 0)) (seq 0 (length ps)) = map g ps.
Proof. rewrite <- (map_map (fun k => nth k ps 0) g). f_equal. clear. induction ps as [|a l IH]; [reflexivity|]. cbn [length seq map nth]. f_equal. rewrite <- seq_shift, map_map. exact IH. Qed.
Theorem param_bounds_arrays (ppf : list R -> R -> R) (box : list (R * R)) (ps : list R) :
  let arrs := map (fun c => map (ppf c) ps) (corners RN box) in
  param_bounds RN ppf box ps = (reduce_cols RN (minl RN) arrs (length ps), reduce_cols RN (maxl RN) arrs (length ps)).
Proof.
  cbv zeta. unfold param_bounds, reduce_cols, bound_lo, bound_hi.
  assert (E : forall k, (k < length ps)%nat -> map (fun a => nth0 RN a k) (map (fun c => map (ppf c) ps) (corners RN box)) = map (fun th => ppf th (nth k ps 0)) (corners RN box)).
  { intros k Hk. rewrite map_map. apply map_ext. intros c. unfold nth0, nzero; cbn [nofZ RN T].
    rewrite (nth_indep _ 0 (ppf c 0)) by (rewrite map_length; exact Hk). apply map_nth. }
  f_equal.
  - etransitivity; [symmetry; apply (map_nth_seq_gen2 (fun p => minl RN (map (fun th => ppf th p) (corners RN box))) ps)|].
    apply map_ext_in. intros k Hk. apply in_seq in Hk. rewrite E by lia. reflexivity.
  - etransitivity; [symmetry; apply (map_nth_seq_gen2 (fun p => maxl RN (map (fun th => ppf th p) (corners RN box))) ps)|].
    apply map_ext_in. intros k Hk. apply in_seq in Hk. rewrite E by lia. reflexivity.
Qed.

(* the bespoke uniform constructor: at a fraction t of the way, endpoints inside the parameter intervals give a value between the bounds *)
Theorem uniform_between (al ar bl br a b t : R) : al <= a <= ar -> bl <= b <= br -> 0 <= t <= 1 ->
  al + t * (bl - al) <= a + t * (b - a) <= ar + t * (br - ar).
Proof. intros. split; nra. Qed.
