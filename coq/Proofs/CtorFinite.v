(* Over the reals every bound is finite: the constructor with the finiteness test is the constructor without it. *)
From Coq Require Import Reals Lra List Bool.
From PUN Require Import Base.Num Base.Sort Model.Interval Model.Pbox.
Import ListNotations.
Open Scope R_scope.

Lemma all_finite_R (l : list R) : all_finite RN l = true.
Proof.
  unfold all_finite. apply forallb_forall. intros x _. unfold is_finite_n, nzero. cbn [neqb nsub nofZ RN T].
  destruct (Reqb_spec (x - x) 0) as [_|H]; [reflexivity|]. exfalso; apply H; lra.
Qed.

Lemma mk_gen_core_R steps plo phi lists (l r : list R) :
  mk_staircase_gen RN steps plo phi lists l r = mk_staircase_core RN steps plo phi lists l r.
Proof.
  unfold mk_staircase_gen. destruct (mk_staircase_core RN steps plo phi lists l r) as [p| |]; cbn [rbind]; try reflexivity.
  rewrite !all_finite_R. reflexivity.
Qed.
