(* C20: hedged expressions and significant digits decode to intervals about the number (exact rationals). *)
From Coq Require Import ZArith QArith Qpower Qabs String List Bool Lia Lqa.
From PUN Require Import Gen.GenHedge Model.Hedge.
Import ListNotations.
Open Scope Q_scope.

Lemma p10_pos k : 0 < p10 k.
Proof. unfold p10. apply Qpower_0_lt. reflexivity. Qed.
Lemma p10_add a b : p10 (a + b) == p10 a * p10 b.
Proof. unfold p10. apply Qpower_plus. discriminate. Qed.
Lemma p10_succ k : p10 (k + 1) == 10 * p10 k.
Proof. rewrite p10_add. unfold p10 at 2. cbn. ring. Qed.

(* the translated table, entry by entry *)
Definition sym_hedge (kw : string) (c : Q) (s : Z) : Prop :=
  lookup_kw kw hedge_table = Some (BOff 1 (- c) s, BOff 1 c s) /\ 0 < c.
Lemma tab_exactly : sym_hedge "exactly" 1 1. Proof. split; reflexivity. Qed.
Lemma tab_about : sym_hedge "about" 2 0. Proof. split; reflexivity. Qed.
Lemma tab_around : sym_hedge "around" 10 0. Proof. split; reflexivity. Qed.

Definition offs (x : Q) (r : qext * qext) : option (Q * Q) :=
  match r with (QFin a, QFin b) => Some (a - x, b - x) | _ => None end.

(* symmetric hedges: value strictly inside, offsets -c*10^-(d+s), +c*10^-(d+s) *)
Theorem sym_hedge_spec kw c s n : sym_hedge kw c s ->
  exists lo hi, hedge kw n = Some (QFin lo, QFin hi) /\ lo < nvalue n /\ nvalue n < hi /\
                lo == nvalue n - c * p10 (- (decimal_place n + s)) /\ hi == nvalue n + c * p10 (- (decimal_place n + s)).
Proof.
  intros [E Hc]. unfold hedge. rewrite E. cbn [bound_val]. eexists; eexists. split; [reflexivity|].
  pose proof (p10_pos (- (decimal_place n + s))) as P.
  assert (0 < c * p10 (- (decimal_place n + s))) by (apply Qmult_lt_0_compat; assumption).
  change (inject_Z 1) with 1. repeat split; try lra; ring.
Qed.

(* exactly inside about inside around *)
Theorem hedge_order n :
  exists e1 e2 a1 a2 r1 r2, hedge "exactly" n = Some (QFin e1, QFin e2) /\ hedge "about" n = Some (QFin a1, QFin a2) /\
     hedge "around" n = Some (QFin r1, QFin r2) /\ r1 < a1 /\ a1 < e1 /\ e2 < a2 /\ a2 < r2.
Proof.
  destruct (sym_hedge_spec _ _ _ n tab_exactly) as (e1 & e2 & E1 & _ & _ & L1 & H1).
  destruct (sym_hedge_spec _ _ _ n tab_about) as (a1 & a2 & E2 & _ & _ & L2 & H2).
  destruct (sym_hedge_spec _ _ _ n tab_around) as (r1 & r2 & E3 & _ & _ & L3 & H3).
  exists e1, e2, a1, a2, r1, r2. repeat split; auto.
  all: set (d := decimal_place n) in *; pose proof (p10_pos (- (d + 0))) as P0; pose proof (p10_succ (- (d + 1))) as S.
  all: replace (- (d + 1) + 1)%Z with (- (d + 0))%Z in S by lia; pose proof (p10_pos (- (d + 1))) as P1.
  all: lra.
Qed.

(* one-sided hedges have the number as an endpoint *)
Theorem one_sided n :
  (exists lo, hedge "almost" n = Some (QFin lo, QFin (1 * nvalue n + 0 * p10 (- (decimal_place n + 0)))) /\ lo < nvalue n) /\
  (exists lo, hedge "below" n = Some (QFin lo, QFin (1 * nvalue n + 0 * p10 (- (decimal_place n + 0)))) /\ lo < nvalue n) /\
  (exists hi, hedge "over" n = Some (QFin (1 * nvalue n + 0 * p10 (- (decimal_place n + 0))), QFin hi) /\ nvalue n < hi) /\
  (exists hi, hedge "above" n = Some (QFin (1 * nvalue n + 0 * p10 (- (decimal_place n + 0))), QFin hi) /\ nvalue n < hi) /\
  hedge "at most" n = Some (QNInf, QFin (1 * nvalue n + 0 * p10 (- (decimal_place n + 0)))) /\
  hedge "at least" n = Some (QFin (1 * nvalue n + 0 * p10 (- (decimal_place n + 0))), QPInf).
Proof.
  pose proof (p10_pos (- (decimal_place n + 0))) as P.
  split; [|split; [|split; [|split; [|split]]]]; try reflexivity.
  all: eexists; split; [reflexivity|]; change (inject_Z 1) with 1; lra.
Qed.

Definition negate (n : numeral) : numeral := mkNum (negb (nneg n)) (nmant n) (nfrac n) (nexp n).
Lemma decimal_place_negate n : decimal_place (negate n) = decimal_place n.
Proof. reflexivity. Qed.

(* a direct formulation: offsets as a function of the table entry and the decimal place only *)
Theorem offsets_depend_on_place_only kw n m lo hi lo' hi' :
  decimal_place n = decimal_place m ->
  lookup_kw kw hedge_table = Some (BOff 1 lo 0, BOff 1 hi 0) \/ lookup_kw kw hedge_table = Some (BOff 1 lo 1, BOff 1 hi 1) ->
  hedge kw n = Some (QFin lo', QFin hi') ->
  exists lo2 hi2, hedge kw m = Some (QFin lo2, QFin hi2) /\ lo2 - nvalue m == lo' - nvalue n /\ hi2 - nvalue m == hi' - nvalue n.
Proof.
  intros Hd [E|E]; unfold hedge; rewrite E, Hd; cbn [bound_val]; intros A; inversion A; subst; eexists; eexists; (split; [reflexivity|]);
    split; cbn [inject_Z]; ring.
Qed.
(* shifting the decimal point by k places scales the number and the offsets by 10^k *)
Definition shift10 (k : Z) (n : numeral) : numeral := mkNum (nneg n) (nmant n) (nfrac n) (nexp n + k).
Lemma nvalue_shift k n : nvalue (shift10 k n) == p10 k * nvalue n.
Proof.
  assert (F : frac_digits (shift10 k n) = frac_digits n) by reflexivity.
  unfold nvalue. rewrite F. cbn [shift10 nneg nmant nexp].
  replace (nexp n + k - frac_digits n)%Z with (k + (nexp n - frac_digits n))%Z by lia.
  pose proof (p10_add k (nexp n - frac_digits n)) as E.
  set (a := p10 (k + (nexp n - frac_digits n))) in *. set (b := p10 k) in *. set (c := p10 (nexp n - frac_digits n)) in *. clearbody a b c.
  setoid_replace a with (b * c) by exact E. ring. Qed.
Lemma place_shift k n : decimal_place (shift10 k n) = (decimal_place n - k)%Z.
Proof. unfold decimal_place, shift10; cbn. unfold frac_digits; cbn. lia. Qed.
Theorem pow10_equivariant kw k n c1 c2 s :
  lookup_kw kw hedge_table = Some (BOff 1 c1 s, BOff 1 c2 s) ->
  exists lo hi lo' hi', hedge kw n = Some (QFin lo, QFin hi) /\ hedge kw (shift10 k n) = Some (QFin lo', QFin hi') /\
                        lo' == p10 k * lo /\ hi' == p10 k * hi.
Proof.
  intros E. unfold hedge. rewrite E. cbn [bound_val]. do 4 eexists. split; [reflexivity|]. split; [reflexivity|].
  rewrite place_shift. replace (- (decimal_place n - k + s))%Z with (k + - (decimal_place n + s))%Z by lia.
  pose proof (p10_add k (- (decimal_place n + s))) as E2. pose proof (nvalue_shift k n) as V.
  set (a := p10 (k + - (decimal_place n + s))) in *. set (b := p10 k) in *. set (c := p10 (- (decimal_place n + s))) in *.
  set (x := nvalue n) in *. set (y := nvalue (shift10 k n)) in *. change (inject_Z 1) with 1. clearbody a b c x y.
  split; setoid_replace a with (b * c) by exact E2; setoid_replace y with (b * x) by exact V; ring.
Qed.

(* significant digits: the interval is the number plus or minus half a unit of its last significant written digit *)
Theorem sg_half_unit n : let u := p10 (nexp n - sg_j n) in
  fst (sgnumber n) == nvalue n - u / 2 /\ snd (sgnumber n) == nvalue n + u / 2 /\ fst (sgnumber n) < nvalue n /\ nvalue n < snd (sgnumber n).
Proof.
  cbv zeta. unfold sgnumber. cbn [fst snd]. replace (nexp n - sg_j n)%Z with (- sg_j n + nexp n)%Z by lia.
  pose proof (p10_add (- sg_j n) (nexp n)) as E. pose proof (p10_pos (- sg_j n)). pose proof (p10_pos (nexp n)).
  assert (0 < p10 (- sg_j n) * p10 (nexp n)) by (apply Qmult_lt_0_compat; assumption).
  set (a := p10 (- sg_j n + nexp n)) in *. set (bc := p10 (- sg_j n) * p10 (nexp n)) in *. set (x := nvalue n). clearbody a bc x.
  unfold Qdiv. change (/ 2) with (1 # 2). repeat split; lra.
Qed.
