(* Well-formed p-boxes over the reals and the Staircase constructor on inputs of the configured length. *)
From Coq Require Import Reals Lra List Arith Lia Bool Permutation Sorted.
From PUN Require Import Base.Num Base.Sort Model.Interval Model.Pbox Proofs.ListR.
From PUN Require Import Proofs.CtorFinite.
Import ListNotations.
Open Scope R_scope.

Definition ple (l r : list R) : Prop := Forall2 Rle l r.     (* pointwise l <= r, equal lengths *)

Record WF (n : nat) (p : list R * list R) : Prop := {
  wf_lenL : length (fst p) = n; wf_lenR : length (snd p) = n;
  wf_sL : Rsorted (fst p); wf_sR : Rsorted (snd p); wf_le : ple (fst p) (snd p) }.

Lemma ple_length l r : ple l r -> length l = length r.
Proof. induction 1; cbn; auto. Qed.
Lemma ple_nth l r : ple l r -> forall i, (i < length l)%nat -> nth i l 0 <= nth i r 0.
Proof. induction 1; intros [|i] Hi; cbn in *; try lia; auto. apply IHForall2; lia. Qed.
Lemma nth_ple l r : length l = length r -> (forall i, (i < length l)%nat -> nth i l 0 <= nth i r 0) -> ple l r.
Proof. revert r; induction l as [|a l IH]; intros [|b r] Hl H; cbn in *; try lia; constructor.
  - apply (H 0%nat); lia. - apply IH; [lia|]. intros i Hi. apply (H (S i)); lia. Qed.
Lemma ple_refl l : ple l l.
Proof. induction l; constructor; auto; lra. Qed.
Lemma ple_antisym l r : ple l r -> ple r l -> l = r.
Proof. induction 1; intros H2; inversion H2; subst; auto. f_equal; [lra|auto]. Qed.
Lemma ple_rev l r : ple l r -> ple (rev l) (rev r).
Proof. induction 1; cbn; [constructor|]. apply Forall2_app; auto. Qed.
Lemma ple_map2 (f g : R -> R) l r : (forall a b, a <= b -> f a <= g b) -> ple l r -> ple (map f l) (map g r).
Proof. intros H. induction 1; cbn; constructor; auto. Qed.

Lemma ple_map_anti (g : R -> R) l r : (forall a b, a <= b -> g b <= g a) -> ple l r -> ple (map g r) (map g l).
Proof. intros H. induction 1; cbn; constructor; auto. Qed.

Lemma is_increasing_sorted (l : list R) : Rsorted l -> is_increasing RN l = true.
Proof. induction 1 as [|a l Hs IH Hall]; [reflexivity|]. destruct l as [|b l]; [reflexivity|].
  change (is_increasing RN (a :: b :: l)) with (Rleb 0 (b - a) && is_increasing RN (b :: l)).
  rewrite IH, andb_true_r. inversion Hall as [|? ? Hab ?]; subst. apply Rleb_true in Hab. apply Rleb_true. lra. Qed.
Lemma all_ge_cons a l b r : all_ge RN (a :: l) (b :: r) = Rleb b a && all_ge RN l r.
Proof. reflexivity. Qed.
Lemma all_ge_ple (l r : list R) : ple r l -> all_ge RN l r = true.
Proof. induction 1 as [|b a r l Hab H IH]; [reflexivity|]. rewrite all_ge_cons, IH, andb_true_r. apply Rleb_true; assumption. Qed.
Lemma all_ge_true_ple (l r : list R) : length l = length r -> all_ge RN l r = true -> ple r l.
Proof. revert r; induction l as [|a l IH]; intros [|b r] Hl H; cbn [length] in Hl; try lia; constructor;
  rewrite all_ge_cons in H; apply andb_true_iff in H.
  - apply Rleb_true, H. - apply IH; [lia|apply H]. Qed.
Lemma lex_ge_cons a l b r : lex_ge RN (a :: l) (b :: r) = if Reqb a b then lex_ge RN l r else Rleb b a.
Proof. reflexivity. Qed.
Lemma lex_ge_ple (l r : list R) : ple r l -> lex_ge RN l r = true.
Proof. induction 1 as [|b a r l Hab H IH]; [reflexivity|]. rewrite lex_ge_cons. destruct (Reqb_spec a b); auto. apply Rleb_true; assumption. Qed.
Lemma lex_ge_true_le (l r : list R) : ple l r -> lex_ge RN l r = true -> l = r.
Proof. induction 1 as [|a b l r Hab H IH]; [reflexivity|]. rewrite lex_ge_cons. destruct (Reqb_spec a b) as [->|Hne].
  - intros E; f_equal; auto. - intros E. apply Rleb_true in E. lra. Qed.

Section Mk.
Variable steps : nat.
Variables plo phi : R.
Notation mkg := (mk_staircase_gen RN steps plo phi).

Lemma bound_steps_id (l : list R) : length l = steps -> bound_steps_check RN steps plo phi l = l.
Proof. intros H. unfold bound_steps_check. cbn [T RN]. rewrite H, Nat.ltb_irrefl. reflexivity. Qed.

Lemma crosses_false_ple (l r : list R) : length l = length r -> (crosses RN l r = false <-> ple l r).
Proof.
  unfold crosses. revert r; induction l as [|a l IH]; intros [|b r] Hl; cbn in Hl; try lia; cbn [combine existsb fst snd].
  - split; [constructor|reflexivity].
  - rewrite orb_false_iff, IH by lia. cbn [nltb RN]. split.
    + intros [H1 H2]. constructor; auto. unfold Rltb in H1. destruct (Rlt_dec b a); [discriminate|lra].
    + intros H; inversion H; subst. split; auto. unfold Rltb. destruct (Rlt_dec b a); [lra|reflexivity].
Qed.
Lemma mk_plain b (l r : list R) : length l = steps -> length r = steps -> Rsorted l -> Rsorted r ->
  ple (fst (left_right_switch RN b l r)) (snd (left_right_switch RN b l r)) ->
  mkg b l r = Ok (fst (left_right_switch RN b l r), snd (left_right_switch RN b l r)).
Proof.
  intros Hl Hr Sl Sr. rewrite mk_gen_core_R; unfold mk_staircase_core. destruct (left_right_switch RN b l r) as [l' r'] eqn:E. cbn [fst snd]. intros Hle.
  assert (H : (l' = l /\ r' = r) \/ (l' = r /\ r' = l)).
  { unfold left_right_switch in E. destruct (if b then _ else _); inversion E; auto. }
  assert (Hl' : length l' = steps) by (destruct H as [[-> ->]|[-> ->]]; auto).
  assert (Hr' : length r' = steps) by (destruct H as [[-> ->]|[-> ->]]; auto).
  rewrite !bound_steps_id by assumption. cbn [T RN] in *. rewrite Hl', Hr', Nat.eqb_refl. cbn [negb].
  rewrite (proj2 (crosses_false_ple l' r' ltac:(lia)) Hle).
  rewrite !is_increasing_sorted; [reflexivity| |]; destruct H as [[-> ->]|[-> ->]]; auto.
Qed.
(* bounds given in the right order: the (whole-array or lexicographic) switch cannot change them *)
Lemma mk_ordered b (l r : list R) : length l = steps -> length r = steps -> Rsorted l -> Rsorted r -> ple l r ->
  mkg b l r = Ok (l, r).
Proof.
  intros Hl Hr Sl Sr Hle.
  assert (E : left_right_switch RN b l r = (l, r)).
  { unfold left_right_switch. destruct b.
    - destruct (lex_ge RN l r) eqn:E; [|reflexivity]. rewrite (lex_ge_true_le l r Hle E). reflexivity.
    - destruct (all_ge RN l r) eqn:E; [|reflexivity].
      assert (l = r) by (apply ple_antisym; auto; apply all_ge_true_ple; auto; lia). subst; reflexivity. }
  rewrite mk_plain by (try assumption; rewrite E; exact Hle). rewrite E. reflexivity.
Qed.
(* bounds given in the inverted order everywhere: the switch fires *)
Lemma mk_reversed b (l r : list R) : length l = steps -> length r = steps -> Rsorted l -> Rsorted r -> ple r l ->
  mkg b l r = Ok (r, l).
Proof.
  intros Hl Hr Sl Sr Hle.
  assert (E : left_right_switch RN b l r = (r, l)).
  { unfold left_right_switch. destruct b; [rewrite (lex_ge_ple l r Hle)|rewrite (all_ge_ple l r Hle)]; reflexivity. }
  rewrite mk_plain by (try assumption; rewrite E; exact Hle). rewrite E. reflexivity.
Qed.
End Mk.

(* ---------- sorting the image of a sorted list under a monotone map ---------- *)
Lemma map_mono_sorted (f : R -> R) l : (forall a b, a <= b -> f a <= f b) -> Rsorted l -> Rsorted (map f l).
Proof. intros Hf Hs. apply nth_Rsorted. intros i j Hij. rewrite map_length in Hij.
  rewrite !(nth_indep (map f l) 0 (f 0)) by (rewrite map_length; lia). rewrite !map_nth. apply Hf, Rsorted_nth; auto. Qed.
Lemma rev_sorted_anti l : Rsorted l -> forall i j, (i <= j < length l)%nat -> nth j (rev l) 0 <= nth i (rev l) 0.
Proof. intros Hs i j Hij. rewrite !rev_nth by lia. apply Rsorted_nth; auto. lia. Qed.
Lemma map_anti_rev_sorted (f : R -> R) l : (forall a b, a <= b -> f b <= f a) -> Rsorted l -> Rsorted (map f (rev l)).
Proof. intros Hf Hs. apply nth_Rsorted. intros i j Hij. rewrite map_length, rev_length in Hij.
  rewrite !(nth_indep (map f (rev l)) 0 (f 0)) by (rewrite map_length, rev_length; lia). rewrite !map_nth.
  apply Hf, rev_sorted_anti; auto. Qed.
Lemma Rsort_map_mono (f : R -> R) l : (forall a b, a <= b -> f a <= f b) -> Rsorted l -> Rsort (map f l) = map f l.
Proof. intros. apply Rsort_id, map_mono_sorted; auto. Qed.
Lemma Rsort_map_anti (f : R -> R) l : (forall a b, a <= b -> f b <= f a) -> Rsorted l -> Rsort (map f l) = map f (rev l).
Proof. intros Hf Hs. rewrite (Rsort_of_perm (map f l) (map f (rev l))).
  - apply Rsort_id, map_anti_rev_sorted; auto. - apply Permutation_map, Permutation_rev. Qed.
