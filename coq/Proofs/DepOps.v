(* C03: perfect / opposite / independent p-box arithmetic = bounds of the combined random set. *)
From Coq Require Import Reals Lra List Arith Lia Bool Permutation.
From PUN Require Import Base.Num Base.Sort Model.Interval Model.Pbox Proofs.Hull Proofs.ListR Proofs.IntervalOps.
Import ListNotations.
Open Scope R_scope.

(* the exact interval combination of two steps (C01) *)
Definition istep (op : R -> R -> R) (a b : R * R) : R * R := corner_hull op a b.
Definition steps_of (L R' : list R) : list (R * R) := combine L R'.

Lemma nmin3_min4 a b c d : @nmin RN (@nmin RN (@nmin RN a b) c) d = min4 a b c d.
Proof. rewrite !nmin_R. unfold min4, Rmin. repeat destruct (Rle_dec _ _); lra. Qed.
Lemma nmax3_max4 a b c d : @nmax RN (@nmax RN (@nmax RN a b) c) d = max4 a b c d.
Proof. rewrite !nmax_R. unfold max4, Rmax. repeat destruct (Rle_dec _ _); lra. Qed.

Lemma combine_app_eq {A B} (l1 l2 : list A) (l1' l2' : list B) : length l1 = length l1' ->
  combine (l1 ++ l2) (l1' ++ l2') = combine l1 l1' ++ combine l2 l2'.
Proof. revert l1'; induction l1 as [|a l1 IH]; intros [|b l1'] H; cbn in *; try lia; auto. f_equal; apply IH; lia. Qed.

Lemma combine_rev {A B} (l : list A) : forall l' : list B, length l = length l' -> combine (rev l) (rev l') = rev (combine l l').
Proof. induction l as [|a l IH]; intros [|b l'] Hl; cbn in *; try lia; [reflexivity|].
  rewrite combine_app_eq by (rewrite !rev_length; lia). rewrite IH by lia. reflexivity. Qed.

(* elementwise combination: the four corner arrays reduce to the hull of each step pair *)
Lemma min4l_map2 (op : R -> R -> R) : forall XL XR YL YR : list R,
  length XR = length XL -> length YL = length XL -> length YR = length XL ->
  min4l RN (map2 op XL YL) (map2 op XL YR) (map2 op XR YL) (map2 op XR YR)
  = map fst (map2 (istep op) (combine XL XR) (combine YL YR)).
Proof.
  unfold min4l, map4.
  induction XL as [|xl XL IH]; intros [|xr XR] [|yl YL] [|yr YR] H1 H2 H3; cbn in H1, H2, H3; try lia; [reflexivity|].
  cbn [map2 combine map]. f_equal.
  - unfold istep, corner_hull; cbn [fst snd]. apply nmin3_min4.
  - apply IH; lia.
Qed.
Lemma max4l_map2 (op : R -> R -> R) : forall XL XR YL YR : list R,
  length XR = length XL -> length YL = length XL -> length YR = length XL ->
  max4l RN (map2 op XL YL) (map2 op XL YR) (map2 op XR YL) (map2 op XR YR)
  = map snd (map2 (istep op) (combine XL XR) (combine YL YR)).
Proof.
  unfold max4l, map4.
  induction XL as [|xl XL IH]; intros [|xr XR] [|yl YL] [|yr YR] H1 H2 H3; cbn in H1, H2, H3; try lia; [reflexivity|].
  cbn [map2 combine map]. f_equal.
  - unfold istep, corner_hull; cbn [fst snd]. apply nmax3_max4.
  - apply IH; lia.
Qed.
Lemma corners_map2 (op : R -> R -> R) (XL XR YL YR : list R) :
  length XR = length XL -> length YL = length XL -> length YR = length XL ->
  corners RN map2 op XL XR YL YR =
  (map fst (map2 (istep op) (combine XL XR) (combine YL YR)), map snd (map2 (istep op) (combine XL XR) (combine YL YR))).
Proof. intros. unfold corners. rewrite min4l_map2, max4l_map2 by assumption. reflexivity. Qed.

Theorem perfect_op_spec (op : R -> R -> R) (XL XR YL YR : list R) :
  length XR = length XL -> length YL = length XL -> length YR = length XL ->
  perfect_op RN op XL XR YL YR =
  (Rsort (map fst (map2 (istep op) (combine XL XR) (combine YL YR))),
   Rsort (map snd (map2 (istep op) (combine XL XR) (combine YL YR)))).
Proof. intros. unfold perfect_op. rewrite corners_map2 by assumption. reflexivity. Qed.

Theorem opposite_op_spec (op : R -> R -> R) (XL XR YL YR : list R) :
  length XR = length XL -> length YL = length XL -> length YR = length XL ->
  opposite_op RN op XL XR YL YR =
  (Rsort (map fst (map2 (istep op) (combine XL XR) (rev (combine YL YR)))),
   Rsort (map snd (map2 (istep op) (combine XL XR) (rev (combine YL YR))))).
Proof.
  intros H1 H2 H3. unfold opposite_op. cbn [T RN]. rewrite corners_map2 by (rewrite ?rev_length; assumption).
  rewrite combine_rev by lia. reflexivity.
Qed.

(* ---------- independence: all n*n pairs of steps ---------- *)
Lemma map2_app {A B C} (f : A -> B -> C) (a1 a2 : list A) (b1 b2 : list B) : length a1 = length b1 ->
  map2 f (a1 ++ a2) (b1 ++ b2) = map2 f a1 b1 ++ map2 f a2 b2.
Proof. revert b1; induction a1 as [|x a1 IH]; intros [|y b1] H; cbn in *; try lia; auto. f_equal; apply IH; lia. Qed.
Lemma map4_app (f : R -> R -> R -> R -> R) (a1 a2 b1 b2 c1 c2 d1 d2 : list R) :
  length b1 = length a1 -> length c1 = length a1 -> length d1 = length a1 ->
  map4 RN f (a1 ++ a2) (b1 ++ b2) (c1 ++ c2) (d1 ++ d2) = map4 RN f a1 b1 c1 d1 ++ map4 RN f a2 b2 c2 d2.
Proof. intros. unfold map4. cbn [T RN]. rewrite !combine_app_eq by lia. apply map2_app. rewrite !combine_length. lia. Qed.

Lemma min4l_row (op : R -> R -> R) xl xr : forall YL YR : list R, length YR = length YL ->
  min4l RN (map (op xl) YL) (map (op xl) YR) (map (op xr) YL) (map (op xr) YR)
  = map fst (map (istep op (xl, xr)) (combine YL YR)).
Proof. unfold min4l, map4. induction YL as [|yl YL IH]; intros [|yr YR] H; cbn in H; try lia; [reflexivity|].
  cbn [map combine map2]. f_equal; [unfold istep, corner_hull; cbn [fst snd]; apply nmin3_min4 | apply IH; lia]. Qed.
Lemma max4l_row (op : R -> R -> R) xl xr : forall YL YR : list R, length YR = length YL ->
  max4l RN (map (op xl) YL) (map (op xl) YR) (map (op xr) YL) (map (op xr) YR)
  = map snd (map (istep op (xl, xr)) (combine YL YR)).
Proof. unfold max4l, map4. induction YL as [|yl YL IH]; intros [|yr YR] H; cbn in H; try lia; [reflexivity|].
  cbn [map combine map2]. f_equal; [unfold istep, corner_hull; cbn [fst snd]; apply nmax3_max4 | apply IH; lia]. Qed.

Definition all_pairs (op : R -> R -> R) (X Y : list (R * R)) : list (R * R) := flat_map (fun a => map (istep op a) Y) X.

Lemma corners_cart (op : R -> R -> R) (YL YR : list R) : length YR = length YL -> forall XL XR : list R, length XR = length XL ->
  corners RN (cart RN) op XL XR YL YR =
  (map fst (all_pairs op (combine XL XR) (combine YL YR)), map snd (all_pairs op (combine XL XR) (combine YL YR))).
Proof.
  intros HY. unfold corners, all_pairs, cart. cbn [T RN].
  induction XL as [|xl XL IH]; intros [|xr XR] H; cbn in H; try lia; [reflexivity|].
  cbn [flat_map combine]. specialize (IH XR ltac:(lia)). injection IH as IH1 IH2.
  unfold min4l, max4l in *. cbn [T RN] in *. rewrite !map4_app by (rewrite !map_length; lia).
  rewrite IH1, IH2. rewrite !map_app.
  pose proof (min4l_row op xl xr YL YR HY) as M1. pose proof (max4l_row op xl xr YL YR HY) as M2.
  unfold min4l, max4l in M1, M2. cbn [T RN] in M1, M2. rewrite M1, M2. reflexivity.
Qed.

Theorem independent_op_spec (op : R -> R -> R) (XL XR YL YR : list R) :
  length XR = length XL -> length YR = length YL ->
  independent_op RN op XL XR YL YR =
  (Rsort (map fst (all_pairs op (combine XL XR) (combine YL YR))),
   Rsort (map snd (all_pairs op (combine XL XR) (combine YL YR)))).
Proof. intros. unfold independent_op. rewrite corners_cart by assumption. reflexivity. Qed.

(* condensation of the n*n sorted values back to n steps picks index k(n+1), inside the k-th block of n *)
Lemma cond_index_nat len number i : cond_index len number i = if Nat.eqb number 1 then 0%nat else ((i * (len - 1)) / (number - 1))%nat.
Proof. unfold cond_index. destruct (Nat.eqb number 1); [reflexivity|]. rewrite <- Nat2Z.inj_mul, <- Nat2Z.inj_div. apply Nat2Z.id. Qed.
Theorem indep_block n k : (1 < n)%nat -> (k < n)%nat ->
  cond_index (n * n) n k = (k * (n + 1))%nat /\ (k * n <= cond_index (n * n) n k <= k * n + (n - 1))%nat.
Proof.
  intros Hn Hk. rewrite cond_index_nat. destruct (Nat.eqb_spec n 1) as [->|_]; [lia|].
  assert (E : (n * n - 1 = (n + 1) * (n - 1))%nat) by nia.
  rewrite E, Nat.mul_assoc, Nat.div_mul by lia. split; [reflexivity|nia].
Qed.

(* ---------- addition of well-formed p-boxes: the sort is the identity, step k = X_k + Y_k ---------- *)
Lemma map2_add_sorted (A B : list R) : length A = length B -> Rsorted A -> Rsorted B -> Rsorted (map2 Rplus A B).
Proof.
  intros Hl HA HB. apply nth_Rsorted. intros i j Hij. rewrite map2_length in Hij.
  rewrite !(map2_nth Rplus A B 0 0 0) by lia.
  pose proof (Rsorted_nth A HA i j ltac:(lia)). pose proof (Rsorted_nth B HB i j ltac:(lia)). lra.
Qed.
Lemma map2_istep_add : forall XL XR YL YR : list R,
  length XR = length XL -> length YL = length XL -> length YR = length XL ->
  Forall wfp (combine XL XR) -> Forall wfp (combine YL YR) ->
  map fst (map2 (istep Rplus) (combine XL XR) (combine YL YR)) = map2 Rplus XL YL /\
  map snd (map2 (istep Rplus) (combine XL XR) (combine YL YR)) = map2 Rplus XR YR.
Proof.
  induction XL as [|xl XL IH]; intros [|xr XR] [|yl YL] [|yr YR] H1 H2 H3 W1 W2; cbn in H1, H2, H3; try lia; [split; reflexivity|].
  cbn [combine] in W1, W2. inversion W1 as [|? ? Wx Wxs]; inversion W2 as [|? ? Wy Wys]; subst. cbn [combine map2 map].
  destruct (IH XR YL YR ltac:(lia) ltac:(lia) ltac:(lia) Wxs Wys) as [E1 E2]. rewrite E1, E2.
  unfold istep. rewrite <- (add_hull (xl, xr) (yl, yr)) by assumption. cbn [fst snd]. split; reflexivity.
Qed.
Theorem perfect_add_steps (XL XR YL YR : list R) :
  length XR = length XL -> length YL = length XL -> length YR = length XL ->
  Rsorted XL -> Rsorted XR -> Rsorted YL -> Rsorted YR ->
  Forall wfp (combine XL XR) -> Forall wfp (combine YL YR) ->
  perfect_op RN Rplus XL XR YL YR = (map2 Rplus XL YL, map2 Rplus XR YR).
Proof.
  intros H1 H2 H3 S1 S2 S3 S4 W1 W2. rewrite perfect_op_spec by assumption.
  destruct (map2_istep_add XL XR YL YR H1 H2 H3 W1 W2) as [E1 E2]. rewrite E1, E2.
  rewrite !Rsort_id; [reflexivity| |]; apply map2_add_sorted; auto; lia.
Qed.

(* ---------- subtraction pairs the mirrored order: opposite(X, -Y) = perfect(X, stepwise -Y) ---------- *)
Theorem opposite_of_neg (op : R -> R -> R) (XL XR YL YR : list R) :
  length XR = length XL -> length YL = length XL -> length YR = length XL ->
  opposite_op RN op XL XR (map Ropp (rev YR)) (map Ropp (rev YL)) = perfect_op RN op XL XR (map Ropp YR) (map Ropp YL).
Proof.
  intros H1 H2 H3. unfold opposite_op, perfect_op. cbn [T RN].
  rewrite <- !map_rev, !rev_involutive. reflexivity.
Qed.
