(* Real-number facts about corner hulls of bilinear / quotient maps. *)
From Coq Require Import Reals Lra Psatz.
Open Scope R_scope.

Definition min4 (a b c d : R) := Rmin (Rmin a b) (Rmin c d).
Definition max4 (a b c d : R) := Rmax (Rmax a b) (Rmax c d).

Lemma min4_eq x a b c d :
  (x = a \/ x = b \/ x = c \/ x = d) -> x <= a -> x <= b -> x <= c -> x <= d -> min4 a b c d = x.
Proof. unfold min4, Rmin; intros; repeat destruct (Rle_dec _ _); lra. Qed.
Lemma max4_eq x a b c d :
  (x = a \/ x = b \/ x = c \/ x = d) -> a <= x -> b <= x -> c <= x -> d <= x -> max4 a b c d = x.
Proof. unfold max4, Rmax; intros; repeat destruct (Rle_dec _ _); lra. Qed.
Lemma min4_le a b c d : min4 a b c d <= a /\ min4 a b c d <= b /\ min4 a b c d <= c /\ min4 a b c d <= d.
Proof. unfold min4, Rmin; repeat destruct (Rle_dec _ _); lra. Qed.
Lemma max4_ge a b c d : a <= max4 a b c d /\ b <= max4 a b c d /\ c <= max4 a b c d /\ d <= max4 a b c d.
Proof. unfold max4, Rmax; repeat destruct (Rle_dec _ _); lra. Qed.
Lemma min4_in a b c d : let m := min4 a b c d in m = a \/ m = b \/ m = c \/ m = d.
Proof. unfold min4, Rmin; repeat destruct (Rle_dec _ _); lra. Qed.
Lemma max4_in a b c d : let m := max4 a b c d in m = a \/ m = b \/ m = c \/ m = d.
Proof. unfold max4, Rmax; repeat destruct (Rle_dec _ _); lra. Qed.

(* the corner hull of a product encloses every pointwise product *)
Lemma mul_corner_encl sl sh ol oh x y :
  sl <= x <= sh -> ol <= y <= oh ->
  min4 (sl*ol) (sl*oh) (sh*ol) (sh*oh) <= x*y <= max4 (sl*ol) (sl*oh) (sh*ol) (sh*oh).
Proof.
  intros Hx Hy.
  destruct (min4_le (sl*ol) (sl*oh) (sh*ol) (sh*oh)) as (A1 & A2 & A3 & A4).
  destruct (max4_ge (sl*ol) (sl*oh) (sh*ol) (sh*oh)) as (B1 & B2 & B3 & B4).
  (* x*y is a convex combination in x for fixed y, and in y for fixed x *)
  assert (Hlo : forall t, ol <= t <= oh -> min4 (sl*ol) (sl*oh) (sh*ol) (sh*oh) <= sl*t
                                         /\ min4 (sl*ol) (sl*oh) (sh*ol) (sh*oh) <= sh*t).
  { intros t Ht. destruct (Rle_dec 0 sl), (Rle_dec 0 sh); split; nra. }
  assert (Hhi : forall t, ol <= t <= oh -> sl*t <= max4 (sl*ol) (sl*oh) (sh*ol) (sh*oh)
                                         /\ sh*t <= max4 (sl*ol) (sl*oh) (sh*ol) (sh*oh)).
  { intros t Ht. destruct (Rle_dec 0 sl), (Rle_dec 0 sh); split; nra. }
  destruct (Hlo y Hy) as [L1 L2]. destruct (Hhi y Hy) as [H1 H2].
  destruct (Rle_dec 0 y); split; nra.
Qed.

(* quotient: corner hull encloses every pointwise quotient when the divisor has one sign *)
Lemma div_corner_encl sl sh ol oh x y :
  sl <= x <= sh -> ol <= y <= oh -> (0 < ol \/ oh < 0) ->
  min4 (sl/ol) (sl/oh) (sh/ol) (sh/oh) <= x/y <= max4 (sl/ol) (sl/oh) (sh/ol) (sh/oh).
Proof.
  intros Hx Hy Hs.
  assert (Hol : ol <> 0) by lra. assert (Hoh : oh <> 0) by lra. assert (Hy0 : y <> 0) by lra.
  assert (E : forall a b, b <> 0 -> a / b = a * / b) by (intros; reflexivity).
  rewrite !E by assumption.
  assert (Hiy : / oh <= / y <= / ol).
  { destruct Hs; split.
    - apply Rinv_le_contravar; lra. - apply Rinv_le_contravar; lra.
    - apply Ropp_le_cancel. rewrite <- !Rinv_opp. apply Rinv_le_contravar; lra.
    - apply Ropp_le_cancel. rewrite <- !Rinv_opp. apply Rinv_le_contravar; lra. }
  pose proof (mul_corner_encl sl sh (/oh) (/ol) x (/y) Hx Hiy) as H.
  unfold min4, max4 in *. 
  replace (Rmin (Rmin (sl * / ol) (sl * / oh)) (Rmin (sh * / ol) (sh * / oh)))
     with (Rmin (Rmin (sl * / oh) (sl * / ol)) (Rmin (sh * / oh) (sh * / ol)))
     by (rewrite (Rmin_comm (sl * / oh)), (Rmin_comm (sh * / oh)); reflexivity).
  replace (Rmax (Rmax (sl * / ol) (sl * / oh)) (Rmax (sh * / ol) (sh * / oh)))
     with (Rmax (Rmax (sl * / oh) (sl * / ol)) (Rmax (sh * / oh) (sh * / ol)))
     by (rewrite (Rmax_comm (sl * / oh)), (Rmax_comm (sh * / oh)); reflexivity).
  exact H.
Qed.
