(* Interval + - * / of number.py compute, element by element, the exact corner hull. *)
From Coq Require Import Reals Lra Psatz Bool ZArith List.
From PUN Require Import Base.Num Gen.GenArith Proofs.Hull Proofs.ArithTable Model.Interval.
Import ListNotations.
Open Scope R_scope.

Definition opR (op : bop) : R -> R -> R :=
  match op with Add => Rplus | Sub => Rminus | Mul => Rmult | Div => Rdiv end.
Definition corner_hull (f : R -> R -> R) (s o : R * R) : R * R :=
  (min4 (f (fst s) (fst o)) (f (fst s) (snd o)) (f (snd s) (fst o)) (f (snd s) (snd o)),
   max4 (f (fst s) (fst o)) (f (fst s) (snd o)) (f (snd s) (fst o)) (f (snd s) (snd o))).
Definition wfp (p : R * R) : Prop := fst p <= snd p.
Definition wf (i : ival RN) : Prop := Forall wfp (snd i).
Definition has0 (p : R * R) : Prop := fst p <= 0 <= snd p.
Definition is_div (op : bop) : bool := match op with Div => true | _ => false end.
Definition embed (c : shp R) : ival RN := (fst c, map (fun x => (x, x)) (snd c)).

(* the abstract law: zero in a divisor element => ZeroDivisionError, otherwise the corner hull,
   element by element under numpy broadcasting *)
Definition spec (mism : exn) (op : bop) (s o : ival RN) : res (ival RN) :=
  if is_div op && existsb (straddles0 RN) (snd o) then Raise ZeroDivision
  else bc2 mism (corner_hull (opR op)) s o.

Lemma straddles0_has0 p : straddles0 RN p = true <-> has0 p.
Proof. unfold straddles0, has0; cbn [nleb RN T]; unfold nzero; cbn [nofZ RN].
  rewrite andb_true_iff, !Rleb_true. tauto. Qed.

Lemma corner_hull_wf f s o : wfp (corner_hull f s o).
Proof. unfold wfp, corner_hull; cbn [fst snd].
  destruct (min4_le (f (fst s) (fst o)) (f (fst s) (snd o)) (f (snd s) (fst o)) (f (snd s) (snd o))) as (A & _).
  destruct (max4_ge (f (fst s) (fst o)) (f (fst s) (snd o)) (f (snd s) (fst o)) (f (snd s) (snd o))) as (B & _). lra. Qed.

Lemma finish_some2 z (l : list (R * R)) : Forall wfp l -> finish RN (Ok (z, map (some2 RN) l)) = Ok (z, l).
Proof.
  intros H. unfold finish, rbind; cbn [fst snd]; cbv zeta.
  assert (E1 : existsb (unassigned RN) (map (some2 RN) l) = false).
  { clear. induction l; cbn; auto. }
  rewrite E1.
  assert (E2 : map (getp RN) (map (some2 RN) l) = l).
  { clear. induction l as [|[a b] l IH]; cbn; auto. f_equal; auto. }
  rewrite E2.
  assert (E3 : forallb (ordered RN) l = true).
  { clear E1 E2. induction H; cbn [forallb]; auto. rewrite IHForall, andb_true_r. unfold ordered; cbn [nleb RN]. apply Rleb_true. unfold wfp in *; assumption. }
  rewrite E3. reflexivity.
Qed.

Lemma map2_ext_Forall {A B C} (f g : A -> B -> C) (P : A -> Prop) (Q : B -> Prop) la lb :
  (forall a b, P a -> Q b -> f a b = g a b) -> Forall P la -> Forall Q lb -> map2 f la lb = map2 g la lb.
Proof. intros H Ha. revert lb. induction Ha; intros lb Hb; destruct lb; cbn; auto.
  inversion Hb; subst. f_equal; auto. Qed.
Lemma map2_map {A B C D} (h : C -> D) (f : A -> B -> C) la lb : map2 (fun a b => h (f a b)) la lb = map h (map2 f la lb).
Proof. revert lb; induction la; intros [|b lb]; cbn; auto. f_equal; auto. Qed.
Lemma Forall_map2 {A B C} (R0 : C -> Prop) (f : A -> B -> C) la lb : (forall a b, R0 (f a b)) -> Forall R0 (map2 f la lb).
Proof. intros H. revert lb; induction la; intros [|b lb]; cbn; constructor; auto. Qed.

(* if every shape branch agrees with [some2 (g a b)] on admissible elements and g yields
   ordered pairs, the constructed Interval is the broadcast of g *)
Lemma finish_bc2_4 mism (fss fvv fsv fvs : R*R -> R*R -> option R * option R) (g : R*R -> R*R -> R*R)
      (P Q : R*R -> Prop) (s o : ival RN) :
  (forall a b, P a -> Q b -> fss a b = some2 RN (g a b) /\ fvv a b = some2 RN (g a b)
                          /\ fsv a b = some2 RN (g a b) /\ fvs a b = some2 RN (g a b)) ->
  (forall a b, wfp (g a b)) ->
  Forall P (snd s) -> Forall Q (snd o) ->
  finish RN (bc2_4 mism fss fvv fsv fvs s o) = bc2 mism g s o.
Proof.
  intros Hf Hg Hs Ho. destruct s as [zs ls], o as [zo lo]. cbn [snd] in *. unfold bc2, bc2_4.
  assert (Emap1 : forall x, P x -> forall l, Forall Q l -> map (fsv x) l = map (some2 RN) (map (g x) l)).
  { intros x Hx l Hl. induction Hl; cbn; auto. f_equal; auto. apply Hf; auto. }
  assert (Emap2 : forall y, Q y -> forall l, Forall P l -> map (fun x => fvs x y) l = map (some2 RN) (map (fun x => g x y) l)).
  { intros y Hy l Hl. induction Hl; cbn; auto. f_equal; auto. apply Hf; auto. }
  assert (Emap3 : forall la lb, Forall P la -> Forall Q lb -> map2 fvv la lb = map (some2 RN) (map2 g la lb)).
  { intros la lb Ha Hb. rewrite <- map2_map. apply (map2_ext_Forall _ _ P Q); auto. intros; apply Hf; auto. }
  assert (W1 : forall x l, Forall wfp (map (g x) l)) by (intros; apply Forall_forall; intros p Hp; apply in_map_iff in Hp; destruct Hp as (? & <- & _); auto).
  assert (W2 : forall y l, Forall wfp (map (fun x => g x y) l)) by (intros; apply Forall_forall; intros p Hp; apply in_map_iff in Hp; destruct Hp as (? & <- & _); auto).
  destruct ls as [|x [|x2 ls]]; destruct lo as [|y [|y2 lo]]; cbn [length Nat.eqb]; try reflexivity.
  - (* [x] [y] *) inversion Hs; inversion Ho; subst. destruct (Hf x y) as (E & _); auto. rewrite E.
    apply (finish_some2 _ [g x y]). constructor; [apply Hg | constructor].
  - (* [x] long *) rewrite Emap1; auto. apply finish_some2; auto. inversion Hs; auto.
  - (* long [y] *) rewrite Emap2; auto. apply finish_some2; auto. inversion Ho; auto.
  - (* long long *) destruct (Nat.eqb _ _); [|reflexivity].
    rewrite Emap3; auto. apply finish_some2. apply Forall_map2; auto.
Qed.

Lemma mul_eq_hull a b : wfp a -> wfp b ->
  app4 RN (mul_ss RN) a b = some2 RN (corner_hull Rmult a b) /\ app4 RN (mul_vv RN) a b = some2 RN (corner_hull Rmult a b)
  /\ app4 RN (mul_sv RN) a b = some2 RN (corner_hull Rmult a b) /\ app4 RN (mul_vs RN) a b = some2 RN (corner_hull Rmult a b).
Proof. intros Ha Hb. unfold app4, some2, corner_hull, wfp in *; cbn [fst snd].
  rewrite mul_ss_hull, mul_vv_hull, mul_sv_hull, mul_vs_hull by assumption. unfold mul_hull. auto. Qed.
Lemma div_eq_hull a b : wfp a -> wfp b /\ ~ has0 b ->
  app4 RN (div_ss RN) a b = some2 RN (corner_hull Rdiv a b) /\ app4 RN (div_vv RN) a b = some2 RN (corner_hull Rdiv a b)
  /\ app4 RN (div_sv RN) a b = some2 RN (corner_hull Rdiv a b) /\ app4 RN (div_vs RN) a b = some2 RN (corner_hull Rdiv a b).
Proof. intros Ha [Hb Hz]. unfold app4, some2, corner_hull, wfp, has0 in *; cbn [fst snd].
  assert (G : 0 < fst b \/ snd b < 0) by lra.
  rewrite div_ss_hull, div_vv_hull, div_sv_hull, div_vs_hull by assumption. unfold div_hull. auto. Qed.

Lemma existsb_false_Forall {A} (f : A -> bool) (P : A -> Prop) l :
  (forall a, f a = true <-> P a) -> existsb f l = false -> Forall (fun a => ~ P a) l.
Proof. intros H. induction l; cbn; intros E; constructor; apply orb_false_iff in E; destruct E as [E1 E2]; auto.
  intros Hp. apply H in Hp. congruence. Qed.
Lemma Forall_and {A} (P Q : A -> Prop) l : Forall P l -> Forall Q l -> Forall (fun a => P a /\ Q a) l.
Proof. induction 1; intros H2; inversion H2; subst; constructor; auto. Qed.

Definition mism_ii (op : bop) : exn := match op with Add | Sub => ValueErr | _ => OtherExn end.

Lemma add_hull s o : wfp s -> wfp o -> (fst s + fst o, snd s + snd o) = corner_hull Rplus s o.
Proof. unfold wfp, corner_hull; intros; cbn [fst snd]. f_equal; symmetry;
  [apply min4_eq | apply max4_eq]; try lra; auto. Qed.
Lemma sub_hull s o : wfp s -> wfp o -> (fst s - snd o, snd s - fst o) = corner_hull Rminus s o.
Proof. unfold wfp, corner_hull; intros; cbn [fst snd]. f_equal; symmetry;
  [apply min4_eq | apply max4_eq]; try lra; auto. Qed.

Theorem ii_exact op s o : wf s -> wf o -> ii RN op s o = spec (mism_ii op) op s o.
Proof.
  intros Hs Ho. unfold ii, spec. destruct op; cbn [is_div andb mism_ii opR].
  - apply (finish_bc2_4 _ _ _ _ _ _ wfp wfp); auto; [|intros; apply corner_hull_wf].
    intros a b Ha Hb. cbv beta; cbn [nadd RN T]. rewrite (add_hull a b Ha Hb). auto.
  - apply (finish_bc2_4 _ _ _ _ _ _ wfp wfp); auto; [|intros; apply corner_hull_wf].
    intros a b Ha Hb. cbv beta; cbn [nsub RN T]. rewrite (sub_hull a b Ha Hb). auto.
  - apply (finish_bc2_4 _ _ _ _ _ _ wfp wfp); auto; [|intros; apply corner_hull_wf].
    intros; apply mul_eq_hull; auto.
  - rewrite div_guard_present. cbn [andb]. destruct (existsb (straddles0 RN) (snd o)) eqn:E; [reflexivity|].
    apply (finish_bc2_4 _ _ _ _ _ _ wfp (fun b => wfp b /\ ~ has0 b)); auto; [|intros; apply corner_hull_wf|].
    + intros; apply div_eq_hull; auto.
    + apply Forall_and; auto. apply (existsb_false_Forall (straddles0 RN)); auto. apply straddles0_has0.
Qed.

(* ---------- number and ndarray operands: the number is the degenerate interval [c,c] ---------- *)
Lemma embed_wf c : wf (embed c).
Proof. unfold wf, embed; cbn [snd]. apply Forall_forall. intros p Hp. apply in_map_iff in Hp.
  destruct Hp as (x & <- & _). unfold wfp; cbn; lra. Qed.

Lemma bc2_embed_r {A C} mism (g : A -> R*R -> C) (f : A -> R -> C) (s : shp A) (c : shp R) :
  (forall a x, f a x = g a (x, x)) -> bc2 mism f s c = bc2 mism g s (embed c).
Proof.
  intros H. destruct s as [zs ls], c as [zc lc]. unfold bc2, bc2_4, embed; cbn [fst snd].
  assert (M1 : forall x l, map (f x) l = map (g x) (map (fun y => (y, y)) l)) by (intros; rewrite map_map; apply map_ext; auto).
  assert (M0 : forall y l, map (fun x => f x y) l = map (fun x => g x (y, y)) l) by (intros; apply map_ext; auto).
  assert (M2 : forall la lb, map2 f la lb = map2 g la (map (fun y => (y, y)) lb)).
  { induction la; intros [|b lb]; cbn; auto. f_equal; auto. }
  destruct ls as [|x [|x2 ls]]; destruct lc as [|y [|y2 lc]]; cbn [map length Nat.eqb]; rewrite ?map_length;
    rewrite ?H, ?M1, ?M0, ?M2; reflexivity.
Qed.
Lemma bc2_embed_l {B C} mism (g : R*R -> B -> C) (f : R -> B -> C) (c : shp R) (s : shp B) :
  (forall x b, f x b = g (x, x) b) -> bc2 mism f c s = bc2 mism g (embed c) s.
Proof.
  intros H. destruct s as [zs ls], c as [zc lc]. unfold bc2, bc2_4, embed; cbn [fst snd].
  assert (M1 : forall x l, map (f x) l = map (g (x, x)) l) by (intros; apply map_ext; auto).
  assert (M0 : forall y l, map (fun x => f x y) l = map (fun x => g x y) (map (fun y => (y, y)) l)) by (intros; rewrite map_map; apply map_ext; auto).
  assert (M2 : forall la lb, map2 f la lb = map2 g (map (fun y => (y, y)) la) lb).
  { induction la; intros [|b lb]; cbn; auto. f_equal; auto. }
  destruct lc as [|x [|x2 lc]]; destruct ls as [|y [|y2 ls]]; cbn [map length Nat.eqb]; rewrite ?map_length;
    rewrite ?H, ?M1, ?M0, ?M2; reflexivity.
Qed.

Lemma bc2_ext_Forall {A B C} mism (f g : A -> B -> C) (P : A -> Prop) (Q : B -> Prop) s o :
  (forall a b, P a -> Q b -> f a b = g a b) -> Forall P (snd s) -> Forall Q (snd o) -> bc2 mism f s o = bc2 mism g s o.
Proof.
  intros H Hs Ho. destruct s as [zs ls], o as [zo lo]; cbn [snd] in *. unfold bc2, bc2_4.
  destruct ls as [|x [|x2 ls]]; destruct lo as [|y [|y2 lo]]; auto;
    repeat match goal with H : Forall _ (_ :: _) |- _ => inversion H; clear H; subst end;
    cbn [length Nat.eqb]; try (destruct (Nat.eqb _ _); [|reflexivity]).
  all: try (f_equal; f_equal; apply (map2_ext_Forall _ _ P Q); auto; repeat constructor; auto).
  all: try (rewrite H by auto; reflexivity).
  all: try (f_equal; f_equal; cbn [map]; rewrite ?H by auto; f_equal; rewrite ?H by auto; f_equal;
            apply map_ext_in; intros p Hp; apply H; auto;
            match goal with Hf : Forall _ ?l |- _ => rewrite Forall_forall in Hf; apply Hf; exact Hp end).
Qed.

Lemma finish_bc2 mism (f : R*R -> R*R -> option R * option R) g (P Q : R*R -> Prop) s o :
  (forall a b, P a -> Q b -> f a b = some2 RN (g a b)) -> (forall a b, wfp (g a b)) ->
  Forall P (snd s) -> Forall Q (snd o) -> finish RN (bc2 mism f s o) = bc2 mism g s o.
Proof. intros. apply (finish_bc2_4 _ _ _ _ _ _ P Q); auto. Qed.

Lemma existsb_embed (lc : list R) :
  existsb (fun c => neqb RN c nzero) lc = existsb (straddles0 RN) (map (fun x => (x, x)) lc).
Proof. induction lc as [|c lc IH]; cbn [existsb map]; auto. rewrite IH. f_equal.
  unfold straddles0, nzero; cbn [neqb nleb nofZ RN T fst snd].
  destruct (Reqb_spec c 0), (Rleb_spec c 0), (Rleb_spec 0 c); cbn; auto; lra. Qed.

Theorem in_exact op s c : wf s -> in_ RN op s c = spec ValueErr op s (embed c).
Proof.
  intros Hs. pose proof (embed_wf c) as Hc. unfold in_, spec. destruct op; cbn [is_div andb opR].
  - rewrite (bc2_embed_r _ (fun a b => some2 RN (fst a + fst b, snd a + snd b)) _ s c) by reflexivity.
    apply (finish_bc2 _ _ _ wfp wfp); auto; [|intros; apply corner_hull_wf].
    intros a b Ha Hb. cbv beta; cbn [nadd RN T]. rewrite (add_hull a b Ha Hb). auto.
  - rewrite (bc2_embed_r _ (fun a b => some2 RN (fst a - snd b, snd a - fst b)) _ s c) by reflexivity.
    apply (finish_bc2 _ _ _ wfp wfp); auto; [|intros; apply corner_hull_wf].
    intros a b Ha Hb. cbv beta; cbn [nsub RN T]. rewrite (sub_hull a b Ha Hb). auto.
  - rewrite (bc2_embed_r _ (fun a b => some2 RN (if nleb RN nzero (fst b) then (nmul RN (fst a) (fst b), nmul RN (snd a) (fst b)) else (nmul RN (snd a) (fst b), nmul RN (fst a) (fst b)))) _ s c) by reflexivity.
    apply (finish_bc2 _ _ _ wfp (fun b => fst b = snd b)); auto; [|intros; apply corner_hull_wf|].
    + intros a b Ha Hb. f_equal. unfold corner_hull, wfp, nzero in *; cbn [nleb nmul nofZ RN T]. rewrite <- Hb.
      destruct (Rleb_spec 0 (fst b)); f_equal; symmetry; (apply min4_eq || apply max4_eq); try nra; auto 6.
    + unfold embed; cbn [snd]. apply Forall_forall; intros p Hp; apply in_map_iff in Hp; destruct Hp as (x & <- & _); reflexivity.
  - rewrite existsb_embed. change (map (fun x => (x, x)) (snd c)) with (snd (embed c)).
    destruct (existsb (straddles0 RN) (snd (embed c))) eqn:E; [reflexivity|].
    rewrite (bc2_embed_r _ (fun a b => some2 RN (if nltb RN nzero (fst b) then (ndiv RN (fst a) (fst b), ndiv RN (snd a) (fst b)) else (ndiv RN (snd a) (fst b), ndiv RN (fst a) (fst b)))) _ s c) by reflexivity.
    apply (finish_bc2 _ _ _ wfp (fun b => fst b = snd b /\ ~ has0 b)); auto; [|intros; apply corner_hull_wf|].
    + intros a b Ha [Hb Hz]. f_equal. unfold corner_hull, wfp, has0, nzero in *; cbn [nltb ndiv nofZ RN T]. rewrite <- Hb in *.
      unfold Rdiv.
      destruct (Rltb_spec 0 (fst b)).
      * assert (0 < / fst b) by (apply Rinv_0_lt_compat; lra). set (ib := / fst b) in *; clearbody ib.
        f_equal; symmetry; (apply min4_eq || apply max4_eq); try nra; auto 6.
      * assert (/ fst b < 0) by (apply Rinv_lt_0_compat; lra). set (ib := / fst b) in *; clearbody ib.
        f_equal; symmetry; (apply min4_eq || apply max4_eq); try nra; auto 6.
    + apply Forall_and.
      * unfold embed; cbn [snd]. apply Forall_forall; intros p Hp; apply in_map_iff in Hp; destruct Hp as (x & <- & _); reflexivity.
      * apply (existsb_false_Forall (straddles0 RN)); auto. apply straddles0_has0.
Qed.

Lemma map2_swap {A B C} (f : A -> B -> C) (g : B -> A -> C) la lb :
  (forall a b, f a b = g b a) -> map2 f la lb = map2 g lb la.
Proof. intros H. revert lb; induction la; intros [|b lb]; cbn; auto. f_equal; auto. Qed.

Lemma bc2_swap {A B C} mism (f : A -> B -> C) (g : B -> A -> C) s o :
  (forall a b, f a b = g b a) -> bc2 mism f s o = bc2 mism g o s.
Proof.
  intros H. destruct s as [zs ls], o as [zo lo]. unfold bc2, bc2_4.
  destruct ls as [|x [|x2 ls]]; destruct lo as [|y [|y2 lo]]; cbn [length Nat.eqb]; try reflexivity.
  - rewrite H, andb_comm. reflexivity.
  - f_equal. f_equal. apply map_ext. intros; apply H.
  - f_equal. f_equal. apply map_ext. intros; apply H.
  - rewrite (Nat.eqb_sym (length ls)). destruct (Nat.eqb _ _); [|reflexivity].
    f_equal. f_equal. apply map2_swap. exact H.
Qed.

Lemma corner_hull_comm f a b : (forall x y, f x y = f y x) -> corner_hull f a b = corner_hull f b a.
Proof. intros C. unfold corner_hull; cbn [fst snd]. rewrite (C (fst b)), (C (fst b)), (C (snd b)), (C (snd b)).
  f_equal; [unfold min4, Rmin|unfold max4, Rmax]; repeat destruct (Rle_dec _ _); lra. Qed.

Theorem ni_exact op c s : wf s -> ni RN op c s = spec ValueErr op (embed c) s.
Proof.
  intros Hs. pose proof (embed_wf c) as Hc. destruct op.
  - (* c + X = X + c *) cbn [ni]. rewrite in_exact by assumption. unfold spec; cbn [is_div andb opR].
    apply bc2_swap. intros; apply corner_hull_comm. apply Rplus_comm.
  - unfold ni, spec; cbn [is_div andb opR].
    rewrite (bc2_embed_l _ (fun a b => some2 RN (fst a - snd b, snd a - fst b)) _ c s) by reflexivity.
    apply (finish_bc2 _ _ _ wfp wfp); auto; [|intros; apply corner_hull_wf].
    intros a b Ha Hb. cbv beta. rewrite (sub_hull a b Ha Hb). auto.
  - (* c * X = X * c *) cbn [ni]. rewrite in_exact by assumption. unfold spec; cbn [is_div andb opR].
    apply bc2_swap. intros; apply corner_hull_comm. apply Rmult_comm.
  - unfold ni, spec; cbn [is_div andb opR].
    destruct (existsb (straddles0 RN) (snd s)) eqn:E; [reflexivity|].
    rewrite (bc2_embed_l _ (fun a b => some2 RN (if nleb RN nzero (fst a) then (ndiv RN (fst a) (snd b), ndiv RN (fst a) (fst b)) else (ndiv RN (fst a) (fst b), ndiv RN (fst a) (snd b)))) _ c s) by reflexivity.
    apply (finish_bc2 _ _ _ (fun a => fst a = snd a) (fun b => wfp b /\ ~ has0 b)); auto; [|intros; apply corner_hull_wf| |].
    + intros a b Ha [Hb Hz]. f_equal. unfold corner_hull, wfp, has0, nzero in *; cbn [nleb ndiv nofZ RN T]. rewrite <- Ha in *.
      unfold Rdiv.
      assert (G : 0 < fst b \/ snd b < 0) by lra.
      assert (HI : (0 < / snd b <= / fst b) \/ (/ snd b <= / fst b < 0)).
      { destruct G; [left; apply inv_pos_order | right; apply inv_neg_order]; auto. }
      set (il := / fst b) in *; set (ih := / snd b) in *; clearbody il ih.
      destruct (Rleb_spec 0 (fst a)); destruct HI; f_equal; symmetry; (apply min4_eq || apply max4_eq); try nra; auto 6.
    + unfold embed; cbn [snd]. apply Forall_forall; intros p Hp; apply in_map_iff in Hp; destruct Hp as (x & <- & _); reflexivity.
    + apply Forall_and; auto. apply (existsb_false_Forall (straddles0 RN)); auto. apply straddles0_has0.
Qed.

(* ---------- the operator-level statement ---------- *)
Definition as_ival (a : operand RN) : option (ival RN) :=
  match a with
  | ONum _ c => Some (embed (true, [c])) | OArr _ l => Some (embed (false, l))
  | OInt _ i => Some i | OOther => None end.
Definition wf_op (a : operand RN) : Prop := match a with OInt _ i => wf i | _ => True end.
Definition is_int (a : operand RN) : bool := match a with OInt _ _ => true | _ => false end.
Definition mism_of (op : bop) (a b : operand RN) : exn :=
  if is_int a && is_int b then mism_ii op else ValueErr.

Theorem binop_exact op a b sa sb :
  wf_op a -> wf_op b -> is_int a || is_int b = true -> as_ival a = Some sa -> as_ival b = Some sb ->
  binop RN op a b = spec (mism_of op a b) op sa sb.
Proof.
  intros Ha Hb Hi Ea Eb. destruct a as [c|l|s|], b as [c'|l'|o|]; cbn in Hi, Ea, Eb; try discriminate;
    injection Ea as <-; injection Eb as <-; cbn [binop mism_of is_int andb].
  all: first [apply in_exact | apply ni_exact | apply ii_exact]; auto.
Qed.

Theorem corner_hull_encl op s o x y :
  wfp s -> wfp o -> (is_div op = true -> ~ has0 o) -> fst s <= x <= snd s -> fst o <= y <= snd o ->
  fst (corner_hull (opR op) s o) <= opR op x y <= snd (corner_hull (opR op) s o).
Proof.
  intros Hs Ho Hz Hx Hy. unfold corner_hull; cbn [fst snd]. unfold wfp, has0 in *. destruct op; cbn [opR].
  - destruct (min4_le (fst s + fst o) (fst s + snd o) (snd s + fst o) (snd s + snd o)) as (A & _).
    destruct (max4_ge (fst s + fst o) (fst s + snd o) (snd s + fst o) (snd s + snd o)) as (_ & _ & _ & B). lra.
  - destruct (min4_le (fst s - fst o) (fst s - snd o) (snd s - fst o) (snd s - snd o)) as (_ & A & _).
    destruct (max4_ge (fst s - fst o) (fst s - snd o) (snd s - fst o) (snd s - snd o)) as (_ & _ & B & _). lra.
  - apply mul_corner_encl; auto.
  - apply div_corner_encl; auto. specialize (Hz eq_refl). lra.
Qed.

Theorem corner_hull_attained f s o :
  let h := corner_hull f s o in
  (fst h = f (fst s) (fst o) \/ fst h = f (fst s) (snd o) \/ fst h = f (snd s) (fst o) \/ fst h = f (snd s) (snd o)) /\
  (snd h = f (fst s) (fst o) \/ snd h = f (fst s) (snd o) \/ snd h = f (snd s) (fst o) \/ snd h = f (snd s) (snd o)).
Proof. cbv zeta; unfold corner_hull; cbn [fst snd]. split; [apply min4_in | apply max4_in]. Qed.

(* scalar-scalar reading of the law *)
Corollary scalar_binop op s o :
  wfp s -> wfp o -> (is_div op = true -> ~ has0 o) ->
  binop RN op (OInt RN (true, [s])) (OInt RN (true, [o])) = Ok (true, [corner_hull (opR op) s o]).
Proof.
  intros Hs Ho Hz.
  assert (W1 : wf (true, [s])) by (constructor; [assumption|constructor]).
  assert (W2 : wf (true, [o])) by (constructor; [assumption|constructor]).
  rewrite (binop_exact op (OInt RN (true, [s])) (OInt RN (true, [o])) (true, [s]) (true, [o]) W1 W2 eq_refl eq_refl eq_refl).
  unfold spec; cbn [snd existsb]. destruct (is_div op) eqn:E; cbn [andb]; [|reflexivity].
  destruct (straddles0 RN o) eqn:E2; [|reflexivity]. apply straddles0_has0 in E2. exfalso; apply Hz; auto.
Qed.
Corollary div_by_zero_interval (s o : ival RN) : Exists has0 (snd o) -> binop RN Div (OInt RN s) (OInt RN o) = Raise ZeroDivision.
Proof. intros H. cbn [binop ii]. rewrite div_guard_present; cbn [andb].
  match goal with |- context [existsb ?f ?l] => assert (E : existsb f l = true) end.
  { apply existsb_exists. apply Exists_exists in H. destruct H as (p & Hin & Hp). exists p; split; auto. apply straddles0_has0; auto. }
  rewrite E. reflexivity. Qed.

(* elementwise reading: every element of an array-valued result obeys the scalar law *)
Lemma bc2_elem {A B C} mism (g : A -> B -> C) s o r :
  bc2 mism g s o = Ok r -> forall c, In c (snd r) -> exists a b, In a (snd s) /\ In b (snd o) /\ c = g a b.
Proof.
  destruct s as [zs ls], o as [zo lo]. unfold bc2, bc2_4; cbn [snd].
  assert (M2 : forall la lb c, In c (map2 g la lb) -> exists a b, In a la /\ In b lb /\ c = g a b).
  { induction la; intros [|b lb] c Hc; cbn in Hc; try contradiction. destruct Hc as [<-|Hc].
    - exists a, b; cbn; auto. - destruct (IHla lb c Hc) as (a' & b' & ? & ? & ?). exists a', b'; cbn; auto. }
  destruct ls as [|x [|x2 ls]]; destruct lo as [|y [|y2 lo]]; cbn [length Nat.eqb];
    try (destruct (Nat.eqb _ _)); intros E; inversion E; subst; cbn [snd]; intros c Hc;
    try (apply M2 in Hc; exact Hc);
    try (apply in_map_iff in Hc; destruct Hc as (b & <- & Hb); eexists; eexists; split; [|split; [|reflexivity]]; cbn; auto; fail).
  - cbn in Hc. contradiction.
  - cbn in Hc. contradiction.
  - cbn in Hc. contradiction.
  - cbn in Hc; destruct Hc as [<-|[]]. exists x, y; cbn; auto.
  - change (In c (map (g x) (y :: y2 :: lo))) in Hc.
    apply in_map_iff in Hc. destruct Hc as (b & <- & Hb). exists x, b. cbn; auto.
  - change (In c (map (fun a => g a y) (x :: x2 :: ls))) in Hc.
    apply in_map_iff in Hc. destruct Hc as (a & <- & Ha). exists a, y. cbn; auto.
  - change (In c (map2 g (x :: x2 :: ls) (y :: y2 :: lo))) in Hc. apply M2 in Hc. exact Hc.
Qed.
