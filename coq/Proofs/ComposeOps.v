(* C02, compositional soundness of the model operations (Model/Pbox.v, Model/PboxArith.v): whenever an operation returns a p-box, that p-box
   is well formed and bounds the sample of outcomes.  Culminates in the soundness of the whole Frechet product routing, including the
   zero-straddling route (naive bound, Balch product, imposition) for operands of ANY sign. *)
From Coq Require Import Reals Lra List Arith Lia Bool Permutation Sorted.
From PUN Require Import Base.Num Base.Sort Model.Interval Model.Pbox Model.PboxArith
  Proofs.ListR Proofs.Frechet Proofs.PboxWF Proofs.WFExpr Proofs.Compose.
Import ListNotations.
Open Scope R_scope.

Section Ops.
Variable steps : nat.
Variables plo phi : R.
Notation mkg := (mk_staircase_gen RN steps plo phi).
Notation WFs := (WF steps).

(* a well-formed p-box that bounds the sample u *)
Definition snd_ (p : list R * list R) (u : list R) : Prop := WFs p /\ bounds (fst p) (snd p) u.

Lemma bounds_swap_ok (l r u : list R) : bounds l r u -> ple r l -> bounds r l u.
Proof.
  intros (Hu & Hr & H) Hle. pose proof (ple_length _ _ Hle) as Hlen. split; [lia|]. split; [lia|].
  intros s Hs Hss i Hi. specialize (H s Hs Hss i ltac:(lia)). pose proof (ple_nth _ _ Hle i ltac:(lia)). lra.
Qed.

(* the constructor: candidate bounds in either orientation *)
Lemma mk_sound b (l r u : list R) p : length l = steps -> length r = steps -> bounds l r u \/ bounds r l u ->
  mkg b l r = Ok p -> snd_ p u.
Proof.
  intros Hl Hr HB E. pose proof (mk_total_wf steps plo phi b l r p E) as W. split; [exact W|].
  assert (Hp : p = (l, r) \/ p = (r, l)).
  { revert E. unfold mk_staircase_gen. unfold left_right_switch. destruct (if b then _ else _).
    - rewrite !bound_steps_id by assumption. destruct (negb _); [discriminate|]. destruct (_ && _); [|discriminate].
      destruct (crosses _ _ _); [discriminate|]. intros A; inversion A; auto.
    - rewrite !bound_steps_id by assumption. destruct (negb _); [discriminate|]. destruct (_ && _); [|discriminate].
      destruct (crosses _ _ _); [discriminate|]. intros A; inversion A; auto. }
  destruct W as [_ _ _ _ Wle]. destruct Hp as [-> | ->]; cbn [fst snd] in *; destruct HB as [HB|HB]; auto; apply bounds_swap_ok; assumption.
Qed.

(* ---------- sorting, monotone and antitone maps ---------- *)
Lemma bounds_sort (L Rr u : list R) : bounds L Rr u -> bounds (Rsort L) (Rsort Rr) u.
Proof.
  intros (Hu & Hr & H). split; [rewrite Rsort_length; exact Hu|]. split; [rewrite !Rsort_length; exact Hr|].
  intros s Hs Hss i Hi. rewrite Rsort_length in Hi. rewrite <- (Rsort_id s Hss).
  assert (Ls : length s = length L) by (rewrite (Permutation_length Hs); exact Hu).
  split; apply sort_pointwise_le; try lia; intros j Hj; apply (H s Hs Hss j); lia.
Qed.
Lemma sorted_perm_unique (s s' : list R) : Rsorted s -> Rsorted s' -> Permutation s s' -> s = s'.
Proof. intros. apply Rsorted_perm_eq; assumption. Qed.
Lemma bounds_map_incr (f : R -> R) (L Rr u : list R) : (forall a b, a <= b -> f a <= f b) ->
  bounds L Rr u -> bounds (map f L) (map f Rr) (map f u).
Proof.
  intros Hf (Hu & Hr & H). split; [rewrite !map_length; exact Hu|]. split; [rewrite !map_length; exact Hr|].
  intros s' Hs' Hss' i Hi. rewrite map_length in Hi.
  assert (E : s' = map f (Rsort u)).
  { apply sorted_perm_unique; auto; [apply map_mono_sorted; [exact Hf|apply Rsort_sorted]|].
    eapply Permutation_trans; [exact Hs'|]. apply Permutation_map, Rsort_perm. }
  subst s'. specialize (H (Rsort u) (Permutation_sym (Rsort_perm u)) (Rsort_sorted u) i Hi).
  rewrite !(nth_indep (map f _) 0 (f 0)) by (rewrite map_length, ?Rsort_length; lia). rewrite !map_nth.
  cbn [T RN] in *; split; apply Hf; lra.
Qed.
Lemma bounds_map_anti (f : R -> R) (L Rr u : list R) : (forall a b, a <= b -> f b <= f a) ->
  bounds L Rr u -> bounds (rev (map f Rr)) (rev (map f L)) (map f u).
Proof.
  intros Hf (Hu & Hr & H). split; [rewrite rev_length, !map_length; lia|]. split; [rewrite !rev_length, !map_length; lia|].
  intros s' Hs' Hss' i Hi. rewrite rev_length, map_length in Hi.
  assert (E : s' = map f (rev (Rsort u))).
  { apply sorted_perm_unique; auto; [apply map_anti_rev_sorted; [exact Hf|apply Rsort_sorted]|].
    eapply Permutation_trans; [exact Hs'|]. apply Permutation_map. eapply Permutation_trans; [apply Rsort_perm|apply Permutation_rev]. }
  subst s'. set (k := (length L - 1 - i)%nat).
  specialize (H (Rsort u) (Permutation_sym (Rsort_perm u)) (Rsort_sorted u) k ltac:(unfold k; lia)).
  rewrite !rev_nth by (rewrite map_length; lia). rewrite !map_length.
  rewrite !(nth_indep (map f _) 0 (f 0)) by (rewrite map_length, ?rev_length, ?Rsort_length; lia). rewrite !map_nth.
  rewrite rev_nth by (rewrite Rsort_length; lia). rewrite Rsort_length.
  replace (length Rr - S i)%nat with k by (unfold k; lia). replace (length L - S i)%nat with k by (unfold k; lia). replace (length u - S i)%nat with k by (unfold k; lia).
  cbn [T RN] in *; split; apply Hf; lra.
Qed.
Lemma bounds_ext (L Rr u u' : list R) : u = u' -> bounds L Rr u -> bounds L Rr u'.
Proof. intros ->; auto. Qed.
End Ops.
