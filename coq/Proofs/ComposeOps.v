(* C02, compositional soundness of the model operations (Model/Pbox.v, Model/PboxArith.v): whenever an operation returns a p-box, that p-box
   is well formed and bounds the sample of outcomes.  Culminates in the soundness of the whole Frechet product routing, including the
   zero-straddling route (naive bound, Balch product, imposition) for operands of ANY sign. *)
From Coq Require Import Reals Lra List Arith Lia Bool Permutation Sorted.
From PUN Require Import Base.Num Base.Sort Model.Interval Model.Pbox Model.PboxArith
  Proofs.ListR Proofs.Frechet Proofs.PboxWF Proofs.WFExpr Proofs.Compose Proofs.ComposeNaive.
From PUN Require Import Proofs.CtorFinite.
Import ListNotations.
Open Scope R_scope.

Section Ops.
Variable steps : nat.
Variables plo phi : R.
Notation mkg := (mk_staircase_gen RN steps plo phi).
Notation WFs := (WF steps).

(* a well-formed p-box that bounds the sample u *)
Definition snd_ (p : list R * list R) (u : list R) : Prop := WFs p /\ bounds (fst p) (snd p) u.

Lemma bounds_swap_ok (l r u : list R) : bounds l r u -> ple r l -> bounds r l u.
Proof.
  intros (Hu & Hr & H) Hle. pose proof (ple_length _ _ Hle) as Hlen. split; [lia|]. split; [lia|].
  intros s Hs Hss i Hi. specialize (H s Hs Hss i ltac:(lia)). pose proof (ple_nth _ _ Hle i ltac:(lia)). lra.
Qed.

(* the constructor: candidate bounds in either orientation *)
Lemma mk_sound b (l r u : list R) p : length l = steps -> length r = steps -> bounds l r u \/ bounds r l u ->
  mkg b l r = Ok p -> snd_ p u.
Proof.
  intros Hl Hr HB E. pose proof (mk_total_wf steps plo phi b l r p E) as W. split; [exact W|].
  assert (Hp : p = (l, r) \/ p = (r, l)).
  { revert E. rewrite mk_gen_core_R; unfold mk_staircase_core. unfold left_right_switch. destruct (if b then _ else _).
    - rewrite !bound_steps_id by assumption. destruct (negb _); [discriminate|]. destruct (_ && _); [|discriminate].
      destruct (crosses _ _ _); [discriminate|]. intros A; inversion A; auto.
    - rewrite !bound_steps_id by assumption. destruct (negb _); [discriminate|]. destruct (_ && _); [|discriminate].
      destruct (crosses _ _ _); [discriminate|]. intros A; inversion A; auto. }
  destruct W as [_ _ _ _ Wle]. destruct Hp as [-> | ->]; cbn [fst snd] in *; destruct HB as [HB|HB]; auto; apply bounds_swap_ok; assumption.
Qed.

(* ---------- sorting, monotone and antitone maps ---------- *)
Lemma bounds_sort (L Rr u : list R) : bounds L Rr u -> bounds (Rsort L) (Rsort Rr) u.
Proof.
  intros (Hu & Hr & H). split; [rewrite Rsort_length; exact Hu|]. split; [rewrite !Rsort_length; exact Hr|].
  intros s Hs Hss i Hi. rewrite Rsort_length in Hi. rewrite <- (Rsort_id s Hss).
  assert (Ls : length s = length L) by (rewrite (Permutation_length Hs); exact Hu).
  split; apply sort_pointwise_le; try lia; intros j Hj; apply (H s Hs Hss j); lia.
Qed.
Lemma sorted_perm_unique (s s' : list R) : Rsorted s -> Rsorted s' -> Permutation s s' -> s = s'.
Proof. intros. apply Rsorted_perm_eq; assumption. Qed.
Lemma bounds_map_incr (f : R -> R) (L Rr u : list R) : (forall a b, a <= b -> f a <= f b) ->
  bounds L Rr u -> bounds (map f L) (map f Rr) (map f u).
Proof.
  intros Hf (Hu & Hr & H). split; [rewrite !map_length; exact Hu|]. split; [rewrite !map_length; exact Hr|].
  intros s' Hs' Hss' i Hi. rewrite map_length in Hi.
  assert (E : s' = map f (Rsort u)).
  { apply sorted_perm_unique; auto; [apply map_mono_sorted; [exact Hf|apply Rsort_sorted]|].
    eapply Permutation_trans; [exact Hs'|]. apply Permutation_map, Rsort_perm. }
  subst s'. specialize (H (Rsort u) (Permutation_sym (Rsort_perm u)) (Rsort_sorted u) i Hi).
  rewrite !(nth_indep (map f _) 0 (f 0)) by (rewrite map_length, ?Rsort_length; lia). rewrite !map_nth.
  cbn [T RN] in *; split; apply Hf; lra.
Qed.
Lemma bounds_map_anti (f : R -> R) (L Rr u : list R) : (forall a b, a <= b -> f b <= f a) ->
  bounds L Rr u -> bounds (rev (map f Rr)) (rev (map f L)) (map f u).
Proof.
  intros Hf (Hu & Hr & H). split; [rewrite rev_length, !map_length; lia|]. split; [rewrite !rev_length, !map_length; lia|].
  intros s' Hs' Hss' i Hi. rewrite rev_length, map_length in Hi.
  assert (E : s' = map f (rev (Rsort u))).
  { apply sorted_perm_unique; auto; [apply map_anti_rev_sorted; [exact Hf|apply Rsort_sorted]|].
    eapply Permutation_trans; [exact Hs'|]. apply Permutation_map. eapply Permutation_trans; [apply Rsort_perm|apply Permutation_rev]. }
  subst s'. set (k := (length L - 1 - i)%nat).
  specialize (H (Rsort u) (Permutation_sym (Rsort_perm u)) (Rsort_sorted u) k ltac:(unfold k; lia)).
  rewrite !rev_nth by (rewrite map_length; lia). rewrite !map_length.
  rewrite !(nth_indep (map f _) 0 (f 0)) by (rewrite map_length, ?rev_length, ?Rsort_length; lia). rewrite !map_nth.
  rewrite rev_nth by (rewrite Rsort_length; lia). rewrite Rsort_length.
  replace (length Rr - S i)%nat with k by (unfold k; lia). replace (length L - S i)%nat with k by (unfold k; lia). replace (length u - S i)%nat with k by (unfold k; lia).
  cbn [T RN] in *; split; apply Hf; lra.
Qed.
Lemma bounds_ext (L Rr u u' : list R) : u = u' -> bounds L Rr u -> bounds L Rr u'.
Proof. intros ->; auto. Qed.
End Ops.

(* ---------- the operations of the model ---------- *)
Section Ops2.
Variable steps : nat.
Variables plo phi : R.
Notation mkg := (mk_staircase_gen RN steps plo phi).
Notation S_ := (snd_ steps).

Lemma S_len p u : S_ p u -> length (fst p) = steps /\ length (snd p) = steps /\ length u = steps.
Proof. intros ([Hl Hr _ _ _] & (Hu & _ & _)). repeat split; auto. lia. Qed.

Lemma pnum_sound_incr (f : R -> R -> R) c p u r : (forall a b, a <= b -> f a c <= f b c) ->
  S_ p u -> pnum RN steps plo phi f p c = Ok r -> S_ r (map (fun a => f a c) u).
Proof.
  intros Hf HS E. destruct (S_len p u HS) as (Hl & Hr & Hu). destruct HS as (_ & HB). unfold pnum, mk_staircase_lists in E.
  eapply mk_sound; [| |left|exact E]; change (nsort RN) with Rsort; rewrite ?Rsort_length, ?map_length; auto.
  apply bounds_sort. apply (bounds_map_incr (fun a => f a c)); assumption.
Qed.
Lemma pnum_sound_anti (f : R -> R -> R) c p u r : (forall a b, a <= b -> f b c <= f a c) ->
  S_ p u -> pnum RN steps plo phi f p c = Ok r -> S_ r (map (fun a => f a c) u).
Proof.
  intros Hf HS E. destruct (S_len p u HS) as (Hl & Hr & Hu). destruct HS as (_ & HB). unfold pnum, mk_staircase_lists in E.
  eapply mk_sound; [| |right|exact E]; change (nsort RN) with Rsort; rewrite ?Rsort_length, ?map_length; auto.
  pose proof (bounds_sort _ _ _ (bounds_map_anti (fun a => f a c) _ _ _ Hf HB)) as B.
  rewrite (Rsort_of_perm (rev (map (fun a => f a c) (snd p))) (map (fun a => f a c) (snd p))) in B by (apply Permutation_sym, Permutation_rev).
  rewrite (Rsort_of_perm (rev (map (fun a => f a c) (fst p))) (map (fun a => f a c) (fst p))) in B by (apply Permutation_sym, Permutation_rev).
  exact B.
Qed.
Lemma pneg_sound p u r : S_ p u -> pneg RN steps plo phi p = Ok r -> S_ r (map Ropp u).
Proof.
  intros HS E. destruct (S_len p u HS) as (Hl & Hr & Hu). destruct HS as (_ & HB). unfold pneg, mk_staircase_lists in E.
  eapply mk_sound; [| |left|exact E]; change (nsort RN) with Rsort; rewrite ?Rsort_length, ?map_length, ?rev_length; auto.
  apply bounds_sort. change (nopp RN) with Ropp. rewrite !map_rev. apply (bounds_map_anti Ropp); [intros; lra|exact HB].
Qed.
Lemma frechet_op_lengths (op : R -> R -> R) XL XR YL YR :
  length (fst (frechet_op RN op XL XR YL YR)) = length XL /\ length (snd (frechet_op RN op XL XR YL YR)) = length XL.
Proof. unfold frechet_op; cbn [fst snd]. change (nsort RN) with Rsort. rewrite !Rsort_length, !map_length, !seq_length. auto. Qed.
Lemma classic_sound (op : R -> R -> R) (D : R -> Prop) p q u v r :
  (forall a a', D a -> a <= a' -> D a') ->
  (forall a a' b b', D a -> D b -> a <= a' -> b <= b' -> op a b <= op a' b') ->
  (forall j, (j < steps)%nat -> D (nth j (fst p) 0)) -> (forall j, (j < steps)%nat -> D (nth j (fst q) 0)) ->
  S_ p u -> S_ q v -> m_classic_frechet_pbox RN steps plo phi p q op = Ok r -> S_ r (map2 op u v).
Proof.
  intros Dup Hm Dp Dq Sp Sq E. destruct (S_len p u Sp) as (Hl & Hr & Hu). destruct (S_len q v Sq) as (Hl' & Hr' & Hv).
  destruct Sp as (_ & Bp). destruct Sq as (_ & Bq).
  unfold m_classic_frechet_pbox in E. unfold pbox in *. cbn [T RN] in *. revert E. match goal with |- context [frechet_op ?a ?b ?c ?d ?e ?f] => destruct (frechet_op a b c d e f) as [l r'] eqn:F end. cbv beta iota.
  match goal with |- context [mk_staircase ?a ?b ?c ?d ?e ?f] => destruct (mk_staircase a b c d e f) as [x| |] eqn:M end; cbn [rbind]; try discriminate. intros E. injection E as <-.
  pose proof (frechet_op_lengths op (fst p) (snd p) (fst q) (snd q)) as (L1 & L2). rewrite F in L1, L2. cbn [fst snd] in L1, L2.
  unfold mk_staircase in M. eapply mk_sound; [transitivity (length (fst p)); [exact L1|exact Hl]|transitivity (length (fst p)); [exact L2|exact Hl]|left|exact M].
  pose proof (frechet_bounds op D (fst p) (snd p) (fst q) (snd q) u v Dup Hm ltac:(lia)) as FB. rewrite F in FB. cbn [fst snd] in FB.
  apply FB; [intros j Hj; apply Dp; lia|intros j Hj; apply Dq; lia|exact Bp|exact Bq].
Qed.
Lemma naive_sound p q u v r : S_ p u -> S_ q v ->
  m_vectorised_naive_frechet_pbox RN steps plo phi p q (nmul RN) = Ok r -> S_ r (map2 Rmult u v).
Proof.
  intros Sp Sq E. destruct (S_len p u Sp) as (Hl & Hr & Hu). destruct (S_len q v Sq) as (Hl' & Hr' & Hv).
  destruct Sp as (_ & Bp). destruct Sq as (_ & Bq).
  unfold m_vectorised_naive_frechet_pbox in E. change (nmul RN) with Rmult in E. unfold pbox in *. cbn [T RN] in *.
  pose proof (naive_bounds (fst p) (snd p) (fst q) (snd q) steps Hl Hr Hl' Hr' u v Bp Bq) as NB.
  revert E NB. match goal with |- context [naive_frechet_op ?a ?b ?c ?d ?e ?f] => destruct (naive_frechet_op a b c d e f) as [l r'] eqn:F end. cbv beta iota. cbn [fst snd]. intros E NB. revert E.
  match goal with |- context [mk_staircase ?a ?b ?c ?d ?e ?f] => destruct (mk_staircase a b c d e f) as [x| |] eqn:M end; cbn [rbind]; try discriminate. intros E. injection E as <-.
  destruct NB as (N1 & N2 & N3). rewrite map2_length, Hu, Hv, Nat.min_id in N1.
  unfold mk_staircase in M. eapply mk_sound; [symmetry; exact N1|transitivity (length l); [exact N2|symmetry; exact N1]|left|exact M].
  split; [rewrite map2_length, Hu, Hv, Nat.min_id; exact N1|]. split; [exact N2|exact N3].
Qed.
Lemma map2_len_n {A B C} (f : A -> B -> C) a b n : length a = n -> length b = n -> length (map2 f a b) = n.
Proof. intros Ha Hb. rewrite map2_length, Ha, Hb. apply Nat.min_id. Qed.
Lemma pimp_sound p q w r : S_ p w -> S_ q w -> pimp RN steps plo phi p q = Ok r -> S_ r w.
Proof.
  intros Sp Sq E. destruct (S_len p w Sp) as (Hl & Hr & Hu). destruct (S_len q w Sq) as (Hl' & Hr' & _).
  destruct Sp as (_ & (_ & _ & Bp)). destruct Sq as (_ & (_ & _ & Bq)).
  unfold pimp in E. cbv zeta in E. destruct (existsb _ _); [discriminate|]. unfold mk_staircase_lists in E.
  cbn [T RN] in *.
  apply (mk_sound steps plo phi true (map2 (@nmax RN) (fst p) (fst q)) (map2 (@nmin RN) (snd p) (snd q)) w r); [apply map2_len_n; assumption|apply map2_len_n; assumption|left|exact E].
  split; [rewrite (map2_len_n _ _ _ steps Hl Hl'); exact Hu|]. split; [rewrite (map2_len_n _ _ _ steps Hl Hl'), (map2_len_n _ _ _ steps Hr Hr'); reflexivity|].
  intros s Hs Hss i Hi. rewrite (map2_len_n _ _ _ steps Hl Hl') in Hi.
  specialize (Bp s Hs Hss i ltac:(lia)). specialize (Bq s Hs Hss i ltac:(lia)).
  rewrite !(map2_nth _ _ _ 0 0 0) by lia. rewrite nmax_R, nmin_R. unfold Rmax, Rmin. repeat destruct (Rle_dec _ _); cbn [T RN] in *; lra.
Qed.
Lemma penv_sound p q w r : WF steps q -> (S_ p w \/ (WF steps p /\ S_ q w)) -> WF steps p -> penv RN steps plo phi p q = Ok r -> S_ r w.
Proof.
  intros Wq HS Wp E. destruct Wp as [Hl Hr _ _ _]. destruct Wq as [Hl' Hr' _ _ _].
  assert (Hu : length w = steps) by (destruct HS as [S1|[_ S1]]; [destruct (S_len p w S1) as (_ & _ & H)|destruct (S_len q w S1) as (_ & _ & H)]; exact H).
  unfold penv, mk_staircase in E. cbn [T RN] in *.
  apply (mk_sound steps plo phi false (map2 (@nmin RN) (fst p) (fst q)) (map2 (@nmax RN) (snd p) (snd q)) w r); [apply map2_len_n; assumption|apply map2_len_n; assumption|left|exact E].
  split; [rewrite (map2_len_n _ _ _ steps Hl Hl'); exact Hu|]. split; [rewrite (map2_len_n _ _ _ steps Hl Hl'), (map2_len_n _ _ _ steps Hr Hr'); reflexivity|].
  intros s Hs Hss i Hi. rewrite (map2_len_n _ _ _ steps Hl Hl') in Hi.
  rewrite !(map2_nth _ _ _ 0 0 0) by lia. rewrite nmax_R, nmin_R.
  destruct HS as [(_ & (_ & _ & B))|(_ & (_ & (_ & _ & B)))]; specialize (B s Hs Hss i ltac:(lia)); unfold Rmax, Rmin; repeat destruct (Rle_dec _ _); cbn [T RN] in *; lra.
Qed.
End Ops2.
