(* C15: unit algebra of UncertainNumber arithmetic and the mirror laws of the reflected operators. *)
From Coq Require Import List ZArith Bool Lia Reals Lra.
From PUN Require Import Base.Num Model.Interval Model.Units Proofs.Hull Proofs.IntervalOps.
Import ListNotations.

Lemma unit_eqb_refl u : unit_eqb u u = true.
Proof. induction u; cbn; auto. rewrite Z.eqb_refl; auto. Qed.
Lemma unit_eqb_eq u v : unit_eqb u v = true -> u = v.
Proof. revert v; induction u as [|x u IH]; intros [|y v] H; cbn in H; try discriminate; auto.
  apply andb_true_iff in H. destruct H as [H1 H2]. apply Z.eqb_eq in H1. f_equal; auto. Qed.

(* products and quotients multiply and divide units (commutative, and division undoes multiplication) *)
Lemma zip_add_comm u v : zip Z.add u v = zip Z.add v u.
Proof. revert v; induction u; intros [|y v]; cbn; auto. f_equal; [lia|auto]. Qed.
Theorem mul_units_comm u v : unit_binop UMul (OUN u) (OUN v) = unit_binop UMul (OUN v) (OUN u).
Proof. cbn. rewrite zip_add_comm. reflexivity. Qed.
Theorem div_undoes_mul u v : length u = length v ->
  match unit_binop UMul (OUN u) (OUN v) with UOk w => unit_binop UDiv (OUN w) (OUN v) = UOk u | _ => False end.
Proof. cbn. intros H. f_equal. revert v H; induction u; intros [|y v] H; cbn in *; try lia; auto. f_equal; [lia|apply IHu; lia]. Qed.
(* a bare number is dimensionless in products and quotients, takes the operand's unit in sums *)
Theorem number_dimensionless u :
  unit_binop UMul (OUN u) ONum = UOk u /\ unit_binop UMul ONum (OUN u) = UOk u /\ unit_binop UDiv (OUN u) ONum = UOk u /\
  unit_binop UDiv ONum (OUN u) = UOk (map Z.opp u) /\ unit_binop UAdd (OUN u) ONum = UOk u /\ unit_binop USub ONum (OUN u) = UOk u.
Proof. repeat split. Qed.
(* powers raise the unit; adding incompatible dimensions is an error *)
Theorem pow_units k u : unit_binop (UPow k) (OUN u) ONum = UOk (map (Z.mul k) u).
Proof. reflexivity. Qed.
Theorem add_incompatible u v : u <> v -> unit_binop UAdd (OUN u) (OUN v) = UDimErr /\ unit_binop USub (OUN u) (OUN v) = UDimErr.
Proof. intros H. cbn. destruct (unit_eqb u v) eqn:E; [apply unit_eqb_eq in E; contradiction|]. split; reflexivity. Qed.
Theorem add_compatible u : unit_binop UAdd (OUN u) (OUN u) = UOk u.
Proof. cbn. rewrite unit_eqb_refl. reflexivity. Qed.

(* mirror laws on interval constructs (model of number.py):  c - X = -(X - c)  and  c / X = c * (1 / X) *)
Open Scope R_scope.
Theorem rsub_mirror (c : R) (s : R * R) : wfp s ->
  ni RN Sub (true, [c]) (true, [s]) = rbind (in_ RN Sub (true, [s]) (true, [c])) (ineg RN).
Proof.
  intros W. rewrite ni_exact, in_exact by (constructor; [exact W|constructor]).
  change (embed (true, [c])) with ((true, [(c, c)]) : ival RN). unfold spec; cbn [is_div andb bc2 bc2_4 rbind snd fst]. cbn [opR].
  unfold ineg, finish, rbind. cbn [fst snd map existsb unassigned some2 getp forallb ordered nopp RN T nleb].
  assert (E1 : corner_hull Rminus (c, c) s = (c - snd s, c - fst s)).
  { unfold corner_hull, wfp in *; cbn [fst snd]. f_equal; [apply min4_eq|apply max4_eq]; try lra; auto. }
  assert (E2 : corner_hull Rminus s (c, c) = (fst s - c, snd s - c)).
  { unfold corner_hull, wfp in *; cbn [fst snd]. f_equal; [apply min4_eq|apply max4_eq]; try lra; auto. }
  rewrite E1, E2. cbn [fst snd orb]. unfold wfp in W.
  rewrite (proj2 (Rleb_true (- (snd s - c)) (- (fst s - c)))) by lra. cbn [andb]. repeat f_equal; lra.
Qed.
