(* The context manager translated from pba/context.py on every run (Gen/GenCtx.v) is the step function of Model/Ctx.v that the theorems of
   C16 are about: entering a block = ContextVar.set, leaving it by any route = reset of THAT block's token, reading = get; default 'f'. *)
From Coq Require Import List Arith Bool.
From PUN Require Import Model.Ctx Gen.GenCtx Proofs.Ctx.
Import ListNotations.

Theorem gen_step1_is_model c e : gen_step1 c e = step1 c e.
Proof. destruct e as [b d|b|]; cbn [gen_step1 step1]; unfold gen_enter, gen_leave, gen_read, cv_set, cv_reset, cv_get; cbn [cur]; try reflexivity.
  destruct (lookup b (saved c)); reflexivity. Qed.
Theorem gen_init_is_model : gen_init = cinit.
Proof. reflexivity. Qed.
(* the run of the translated manager over any history of one execution context *)
Fixpoint gen_run1 (c : cstate) (h : list ev) : list (option dcode) * cstate :=
  match h with [] => ([], c) | e :: t => let '(c', o) := gen_step1 c e in let '(tr, c'') := gen_run1 c' t in (o :: tr, c'') end.
Theorem gen_run1_is_model h : forall c, gen_run1 c h = run1 c h.
Proof. induction h as [|e t IH]; intros c; [reflexivity|]. cbn [gen_run1 run1]. rewrite gen_step1_is_model. destruct (step1 c e) as [c' o]. rewrite IH. reflexivity. Qed.
(* the restoration theorem, stated of the translated manager *)
Theorem gen_exit_restores c b d body : forallb (fun e => negb (mentions b e)) body = true ->
  cur (snd (gen_run1 c (Enter b d :: body ++ [Exit b]))) = cur c.
Proof. rewrite gen_run1_is_model. exact (exit_restores c b d body). Qed.
