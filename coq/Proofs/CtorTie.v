(* The Staircase constructor path and the step-wise operations recognised in the source on every run (Gen/GenCtor.v) are the
   definitions of Model/Pbox.v that the theorems of C04, C06 and C11 are about. *)
From Coq Require Import List Bool.
From PUN Require Import Base.Num Model.Interval Model.Pbox Gen.GenCtor.

Section T.
Variable N : Num.
Variable steps : nat.
Variable p_lo p_hi : N.
Notation pb := (pbox N).
Theorem gen_constructor_is_model lists l r : gen_mk_staircase_gen N steps p_lo p_hi lists l r = mk_staircase_gen N steps p_lo p_hi lists l r.
Proof.
  unfold gen_mk_staircase_gen, mk_staircase_gen, mk_staircase_core.
  change (gen_left_right_switch N lists l r) with (left_right_switch N lists l r).
  destruct (left_right_switch N lists l r) as [l' r'].
  change (gen_bound_steps_check N steps p_lo p_hi) with (bound_steps_check N steps p_lo p_hi).
  destruct (negb _); [reflexivity|]. destruct (_ && _); [|reflexivity]. destruct (crosses _ _ _); reflexivity.
Qed.
Theorem gen_stepwise_ops_are_model (p q : pb) (f : N -> N -> N) (g : N -> N) (c : N) :
  gen_pneg N steps p_lo p_hi p = pneg N steps p_lo p_hi p /\
  gen_precip N steps p_lo p_hi p = precip N steps p_lo p_hi p /\
  gen_pnum N steps p_lo p_hi f p c = pnum N steps p_lo p_hi f p c /\
  gen_punary N steps p_lo p_hi g p = punary N steps p_lo p_hi g p /\
  gen_penv N steps p_lo p_hi p q = penv N steps p_lo p_hi p q /\
  gen_pimp N steps p_lo p_hi p q = pimp N steps p_lo p_hi p q.
Proof.
  repeat split; unfold gen_pneg, gen_precip, gen_pnum, gen_punary, gen_penv, gen_pimp; rewrite ?gen_constructor_is_model; reflexivity.
Qed.
Theorem gen_power_is_model (powf : N -> N -> N) (route0 : pb -> N -> res pb) (p : pb) (c : N) :
  gen_ppow N steps p_lo p_hi powf route0 p c = ppow N steps p_lo p_hi powf route0 p c.
Proof.
  unfold gen_ppow, ppow. destruct (_ && _); [reflexivity|]. destruct (_ && _); [reflexivity|].
  unfold gen_pnum; rewrite gen_constructor_is_model; reflexivity.
Qed.
End T.
Theorem gen_ufunc_route_is_model b : gen_ufunc_route b = ufunc_route_of b.
Proof. reflexivity. Qed.
