(* C19: the bisection on the tempering exponent terminates, strictly increases the exponent, never passes 1 and brackets the
   ESS target; importance weights are a probability vector proportional to likelihood^increment; a Metropolis-Hastings move never
   leaves the prior support, keeps the stored log-likelihood / tempered log-posterior consistent, and accepts iff u < ratio. *)
From Coq Require Import Reals Lra List Arith Lia Bool ZArith.
From PUN Require Import Base.Num Model.TMCMC Proofs.Stacking.
Import ListNotations.
Open Scope R_scope.

(* ---------- bisection over the reals ---------- *)
Section B.
Variable ess : nat -> R -> Z.
Variable tol rN : R.
Hypothesis tol_pos : 0 < tol.
Notation bstepR := (bstep RN ess rN).
Notation bcondR := (bcond RN tol).
Notation bloopR := (bloop RN ess tol rN).

Lemma half_R : half RN = / 2.
Proof. unfold half; cbn [ndiv nofZ RN T]. lra. Qed.
Definition width (s : bstate RN) : R := b_max RN s - b_min RN s.

Lemma bstep_width s : b_hit RN (bstepR s) = false -> width (bstepR s) = width s / 2.
Proof.
  unfold bstep, width. rewrite half_R. cbn [nmul nadd neqb nltb nofZ RN T].
  destruct (Reqb _ rN); [cbn; discriminate|]. destruct (Rltb _ rN); cbn [b_hit b_max b_min]; intros _; lra.
Qed.
Theorem bloop_terminates : forall fuel s, 0 <= width s -> width s <= tol * 2 ^ fuel -> bloopR fuel s <> None.
Proof.
  induction fuel as [|f IH]; intros s Hw0 Hw; cbn [bloop].
  - destruct (bcondR s) eqn:C; [|discriminate]. exfalso. unfold bcond in C. apply andb_true_iff in C. destruct C as [_ C].
    cbn [nltb nsub RN T] in C. apply Rltb_true in C. unfold width in *. cbn in Hw. lra.
  - destruct (bcondR s) eqn:C; [|discriminate].
    destruct (b_hit RN (bstepR s)) eqn:H.
    + destruct f; cbn [bloop]; unfold bcond; rewrite H; cbn [negb andb]; discriminate.
    + apply IH; rewrite (bstep_width s H); [lra|]. cbn [pow] in Hw. lra.
Qed.

(* invariant of the loop *)
Record binv (beta : R) (s : bstate RN) : Prop := {
  i_lo : beta <= b_min RN s; i_mm : b_min RN s <= b_max RN s; i_hi : b_max RN s <= 2;
  i_new : b_iter RN s = 0%nat \/ (b_min RN s <= b_new RN s <= b_max RN s /\ beta < b_new RN s);
  (* bracketing of the target by evaluated exponents *)
  i_bmin : b_min RN s = beta \/ exists k, IZR (ess k (b_min RN s)) > rN;
  i_bmax : b_max RN s = 2 \/ exists k, IZR (ess k (b_max RN s)) < rN;
  i_ess : b_iter RN s = 0%nat \/ exists k, b_ess RN s = ess k (b_new RN s) }.
Lemma Reqb_false_neq x y : Reqb x y = false -> x <> y.
Proof. unfold Reqb. destruct (Req_EM_T x y); [discriminate|auto]. Qed.
Lemma bstep_inv beta s : binv beta s -> bcondR s = true -> binv beta (bstepR s) /\ b_iter RN (bstepR s) = S (b_iter RN s).
Proof.
  intros [A1 A2 A3 A4 A5 A6 A7] C. unfold bcond in C. apply andb_true_iff in C. destruct C as [_ C]. cbn [nltb nsub RN T] in C. apply Rltb_true in C.
  unfold bstep. rewrite half_R. cbn [nmul nadd neqb nltb nofZ RN T].
  set (nb := / 2 * (b_max RN s + b_min RN s)). assert (Hnb : b_min RN s < nb < b_max RN s) by (unfold nb; lra).
  set (e := ess (b_iter RN s) nb).
  destruct (Reqb (IZR e) rN) eqn:E1; [|destruct (Rltb (IZR e) rN) eqn:E2]; (split; [|reflexivity]).
  - constructor; cbn [b_min b_max b_new b_iter b_ess].
    + exact A1. + exact A2. + exact A3. + right; split; lra. + exact A5. + exact A6. + right. exists (b_iter RN s). reflexivity.
  - apply Rltb_true in E2. constructor; cbn [b_min b_max b_new b_iter b_ess].
    + exact A1. + lra. + lra. + right; split; lra. + exact A5. + right. exists (b_iter RN s). exact E2. + right. exists (b_iter RN s). reflexivity.
  - apply Rltb_false in E2. apply Reqb_false_neq in E1. constructor; cbn [b_min b_max b_new b_iter b_ess].
    + lra. + lra. + exact A3. + right; split; lra. + right. exists (b_iter RN s). fold e. lra. + exact A6. + right. exists (b_iter RN s). reflexivity.
Qed.
Lemma bloop_inv beta : forall fuel s s', binv beta s -> bloopR fuel s = Some s' -> binv beta s' /\ bcondR s' = false /\ (b_iter RN s <= b_iter RN s')%nat.
Proof.
  induction fuel as [|f IH]; intros s s' I E; cbn [bloop] in E; destruct (bcondR s) eqn:C; try discriminate.
  - inversion E; subst. auto.
  - destruct (bstep_inv beta s I C) as [I1 It]. destruct (IH (bstepR s) s' I1 E) as (I' & C' & L). split; [exact I'|split; [exact C'|]]. lia.
  - inversion E; subst. auto.
Qed.

(* the result of the bisection started from an exponent beta with room for at least one pass (always the case for beta < 1) *)
Theorem bisect_spec beta fuel s : tol < 2 - beta -> bisect RN ess tol rN beta fuel = Some s ->
  beta < b_new RN s /\ b_min RN s <= b_new RN s <= b_max RN s /\ b_max RN s <= 2 /\
  (b_hit RN s = true \/ b_max RN s - b_min RN s <= tol) /\
  (b_min RN s = beta \/ exists k, IZR (ess k (b_min RN s)) > rN) /\ (b_max RN s = 2 \/ exists k, IZR (ess k (b_max RN s)) < rN) /\
  (exists k, b_ess RN s = ess k (b_new RN s)).
Proof.
  intros Hb E. unfold bisect in E.
  set (s0 := mkB RN beta (two RN) beta 0%Z 0 false) in *.
  assert (I0 : binv beta s0).
  { constructor; unfold s0; cbn [b_min b_max b_new b_iter b_ess]; unfold two; cbn [nofZ RN T]; auto; lra. }
  assert (C0 : bcondR s0 = true).
  { unfold bcond, s0. cbn [b_hit b_max b_min negb andb nltb nsub RN T]. unfold two; cbn [nofZ RN T]. apply Rltb_true. lra. }
  destruct fuel as [|f]; cbn [bloop] in E; rewrite C0 in E; [discriminate|].
  destruct (bstep_inv beta s0 I0 C0) as [I1 It]. destruct (bloop_inv beta f (bstepR s0) s I1 E) as ([A1 A2 A3 A4 A5 A6 A7] & C & L).
  assert (Hit : b_iter RN s <> 0%nat) by (rewrite It in L; unfold s0 in L; cbn [b_iter] in L; lia).
  destruct A4 as [A4|[A4 A4']]; [contradiction|]. destruct A7 as [A7|A7]; [contradiction|].
  repeat split; auto; try lra.
  unfold bcond in C. apply andb_false_iff in C. destruct C as [C|C].
  - left. destruct (b_hit RN s); [reflexivity|discriminate].
  - right. cbn [nltb nsub RN T] in C. apply Rltb_false in C. exact C.
Qed.
(* the exponent handed to the next stage: strictly larger, at most 1, and exactly 1 as soon as the bisection reaches 1 *)
Theorem next_beta_spec beta fuel b e : beta < 1 -> tol < 1 -> next_beta RN ess tol rN beta fuel = Some (b, e) ->
  beta < b <= 1 /\ (forall s, bisect RN ess tol rN beta fuel = Some s -> (1 <= b_new RN s -> b = 1) /\ (b_new RN s < 1 -> b = b_new RN s)).
Proof.
  intros Hb Ht E. unfold next_beta in E. destruct (bisect RN ess tol rN beta fuel) as [s|] eqn:B; [|discriminate]. inversion E; subst.
  destruct (bisect_spec beta fuel s ltac:(lra) B) as (H1 & _).
  unfold clamp. cbn [nleb nofZ RN T]. destruct (Rleb 1 (b_new RN s)) eqn:C.
  - apply Rleb_true in C. split; [lra|]. intros s' Es. inversion Es; subst. split; [reflexivity|lra].
  - apply Rleb_false in C. split; [lra|]. intros s' Es. inversion Es; subst. split; [lra|reflexivity].
Qed.
(* 28 halvings of a width at most 2 bring it below 1e-8: the loop terminates *)
Theorem bisect_terminates beta : 0 <= beta -> beta < 2 -> tol = 1 / 10 ^ 8 -> bisect RN ess tol rN beta 29 <> None.
Proof.
  intros H0 H2 Ht. unfold bisect. apply bloop_terminates; unfold width; cbn [b_max b_min]; unfold two; cbn [nofZ RN T]; [lra|].
  rewrite Ht. assert (2 <= 1 / 10 ^ 8 * 2 ^ 29) by (cbn [pow]; lra). lra.
Qed.
End B.

(* when the effective sample size does not increase with the exponent (it does not for weights L^increment), every exponent at or
   beyond b_max misses the target: the chosen exponent is within tol of the largest admissible one *)
Theorem bisect_largest (ess : nat -> R -> Z) (tol rN : R) beta fuel s :
  0 < tol -> tol < 2 - beta -> (forall k k' x y, x <= y -> (ess k' y <= ess k x)%Z) ->
  bisect RN ess tol rN beta fuel = Some s -> b_hit RN s = false ->
  b_max RN s - b_new RN s <= tol /\ (b_max RN s < 2 -> forall k y, b_max RN s <= y -> IZR (ess k y) < rN).
Proof.
  intros Ht Hb Hmono E Hh. destruct (bisect_spec ess tol rN Ht beta fuel s Hb E) as (H1 & H2 & H3 & H4 & H5 & H6 & H7).
  split; [destruct H4 as [H4|H4]; [congruence|lra]|].
  intros Hlt k y Hy. destruct H6 as [H6|[k0 H6]]; [lra|]. eapply Rle_lt_trans; [|exact H6]. apply IZR_le. apply Hmono; exact Hy.
Qed.

(* ---------- importance weights ---------- *)
Lemma nth_map_R (f : R -> R) (l : list R) k : (k < length l)%nat -> nth k (map f l) 0 = f (nth k l 0).
Proof. intros H. rewrite (nth_indep (map f l) 0 (f 0)) by (rewrite map_length; exact H). apply map_nth. Qed.
Definition wts (inc : R) (ls : list R) (M : R) : list R := map (fun l => exp (inc * (l - M))) ls.
Definition normalise (w : list R) : list R := map (fun x => x / Rsum w) w.
Lemma Rsum_pos_exp inc ls M : ls <> [] -> 0 < Rsum (wts inc ls M).
Proof. destruct ls as [|l ls]; [congruence|]. intros _. unfold wts. cbn [map Rsum].
  assert (0 <= Rsum (map (fun l0 => exp (inc * (l0 - M))) ls)).
  { apply Rsum_nonneg. apply Forall_forall. intros x Hx. apply in_map_iff in Hx. destruct Hx as (y & <- & _). left; apply exp_pos. }
  pose proof (exp_pos (inc * (l - M))). lra. Qed.
Lemma Rsum_scale (c : R) (w : list R) : Rsum (map (fun x => x / c) w) = Rsum w / c.
Proof. induction w as [|x w IH]; cbn [map Rsum]; [lra|]. rewrite IH. lra. Qed.
Theorem weights_probability inc ls M : ls <> [] ->
  let w := normalise (wts inc ls M) in
  Rsum w = 1 /\ Forall (fun x => 0 < x) w /\
  (forall i j, (i < length ls)%nat -> (j < length ls)%nat -> nth i w 0 / nth j w 0 = exp (inc * (nth i ls 0 - nth j ls 0))).
Proof.
  intros Hne. cbv zeta. pose proof (Rsum_pos_exp inc ls M Hne) as P. unfold normalise. split; [|split].
  - rewrite Rsum_scale. field. lra.
  - apply Forall_forall. intros x Hx. apply in_map_iff in Hx. destruct Hx as (y & <- & Hy). unfold wts in Hy. apply in_map_iff in Hy. destruct Hy as (l & <- & _).
    apply Rdiv_lt_0_compat; [apply exp_pos|exact P].
  - intros i j Hi Hj. set (S := Rsum (wts inc ls M)) in *.
    assert (N : forall k, (k < length ls)%nat -> nth k (map (fun x => x / S) (wts inc ls M)) 0 = exp (inc * (nth k ls 0 - M)) / S).
    { intros k Hk. rewrite nth_map_R by (unfold wts; rewrite map_length; exact Hk). f_equal. unfold wts. rewrite nth_map_R by exact Hk. reflexivity. }
    rewrite !N by assumption. replace (inc * (nth i ls 0 - nth j ls 0)) with (inc * (nth i ls 0 - M) - inc * (nth j ls 0 - M)) by ring.
    set (A := inc * (nth i ls 0 - M)). set (B := inc * (nth j ls 0 - M)). replace (A - B) with (A + - B) by ring. rewrite exp_plus, exp_Ropp.
    pose proof (exp_pos B). field. split; lra.
Qed.

(* ---------- Metropolis-Hastings over the reals extended by -inf, +inf and nan ---------- *)
Inductive xr := XFin (r : R) | XNegInf | XPosInf | XNaN.
Definition xadd (a b : xr) : xr :=
  match a, b with
  | XFin x, XFin y => XFin (x + y) | XNaN, _ | _, XNaN => XNaN
  | XNegInf, XPosInf | XPosInf, XNegInf => XNaN
  | XNegInf, _ | _, XNegInf => XNegInf | XPosInf, _ | _, XPosInf => XPosInf end.
Definition xopp (a : xr) : xr := match a with XFin x => XFin (- x) | XNegInf => XPosInf | XPosInf => XNegInf | XNaN => XNaN end.
Definition xsub (a b : xr) : xr := xadd a (xopp b).
Definition xmul (a b : xr) : xr :=
  match a, b with
  | XFin x, XFin y => XFin (x * y) | XNaN, _ | _, XNaN => XNaN
  | XFin x, i | i, XFin x => if Rltb 0 x then i else if Rltb x 0 then xopp i else XNaN
  | XNegInf, XNegInf | XPosInf, XPosInf => XPosInf | _, _ => XNegInf end.
Definition xfinite (a : xr) : bool := match a with XFin _ => true | _ => false end.
Definition xltb (a b : xr) : bool :=
  match a, b with XFin x, XFin y => Rltb x y | XNaN, _ | _, XNaN => false | XNegInf, XNegInf => false | XNegInf, _ => true
                | _, XPosInf => match a with XPosInf => false | _ => true end | _, _ => false end.
Definition XR : ENum := mkE xr xadd xsub xmul xfinite xltb XNegInf.

Section MHR.
Variable P : Type.
Variable padd : P -> P -> P.
Variable log_prior log_lik : P -> xr.
Variable beta : xr.
Notation st := (mstate XR P).
Notation step := (mh_step XR P padd log_prior log_lik beta).
Definition in_support (s : st) : Prop := xfinite (log_prior (m_cur XR P s)) = true.
Definition consistent (s : st) : Prop :=
  m_lik XR P s = log_lik (m_cur XR P s) /\ m_post XR P s = xadd (log_prior (m_cur XR P s)) (xmul (m_lik XR P s) beta).

Lemma xsub_finite a b : xfinite (xsub a b) = true -> xfinite a = true /\ xfinite b = true.
Proof. destruct a, b; cbn; auto; discriminate. Qed.

(* one move: either the state is unchanged, or the proposal was accepted: then it has finite prior (inside the support) and the
   stored values are its log-likelihood and its tempered log-posterior *)
Theorem mh_step_cases (s : st) (d : P) (u : xr) :
  step s (d, u) = s \/
  (let q := padd (m_cur XR P s) d in
   step s (d, u) = mkM XR P q (log_lik q) (xadd (log_prior q) (xmul (log_lik q) beta)) (S (m_acc XR P s)) /\
   xfinite (log_prior q) = true /\
   xfinite (xsub (xadd (log_prior q) (xmul (log_lik q) beta)) (m_post XR P s)) = true /\
   xltb u (xsub (xadd (log_prior q) (xmul (log_lik q) beta)) (m_post XR P s)) = true).
Proof.
  unfold mh_step. cbn [fst snd efinite eadd esub emul eltb eneginf XR ET].
  destruct (xfinite (log_prior (padd (m_cur XR P s) d))) eqn:F.
  - destruct (xfinite (xsub _ _) && xltb u (xsub _ _)) eqn:A; [|left; reflexivity]. right. apply andb_true_iff in A. cbv zeta. tauto.
  - destruct (xfinite (xsub XNegInf (m_post XR P s)) && _) eqn:A; [|left; reflexivity]. exfalso. apply andb_true_iff in A. destruct A as [A _].
    apply xsub_finite in A. destruct A as [A _]. discriminate.
Qed.
(* a rejected move is exactly one whose acceptance test fails *)
Theorem mh_step_rejects (s : st) (d : P) (u : xr) :
  let q := padd (m_cur XR P s) d in
  let post := if xfinite (log_prior q) then xadd (log_prior q) (xmul (log_lik q) beta) else XNegInf in
  xfinite (xsub post (m_post XR P s)) && xltb u (xsub post (m_post XR P s)) = false -> step s (d, u) = s.
Proof.
  cbv zeta. unfold mh_step. cbn [fst snd efinite eadd esub emul eltb eneginf XR ET].
  destruct (xfinite (log_prior (padd (m_cur XR P s) d))); intros H; rewrite H; reflexivity.
Qed.
Theorem mh_step_support s d (u : xr) : in_support s -> in_support (step s (d, u)).
Proof. intros H. destruct (mh_step_cases s d u) as [E|C]; [rewrite E; exact H|]. cbv zeta in C. destruct C as (E & F & _). unfold in_support. rewrite E. exact F. Qed.
Theorem mh_step_consistent s d (u : xr) : consistent s -> consistent (step s (d, u)).
Proof. intros H. destruct (mh_step_cases s d u) as [E|C]; [rewrite E; exact H|]. cbv zeta in C. destruct C as (E & _). rewrite E. split; reflexivity. Qed.
(* any number of mutation steps *)
Theorem mh_support s steps : in_support s -> in_support (mh XR P padd log_prior log_lik beta s steps).
Proof. revert s; induction steps as [|[d u] steps IH]; intros s H; cbn [mh fold_left]; [exact H|]. apply IH. apply (mh_step_support s d u); exact H. Qed.
Theorem mh_consistent s steps : consistent s -> consistent (mh XR P padd log_prior log_lik beta s steps).
Proof. revert s; induction steps as [|[d u] steps IH]; intros s H; cbn [mh fold_left]; [exact H|]. apply IH. apply (mh_step_consistent s d u); exact H. Qed.
(* a whole stage: every particle of the trace stays inside the prior support *)
Theorem stage_support (particles : list st) (moves : list (list (P * xr))) :
  Forall in_support particles -> Forall in_support (map (fun sm => mh XR P padd log_prior log_lik beta (fst sm) (snd sm)) (combine particles moves)).
Proof. intros H. revert moves. induction H as [|s l Hs H IH]; intros [|m moves]; cbn [combine map]; constructor; auto. apply mh_support; exact Hs. Qed.
Lemma mh_step_acc s d (u : xr) : (m_acc XR P s <= m_acc XR P (step s (d, u)) <= S (m_acc XR P s))%nat.
Proof. destruct (mh_step_cases s d u) as [E|C]; [rewrite E; lia|]. cbv zeta in C. destruct C as (E & _). rewrite E. cbn [m_acc]. lia. Qed.
Theorem mh_accepts_count s steps : (m_acc XR P s <= m_acc XR P (mh XR P padd log_prior log_lik beta s steps) <= m_acc XR P s + length steps)%nat.
Proof. revert s; induction steps as [|[d u] steps IH]; intros s; cbn [mh fold_left length]; [lia|]. specialize (IH (step s (d, u))).
  pose proof (mh_step_acc s d u) as [A1 A2]. destruct IH as [I1 I2]. split.
  - eapply Nat.le_trans; [exact A1|exact I1].
  - eapply Nat.le_trans; [exact I2|]. apply Nat.le_trans with (S (m_acc XR P s) + length steps)%nat; [apply Nat.add_le_mono_r; exact A2|lia]. Qed.
End MHR.

(* accepting when log u < log ratio is accepting when u < ratio: probability min(1, ratio) for a uniform draw u in (0, 1) *)
Theorem log_accept_iff (u a : R) : 0 < u -> (ln u < a <-> u < exp a).
Proof. intros Hu. split; intros H.
  - rewrite <- (exp_ln u Hu). apply exp_increasing. exact H.
  - rewrite <- (ln_exp a). apply ln_increasing; assumption. Qed.
