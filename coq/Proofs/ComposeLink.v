(* The compositional formulation (Proofs/Compose.v) subsumes the original one (Proofs/Frechet.v): a selection of one point per focal step is a
   sample bounded by the p-box, a permutation coupling re-indexes one of the two samples, and frechet_bounds then gives the statement of
   frechet_op_sound. *)
From Coq Require Import Reals Lra List Arith Lia Bool Permutation Sorted.
From PUN Require Import Base.Num Base.Sort Model.Interval Model.Pbox Proofs.ListR Proofs.Frechet Proofs.Compose Proofs.ComposeNaive Proofs.ComposeOps.
Import ListNotations.
Open Scope R_scope.

(* one point per step of a p-box with sorted bounds = a bounded sample *)
Lemma selection_bounds (L Rr x : list R) : Rsorted L -> Rsorted Rr -> length Rr = length L -> length x = length L ->
  (forall j, (j < length L)%nat -> nth j L 0 <= nth j x 0 <= nth j Rr 0) -> bounds L Rr x.
Proof.
  intros SL SR LR Lx H. split; [exact Lx|]. split; [exact LR|]. intros s Hs Hss i Hi.
  assert (E : s = Rsort x) by (apply Rsorted_perm_eq; auto; [apply Rsort_sorted|eapply Permutation_trans; [exact Hs|apply Rsort_perm]]).
  subst s. rewrite <- (Rsort_id L SL) at 1. rewrite <- (Rsort_id Rr SR).
  split; apply sort_pointwise_le; try lia; intros j Hj; apply H; lia.
Qed.
(* re-indexing by a permutation of the outcomes *)
Lemma reindex_perm (y : list R) (pi : list nat) n : length y = n -> Permutation pi (seq 0 n) ->
  Permutation y (map (fun j => nth (nth j pi 0%nat) y 0) (seq 0 n)).
Proof.
  intros Ly Hp.
  assert (E : map (fun j => nth (nth j pi 0%nat) y 0) (seq 0 n) = map (fun k => nth k y 0) pi).
  { transitivity (map (fun k => nth k y 0) (map (fun j => nth j pi 0%nat) (seq 0 (length pi)))); [rewrite map_map, (Permutation_length Hp), seq_length; reflexivity|rewrite map_nth_seq; reflexivity]. }
  rewrite E. apply Permutation_sym. eapply Permutation_trans; [apply Permutation_map; exact Hp|].
  rewrite <- Ly. clear. induction y as [|a y IH] using rev_ind; [apply Permutation_refl|].
  rewrite app_length. cbn [length]. rewrite Nat.add_1_r, seq_S, map_app. cbn [map Nat.add].
  rewrite app_nth2 by lia. rewrite Nat.sub_diag. cbn [nth].
  apply Permutation_app_tail. erewrite map_ext_in; [exact IH|]. intros k Hk. apply in_seq in Hk. apply app_nth1. lia.
Qed.

Theorem frechet_op_sound_from_compose (op : R -> R -> R) (D : R -> Prop) n (XL XR YL YR x y : list R) (pi : list nat) (s : list R) :
  (forall a a', D a -> a <= a' -> D a') ->
  (forall a a' b b', D a -> D b -> a <= a' -> b <= b' -> op a b <= op a' b') ->
  length XL = n -> length XR = n -> length YL = n -> length YR = n ->
  Rsorted XL -> Rsorted XR -> Rsorted YL -> Rsorted YR ->
  (forall j, (j < n)%nat -> D (nth j XL 0)) -> (forall j, (j < n)%nat -> D (nth j YL 0)) ->
  length x = n -> length y = n ->
  (forall j, (j < n)%nat -> nth j XL 0 <= nth j x 0 <= nth j XR 0) ->
  (forall j, (j < n)%nat -> nth j YL 0 <= nth j y 0 <= nth j YR 0) ->
  Permutation pi (seq 0 n) ->
  Permutation s (zs op n x y pi) -> Rsorted s ->
  forall i, (i < n)%nat ->
    nth i (fst (frechet_op RN op XL XR YL YR)) 0 <= nth i s 0 <= nth i (snd (frechet_op RN op XL XR YL YR)) 0.
Proof.
  intros Dup Hm lXL lXR lYL lYR sXL sXR sYL sYR DXL DYL lx ly Hx Hy Hpi Hs Hss i Hi.
  set (y' := map (fun j => nth (nth j pi 0%nat) y 0) (seq 0 n)).
  assert (Bx : bounds XL XR x) by (apply selection_bounds; auto; try lia; intros j Hj; apply Hx; lia).
  assert (By : bounds YL YR y') by (apply (bounds_perm _ _ y); [apply reindex_perm; auto|apply selection_bounds; auto; try lia; intros j Hj; apply Hy; lia]).
  assert (Ez : zs op n x y pi = map2 op x y').
  { unfold zs, y', p. rewrite (map2_as_seq op x _ n lx) by (rewrite map_length, seq_length; reflexivity).
    apply map_ext_in. intros j Hj. apply in_seq in Hj. rewrite (nth_map_seq_gen _ n j 0) by lia. reflexivity. }
  rewrite Ez in Hs.
  destruct (frechet_bounds op D XL XR YL YR x y' Dup Hm ltac:(lia) ltac:(intros; apply DXL; lia) ltac:(intros; apply DYL; lia) Bx By) as (_ & _ & H).
  apply (H s Hs Hss i). destruct (frechet_op_lengths op XL XR YL YR) as (L1 & _). cbn [T RN] in *. rewrite L1, lXL. exact Hi.
Qed.
