(* C07: "interval op precise-distribution gives the distribution ... scaled by the interval".
   A non-negative interval a times a non-negative precise distribution (left = right = q), under perfect and under opposite dependence,
   is the distribution scaled by the interval: the p-box with bounds fst a * q and snd a * q. *)
From Coq Require Import Reals Lra Lia List Arith Bool Permutation.
From PUN Require Import Base.Num Base.Sort Model.Interval Model.Pbox Model.PboxBase Model.PboxArith
  Proofs.ListR Proofs.IntervalOps Proofs.PboxWF Proofs.DepOps Proofs.WFExpr Proofs.Hier.
Import ListNotations.
Open Scope R_scope.

Lemma fst_combine {A B} (l : list A) : forall l' : list B, length l = length l' -> map fst (combine l l') = l.
Proof. induction l as [|x l IH]; intros [|b l'] H; cbn in *; try lia; auto. f_equal. apply IH; lia. Qed.
Lemma snd_combine {A B} (l : list A) : forall l' : list B, length l = length l' -> map snd (combine l l') = l'.
Proof. induction l as [|x l IH]; intros [|b l'] H; cbn in *; try lia; auto. f_equal. apply IH; lia. Qed.

Section Scale.
Variable steps : nat.
Variables plo phi : R.
Notation E := (embed steps).
Variable a : R * R.
Variable q : list R.
Hypothesis Wa : wfp a.
Hypothesis Pa : 0 <= fst a.
Hypothesis Lq : length q = steps.
Hypothesis Sq : Rsorted q.
Hypothesis Pq : Forall (fun x => 0 <= x) q.
Definition scaled : list R * list R := (map (Rmult (fst a)) q, map (Rmult (snd a)) q).

Lemma scale_mono c : 0 <= c -> forall x y, x <= y -> c * x <= c * y.
Proof. intros; nra. Qed.
Lemma scaled_ok : mk_staircase RN steps plo phi (fst scaled) (snd scaled) = Ok scaled.
Proof. unfold wfp in Wa. unfold scaled, mk_staircase; cbn [fst snd]. apply mk_ordered; rewrite ?map_length; auto; try (apply map_mono_sorted; auto; apply scale_mono; lra).
  apply nth_ple; [rewrite !map_length; reflexivity|]. intros i Hi. rewrite map_length in Hi.
  rewrite (nth_indep (map (Rmult (fst a)) q) 0 (fst a * 0)), (nth_indep (map (Rmult (snd a)) q) 0 (snd a * 0)) by (rewrite map_length; lia).
  rewrite !map_nth. assert (0 <= nth i q 0) by (rewrite Forall_forall in Pq; apply Pq, nth_In; exact Hi). nra. Qed.
Lemma istep_scale : forall l : list R, Forall (fun x => 0 <= x) l ->
  map2 (istep Rmult) (repeat a (length l)) (combine l l) = combine (map (Rmult (fst a)) l) (map (Rmult (snd a)) l).
Proof. induction l as [|x l IH]; intros Hl; [reflexivity|]. inversion Hl; subst. cbn [length repeat combine map2 map]. f_equal; [|apply IH; assumption].
  unfold istep. rewrite hull_mul_nonneg; [reflexivity|exact Wa|unfold wfp; cbn; lra|exact Pa|cbn; assumption]. Qed.

Theorem scale_perfect : pmul RN steps plo phi DP (E a) (q, q) = Ok scaled.
Proof.
  unfold wfp in Wa. unfold pmul. cbn [dep_op nmul RN fst snd]. unfold embed; cbn [fst snd].
  rewrite perfect_op_spec by (rewrite ?repeat_length; lia). rewrite combine_repeat.
  replace (repeat (fst a, snd a) steps) with (repeat a (length q)) by (rewrite Lq; destruct a; reflexivity).
  rewrite istep_scale, fst_combine, snd_combine by (rewrite ?map_length; auto).
  rewrite !Rsort_id by (apply map_mono_sorted; auto; apply scale_mono; lra). apply scaled_ok.
Qed.
Theorem scale_opposite : pmul RN steps plo phi DO (E a) (q, q) = Ok scaled.
Proof.
  unfold wfp in Wa. unfold pmul. cbn [dep_op nmul RN fst snd]. unfold embed; cbn [fst snd].
  rewrite opposite_op_spec by (rewrite ?repeat_length; lia). rewrite combine_repeat.
  replace (rev (combine q q)) with (combine (rev q) (rev q)) by (apply combine_rev; reflexivity).
  replace (repeat (fst a, snd a) steps) with (repeat a (length (rev q))) by (rewrite rev_length, Lq; destruct a; reflexivity).
  rewrite istep_scale, fst_combine, snd_combine by (rewrite ?map_length; auto; apply Forall_rev; exact Pq).
  assert (P : forall c, 0 <= c -> Rsort (map (Rmult c) (rev q)) = map (Rmult c) q).
  { intros c Hc. rewrite (Rsort_of_perm _ (map (Rmult c) q)) by (apply Permutation_map, Permutation_sym, Permutation_rev).
    apply Rsort_id. apply map_mono_sorted; auto; apply scale_mono; exact Hc. }
  rewrite !P by lra. apply scaled_ok.
Qed.
End Scale.

(* ---------- the same under no dependence assumption (the default, Frechet): strictly positive upper ends route the product to the classic
   Frechet kernel, whose maxima / minima over the anti-diagonals are attained at the last / first element of the sorted distribution ---------- *)
Lemma maxl_scale (c : R) (l : list R) : 0 <= c -> l <> [] -> maxl RN (map (Rmult c) l) = c * maxl RN l.
Proof. intros Hc Hne. apply Rle_antisym.
  - apply maxl_le_all; [intro E; apply map_eq_nil in E; contradiction|]. intros v Hv. apply in_map_iff in Hv. destruct Hv as (x & <- & Hx). pose proof (maxl_ge l x Hx). nra.
  - pose proof (maxl_in l Hne) as Hin. apply maxl_ge. apply in_map. exact Hin. Qed.
Lemma minl_scale (c : R) (l : list R) : 0 <= c -> l <> [] -> minl RN (map (Rmult c) l) = c * minl RN l.
Proof. intros Hc Hne. apply Rle_antisym.
  - pose proof (minl_in l Hne) as Hin. apply minl_le. apply in_map. exact Hin.
  - apply minl_ge_all; [intro E; apply map_eq_nil in E; contradiction|]. intros v Hv. apply in_map_iff in Hv. destruct Hv as (x & <- & Hx). pose proof (minl_le l x Hx). nra. Qed.
Lemma last_repeat (c : R) k : last (repeat c (S k)) 0 = c.
Proof. induction k as [|k IH]; [reflexivity|]. change (repeat c (S (S k))) with (c :: repeat c (S k)). cbn [last]. cbn [repeat] in *. exact IH. Qed.

Section ScaleF.
Variable steps : nat.
Variables plo phi : R.
Variable a : R * R.
Variable q : list R.
Hypothesis Wa : wfp a.
Hypothesis Pa : 0 <= fst a.
Hypothesis Pa2 : 0 < snd a.
Hypothesis Lq : length q = steps.
Hypothesis Sq : Rsorted q.
Hypothesis Pq : Forall (fun x => 0 <= x) q.
Hypothesis Pq2 : 0 < last q 0.
Theorem scale_frechet : pmul RN steps plo phi DF (embed steps a) (q, q) = Ok (scaled a q).
Proof.
  assert (Hs : (0 < steps)%nat). { destruct q as [|x r]; [cbn in Pq2; lra|cbn in Lq; lia]. }
  destruct steps as [|k] eqn:Ek; [lia|]. rewrite <- Ek in *.
  unfold wfp in Wa. unfold pmul, frechet_mul, mul_fuel. cbn [m_frechet_pbox_mul].
  assert (Z1 : straddles_zero RN (embed steps a) = false).
  { unfold straddles_zero, embed; cbn [fst snd]. rewrite Ek, minl_repeat. cbn [nltb RN T nzero nofZ]. rewrite (proj2 (Rltb_false _ _)) by (cbn; lra). reflexivity. }
  assert (Z2 : straddles_zero RN (q, q) = false).
  { unfold straddles_zero; cbn [fst snd]. assert (Hne : q <> []) by (intro E0; subst q; cbn in Lq; lia).
    pose proof (minl_in q Hne) as Hin. rewrite Forall_forall in Pq. specialize (Pq _ Hin). cbn [nltb RN T nzero nofZ].
    rewrite (proj2 (Rltb_false _ _)) by (cbn; lra). reflexivity. }
  rewrite Z1, Z2. cbn [orb].
  assert (H1 : nleb RN (p_hi_ RN (embed steps a)) nzero = false).
  { unfold p_hi_, lastn, embed; cbn [fst snd]. rewrite Ek. change (@nzero RN) with 0. rewrite last_repeat. cbn [nleb RN]. apply Rleb_false. cbn. lra. }
  assert (H2 : nleb RN (p_hi_ RN (q, q)) nzero = false).
  { unfold p_hi_, lastn; cbn [fst snd]. change (@nzero RN) with 0. cbn [nleb RN]. apply Rleb_false. cbn. lra. }
  rewrite H1, H2. cbn [orb]. unfold m_classic_frechet_pbox.
  unfold embed, frechet_op; cbn [fst snd T RN]. rewrite repeat_length. change (nsort RN) with Rsort.
  assert (L : map (frechet_left RN Rmult (repeat (fst a) steps) q) (seq 0 steps) = map (Rmult (fst a)) q).
  { rewrite <- (map_nth_seq_R q) at 2. rewrite map_map, Lq. apply map_ext_in. intros i Hi. apply in_seq in Hi. unfold frechet_left. cbn [T RN].
    rewrite firstn_repeat_c by lia. rewrite map2_repeat_l by (rewrite rev_length, firstn_length; lia).
    assert (Ne : firstn (S i) q <> []) by (intro E0; apply (f_equal (@length R)) in E0; rewrite firstn_length in E0; cbn [length] in E0; lia).
    rewrite maxl_scale by (auto; intro E0; apply (f_equal (@rev R)) in E0; rewrite rev_involutive in E0; contradiction).
    rewrite maxl_rev by exact Ne. rewrite maxl_prefix_sorted by (auto; lia). reflexivity. }
  assert (R' : map (frechet_right RN Rmult (repeat (snd a) steps) q) (seq 0 steps) = map (Rmult (snd a)) q).
  { rewrite <- (map_nth_seq_R q) at 2. rewrite map_map, Lq. apply map_ext_in. intros i Hi. apply in_seq in Hi. unfold frechet_right. cbn [T RN].
    rewrite skipn_repeat_c. rewrite map2_repeat_l by (rewrite rev_length, skipn_length; lia).
    assert (Ne : skipn i q <> []) by (intro E0; apply (f_equal (@length R)) in E0; rewrite skipn_length in E0; cbn [length] in E0; lia).
    rewrite minl_scale by (try lra; intro E0; apply (f_equal (@rev R)) in E0; rewrite rev_involutive in E0; contradiction).
    rewrite minl_rev by exact Ne. rewrite minl_suffix_sorted by (auto; lia). reflexivity. }
  match goal with |- rbind (mk_staircase _ _ _ _ (Rsort ?x) (Rsort ?y)) _ = _ => replace x with (map (Rmult (fst a)) q) by (symmetry; exact L); replace y with (map (Rmult (snd a)) q) by (symmetry; exact R') end.
  rewrite !Rsort_id by (apply map_mono_sorted; auto; apply scale_mono; lra).
  change (mk_staircase RN steps plo phi (fst (scaled a q)) (snd (scaled a q))) with (mk_staircase RN steps plo phi (map (Rmult (fst a)) q) (map (Rmult (snd a)) q)).
  pose proof (scaled_ok steps plo phi a q) as OKs. repeat (specialize (OKs ltac:(assumption))). unfold scaled in OKs; cbn [fst snd] in OKs. rewrite OKs. reflexivity.
Qed.
End ScaleF.
