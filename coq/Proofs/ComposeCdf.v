(* Quantile bounds are cdf bounds: a p-box that bounds a sample (sorted sample inside the steps) bounds its empirical distribution function -
   at every abscissa x, the number of sample values <= x lies between the number of right bounds <= x and the number of left bounds <= x. *)
From Coq Require Import Reals Lra List Arith Lia Bool Permutation Sorted.
From PUN Require Import Base.Num Base.Sort Model.Interval Model.Pbox Proofs.ListR Proofs.Compose.
Import ListNotations.
Open Scope R_scope.

Theorem counts_bound_sample (L Rr u : list R) (x : R) : bounds L Rr u ->
  (cnt (fun a => Rleb a x) Rr <= cnt (fun a => Rleb a x) u <= cnt (fun a => Rleb a x) L)%nat.
Proof.
  intros (Hu & Hr & H). specialize (H (Rsort u) (Permutation_sym (Rsort_perm u)) (Rsort_sorted u)).
  rewrite (cnt_perm _ _ _ _ (Rsort_perm u)). split; apply cnt_pointwise; rewrite ?Rsort_length; try lia.
  - intros i Hi E. apply Rleb_true in E. apply Rleb_true. specialize (H i ltac:(lia)). cbn [T RN] in *. lra.
  - intros i Hi E. apply Rleb_true in E. apply Rleb_true. specialize (H i ltac:(lia)). cbn [T RN] in *. lra.
Qed.
