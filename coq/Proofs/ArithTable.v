(* The translated sign tables of pba/intervals/arithmetic.py compute the exact corner hull. *)
From Coq Require Import Reals Lra Psatz Bool ZArith.
From PUN Require Import Base.Num Gen.GenArith Proofs.Hull.
Open Scope R_scope.

Ltac case_cmp :=
  repeat match goal with
  | |- context [Rleb ?a ?b] => destruct (Rleb_spec a b); try (exfalso; lra)
  | |- context [Rltb ?a ?b] => destruct (Rltb_spec a b); try (exfalso; lra)
  end.

Ltac pick4 := first [left; ring | right; left; ring | right; right; left; ring | right; right; right; ring].
Ltac atomise :=
  repeat match goal with |- context [?a * ?b] => 
     let v := fresh "p" in (is_var a; is_var b; generalize (a * b); intro v) end.
Ltac close_min :=
  first [ apply min4_eq; [pick4 | nra | nra | nra | nra]
        | unfold min4, Rmin; repeat destruct (Rle_dec _ _); lra ].
Ltac close_max :=
  first [ apply max4_eq; [pick4 | nra | nra | nra | nra]
        | unfold max4, Rmax; repeat destruct (Rle_dec _ _); lra ].

Ltac hull_tac f :=
  unfold f; cbn [nleb nltb nmul ndiv nofZ RN T]; rewrite ?nmin_R, ?nmax_R;
  case_cmp; cbn [andb]; (apply f_equal2; [apply f_equal; symmetry; close_min | apply f_equal; symmetry; close_max]).

Definition mul_hull (sl sh ol oh : R) :=
  (Some (min4 (sl*ol) (sl*oh) (sh*ol) (sh*oh)), Some (max4 (sl*ol) (sl*oh) (sh*ol) (sh*oh))).

Lemma mul_ss_hull sl sh ol oh : sl <= sh -> ol <= oh -> mul_ss RN sl sh ol oh = mul_hull sl sh ol oh.
Proof. intros Hs Ho. unfold mul_hull. Time hull_tac mul_ss. Time Qed.
Lemma mul_vv_hull sl sh ol oh : sl <= sh -> ol <= oh -> mul_vv RN sl sh ol oh = mul_hull sl sh ol oh.
Proof. intros Hs Ho. unfold mul_hull. hull_tac mul_vv. Qed.
Lemma mul_sv_hull sl sh ol oh : sl <= sh -> ol <= oh -> mul_sv RN sl sh ol oh = mul_hull sl sh ol oh.
Proof. intros Hs Ho. unfold mul_hull. hull_tac mul_sv. Qed.
Lemma mul_vs_hull sl sh ol oh : sl <= sh -> ol <= oh -> mul_vs RN sl sh ol oh = mul_hull sl sh ol oh.
Proof. intros Hs Ho. unfold mul_hull. hull_tac mul_vs. Qed.

(* ---------- quotient ---------- *)
Lemma inv_pos_order ol oh : 0 < ol -> ol <= oh -> 0 < / oh <= / ol.
Proof. intros. split; [apply Rinv_0_lt_compat; lra | apply Rinv_le_contravar; lra]. Qed.
Lemma inv_neg_order ol oh : oh < 0 -> ol <= oh -> / oh <= / ol < 0.
Proof. intros. split; [| apply Rinv_lt_0_compat; lra].
  apply Ropp_le_cancel. rewrite <- !Rinv_opp. apply Rinv_le_contravar; lra. Qed.

Definition div_hull (sl sh ol oh : R) :=
  (Some (min4 (sl/ol) (sl/oh) (sh/ol) (sh/oh)), Some (max4 (sl/ol) (sl/oh) (sh/ol) (sh/oh))).

Ltac div_tac f :=
  match goal with
  | Hs : _ <= _, Ho : ?ol <= ?oh, Hg : _ \/ _ |- _ =>
    unfold f, div_hull; cbn [nleb nltb nmul ndiv nofZ RN T]; rewrite ?nmin_R, ?nmax_R; unfold Rdiv;
    destruct Hg as [Hg|Hg];
    [ pose proof (inv_pos_order ol oh Hg Ho) | pose proof (inv_neg_order ol oh Hg Ho) ];
    case_cmp; cbn [andb];
    set (il := / ol) in *; set (ih := / oh) in *; clearbody il ih;
    (apply f_equal2; [apply f_equal; symmetry; close_min | apply f_equal; symmetry; close_max])
  end.

Lemma div_ss_hull sl sh ol oh : sl <= sh -> ol <= oh -> (0 < ol \/ oh < 0) -> div_ss RN sl sh ol oh = div_hull sl sh ol oh.
Proof. intros Hs Ho Hg. Time div_tac div_ss. Time Qed.
Lemma div_vv_hull sl sh ol oh : sl <= sh -> ol <= oh -> (0 < ol \/ oh < 0) -> div_vv RN sl sh ol oh = div_hull sl sh ol oh.
Proof. intros Hs Ho Hg. div_tac div_vv. Qed.
Lemma div_sv_hull sl sh ol oh : sl <= sh -> ol <= oh -> (0 < ol \/ oh < 0) -> div_sv RN sl sh ol oh = div_hull sl sh ol oh.
Proof. intros Hs Ho Hg. div_tac div_sv. Qed.
Lemma div_vs_hull sl sh ol oh : sl <= sh -> ol <= oh -> (0 < ol \/ oh < 0) -> div_vs RN sl sh ol oh = div_hull sl sh ol oh.
Proof. intros Hs Ho Hg. div_tac div_vs. Qed.
Lemma div_guard_present : div_has_guard = true.
Proof. reflexivity. Qed.
