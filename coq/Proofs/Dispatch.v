(* C07: the operator table installed on Dempster-Shafer structures (translated from mixins.py) computes
   self op other for every forward dunder and other op self for every reflected dunder. *)
From Coq Require Import String List Bool.
From PUN Require Import Gen.GenDispatch Model.Dispatch.
Import ListNotations.
Open Scope string_scope.

Section D.
Variable V : Type.
Variable bin : string -> V -> V -> V.
Theorem forward_ok : forall fwd refl, In (fwd, refl) refl_names ->
  forall self other : V, dss_dunder V bin fwd self other = Some (bin fwd self other).
Proof. intros fwd refl H self other. cbn in H. repeat (destruct H as [H|H]; [inversion H; subst; reflexivity|]). contradiction. Qed.
Theorem reflected_ok : forall fwd refl, In (fwd, refl) refl_names ->
  forall self other : V, dss_dunder V bin refl self other = Some (bin fwd other self).
Proof. intros fwd refl H self other. cbn in H. repeat (destruct H as [H|H]; [inversion H; subst; reflexivity|]). contradiction. Qed.
End D.
