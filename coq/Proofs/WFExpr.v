(* C04: whatever the Staircase constructor accepts from pointwise ordered bounds is well formed, every modelled operation
   hands ordered bounds to the constructor, hence every expression of any depth evaluates to a well-formed p-box or raises. *)
From Coq Require Import Reals Lra List Arith Lia Bool Permutation Sorted.
From PUN Require Import Base.Num Base.Sort Model.Interval Model.Pbox Model.PboxArith Model.PExpr
  Proofs.ListR Proofs.PboxWF Proofs.PboxUnary Proofs.Hull Proofs.DepOps Proofs.Lattice Proofs.Iso.
From PUN Require Import Proofs.CtorFinite.
Import ListNotations.
Open Scope R_scope.

Lemma is_increasing_true_sorted (l : list R) : is_increasing RN l = true -> Rsorted l.
Proof.
  intros H. apply nth_Rsorted. induction l as [|a l IH]; intros i j Hij; cbn [length] in Hij; [lia|].
  destruct l as [|b l]; [cbn [length] in Hij; assert (i = 0 /\ j = 0)%nat as [-> ->] by lia; lra|].
  change (is_increasing RN (a :: b :: l)) with (Rleb 0 (b - a) && is_increasing RN (b :: l)) in H.
  apply andb_true_iff in H. destruct H as [Hab Hr]. apply Rleb_true in Hab.
  specialize (IH Hr). destruct i as [|i]; destruct j as [|j]; try lia; cbn [nth].
  - lra.
  - apply Rle_trans with b; [lra|]. apply (IH 0%nat j). cbn [length] in *. lia.
  - apply (IH i j). cbn [length] in *. lia.
Qed.

Section Mk.
Variable steps : nat.
Variables plo phi : R.
Notation mkg := (mk_staircase_gen RN steps plo phi).
Notation WFs := (WF steps).
Notation bsc := (bound_steps_check RN steps plo phi).

(* the length normalisation selects entries by index, the indices depending on the length only *)
Definition sel (m : nat) : list nat :=
  if Nat.ltb steps m then map (cond_index m steps) (seq 0 steps)
  else if Nat.ltb m steps then
    map (fun a => Nat.min (length (filter (fun x => Rltb x a) (linspace RN plo phi m))) (m - 1)) (p_values RN steps plo phi)
  else seq 0 m.
Lemma map_nth_seq_R (l : list R) : map (fun i => nth i l 0) (seq 0 (length l)) = l.
Proof. induction l as [|a l IH]; [reflexivity|]. cbn [length seq map nth]. f_equal. rewrite <- seq_shift, map_map. exact IH. Qed.
Lemma bsc_sel (l : list R) : bsc l = map (fun i => nth i l 0) (sel (length l)).
Proof.
  unfold bound_steps_check, sel. cbn [T RN]. destruct (Nat.ltb steps (length l)); [|destruct (Nat.ltb (length l) steps)].
  - unfold condensation. rewrite map_map. reflexivity.
  - unfold interpolate_p. rewrite map_map. apply map_ext. intros a. unfold interp_next, nth0. reflexivity.
  - symmetry; apply map_nth_seq_R.
Qed.
Lemma linspace_length a b n : length (linspace RN a b n) = n.
Proof. destruct n as [|[|n]]; [reflexivity|reflexivity|]. unfold linspace. rewrite map_length, seq_length. reflexivity. Qed.
Lemma sel_length m : length (sel m) = steps.
Proof. unfold sel. destruct (Nat.ltb steps m) eqn:E1; [rewrite map_length, seq_length; reflexivity|].
  destruct (Nat.ltb m steps) eqn:E2; [rewrite map_length; unfold p_values; apply linspace_length|].
  rewrite seq_length. apply Nat.ltb_ge in E1, E2. lia. Qed.
Lemma ple_sel (l r : list R) s : ple l r -> ple (map (fun i => nth i l 0) s) (map (fun i => nth i r 0) s).
Proof. intros H. induction s as [|i s IH]; cbn [map]; constructor; auto.
  destruct (Nat.lt_ge_cases i (length l)) as [Hi|Hi]; [apply ple_nth; auto|].
  rewrite !nth_overflow; [lra| rewrite <- (ple_length _ _ H); lia | lia]. Qed.

Lemma bsc_length (l : list R) : length (bsc l) = steps.
Proof. rewrite bsc_sel, map_length. apply sel_length. Qed.
(* whatever the constructor accepts is well formed, for ANY input arrays of any lengths *)
Theorem mk_total_wf b (l r : list R) p : mkg b l r = Ok p -> WFs p.
Proof.
  rewrite mk_gen_core_R; unfold mk_staircase_core. destruct (left_right_switch RN b l r) as [l' r']. cbn [T RN].
  destruct (negb _); [discriminate|].
  destruct (is_increasing RN (bsc l')) eqn:I1; [|discriminate]. destruct (is_increasing RN (bsc r')) eqn:I2; [|discriminate].
  cbn [andb]. destruct (crosses RN (bsc l') (bsc r')) eqn:C; [discriminate|]. intros A; inversion A; subst.
  constructor; cbn [fst snd]; try (apply is_increasing_true_sorted; assumption); try apply bsc_length.
  apply crosses_false_ple; [rewrite !bsc_length; reflexivity|exact C].
Qed.
Theorem mk_wf b (l r : list R) p : ple l r -> mkg b l r = Ok p -> WFs p /\ p = (bsc l, bsc r).
Proof.
  intros Hle E0. split; [eapply mk_total_wf; eauto|]. revert E0. rewrite mk_gen_core_R; unfold mk_staircase_core.
  assert (E : left_right_switch RN b l r = (l, r)).
  { unfold left_right_switch. destruct b.
    - destruct (lex_ge RN l r) eqn:G; [|reflexivity]. rewrite (lex_ge_true_le l r Hle G). reflexivity.
    - destruct (all_ge RN l r) eqn:G; [|reflexivity].
      assert (l = r) by (apply ple_antisym; auto; apply all_ge_true_ple; auto; apply ple_length; auto). subst; reflexivity. }
  rewrite E. cbn [T RN]. destruct (negb _); [discriminate|].
  destruct (is_increasing RN (bsc l) && is_increasing RN (bsc r)); [|discriminate].
  destruct (crosses RN (bsc l) (bsc r)); [discriminate|]. intros A; inversion A; reflexivity.
Qed.
(* candidate bounds in the inverted order everywhere (what an antitone map produces): the switch restores them *)
Theorem mk_wf_rev b (l r : list R) p : ple r l -> mkg b l r = Ok p -> WFs p /\ p = (bsc r, bsc l).
Proof.
  intros Hle E0. split; [eapply mk_total_wf; eauto|]. revert E0. rewrite mk_gen_core_R; unfold mk_staircase_core.
  assert (E : left_right_switch RN b l r = (r, l)).
  { unfold left_right_switch. destruct b; [rewrite (lex_ge_ple l r Hle)|rewrite (all_ge_ple l r Hle)]; reflexivity. }
  rewrite E. cbn [T RN]. destruct (negb _); [discriminate|].
  destruct (is_increasing RN (bsc r) && is_increasing RN (bsc l)); [|discriminate].
  destruct (crosses RN (bsc r) (bsc l)); [discriminate|]. intros A; inversion A; reflexivity.
Qed.
(* ordered bounds of any length whose normalised forms are sorted are accepted *)
Lemma mk_ordered_any b (l r : list R) : ple l r -> Rsorted (bsc l) -> Rsorted (bsc r) -> mkg b l r = Ok (bsc l, bsc r).
Proof.
  intros Hle Sl Sr. rewrite mk_gen_core_R; unfold mk_staircase_core.
  assert (E : left_right_switch RN b l r = (l, r)).
  { unfold left_right_switch. destruct b.
    - destruct (lex_ge RN l r) eqn:G; [|reflexivity]. rewrite (lex_ge_true_le l r Hle G). reflexivity.
    - destruct (all_ge RN l r) eqn:G; [|reflexivity].
      assert (l = r) by (apply ple_antisym; auto; apply all_ge_true_ple; auto; apply ple_length; auto). subst; reflexivity. }
  rewrite E. cbv zeta. cbn [T RN]. pose proof (bsc_length l) as Q1. pose proof (bsc_length r) as Q2. cbn [T RN] in Q1, Q2. rewrite Q1, Q2, Nat.eqb_refl. cbn [negb]. rewrite !is_increasing_sorted by assumption. cbn [andb].
  assert (P : ple (bsc l) (bsc r)) by (rewrite !bsc_sel, <- (ple_length _ _ Hle); apply ple_sel; exact Hle).
  rewrite (proj2 (crosses_false_ple (bsc l) (bsc r) ltac:(transitivity steps; [apply bsc_length|symmetry; apply bsc_length])) P). reflexivity.
Qed.
(* bounds that cross at some steps but not all are rejected *)
Theorem mk_rejects_crossing b (l r : list R) : length l = steps -> length r = steps -> ~ ple l r -> ~ ple r l ->
  forall p, mkg b l r <> Ok p.
Proof.
  intros Hl Hr N1 N2 p E. pose proof (mk_total_wf b l r p E) as W. revert E. rewrite mk_gen_core_R; unfold mk_staircase_core.
  destruct (left_right_switch RN b l r) as [l' r'] eqn:S. 
  assert (H : (l' = l /\ r' = r) \/ (l' = r /\ r' = l)).
  { unfold left_right_switch in S. destruct (if b then _ else _); inversion S; auto. }
  cbn [T RN]. destruct (negb _); [discriminate|]. destruct (_ && _); [|discriminate].
  destruct (crosses RN (bsc l') (bsc r')); [discriminate|]. intros A; inversion A; subst p.
  destruct W as [_ _ _ _ W5]. cbn [fst snd] in W5.
  destruct H as [[-> ->]|[-> ->]]; rewrite !bound_steps_id in W5 by assumption; contradiction.
Qed.
End Mk.

(* ---------- pointwise order of the candidate bounds each operation hands to the constructor ---------- *)
Lemma min4l_le_max4l : forall a b c d : list R, length b = length a -> length c = length a -> length d = length a ->
  ple (min4l RN a b c d) (max4l RN a b c d).
Proof.
  unfold min4l, max4l, map4. induction a as [|x a IH]; intros [|y b] [|z c] [|w d] H1 H2 H3; cbn in H1, H2, H3; try lia; [constructor|].
  cbn [combine map2 fst snd]. constructor; [|apply IH; lia].
  rewrite nmin3_min4, nmax3_max4. pose proof (min4_le x y z w) as (A & _). pose proof (max4_ge x y z w) as (B & _). lra.
Qed.
Lemma min4l_length : forall a b c d : list R, length b = length a -> length c = length a -> length d = length a -> length (min4l RN a b c d) = length a.
Proof. unfold min4l, map4. induction a as [|x a IH]; intros [|y b] [|z c] [|w d] H1 H2 H3; cbn in H1, H2, H3; try lia; [reflexivity|].
  cbn [combine map2 length]. f_equal. apply IH; lia. Qed.
Lemma cart_length (op : R -> R -> R) (a b : list R) : length (cart RN op a b) = (length a * length b)%nat.
Proof. unfold cart. induction a as [|x a IH]; [reflexivity|]. cbn [flat_map length]. rewrite app_length, map_length, IH. cbn [T RN]. lia. Qed.

Lemma corners_ple_map2 (op : R -> R -> R) (XL XR YL YR : list R) n :
  length XL = n -> length XR = n -> length YL = n -> length YR = n ->
  let c := corners RN map2 op XL XR YL YR in ple (fst c) (snd c) /\ length (fst c) = n.
Proof. intros l1 l2 l3 l4. unfold corners. cbn [fst snd].
  assert (L : forall a b : list R, length a = n -> length b = n -> length (map2 op a b) = n) by (intros; rewrite map2_length; lia).
  split; [apply min4l_le_max4l|rewrite min4l_length]; rewrite ?L; auto. Qed.
Lemma corners_ple_cart (op : R -> R -> R) (XL XR YL YR : list R) n :
  length XL = n -> length XR = n -> length YL = n -> length YR = n ->
  let c := corners RN (cart RN) op XL XR YL YR in ple (fst c) (snd c).
Proof. intros l1 l2 l3 l4. unfold corners. cbn [fst snd]. apply min4l_le_max4l; rewrite !cart_length; cbn [T RN] in *; lia. Qed.

Section FrechetOrder.
Variable op : R -> R -> R.
Variable D : R -> Prop.
Hypothesis op_mono : forall a a' b b', D a -> D a' -> D b -> D b' -> a <= a' -> b <= b' -> op a b <= op a' b'.
Lemma frechet_ple (XL XR YL YR : list R) n :
  length XL = n -> length XR = n -> length YL = n -> length YR = n ->
  Rsorted XL -> Rsorted YL -> ple XL XR -> ple YL YR ->
  (forall v, In v XL \/ In v XR \/ In v YL \/ In v YR -> D v) ->
  ple (map (frechet_left RN op XL YL) (seq 0 n)) (map (frechet_right RN op XR YR) (seq 0 n)).
Proof.
  intros l1 l2 l3 l4 SX SY HX HY HD. apply nth_ple; [rewrite !map_length; reflexivity|].
  intros i Hi. rewrite map_length, seq_length in Hi. rewrite !nth_map_seq_gen by exact Hi.
  unfold frechet_left, frechet_right. cbn [T RN].
  assert (N1 : map2 op (firstn (S i) XL) (rev (firstn (S i) YL)) <> []).
  { intro E. apply (f_equal (@length R)) in E. rewrite map2_length, rev_length, !firstn_length in E. cbn [length] in E. lia. }
  assert (N2 : map2 op (skipn i XR) (rev (skipn i YR)) <> []).
  { intro E. apply (f_equal (@length R)) in E. rewrite map2_length, rev_length, !skipn_length in E. cbn [length] in E. lia. }
  apply maxl_le_all; [exact N1|]. intros v Hv. apply minl_ge_all; [exact N2|]. intros w Hw.
  destruct (map2_In _ _ _ _ Hv) as (j & a & b & Ea & Eb & ->). destruct (map2_In _ _ _ _ Hw) as (m & a' & b' & Ea' & Eb' & ->).
  assert (Hj : (j < S i)%nat).
  { assert (X : nth_error (firstn (S i) XL) j <> None) by congruence. apply nth_error_Some in X. rewrite firstn_length in X. lia. }
  assert (Hm : (i + m < n)%nat).
  { assert (X : nth_error (skipn i XR) m <> None) by congruence. apply nth_error_Some in X. rewrite skipn_length in X. lia. }
  apply (nth_error_nth _ _ 0) in Ea, Eb, Ea', Eb'.
  rewrite nth_firstn_lt in Ea by exact Hj. rewrite nth_skipn_add in Ea'.
  rewrite rev_nth in Eb by (rewrite firstn_length; lia). rewrite firstn_length in Eb. rewrite nth_firstn_lt in Eb by lia.
  rewrite rev_nth in Eb' by (rewrite skipn_length; lia). rewrite skipn_length, nth_skipn_add in Eb'.
  subst a b a' b'. replace (Nat.min (S i) (length YL) - S j)%nat with (i - j)%nat by lia.
  replace (i + (length YR - i - S m))%nat with (n - 1 - m)%nat by lia.
  apply op_mono; try (apply HD).
  - left. apply nth_In. lia.
  - right; left. apply nth_In. lia.
  - right; right; left. apply nth_In. lia.
  - right; right; right. apply nth_In. lia.
  - apply Rle_trans with (nth (i + m) XL 0); [apply Rsorted_nth; auto; lia | apply ple_nth; auto; lia].
  - apply Rle_trans with (nth (n - 1 - m) YL 0); [apply Rsorted_nth; auto; lia | apply ple_nth; auto; lia].
Qed.
End FrechetOrder.

Lemma sorted_first_pos (l : list R) : Rsorted l -> 0 < nth 0 l 0 -> Forall (fun x => 0 < x) l.
Proof. intros S H. apply Forall_forall. intros x Hx. destruct (In_nth _ _ 0 Hx) as (i & Hi & <-).
  apply Rlt_le_trans with (nth 0 l 0); auto. apply Rsorted_nth; auto. lia. Qed.
Lemma sorted_last_neg (l : list R) : Rsorted l -> last l 0 < 0 -> Forall (fun x => x < 0) l.
Proof. intros S H. apply Forall_forall. intros x Hx. destruct (In_nth _ _ 0 Hx) as (i & Hi & <-).
  apply Rle_lt_trans with (last l 0); auto. rewrite last_as_nth. apply Rsorted_nth; auto. lia. Qed.
Lemma ple_inv (l r : list R) : ple l r -> Forall (fun x => 0 < x) l \/ Forall (fun x => x < 0) r ->
  ple (map (fun x => 1 / x) r) (map (fun x => 1 / x) l).
Proof.
  intros H. induction H as [|a b l r Hab H IH]; intros Hs; cbn [map]; constructor.
  - assert (P : 0 < a * b) by (destruct Hs as [Hs|Hs]; inversion Hs; subst; nra).
    assert (a <> 0 /\ b <> 0) as [Na Nb] by (split; intro; subst; lra).
    assert (Q : 0 < / (a * b)) by (apply Rinv_0_lt_compat; exact P).
    replace (1 / b) with (a * / (a * b)) by (field; auto). replace (1 / a) with (b * / (a * b)) by (field; auto). nra.
  - apply IH. destruct Hs as [Hs|Hs]; inversion Hs; auto.
Qed.

Section Ops.
Variable steps : nat.
Variables plo phi : R.
Notation WFs := (WF steps).
Notation mkS := (mk_staircase RN steps plo phi).
Notation mkL := (mk_staircase_lists RN steps plo phi).

Lemma pnum_wf (f : R -> R -> R) c p r : WFs p ->
  (forall a b, a <= b -> f a c <= f b c) \/ (forall a b, a <= b -> f b c <= f a c) ->
  pnum RN steps plo phi f p c = Ok r -> WFs r.
Proof.
  intros W [Hf|Hf] E.
  - rewrite (pnum_mono steps plo phi f c p W Hf) in E. inversion E; subst. apply (WF_map_mono steps (fun x => f x c) p W Hf).
  - unfold pnum, mk_staircase_lists in E. apply mk_wf_rev in E; [tauto|]. cbn [T RN]. change (nsort RN) with Rsort.
    destruct W as [H1 H2 H3 H4 H5]. apply sort_ple. apply nth_ple; [rewrite !map_length; lia|].
    intros i Hi. rewrite map_length in Hi. rewrite !(nth_indep (map _ _) 0 (f 0 c)) by (rewrite map_length; lia).
    rewrite !(map_nth (fun x => f x c)). apply Hf. apply ple_nth; auto. lia.
Qed.
Lemma pneg_wf p r : WFs p -> pneg RN steps plo phi p = Ok r -> WFs r.
Proof. intros W E. rewrite (pneg_steps steps plo phi p W) in E. inversion E; subst. apply WF_neg; exact W. Qed.
Lemma precip_wf p r : WFs p -> precip RN steps plo phi p = Ok r -> WFs r.
Proof.
  intros W E. pose proof W as [H1 H2 H3 H4 H5]. unfold precip in E. cbn [T RN nleb ndiv] in E. unfold nth0, lastn, nzero, none in E; cbn [nofZ RN T] in E.
  destruct (Rleb (nth 0 (fst p) 0) 0 && Rleb 0 (last (snd p) 0)) eqn:G; [discriminate|].
  apply mk_wf in E; [tauto|]. apply ple_inv; [apply ple_rev; exact H5|].
  apply andb_false_iff in G. destruct G as [G|G]; apply Rleb_false in G.
  - left. apply Forall_rev. apply sorted_first_pos; auto.
  - right. apply Forall_rev. apply sorted_last_neg; auto.
Qed.
Lemma map_eval_wf (f : R -> R) dom p r : WFs p -> (forall a b, dom a = true -> dom b = true -> a <= b -> f a <= f b) ->
  map_eval RN steps plo phi f dom p = Ok r -> WFs r.
Proof.
  intros W Hf E. unfold map_eval in E. match type of E with (if ?g then _ else _) = _ => destruct g eqn:G; [|discriminate] end.
  apply andb_true_iff in G. destruct G as [G1 G2]. rewrite forallb_forall in G1, G2.
  unfold punary in E. apply mk_wf in E; [tauto|]. destruct W as [H1 H2 H3 H4 H5].
  cbn [T RN] in *. clear - H5 G1 G2 Hf. induction H5 as [|a b l r' Hab H IH]; cbn [map]; constructor.
  - apply Hf; auto; [apply G1|apply G2]; left; reflexivity.
  - apply IH; intros; [apply G1|apply G2]; right; assumption.
Qed.
Lemma num_eval_wf k p c r : WFs p -> num_eval RN steps plo phi k p c = Ok r -> WFs r.
Proof.
  intros W. destruct k; cbn [num_eval nadd nmul nopp ndiv RN].
  - apply pnum_wf; auto. left; intros; lra.
  - apply pnum_wf; auto. left; intros; lra.
  - destruct (pneg RN steps plo phi p) as [q| |] eqn:E; cbn [rbind]; try discriminate.
    apply pnum_wf; [eapply pneg_wf; eauto|]. left; intros; lra.
  - apply pnum_wf; auto. destruct (Rle_dec 0 c); [left|right]; intros; nra.
  - destruct (neqb RN c nzero); [discriminate|]. apply pnum_wf; auto.
    destruct (Rle_dec 0 (@none RN / c)); [left|right]; intros; cbn [T RN] in *; nra.
  - destruct (precip RN steps plo phi p) as [q| |] eqn:E; cbn [rbind]; try discriminate.
    destruct (pnum RN steps plo phi Rmult q c) as [q'| |] eqn:E2; try discriminate. intros A; inversion A; subst.
    eapply pnum_wf; [eapply precip_wf; eauto| |exact E2]. destruct (Rle_dec 0 c); [left|right]; intros; nra.
Qed.
Lemma penv_wf p q r : WFs p -> WFs q -> penv RN steps plo phi p q = Ok r -> WFs r.
Proof. intros Wp Wq E. unfold penv in E. apply mk_wf in E; [tauto|]. rewrite map2_min_R, map2_max_R. apply (wf_le _ _ (env_raw_WF steps p q Wp Wq)). Qed.
Lemma pimp_wf p q r : WFs p -> WFs q -> pimp RN steps plo phi p q = Ok r -> WFs r.
Proof.
  intros Wp Wq E. unfold pimp in E. cbn zeta in E.
  destruct (existsb _ _) eqn:G; [discriminate|]. unfold mk_staircase_lists in E. apply mk_wf in E; [tauto|].
  destruct Wp as [H1 H2 _ _ _], Wq as [K1 K2 _ _ _]. cbn [T RN nltb] in *. rewrite map2_min_R, map2_max_R in *.
  apply existsb_combine_false; [rewrite !map2_length; lia|exact G].
Qed.
End Ops.

Section Bin.
Variable steps : nat.
Variables plo phi : R.
Notation WFs := (WF steps).
Notation mkS := (mk_staircase RN steps plo phi).

Lemma dep_op_ple (d : dep) (op : R -> R -> R) (D : R -> Prop) p q :
  WFs p -> WFs q ->
  (d = DF -> (forall a a' b b', D a -> D a' -> D b -> D b' -> a <= a' -> b <= b' -> op a b <= op a' b') /\
             (forall v, In v (fst p) \/ In v (snd p) \/ In v (fst q) \/ In v (snd q) -> D v)) ->
  ple (fst (dep_op RN d op (fst p) (snd p) (fst q) (snd q))) (snd (dep_op RN d op (fst p) (snd p) (fst q) (snd q))).
Proof.
  intros [A1 A2 A3 A4 A5] [B1 B2 B3 B4 B5] HF. destruct d; cbn [dep_op].
  - destruct (HF eq_refl) as [Hm HD]. unfold frechet_op. cbn [fst snd]. change (nsort RN) with Rsort. apply sort_ple.
    cbn [T RN] in *. rewrite A1. apply (frechet_ple op D Hm _ _ _ _ steps); auto.
  - unfold perfect_op. destruct (corners_ple_map2 op (fst p) (snd p) (fst q) (snd q) steps A1 A2 B1 B2) as [P _].
    destruct (corners RN map2 op _ _ _ _) as [l r]. cbn [fst snd] in *. apply sort_ple; exact P.
  - unfold opposite_op. destruct (corners_ple_map2 op (fst p) (snd p) (rev (fst q)) (rev (snd q)) steps A1 A2) as [P _]; try (rewrite rev_length; assumption).
    destruct (corners RN map2 op _ _ _ _) as [l r]. cbn [fst snd] in *. apply sort_ple; exact P.
  - unfold independent_op. pose proof (corners_ple_cart op (fst p) (snd p) (fst q) (snd q) steps A1 A2 B1 B2) as P. cbv zeta in P.
    destruct (corners RN (cart RN) op _ _ _ _) as [l r]. cbn [fst snd] in *. apply sort_ple; exact P.
Qed.

Lemma padd_wf d p q r : WFs p -> WFs q -> padd RN steps plo phi d p q = Ok r -> WFs r.
Proof.
  intros Wp Wq E. unfold padd in E.
  pose proof (dep_op_ple d Rplus (fun _ => True) p q Wp Wq) as P. cbn [nadd RN] in E.
  destruct (dep_op RN d Rplus _ _ _ _) as [l r']. cbn [fst snd] in P.
  apply mk_wf in E; [tauto|]. apply sort_ple. apply P. intros _. split; [intros; lra|auto].
Qed.
Lemma psub_wf d p q r : WFs p -> WFs q -> psub RN steps plo phi d p q = Ok r -> WFs r.
Proof.
  intros Wp Wq E. unfold psub in E. destruct (pneg RN steps plo phi q) as [nq| |] eqn:G; cbn [rbind] in E; try discriminate.
  eapply padd_wf; [exact Wp|eapply pneg_wf; eauto|exact E].
Qed.

Definition nonneg_box (p : list R * list R) : Prop := forall v, In v (fst p) \/ In v (snd p) -> 0 <= v.
Lemma classic_mul_wf p q r : WFs p -> WFs q -> nonneg_box p -> nonneg_box q -> classic_mul RN steps plo phi p q = Ok r -> WFs r.
Proof.
  intros _ _ _ _. unfold classic_mul, m_classic_frechet_pbox. destruct (frechet_op _ _ _ _ _ _) as [l r'].
  destruct (mk_staircase RN steps plo phi l r') as [x| |] eqn:E; cbn [rbind]; try discriminate.
  intros H; inversion H; subst. unfold mk_staircase in E. eapply mk_total_wf; exact E.
Qed.
Lemma nonneg_of_min p : WFs p -> (0 < steps)%nat -> 0 <= minl RN (fst p) -> nonneg_box p.
Proof.
  intros [A1 A2 A3 A4 A5] Hs H v [Hv|Hv].
  - apply Rle_trans with (minl RN (fst p)); auto. apply minl_le; auto.
  - destruct (In_nth _ _ 0 Hv) as (i & Hi & <-). apply Rle_trans with (nth i (fst p) 0); [|apply ple_nth; auto; lia].
    apply Rle_trans with (minl RN (fst p)); auto. apply minl_le. apply nth_In. lia.
Qed.
Lemma nonneg_neg p : WFs p -> last (snd p) 0 <= 0 -> nonneg_box (map Ropp (rev (snd p)), map Ropp (rev (fst p))).
Proof.
  intros [A1 A2 A3 A4 A5] H. 
  assert (R0 : forall v, In v (snd p) -> v <= 0).
  { intros v Hv. destruct (In_nth _ _ 0 Hv) as (i & Hi & <-). apply Rle_trans with (last (snd p) 0); auto. rewrite last_as_nth. apply Rsorted_nth; auto. lia. }
  assert (L0 : forall v, In v (fst p) -> v <= 0).
  { intros v Hv. destruct (In_nth _ _ 0 Hv) as (i & Hi & <-). apply Rle_trans with (nth i (snd p) 0); [apply ple_nth; auto|apply R0, nth_In; lia]. }
  intros v [Hv|Hv]; cbn [fst snd] in Hv; apply in_map_iff in Hv; destruct Hv as (x & <- & Hx); apply in_rev in Hx; [specialize (R0 x Hx)|specialize (L0 x Hx)]; lra.
Qed.
(* every route of the Frechet product ends in the Staircase constructor (or in a negation / number operation, which end in it too):
   whatever it returns is well formed, whatever the operands were *)
Lemma pneg_total_wf p r : pneg RN steps plo phi p = Ok r -> WFs r.
Proof. unfold pneg, mk_staircase_lists. apply mk_total_wf. Qed.
Lemma pnum_total_wf f p c r : pnum RN steps plo phi f p c = Ok r -> WFs r.
Proof. unfold pnum, mk_staircase_lists. apply mk_total_wf. Qed.
Lemma classic_mul_total_wf p q r : classic_mul RN steps plo phi p q = Ok r -> WFs r.
Proof. unfold classic_mul, m_classic_frechet_pbox. destruct (frechet_op _ _ _ _ _ _) as [l r'].
  destruct (mk_staircase RN steps plo phi l r') as [x| |] eqn:E; cbn [rbind]; try discriminate.
  intros H; inversion H; subst. unfold mk_staircase in E. eapply mk_total_wf; exact E. Qed.
Lemma pimp_total_wf p q r : pimp RN steps plo phi p q = Ok r -> WFs r.
Proof. unfold pimp. cbn zeta. destruct (existsb _ _); [discriminate|]. unfold mk_staircase_lists. apply mk_total_wf. Qed.
(* the Frechet product and its helpers: every route ends in the constructor, a negation, a number operation or an imposition *)
Lemma gen_classic_wf p q op r : m_classic_frechet_pbox RN steps plo phi p q op = Ok r -> WFs r.
Proof. unfold m_classic_frechet_pbox. destruct (frechet_op _ _ _ _ _ _) as [l r']. destruct (mk_staircase RN steps plo phi l r') as [x| |] eqn:E; cbn [rbind]; try discriminate.
  intros H; inversion H; subst. unfold mk_staircase in E. eapply mk_total_wf; exact E. Qed.
Lemma gen_naive_wf p q op r : m_vectorised_naive_frechet_pbox RN steps plo phi p q op = Ok r -> WFs r.
Proof. unfold m_vectorised_naive_frechet_pbox. destruct (naive_frechet_op _ _ _ _ _ _) as [l r']. destruct (mk_staircase RN steps plo phi l r') as [x| |] eqn:E; cbn [rbind]; try discriminate.
  intros H; inversion H; subst. unfold mk_staircase in E. eapply mk_total_wf; exact E. Qed.
Ltac bind_step := match goal with |- rbind ?x _ = _ -> _ => let E := fresh "E" in destruct x as [?| |] eqn:E; cbn [rbind]; try discriminate end.
Lemma gen_nagative_wf p q r : m_nagative_frechet_pbox RN steps plo phi p q = Ok r -> WFs r.
Proof.
  unfold m_nagative_frechet_pbox. destruct (_ || _); [|discriminate]. repeat bind_step.
  destruct (xorb _ _); [apply pneg_total_wf|]. intros H; inversion H; subst. eapply gen_classic_wf; eassumption.
Qed.
Lemma m_balchprod_wf fuel : (forall p q r, m_frechet_pbox_mul RN steps plo phi fuel p q = Ok r -> WFs r) ->
  forall a b c, m_balchprod RN steps plo phi fuel a b = Ok c -> WFs c.
Proof.
  intros IH a b c. unfold m_balchprod. destruct (_ && _).
  - cbv zeta. repeat bind_step. apply pnum_total_wf.
  - destruct (PboxBase.straddles_zero RN a).
    + cbv zeta. repeat bind_step. apply gen_classic_wf.
    + destruct (PboxBase.straddles_zero RN b); [|apply IH]. cbv zeta. repeat bind_step. apply gen_classic_wf.
Qed.
Lemma gen_straddle_wf fuel : (forall p q r, m_frechet_pbox_mul RN steps plo phi fuel p q = Ok r -> WFs r) ->
  forall a b c, m_straddle_frechet_pbox RN steps plo phi fuel a b = Ok c -> WFs c.
Proof.
  intros IH a b c. unfold m_straddle_frechet_pbox. repeat bind_step. intros H; inversion H; subst. eapply pimp_total_wf; eassumption.
Qed.
(* one unfolding of the translated Fixpoint, in terms of the translated top-level functions *)
Lemma m_frechet_pbox_mul_S fuel p q : m_frechet_pbox_mul RN steps plo phi (S fuel) p q =
  if PboxBase.straddles_zero RN p || PboxBase.straddles_zero RN q then
    (if PboxBase.straddles_zero RN q then m_straddle_frechet_pbox RN steps plo phi fuel p q else m_straddle_frechet_pbox RN steps plo phi fuel q p)
  else if nleb RN (PboxBase.p_hi_ RN p) nzero || nleb RN (PboxBase.p_hi_ RN q) nzero then m_nagative_frechet_pbox RN steps plo phi p q
  else m_classic_frechet_pbox RN steps plo phi p q (nmul RN).
Proof. reflexivity. Qed.
Lemma m_frechet_pbox_mul_wf fuel : forall p q r, m_frechet_pbox_mul RN steps plo phi fuel p q = Ok r -> WFs r.
Proof.
  induction fuel as [|fuel IH]; intros p q r; [discriminate|]. rewrite m_frechet_pbox_mul_S.
  destruct (_ || _).
  - destruct (PboxBase.straddles_zero RN q); apply (gen_straddle_wf fuel IH).
  - destruct (_ || _); [apply gen_nagative_wf|apply gen_classic_wf].
Qed.
Lemma frechet_mul_wf p q r : (0 < steps)%nat -> WFs p -> WFs q -> frechet_mul RN steps plo phi p q = Ok r -> WFs r.
Proof. intros _ _ _. unfold frechet_mul. apply m_frechet_pbox_mul_wf. Qed.
Lemma pmul_nf_wf d p q r : d <> DF -> WFs p -> WFs q ->
  (let '(l, r') := dep_op RN d Rmult (fst p) (snd p) (fst q) (snd q) in mkS l r') = Ok r -> WFs r.
Proof.
  intros Hd Wp Wq E. pose proof (dep_op_ple d Rmult (fun _ => True) p q Wp Wq ltac:(intros X; contradiction)) as P.
  destruct (dep_op RN d Rmult (fst p) (snd p) (fst q) (snd q)) as [l r']. cbn [fst snd] in P. apply mk_wf in E; [tauto|exact P].
Qed.
Lemma pmul_wf d p q r : (0 < steps)%nat -> WFs p -> WFs q -> pmul RN steps plo phi d p q = Ok r -> WFs r.
Proof.
  intros Hs Wp Wq E. destruct d; cbn [pmul] in E; [exact (frechet_mul_wf p q r Hs Wp Wq E)| | |].
  - apply (pmul_nf_wf DP p q r); auto; discriminate.
  - apply (pmul_nf_wf DO p q r); auto; discriminate.
  - apply (pmul_nf_wf DI p q r); auto; discriminate.
Qed.
Lemma one_over_wf q r : WFs q -> one_over RN steps plo phi q = Ok r -> WFs r.
Proof.
  intros Wq E. unfold one_over, prdiv in E. destruct (precip RN steps plo phi q) as [rq| |] eqn:G; cbn [rbind] in E; try discriminate.
  destruct (pnum RN steps plo phi (nmul RN) rq none) as [x| |] eqn:G2; try discriminate. inversion E; subst.
  eapply pnum_wf; [eapply precip_wf; eauto| |exact G2]. left. intros a b Hab. cbn [nmul RN]. unfold none; cbn [nofZ RN T]. lra.
Qed.
Lemma pdiv_wf d p q r : (0 < steps)%nat -> WFs p -> WFs q -> pdiv RN steps plo phi d p q = Ok r -> WFs r.
Proof.
  intros Hs Wp Wq E. unfold pdiv in E. destruct (one_over RN steps plo phi q) as [rq| |] eqn:G; cbn [rbind] in E; try discriminate.
  eapply pmul_wf; [exact Hs|exact Wp|eapply one_over_wf; eauto|exact E].
Qed.
Lemma bin_eval_wf o d p q r : (0 < steps)%nat -> WFs p -> WFs q -> bin_eval RN steps plo phi o d p q = Ok r -> WFs r.
Proof. intros Hs Wp Wq. destruct o; cbn [bin_eval]; [apply padd_wf|apply psub_wf|apply pmul_wf|apply pdiv_wf]; auto. Qed.

(* ---------- expressions of any depth ---------- *)
Fixpoint ok_expr (e : pexpr RN) : Prop :=
  match e with
  | ELeaf _ l r => ple l r                      (* the constructor is handed bounds in the right order *)
  | ENum _ _ e _ | ENeg _ e | ERecip _ e => ok_expr e
  | EMap _ f dom e => ok_expr e /\ (forall a b, dom a = true -> dom b = true -> a <= b -> f a <= f b)
  | EBin _ _ _ a b | EEnv _ a b | EImp _ a b => ok_expr a /\ ok_expr b
  end.
Theorem peval_wf (e : pexpr RN) : (0 < steps)%nat -> ok_expr e -> forall p, peval RN steps plo phi e = Ok p -> WFs p.
Proof.
  intros Hs. induction e as [l r|k e IH c|e IH|e IH|f dom e IH|o d a IHa b IHb|a IHa b IHb|a IHa b IHb]; cbn [ok_expr peval]; intros Hok p E.
  - apply mk_wf in E; [tauto|exact Hok].
  - destruct (peval RN steps plo phi e) as [x| |]; cbn [rbind] in E; try discriminate. eapply num_eval_wf; [apply IH; auto|exact E].
  - destruct (peval RN steps plo phi e) as [x| |]; cbn [rbind] in E; try discriminate. eapply pneg_wf; [apply IH; auto|exact E].
  - destruct (peval RN steps plo phi e) as [x| |]; cbn [rbind] in E; try discriminate. eapply precip_wf; [apply IH; auto|exact E].
  - destruct Hok as [Hok Hf]. destruct (peval RN steps plo phi e) as [x| |]; cbn [rbind] in E; try discriminate.
    eapply map_eval_wf; [apply IH; auto|exact Hf|exact E].
  - destruct Hok as [Ha Hb]. destruct (peval RN steps plo phi a) as [x| |]; cbn [rbind] in E; try discriminate.
    destruct (peval RN steps plo phi b) as [y| |]; cbn [rbind] in E; try discriminate. eapply bin_eval_wf; [exact Hs|apply IHa; auto|apply IHb; auto|exact E].
  - destruct Hok as [Ha Hb]. destruct (peval RN steps plo phi a) as [x| |]; cbn [rbind] in E; try discriminate.
    destruct (peval RN steps plo phi b) as [y| |]; cbn [rbind] in E; try discriminate. eapply penv_wf; [apply IHa; auto|apply IHb; auto|exact E].
  - destruct Hok as [Ha Hb]. destruct (peval RN steps plo phi a) as [x| |]; cbn [rbind] in E; try discriminate.
    destruct (peval RN steps plo phi b) as [y| |]; cbn [rbind] in E; try discriminate. eapply pimp_wf; [apply IHa; auto|apply IHb; auto|exact E].
Qed.
End Bin.

(* ---------- the reported support ---------- *)
Lemma wf_range n p : WF n p -> (0 < n)%nat -> minl RN (fst p) = nth 0 (fst p) 0 /\ maxl RN (snd p) = last (snd p) 0.
Proof.
  intros [A1 A2 A3 A4 A5] Hn. split.
  - assert (Ne : fst p <> []) by (intro E; rewrite E in A1; cbn in A1; lia).
    apply Rle_antisym; [apply minl_le, nth_In; lia|].
    destruct (In_nth _ _ 0 (minl_in _ Ne)) as (i & Hi & E). rewrite <- E. apply Rsorted_nth; auto. lia.
  - assert (Ne : snd p <> []) by (intro E; rewrite E in A2; cbn in A2; lia).
    apply Rle_antisym; [|apply maxl_ge; rewrite last_as_nth; apply nth_In; lia].
    destruct (In_nth _ _ 0 (maxl_in _ Ne)) as (i & Hi & E). rewrite <- E, last_as_nth. apply Rsorted_nth; auto. lia.
Qed.

(* ---------- moments of a finite distribution on [a, b] (Popoviciu) ---------- *)
Fixpoint dot (ws xs : list R) : R := match ws, xs with w :: ws', x :: xs' => w * x + dot ws' xs' | _, _ => 0 end.
Definition sum_list (ws : list R) : R := fold_right Rplus 0 ws.
Lemma dot_affine2 (c2 c1 c0 : R) : forall ws xs : list R, length xs = length ws ->
  dot ws (map (fun x => c2 * (x * x) + c1 * x + c0) xs) = c2 * dot ws (map (fun x => x * x) xs) + c1 * dot ws xs + c0 * sum_list ws.
Proof. induction ws as [|w ws IH]; intros [|x xs] H; cbn in H; try lia; cbn [map dot sum_list fold_right]; [ring|].
  rewrite IH by lia. unfold sum_list. ring. Qed.
Lemma dot_nonpos (f : R -> R) : forall ws xs : list R, Forall (fun w => 0 <= w) ws -> Forall (fun x => f x <= 0) xs -> dot ws (map f xs) <= 0.
Proof. induction ws as [|w ws IH]; intros [|x xs] Hw Hx; cbn [map dot]; try lra. inversion Hw; inversion Hx; subst. specialize (IH xs H2 H6). nra. Qed.
Lemma dot_nonneg (f : R -> R) : forall ws xs : list R, Forall (fun w => 0 <= w) ws -> Forall (fun x => 0 <= f x) xs -> 0 <= dot ws (map f xs).
Proof. induction ws as [|w ws IH]; intros [|x xs] Hw Hx; cbn [map dot]; try lra. inversion Hw; inversion Hx; subst. specialize (IH xs H2 H6). nra. Qed.
Theorem moments_in_range (xs ws : list R) a b : length xs = length ws -> Forall (fun x => a <= x <= b) xs ->
  Forall (fun w => 0 <= w) ws -> sum_list ws = 1 ->
  let m := dot ws xs in a <= m <= b /\ 0 <= dot ws (map (fun x => (x - m) * (x - m)) xs) <= (b - a) * (b - a) / 4.
Proof.
  intros Hl Hx Hw Hs m.
  assert (Ea : dot ws (map (fun x => x - a) xs) = m - a).
  { rewrite (map_ext _ (fun x => 0 * (x * x) + 1 * x + - a)) by (intros; ring). rewrite dot_affine2 by exact Hl. rewrite Hs. unfold m. ring. }
  assert (Eb : dot ws (map (fun x => x - b) xs) = m - b).
  { rewrite (map_ext _ (fun x => 0 * (x * x) + 1 * x + - b)) by (intros; ring). rewrite dot_affine2 by exact Hl. rewrite Hs. unfold m. ring. }
  assert (Ma : a <= m).
  { assert (0 <= dot ws (map (fun x => x - a) xs)) by (apply dot_nonneg; auto; eapply Forall_impl; [|exact Hx]; cbn; intros; lra). lra. }
  assert (Mb : m <= b).
  { assert (dot ws (map (fun x => x - b) xs) <= 0) by (apply dot_nonpos; auto; eapply Forall_impl; [|exact Hx]; cbn; intros; lra). lra. }
  split; [lra|].
  set (S2 := dot ws (map (fun x => x * x) xs)).
  assert (Ev : dot ws (map (fun x => (x - m) * (x - m)) xs) = S2 - m * m).
  { rewrite (map_ext _ (fun x => 1 * (x * x) + (- 2 * m) * x + m * m)) by (intros; ring). rewrite dot_affine2 by exact Hl. rewrite Hs. fold S2. fold m. ring. }
  assert (Ec : dot ws (map (fun x => (x - a) * (x - b)) xs) = S2 - (a + b) * m + a * b).
  { rewrite (map_ext _ (fun x => 1 * (x * x) + (- (a + b)) * x + a * b)) by (intros; ring). rewrite dot_affine2 by exact Hl. rewrite Hs. fold S2. fold m. ring. }
  assert (Hc : dot ws (map (fun x => (x - a) * (x - b)) xs) <= 0) by (apply dot_nonpos; auto; eapply Forall_impl; [|exact Hx]; cbn; intros; nra).
  assert (Hv : 0 <= dot ws (map (fun x => (x - m) * (x - m)) xs)).
  { apply dot_nonneg; auto. apply Forall_forall. intros x _. cbn beta. pose proof (Rle_0_sqr (x - m)) as Q. unfold Rsqr in Q. exact Q. }
  rewrite Ev. rewrite Ev in Hv. rewrite Ec in Hc. split; [lra|]. pose proof (Rle_0_sqr (m - (a + b) / 2)) as Q. unfold Rsqr in Q. nra.
Qed.

(* ---------- with the constructor rejecting crossing bounds: no side condition on leaves or maps ---------- *)
Section Total.
Variable steps : nat.
Variables plo phi : R.
Theorem peval_wf_total (e : pexpr RN) : (0 < steps)%nat -> forall p, peval RN steps plo phi e = Ok p -> WF steps p.
Proof.
  intros Hs. induction e as [l r|k e IH c|e IH|e IH|f dom e IH|o d a IHa b IHb|a IHa b IHb|a IHa b IHb]; cbn [peval]; intros p E.
  - eapply mk_total_wf; exact E.
  - destruct (peval RN steps plo phi e) as [x| |]; cbn [rbind] in E; try discriminate. eapply num_eval_wf; [apply IH; reflexivity|exact E].
  - destruct (peval RN steps plo phi e) as [x| |]; cbn [rbind] in E; try discriminate. eapply pneg_wf; [apply IH; reflexivity|exact E].
  - destruct (peval RN steps plo phi e) as [x| |]; cbn [rbind] in E; try discriminate. eapply precip_wf; [apply IH; reflexivity|exact E].
  - destruct (peval RN steps plo phi e) as [x| |]; cbn [rbind] in E; try discriminate.
    unfold map_eval in E. destruct (_ && _); [|discriminate]. unfold punary in E. eapply mk_total_wf; exact E.
  - destruct (peval RN steps plo phi a) as [x| |]; cbn [rbind] in E; try discriminate.
    destruct (peval RN steps plo phi b) as [y| |]; cbn [rbind] in E; try discriminate. eapply bin_eval_wf; [exact Hs|apply IHa; reflexivity|apply IHb; reflexivity|exact E].
  - destruct (peval RN steps plo phi a) as [x| |]; cbn [rbind] in E; try discriminate.
    destruct (peval RN steps plo phi b) as [y| |]; cbn [rbind] in E; try discriminate. eapply penv_wf; [apply IHa; reflexivity|apply IHb; reflexivity|exact E].
  - destruct (peval RN steps plo phi a) as [x| |]; cbn [rbind] in E; try discriminate.
    destruct (peval RN steps plo phi b) as [y| |]; cbn [rbind] in E; try discriminate. eapply pimp_wf; [apply IHa; reflexivity|apply IHb; reflexivity|exact E].
Qed.
End Total.
