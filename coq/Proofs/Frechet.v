(* C02: soundness of the Frank-Nelsen-Sklar convolution for every selection and every
   permutation coupling, for any number of steps. *)
From Coq Require Import Reals Lra List Arith Lia Bool Permutation Sorted.
From PUN Require Import Base.Num Base.Sort Model.Interval Model.Pbox Proofs.ListR.
Import ListNotations.
Open Scope R_scope.

(* ---------- counting lemmas ---------- *)
Lemma len_filter_or {A} (f g : A -> bool) l :
  (length (filter (fun a => f a || g a) l) <= length (filter f l) + length (filter g l))%nat.
Proof. induction l as [|a l IH]; simpl; [lia|]. destruct (f a), (g a); simpl; lia. Qed.
Lemma len_filter_le {A} (f g : A -> bool) l : (forall a, In a l -> f a = true -> g a = true) ->
  (length (filter f l) <= length (filter g l))%nat.
Proof. induction l as [|a l IH]; simpl; intros H; [lia|].
  destruct (f a) eqn:Hf; [rewrite (H a (or_introl eq_refl) Hf); simpl; apply le_n_S|destruct (g a); simpl; [apply le_S|]]; apply IH; intros; apply H; auto. Qed.
Lemma len_filter_all {A} (f : A -> bool) l : (length (filter f l) <= length l)%nat.
Proof. induction l; simpl; [lia|]; destruct (f a); simpl; lia. Qed.
Lemma len_filter_ltb k m : (length (filter (fun j => j <? k)%nat (seq 0 m)) <= k)%nat.
Proof. induction m as [|m IH]; [simpl; lia|]. rewrite seq_S, filter_app, app_length. cbn [filter Nat.add].
  destruct (Nat.ltb_spec m k); cbn [length]; [|lia].
  assert (H1 := len_filter_all (fun j => (j <? k)%nat) (seq 0 m)). rewrite seq_length in H1. lia. Qed.
Lemma len_filter_gtb k m : (length (filter (Nat.ltb k) (seq 0 m)) <= m - 1 - k)%nat.
Proof. induction m as [|m IH]; [simpl; lia|]. rewrite seq_S, filter_app, app_length. cbn [filter Nat.add].
  destruct (Nat.ltb_spec k m); cbn [length]; [|lia]. lia. Qed.
Lemma len_filter_map {A B} (f : B -> bool) (g : A -> B) l : length (filter f (map g l)) = length (filter (fun j => f (g j)) l).
Proof. induction l; simpl; auto; destruct (f (g a)); simpl; auto. Qed.
Lemma filter_perm_len {A} (f : A -> bool) l l' : Permutation l l' -> length (filter f l) = length (filter f l').
Proof. apply (cnt_perm A f). Qed.
Lemma map_nth_seq (l : list nat) d : map (fun j => nth j l d) (seq 0 (length l)) = l.
Proof. induction l as [|a l IH]; simpl; auto. f_equal. rewrite <- seq_shift, map_map. exact IH. Qed.

Section Frechet.
Variable op : R -> R -> R.
Variable D : R -> Prop.                      (* domain on which op is monotone *)
Hypothesis D_up : forall a a', D a -> a <= a' -> D a'.
Hypothesis op_mono : forall a a' b b', D a -> D b -> a <= a' -> b <= b' -> op a b <= op a' b'.
Variable n : nat.
Variables XL XR YL YR : list R.
Hypothesis lenXL : length XL = n. Hypothesis lenXR : length XR = n.
Hypothesis lenYL : length YL = n. Hypothesis lenYR : length YR = n.
Hypothesis sXL : Rsorted XL. Hypothesis sXR : Rsorted XR. Hypothesis sYL : Rsorted YL. Hypothesis sYR : Rsorted YR.
Hypothesis DXL : forall j, (j < n)%nat -> D (nth j XL 0).
Hypothesis DYL : forall j, (j < n)%nat -> D (nth j YL 0).
Variables x y : list R.                      (* a selection: one point per focal step *)
Hypothesis lenx : length x = n. Hypothesis leny : length y = n.
Hypothesis x_in : forall j, (j < n)%nat -> nth j XL 0 <= nth j x 0 <= nth j XR 0.
Hypothesis y_in : forall j, (j < n)%nat -> nth j YL 0 <= nth j y 0 <= nth j YR 0.
Variable pi : list nat.                      (* a coupling: step j of X meets step pi(j) of Y *)
Hypothesis pi_perm : Permutation pi (seq 0 n).
Definition p j := nth j pi 0%nat.
Definition zs := map (fun j => op (nth j x 0) (nth (p j) y 0)) (seq 0 n).

Lemma p_lt j : (j < n)%nat -> (p j < n)%nat.
Proof. intros Hj. assert (In (p j) pi) by (apply nth_In; rewrite (Permutation_length pi_perm), seq_length; exact Hj).
  apply (Permutation_in _ pi_perm) in H. apply in_seq in H; lia. Qed.
Lemma map_p : map p (seq 0 n) = pi.
Proof. unfold p. rewrite <- (seq_length n 0) at 1. rewrite <- (Permutation_length pi_perm). apply map_nth_seq. Qed.
Lemma cnt_p_lt k0 : (length (filter (fun j => (p j <? k0)%nat) (seq 0 n)) <= k0)%nat.
Proof. rewrite <- (len_filter_map (fun q => (q <? k0)%nat) p), map_p, (filter_perm_len _ _ _ pi_perm). apply len_filter_ltb. Qed.
Lemma cnt_p_gt k0 : (length (filter (fun j => (k0 <? p j)%nat) (seq 0 n)) <= n - 1 - k0)%nat.
Proof. rewrite <- (len_filter_map (Nat.ltb k0) p), map_p, (filter_perm_len _ _ _ pi_perm). apply len_filter_gtb. Qed.

(* the sorted outcomes *)
Variable s : list R.
Hypothesis s_perm : Permutation s zs.
Hypothesis s_sorted : Rsorted s.

Theorem frechet_left_pair j0 k0 i : (j0 + k0 = i)%nat -> (i < n)%nat -> op (nth j0 XL 0) (nth k0 YL 0) <= nth i s 0.
Proof.
  intros Hjk Hi. apply Rleb_true.
  apply (rank_lower R Rleb Rleb_trans) with (l := zs); auto.
  - unfold cnt, zs. rewrite len_filter_map.
    etransitivity; [apply (len_filter_le _ (fun j => (j <? j0)%nat || (p j <? k0)%nat))|].
    + intros j Hin Hlt. apply in_seq in Hin. apply Rltb_ltb in Hlt.
      destruct (Nat.ltb_spec j j0) as [|Hj]; [reflexivity|]. destruct (Nat.ltb_spec (p j) k0) as [|Hk]; [reflexivity|]. exfalso.
      assert (Hpj : (p j < n)%nat) by (apply p_lt; lia).
      assert (A : nth j0 XL 0 <= nth j x 0).
      { apply Rle_trans with (nth j XL 0); [apply Rsorted_nth; auto; lia | apply x_in; lia]. }
      assert (B : nth k0 YL 0 <= nth (p j) y 0).
      { apply Rle_trans with (nth (p j) YL 0); [apply Rsorted_nth; auto; lia | apply y_in; lia]. }
      pose proof (op_mono _ _ _ _ (DXL j0 ltac:(lia)) (DYL k0 ltac:(lia)) A B). lra.
    + etransitivity; [apply len_filter_or|]. pose proof (len_filter_ltb j0 n). pose proof (cnt_p_lt k0). lia.
  - unfold zs; rewrite map_length, seq_length; exact Hi.
Qed.

Theorem frechet_right_pair j0 k0 i : (j0 + k0 = n - 1 + i)%nat -> (j0 < n)%nat -> (k0 < n)%nat -> (i < n)%nat ->
  nth i s 0 <= op (nth j0 XR 0) (nth k0 YR 0).
Proof.
  intros Hjk Hj0 Hk0 Hi. apply Rleb_true.
  apply (rank_upper R Rleb Rleb_trans) with (l := zs); auto.
  - unfold zs; rewrite map_length, seq_length; exact Hi.
  - unfold cnt, zs. rewrite len_filter_map, map_length, seq_length.
    etransitivity; [apply (len_filter_le _ (fun j => (j0 <? j)%nat || (k0 <? p j)%nat))|].
    + intros j Hin Hlt. apply in_seq in Hin. apply Rltb_ltb in Hlt.
      destruct (Nat.ltb_spec j0 j) as [|Hj]; [reflexivity|]. destruct (Nat.ltb_spec k0 (p j)) as [|Hk]; [reflexivity|]. exfalso.
      assert (Hpj : (p j < n)%nat) by (apply p_lt; lia).
      assert (A : nth j x 0 <= nth j0 XR 0).
      { apply Rle_trans with (nth j XR 0); [apply x_in; lia | apply Rsorted_nth; auto; lia]. }
      assert (B : nth (p j) y 0 <= nth k0 YR 0).
      { apply Rle_trans with (nth (p j) YR 0); [apply y_in; lia | apply Rsorted_nth; auto; lia]. }
      assert (Dx : D (nth j x 0)) by (apply (D_up (nth j XL 0)); [apply DXL; lia | apply x_in; lia]).
      assert (Dy : D (nth (p j) y 0)) by (apply (D_up (nth (p j) YL 0)); [apply DYL; lia | apply y_in; lia]).
      pose proof (op_mono _ _ _ _ Dx Dy A B). lra.
    + etransitivity; [apply len_filter_or|]. pose proof (len_filter_gtb j0 n). pose proof (cnt_p_gt k0). lia.
Qed.

(* the raw bound arrays of frechet_op (before their final sort) *)
Theorem frechet_left_sound i : (i < n)%nat -> frechet_left RN op XL YL i <= nth i s 0.
Proof.
  intros Hi. unfold frechet_left. cbn [T RN]. apply maxl_le_all.
  - intros E. apply (f_equal (@length R)) in E. rewrite map2_length, rev_length, !firstn_length in E. cbn [T RN length] in E. rewrite lenXL, lenYL in E. lia.
  - intros v Hv. apply map2_In in Hv. destruct Hv as (j & a & b & Ha & Hb & ->).
    assert (Hj : (j < S i)%nat).
    { assert (j < length (firstn (S i) XL))%nat by (apply nth_error_Some; rewrite Ha; discriminate). rewrite firstn_length in H. lia. }
    apply (nth_error_nth _ _ 0) in Ha, Hb.
    rewrite nth_firstn_lt in Ha by lia.
    rewrite rev_nth in Hb by (rewrite firstn_length; lia).
    rewrite firstn_length, lenYL, Nat.min_l in Hb by lia. rewrite nth_firstn_lt in Hb by lia.
    subst a b. apply (frechet_left_pair j (S i - S j) i); lia.
Qed.
Theorem frechet_right_sound i : (i < n)%nat -> nth i s 0 <= frechet_right RN op XR YR i.
Proof.
  intros Hi. unfold frechet_right. cbn [T RN]. apply minl_ge_all.
  - intros E. apply (f_equal (@length R)) in E. rewrite map2_length, rev_length, !skipn_length in E. cbn [T RN length] in E. rewrite lenXR, lenYR in E. lia.
  - intros v Hv. apply map2_In in Hv. destruct Hv as (m & a & b & Ha & Hb & ->).
    assert (Hm : (m < n - i)%nat).
    { assert (m < length (skipn i XR))%nat by (apply nth_error_Some; rewrite Ha; discriminate). rewrite skipn_length in H. lia. }
    apply (nth_error_nth _ _ 0) in Ha, Hb.
    rewrite nth_skipn_add in Ha.
    rewrite rev_nth in Hb by (rewrite skipn_length; lia).
    rewrite skipn_length, lenYR, nth_skipn_add in Hb.
    subst a b. apply (frechet_right_pair (i + m) (i + (n - i - S m)) i); lia.
Qed.
End Frechet.

Lemma nth_map_seq (f : nat -> R) n i : (i < n)%nat -> nth i (map f (seq 0 n)) 0 = f i.
Proof. intros H. rewrite (nth_indep _ 0 (f 0%nat)) by (rewrite map_length, seq_length; exact H).
  rewrite map_nth, seq_nth by exact H. reflexivity. Qed.

(* the bounds returned by frechet_op (sorted arrays) enclose the sorted outcomes of every
   selection under every permutation coupling *)
Theorem frechet_op_sound (op : R -> R -> R) (D : R -> Prop) n (XL XR YL YR x y : list R) (pi : list nat) (s : list R) :
  (forall a a', D a -> a <= a' -> D a') ->
  (forall a a' b b', D a -> D b -> a <= a' -> b <= b' -> op a b <= op a' b') ->
  length XL = n -> length XR = n -> length YL = n -> length YR = n ->
  Rsorted XL -> Rsorted XR -> Rsorted YL -> Rsorted YR ->
  (forall j, (j < n)%nat -> D (nth j XL 0)) -> (forall j, (j < n)%nat -> D (nth j YL 0)) ->
  length x = n -> length y = n ->
  (forall j, (j < n)%nat -> nth j XL 0 <= nth j x 0 <= nth j XR 0) ->
  (forall j, (j < n)%nat -> nth j YL 0 <= nth j y 0 <= nth j YR 0) ->
  Permutation pi (seq 0 n) ->
  Permutation s (zs op n x y pi) -> Rsorted s ->
  forall i, (i < n)%nat ->
    nth i (fst (frechet_op RN op XL XR YL YR)) 0 <= nth i s 0 <= nth i (snd (frechet_op RN op XL XR YL YR)) 0.
Proof.
  intros Dup Hmono lXL lXR lYL lYR sXL sXR sYL sYR DXL DYL lx ly Hx Hy Hpi Hs Hss i Hi.
  assert (Ls : length s = n) by (rewrite (Permutation_length Hs); unfold zs; rewrite map_length, seq_length; reflexivity).
  unfold frechet_op; cbn [fst snd T RN]. rewrite lXL.
  rewrite <- (Rsort_id s Hss) at 1 2.
  split.
  - apply sort_pointwise_le; rewrite ?map_length, ?seq_length; auto.
    intros j Hj. rewrite nth_map_seq by exact Hj.
    apply (frechet_left_sound op D Hmono n XL XR YL YR lXL lXR lYL lYR sXL sYL DXL DYL x y lx ly Hx Hy pi Hpi s Hs Hss j Hj).
  - change (nth i (Rsort s) 0 <= nth i (Rsort (map (frechet_right RN op XR YR) (seq 0 n))) 0).
    apply sort_pointwise_le; rewrite ?map_length, ?seq_length; auto; try lia.
    intros j Hj. rewrite Ls in Hj. rewrite nth_map_seq by exact Hj.
    apply (frechet_right_sound op D Dup Hmono n XL XR YL YR lXL lXR lYL lYR sXR sYR DXL DYL x y lx ly Hx Hy pi Hpi s Hs Hss j Hj).
Qed.
