(* C10, second half of the property: the bounds are not vacuous.  The classical extremal two-point distributions meet the Markov and
   Cantelli bounds exactly: they satisfy the constraints and have the bound as a quantile at the level in question. *)
From Coq Require Import Reals Lra List Bool.
From PUN Require Import Base.Num Proofs.ListR Proofs.WFExpr Proofs.Free.
Import ListNotations.
Open Scope R_scope.

Lemma two_point_ok p : 0 <= p <= 1 -> forall a b : R, dist_ok [p; 1 - p] [a; b].
Proof. intros Hp a b. split; [reflexivity|]. split; [repeat (constructor; try lra) | cbn; lra]. Qed.
Lemma two_point_mean p a b : mean_of [p; 1 - p] [a; b] = p * a + (1 - p) * b.
Proof. unfold mean_of; cbn; ring. Qed.
Lemma two_point_mass E p a b : mass E [p; 1 - p] [a; b] = p * (if E a then 1 else 0) + (1 - p) * (if E b then 1 else 0).
Proof. unfold mass; cbn; ring. Qed.

(* Markov, upper side: all mass p at the minimum, the rest at the bound *)
Theorem markov_upper_tight mn mu p : mn <= mu -> 0 <= p < 1 ->
  let b := mn + (mu - mn) / (1 - p) in
  exists ws xs, dist_ok ws xs /\ Forall (fun x => mn <= x) xs /\ mean_of ws xs = mu /\ mass (fun x => Rltb x b) ws xs <= p.
Proof.
  intros Hm Hp b. exists [p; 1 - p], [mn; b].
  assert (Hb : mn <= b). { unfold b. assert (0 <= (mu - mn) / (1 - p)) by (apply Rmult_le_pos; [lra|left; apply Rinv_0_lt_compat; lra]). lra. }
  split; [apply two_point_ok; lra|]. split; [repeat (constructor; try lra)|]. split.
  - rewrite two_point_mean. unfold b. field. lra.
  - rewrite two_point_mass. rewrite (proj2 (Rltb_false b b)) by lra. destruct (Rltb mn b); lra.
Qed.
(* Markov, lower side: mass p at the bound, the rest at the maximum *)
Theorem markov_lower_tight mx mu p : mu <= mx -> 0 < p <= 1 ->
  let a := mx - (mx - mu) / p in
  exists ws xs, dist_ok ws xs /\ Forall (fun x => x <= mx) xs /\ mean_of ws xs = mu /\ p <= mass (fun x => Rleb x a) ws xs.
Proof.
  intros Hm Hp a. exists [p; 1 - p], [a; mx].
  assert (Ha : a <= mx). { unfold a. assert (0 <= (mx - mu) / p) by (apply Rmult_le_pos; [lra|left; apply Rinv_0_lt_compat; lra]). lra. }
  split; [apply two_point_ok; lra|]. split; [repeat (constructor; try lra)|]. split.
  - rewrite two_point_mean. unfold a. field. lra.
  - rewrite two_point_mass. rewrite (proj2 (Rleb_true a a)) by lra. destruct (Rleb mx a); lra.
Qed.

(* Cantelli: the two-point distribution with mass p at mu - sd sqrt((1-p)/p) and mass 1-p at mu + sd sqrt(p/(1-p)) has mean mu and
   variance sd^2; both Cantelli bounds are quantiles of it at level p *)
Lemma sqrt_ratio p : 0 < p < 1 -> let s := sqrt (p / (1 - p)) in 0 < s /\ s * s = p / (1 - p) /\ sqrt (1 / p - 1) = / s.
Proof.
  intros Hp s. assert (Hr : 0 < p / (1 - p)) by (apply Rmult_lt_0_compat; [lra|apply Rinv_0_lt_compat; lra]).
  assert (Hs : 0 < s) by (apply sqrt_lt_R0; exact Hr). split; [exact Hs|]. split; [apply sqrt_sqrt; lra|].
  replace (1 / p - 1) with (/ (p / (1 - p))) by (field; lra).
  rewrite sqrt_inv. reflexivity.
Qed.
Theorem cantelli_tight mu sd p : 0 <= sd -> 0 < p < 1 ->
  exists ws xs, dist_ok ws xs /\ mean_of ws xs = mu /\ var_of ws xs = sd * sd /\
    mass (fun x => Rltb x (mu + sd * sqrt (p / (1 - p)))) ws xs <= p /\
    p <= mass (fun x => Rleb x (mu - sd * sqrt (1 / p - 1))) ws xs.
Proof.
  intros Hsd Hp. destruct (sqrt_ratio p Hp) as (Hs & Hss & Ht). set (s := sqrt (p / (1 - p))) in *.
  rewrite Ht. exists [p; 1 - p], [mu - sd * / s; mu + sd * s].
  assert (Hmean : mean_of [p; 1 - p] [mu - sd * / s; mu + sd * s] = mu).
  { rewrite two_point_mean. assert (E : (1 - p) * (s * s) = p) by (rewrite Hss; field; lra).
    replace (p * (mu - sd * / s) + (1 - p) * (mu + sd * s)) with (mu + sd * / s * ((1 - p) * (s * s) - p)) by (field; lra). rewrite E. ring. }
  split; [apply two_point_ok; lra|]. split; [exact Hmean|]. split.
  - unfold var_of. rewrite Hmean. cbn [map dot].
    assert (E : (1 - p) * (s * s) = p) by (rewrite Hss; field; lra).
    assert (E2 : p * (/ s * / s) = 1 - p). { replace (/ s * / s) with (/ (s * s)) by (field; lra). rewrite Hss. field; lra. }
    replace (p * ((mu - sd * / s - mu) * (mu - sd * / s - mu)) + ((1 - p) * ((mu + sd * s - mu) * (mu + sd * s - mu)) + 0))
      with (sd * sd * (p * (/ s * / s) + (1 - p) * (s * s))) by ring. rewrite E, E2. ring.
  - assert (Hlt : mu - sd * / s <= mu + sd * s).
    { assert (0 <= sd * s) by (apply Rmult_le_pos; lra). assert (0 <= sd * / s) by (apply Rmult_le_pos; [lra|left; apply Rinv_0_lt_compat; lra]). lra. }
    rewrite !two_point_mass. rewrite (proj2 (Rltb_false (mu + sd * s) (mu + sd * s))) by lra. rewrite (proj2 (Rleb_true (mu - sd * / s) (mu - sd * / s))) by lra.
    split; [destruct (Rltb _ _); lra | destruct (Rleb _ _); lra].
Qed.
