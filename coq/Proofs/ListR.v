(* List lemmas over the real instance: sort, max/min folds, slicing, pointwise order. *)
From Coq Require Import Reals Lra List Arith Lia Bool Permutation Sorted.
From PUN Require Import Base.Num Base.Sort Model.Interval Model.Pbox.
Import ListNotations.
Open Scope R_scope.

Lemma Rleb_total x y : Rleb x y = true \/ Rleb y x = true.
Proof. rewrite !Rleb_true. lra. Qed.
Lemma Rleb_trans x y z : Rleb x y = true -> Rleb y z = true -> Rleb x z = true.
Proof. rewrite !Rleb_true. lra. Qed.
Lemma Rltb_ltb x y : ltb Rleb x y = true <-> x < y.
Proof. unfold ltb. rewrite negb_true_iff, Rleb_false. tauto. Qed.

Definition Rsorted (l : list R) := sorted Rleb l.
Definition Rsort (l : list R) := nsort RN l.
Lemma Rsort_perm l : Permutation l (Rsort l).
Proof. apply msort_perm. Qed.
Lemma Rsort_sorted l : Rsorted (Rsort l).
Proof. apply msort_sorted; [apply Rleb_total | apply Rleb_trans]. Qed.
Lemma Rsort_length l : length (Rsort l) = length l.
Proof. symmetry; apply Permutation_length, Rsort_perm. Qed.

Lemma Rsorted_nth l : Rsorted l -> forall i j, (i <= j < length l)%nat -> nth i l 0 <= nth j l 0.
Proof.
  induction 1 as [|a l Hs IH Hall]; intros i j Hij; cbn [length] in *; [lia|].
  destruct i as [|i], j as [|j]; cbn [nth]; try lra; try lia.
  - rewrite Forall_forall in Hall. apply Rleb_true, Hall, nth_In. lia.
  - apply IH. lia.
Qed.
Lemma nth_Rsorted l : (forall i j, (i <= j < length l)%nat -> nth i l 0 <= nth j l 0) -> Rsorted l.
Proof.
  induction l as [|a l IH]; intros H; [constructor|]. constructor.
  - apply IH. intros i j Hij. apply (H (S i) (S j)). cbn [length]; lia.
  - apply Forall_forall. intros x Hx. destruct (In_nth _ _ 0 Hx) as (k & Hk & <-).
    apply Rleb_true. apply (H 0%nat (S k)). cbn [length]; lia.
Qed.

(* a sorted permutation is unique (antisymmetry of <= on R) *)
Lemma Rsorted_perm_eq l1 : forall l2, Rsorted l1 -> Rsorted l2 -> Permutation l1 l2 -> l1 = l2.
Proof.
  induction l1 as [|a l1 IH]; intros l2 H1 H2 HP.
  - apply Permutation_nil in HP. subst; reflexivity.
  - destruct l2 as [|b l2]; [apply Permutation_sym, Permutation_nil in HP; discriminate|].
    inversion H1 as [|? ? S1 A1]; inversion H2 as [|? ? S2 A2]; subst.
    assert (a = b).
    { assert (Ia : In a (b :: l2)) by (apply (Permutation_in _ HP); left; reflexivity).
      assert (Ib : In b (a :: l1)) by (apply (Permutation_in _ (Permutation_sym HP)); left; reflexivity).
      rewrite Forall_forall in A1, A2.
      destruct Ia as [->|Ia]; [reflexivity|]. destruct Ib as [->|Ib]; [reflexivity|].
      apply A2 in Ia. apply A1 in Ib. apply Rleb_true in Ia, Ib. lra. }
    subst b. f_equal. apply IH; auto. apply (Permutation_cons_inv HP).
Qed.
Lemma Rsort_id l : Rsorted l -> Rsort l = l.
Proof. intros H. apply Rsorted_perm_eq; auto. apply Rsort_sorted. apply Permutation_sym, Rsort_perm. Qed.
Lemma Rsort_of_perm l l' : Permutation l l' -> Rsort l = Rsort l'.
Proof. intros H. apply Rsorted_perm_eq; try apply Rsort_sorted.
  eapply Permutation_trans; [apply Permutation_sym, Rsort_perm|]. eapply Permutation_trans; [exact H|apply Rsort_perm]. Qed.

(* ---------- max / min folds ---------- *)
Lemma fold_max_ge (l : list R) : forall a, a <= fold_left (@nmax RN) l a /\ (forall v, In v l -> v <= fold_left (@nmax RN) l a).
Proof. induction l as [|x l IH]; intros a; cbn [fold_left]; [split; [lra|intros v []]|].
  destruct (IH (@nmax RN a x)) as [H1 H2]. rewrite nmax_R in *. pose proof (Rmax_l a x). pose proof (Rmax_r a x).
  split; [lra|]. intros v [<-|Hv]; [lra|auto]. Qed.
Lemma fold_min_le (l : list R) : forall a, fold_left (@nmin RN) l a <= a /\ (forall v, In v l -> fold_left (@nmin RN) l a <= v).
Proof. induction l as [|x l IH]; intros a; cbn [fold_left]; [split; [lra|intros v []]|].
  destruct (IH (@nmin RN a x)) as [H1 H2]. rewrite nmin_R in *. pose proof (Rmin_l a x). pose proof (Rmin_r a x).
  split; [lra|]. intros v [<-|Hv]; [lra|auto]. Qed.
Lemma fold_max_in (l : list R) : forall a, fold_left (@nmax RN) l a = a \/ In (fold_left (@nmax RN) l a) l.
Proof. induction l as [|x l IH]; intros a; cbn [fold_left]; [left; reflexivity|].
  destruct (IH (@nmax RN a x)) as [H|H]; [|right; right; exact H].
  rewrite H, nmax_R. unfold Rmax. destruct (Rle_dec a x); [right; left; reflexivity|left; reflexivity]. Qed.
Lemma fold_min_in (l : list R) : forall a, fold_left (@nmin RN) l a = a \/ In (fold_left (@nmin RN) l a) l.
Proof. induction l as [|x l IH]; intros a; cbn [fold_left]; [left; reflexivity|].
  destruct (IH (@nmin RN a x)) as [H|H]; [|right; right; exact H].
  rewrite H, nmin_R. unfold Rmin. destruct (Rle_dec a x); [left; reflexivity|right; left; reflexivity]. Qed.

Lemma maxl_ge l v : In v l -> v <= maxl RN l.
Proof. destruct l as [|x l]; [intros []|]. cbn [maxl]. destruct (fold_max_ge l x) as [H1 H2]. intros [<-|H]; auto. Qed.
Lemma minl_le l v : In v l -> minl RN l <= v.
Proof. destruct l as [|x l]; [intros []|]. cbn [minl]. destruct (fold_min_le l x) as [H1 H2]. intros [<-|H]; auto. Qed.
Lemma maxl_in l : l <> [] -> In (maxl RN l) l.
Proof. destruct l as [|x l]; [congruence|]. intros _. cbn [maxl]. destruct (fold_max_in l x) as [->|H]; [left; reflexivity|right; exact H]. Qed.
Lemma minl_in l : l <> [] -> In (minl RN l) l.
Proof. destruct l as [|x l]; [congruence|]. intros _. cbn [minl]. destruct (fold_min_in l x) as [->|H]; [left; reflexivity|right; exact H]. Qed.
Lemma maxl_le_all l t : l <> [] -> (forall v, In v l -> v <= t) -> maxl RN l <= t.
Proof. intros H1 H2. apply H2, maxl_in, H1. Qed.
Lemma minl_ge_all l t : l <> [] -> (forall v, In v l -> t <= v) -> t <= minl RN l.
Proof. intros H1 H2. apply H2, minl_in, H1. Qed.

(* ---------- slicing ---------- *)
Lemma map2_length {A B C} (f : A -> B -> C) la lb : length (map2 f la lb) = Nat.min (length la) (length lb).
Proof. revert lb; induction la; intros [|b lb]; cbn; auto. Qed.
Lemma map2_nth {A B C} (f : A -> B -> C) la lb da db dc j :
  (j < length la)%nat -> (j < length lb)%nat -> nth j (map2 f la lb) dc = f (nth j la da) (nth j lb db).
Proof. revert lb j; induction la as [|a la IH]; intros [|b lb] [|j] Ha Hb; cbn in *; try lia; auto. apply IH; lia. Qed.
Lemma map2_In {A B C} (f : A -> B -> C) la lb c : In c (map2 f la lb) ->
  exists j a b, nth_error la j = Some a /\ nth_error lb j = Some b /\ c = f a b.
Proof. revert lb; induction la as [|a la IH]; intros [|b lb] H; cbn in H; try contradiction.
  destruct H as [<-|H]; [exists 0%nat, a, b; auto|]. destruct (IH lb H) as (j & a' & b' & ? & ? & ?). exists (S j), a', b'; auto. Qed.
Lemma nth_firstn_lt {A} (l : list A) d n j : (j < n)%nat -> nth j (firstn n l) d = nth j l d.
Proof. revert n j; induction l as [|a l IH]; intros [|n] [|j] H; cbn; try lia; auto. apply IH; lia. Qed.
Lemma nth_skipn_add {A} (l : list A) d n j : nth j (skipn n l) d = nth (n + j) l d.
Proof. revert l; induction n as [|n IH]; intros [|a l]; cbn; auto. destruct j; reflexivity. Qed.

(* ---------- pointwise order is preserved by sorting ---------- *)
Lemma len_filter_all_R (f : R -> bool) l : (length (filter f l) <= length l)%nat.
Proof. induction l; simpl; [lia|]; destruct (f a); simpl; lia. Qed.
Lemma cnt_pointwise (f g : R -> bool) : forall a b : list R, length a = length b ->
  (forall i, (i < length a)%nat -> f (nth i a 0) = true -> g (nth i b 0) = true) -> (cnt f a <= cnt g b)%nat.
Proof.
  unfold cnt. induction a as [|x a IH]; intros [|y b] Hl H; cbn in *; try lia.
  assert (IH' : (length (filter f a) <= length (filter g b))%nat).
  { apply IH; [lia|]. intros i Hi. apply (H (S i)). lia. }
  destruct (f x) eqn:Fx; [rewrite (H 0%nat ltac:(lia) Fx); cbn; lia|]. destruct (g y); cbn; lia.
Qed.
Lemma sorted_cnt_gt l : Rsorted l -> forall i, (i < length l)%nat ->
  (cnt (fun z => ltb Rleb (nth i l 0%R) z) l <= length l - 1 - i)%nat.
Proof.
  induction 1 as [|a l Hs IH Hall]; intros i Hi; cbn [length] in *; [lia|].
  unfold cnt in *. cbn [filter]. destruct i as [|i]; cbn [nth].
  - assert (E : ltb Rleb a a = false) by (unfold ltb; rewrite (proj2 (Rleb_true a a)); [reflexivity|lra]).
    rewrite E. pose proof (len_filter_all_R (fun z => ltb Rleb a z) l). lia.
  - assert (Hle : a <= nth i l 0).
    { rewrite Forall_forall in Hall. apply Rleb_true, Hall, nth_In. lia. }
    assert (E : ltb Rleb (nth i l 0) a = false).
    { unfold ltb. rewrite (proj2 (Rleb_true a (nth i l 0)) Hle). reflexivity. }
    rewrite E. specialize (IH i ltac:(lia)). lia.
Qed.

Theorem sort_pointwise_le (a b : list R) : length a = length b ->
  (forall i, (i < length a)%nat -> nth i a 0 <= nth i b 0) ->
  forall i, (i < length a)%nat -> nth i (Rsort a) 0 <= nth i (Rsort b) 0.
Proof.
  intros Hl H i Hi. apply Rleb_true.
  apply (rank_upper R Rleb Rleb_trans) with (l := a); auto.
  - apply Permutation_sym, Rsort_perm. - apply Rsort_sorted.
  - set (t := nth i (Rsort b) 0).
    transitivity (cnt (fun z => ltb Rleb t z) b).
    + apply cnt_pointwise; auto. intros j Hj. rewrite !Rltb_ltb. specialize (H j Hj). lra.
    + rewrite (cnt_perm _ _ _ _ (Rsort_perm b)). rewrite Hl, <- (Rsort_length b).
      apply sorted_cnt_gt; [apply Rsort_sorted|]. rewrite Rsort_length. lia.
Qed.

Lemma last_as_nth {A} (l : list A) d : last l d = nth (length l - 1) l d.
Proof. induction l as [|a l IH]; [reflexivity|]. destruct l as [|b l]; [reflexivity|].
  change (last (a :: b :: l) d) with (last (b :: l) d). rewrite IH. cbn [length]. replace (S (S (length l)) - 1)%nat with (S (length l - 0)) by lia. replace (S (length l) - 1)%nat with (length l - 0)%nat by lia. reflexivity. Qed.

Lemma nth_map_seq_gen {A} (f : nat -> A) n i d : (i < n)%nat -> nth i (map f (seq 0 n)) d = f i.
Proof. intros H. rewrite (nth_indep _ d (f 0%nat)) by (rewrite map_length, seq_length; exact H).
  rewrite map_nth, seq_nth by exact H. reflexivity. Qed.
