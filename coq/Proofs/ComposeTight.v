(* Best possible => inside every sound bound, also for WIDER operands and across the routes of the product.
   If arrays (BL, BR) bound the outcomes of every pair of samples bounded by the operands X', Y', and X, Y lie inside X', Y', then at every step
   the Frechet bounds of X, Y (which are attained by explicit couplings of the bounding distributions, Proofs/Tight.v) lie inside (BL, BR).
   With Proofs/ComposeAll.v this gives inclusion isotonicity of the Frechet product from the classic route into ANY route. *)
From Coq Require Import Reals Lra List Arith Lia Bool Permutation Sorted.
From PUN Require Import Base.Num Base.Sort Model.Interval Model.Pbox Proofs.ListR Proofs.PboxWF Proofs.Frechet Proofs.Tight
  Proofs.Compose Proofs.ComposeNaive Proofs.ComposeOps Proofs.ComposeLink.
Import ListNotations.
Open Scope R_scope.

Lemma bounds_weaken (L Rr L' R' u : list R) : ple L' L -> ple Rr R' -> bounds L Rr u -> bounds L' R' u.
Proof.
  intros H1 H2 (Hu & Hr & H). pose proof (ple_length _ _ H1) as E1. pose proof (ple_length _ _ H2) as E2.
  split; [lia|]. split; [lia|]. intros s Hs Hss i Hi. specialize (H s Hs Hss i ltac:(lia)).
  pose proof (ple_nth _ _ H1 i ltac:(lia)). pose proof (ple_nth _ _ H2 i ltac:(lia)). lra.
Qed.

Section Tight.
Variable op : R -> R -> R.
Variable D : R -> Prop.
Hypothesis D_up : forall a a', D a -> a <= a' -> D a'.
Hypothesis op_mono : forall a a' b b', D a -> D b -> a <= a' -> b <= b' -> op a b <= op a' b'.
Variable n : nat.
Variables XL XR YL YR XL' XR' YL' YR' BL BR : list R.
Hypothesis lXL : length XL = n. Hypothesis lXR : length XR = n. Hypothesis lYL : length YL = n. Hypothesis lYR : length YR = n.
Hypothesis sXL : Rsorted XL. Hypothesis sXR : Rsorted XR. Hypothesis sYL : Rsorted YL. Hypothesis sYR : Rsorted YR.
Hypothesis pX : ple XL XR. Hypothesis pY : ple YL YR.
Hypothesis DXL : forall j, (j < n)%nat -> D (nth j XL 0).
Hypothesis DYL : forall j, (j < n)%nat -> D (nth j YL 0).
(* X inside X', Y inside Y' *)
Hypothesis wXL : ple XL' XL. Hypothesis wXR : ple XR XR'. Hypothesis wYL : ple YL' YL. Hypothesis wYR : ple YR YR'.
(* (BL, BR) is sound for the wider operands *)
Hypothesis lBL : length BL = n.
Hypothesis sound : forall u v, bounds XL' XR' u -> bounds YL' YR' v -> bounds BL BR (map2 op u v).

Lemma coupled_outcomes (x y : list R) (pi : list nat) : length x = n -> length y = n ->
  zs op n x y pi = map2 op x (map (fun j => nth (nth j pi 0%nat) y 0) (seq 0 n)).
Proof.
  intros lx ly. unfold zs, p. rewrite (map2_as_seq op x _ n lx) by (rewrite map_length, seq_length; reflexivity).
  apply map_ext_in. intros j Hj. apply in_seq in Hj. rewrite (nth_map_seq_gen _ n j 0) by lia. reflexivity.
Qed.
Lemma sel_bounded (L Rr L' R' x : list R) (pi : list nat) : length L = n -> length Rr = n -> length x = n -> Rsorted L -> Rsorted Rr ->
  (forall j, (j < n)%nat -> nth j L 0 <= nth j x 0 <= nth j Rr 0) -> ple L' L -> ple Rr R' -> Permutation pi (seq 0 n) ->
  bounds L' R' (map (fun j => nth (nth j pi 0%nat) x 0) (seq 0 n)).
Proof.
  intros lL lR lx sL sR Hx w1 w2 Hp. apply (bounds_weaken L Rr); auto.
  apply (bounds_perm _ _ x); [apply reindex_perm; auto|]. apply selection_bounds; auto; try lia. intros j Hj. apply Hx. lia.
Qed.

Theorem tight_inside_sound i : (i < n)%nat ->
  nth i BL 0 <= frechet_left RN op XL YL i /\ frechet_right RN op XR YR i <= nth i BR 0.
Proof.
  intros Hi. split.
  - rewrite <- (frechet_left_attained op D op_mono n XL XR YL YR lXL lXR lYL lYR sXL sYL pX pY DXL DYL i Hi).
    unfold outcomes_left. rewrite (coupled_outcomes XL YL _ lXL lYL).
    pose proof (coupling_left_perm n i Hi) as Hp.
    assert (Bu : bounds XL' XR' XL) by (apply (bounds_weaken XL XR); auto; apply selection_bounds; auto; try lia; intros j Hj; split; [lra|apply ple_nth; auto; lia]).
    assert (Bv : bounds YL' YR' (map (fun j => nth (nth j (coupling_left n i) 0%nat) YL 0) (seq 0 n))).
    { apply (sel_bounded YL YR); auto. intros j Hj. split; [lra|apply ple_nth; auto; lia]. }
    destruct (sound _ _ Bu Bv) as (_ & _ & H).
    apply (H (Rsort _) (Permutation_sym (Rsort_perm _)) (Rsort_sorted _) i). lia.
  - rewrite <- (frechet_right_attained op D D_up op_mono n XL XR YL YR lXL lXR lYL lYR sXR sYR pX pY DXL DYL i Hi).
    unfold outcomes_right. rewrite (coupled_outcomes XR YR _ lXR lYR).
    pose proof (coupling_right_perm n i Hi) as Hp.
    assert (Bu : bounds XL' XR' XR) by (apply (bounds_weaken XL XR); auto; apply selection_bounds; auto; try lia; intros j Hj; split; [apply ple_nth; auto; lia|lra]).
    assert (Bv : bounds YL' YR' (map (fun j => nth (nth j (coupling_right n i) 0%nat) YR 0) (seq 0 n))).
    { apply (sel_bounded YL YR); auto. intros j Hj. split; [apply ple_nth; auto; lia|lra]. }
    destruct (sound _ _ Bu Bv) as (_ & _ & H).
    apply (H (Rsort _) (Permutation_sym (Rsort_perm _)) (Rsort_sorted _) i). lia.
Qed.
End Tight.

(* instance: the Frechet product.  X, Y with non-negative lower bounds (the classic, best-possible route) inside X', Y' of ANY sign (any route of
   frechet_pbox_mul: classic, negative, zero-straddling): the product for the wider operands contains the Frechet bounds of X * Y step by step *)
From PUN Require Import Model.PboxArith Proofs.ComposeMul Proofs.ComposeAll.
Theorem product_isotone_into_any_route steps plo phi (X Y X' Y' r : list R * list R) : (0 < steps)%nat ->
  WF steps X -> WF steps Y -> WF steps X' -> WF steps Y' ->
  (forall j, (j < steps)%nat -> 0 <= nth j (fst X) 0) -> (forall j, (j < steps)%nat -> 0 <= nth j (fst Y) 0) ->
  ple (fst X') (fst X) -> ple (snd X) (snd X') -> ple (fst Y') (fst Y) -> ple (snd Y) (snd Y') ->
  pmul RN steps plo phi DF X' Y' = Ok r ->
  forall i, (i < steps)%nat -> nth i (fst r) 0 <= frechet_left RN Rmult (fst X) (fst Y) i /\ frechet_right RN Rmult (snd X) (snd Y) i <= nth i (snd r) 0.
Proof.
  intros Hs [x1 x2 x3 x4 x5] [y1 y2 y3 y4 y5] WX' WY' PX PY w1 w2 w3 w4 E i Hi.
  assert (Hr : forall u v, bounds (fst X') (snd X') u -> bounds (fst Y') (snd Y') v -> snd_ steps r (map2 Rmult u v)).
  { intros u v Bu Bv. apply (mul_sound steps plo phi Hs X' Y' u v r); [split; assumption|split; assumption|exact E]. }
  assert (Lr : length (fst r) = steps).
  { destruct (Hr (fst X') (fst Y')) as ([L1 _ _ _ _] & _); auto.
    - destruct WX' as [a1 a2 a3 a4 a5]. apply selection_bounds; auto; try lia. intros j Hj. split; [lra|apply ple_nth; auto].
    - destruct WY' as [a1 a2 a3 a4 a5]. apply selection_bounds; auto; try lia. intros j Hj. split; [lra|apply ple_nth; auto]. }
  apply (tight_inside_sound Rmult (fun a => 0 <= a) ltac:(intros; lra) ltac:(intros; apply Rmult_le_compat; lra) steps
           (fst X) (snd X) (fst Y) (snd Y) (fst X') (snd X') (fst Y') (snd Y') (fst r) (snd r)); auto.
  intros u v Bu Bv. exact (proj2 (Hr u v Bu Bv)).
Qed.

(* the same against the ARRAYS returned by frechet_op for X, Y (its sorted bounds): the product of the wider operands contains them *)
Theorem product_isotone_arrays steps plo phi (X Y X' Y' r : list R * list R) : (0 < steps)%nat ->
  WF steps X -> WF steps Y -> WF steps X' -> WF steps Y' ->
  (forall j, (j < steps)%nat -> 0 <= nth j (fst X) 0) -> (forall j, (j < steps)%nat -> 0 <= nth j (fst Y) 0) ->
  ple (fst X') (fst X) -> ple (snd X) (snd X') -> ple (fst Y') (fst Y) -> ple (snd Y) (snd Y') ->
  pmul RN steps plo phi DF X' Y' = Ok r ->
  ple (fst r) (fst (frechet_op RN Rmult (fst X) (snd X) (fst Y) (snd Y))) /\ ple (snd (frechet_op RN Rmult (fst X) (snd X) (fst Y) (snd Y))) (snd r).
Proof.
  intros Hs WX WY WX' WY' PX PY w1 w2 w3 w4 E.
  pose proof (product_isotone_into_any_route steps plo phi X Y X' Y' r Hs WX WY WX' WY' PX PY w1 w2 w3 w4 E) as H.
  assert (Wr : WF steps r).
  { destruct WX' as [a1 a2 a3 a4 a5]. destruct WY' as [b1 b2 b3 b4 b5].
    assert (Bu : bounds (fst X') (snd X') (fst X')) by (apply selection_bounds; auto; try lia; intros j Hj; split; [lra|apply ple_nth; auto]).
    assert (Bv : bounds (fst Y') (snd Y') (fst Y')) by (apply selection_bounds; auto; try lia; intros j Hj; split; [lra|apply ple_nth; auto]).
    apply (mul_sound steps plo phi Hs X' Y' (fst X') (fst Y') r); [split; [constructor|]; assumption|split; [constructor|]; assumption|exact E]. }
  destruct Wr as [r1 r2 r3 r4 r5]. destruct WX as [x1 x2 x3 x4 x5].
  unfold frechet_op. cbn [fst snd T RN]. rewrite x1. change (nsort RN) with Rsort.
  split; apply nth_ple; rewrite ?Rsort_length, ?map_length, ?seq_length; try lia; intros i Hi.
  - rewrite <- (Rsort_id (fst r) r3) at 1. apply sort_pointwise_le; rewrite ?map_length, ?seq_length; try lia.
    intros j Hj. rewrite nth_map_seq by lia. apply (H j). lia.
  - rewrite <- (Rsort_id (snd r) r4). apply sort_pointwise_le; rewrite ?map_length, ?seq_length; try lia.
    intros j Hj. rewrite nth_map_seq by lia. apply (H j). lia.
Qed.
