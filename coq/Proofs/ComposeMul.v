(* C02: soundness of the WHOLE Frechet product routing of pbox_abc.py (frechet_pbox_mul: classic / negative / zero-straddling with the naive
   bound, the Balch product and their imposition) for operands of any sign, stated compositionally: whenever the product returns a p-box, it is
   well formed and bounds the sample of products u_i * v_i of any two samples bounded by the operands - every choice of member distributions,
   every dependence. *)
From Coq Require Import Reals Lra List Arith Lia Bool Permutation Sorted.
From PUN Require Import Base.Num Base.Sort Model.Interval Model.Pbox Model.PboxArith
  Proofs.ListR Proofs.Frechet Proofs.PboxWF Proofs.PboxUnary Proofs.WFExpr Proofs.Compose Proofs.ComposeNaive Proofs.ComposeOps.
Import ListNotations.
Open Scope R_scope.

(* ---------- identities between samples ---------- *)
Lemma map2_opp_l : forall u v : list R, map2 Rmult (map Ropp u) v = map Ropp (map2 Rmult u v).
Proof. induction u as [|a u IH]; intros [|b v]; cbn; auto. f_equal; [ring|apply IH]. Qed.
Lemma map2_opp_r : forall u v : list R, map2 Rmult u (map Ropp v) = map Ropp (map2 Rmult u v).
Proof. induction u as [|a u IH]; intros [|b v]; cbn; auto. f_equal; [ring|apply IH]. Qed.
Lemma map_opp_opp (l : list R) : map Ropp (map Ropp l) = l.
Proof. induction l as [|a l IH]; cbn; auto. f_equal; [ring|exact IH]. Qed.
Lemma map2_mul_comm : forall u v : list R, map2 Rmult u v = map2 Rmult v u.
Proof. induction u as [|a u IH]; intros [|b v]; cbn; auto. f_equal; [ring|apply IH]. Qed.
Lemma balch_both (x0 y0 : R) : forall u v : list R,
  map (fun t => t + x0 * y0)
      (map2 Rplus (map2 Rmult (map (fun a => a - x0) u) (map (fun b => b - y0) v))
                  (map2 Rplus (map (fun a => a * y0) (map (fun a => a - x0) u)) (map (fun b => b * x0) (map (fun b => b - y0) v))))
  = map2 Rmult u v.
Proof. induction u as [|a u IH]; intros [|b v]; cbn; auto. f_equal; [ring|apply IH]. Qed.
Lemma balch_self (x0 : R) : forall u v : list R,
  map2 Rplus (map2 Rmult (map (fun a => a - x0) u) v) (map (fun b => b * x0) v) = map2 Rmult u v.
Proof. induction u as [|a u IH]; intros [|b v]; cbn; auto. f_equal; [ring|apply IH]. Qed.
Lemma balch_other (y0 : R) : forall u v : list R, length u = length v ->
  map2 Rplus (map2 Rmult u (map (fun b => b - y0) v)) (map (fun a => a * y0) u) = map2 Rmult u v.
Proof. induction u as [|a u IH]; intros [|b v] H; cbn in *; auto; try lia. f_equal; [ring|apply IH; lia]. Qed.

Tactic Notation "bstep" ident(n) ident(e) := match goal with |- rbind ?x _ = _ -> _ => destruct x as [n| |] eqn:e; cbn [rbind]; try discriminate end.

Section Mul.
Variable steps : nat.
Variables plo phi : R.
Notation S_ := (snd_ steps).
Notation WFs := (WF steps).

Lemma S_ext p u u' : u = u' -> S_ p u -> S_ p u'.
Proof. intros ->; auto. Qed.

(* number operations, any constant *)
Lemma pnum_sub_sound p u c r : S_ p u -> pnum RN steps plo phi (nsub RN) p c = Ok r -> S_ r (map (fun a => a - c) u).
Proof. intros HS E. apply (pnum_sound_incr steps plo phi Rminus c p u r); auto. intros; lra. Qed.
Lemma pnum_add_sound p u c r : S_ p u -> pnum RN steps plo phi (nadd RN) p c = Ok r -> S_ r (map (fun a => a + c) u).
Proof. intros HS E. apply (pnum_sound_incr steps plo phi Rplus c p u r); auto. intros; lra. Qed.
Lemma pnum_mul_sound p u c r : S_ p u -> pnum RN steps plo phi (nmul RN) p c = Ok r -> S_ r (map (fun a => a * c) u).
Proof. intros HS E. destruct (Rle_dec 0 c).
  - apply (pnum_sound_incr steps plo phi Rmult c p u r); auto. intros; nra.
  - apply (pnum_sound_anti steps plo phi Rmult c p u r); auto. intros; nra. Qed.

(* sign facts of well-formed p-boxes *)
Definition nonneg_left (p : list R * list R) : Prop := forall j, (j < steps)%nat -> 0 <= nth j (fst p) 0.
Lemma not_straddle_pos_hi p : WFs p -> (0 < steps)%nat -> PboxBase.straddles_zero RN p = false -> nleb RN (PboxBase.p_hi_ RN p) nzero = false -> nonneg_left p.
Proof.
  intros [H1 H2 H3 H4 H5] Hs Z Hh j Hj. unfold PboxBase.straddles_zero in Z. unfold PboxBase.p_hi_, lastn in Hh.
  cbn [nleb nltb RN T] in *. change (@nzero RN) with 0 in *. apply Rleb_false in Hh.
  assert (Hne : snd p <> []) by (intro E0; rewrite E0 in H2; cbn in H2; lia).
  assert (Hmax : 0 < maxl RN (snd p)).
  { apply Rlt_le_trans with (last (snd p) 0); [exact Hh|]. apply maxl_ge. rewrite last_as_nth. apply nth_In. lia. }
  apply andb_false_iff in Z. destruct Z as [Z|Z].
  - apply Rltb_false in Z. apply Rle_trans with (minl RN (fst p)); [exact Z|]. apply minl_le. apply nth_In. lia.
  - apply Rltb_false in Z. lra.
Qed.
Lemma neg_of_nonpos_nonneg p r : WFs p -> (0 < steps)%nat -> nleb RN (PboxBase.p_hi_ RN p) nzero = true -> pneg RN steps plo phi p = Ok r -> nonneg_left r.
Proof.
  intros W Hs Hh E. rewrite (pneg_steps steps plo phi p W) in E. injection E as <-. destruct W as [H1 H2 H3 H4 H5].
  unfold PboxBase.p_hi_, lastn in Hh. cbn [nleb RN T] in Hh. change (@nzero RN) with 0 in Hh. apply Rleb_true in Hh.
  intros j Hj. cbn [fst]. rewrite (nth_indep _ 0 (Ropp 0)) by (rewrite map_length, rev_length; lia). rewrite map_nth.
  rewrite rev_nth by lia. rewrite last_as_nth in Hh.
  assert (nth (length (snd p) - S j) (snd p) 0 <= nth (length (snd p) - 1) (snd p) 0) by (apply Rsorted_nth; auto; lia). lra.
Qed.
Lemma shifted_nonneg p r : WFs p -> (0 < steps)%nat -> pnum RN steps plo phi (nsub RN) p (PboxBase.p_lo_ RN p) = Ok r -> nonneg_left r.
Proof.
  intros W Hs E. change (nsub RN) with Rminus in E. rewrite (pnum_mono steps plo phi Rminus (PboxBase.p_lo_ RN p) p W) in E by (intros; lra). injection E as <-.
  destruct W as [H1 H2 H3 H4 H5]. intros j Hj. cbn [fst]. unfold PboxBase.p_lo_, nth0. change (@nzero RN) with 0.
  rewrite (nth_indep _ 0 (0 - nth 0 (fst p) 0)) by (rewrite map_length; lia). rewrite (map_nth (fun x => x - nth 0 (fst p) 0)).
  assert (nth 0 (fst p) 0 <= nth j (fst p) 0) by (apply Rsorted_nth; auto; lia). cbn [T RN] in *. lra.
Qed.

Hypothesis steps_pos : (0 < steps)%nat.

Lemma classic_mul_sound p q u v r : nonneg_left p -> nonneg_left q -> S_ p u -> S_ q v ->
  m_classic_frechet_pbox RN steps plo phi p q (nmul RN) = Ok r -> S_ r (map2 Rmult u v).
Proof.
  intros Np Nq. apply (classic_sound steps plo phi Rmult (fun a => 0 <= a)); [intros; lra| |exact Np|exact Nq].
  intros a a' b b' Ha Hb Haa Hbb. apply Rmult_le_compat; lra.
Qed.
Lemma classic_add_sound p q u v r : S_ p u -> S_ q v ->
  m_classic_frechet_pbox RN steps plo phi p q (nadd RN) = Ok r -> S_ r (map2 Rplus u v).
Proof. apply (classic_sound steps plo phi Rplus (fun _ => True)); auto. intros; lra. Qed.

Lemma negative_sound p q u v r : S_ p u -> S_ q v ->
  PboxBase.straddles_zero RN p = false -> PboxBase.straddles_zero RN q = false ->
  m_nagative_frechet_pbox RN steps plo phi p q = Ok r -> S_ r (map2 Rmult u v).
Proof.
  intros Sp Sq Zp Zq. unfold m_nagative_frechet_pbox.
  destruct (nleb RN (PboxBase.p_hi_ RN p) nzero) eqn:Hp; destruct (nleb RN (PboxBase.p_hi_ RN q) nzero) eqn:Hq; cbn [orb xorb]; try discriminate.
  - bstep a Ea. bstep b Eb. bstep res Er. intros E; injection E as <-.
    pose proof (pneg_sound steps plo phi p u a Sp Ea) as Sa. pose proof (pneg_sound steps plo phi q v b Sq Eb) as Sb.
    pose proof (neg_of_nonpos_nonneg p a (proj1 Sp) steps_pos Hp Ea) as Na. pose proof (neg_of_nonpos_nonneg q b (proj1 Sq) steps_pos Hq Eb) as Nb.
    pose proof (classic_mul_sound a b _ _ res Na Nb Sa Sb Er) as Sr.
    rewrite map2_opp_l, map2_opp_r, map_opp_opp in Sr. exact Sr.
  - bstep a Ea. cbn [rbind]. bstep res Er. intros E.
    pose proof (pneg_sound steps plo phi p u a Sp Ea) as Sa.
    pose proof (neg_of_nonpos_nonneg p a (proj1 Sp) steps_pos Hp Ea) as Na.
    pose proof (not_straddle_pos_hi q (proj1 Sq) steps_pos Zq Hq) as Nb.
    pose proof (classic_mul_sound a q _ _ res Na Nb Sa Sq Er) as Sr. rewrite map2_opp_l in Sr.
    pose proof (pneg_sound steps plo phi res _ r Sr E) as S2. rewrite map_opp_opp in S2. exact S2.
  - cbn [rbind]. bstep b Eb. bstep res Er. intros E.
    pose proof (pneg_sound steps plo phi q v b Sq Eb) as Sb.
    pose proof (neg_of_nonpos_nonneg q b (proj1 Sq) steps_pos Hq Eb) as Nb.
    pose proof (not_straddle_pos_hi p (proj1 Sp) steps_pos Zp Hp) as Na.
    pose proof (classic_mul_sound p b _ _ res Na Nb Sp Sb Er) as Sr. rewrite map2_opp_r in Sr.
    pose proof (pneg_sound steps plo phi res _ r Sr E) as S2. rewrite map_opp_opp in S2. exact S2.
Qed.

Section Fuel.
Variable fuel : nat.
Hypothesis IH : forall p q u v r, S_ p u -> S_ q v -> m_frechet_pbox_mul RN steps plo phi fuel p q = Ok r -> S_ r (map2 Rmult u v).

Lemma balch_sound a b u v c : S_ a u -> S_ b v -> m_balchprod RN steps plo phi fuel a b = Ok c -> S_ c (map2 Rmult u v).
Proof.
  intros Sa Sb. unfold m_balchprod.
  destruct (PboxBase.straddles_zero RN a && PboxBase.straddles_zero RN b).
  - cbv zeta. set (x0 := PboxBase.p_lo_ RN a). set (y0 := PboxBase.p_lo_ RN b).
    bstep xx0 E1. bstep yy0 E2. bstep va E3. bstep t1 E4. bstep b2 E5. bstep vb E6. bstep t2 E7. intros E8.
    pose proof (pnum_sub_sound a u x0 xx0 Sa E1) as S1. pose proof (pnum_sub_sound b v y0 yy0 Sb E2) as S2.
    pose proof (IH _ _ _ _ _ S1 S2 E3) as S3.
    pose proof (pnum_mul_sound xx0 _ y0 t1 S1 E4) as S4. pose proof (pnum_mul_sound yy0 _ x0 b2 S2 E5) as S5.
    pose proof (classic_add_sound t1 b2 _ _ vb S4 S5 E6) as S6.
    pose proof (classic_add_sound va vb _ _ t2 S3 S6 E7) as S7.
    change (nmul RN x0 y0) with (x0 * y0) in E8.
    pose proof (pnum_add_sound t2 _ (x0 * y0) c S7 E8) as S8. rewrite balch_both in S8. exact S8.
  - destruct (PboxBase.straddles_zero RN a).
    + cbv zeta. set (x0 := PboxBase.p_lo_ RN a).
      bstep xx0 E1. bstep va E2. bstep vb E3. intros E4.
      pose proof (pnum_sub_sound a u x0 xx0 Sa E1) as S1. pose proof (IH _ _ _ _ _ S1 Sb E2) as S2.
      pose proof (pnum_mul_sound b _ x0 vb Sb E3) as S3.
      pose proof (classic_add_sound va vb _ _ c S2 S3 E4) as S4. rewrite balch_self in S4. exact S4.
    + destruct (PboxBase.straddles_zero RN b); [|apply IH; assumption].
      cbv zeta. set (y0 := PboxBase.p_lo_ RN b).
      bstep yy0 E1. bstep va E2. bstep vb E3. intros E4.
      pose proof (pnum_sub_sound b v y0 yy0 Sb E1) as S1. pose proof (IH _ _ _ _ _ Sa S1 E2) as S2.
      pose proof (pnum_mul_sound a _ y0 vb Sa E3) as S3.
      pose proof (classic_add_sound va vb _ _ c S2 S3 E4) as S4.
      rewrite balch_other in S4; [exact S4|]. destruct (S_len steps a u Sa) as (_ & _ & Hu). destruct (S_len steps b v Sb) as (_ & _ & Hv). lia.
Qed.
Lemma straddle_sound a b u v c : S_ a u -> S_ b v -> m_straddle_frechet_pbox RN steps plo phi fuel a b = Ok c -> S_ c (map2 Rmult u v).
Proof.
  intros Sa Sb. unfold m_straddle_frechet_pbox. bstep nb E1. bstep bp E2. bstep ip E3. intros E; injection E as <-.
  pose proof (naive_sound steps plo phi a b u v nb Sa Sb E1) as S1. pose proof (balch_sound a b u v bp Sa Sb E2) as S2.
  exact (pimp_sound steps plo phi nb bp _ ip S1 S2 E3).
Qed.
End Fuel.

Theorem frechet_mul_sound_fuel fuel : forall p q u v r, S_ p u -> S_ q v ->
  m_frechet_pbox_mul RN steps plo phi fuel p q = Ok r -> S_ r (map2 Rmult u v).
Proof.
  induction fuel as [|fuel IH]; intros p q u v r Sp Sq; [discriminate|]. rewrite m_frechet_pbox_mul_S.
  destruct (PboxBase.straddles_zero RN p) eqn:Zp; destruct (PboxBase.straddles_zero RN q) eqn:Zq; cbn [orb].
  - apply (straddle_sound fuel IH); assumption.
  - intros E. rewrite map2_mul_comm. revert E. apply (straddle_sound fuel IH); assumption.
  - apply (straddle_sound fuel IH); assumption.
  - destruct (nleb RN (PboxBase.p_hi_ RN p) nzero || nleb RN (PboxBase.p_hi_ RN q) nzero) eqn:Hn.
    + apply negative_sound; assumption.
    + apply orb_false_iff in Hn. destruct Hn as [Hp Hq].
      apply classic_mul_sound; auto; apply not_straddle_pos_hi; auto; [apply Sp|apply Sq].
Qed.
End Mul.
