(* C14: the output of a mixed propagation CONTAINS THE RESPONSES.  The output is the equal-weight mixture of the focal intervals (one interval
   image per row of levels); for any choice of one value inside each focal interval - in particular the response function evaluated at any
   point of each box, which the interval image contains (C13) - the quantile of the equal-weight distribution of those values lies, at every
   level of the probability grid, between the left and the right bound of the output. *)
From Coq Require Import Reals Lra List Arith Lia Bool.
From PUN Require Import Base.Num Model.Interval Model.Pbox Model.B2B Model.Mixed Proofs.ListR Proofs.PboxWF Proofs.Stacking Proofs.Mixed.
Import ListNotations.
Open Scope R_scope.

Lemma ecdf_at_dom (s s' w : list R) a : length s = length w -> length s' = length w -> s <> [] -> s' <> [] -> 0 < a <= 1 ->
  Forall (fun m => 0 <= m) w -> a <= Rsum w -> Forall2 Rle s s' -> ecdf_at s w a <= ecdf_at s' w a.
Proof.
  intros L1 L2 N1 N2 Ha Hw Hs Hle.
  destruct (ecdf_at_ginv s w a L1 N1 Ha Hw Hs) as (_ & A1 & B1). destruct (ecdf_at_ginv s' w a L2 N2 Ha Hw Hs) as (_ & A2 & B2).
  apply (is_ginv_dom s s' w a _ _ L1 L2 Hw Hle); split; assumption.
Qed.

Section Sel.
Variable steps : nat.
Variables plo phi : R.
Notation grid := (p_values RN steps plo phi).
Hypothesis grid_len : @length R grid = steps.
Hypothesis grid_ok : Forall (fun a => 0 < a <= 1) grid.

Theorem mixture_contains_selection (focal : list (R * R)) (x : list R) : (1 < length focal)%nat ->
  Forall2 (fun i v => fst i <= v <= snd i) focal x ->
  let w := equal_weights RN (length focal) in
  forall a, In a grid -> ecdf_at (map fst focal) w a <= ecdf_at x w a <= ecdf_at (map snd focal) w a.
Proof.
  intros Hm Hx w a Ha. rewrite Forall_forall in grid_ok. specialize (grid_ok a Ha).
  assert (Hpos : (0 < length focal)%nat) by lia.
  destruct (eqw_props steps plo phi grid_len (length focal) Hpos) as (W1 & W2 & W3). fold w in W1, W2, W3.
  assert (Lx : length x = length focal) by (clear -Hx; induction Hx; cbn; auto).
  assert (F1 : Forall2 Rle (map fst focal) x).
  { clear -Hx. induction Hx as [|i v f x0 H Hx IH]; cbn [map]; constructor; auto. lra. }
  assert (F2 : Forall2 Rle x (map snd focal)).
  { clear -Hx. induction Hx as [|i v f x0 H Hx IH]; cbn [map]; constructor; auto. lra. }
  assert (Nf : forall g : R * R -> R, map g focal <> []) by (intros g E; apply (f_equal (@length R)) in E; rewrite map_length in E; cbn in E; lia).
  assert (Nx : x <> []) by (intro E; subst x; cbn in Lx; lia).
  assert (Hs : a <= Rsum w) by (rewrite W2; lra).
  split; apply ecdf_at_dom; rewrite ?map_length; auto; try (rewrite W3; auto); try lia.
  all: transitivity (length focal); [exact Lx|symmetry; exact W3].
Qed.
End Sel.
