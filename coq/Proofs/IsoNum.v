(* C12: inclusion isotonicity of the p-box operations with a constant and of the unary maps
   (corollaries of the step-wise forms proved for C06). *)
From Coq Require Import Reals Lra List Arith Lia.
From PUN Require Import Base.Num Model.Interval Model.Pbox Proofs.ListR Proofs.PboxWF Proofs.PboxUnary Proofs.WFExpr Proofs.Iso.
Import ListNotations.
Open Scope R_scope.

Lemma ple_map_mono_D (f : R -> R) (D : R -> Prop) (l r : list R) : (forall x, In x l \/ In x r -> D x) ->
  (forall a b, D a -> D b -> a <= b -> f a <= f b) -> ple l r -> ple (map f l) (map f r).
Proof.
  intros HD Hf H. induction H as [|a b l r Hab H IH]; cbn [map]; constructor.
  - apply Hf; auto; apply HD; [left|right]; left; reflexivity.
  - apply IH. intros x [Hx|Hx]; apply HD; [left|right]; right; exact Hx.
Qed.

Lemma ple_trans (a b c : list R) : ple a b -> ple b c -> ple a c.
Proof. intros H; revert c; induction H as [|x y a b Hxy H IH]; intros c Hc; inversion Hc as [|? z ? c' Hyz Hc']; subst; constructor; [lra|apply IH; exact Hc']. Qed.

Section N.
Variable steps : nat.
Variables plo phi : R.
Notation WFs := (WF steps).

(* P (op) c for a map increasing in P *)
Theorem pnum_mono_iso (f : R -> R -> R) (c : R) p p' r r' : WFs p -> WFs p' -> pinside p p' ->
  (forall a b, a <= b -> f a c <= f b c) ->
  pnum RN steps plo phi f p c = Ok r -> pnum RN steps plo phi f p' c = Ok r' -> pinside r r'.
Proof.
  intros W W' [I1 I2] Hf. rewrite (pnum_mono steps plo phi f c p W Hf), (pnum_mono steps plo phi f c p' W' Hf).
  intros E E'; inversion E; inversion E'; subst. split; cbn [fst snd]; apply ple_map2; auto.
Qed.
(* ... and for a map decreasing in P (times / over a negative number) *)
Theorem pnum_anti_iso (f : R -> R -> R) (c : R) p p' r r' : WFs p -> WFs p' -> pinside p p' ->
  (forall a b, a <= b -> f b c <= f a c) ->
  pnum RN steps plo phi f p c = Ok r -> pnum RN steps plo phi f p' c = Ok r' -> pinside r r'.
Proof.
  intros W W' [I1 I2] Hf. rewrite (pnum_anti steps plo phi f c p W Hf), (pnum_anti steps plo phi f c p' W' Hf).
  intros E E'; inversion E; inversion E'; subst. split; cbn [fst snd]; apply ple_map_anti; auto; apply ple_rev; assumption.
Qed.
Theorem pneg_iso p p' r r' : WFs p -> WFs p' -> pinside p p' ->
  pneg RN steps plo phi p = Ok r -> pneg RN steps plo phi p' = Ok r' -> pinside r r'.
Proof.
  intros W W' [I1 I2]. rewrite (pneg_steps steps plo phi p W), (pneg_steps steps plo phi p' W').
  intros E E'; inversion E; inversion E'; subst. split; cbn [fst snd]; apply ple_map_anti; auto; try (intros; lra); apply ple_rev; assumption.
Qed.
(* monotone maps (exp, log, sqrt, tanh, ... on their domain D) *)
Theorem punary_iso (f : R -> R) (D : R -> Prop) p p' r r' : WFs p -> WFs p' -> pinside p p' ->
  (forall x, In x (fst p') \/ In x (snd p') -> D x) -> (forall x, In x (fst p) \/ In x (snd p) -> D x) ->
  (forall a b, D a -> D b -> a <= b -> f a <= f b) ->
  punary RN steps plo phi f p = Ok r -> punary RN steps plo phi f p' = Ok r' -> pinside r r'.
Proof.
  intros W W' [I1 I2] HD' HD Hf. rewrite (punary_mono steps plo phi f D p W HD Hf), (punary_mono steps plo phi f D p' W' HD' Hf).
  intros E E'; inversion E; inversion E'; subst. split; cbn [fst snd]; apply (ple_map_mono_D f D); auto.
  - intros x [Hx|Hx]; [apply HD'|apply HD]; left; exact Hx.
  - intros x [Hx|Hx]; [apply HD|apply HD']; right; exact Hx.
Qed.
(* reciprocal of a p-box of one sign *)
Theorem precip_iso p p' r r' : WFs p -> WFs p' -> pinside p p' -> (0 < steps)%nat ->
  (0 < nth 0 (fst p') 0 \/ last (snd p') 0 < 0) ->
  precip RN steps plo phi p = Ok r -> precip RN steps plo phi p' = Ok r' -> pinside r r'.
Proof.
  intros W W' [I1 I2] Hs Hsign.
  assert (Hsign0 : 0 < nth 0 (fst p) 0 \/ last (snd p) 0 < 0).
  { destruct W as [H1 H2 _ _ _], W' as [H1' H2' _ _ _]. destruct Hsign as [Hp|Hn]; [left|right].
    - pose proof (ple_nth _ _ I1 0%nat ltac:(rewrite H1'; exact Hs)). lra.
    - rewrite !last_as_nth in *. rewrite H2' in Hn. rewrite H2. pose proof (ple_nth _ _ I2 (steps - 1)%nat ltac:(rewrite H2; lia)). lra. }
  rewrite (precip_steps steps plo phi p W Hsign0), (precip_steps steps plo phi p' W' Hsign).
  intros E E'; inversion E; inversion E'; subst. clear E E'.
  (* all four bounds have the sign of p' *)
  assert (Hall : forall x, In x (fst p) \/ In x (snd p) \/ In x (fst p') \/ In x (snd p') -> (0 < nth 0 (fst p') 0 -> 0 < x) /\ (last (snd p') 0 < 0 -> x < 0)).
  { destruct W as [H1 H2 H3 H4 H5], W' as [H1' H2' H3' H4' H5'].
    assert (Lo : forall l, length l = steps -> ple (fst p') l -> forall x, In x l -> nth 0 (fst p') 0 <= x).
    { intros l Hl Hple x Hx. destruct (In_nth _ _ 0 Hx) as (k & Hk & <-).
      apply Rle_trans with (nth k (fst p') 0); [apply Rsorted_nth; [exact H3'|lia] | apply ple_nth; [exact Hple|lia]]. }
    assert (Hi : forall l, length l = steps -> ple l (snd p') -> forall x, In x l -> x <= last (snd p') 0).
    { intros l Hl Hple x Hx. destruct (In_nth _ _ 0 Hx) as (k & Hk & <-). rewrite last_as_nth.
      apply Rle_trans with (nth k (snd p') 0); [apply ple_nth; [exact Hple|lia] | apply Rsorted_nth; [exact H4'|lia]]. }
    assert (T1 : ple (fst p') (snd p)) by (apply ple_trans with (fst p); assumption).
    assert (T2 : ple (fst p) (snd p')) by (apply ple_trans with (snd p); assumption).
    intros x Hx. split; intros Hsg.
    - assert (nth 0 (fst p') 0 <= x); [|lra].
      destruct Hx as [Hx|[Hx|[Hx|Hx]]]; [apply (Lo (fst p)) | apply (Lo (snd p)) | apply (Lo (fst p')) | apply (Lo (snd p'))]; auto; apply ple_refl.
    - assert (x <= last (snd p') 0); [|lra].
      destruct Hx as [Hx|[Hx|[Hx|Hx]]]; [apply (Hi (fst p)) | apply (Hi (snd p)) | apply (Hi (fst p')) | apply (Hi (snd p'))]; auto; apply ple_refl. }
  assert (Hinv : forall a b, (In a (fst p) \/ In a (snd p) \/ In a (fst p') \/ In a (snd p')) ->
                             (In b (fst p) \/ In b (snd p) \/ In b (fst p') \/ In b (snd p')) -> a <= b -> 1 / b <= 1 / a).
  { intros a b Ha Hb Hab. destruct (Hall a Ha) as [A1 A2], (Hall b Hb) as [B1 B2]. destruct Hsign as [Hp|Hn].
    - specialize (A1 Hp). specialize (B1 Hp). unfold Rdiv. rewrite !Rmult_1_l. apply Rinv_le_contravar; assumption.
    - specialize (A2 Hn). specialize (B2 Hn). unfold Rdiv. rewrite !Rmult_1_l.
      apply Ropp_le_cancel. rewrite <- !Rinv_opp. apply Rinv_le_contravar; lra. }
  split; cbn [fst snd].
  - (* left bounds: 1 / rev (snd p') <= 1 / rev (snd p) *)
    apply ple_rev in I2. clear -I2 Hinv.
    assert (G : forall l r, ple l r -> (forall x, In x l -> In x (snd p)) -> (forall x, In x r -> In x (snd p')) ->
                ple (map (fun x => 1 / x) r) (map (fun x => 1 / x) l)).
    { induction 1 as [|a b l r Hab H IH]; intros Hl Hr; cbn [map]; constructor.
      - apply Hinv; auto; [right; left; apply Hl; left; reflexivity | right; right; right; apply Hr; left; reflexivity].
      - apply IH; intros; [apply Hl|apply Hr]; right; assumption. }
    apply G; auto; intros x Hx; apply in_rev; exact Hx.
  - apply ple_rev in I1. clear -I1 Hinv.
    assert (G : forall l r, ple l r -> (forall x, In x l -> In x (fst p')) -> (forall x, In x r -> In x (fst p)) ->
                ple (map (fun x => 1 / x) r) (map (fun x => 1 / x) l)).
    { induction 1 as [|a b l r Hab H IH]; intros Hl Hr; cbn [map]; constructor.
      - apply Hinv; auto; [right; right; left; apply Hl; left; reflexivity | left; apply Hr; left; reflexivity].
      - apply IH; intros; [apply Hl|apply Hr]; right; assumption. }
    apply G; auto; intros x Hx; apply in_rev; exact Hx.
Qed.
End N.
