(* C10: Markov and Cantelli bounds on the quantiles of every finite distribution with given range / mean / variance, and the
   bounds the generated constructors (Gen/GenFree.v, translated from pbox_free.py) put on each probability step. *)
From Coq Require Import Reals Lra List Arith Lia Bool.
From PUN Require Import Base.Num Gen.GenFree Proofs.ListR Proofs.WFExpr.
Import ListNotations.
Open Scope R_scope.

(* a finite distribution: atoms xs with weights ws *)
Definition dist_ok (ws xs : list R) : Prop := length xs = length ws /\ Forall (fun w => 0 <= w) ws /\ sum_list ws = 1.
Definition mass (E : R -> bool) (ws xs : list R) : R := dot ws (map (fun x => if E x then 1 else 0) xs).
Definition mean_of (ws xs : list R) : R := dot ws xs.
Definition var_of (ws xs : list R) : R := dot ws (map (fun x => (x - mean_of ws xs) * (x - mean_of ws xs)) xs).

Lemma mass_compl E : forall ws xs, length xs = length ws -> mass E ws xs + mass (fun x => negb (E x)) ws xs = sum_list ws.
Proof. unfold mass. induction ws as [|w ws IH]; intros [|x xs] H; cbn in H; try lia; cbn [map dot sum_list fold_right]; [lra|].
  specialize (IH xs ltac:(lia)). unfold sum_list in IH. destruct (E x); cbn [negb]; lra. Qed.
Lemma mass_nonneg E : forall ws xs, Forall (fun w => 0 <= w) ws -> 0 <= mass E ws xs.
Proof. unfold mass. induction ws as [|w ws IH]; intros [|x xs] H; cbn [map dot]; try lra. inversion H; subst. specialize (IH xs H3). destruct (E x); nra. Qed.
(* Markov in its general form: an event on which a nonnegative function is at least c *)
Lemma markov_gen (g : R -> R) (E : R -> bool) (c : R) : forall ws xs, Forall (fun w => 0 <= w) ws ->
  (forall x, In x xs -> 0 <= g x) -> (forall x, In x xs -> E x = true -> c <= g x) -> c * mass E ws xs <= dot ws (map g xs).
Proof.
  unfold mass. induction ws as [|w ws IH]; intros [|x xs] Hw Hg Hc; cbn [map dot]; try lra.
  inversion Hw; subst. specialize (IH xs H2 ltac:(intros; apply Hg; right; assumption) ltac:(intros; apply Hc; [right|]; assumption)).
  pose proof (Hg x (or_introl eq_refl)). destruct (E x) eqn:Ex; [pose proof (Hc x (or_introl eq_refl) Ex); nra|nra].
Qed.
Lemma dot_shift (ws xs : list R) c : length xs = length ws -> dot ws (map (fun x => x - c) xs) = dot ws xs - c * sum_list ws.
Proof. intros H. rewrite (map_ext _ (fun x => 0 * (x * x) + 1 * x + - c)) by (intros; ring). rewrite dot_affine2 by exact H. ring. Qed.

Section Bounds.
Variables ws xs : list R.
Hypothesis OK : dist_ok ws xs.
Let mu := mean_of ws xs.

(* Markov, upper side: support bounded below by mn.  Any q with P(X < q) <= p < 1 (q is at most the upper p-quantile) *)
Theorem markov_upper mn q p : Forall (fun x => mn <= x) xs -> mass (fun x => Rltb x q) ws xs <= p -> p < 1 ->
  q <= mn + (mu - mn) / (1 - p).
Proof.
  destruct OK as (Hl & Hw & Hs). intros Hmn Hq Hp.
  assert (Hm : 0 <= mu - mn).
  { replace (mu - mn) with (dot ws (map (fun x => x - mn) xs)) by (rewrite dot_shift, Hs by exact Hl; unfold mu, mean_of; ring).
    apply dot_nonneg; auto. eapply Forall_impl; [|exact Hmn]. cbn; intros; lra. }
  assert (P1 : 0 < 1 - p) by lra.
  destruct (Rle_dec q mn) as [Hle|Hgt].
  - assert (0 <= (mu - mn) / (1 - p)) by (apply Rmult_le_pos; [lra|left; apply Rinv_0_lt_compat; lra]). lra.
  - assert (Hc : (q - mn) * mass (fun x => negb (Rltb x q)) ws xs <= mu - mn).
    { replace (mu - mn) with (dot ws (map (fun x => x - mn) xs)) by (rewrite dot_shift, Hs by exact Hl; unfold mu, mean_of; ring).
      apply markov_gen; auto.
      - intros x Hx. rewrite Forall_forall in Hmn. specialize (Hmn x Hx). lra.
      - intros x Hx Ex. apply negb_true_iff in Ex. apply Rltb_false in Ex. lra. }
    pose proof (mass_compl (fun x => Rltb x q) ws xs Hl) as Hcm. rewrite Hs in Hcm.
    assert (Hge : 1 - p <= mass (fun x => negb (Rltb x q)) ws xs) by lra.
    assert (Hqm : (q - mn) * (1 - p) <= mu - mn) by nra.
    apply Rmult_le_reg_r with (1 - p); [exact P1|]. unfold Rdiv. rewrite Rmult_plus_distr_r, Rmult_assoc, Rinv_l by lra. lra.
Qed.
(* Markov, lower side: support bounded above by mx.  Any q with P(X <= q) >= p > 0 (q is at least the lower p-quantile) *)
Theorem markov_lower mx q p : Forall (fun x => x <= mx) xs -> p <= mass (fun x => Rleb x q) ws xs -> 0 < p ->
  mx - (mx - mu) / p <= q.
Proof.
  destruct OK as (Hl & Hw & Hs). intros Hmx Hq Hp.
  assert (E1 : dot ws (map (fun x => mx - x) xs) = mx - mu).
  { rewrite (map_ext _ (fun x => 0 * (x * x) + (- 1) * x + mx)) by (intros; ring). rewrite dot_affine2, Hs by exact Hl. unfold mu, mean_of. ring. }
  assert (Hm : 0 <= mx - mu).
  { rewrite <- E1. apply dot_nonneg; auto. eapply Forall_impl; [|exact Hmx]. cbn; intros; lra. }
  destruct (Rle_dec mx q) as [Hle|Hgt].
  - assert (0 <= (mx - mu) / p) by (apply Rmult_le_pos; [lra|left; apply Rinv_0_lt_compat; lra]). lra.
  - assert (Hc : (mx - q) * mass (fun x => Rleb x q) ws xs <= mx - mu).
    { rewrite <- E1. apply markov_gen; auto.
      - intros x Hx. rewrite Forall_forall in Hmx. specialize (Hmx x Hx). lra.
      - intros x Hx Ex. apply Rleb_true in Ex. lra. }
    assert (Hqm : (mx - q) * p <= mx - mu) by nra.
    assert (mx - q <= (mx - mu) / p); [|lra].
    apply Rmult_le_reg_r with p; [exact Hp|]. unfold Rdiv. rewrite Rmult_assoc, Rinv_l by lra. lra.
Qed.

(* second moment about a shifted centre *)
Lemma second_moment_shift u : dot ws (map (fun x => (x - mu + u) * (x - mu + u)) xs) = var_of ws xs + u * u.
Proof.
  destruct OK as (Hl & Hw & Hs). unfold var_of. fold mu.
  rewrite (map_ext (fun x => (x - mu + u) * (x - mu + u)) (fun x => 1 * (x * x) + (2 * (u - mu)) * x + (u - mu) * (u - mu))) by (intros; ring).
  rewrite (map_ext (fun x => (x - mu) * (x - mu)) (fun x => 1 * (x * x) + (- 2 * mu) * x + mu * mu)) by (intros; ring).
  rewrite !dot_affine2, Hs by exact Hl. fold (mean_of ws xs). fold mu. ring.
Qed.
Lemma var_nonneg : 0 <= var_of ws xs.
Proof. destruct OK as (Hl & Hw & Hs). unfold var_of. apply dot_nonneg; auto. apply Forall_forall. intros x _. cbn beta. pose proof (Rle_0_sqr (x - mean_of ws xs)) as Q. unfold Rsqr in Q. exact Q. Qed.

(* Cantelli (one-sided Chebyshev), upper side *)
Theorem cantelli_upper sd q p : 0 <= sd -> sd * sd = var_of ws xs -> mass (fun x => Rltb x q) ws xs <= p -> 0 <= p -> p < 1 ->
  q <= mu + sd * sqrt (p / (1 - p)).
Proof.
  destruct OK as (Hl & Hw & Hs). intros Hsd Hv Hq Hp0 Hp.
  assert (P1 : 0 < 1 - p) by lra.
  assert (Hr : 0 <= p / (1 - p)) by (apply Rmult_le_pos; [lra|left; apply Rinv_0_lt_compat; lra]).
  destruct (Rle_dec q mu) as [Hle|Hgt].
  - pose proof (sqrt_pos (p / (1 - p))). nra.
  - set (a := q - mu). assert (Ha : 0 < a) by (unfold a; lra). set (v := var_of ws xs) in *.
    pose proof (mass_compl (fun x => Rltb x q) ws xs Hl) as Hcm. rewrite Hs in Hcm.
    assert (Hge : 1 - p <= mass (fun x => negb (Rltb x q)) ws xs) by lra.
    set (u := v / a). assert (Hu : 0 <= u) by (unfold u; apply Rmult_le_pos; [rewrite <- Hv; nra|left; apply Rinv_0_lt_compat; lra]).
    assert (Hc : ((a + u) * (a + u)) * mass (fun x => negb (Rltb x q)) ws xs <= v + u * u).
    { unfold v. rewrite <- (second_moment_shift u). apply markov_gen; auto.
      - intros x _. pose proof (Rle_0_sqr (x - mu + u)) as Q. unfold Rsqr in Q. exact Q.
      - intros x _ Ex. apply negb_true_iff in Ex. apply Rltb_false in Ex. unfold a. nra. }
    assert (Hm : ((a + u) * (a + u)) * (1 - p) <= v + u * u) by (pose proof (Rle_0_sqr (a + u)) as Q; unfold Rsqr in Q; nra).
    (* with u = v / a:  a^2 (1 - p) <= v p *)
    assert (Eu : u * a = v) by (unfold u; field; lra).
    assert (Hv0 : 0 <= v) by (rewrite <- Hv; nra).
    assert (Key : a * a * (1 - p) <= v * p).
    { assert (H1 : (a * a + v) * (a * a + v) * (1 - p) <= v * (a * a + v)).
      { replace ((a * a + v) * (a * a + v) * (1 - p)) with (a * a * ((a + u) * (a + u) * (1 - p))) by (rewrite <- Eu; ring).
        replace (v * (a * a + v)) with (a * a * (v + u * u)) by (rewrite <- Eu; ring). apply Rmult_le_compat_l; [nra|exact Hm]. }
      assert (0 < a * a + v) by nra. apply Rmult_le_reg_l with (a * a + v); [assumption|]. nra. }
    assert (Hsq : a * a <= (sd * sqrt (p / (1 - p))) * (sd * sqrt (p / (1 - p)))).
    { replace ((sd * sqrt (p / (1 - p))) * (sd * sqrt (p / (1 - p)))) with ((sd * sd) * (sqrt (p / (1 - p)) * sqrt (p / (1 - p)))) by ring.
      rewrite sqrt_sqrt by exact Hr. rewrite Hv. apply Rmult_le_reg_r with (1 - p); [exact P1|].
      replace (v * (p / (1 - p)) * (1 - p)) with (v * p) by (field; lra). exact Key. }
    assert (Hb : 0 <= sd * sqrt (p / (1 - p))) by (apply Rmult_le_pos; [exact Hsd|apply sqrt_pos]).
    assert (a <= sd * sqrt (p / (1 - p))) by nra. unfold a in *. lra.
Qed.
(* Cantelli, lower side *)
Theorem cantelli_lower sd q p : 0 <= sd -> sd * sd = var_of ws xs -> p <= mass (fun x => Rleb x q) ws xs -> 0 < p -> p <= 1 ->
  mu - sd * sqrt (1 / p - 1) <= q.
Proof.
  destruct OK as (Hl & Hw & Hs). intros Hsd Hv Hq Hp0 Hp.
  assert (Hr : 0 <= 1 / p - 1).
  { assert (1 <= 1 / p); [|lra]. apply Rmult_le_reg_r with p; [exact Hp0|]. unfold Rdiv. rewrite Rmult_assoc, Rinv_l by lra. lra. }
  destruct (Rle_dec mu q) as [Hle|Hgt].
  - pose proof (sqrt_pos (1 / p - 1)). nra.
  - set (a := mu - q). assert (Ha : 0 < a) by (unfold a; lra). set (v := var_of ws xs) in *.
    set (u := v / a). assert (Hv0 : 0 <= v) by (rewrite <- Hv; nra).
    assert (Hu : 0 <= u) by (unfold u; apply Rmult_le_pos; [exact Hv0|left; apply Rinv_0_lt_compat; lra]).
    assert (Hc : ((a + u) * (a + u)) * mass (fun x => Rleb x q) ws xs <= v + u * u).
    { unfold v. replace (var_of ws xs + u * u) with (var_of ws xs + - u * - u) by ring. rewrite <- (second_moment_shift (- u)). apply markov_gen; auto.
      - intros x _. pose proof (Rle_0_sqr (x - mu + - u)) as Q. unfold Rsqr in Q. exact Q.
      - intros x _ Ex. apply Rleb_true in Ex. unfold a. nra. }
    assert (Hm : ((a + u) * (a + u)) * p <= v + u * u) by (pose proof (Rle_0_sqr (a + u)) as Q; unfold Rsqr in Q; nra).
    assert (Eu : u * a = v) by (unfold u; field; lra).
    assert (Key : a * a * p <= v * (1 - p)).
    { assert (H1 : (a * a + v) * (a * a + v) * p <= v * (a * a + v)).
      { replace ((a * a + v) * (a * a + v) * p) with (a * a * ((a + u) * (a + u) * p)) by (rewrite <- Eu; ring).
        replace (v * (a * a + v)) with (a * a * (v + u * u)) by (rewrite <- Eu; ring). apply Rmult_le_compat_l; [nra|exact Hm]. }
      assert (0 < a * a + v) by nra. apply Rmult_le_reg_l with (a * a + v); [assumption|]. nra. }
    assert (Hsq : a * a <= (sd * sqrt (1 / p - 1)) * (sd * sqrt (1 / p - 1))).
    { replace ((sd * sqrt (1 / p - 1)) * (sd * sqrt (1 / p - 1))) with ((sd * sd) * (sqrt (1 / p - 1) * sqrt (1 / p - 1))) by ring.
      rewrite sqrt_sqrt by exact Hr. rewrite Hv. apply Rmult_le_reg_r with p; [exact Hp0|].
      replace (v * (1 / p - 1) * p) with (v * (1 - p)) by (field; lra). exact Key. }
    assert (Hb : 0 <= sd * sqrt (1 / p - 1)) by (apply Rmult_le_pos; [exact Hsd|apply sqrt_pos]).
    assert (a <= sd * sqrt (1 / p - 1)) by nra. unfold a in *. lra.
Qed.
End Bounds.

(* ---------- the lists the generated constructors hand to Staircase ---------- *)
Lemma INRZ (k : nat) : IZR (Z.of_nat k) = INR k.
Proof. symmetry. apply INR_IZR_INZ. Qed.
Lemma nth_map_seq_R (f : nat -> R) a len k : (k < len)%nat -> nth k (map f (seq a len)) 0 = f (a + k)%nat.
Proof. intros H. rewrite (nth_indep _ 0 (f 0%nat)) by (rewrite map_length, seq_length; exact H). rewrite map_nth, seq_nth by exact H. reflexivity. Qed.

Lemma nth_map_in (f : R -> R) (l : list R) k : (k < length l)%nat -> nth k (map f l) 0 = f (nth k l 0).
Proof. intros H. rewrite (nth_indep (map f l) 0 (f 0)) by (rewrite map_length; exact H). apply map_nth. Qed.

Section Gen.
Variable n : nat.
Hypothesis n3 : (3 <= n)%nat.
Variables mu sd : R.
Let N := INR n.
Lemma Npos : 0 < N. Proof. unfold N. apply lt_0_INR. lia. Qed.

(* mean_std, left edge: entry 0 uses 1/n, entry k >= 1 uses k/n: the Cantelli lower bound at the LEFT end of step k *)
Lemma mean_std_left_nth k : (k < n - 1)%nat ->
  nth k (fst (free_mean_std RN n mu sd)) 0 = mu - sd * sqrt (1 / (INR (Nat.max k 1) / N) - 1).
Proof.
  intros Hk. unfold free_mean_std. cbv zeta. cbn [fst]. cbn [nsub nmul ndiv nsqrt nofZ RN T].
  rewrite (nth_map_in (fun i => mu - sd * R_sqrt.sqrt (1 / i - 1))) by (rewrite app_length, map_length, seq_length; cbn [length]; lia).
  cbn beta. f_equal. f_equal. f_equal. f_equal. f_equal.
  destruct k as [|k].
  - cbn [app nth Nat.max]. rewrite INRZ. reflexivity.
  - cbn [app nth]. rewrite nth_map_seq_R by lia. rewrite !INRZ. replace (Nat.max (S k) 1) with (1 + k)%nat by lia. reflexivity.
Qed.
Lemma mean_std_right_nth k : (k < n - 1)%nat ->
  nth k (snd (free_mean_std RN n mu sd)) 0 = mu + sd * sqrt ((INR (k + 1) / N) / (1 - INR (k + 1) / N)).
Proof.
  intros Hk. unfold free_mean_std. cbv zeta. cbn [snd]. cbn [nadd nsub nmul ndiv nsqrt nofZ RN T].
  rewrite (nth_map_in (fun j => mu + sd * R_sqrt.sqrt (j / (1 - j)))) by (rewrite app_length, map_length, seq_length; cbn [length]; lia).
  cbn beta.
  assert (E : nth k (map (fun j : nat => IZR (Z.of_nat j) / IZR (Z.of_nat n)) (seq 1 (n - 1 - 1)) ++ [1 - 1 / IZR (Z.of_nat n)]) 0 = INR (k + 1) / N).
  { destruct (Nat.lt_ge_cases k (n - 2)) as [Hlt|Hge].
    - rewrite app_nth1 by (rewrite map_length, seq_length; lia). rewrite nth_map_seq_R by lia. rewrite !INRZ. replace (1 + k)%nat with (k + 1)%nat by lia. reflexivity.
    - rewrite app_nth2 by (rewrite map_length, seq_length; lia). rewrite map_length, seq_length. replace (k - (n - 1 - 1))%nat with 0%nat by lia. cbn [nth].
      rewrite INRZ. fold N. replace (k + 1)%nat with (n - 1)%nat by lia. rewrite minus_INR by lia. fold N. cbn [INR]. pose proof Npos. field. lra. }
  rewrite E. reflexivity.
Qed.

(* soundness on every step: any finite distribution with this mean and standard deviation, any level strictly inside the step *)
Theorem mean_std_left_sound (ws xs : list R) k p q : dist_ok ws xs -> mean_of ws xs = mu -> 0 <= sd -> sd * sd = var_of ws xs ->
  (1 <= k < n - 1)%nat -> INR k / N <= p -> p <= 1 -> p <= mass (fun x => Rleb x q) ws xs ->
  nth k (fst (free_mean_std RN n mu sd)) 0 <= q.
Proof.
  intros OK Hm Hsd Hv Hk Hp Hp1 Hq. rewrite mean_std_left_nth by lia. replace (Nat.max k 1) with k by lia.
  pose proof Npos as HN. assert (Hk0 : 0 < INR k / N) by (apply Rmult_lt_0_compat; [apply lt_0_INR; lia|apply Rinv_0_lt_compat; exact HN]).
  assert (Hp0 : 0 < p) by lra.
  pose proof (cantelli_lower ws xs OK sd q p Hsd Hv Hq Hp0 Hp1) as C. rewrite Hm in C.
  assert (Mono : sqrt (1 / p - 1) <= sqrt (1 / (INR k / N) - 1)).
  { apply sqrt_le_1_alt. unfold Rdiv at 1 3. rewrite !Rmult_1_l. assert (/ p <= / (INR k / N)) by (apply Rinv_le_contravar; assumption). lra. }
  nra.
Qed.
Theorem mean_std_right_sound (ws xs : list R) k p q : dist_ok ws xs -> mean_of ws xs = mu -> 0 <= sd -> sd * sd = var_of ws xs ->
  (k < n - 1)%nat -> 0 <= p -> p <= INR (k + 1) / N -> mass (fun x => Rltb x q) ws xs <= p ->
  q <= nth k (snd (free_mean_std RN n mu sd)) 0.
Proof.
  intros OK Hm Hsd Hv Hk Hp0 Hp Hq. rewrite mean_std_right_nth by lia.
  pose proof Npos as HN. set (j := INR (k + 1) / N) in *.
  assert (Hj1 : j < 1).
  { unfold j. apply Rmult_lt_reg_r with N; [exact HN|]. unfold Rdiv. rewrite Rmult_assoc, Rinv_l, Rmult_1_r, Rmult_1_l by lra. unfold N. apply lt_INR. lia. }
  pose proof (cantelli_upper ws xs OK sd q p Hsd Hv Hq Hp0 ltac:(lra)) as C. rewrite Hm in C.
  assert (Mono : sqrt (p / (1 - p)) <= sqrt (j / (1 - j))).
  { apply sqrt_le_1_alt. assert (A : 0 < 1 - p) by lra. assert (B : 0 < 1 - j) by lra.
    apply Rmult_le_reg_r with ((1 - p) * (1 - j)); [nra|]. replace (p / (1 - p) * ((1 - p) * (1 - j))) with (p * (1 - j)) by (field; lra).
    replace (j / (1 - j) * ((1 - p) * (1 - j))) with (j * (1 - p)) by (field; lra). nra. }
  nra.
Qed.

(* min_mean, right edge: the Markov bound at the RIGHT end (k+1)/n of step k *)
Variable mn : R.
Lemma min_mean_right_nth k : (k < n - 1)%nat ->
  nth k (snd (free_min_mean RN n mn mu)) 0 = (mu - mn) / (1 - INR (k + 1) / N) + mn.
Proof.
  intros Hk. unfold free_min_mean. cbv zeta. cbn [snd]. cbn [nadd nsub nmul ndiv nofZ RN T].
  rewrite (nth_map_in (fun j => (mu - mn) / (1 - j) + mn)) by (rewrite app_length, map_length, seq_length; cbn [length]; lia).
  cbn beta. f_equal. f_equal. f_equal.
  destruct (Nat.lt_ge_cases k (n - 2)) as [Hlt|Hge].
  - rewrite app_nth1 by (rewrite map_length, seq_length; lia). rewrite nth_map_seq_R by lia. rewrite !INRZ. replace (1 + k)%nat with (k + 1)%nat by lia. reflexivity.
  - rewrite app_nth2 by (rewrite map_length, seq_length; lia). rewrite map_length, seq_length. replace (k - (n - 1 - 1))%nat with 0%nat by lia. cbn [nth].
    rewrite INRZ. fold N. replace (k + 1)%nat with (n - 1)%nat by lia. rewrite minus_INR by lia. fold N. cbn [INR]. pose proof Npos. field. lra.
Qed.
Theorem min_mean_right_sound (ws xs : list R) k p q : dist_ok ws xs -> mean_of ws xs = mu -> Forall (fun x => mn <= x) xs ->
  (k < n - 1)%nat -> p <= INR (k + 1) / N -> mass (fun x => Rltb x q) ws xs <= p ->
  q <= nth k (snd (free_min_mean RN n mn mu)) 0.
Proof.
  intros OK Hm Hmn Hk Hp Hq. rewrite min_mean_right_nth by lia.
  pose proof Npos as HN. set (j := INR (k + 1) / N) in *.
  assert (Hj1 : j < 1).
  { unfold j. apply Rmult_lt_reg_r with N; [exact HN|]. unfold Rdiv. rewrite Rmult_assoc, Rinv_l, Rmult_1_r, Rmult_1_l by lra. unfold N. apply lt_INR. lia. }
  pose proof (markov_upper ws xs OK mn q p Hmn Hq ltac:(lra)) as C. rewrite Hm in C.
  assert (Hd : 0 <= mu - mn).
  { destruct OK as (Hl & Hw & Hs). rewrite <- Hm. replace (mean_of ws xs - mn) with (dot ws (map (fun x => x - mn) xs)) by (rewrite dot_shift, Hs by exact Hl; unfold mean_of; ring).
    apply dot_nonneg; auto. eapply Forall_impl; [|exact Hmn]. cbn; intros; lra. }
  assert (Mono : (mu - mn) / (1 - p) <= (mu - mn) / (1 - j)).
  { unfold Rdiv. apply Rmult_le_compat_l; [exact Hd|]. apply Rinv_le_contravar; lra. }
  lra.
Qed.
End Gen.

(* ---------- min_max_mean: range and mean ---------- *)
Lemma mass_le_zero_below (ws xs : list R) mn q : length xs = length ws -> Forall (fun w => 0 <= w) ws -> Forall (fun x => mn <= x) xs -> q < mn ->
  mass (fun x => Rleb x q) ws xs = 0.
Proof. unfold mass. revert xs. induction ws as [|w ws IH]; intros [|x xs] Hl Hw Hx Hq; cbn in Hl; try lia; cbn [map dot]; [reflexivity|].
  inversion Hw; inversion Hx; subst. rewrite (IH xs) by (auto; lia). rewrite (proj2 (Rleb_false x q)) by lra. lra. Qed.
Lemma mass_lt_one_above (ws xs : list R) mx q : length xs = length ws -> sum_list ws = 1 -> Forall (fun x => x <= mx) xs -> mx < q ->
  mass (fun x => Rltb x q) ws xs = 1.
Proof. intros Hl Hs Hx Hq. rewrite <- Hs. unfold mass. clear Hs. revert xs Hl Hx. induction ws as [|w ws IH]; intros [|x xs] Hl Hx; cbn in Hl; try lia; cbn [map dot sum_list fold_right]; [reflexivity|].
  inversion Hx; subst. rewrite (IH xs) by (auto; lia). rewrite (proj2 (Rltb_true x q)) by lra. unfold sum_list. lra. Qed.

Section GenMMM.
Variable n : nat.
Hypothesis n1 : (1 <= n)%nat.
Variables mn mx mu : R.
Let N := INR n.
Lemma Npos' : 0 < N. Proof. unfold N. apply lt_0_INR. lia. Qed.
Let mid := (mx - mu) / (mx - mn).
(* the k-th entries of the lists handed to Staircase *)
Lemma mmm_left_nth k : (k < n)%nat ->
  nth k (fst (free_min_max_mean RN n mn mx mu)) 0 = if Rleb (INR k / N) mid then mn else (mu - mx) / (INR k / N) + mx.
Proof.
  intros Hk. unfold free_min_max_mean. cbv zeta. cbn [fst]. cbn [nadd nsub nmul ndiv nleb nofZ RN T].
  rewrite (nth_map_in (fun i => if Rleb i ((mx - mu) / (mx - mn)) then mn else (mu - mx) / i + mx)) by (rewrite map_length, seq_length; lia).
  cbn beta. rewrite nth_map_seq_R by lia. rewrite !INRZ. replace (0 + k)%nat with k by lia. reflexivity.
Qed.
Lemma mmm_right_nth k : (k < n)%nat ->
  nth k (snd (free_min_max_mean RN n mn mx mu)) 0 = if Rleb mid (INR (k + 1) / N) then mx else (mu - mn * (INR (k + 1) / N)) / (1 - INR (k + 1) / N).
Proof.
  intros Hk. unfold free_min_max_mean. cbv zeta. cbn [snd]. cbn [nadd nsub nmul ndiv nleb nofZ RN T].
  rewrite (nth_map_in (fun j => if Rleb ((mx - mu) / (mx - mn)) j then mx else (mu - mn * j) / (1 - j))) by (rewrite map_length, seq_length; lia).
  cbn beta. rewrite nth_map_seq_R by lia. rewrite !INRZ. replace (1 + k)%nat with (k + 1)%nat by lia. reflexivity.
Qed.
(* soundness on every step, for every finite distribution on [mn, mx] with mean mu, at every level inside the step *)
Theorem mmm_left_sound (ws xs : list R) k p q : dist_ok ws xs -> mean_of ws xs = mu -> Forall (fun x => mn <= x <= mx) xs ->
  (k < n)%nat -> INR k / N <= p -> 0 < p -> p <= mass (fun x => Rleb x q) ws xs ->
  nth k (fst (free_min_max_mean RN n mn mx mu)) 0 <= q.
Proof.
  intros OK Hm Hx Hk Hp Hp0 Hq. rewrite mmm_left_nth by exact Hk. pose proof Npos' as HN.
  destruct OK as (Hl & Hw & Hs).
  assert (Hqmn : mn <= q).
  { destruct (Rle_dec mn q) as [|Hn]; [assumption|]. exfalso.
    rewrite (mass_le_zero_below ws xs mn q Hl Hw) in Hq; [lra| |lra]. eapply Forall_impl; [|exact Hx]; cbn; intros; lra. }
  destruct (Rleb (INR k / N) mid) eqn:C; [exact Hqmn|]. apply Rleb_false in C.
  assert (Hxx : Forall (fun x => x <= mx) xs) by (eapply Forall_impl; [|exact Hx]; cbn; intros; lra).
  pose proof (markov_lower ws xs (conj Hl (conj Hw Hs)) mx q p Hxx Hq Hp0) as M. rewrite Hm in M.
  assert (Hk0 : 0 < INR k / N).
  { destruct (Rle_dec (INR k / N) 0) as [Hz|]; [|lra]. exfalso.
    assert (Hmid : 0 <= mid).
    { unfold mid. assert (mu <= mx).
      { rewrite <- Hm. replace (mean_of ws xs) with (mx - dot ws (map (fun x => mx - x) xs)).
        - assert (0 <= dot ws (map (fun x => mx - x) xs)) by (apply dot_nonneg; auto; eapply Forall_impl; [|exact Hx]; cbn; intros; lra). lra.
        - rewrite (map_ext _ (fun x => 0 * (x * x) + (- 1) * x + mx)) by (intros; ring). rewrite dot_affine2, Hs by exact Hl. unfold mean_of. ring. }
      destruct (Req_dec mx mn) as [E|E]; [unfold Rdiv; replace (mx - mn) with 0 by lra; rewrite Rinv_0; lra|].
      assert (mn <= mx) by (destruct xs as [|x0 ?]; [cbn in Hl; destruct ws; [cbn in Hs; unfold sum_list in Hs; cbn in Hs; lra|discriminate]|inversion Hx; subst; lra]).
      apply Rmult_le_pos; [lra|left; apply Rinv_0_lt_compat; lra]. }
    lra. }
  assert (Mono : (mx - mu) / p <= (mx - mu) / (INR k / N)).
  { assert (0 <= mx - mu).
    { rewrite <- Hm. replace (mx - mean_of ws xs) with (dot ws (map (fun x => mx - x) xs)).
      - apply dot_nonneg; auto. eapply Forall_impl; [|exact Hx]; cbn; intros; lra.
      - rewrite (map_ext _ (fun x => 0 * (x * x) + (- 1) * x + mx)) by (intros; ring). rewrite dot_affine2, Hs by exact Hl. unfold mean_of. ring. }
    unfold Rdiv at 1 3. apply Rmult_le_compat_l; [assumption|]. apply Rinv_le_contravar; lra. }
  replace ((mu - mx) / (INR k / N) + mx) with (mx - (mx - mu) / (INR k / N)) by (unfold Rdiv; ring). lra.
Qed.
Theorem mmm_right_sound (ws xs : list R) k p q : dist_ok ws xs -> mean_of ws xs = mu -> Forall (fun x => mn <= x <= mx) xs -> mn < mx ->
  (k < n)%nat -> p <= INR (k + 1) / N -> p < 1 -> mass (fun x => Rltb x q) ws xs <= p ->
  q <= nth k (snd (free_min_max_mean RN n mn mx mu)) 0.
Proof.
  intros OK Hm Hx Hlt Hk Hp Hp1 Hq. rewrite mmm_right_nth by exact Hk. pose proof Npos' as HN.
  destruct OK as (Hl & Hw & Hs).
  assert (Hqmx : q <= mx).
  { destruct (Rle_dec q mx) as [|Hn]; [assumption|]. exfalso.
    rewrite (mass_lt_one_above ws xs mx q Hl Hs) in Hq; [lra| |lra]. eapply Forall_impl; [|exact Hx]; cbn; intros; lra. }
  set (j := INR (k + 1) / N) in *.
  destruct (Rleb mid j) eqn:C; [exact Hqmx|]. apply Rleb_false in C.
  assert (Hmu : mn <= mu).
  { rewrite <- Hm. replace (mean_of ws xs) with (mn + dot ws (map (fun x => x - mn) xs)) by (rewrite dot_shift, Hs by exact Hl; unfold mean_of; ring).
    assert (0 <= dot ws (map (fun x => x - mn) xs)) by (apply dot_nonneg; auto; eapply Forall_impl; [|exact Hx]; cbn; intros; lra). lra. }
  assert (Hmid1 : mid <= 1).
  { unfold mid. apply Rmult_le_reg_r with (mx - mn); [lra|]. unfold Rdiv. rewrite Rmult_assoc, Rinv_l by lra. lra. }
  assert (Hj1 : j < 1) by lra.
  assert (Hxx : Forall (fun x => mn <= x) xs) by (eapply Forall_impl; [|exact Hx]; cbn; intros; lra).
  pose proof (markov_upper ws xs (conj Hl (conj Hw Hs)) mn q p Hxx Hq Hp1) as M. rewrite Hm in M.
  assert (Mono : (mu - mn) / (1 - p) <= (mu - mn) / (1 - j)).
  { unfold Rdiv. apply Rmult_le_compat_l; [lra|]. apply Rinv_le_contravar; lra. }
  replace ((mu - mn * j) / (1 - j)) with (mn + (mu - mn) / (1 - j)) by (field; lra). lra.
Qed.
End GenMMM.

(* ---------- min_max_median: range and median (generated from pbox_free.py: np.where over the probability grid) ---------- *)
Lemma mass_mono_event (E1 E2 : R -> bool) : (forall x, E1 x = true -> E2 x = true) ->
  forall ws xs, Forall (fun w => 0 <= w) ws -> mass E1 ws xs <= mass E2 ws xs.
Proof.
  intros HE. unfold mass. induction ws as [|w ws IH]; intros [|x xs] Hw; cbn [map dot]; try lra.
  inversion Hw; subst. specialize (IH xs H2). pose proof (HE x) as Hx. destruct (E1 x), (E2 x); try lra; try nra; specialize (Hx eq_refl); discriminate.
Qed.
Lemma half_R : nofdec RN 5 1 = 1 / 2.
Proof. unfold nofdec. cbn [ndiv nofZ RN T]. change (10 ^ Z.of_nat 1)%Z with 10%Z. lra. Qed.
(* m is a median: at most half of the mass strictly below, at least half at or below *)
Definition is_median (ws xs : list R) (m : R) : Prop :=
  mass (fun x => Rltb x m) ws xs <= 1 / 2 /\ 1 / 2 <= mass (fun x => Rleb x m) ws xs.

Section GenMedian.
Variable pvals : list R.
Variables mn mx med : R.
Hypothesis Hne : mn <> mx.
Lemma median_bounds : free_min_max_median RN pvals mn mx med =
  Some (map (fun p => if Rltb p (1 / 2) then mn else med) pvals, map (fun p => if Rleb (1 / 2) p then mx else med) pvals).
Proof. unfold free_min_max_median. cbn [neqb nltb nleb RN T]. destruct (Reqb_spec mn mx) as [E|_]; [contradiction|]. rewrite half_R. reflexivity. Qed.

(* left bound at grid level pvals[k]: below every q whose cumulated probability reaches a level p >= pvals[k]
   (p = 1/2 excluded: there the lower quantile of a distribution with several medians may lie below the stated one) *)
Theorem median_left_sound (ws xs : list R) l r k p q : dist_ok ws xs -> Forall (fun x => mn <= x <= mx) xs -> is_median ws xs med ->
  free_min_max_median RN pvals mn mx med = Some (l, r) ->
  (k < length pvals)%nat -> nth k pvals 0 <= p -> 0 < p -> p <> 1 / 2 -> p <= mass (fun x => Rleb x q) ws xs -> nth k l 0 <= q.
Proof.
  intros (Hl & Hw & Hs) Hx (M1 & M2) E Hk Hp Hp0 Hph Hq. rewrite median_bounds in E. inversion E; subst l r. clear E.
  rewrite (nth_map_in (fun p => if Rltb p (1 / 2) then mn else med)) by exact Hk. cbn beta.
  destruct (Rltb_spec (nth k pvals 0) (1 / 2)) as [Hlt|Hge].
  - destruct (Rle_dec mn q) as [|Hn]; [assumption|]. exfalso.
    rewrite (mass_le_zero_below ws xs mn q Hl Hw) in Hq; [lra| |lra]. eapply Forall_impl; [|exact Hx]; cbn; intros; lra.
  - destruct (Rle_dec med q) as [|Hn]; [assumption|]. exfalso.
    assert (mass (fun x => Rleb x q) ws xs <= mass (fun x => Rltb x med) ws xs).
    { apply mass_mono_event; [|exact Hw]. intros x Ex. apply Rleb_true in Ex. apply Rltb_true. lra. }
    lra.
Qed.
(* right bound at grid level pvals[k]: above every q with at most p <= pvals[k] of the mass strictly below it *)
Theorem median_right_sound (ws xs : list R) l r k p q : dist_ok ws xs -> Forall (fun x => mn <= x <= mx) xs -> is_median ws xs med ->
  free_min_max_median RN pvals mn mx med = Some (l, r) ->
  (k < length pvals)%nat -> p <= nth k pvals 0 -> p < 1 -> mass (fun x => Rltb x q) ws xs <= p -> q <= nth k r 0.
Proof.
  intros (Hl & Hw & Hs) Hx (M1 & M2) E Hk Hp Hp1 Hq. rewrite median_bounds in E. inversion E; subst l r. clear E.
  rewrite (nth_map_in (fun p => if Rleb (1 / 2) p then mx else med)) by exact Hk. cbn beta.
  destruct (Rleb_spec (1 / 2) (nth k pvals 0)) as [Hge|Hlt].
  - destruct (Rle_dec q mx) as [|Hn]; [assumption|]. exfalso.
    rewrite (mass_lt_one_above ws xs mx q Hl Hs) in Hq; [lra| |lra]. eapply Forall_impl; [|exact Hx]; cbn; intros; lra.
  - destruct (Rle_dec q med) as [|Hn]; [assumption|]. exfalso.
    assert (mass (fun x => Rleb x med) ws xs <= mass (fun x => Rltb x q) ws xs).
    { apply mass_mono_event; [|exact Hw]. intros x Ex. apply Rleb_true in Ex. apply Rltb_true. lra. }
    lra.
Qed.
(* the bounds are ordered whenever min <= median <= max *)
Theorem median_ordered l r k : mn <= med <= mx -> free_min_max_median RN pvals mn mx med = Some (l, r) -> (k < length pvals)%nat -> nth k l 0 <= nth k r 0.
Proof.
  intros Hm E Hk. rewrite median_bounds in E. inversion E; subst l r.
  rewrite (nth_map_in (fun p => if Rltb p (1 / 2) then mn else med)), (nth_map_in (fun p => if Rleb (1 / 2) p then mx else med)) by exact Hk. cbn beta.
  destruct (Rltb_spec (nth k pvals 0) (1 / 2)), (Rleb_spec (1 / 2) (nth k pvals 0)); lra.
Qed.
End GenMedian.
