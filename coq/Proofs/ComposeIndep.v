(* C03, independence in the sample form: under independence every value of one operand meets every value of the other with equal probability,
   so the outcomes are the n*n pairwise combinations u_i (op) v_j.  They are bounded, order statistic by order statistic, by the n*n sorted
   lower and upper corners that independent_op computes (before the result is condensed back to n steps; Proofs/DepOps.v: indep_block locates
   the condensed step k inside the k-th block of n). *)
From Coq Require Import Reals Lra List Arith Lia Bool Permutation Sorted.
From PUN Require Import Base.Num Base.Sort Model.Interval Model.Pbox
  Proofs.ListR Proofs.Hull Proofs.IntervalOps Proofs.PboxWF Proofs.DepOps Proofs.Compose Proofs.ComposeNaive.
Import ListNotations.
Open Scope R_scope.

Lemma cart_perm_l (op : R -> R -> R) (u u' v : list R) : Permutation u u' -> Permutation (cart RN op u v) (cart RN op u' v).
Proof. unfold cart. induction 1; cbn [flat_map]; auto.
  - apply Permutation_app_head; assumption.
  - rewrite !app_assoc. apply Permutation_app_tail. apply Permutation_app_comm.
  - eapply Permutation_trans; eassumption. Qed.
Lemma cart_perm_r (op : R -> R -> R) (u v v' : list R) : Permutation v v' -> Permutation (cart RN op u v) (cart RN op u v').
Proof. intros H. unfold cart. induction u as [|a u IH]; cbn [flat_map]; auto. apply Permutation_app; [apply Permutation_map; exact H|exact IH]. Qed.

Lemma ple_app (a b c d : list R) : ple a c -> ple b d -> ple (a ++ b) (c ++ d).
Proof. unfold ple. apply Forall2_app. Qed.

Section Indep.
Variable op : bop.
(* cells of one row: the value x in [xl, xr] against the sorted values ys in the steps Y *)
Lemma row_cells (xl xr x : R) : xl <= x <= xr -> forall (ys : list R) (Y : list (R * R)),
  Forall2 (fun y c => fst c <= y <= snd c /\ wfp c /\ (is_div op = true -> ~ has0 c)) ys Y ->
  ple (map fst (map (istep (opR op) (xl, xr)) Y)) (map (opR op x) ys) /\ ple (map (opR op x) ys) (map snd (map (istep (opR op) (xl, xr)) Y)).
Proof.
  intros Hx ys Y H. induction H as [|y c ys Y (Hy & Wc & Zc) H IH]; cbn [map]; [split; constructor|].
  destruct IH as (I1 & I2).
  assert (E : fst (istep (opR op) (xl, xr) c) <= opR op x y <= snd (istep (opR op) (xl, xr) c)).
  { unfold istep. apply corner_hull_encl; auto; unfold wfp; cbn [fst snd]; lra. }
  split; constructor; auto; lra.
Qed.
Lemma all_cells (X : list (R * R)) (xs : list R) (ys : list R) (Y : list (R * R)) :
  Forall2 (fun x c => fst c <= x <= snd c) xs X ->
  Forall2 (fun y c => fst c <= y <= snd c /\ wfp c /\ (is_div op = true -> ~ has0 c)) ys Y ->
  ple (map fst (all_pairs (opR op) X Y)) (cart RN (opR op) xs ys) /\ ple (cart RN (opR op) xs ys) (map snd (all_pairs (opR op) X Y)).
Proof.
  intros HX HY. unfold all_pairs, cart. induction HX as [|x c xs X Hx HX IH]; cbn [flat_map map]; [split; constructor|].
  destruct IH as (I1 & I2). destruct c as [xl xr]. cbn [fst snd] in Hx.
  destruct (row_cells xl xr x Hx ys Y HY) as (R1 & R2).
  rewrite !map_app. split; apply ple_app; assumption.
Qed.
End Indep.

Lemma Forall2_of_nth (P : R -> R * R -> Prop) (l : list R) (c : list (R * R)) : length l = length c ->
  (forall i, (i < length l)%nat -> P (nth i l 0) (nth i c (0, 0))) -> Forall2 P l c.
Proof. revert c. induction l as [|a l IH]; intros [|b c] Hl H; cbn in Hl; try lia; constructor.
  - apply (H 0%nat). cbn; lia. - apply IH; [lia|]. intros i Hi. apply (H (S i)). cbn; lia. Qed.

Theorem independent_bounds (op : bop) (XL XR YL YR u v : list R) n :
  length XL = n -> length XR = n -> length YL = n -> length YR = n -> ple XL XR -> ple YL YR ->
  (is_div op = true -> forall j, (j < n)%nat -> ~ has0 (nth j YL 0, nth j YR 0)) ->
  bounds XL XR u -> bounds YL YR v ->
  bounds (fst (independent_op RN (opR op) XL XR YL YR)) (snd (independent_op RN (opR op) XL XR YL YR)) (cart RN (opR op) u v).
Proof.
  intros lXL lXR lYL lYR pX pY nz Bu Bv.
  assert (Lu : length u = n) by (destruct Bu as (H & _); lia). assert (Lv : length v = n) by (destruct Bv as (H & _); lia).
  apply (bounds_perm _ _ (cart RN (opR op) (Rsort u) (Rsort v))).
  { eapply Permutation_trans; [apply cart_perm_l, Permutation_sym, Rsort_perm|apply cart_perm_r, Permutation_sym, Rsort_perm]. }
  rewrite independent_op_spec by lia. cbn [fst snd].
  pose proof (bounds_perm _ _ _ _ (Rsort_perm u) Bu) as Bu'. pose proof (bounds_perm _ _ _ _ (Rsort_perm v) Bv) as Bv'.
  assert (HX : Forall2 (fun x c => fst c <= x <= snd c) (Rsort u) (combine XL XR)).
  { apply Forall2_of_nth; [rewrite Rsort_length, combine_length; lia|]. intros i Hi. rewrite Rsort_length in Hi.
    rewrite combine_nth by lia. cbn [fst snd]. apply (sorted_in_own_step XL XR (Rsort u) i Bu' (Rsort_sorted u)). lia. }
  assert (HY : Forall2 (fun y c => fst c <= y <= snd c /\ wfp c /\ (is_div op = true -> ~ has0 c)) (Rsort v) (combine YL YR)).
  { apply Forall2_of_nth; [rewrite Rsort_length, combine_length; lia|]. intros i Hi. rewrite Rsort_length in Hi.
    rewrite combine_nth by lia. cbn [fst snd]. split; [apply (sorted_in_own_step YL YR (Rsort v) i Bv' (Rsort_sorted v)); lia|].
    split; [unfold wfp; cbn [fst snd]; apply ple_nth; auto; lia|intros Hd; apply nz; auto; lia]. }
  destruct (all_cells op (combine XL XR) (Rsort u) (Rsort v) (combine YL YR) HX HY) as (P1 & P2).
  set (zs := cart RN (opR op) (Rsort u) (Rsort v)) in *.
  set (lo := map fst (all_pairs (opR op) (combine XL XR) (combine YL YR))) in *.
  set (hi := map snd (all_pairs (opR op) (combine XL XR) (combine YL YR))) in *.
  pose proof (ple_length _ _ P1) as L1. pose proof (ple_length _ _ P2) as L2.
  split; [rewrite Rsort_length; lia|]. split; [rewrite !Rsort_length; lia|].
  intros s Hs Hss i Hi. rewrite Rsort_length in Hi.
  rewrite <- (Rsort_id s Hss). rewrite (Rsort_of_perm s _ Hs).
  split; apply sort_pointwise_le; try lia; intros j Hj; [apply (ple_nth _ _ P1); lia|apply (ple_nth _ _ P2); lia].
Qed.
