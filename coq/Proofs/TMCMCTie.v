(* The bisection translated from calibration/tmcmc.py (compute_beta_update_evidence) on every run (Gen/GenTMCMC.v) is the loop of
   Model/TMCMC.v that the theorems of C19 are about: same initial bracket [beta, 2], same midpoint, same three-way update, same stopping
   rule with the tolerance written in the source (1e-08), same clamp at 1. *)
From Coq Require Import Reals Lra List Bool ZArith Arith.
From PUN Require Import Base.Num Model.TMCMC Gen.GenTMCMC Proofs.TMCMC.
Import ListNotations.

Section T.
Variable N : Num.
Variable ess : nat -> N -> Z.
Theorem gen_body_is_model beta rN s : gen_body N ess beta rN s = bstep N ess rN s.
Proof. reflexivity. Qed.
Theorem gen_cond_is_model s : gen_cond N s = bcond N (gen_tol N) s.
Proof. reflexivity. Qed.
Theorem gen_loop_is_model beta rN fuel : forall s, gen_loop N ess beta rN fuel s = bloop N ess (gen_tol N) rN fuel s.
Proof. induction fuel as [|f IH]; intros s; cbn [gen_loop bloop]; rewrite gen_cond_is_model; [reflexivity|].
  destruct (bcond N (gen_tol N) s); [|reflexivity]. rewrite gen_body_is_model. apply IH. Qed.
Theorem gen_next_beta_is_model beta rN fuel : gen_next_beta N ess beta rN fuel = next_beta N ess (gen_tol N) rN beta fuel.
Proof. unfold gen_next_beta, next_beta, bisect. rewrite gen_loop_is_model. reflexivity. Qed.
End T.

Open Scope R_scope.
Lemma gen_tol_R : gen_tol RN = 1 / 10 ^ 8.
Proof. unfold gen_tol, nofdec. cbn [ndiv nofZ RN T]. replace (10 ^ Z.of_nat 8)%Z with 100000000%Z by reflexivity. cbn [pow]. lra. Qed.

(* the statements of C19 about the translated loop *)
Theorem gen_terminates (ess : nat -> R -> Z) rN beta : 0 <= beta -> beta < 2 -> gen_next_beta RN ess beta rN 29 <> None.
Proof.
  intros H0 H2. rewrite gen_next_beta_is_model, gen_tol_R. unfold next_beta.
  pose proof (bisect_terminates ess (1 / 10 ^ 8) rN beta H0 H2 eq_refl) as Ht.
  destruct (bisect RN ess (1 / 10 ^ 8) rN beta 29); [discriminate|contradiction].
Qed.
Theorem gen_next_beta_increases (ess : nat -> R -> Z) rN beta fuel b e : beta < 1 ->
  gen_next_beta RN ess beta rN fuel = Some (b, e) -> beta < b <= 1.
Proof.
  intros Hb E. rewrite gen_next_beta_is_model, gen_tol_R in E.
  assert (Ht : 0 < 1 / 10 ^ 8) by (cbn [pow]; lra). assert (Ht1 : 1 / 10 ^ 8 < 1) by (cbn [pow]; lra).
  exact (proj1 (next_beta_spec ess (1 / 10 ^ 8) rN Ht beta fuel b e Hb Ht1 E)).
Qed.
