(* C02: the four operations of the model under no dependence assumption (Frechet) are sound in the compositional sense. *)
From Coq Require Import Reals Lra List Arith Lia Bool Permutation Sorted.
From PUN Require Import Base.Num Base.Sort Model.Interval Model.Pbox Model.PboxArith
  Proofs.ListR Proofs.Frechet Proofs.PboxWF Proofs.PboxUnary Proofs.WFExpr Proofs.Compose Proofs.ComposeNaive Proofs.ComposeOps Proofs.ComposeMul.
Import ListNotations.
Open Scope R_scope.

Section All.
Variable steps : nat.
Variables plo phi : R.
Hypothesis steps_pos : (0 < steps)%nat.
Notation S_ := (snd_ steps).
Notation WFs := (WF steps).

Theorem add_sound p q u v r : S_ p u -> S_ q v -> padd RN steps plo phi DF p q = Ok r -> S_ r (map2 Rplus u v).
Proof.
  intros Sp Sq. destruct (S_len steps p u Sp) as (Hl & Hr & Hu). destruct (S_len steps q v Sq) as (Hl' & Hr' & Hv).
  unfold padd. cbn [dep_op]. change (nadd RN) with Rplus. unfold pbox in *. cbn [T RN] in *.
  pose proof (frechet_bounds Rplus (fun _ => True) (fst p) (snd p) (fst q) (snd q) u v ltac:(auto) ltac:(intros; lra) ltac:(lia) ltac:(intros; exact I) ltac:(intros; exact I) (proj2 Sp) (proj2 Sq)) as FB.
  pose proof (frechet_op_lengths Rplus (fst p) (snd p) (fst q) (snd q)) as (L1 & L2).
  destruct (frechet_op RN Rplus (fst p) (snd p) (fst q) (snd q)) as [l r'] eqn:F. cbn [fst snd] in *. intros E.
  unfold mk_staircase in E. eapply mk_sound; [| |left|exact E]; change (nsort RN) with Rsort; rewrite ?Rsort_length.
  - transitivity (length (fst p)); [exact L1|exact Hl].
  - transitivity (length (fst p)); [exact L2|exact Hl].
  - apply bounds_sort. exact FB.
Qed.
Theorem sub_sound p q u v r : S_ p u -> S_ q v -> psub RN steps plo phi DF p q = Ok r -> S_ r (map2 Rminus u v).
Proof.
  intros Sp Sq. unfold psub. cbn [swap_po].
  destruct (pneg RN steps plo phi q) as [nq| |] eqn:En; cbn [rbind]; try discriminate. intros E.
  pose proof (pneg_sound steps plo phi q v nq Sq En) as Sn.
  pose proof (add_sound p nq u _ r Sp Sn E) as Sr.
  assert (Eq : forall u v : list R, map2 Rplus u (map Ropp v) = map2 Rminus u v).
  { clear. induction u as [|a u IH]; intros [|b v]; cbn; auto. f_equal. apply IH. }
  rewrite Eq in Sr. exact Sr.
Qed.
Theorem mul_sound p q u v r : S_ p u -> S_ q v -> pmul RN steps plo phi DF p q = Ok r -> S_ r (map2 Rmult u v).
Proof. intros Sp Sq. unfold pmul, frechet_mul. apply (frechet_mul_sound_fuel steps plo phi steps_pos mul_fuel); assumption. Qed.

(* ---------- division: the reciprocal is antitone on each side of zero ---------- *)
Lemma bounds_map_anti_dom (f : R -> R) (Dm : R -> Prop) (L Rr u : list R) :
  (forall a b, Dm a -> Dm b -> a <= b -> f b <= f a) -> Forall Dm L -> Forall Dm Rr -> Forall Dm u ->
  bounds L Rr u -> bounds (rev (map f Rr)) (rev (map f L)) (map f u).
Proof.
  intros Hf DL DR Du (Hu & Hr & H). split; [rewrite rev_length, !map_length; lia|]. split; [rewrite !rev_length, !map_length; lia|].
  intros s' Hs' Hss' i Hi. rewrite rev_length, map_length in Hi.
  assert (Dsu : Forall Dm (Rsort u)).
  { apply Forall_forall. intros a Ha. rewrite Forall_forall in Du. apply Du. apply (Permutation_in _ (Permutation_sym (Rsort_perm u))). exact Ha. }
  assert (Ssu : Rsorted (map f (rev (Rsort u)))).
  { apply nth_Rsorted. intros a b Hab. rewrite map_length, rev_length, Rsort_length in Hab.
    rewrite !(nth_indep (map f _) 0 (f 0)) by (rewrite map_length, rev_length, Rsort_length; lia). rewrite !map_nth.
    rewrite !rev_nth by (rewrite Rsort_length; lia). rewrite Rsort_length.
    rewrite Forall_forall in Dsu.
    apply Hf; [apply Dsu, nth_In; rewrite Rsort_length; lia|apply Dsu, nth_In; rewrite Rsort_length; lia|].
    apply Rsorted_nth; [apply Rsort_sorted|rewrite Rsort_length; lia]. }
  assert (E : s' = map f (rev (Rsort u))).
  { apply sorted_perm_unique; auto. eapply Permutation_trans; [exact Hs'|]. apply Permutation_map. eapply Permutation_trans; [apply Rsort_perm|apply Permutation_rev]. }
  subst s'. set (k := (length L - 1 - i)%nat).
  specialize (H (Rsort u) (Permutation_sym (Rsort_perm u)) (Rsort_sorted u) k ltac:(unfold k; lia)).
  rewrite !rev_nth by (rewrite map_length; lia). rewrite !map_length.
  rewrite !(nth_indep (map f _) 0 (f 0)) by (rewrite map_length, ?rev_length, ?Rsort_length; lia). rewrite !map_nth.
  rewrite rev_nth by (rewrite Rsort_length; lia). rewrite Rsort_length.
  replace (length Rr - S i)%nat with k by (unfold k; lia). replace (length L - S i)%nat with k by (unfold k; lia). replace (length u - S i)%nat with k by (unfold k; lia).
  rewrite Forall_forall in DL, DR, Dsu.
  assert (D1 : Dm (nth k L 0)) by (apply DL, nth_In; unfold k; lia).
  assert (D2 : Dm (nth k Rr 0)) by (apply DR, nth_In; unfold k; lia).
  assert (D3 : Dm (nth k (Rsort u) 0)) by (apply Dsu, nth_In; rewrite Rsort_length; unfold k; lia).
  cbn [T RN] in *. split; apply Hf; auto; lra.
Qed.
Lemma inv_anti_pos a b : 0 < a -> 0 < b -> a <= b -> 1 / b <= 1 / a.
Proof. intros Ha Hb Hab. unfold Rdiv. rewrite !Rmult_1_l. apply Rinv_le_contravar; assumption. Qed.
Lemma inv_anti_neg a b : a < 0 -> b < 0 -> a <= b -> 1 / b <= 1 / a.
Proof. intros Ha Hb Hab. assert (P : 0 < a * b) by nra. pose proof (Rinv_0_lt_compat _ P) as Q.
  assert (E : 1 / b - 1 / a = (a - b) * / (a * b)) by (field; lra). assert ((a - b) * / (a * b) <= 0) by nra. lra. Qed.

Theorem precip_sound q v r : S_ q v -> precip RN steps plo phi q = Ok r -> S_ r (map (fun a => 1 / a) v).
Proof.
  intros Sq E. pose proof (proj1 Sq) as W. destruct (S_len steps q v Sq) as (Hl & Hr & Hv). destruct W as [_ _ SL SR PLR].
  revert E. unfold precip. cbn [T RN nleb ndiv]. unfold nth0, lastn. change (@nzero RN) with 0. change (@none RN) with 1.
  match goal with |- (if ?c then _ else _) = _ -> _ => destruct c eqn:G end; [discriminate|]. intros E.
  assert (Hs : 0 < nth 0 (fst q) 0 \/ last (snd q) 0 < 0).
  { apply andb_false_iff in G. destruct G as [G|G]; apply Rleb_false in G; [left|right]; exact G. }
  assert (Hle : forall j, (j < steps)%nat -> nth 0 (fst q) 0 <= nth j (fst q) 0 <= nth j (snd q) 0 /\ nth j (snd q) 0 <= last (snd q) 0).
  { intros j Hj. split; [split|]; [apply Rsorted_nth; auto; lia|apply ple_nth; auto; lia|rewrite last_as_nth; apply Rsorted_nth; auto; lia]. }
  unfold mk_staircase in E. eapply mk_sound; [| |left|exact E]; rewrite ?map_length, ?rev_length; auto.
  rewrite !map_rev.
  destruct Hs as [Hpos|Hneg].
  - apply (bounds_map_anti_dom (fun x => 1 / x) (fun a => 0 < a)); [intros; apply inv_anti_pos; assumption| | | |exact (proj2 Sq)].
    + apply Forall_forall. intros a Ha. destruct (In_nth _ _ 0 Ha) as (j & Hj & <-). destruct (Hle j ltac:(lia)). lra.
    + apply Forall_forall. intros a Ha. destruct (In_nth _ _ 0 Ha) as (j & Hj & <-). destruct (Hle j ltac:(lia)). lra.
    + apply Forall_forall. intros a Ha. destruct (in_some_step _ _ _ a (proj2 Sq) Ha) as (j & Hj & Hb). destruct (Hle j ltac:(lia)). lra.
  - apply (bounds_map_anti_dom (fun x => 1 / x) (fun a => a < 0)); [intros; apply inv_anti_neg; assumption| | | |exact (proj2 Sq)].
    + apply Forall_forall. intros a Ha. destruct (In_nth _ _ 0 Ha) as (j & Hj & <-). destruct (Hle j ltac:(lia)). lra.
    + apply Forall_forall. intros a Ha. destruct (In_nth _ _ 0 Ha) as (j & Hj & <-). destruct (Hle j ltac:(lia)). lra.
    + apply Forall_forall. intros a Ha. destruct (in_some_step _ _ _ a (proj2 Sq) Ha) as (j & Hj & Hb). destruct (Hle j ltac:(lia)). lra.
Qed.
Theorem div_sound p q u v r : S_ p u -> S_ q v -> pdiv RN steps plo phi DF p q = Ok r -> S_ r (map2 Rdiv u v).
Proof.
  intros Sp Sq. unfold pdiv, one_over, PboxBase.prdiv. cbn [swap_po].
  destruct (precip RN steps plo phi q) as [rq| |] eqn:E1; cbn [rbind]; try discriminate.
  destruct (pnum RN steps plo phi (nmul RN) rq none) as [rq1| |] eqn:E2; cbn [rbind]; try discriminate. intros E3.
  pose proof (precip_sound q v rq Sq E1) as S1. change (@none RN) with 1 in E2.
  pose proof (pnum_mul_sound steps plo phi rq _ 1 rq1 S1 E2) as S2.
  pose proof (mul_sound p rq1 u _ r Sp S2 E3) as S3.
  assert (Eq : forall u v : list R, map2 Rmult u (map (fun a => a * 1) (map (fun a => 1 / a) v)) = map2 Rdiv u v).
  { clear. induction u as [|a u IH]; intros [|b v]; cbn; auto. f_equal; [unfold Rdiv; ring|apply IH]. }
  rewrite Eq in S3. exact S3.
Qed.
End All.
