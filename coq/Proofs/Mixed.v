(* C14: slicing uses every combination of grid levels exactly once; the mixture of focal intervals lies inside their hull,
   equals the interval when all focal intervals coincide, and has zero width when they are all degenerate. *)
From Coq Require Import Reals Lra List Arith Lia Bool Permutation.
From PUN Require Import Base.Num Base.Sort Model.Interval Model.IntervalFun Model.Pbox Model.B2B Model.Mixed
  Proofs.ListR Proofs.PboxWF Proofs.WFExpr Proofs.Stacking Proofs.Query Proofs.Hier Proofs.IntervalOps.
Import ListNotations.
Open Scope R_scope.

(* ---------- the cartesian product of level grids ---------- *)
Lemma cartesian_length {A} (ls : list (list A)) : length (cartesian ls) = fold_right (fun l acc => (length l * acc)%nat) 1%nat ls.
Proof. induction ls as [|l r IH]; [reflexivity|]. cbn [cartesian fold_right]. rewrite <- IH. clear IH.
  induction l as [|a l IHl]; [reflexivity|]. cbn [flat_map length]. rewrite app_length, map_length, IHl. lia. Qed.
Lemma cartesian_in {A} (ls : list (list A)) (t : list A) : In t (cartesian ls) <-> Forall2 (fun x l => In x l) t ls.
Proof.
  revert t; induction ls as [|l r IH]; intros t; cbn [cartesian].
  - split; [intros [<-|[]]; constructor|intros H; inversion H; left; reflexivity].
  - rewrite in_flat_map. split.
    + intros (a & Ha & Ht). apply in_map_iff in Ht. destruct Ht as (t' & <- & Ht'). constructor; [exact Ha|apply IH; exact Ht'].
    + intros H. inversion H as [|a l' t' r' Ha Hr]; subst. exists a. split; [exact Ha|]. apply in_map_iff. exists t'. split; [reflexivity|apply IH; exact Hr].
Qed.
Lemma NoDup_map_cons {A} (a : A) (l : list (list A)) : NoDup l -> NoDup (map (cons a) l).
Proof. intros H. induction H as [|x l Hx H IH]; cbn [map]; constructor; auto. intro Hin. apply in_map_iff in Hin. destruct Hin as (y & E & Hy). inversion E; subst. contradiction. Qed.
Lemma NoDup_app_intro {A} (l1 l2 : list A) : NoDup l1 -> NoDup l2 -> (forall x, In x l1 -> In x l2 -> False) -> NoDup (l1 ++ l2).
Proof. intros H1 H2 Hd. induction H1 as [|a l Ha H1 IH]; cbn [app]; [exact H2|]. constructor.
  - intro Hin. apply in_app_or in Hin. destruct Hin as [Hin|Hin]; [contradiction|]. apply (Hd a); [left; reflexivity|exact Hin].
  - apply IH. intros x Hx Hx2. apply (Hd x); [right; exact Hx|exact Hx2]. Qed.
Lemma cartesian_nodup {A} (ls : list (list A)) : Forall (fun l => NoDup l) ls -> NoDup (cartesian ls).
Proof.
  induction 1 as [|l r Hl Hr IH]; cbn [cartesian]; [constructor; [intros []|constructor]|].
  induction Hl as [|a l Ha Hl IHl]; cbn [flat_map]; [constructor|].
  apply NoDup_app_intro; [apply NoDup_map_cons; exact IH|exact IHl|].
  intros t H1 H2. apply in_map_iff in H1. destruct H1 as (t1 & <- & _). apply in_flat_map in H2. destruct H2 as (b & Hb & H2).
  apply in_map_iff in H2. destruct H2 as (t2 & E & _). inversion E; subst. contradiction.
Qed.

(* ---------- the mixture of focal intervals ---------- *)
Section Mix.
Variable steps : nat.
Variables plo phi : R.
Notation grid := (p_values RN steps plo phi).
Hypothesis grid_len : @length R grid = steps.
Hypothesis grid_ok : Forall (fun a => 0 < a <= 1) grid.
Hypothesis grid_sorted : Rsorted grid.
Notation mixtureR := (mixture RN steps plo phi).

Lemma eqw_props m : (0 < m)%nat -> Forall (fun x => 0 <= x) (equal_weights RN m) /\ Rsum (equal_weights RN m) = 1 /\ length (equal_weights RN m) = m.
Proof.
  intros Hm. unfold equal_weights. cbn [ndiv nofZ RN T]. unfold none; cbn [nofZ RN T].
  assert (P : 0 < IZR (Z.of_nat m)) by (apply IZR_lt; lia).
  split; [|split; [|apply repeat_length]].
  - apply Forall_forall. intros x Hx. apply repeat_spec in Hx. subst. apply Rlt_le. apply Rdiv_lt_0_compat; lra.
  - assert (G : forall k, Rsum (repeat (1 / IZR (Z.of_nat m)) k) = INR k * (1 / IZR (Z.of_nat m))).
    { induction k; [cbn; lra|]. cbn [repeat Rsum]. rewrite IHk, S_INR. lra. }
    rewrite G, INR_IZR_INZ. field. lra.
Qed.

(* well-formed focal intervals: the mixture is accepted, and every value of its bounds is one of the focal endpoints *)
Theorem mixture_values (focal : list (R * R)) : (1 < length focal)%nat -> Forall (fun i => fst i <= snd i) focal ->
  let p := (map (ecdf_at (map fst focal) (equal_weights RN (length focal))) grid, map (ecdf_at (map snd focal) (equal_weights RN (length focal))) grid) in
  mixtureR focal = Ok p /\ WF steps p /\
  Forall (fun v => In v (map fst focal)) (fst p) /\ Forall (fun v => In v (map snd focal)) (snd p).
Proof.
  intros Hm Hw. cbv zeta. unfold mixture. destruct (Nat.leb _ 1) eqn:Hb; [apply Nat.leb_le in Hb; cbn [T RN] in *; lia|]. rewrite stacking_bounds.
  set (w := equal_weights RN (length focal)). destruct (eqw_props (length focal) ltac:(lia)) as (W1 & W2 & W3). fold w in W1, W2, W3.
  set (lo := map fst focal). set (hi := map snd focal).
  assert (Llo : length lo = length w) by (unfold lo; rewrite map_length, W3; reflexivity).
  assert (Lhi : length hi = length w) by (unfold hi; rewrite map_length, W3; reflexivity).
  assert (Nlo : lo <> []) by (intro E; apply (f_equal (@length R)) in E; rewrite Llo, W3 in E; cbn in E; lia).
  assert (Nhi : hi <> []) by (intro E; apply (f_equal (@length R)) in E; rewrite Lhi, W3 in E; cbn in E; lia).
  assert (Hle : Forall2 Rle lo hi).
  { unfold lo, hi. clear - Hw. induction Hw; cbn [map]; constructor; auto. }
  assert (G : forall a, In a grid -> is_ginv (combine lo w) a (ecdf_at lo w a) /\ is_ginv (combine hi w) a (ecdf_at hi w a) /\ In (ecdf_at lo w a) lo /\ In (ecdf_at hi w a) hi).
  { intros a Ha. rewrite Forall_forall in grid_ok. specialize (grid_ok a Ha).
    pose proof (ecdf_at_ginv lo w a Llo Nlo grid_ok W1 ltac:(rewrite W2; lra)) as (I1 & A1 & B1).
    pose proof (ecdf_at_ginv hi w a Lhi Nhi grid_ok W1 ltac:(rewrite W2; lra)) as (I2 & A2 & B2).
    repeat split; assumption. }
  set (L := map (ecdf_at lo w) grid). set (R' := map (ecdf_at hi w) grid).
  assert (Ple : ple L R').
  { apply nth_ple; [unfold L, R'; rewrite !map_length; reflexivity|]. intros i Hi. unfold L in Hi. rewrite map_length in Hi.
    unfold L, R'. rewrite (nth_indep _ 0 (ecdf_at lo w 0)), (nth_indep (map (ecdf_at hi w) grid) 0 (ecdf_at hi w 0)) by (rewrite map_length; exact Hi).
    rewrite !map_nth. destruct (G (nth i grid 0) (nth_In _ _ Hi)) as (A & B & _). eapply (is_ginv_dom lo hi w); eauto. }
  assert (Srt : forall s, s = lo \/ s = hi -> Rsorted (map (ecdf_at s w) grid)).
  { intros s Hs. apply nth_Rsorted. intros i j Hij. rewrite map_length in Hij.
    rewrite !(nth_indep (map (ecdf_at s w) grid) 0 (ecdf_at s w 0)) by (rewrite map_length; lia). rewrite !map_nth.
    assert (Hg : nth i grid 0 <= nth j grid 0) by (apply Rsorted_nth; [exact grid_sorted|lia]).
    assert (Hi' : (i < length grid)%nat) by (destruct Hij; eapply Nat.le_lt_trans; eauto). assert (Hj' : (j < length grid)%nat) by (destruct Hij; assumption).
    destruct (G (nth i grid 0) (nth_In _ _ Hi')) as (A1 & B1 & _). destruct (G (nth j grid 0) (nth_In _ _ Hj')) as (A2 & B2 & _).
    destruct Hs as [->| ->]; eapply is_ginv_mono_level; eauto. }
  assert (E : mk_staircase RN steps plo phi L R' = Ok (L, R')).
  { unfold mk_staircase. apply mk_ordered; unfold L, R'; rewrite ?map_length; auto. }
  split; [exact E|]. split.
  - constructor; cbn [fst snd]; unfold L, R'; rewrite ?map_length; auto.
  - cbn [fst snd]. split; apply Forall_forall; intros v Hv; apply in_map_iff in Hv; destruct Hv as (a & <- & Ha); apply G; exact Ha.
Qed.

(* (i) the support of the mixture lies inside any interval containing every focal interval *)
Theorem mixture_support (focal : list (R * R)) (A B : R) : (1 < length focal)%nat -> Forall (fun i => fst i <= snd i) focal ->
  Forall (fun i => A <= fst i /\ snd i <= B) focal ->
  exists p, mixtureR focal = Ok p /\ Forall (fun v => A <= v) (fst p) /\ Forall (fun v => v <= B) (snd p).
Proof.
  intros Hm Hw HAB. destruct (mixture_values focal Hm Hw) as (E & _ & F1 & F2). eexists; split; [exact E|].
  rewrite Forall_forall in HAB. split; eapply Forall_impl; [|exact F1| |exact F2]; cbn beta; intros v Hv; apply in_map_iff in Hv; destruct Hv as (i & <- & Hi); apply HAB; exact Hi.
Qed.
(* (ii) all focal intervals equal: the mixture is that interval as a constant p-box *)
Theorem mixture_constant (i : R * R) (m : nat) : (1 < m)%nat -> fst i <= snd i -> mixtureR (repeat i m) = Ok (Hier.embed steps i).
Proof.
  intros Hm Hi. assert (Hl : (1 < length (repeat i m))%nat) by (rewrite repeat_length; exact Hm).
  assert (Hw : Forall (fun j => fst j <= snd j) (repeat i m)) by (apply Forall_forall; intros j Hj; apply repeat_spec in Hj; subst; exact Hi).
  destruct (mixture_values _ Hl Hw) as (E & W & F1 & F2). rewrite E. f_equal. unfold Hier.embed.
  assert (C : forall (l : list R) (c : R), length l = steps -> Forall (fun v => v = c) l -> l = repeat c steps).
  { intros l c Hlen Hall. rewrite <- Hlen. clear Hlen. induction Hall; cbn [length repeat]; [reflexivity|]. subst. f_equal. assumption. }
  destruct W as [W1 W2 _ _ _]. f_equal; apply C; auto.
  - eapply Forall_impl; [|exact F1]. cbn beta. intros v Hv. apply in_map_iff in Hv. destruct Hv as (j & <- & Hj). apply repeat_spec in Hj. subst. reflexivity.
  - eapply Forall_impl; [|exact F2]. cbn beta. intros v Hv. apply in_map_iff in Hv. destruct Hv as (j & <- & Hj). apply repeat_spec in Hj. subst. reflexivity.
Qed.
(* (iii) all focal intervals degenerate (precise inputs, exact image): the mixture has zero width *)
Theorem mixture_precise (focal : list (R * R)) : (1 < length focal)%nat -> Forall (fun i => fst i = snd i) focal ->
  exists p, mixtureR focal = Ok p /\ fst p = snd p.
Proof.
  intros Hm Hd. assert (Hw : Forall (fun i => fst i <= snd i) focal) by (eapply Forall_impl; [|exact Hd]; cbn; intros; lra).
  destruct (mixture_values focal Hm Hw) as (E & _). eexists; split; [exact E|]. cbn [fst snd].
  replace (map snd focal) with (map fst focal); [reflexivity|]. clear - Hd. induction Hd; cbn [map]; [reflexivity|]. f_equal; assumption.
Qed.
End Mix.

Lemma Forall2_len {A B} (P : A -> B -> Prop) l l' : Forall2 P l l' -> length l = length l'.
Proof. induction 1; cbn; auto. Qed.

(* ---------- alpha-cuts of degenerate inputs, and the whole procedure ---------- *)
Section Whole.
Variable steps : nat.
Variables plo phi : R.
Notation grid := (p_values RN steps plo phi).
Hypothesis grid_len : @length R grid = steps.
Hypothesis grid_inc : strictly_increasing grid.
Hypothesis grid_ok : Forall (fun a => 0 < a <= 1) grid.
Hypothesis grid_sorted : Rsorted grid.
Hypothesis steps_pos : (0 < steps)%nat.
Notation acut := (alpha_cut RN steps plo phi).

(* an alpha-cut of a well-formed p-box lies inside its support *)
Theorem cut_in_support (p : list R * list R) (a : R) : WF steps p ->
  nth 0 (fst p) 0 <= fst (acut p a) /\ snd (acut p a) <= last (snd p) 0.
Proof.
  intros W. destruct (acut_is_nearest steps plo phi grid_len steps_pos p a) as (E & Hi & _). rewrite E. cbn [fst snd].
  destruct W as [H1 H2 H3 H4 H5]. split; [apply Rsorted_nth; auto; lia|]. rewrite last_as_nth. apply Rsorted_nth; auto. lia.
Qed.
(* an interval input: every alpha-cut is the interval itself; a precise input: every alpha-cut is a point *)
Theorem cut_interval (i : R * R) (a : R) : acut (Hier.embed steps i) a = i.
Proof.
  destruct (acut_is_nearest steps plo phi grid_len steps_pos (Hier.embed steps i) a) as (E & Hi & _). rewrite E.
  unfold Hier.embed; cbn [fst snd]. rewrite !nth_repeat_lt_R by exact Hi. destruct i; reflexivity.
Qed.
Theorem cut_precise (q : list R) (a : R) : fst (acut (q, q) a) = snd (acut (q, q) a).
Proof. reflexivity. Qed.

Lemma cut_box_intervals (ivs : list (R * R)) : forall row : list R, length row = length ivs ->
  cut_box RN steps plo phi (map (Hier.embed steps) ivs) row = ivs.
Proof. unfold cut_box. induction ivs as [|i ivs IH]; intros [|a row] H; cbn in H; try lia; [reflexivity|].
  cbn [map map2]. rewrite cut_interval. f_equal. apply IH. lia. Qed.
Lemma sequence_const {A} (y : A) (m : nat) : sequence (repeat (Ok y) m) = Ok (repeat y m).
Proof. induction m; [reflexivity|]. cbn [repeat sequence rbind]. rewrite IHm. reflexivity. Qed.

(* inputs that are all intervals: exactly the interval image of the box, whatever the levels *)
Theorem mixed_all_intervals (img : list (R * R) -> res (R * R)) (ivs : list (R * R)) (levels : list (list R)) (y : R * R) :
  (1 < length levels)%nat -> Forall (fun row => length row = length ivs) levels -> img ivs = Ok y -> fst y <= snd y ->
  rbind (focal_elements RN steps plo phi img (map (Hier.embed steps) ivs) levels) (mixture RN steps plo phi) = Ok (Hier.embed steps y).
Proof.
  intros Hm Hrows Himg Hy. unfold focal_elements.
  match goal with |- context [sequence ?m] => assert (E : m = repeat (Ok y) (length levels)) end.
  { clear Hm. induction Hrows as [|row levels Hr Hrows IH]; [reflexivity|]. cbn [map length repeat]. rewrite cut_box_intervals by exact Hr. rewrite Himg. f_equal. exact IH. }
  rewrite E, sequence_const. cbn [rbind]. apply mixture_constant; auto.
Qed.

(* the support of the output lies inside any interval Y that contains the image of every box inside the input supports *)
Definition supports (vars : list (list R * list R)) : list (R * R) := map (fun p => (nth 0 (fst p) 0, last (snd p) 0)) vars.
Definition inside_box (b b' : list (R * R)) : Prop := Forall2 (fun i j => fst j <= fst i /\ snd i <= snd j) b b'.
Lemma cut_box_inside (vars : list (list R * list R)) : Forall (WF steps) vars -> forall row, length row = length vars ->
  inside_box (cut_box RN steps plo phi vars row) (supports vars).
Proof. unfold cut_box, supports, inside_box. induction 1 as [|p vars Wp W IH]; intros [|a row] H; cbn in H; try lia; cbn [map map2]; constructor.
  - cbn [fst snd]. apply cut_in_support; exact Wp. - apply IH. inversion H; reflexivity. Qed.
Lemma sequence_ok {A} (l : list (res A)) (ys : list A) : sequence l = Ok ys -> Forall2 (fun r y => r = Ok y) l ys.
Proof. revert ys; induction l as [|r l IH]; intros ys H; cbn [sequence] in H; [inversion H; constructor|].
  destruct r as [a| |]; cbn [rbind] in H; try discriminate. destruct (sequence l) as [b| |] eqn:E; cbn [rbind] in H; try discriminate.
  inversion H; subst. constructor; [reflexivity|apply IH; reflexivity]. Qed.
Theorem mixed_support (img : list (R * R) -> res (R * R)) (vars : list (list R * list R)) (levels : list (list R)) (Y : R * R) focal :
  Forall (WF steps) vars -> Forall (fun row => length row = length vars) levels -> (1 < length levels)%nat ->
  (forall b y, inside_box b (supports vars) -> img b = Ok y -> fst y <= snd y /\ fst Y <= fst y /\ snd y <= snd Y) ->
  focal_elements RN steps plo phi img vars levels = Ok focal ->
  exists p, mixture RN steps plo phi focal = Ok p /\ Forall (fun v => fst Y <= v) (fst p) /\ Forall (fun v => v <= snd Y) (snd p).
Proof.
  intros W Hrows Hm Himg Hf. unfold focal_elements in Hf. apply sequence_ok in Hf.
  assert (Hlen : length focal = length levels) by (apply Forall2_len in Hf; rewrite map_length in Hf; symmetry; exact Hf).
  assert (Hall : Forall (fun y => fst y <= snd y /\ fst Y <= fst y /\ snd y <= snd Y) focal).
  { clear Hm Hlen. revert focal Hf. induction Hrows as [|row levels Hr Hrows IH]; intros focal Hf; cbn [map] in Hf; inversion Hf; subst; constructor.
    - eapply Himg; [apply cut_box_inside; eauto|eassumption]. - apply IH; assumption. }
  apply (mixture_support steps plo phi grid_len grid_ok grid_sorted focal (fst Y) (snd Y)).
  - eapply Nat.lt_le_trans; [exact Hm|]. rewrite <- Hlen. apply Nat.le_refl.
  - eapply Forall_impl; [|exact Hall]; cbn; tauto.
  - eapply Forall_impl; [|exact Hall]; cbn; tauto.
Qed.
End Whole.

(* slicing with k slices of d inputs: every combination of the k grid levels exactly once *)
Theorem slicing_levels_complete (plo phi : R) (k d : nat) : NoDup (linspace RN plo phi k) ->
  length (slicing_levels RN plo phi k d) = (k ^ d)%nat /\ NoDup (slicing_levels RN plo phi k d) /\
  (forall t, In t (slicing_levels RN plo phi k d) <-> length t = d /\ Forall (fun a => In a (linspace RN plo phi k)) t).
Proof.
  intros Hnd. unfold slicing_levels. split; [|split].
  - rewrite cartesian_length. induction d; [reflexivity|]. cbn [repeat fold_right Nat.pow]. rewrite IHd, linspace_length. reflexivity.
  - apply cartesian_nodup. apply Forall_forall. intros l Hl. apply repeat_spec in Hl. subst; exact Hnd.
  - intros t. rewrite cartesian_in. split.
    + intros H. split.
      * apply Forall2_len in H. rewrite repeat_length in H. exact H.
      * clear - H. remember (repeat (linspace RN plo phi k) d) as ls. revert d Heqls. induction H as [|a l t ls Ha H IH]; intros d E; [constructor|].
        destruct d; cbn [repeat] in E; [discriminate|]. inversion E; subst. constructor; [exact Ha|]. eapply IH; reflexivity.
    + intros [Hl Hall]. subst d. induction Hall as [|a t Ha Hall IH]; cbn [length repeat]; constructor; auto.
Qed.

(* ---------- inputs that are all precise distributions, direct strategy: the output has zero width ---------- *)
From PUN Require Import Proofs.B2B Proofs.Iso.
Section Precise.
Variable steps : nat.
Variables plo phi : R.
Notation grid := (p_values RN steps plo phi).
Hypothesis grid_len : @length R grid = steps.
Hypothesis grid_ok : Forall (fun a => 0 < a <= 1) grid.
Hypothesis grid_sorted : Rsorted grid.
Variables (fexp : R -> R) (fpow : R -> nat -> R).
Hypothesis fexp_is : forall x, fexp x = exp x.
Hypothesis fpow_is : forall x k, fpow x k = x ^ k.

Lemma cut_box_precise (qs : list (list R)) : forall row : list R,
  cut_box RN steps plo phi (map (fun q => (q, q)) qs) row =
  map (fun x => (x, x)) (map2 (fun q a => nth0 RN q (find_nearest RN grid a)) qs row).
Proof. unfold cut_box. induction qs as [|q qs IH]; intros [|a row]; cbn [map map2]; try reflexivity. f_equal. apply IH. Qed.
Theorem mixed_all_precise e (qs : list (list R)) (levels : list (list R)) focal : pos_pows e -> (1 < length levels)%nat ->
  focal_elements RN steps plo phi (direct RN fexp fpow e) (map (fun q => (q, q)) qs) levels = Ok focal ->
  exists p, mixture RN steps plo phi focal = Ok p /\ fst p = snd p.
Proof.
  intros Hp Hm Hf. unfold focal_elements in Hf. apply sequence_ok in Hf.
  assert (Hlen : length focal = length levels) by (apply Forall2_len in Hf; rewrite map_length in Hf; symmetry; exact Hf).
  apply (mixture_precise steps plo phi grid_len grid_ok grid_sorted).
  - eapply Nat.lt_le_trans; [exact Hm|]. rewrite <- Hlen. apply Nat.le_refl.
  - clear Hm Hlen. revert focal Hf. induction levels as [|row levels IH]; intros focal Hf; cbn [map] in Hf; inversion Hf as [|? y ? focal' Hy Hf']; subst; constructor.
    + cbn beta in Hy. rewrite cut_box_precise in Hy. rewrite (direct_point fexp fpow fpow_is e _ y Hp Hy). reflexivity.
    + apply IH; assumption.
Qed.
End Precise.
