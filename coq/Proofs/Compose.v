(* C02, compositional form.  A p-box (L, R) with n steps BOUNDS a sample u = (u_1 .. u_n) - one value per equally likely outcome of an
   underlying probability space - when the sorted sample lies step by step between L and R.  "Taking one value from each probability step
   of each operand and coupling them in any way" is exactly a pair of samples u, v bounded by the operands; the theorems below say that
   every operation of the Frechet calculus maps bounded samples to a bounded sample of the outcomes u_i (op) v_i, WHATEVER the joint order
   of u and v (= every dependence).  Because the conclusion has the same form as the hypotheses, the statements compose: intermediate
   results of an expression are dependent on each other in arbitrary ways, and the bounds remain valid (this is what the Balch product of
   zero-straddling operands relies on). *)
From Coq Require Import Reals Lra List Arith Lia Bool Permutation Sorted.
From PUN Require Import Base.Num Base.Sort Model.Interval Model.Pbox Proofs.ListR Proofs.Frechet.
Import ListNotations.
Open Scope R_scope.

Definition bounds (L Rr u : list R) : Prop :=
  length u = length L /\ length Rr = length L /\
  forall s, Permutation s u -> Rsorted s -> forall i, (i < length L)%nat -> nth i L 0 <= nth i s 0 <= nth i Rr 0.

(* ---------- counting in sorted lists ---------- *)
Lemma sorted_cnt_lt l : Rsorted l -> forall i, (i < length l)%nat -> (cnt (fun z => ltb Rleb z (nth i l 0%R)) l <= i)%nat.
Proof.
  induction 1 as [|a l Hs IH Hall]; intros i Hi; cbn [length] in *; [lia|].
  unfold cnt in *. cbn [filter]. destruct i as [|i]; cbn [nth].
  - assert (E : ltb Rleb a a = false) by (unfold ltb; rewrite (proj2 (Rleb_true a a)); [reflexivity|lra]). rewrite E.
    assert (Z : filter (fun z => ltb Rleb z a) l = []).
    { clear -Hall. induction l as [|b l IHl]; [reflexivity|]. inversion Hall; subst. cbn [filter].
      assert (E : ltb Rleb b a = false) by (unfold ltb; rewrite H1; reflexivity). rewrite E. apply IHl; assumption. }
    rewrite Z. cbn. lia.
  - specialize (IH i ltac:(lia)). destruct (ltb Rleb a (nth i l 0)); cbn [length]; lia.
Qed.
Lemma cnt_mono (f g : R -> bool) (l : list R) : (forall a, In a l -> f a = true -> g a = true) -> (cnt f l <= cnt g l)%nat.
Proof. unfold cnt. apply len_filter_le. Qed.

(* what a bounded sample looks like in terms of counts: at most j values below L_j, at most n-1-j values above R_j *)
Lemma bounds_cnt_lo L Rr u j t : bounds L Rr u -> (j < length L)%nat -> t <= nth j L 0 -> (cnt (fun z => ltb Rleb z t) u <= j)%nat.
Proof.
  intros (Hl & Hr & H) Hj Ht. specialize (H (Rsort u) (Permutation_sym (Rsort_perm u)) (Rsort_sorted u) j Hj).
  rewrite (cnt_perm _ _ _ _ (Rsort_perm u)).
  etransitivity; [apply (cnt_mono _ (fun z => ltb Rleb z (nth j (Rsort u) 0)))|apply sorted_cnt_lt; [apply Rsort_sorted|rewrite Rsort_length; lia]].
  intros a _. rewrite !Rltb_ltb. intros; cbn [T RN] in *; lra.
Qed.
Lemma bounds_cnt_hi L Rr u j t : bounds L Rr u -> (j < length L)%nat -> nth j Rr 0 <= t -> (cnt (fun z => ltb Rleb t z) u <= length L - 1 - j)%nat.
Proof.
  intros (Hl & Hr & H) Hj Ht. specialize (H (Rsort u) (Permutation_sym (Rsort_perm u)) (Rsort_sorted u) j Hj).
  rewrite (cnt_perm _ _ _ _ (Rsort_perm u)).
  etransitivity; [apply (cnt_mono _ (fun z => ltb Rleb (nth j (Rsort u) 0) z))|].
  - intros a _. rewrite !Rltb_ltb. intros; cbn [T RN] in *; lra.
  - rewrite <- Hl, <- (Rsort_length u). apply sorted_cnt_gt; [apply Rsort_sorted|rewrite Rsort_length; lia].
Qed.

(* counting over pairs *)
Lemma cnt_combine_fst (f : R -> bool) : forall u v : list R, (cnt (fun p => f (fst p)) (combine u v) <= cnt f u)%nat.
Proof. unfold cnt. induction u as [|a u IH]; intros [|b v]; simpl; try lia.
  specialize (IH v). destruct (f a); simpl; lia. Qed.
Lemma cnt_combine_snd (f : R -> bool) : forall u v : list R, (cnt (fun p => f (snd p)) (combine u v) <= cnt f v)%nat.
Proof. unfold cnt. induction u as [|a u IH]; intros [|b v]; simpl; try lia.
  specialize (IH v). destruct (f b); simpl; lia. Qed.
Lemma map2_as_combine (op : R -> R -> R) : forall u v, map2 op u v = map (fun p => op (fst p) (snd p)) (combine u v).
Proof. induction u as [|a u IH]; intros [|b v]; cbn; auto. f_equal. apply IH. Qed.

Lemma sorted_head_le (s : list R) a : Rsorted s -> In a s -> nth 0 s 0 <= a.
Proof. intros Hs Hin. destruct (In_nth _ _ 0 Hin) as (k & Hk & <-). apply Rsorted_nth; auto. lia. Qed.

(* ---------- the Frechet (Frank-Nelsen-Sklar) convolution maps bounded samples to a bounded sample ---------- *)
Section Compose.
Variable op : R -> R -> R.
Variable D : R -> Prop.                      (* domain on which op is monotone *)
Hypothesis D_up : forall a a', D a -> a <= a' -> D a'.
Hypothesis op_mono : forall a a' b b', D a -> D b -> a <= a' -> b <= b' -> op a b <= op a' b'.
Variable n : nat.
Variables XL XR YL YR : list R.
Hypothesis lenXL : length XL = n. Hypothesis lenXR : length XR = n.
Hypothesis lenYL : length YL = n. Hypothesis lenYR : length YR = n.
Hypothesis DXL : forall j, (j < n)%nat -> D (nth j XL 0).
Hypothesis DYL : forall j, (j < n)%nat -> D (nth j YL 0).
Variables u v : list R.                      (* one value of each operand per outcome of the underlying space, in ANY joint order *)
Hypothesis Bu : bounds XL XR u.
Hypothesis Bv : bounds YL YR v.
Definition zs2 := map2 op u v.

Lemma lenu : length u = n. Proof. destruct Bu as (H & _). rewrite H; exact lenXL. Qed.
Lemma lenv : length v = n. Proof. destruct Bv as (H & _). rewrite H; exact lenYL. Qed.
Lemma len_zs2 : length zs2 = n. Proof. unfold zs2. rewrite map2_length, lenu, lenv. apply Nat.min_id. Qed.
Lemma all_D_u a : In a u -> D a.
Proof. intros Hin. assert (Hn : (0 < n)%nat) by (rewrite <- lenu; destruct u; [contradiction|cbn; lia]).
  destruct Bu as (_ & _ & H). specialize (H (Rsort u) (Permutation_sym (Rsort_perm u)) (Rsort_sorted u) 0%nat ltac:(rewrite lenXL; lia)).
  apply (D_up (nth 0 XL 0)); [apply DXL; lia|]. apply Rle_trans with (nth 0 (Rsort u) 0); [apply H|].
  apply sorted_head_le; [apply Rsort_sorted|]. apply (Permutation_in _ (Rsort_perm u)). exact Hin. Qed.
Lemma all_D_v b : In b v -> D b.
Proof. intros Hin. assert (Hn : (0 < n)%nat) by (rewrite <- lenv; destruct v; [contradiction|cbn; lia]).
  destruct Bv as (_ & _ & H). specialize (H (Rsort v) (Permutation_sym (Rsort_perm v)) (Rsort_sorted v) 0%nat ltac:(rewrite lenYL; lia)).
  apply (D_up (nth 0 YL 0)); [apply DYL; lia|]. apply Rle_trans with (nth 0 (Rsort v) 0); [apply H|].
  apply sorted_head_le; [apply Rsort_sorted|]. apply (Permutation_in _ (Rsort_perm v)). exact Hin. Qed.

Variable s : list R.
Hypothesis s_perm : Permutation s zs2.
Hypothesis s_sorted : Rsorted s.

Theorem compose_left_pair j0 k0 i : (j0 + k0 = i)%nat -> (i < n)%nat -> op (nth j0 XL 0) (nth k0 YL 0) <= nth i s 0.
Proof.
  intros Hjk Hi. apply Rleb_true.
  apply (rank_lower R Rleb Rleb_trans) with (l := zs2); auto; [|rewrite len_zs2; exact Hi].
  unfold zs2. rewrite map2_as_combine. unfold cnt. rewrite len_filter_map.
  etransitivity; [apply (len_filter_le _ (fun p => ltb Rleb (fst p) (nth j0 XL 0) || ltb Rleb (snd p) (nth k0 YL 0)))|].
  - intros [a b] Hin Hlt. cbn [fst snd] in *. apply Rltb_ltb in Hlt.
    destruct (ltb Rleb a (nth j0 XL 0)) eqn:Ea; [reflexivity|]. destruct (ltb Rleb b (nth k0 YL 0)) eqn:Eb; [reflexivity|]. exfalso.
    assert (A : nth j0 XL 0 <= a). { destruct (Rle_dec (nth j0 XL 0) a); [assumption|]. assert (a < nth j0 XL 0) by lra. apply Rltb_ltb in H. congruence. }
    assert (B : nth k0 YL 0 <= b). { destruct (Rle_dec (nth k0 YL 0) b); [assumption|]. assert (b < nth k0 YL 0) by lra. apply Rltb_ltb in H. congruence. }
    pose proof (op_mono _ _ _ _ (DXL j0 ltac:(lia)) (DYL k0 ltac:(lia)) A B). lra.
  - etransitivity; [apply len_filter_or|].
    pose proof (cnt_combine_fst (fun a => ltb Rleb a (nth j0 XL 0)) u v) as C1.
    pose proof (cnt_combine_snd (fun b => ltb Rleb b (nth k0 YL 0)) u v) as C2.
    pose proof (bounds_cnt_lo XL XR u j0 (nth j0 XL 0) Bu ltac:(lia) ltac:(lra)) as C3.
    pose proof (bounds_cnt_lo YL YR v k0 (nth k0 YL 0) Bv ltac:(lia) ltac:(lra)) as C4.
    unfold cnt in *. lia.
Qed.

Theorem compose_right_pair j0 k0 i : (j0 + k0 = n - 1 + i)%nat -> (j0 < n)%nat -> (k0 < n)%nat -> (i < n)%nat ->
  nth i s 0 <= op (nth j0 XR 0) (nth k0 YR 0).
Proof.
  intros Hjk Hj0 Hk0 Hi. apply Rleb_true.
  apply (rank_upper R Rleb Rleb_trans) with (l := zs2); auto; [rewrite len_zs2; exact Hi|].
  rewrite len_zs2. unfold zs2. rewrite map2_as_combine. unfold cnt. rewrite len_filter_map.
  etransitivity; [apply (len_filter_le _ (fun p => ltb Rleb (nth j0 XR 0) (fst p) || ltb Rleb (nth k0 YR 0) (snd p)))|].
  - intros [a b] Hin Hlt. cbn [fst snd] in *. apply Rltb_ltb in Hlt.
    destruct (ltb Rleb (nth j0 XR 0) a) eqn:Ea; [reflexivity|]. destruct (ltb Rleb (nth k0 YR 0) b) eqn:Eb; [reflexivity|]. exfalso.
    assert (A : a <= nth j0 XR 0). { destruct (Rle_dec a (nth j0 XR 0)); [assumption|]. assert (nth j0 XR 0 < a) by lra. apply Rltb_ltb in H. congruence. }
    assert (B : b <= nth k0 YR 0). { destruct (Rle_dec b (nth k0 YR 0)); [assumption|]. assert (nth k0 YR 0 < b) by lra. apply Rltb_ltb in H. congruence. }
    pose proof (op_mono _ _ _ _ (all_D_u a (in_combine_l _ _ _ _ Hin)) (all_D_v b (in_combine_r _ _ _ _ Hin)) A B). lra.
  - etransitivity; [apply len_filter_or|].
    pose proof (cnt_combine_fst (fun a => ltb Rleb (nth j0 XR 0) a) u v) as C1.
    pose proof (cnt_combine_snd (fun b => ltb Rleb (nth k0 YR 0) b) u v) as C2.
    pose proof (bounds_cnt_hi XL XR u j0 (nth j0 XR 0) Bu ltac:(lia) ltac:(lra)) as C3.
    pose proof (bounds_cnt_hi YL YR v k0 (nth k0 YR 0) Bv ltac:(lia) ltac:(lra)) as C4.
    rewrite lenXL in C3. rewrite lenYL in C4. unfold cnt in *. lia.
Qed.

Theorem compose_left_sound i : (i < n)%nat -> frechet_left RN op XL YL i <= nth i s 0.
Proof.
  intros Hi. unfold frechet_left. cbn [T RN]. apply maxl_le_all.
  - intros E. apply (f_equal (@length R)) in E. rewrite map2_length, rev_length, !firstn_length in E. cbn [T RN length] in E. rewrite lenXL, lenYL in E. lia.
  - intros w Hw. apply map2_In in Hw. destruct Hw as (j & a & b & Ha & Hb & ->).
    assert (Hj : (j < S i)%nat).
    { assert (j < length (firstn (S i) XL))%nat by (apply nth_error_Some; rewrite Ha; discriminate). rewrite firstn_length in H. lia. }
    apply (nth_error_nth _ _ 0) in Ha, Hb.
    rewrite nth_firstn_lt in Ha by lia.
    rewrite rev_nth in Hb by (rewrite firstn_length; lia).
    rewrite firstn_length, lenYL, Nat.min_l in Hb by lia. rewrite nth_firstn_lt in Hb by lia.
    subst a b. apply (compose_left_pair j (S i - S j) i); lia.
Qed.
Theorem compose_right_sound i : (i < n)%nat -> nth i s 0 <= frechet_right RN op XR YR i.
Proof.
  intros Hi. unfold frechet_right. cbn [T RN]. apply minl_ge_all.
  - intros E. apply (f_equal (@length R)) in E. rewrite map2_length, rev_length, !skipn_length in E. cbn [T RN length] in E. rewrite lenXR, lenYR in E. lia.
  - intros w Hw. apply map2_In in Hw. destruct Hw as (m & a & b & Ha & Hb & ->).
    assert (Hm : (m < n - i)%nat).
    { assert (m < length (skipn i XR))%nat by (apply nth_error_Some; rewrite Ha; discriminate). rewrite skipn_length in H. lia. }
    apply (nth_error_nth _ _ 0) in Ha, Hb.
    rewrite nth_skipn_add in Ha.
    rewrite rev_nth in Hb by (rewrite skipn_length; lia).
    rewrite skipn_length, lenYR, nth_skipn_add in Hb.
    subst a b. apply (compose_right_pair (i + m) (i + (n - i - S m)) i); lia.
Qed.
End Compose.

(* the theorem: the arrays returned by frechet_op bound the sample of outcomes *)
Theorem frechet_bounds (op : R -> R -> R) (D : R -> Prop) (XL XR YL YR u v : list R) :
  (forall a a', D a -> a <= a' -> D a') ->
  (forall a a' b b', D a -> D b -> a <= a' -> b <= b' -> op a b <= op a' b') ->
  length YL = length XL ->
  (forall j, (j < length XL)%nat -> D (nth j XL 0)) -> (forall j, (j < length XL)%nat -> D (nth j YL 0)) ->
  bounds XL XR u -> bounds YL YR v ->
  bounds (fst (frechet_op RN op XL XR YL YR)) (snd (frechet_op RN op XL XR YL YR)) (map2 op u v).
Proof.
  intros Dup Hmono lY DXL DYL Bu Bv. set (n := length XL) in *.
  assert (lXR : length XR = n) by (destruct Bu as (_ & H & _); exact H).
  assert (lYR : length YR = n) by (destruct Bv as (_ & H & _); rewrite H; exact lY).
  assert (Lz : length (map2 op u v) = n) by (eapply len_zs2 with (XL := XL) (XR := XR) (YL := YL) (YR := YR); eauto).
  unfold frechet_op; cbn [fst snd T RN]. fold n. unfold bounds.
  change (nsort RN) with Rsort. rewrite !Rsort_length, !map_length, !seq_length.
  split; [exact Lz|]. split; [reflexivity|].
  intros s Hs Hss i Hi.
  assert (Ls : length s = n) by (rewrite (Permutation_length Hs); exact Lz).
  rewrite <- (Rsort_id s Hss) at 1 2. split.
  - apply sort_pointwise_le; rewrite ?map_length, ?seq_length; auto.
    intros j Hj. rewrite nth_map_seq by exact Hj.
    eapply compose_left_sound with (D := D) (XR := XR) (YR := YR) (u := u) (v := v); eauto.
  - apply sort_pointwise_le; rewrite ?map_length, ?seq_length; auto; try lia.
    intros j Hj. rewrite Ls in Hj. rewrite nth_map_seq by exact Hj.
    eapply compose_right_sound with (D := D) (XL := XL) (YL := YL) (u := u) (v := v); eauto.
Qed.
