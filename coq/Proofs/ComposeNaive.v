(* C02, compositional soundness of the naive bound of the zero-straddling product route: the n smallest lower corners and the n largest
   upper corners of the n*n pairwise interval products bound the sample of products u_i * v_i for operands of ANY sign and any dependence. *)
From Coq Require Import Reals Lra List Arith Lia Bool Permutation Sorted.
From PUN Require Import Base.Num Base.Sort Model.Interval Model.Pbox
  Proofs.ListR Proofs.Hull Proofs.IntervalOps Proofs.Frechet Proofs.PboxWF Proofs.DepOps Proofs.Stacking Proofs.Compose.
Import ListNotations.
Open Scope R_scope.

(* ---------- small list facts ---------- *)
Lemma bounds_perm (L Rr u u' : list R) : Permutation u u' -> bounds L Rr u -> bounds L Rr u'.
Proof. intros P (Hu & Hr & H). split; [rewrite <- (Permutation_length P); exact Hu|]. split; [exact Hr|].
  intros s Hs Hss. apply H; auto. eapply Permutation_trans; [exact Hs|apply Permutation_sym; exact P]. Qed.
Lemma combine_fst_snd {A B} (l : list (A * B)) : combine (map fst l) (map snd l) = l.
Proof. induction l as [|[a b] l IH]; cbn; [reflexivity|]. f_equal. exact IH. Qed.
Lemma map_fst_combine' {A B} (l : list A) : forall l' : list B, length l = length l' -> map fst (combine l l') = l.
Proof. induction l as [|x l IH]; intros [|b l'] H; cbn in *; try lia; auto. f_equal. apply IH; lia. Qed.
Lemma map_snd_combine' {A B} (l : list A) : forall l' : list B, length l = length l' -> map snd (combine l l') = l'.
Proof. induction l as [|x l IH]; intros [|b l'] H; cbn in *; try lia; auto. f_equal. apply IH; lia. Qed.

(* the outcomes may be re-indexed so that the first sample is sorted *)
Lemma wlog_sorted (op : R -> R -> R) (u v : list R) : length u = length v ->
  exists u' v', Permutation (map2 op u v) (map2 op u' v') /\ Rsorted u' /\ Permutation u u' /\ Permutation v v' /\ length u' = length v'.
Proof.
  intros Hl. set (ps := psortR (combine u v)). exists (map fst ps), (map snd ps).
  pose proof (pair_sort_perm (combine u v)) as HP. fold ps in HP.
  split; [|split; [|split; [|split]]].
  - rewrite !map2_as_combine, combine_fst_snd. apply Permutation_map. exact HP.
  - apply psorted_fst. apply pair_sort_sorted.
  - rewrite <- (map_fst_combine' u v Hl) at 1. apply Permutation_map. exact HP.
  - rewrite <- (map_snd_combine' u v Hl) at 1. apply Permutation_map. exact HP.
  - rewrite !map_length. reflexivity.
Qed.

(* every value of a bounded sample lies in one of the steps *)
Lemma in_some_step (L Rr u : list R) a : bounds L Rr u -> In a u -> exists j, (j < length L)%nat /\ nth j L 0 <= a <= nth j Rr 0.
Proof.
  intros (Hu & Hr & H) Hin. apply (Permutation_in _ (Rsort_perm u)) in Hin. destruct (In_nth _ _ 0 Hin) as (j & Hj & <-).
  rewrite Rsort_length in Hj. exists j. split; [lia|]. apply (H (Rsort u)); [apply Permutation_sym, Rsort_perm|apply Rsort_sorted|lia].
Qed.
(* a sorted bounded sample lies in its own steps *)
Lemma sorted_in_own_step (L Rr u : list R) i : bounds L Rr u -> Rsorted u -> (i < length L)%nat -> nth i L 0 <= nth i u 0 <= nth i Rr 0.
Proof. intros (Hu & Hr & H) Hs Hi. apply (H u); auto. Qed.

(* ---------- counting over a grid of cells, one row per outcome ---------- *)
Lemma list_sum_le {A} (f g : A -> nat) (l : list A) : (forall a, In a l -> (f a <= g a)%nat) -> (list_sum (map f l) <= list_sum (map g l))%nat.
Proof. induction l as [|a l IH]; intros H; cbn [map list_sum fold_right]; [lia|].
  pose proof (H a (or_introl eq_refl)). specialize (IH ltac:(intros; apply H; right; assumption)). unfold list_sum in IH. lia. Qed.
Lemma len_filter_flat_map' {A B} (f : B -> bool) (g : A -> list B) (l : list A) :
  length (filter f (flat_map g l)) = list_sum (map (fun a => length (filter f (g a))) l).
Proof. induction l as [|a l IH]; cbn [flat_map map list_sum fold_right]; [reflexivity|]. rewrite filter_app, app_length, IH. reflexivity. Qed.
Lemma len_filter_map_sum {A} (f : A -> bool) (l : list A) : length (filter f l) = list_sum (map (fun a => if f a then 1%nat else 0%nat) l).
Proof. induction l as [|a l IH]; cbn [filter map list_sum fold_right]; [reflexivity|]. destruct (f a); cbn [length]; unfold list_sum in IH; lia. Qed.
Lemma filter_witness {A} (f : A -> bool) (l : list A) x : In x l -> f x = true -> (1 <= length (filter f l))%nat.
Proof. intros Hin Hf. assert (In x (filter f l)) by (apply filter_In; auto). destruct (filter f l); [contradiction|cbn; lia]. Qed.
Lemma grid_count n (z : nat -> R) (cell : nat -> nat -> R) (P : R -> bool) :
  (forall i, (i < n)%nat -> P (z i) = true -> exists j, (j < n)%nat /\ P (cell i j) = true) ->
  (length (filter P (map z (seq 0 n))) <= length (filter P (flat_map (fun i => map (cell i) (seq 0 n)) (seq 0 n))))%nat.
Proof.
  intros H. rewrite len_filter_flat_map', len_filter_map, len_filter_map_sum. apply list_sum_le.
  intros i Hi. apply in_seq in Hi. destruct (P (z i)) eqn:E; [|lia].
  destruct (H i ltac:(lia) E) as (j & Hj & Pj). apply (filter_witness P _ (cell i j)); [|exact Pj].
  apply in_map. apply in_seq. lia.
Qed.
Lemma grid_length n (cell : nat -> nat -> R) : length (flat_map (fun i => map (cell i) (seq 0 n)) (seq 0 n)) = (n * n)%nat.
Proof.
  assert (G : forall l : list nat, length (flat_map (fun j => map (cell j) (seq 0 n)) l) = (length l * n)%nat).
  { induction l as [|a l IH]; cbn [flat_map length]; [reflexivity|]. rewrite app_length, map_length, seq_length, IH. lia. }
  rewrite G, seq_length. reflexivity.
Qed.

Lemma combine_as_seq (A B : list R) n : length A = n -> length B = n -> combine A B = map (fun j => (nth j A 0, nth j B 0)) (seq 0 n).
Proof.
  intros HA HB. apply (nth_ext _ _ (0, 0) (0, 0)).
  - rewrite combine_length, map_length, seq_length. lia.
  - intros j Hj. rewrite combine_length in Hj. rewrite combine_nth by lia. rewrite nth_map_seq_gen by lia. reflexivity.
Qed.
Lemma map2_as_seq (op : R -> R -> R) (A B : list R) n : length A = n -> length B = n ->
  map2 op A B = map (fun i => op (nth i A 0) (nth i B 0)) (seq 0 n).
Proof. intros HA HB. rewrite map2_as_combine, (combine_as_seq A B n HA HB), map_map. reflexivity. Qed.
Lemma flat_map_map' {A B C} (g : B -> list C) (h : A -> B) l : flat_map g (map h l) = flat_map (fun x => g (h x)) l.
Proof. induction l as [|a l IH]; cbn [map flat_map]; [reflexivity|]. rewrite IH. reflexivity. Qed.
Lemma map_flat_map'' {A B C} (f : B -> C) (g : A -> list B) l : map f (flat_map g l) = flat_map (fun x => map f (g x)) l.
Proof. induction l as [|a l IH]; cbn [map flat_map]; [reflexivity|]. rewrite map_app, IH. reflexivity. Qed.

Section Naive.
Variables XL XR YL YR : list R.
Variable n : nat.
Hypothesis lXL : length XL = n. Hypothesis lXR : length XR = n.
Hypothesis lYL : length YL = n. Hypothesis lYR : length YR = n.
Definition low (i j : nat) : R := fst (istep Rmult (nth i XL 0, nth i XR 0) (nth j YL 0, nth j YR 0)).
Definition high (i j : nat) : R := snd (istep Rmult (nth i XL 0, nth i XR 0) (nth j YL 0, nth j YR 0)).
Definition lows : list R := map fst (all_pairs Rmult (combine XL XR) (combine YL YR)).
Definition highs : list R := map snd (all_pairs Rmult (combine XL XR) (combine YL YR)).
Lemma lows_grid : lows = flat_map (fun i => map (low i) (seq 0 n)) (seq 0 n).
Proof. unfold lows, all_pairs. rewrite (combine_as_seq XL XR n), (combine_as_seq YL YR n) by assumption.
  rewrite map_flat_map'', flat_map_map'. apply flat_map_ext. intros i. rewrite !map_map. reflexivity. Qed.
Lemma highs_grid : highs = flat_map (fun i => map (high i) (seq 0 n)) (seq 0 n).
Proof. unfold highs, all_pairs. rewrite (combine_as_seq XL XR n), (combine_as_seq YL YR n) by assumption.
  rewrite map_flat_map'', flat_map_map'. apply flat_map_ext. intros i. rewrite !map_map. reflexivity. Qed.
Lemma lows_length : length lows = (n * n)%nat. Proof. rewrite lows_grid. apply grid_length. Qed.
Lemma highs_length : length highs = (n * n)%nat. Proof. rewrite highs_grid. apply grid_length. Qed.

Lemma cell_encl i j x y : nth i XL 0 <= x <= nth i XR 0 -> nth j YL 0 <= y <= nth j YR 0 -> low i j <= x * y <= high i j.
Proof. intros Hx Hy. unfold low, high, istep, corner_hull. cbn [fst snd]. apply mul_corner_encl; assumption. Qed.

Theorem naive_bounds (u v : list R) : bounds XL XR u -> bounds YL YR v ->
  bounds (fst (naive_frechet_op RN Rmult XL XR YL YR)) (snd (naive_frechet_op RN Rmult XL XR YL YR)) (map2 Rmult u v).
Proof.
  intros Bu Bv.
  assert (Lu : length u = n) by (destruct Bu as (H & _); lia). assert (Lv : length v = n) by (destruct Bv as (H & _); lia).
  destruct (wlog_sorted Rmult u v ltac:(lia)) as (u' & v' & PZ & Su & Pu & Pv & L').
  apply (bounds_perm _ _ _ _ (Permutation_sym PZ)).
  pose proof (bounds_perm _ _ _ _ Pu Bu) as Bu'. pose proof (bounds_perm _ _ _ _ Pv Bv) as Bv'.
  assert (Lu' : length u' = n) by (rewrite <- (Permutation_length Pu); exact Lu).
  assert (Lv' : length v' = n) by lia.
  set (z := fun i => nth i u' 0 * nth i v' 0).
  rewrite (map2_as_seq Rmult u' v' n Lu' Lv'). fold z.
  unfold naive_frechet_op. cbn [T RN]. rewrite lXL. rewrite independent_op_spec by lia. fold lows highs. cbn [fst snd].
  assert (Hnn : (n <= n * n)%nat) by nia.
  assert (Lf : length (firstn n (Rsort lows)) = n) by (rewrite firstn_length, Rsort_length, lows_length; lia).
  assert (Ls : length (skipn (n * n - n) (Rsort highs)) = n) by (rewrite skipn_length, Rsort_length, highs_length; lia).
  cbn [T RN] in *. split; [rewrite map_length, seq_length; symmetry; exact Lf|]. split; [rewrite Ls; symmetry; exact Lf|].
  intros s Hs Hss k Hk. rewrite Lf in Hk.
  (* the cell of outcome i: its own step of X (u' is sorted), some step of Y *)
  assert (Hcell : forall i, (i < n)%nat -> exists j, (j < n)%nat /\ low i j <= z i <= high i j).
  { intros i Hi. destruct (in_some_step YL YR v' (nth i v' 0) Bv' ltac:(apply nth_In; lia)) as (j & Hj & Hy).
    exists j. split; [lia|]. apply cell_encl; [apply (sorted_in_own_step XL XR u' i Bu' Su); lia|exact Hy]. }
  split.
  - rewrite nth_firstn_lt by exact Hk. apply Rleb_true.
    apply (rank_lower R Rleb Rleb_trans) with (l := map z (seq 0 n)); auto; [|rewrite map_length, seq_length; exact Hk].
    set (t := nth k (Rsort lows) 0). unfold cnt.
    etransitivity; [apply (grid_count n z low (fun a => ltb Rleb a t))|].
    + intros i Hi Hlt. destruct (Hcell i Hi) as (j & Hj & Hz). exists j. split; [exact Hj|]. apply Rltb_ltb in Hlt. apply Rltb_ltb. lra.
    + rewrite <- lows_grid. change (length (filter (fun a => ltb Rleb a t) lows)) with (cnt (fun a => ltb Rleb a t) lows).
      rewrite (cnt_perm _ _ _ _ (Rsort_perm lows)). apply sorted_cnt_lt; [apply Rsort_sorted|rewrite Rsort_length, lows_length; lia].
  - rewrite nth_skipn_add. apply Rleb_true.
    apply (rank_upper R Rleb Rleb_trans) with (l := map z (seq 0 n)); auto; [rewrite map_length, seq_length; exact Hk|].
    rewrite map_length, seq_length. set (t := nth (n * n - n + k) (Rsort highs) 0). unfold cnt.
    etransitivity; [apply (grid_count n z high (fun a => ltb Rleb t a))|].
    + intros i Hi Hlt. destruct (Hcell i Hi) as (j & Hj & Hz). exists j. split; [exact Hj|]. apply Rltb_ltb in Hlt. apply Rltb_ltb. lra.
    + rewrite <- highs_grid. change (length (filter (fun a => ltb Rleb t a) highs)) with (cnt (fun a => ltb Rleb t a) highs).
      rewrite (cnt_perm _ _ _ _ (Rsort_perm highs)).
      pose proof (sorted_cnt_gt (Rsort highs) (Rsort_sorted highs) (n * n - n + k)%nat ltac:(rewrite Rsort_length, highs_length; lia)) as C.
      rewrite Rsort_length, highs_length in C. unfold t. cbn [T RN] in *. unfold cnt in *. nia.
Qed.
End Naive.
