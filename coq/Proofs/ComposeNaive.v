(* C02, compositional soundness of the naive bound of the zero-straddling product route: the n smallest lower corners and the n largest
   upper corners of the n*n pairwise interval products bound the sample of products u_i * v_i for operands of ANY sign and any dependence. *)
From Coq Require Import Reals Lra List Arith Lia Bool Permutation Sorted.
From PUN Require Import Base.Num Base.Sort Model.Interval Model.Pbox
  Proofs.ListR Proofs.Hull Proofs.IntervalOps Proofs.Frechet Proofs.PboxWF Proofs.DepOps Proofs.Stacking Proofs.Compose.
Import ListNotations.
Open Scope R_scope.

(* ---------- small list facts ---------- *)
Lemma bounds_perm (L Rr u u' : list R) : Permutation u u' -> bounds L Rr u -> bounds L Rr u'.
Proof. intros P (Hu & Hr & H). split; [rewrite <- (Permutation_length P); exact Hu|]. split; [exact Hr|].
  intros s Hs Hss. apply H; auto. eapply Permutation_trans; [exact Hs|apply Permutation_sym; exact P]. Qed.
Lemma combine_fst_snd {A B} (l : list (A * B)) : combine (map fst l) (map snd l) = l.
Proof. induction l as [|[a b] l IH]; cbn; [reflexivity|]. f_equal. exact IH. Qed.
Lemma map_fst_combine' {A B} (l : list A) : forall l' : list B, length l = length l' -> map fst (combine l l') = l.
Proof. induction l as [|x l IH]; intros [|b l'] H; cbn in *; try lia; auto. f_equal. apply IH; lia. Qed.
Lemma map_snd_combine' {A B} (l : list A) : forall l' : list B, length l = length l' -> map snd (combine l l') = l'.
Proof. induction l as [|x l IH]; intros [|b l'] H; cbn in *; try lia; auto. f_equal. apply IH; lia. Qed.

(* the outcomes may be re-indexed so that the first sample is sorted *)
Lemma wlog_sorted (op : R -> R -> R) (u v : list R) : length u = length v ->
  exists u' v', Permutation (map2 op u v) (map2 op u' v') /\ Rsorted u' /\ Permutation u u' /\ Permutation v v' /\ length u' = length v'.
Proof.
  intros Hl. set (ps := psortR (combine u v)). exists (map fst ps), (map snd ps).
  pose proof (pair_sort_perm (combine u v)) as HP. fold ps in HP.
  split; [|split; [|split; [|split]]].
  - rewrite !map2_as_combine, combine_fst_snd. apply Permutation_map. exact HP.
  - apply psorted_fst. apply pair_sort_sorted.
  - rewrite <- (map_fst_combine' u v Hl) at 1. apply Permutation_map. exact HP.
  - rewrite <- (map_snd_combine' u v Hl) at 1. apply Permutation_map. exact HP.
  - rewrite !map_length. reflexivity.
Qed.

(* every value of a bounded sample lies in one of the steps *)
Lemma in_some_step (L Rr u : list R) a : bounds L Rr u -> In a u -> exists j, (j < length L)%nat /\ nth j L 0 <= a <= nth j Rr 0.
Proof.
  intros (Hu & Hr & H) Hin. apply (Permutation_in _ (Rsort_perm u)) in Hin. destruct (In_nth _ _ 0 Hin) as (j & Hj & <-).
  rewrite Rsort_length in Hj. exists j. split; [lia|]. apply (H (Rsort u)); [apply Permutation_sym, Rsort_perm|apply Rsort_sorted|lia].
Qed.
(* a sorted bounded sample lies in its own steps *)
Lemma sorted_in_own_step (L Rr u : list R) i : bounds L Rr u -> Rsorted u -> (i < length L)%nat -> nth i L 0 <= nth i u 0 <= nth i Rr 0.
Proof. intros (Hu & Hr & H) Hs Hi. apply (H u); auto. Qed.

(* ---------- counting over a grid of cells, one row per outcome ---------- *)
Lemma list_sum_le {A} (f g : A -> nat) (l : list A) : (forall a, In a l -> (f a <= g a)%nat) -> (list_sum (map f l) <= list_sum (map g l))%nat.
Proof. induction l as [|a l IH]; intros H; cbn [map list_sum fold_right]; [lia|].
  pose proof (H a (or_introl eq_refl)). specialize (IH ltac:(intros; apply H; right; assumption)). unfold list_sum in IH. lia. Qed.
Lemma len_filter_flat_map' {A B} (f : B -> bool) (g : A -> list B) (l : list A) :
  length (filter f (flat_map g l)) = list_sum (map (fun a => length (filter f (g a))) l).
Proof. induction l as [|a l IH]; cbn [flat_map map list_sum fold_right]; [reflexivity|]. rewrite filter_app, app_length, IH. reflexivity. Qed.
Lemma len_filter_map_sum {A} (f : A -> bool) (l : list A) : length (filter f l) = list_sum (map (fun a => if f a then 1%nat else 0%nat) l).
Proof. induction l as [|a l IH]; cbn [filter map list_sum fold_right]; [reflexivity|]. destruct (f a); cbn [length]; unfold list_sum in IH; lia. Qed.
Lemma filter_witness {A} (f : A -> bool) (l : list A) x : In x l -> f x = true -> (1 <= length (filter f l))%nat.
Proof. intros Hin Hf. assert (In x (filter f l)) by (apply filter_In; auto). destruct (filter f l); [contradiction|cbn; lia]. Qed.
Lemma grid_count n (z : nat -> R) (cell : nat -> nat -> R) (P : R -> bool) :
  (forall i, (i < n)%nat -> P (z i) = true -> exists j, (j < n)%nat /\ P (cell i j) = true) ->
  (length (filter P (map z (seq 0 n))) <= length (filter P (flat_map (fun i => map (cell i) (seq 0 n)) (seq 0 n))))%nat.
Proof.
  intros H. rewrite len_filter_flat_map', len_filter_map, len_filter_map_sum. apply list_sum_le.
  intros i Hi. apply in_seq in Hi. destruct (P (z i)) eqn:E; [|lia].
  destruct (H i ltac:(lia) E) as (j & Hj & Pj). apply (filter_witness P _ (cell i j)); [|exact Pj].
  apply in_map. apply in_seq. lia.
Qed.
Lemma grid_length n (cell : nat -> nat -> R) : length (flat_map (fun i => map (cell i) (seq 0 n)) (seq 0 n)) = (n * n)%nat.
Proof.
  assert (G : forall l : list nat, length (flat_map (fun j => map (cell j) (seq 0 n)) l) = (length l * n)%nat).
  { induction l as [|a l IH]; cbn [flat_map length]; [reflexivity|]. rewrite app_length, map_length, seq_length, IH. lia. }
  rewrite G, seq_length. reflexivity.
Qed.
