(* C13: interval propagation strategies nest around the true range. *)
From Coq Require Import Reals Lra Lia Psatz List Bool ZArith Arith.
From PUN Require Import Base.Num Base.Sort Model.Interval Model.IntervalFun Model.Pbox Model.B2B
                        Proofs.Hull Proofs.ListR Proofs.PboxWF Proofs.Query Proofs.IntervalOps Proofs.IntervalFun.
Import ListNotations.
Open Scope R_scope.

Definition in_pr (x : R) (p : R * R) : Prop := fst p <= x <= snd p.
Definition in_box (xs : list R) (box : list (R * R)) : Prop := Forall2 in_pr xs box.
Definition sub_pr (p q : R * R) : Prop := fst q <= fst p /\ snd p <= snd q.     (* p inside q *)

Section S.
Variables (fexp : R -> R) (fpow : R -> nat -> R).
Hypothesis fexp_is : forall x, fexp x = exp x.
Hypothesis fpow_is : forall x k, fpow x k = x ^ k.
Notation evalR := (eval RN fexp fpow).
Notation ievalR := (ieval RN fexp fpow).

(* ---------- scalar operators: the C01 law ---------- *)
Lemma spec_scalar m op (s o : R * R) :
  spec m op (true, [s]) (true, [o]) =
  if is_div op && straddles0 RN o then Raise ZeroDivision else Ok (true, [corner_hull (opR op) s o]).
Proof. unfold spec. cbn [snd existsb]. rewrite orb_false_r. reflexivity. Qed.

Lemma iop_ok op (p q r : R * R) : wfp p -> wfp q -> iop RN op p q = Ok r ->
  r = corner_hull (opR op) p q /\ (is_div op = true -> ~ has0 q).
Proof.
  intros Wp Wq. unfold iop. rewrite ii_exact by (constructor; [assumption|constructor]). rewrite spec_scalar.
  destruct (is_div op) eqn:Ed; cbn [andb].
  - destruct (straddles0 RN q) eqn:Es; cbn [sc rbind]; [discriminate|]. cbn [snd]. intros E; inversion E; subst. split; auto.
    intros _ H0. apply straddles0_has0 in H0. congruence.
  - cbn [sc rbind snd]. intros E; inversion E; subst. split; auto. discriminate.
Qed.
Lemma iopn_ok op (p r : R * R) (c : R) : wfp p -> iopn RN op p c = Ok r ->
  r = corner_hull (opR op) p (c, c) /\ (is_div op = true -> c <> 0).
Proof.
  intros Wp. unfold iopn. rewrite in_exact by (constructor; [assumption|constructor]).
  change (embed (true, [c])) with ((true, [(c, c)]) : ival RN). rewrite spec_scalar.
  destruct (is_div op) eqn:Ed; cbn [andb].
  - destruct (straddles0 RN (c, c)) eqn:Es; cbn [sc rbind]; [discriminate|]. cbn [snd]. intros E; inversion E; subst. split; auto.
    intros _ ->. assert (has0 (0, 0)) by (unfold has0; cbn; lra). apply straddles0_has0 in H. congruence.
  - cbn [sc rbind snd]. intros E; inversion E; subst. split; auto. discriminate.
Qed.
Lemma inop_ok op (q r : R * R) (c : R) : wfp q -> inop RN op c q = Ok r ->
  r = corner_hull (opR op) (c, c) q /\ (is_div op = true -> ~ has0 q).
Proof.
  intros Wq. unfold inop. rewrite ni_exact by (constructor; [assumption|constructor]).
  change (embed (true, [c])) with ((true, [(c, c)]) : ival RN). rewrite spec_scalar.
  destruct (is_div op) eqn:Ed; cbn [andb].
  - destruct (straddles0 RN q) eqn:Es; cbn [sc rbind]; [discriminate|]. cbn [snd]. intros E; inversion E; subst. split; auto.
    intros _ H0. apply straddles0_has0 in H0. congruence.
  - cbn [sc rbind snd]. intros E; inversion E; subst. split; auto. discriminate.
Qed.

(* the value carried by an evaluation result *)
Definition holds (y : R) (v : ival_or_num RN) : Prop := match v with IV _ p => in_pr y p | NV _ c => y = c end.
Definition wfv (v : ival_or_num RN) : Prop := match v with IV _ p => wfp p | NV _ _ => True end.

Lemma bin_sound op u v w x y : wfv u -> wfv v -> holds x u -> holds y v -> bin RN op u v = Ok w ->
  wfv w /\ holds (opR op x y) w.
Proof.
  intros Wu Wv Hx Hy. destruct u as [p|c], v as [q|d]; cbn [bin wfv holds] in *.
  - destruct (iop RN op p q) as [r| |] eqn:E; cbn [rbind]; try discriminate. intros E2; inversion E2; subst.
    destruct (iop_ok op p q r Wu Wv E) as [-> Hz]. split; [apply corner_hull_wf|]. apply corner_hull_encl; auto.
  - destruct (iopn RN op p d) as [r| |] eqn:E; cbn [rbind]; try discriminate. intros E2; inversion E2; subst.
    destruct (iopn_ok op p r d Wu E) as [-> Hz]. split; [apply corner_hull_wf|]. apply corner_hull_encl; auto.
    + unfold wfp; cbn; lra. + intros Ed [H1 H2]; cbn in *. apply (Hz Ed). lra. + cbn; lra.
  - destruct (inop RN op c q) as [r| |] eqn:E; cbn [rbind]; try discriminate. intros E2; inversion E2; subst.
    destruct (inop_ok op q r c Wv E) as [-> Hz]. split; [apply corner_hull_wf|]. apply corner_hull_encl; auto.
    + unfold wfp; cbn; lra. + cbn; lra.
  - intros E; inversion E; subst. split; [exact I|]. destruct op; reflexivity.
Qed.

(* ---------- fundamental theorem of interval arithmetic for the grammar ---------- *)
Definition wf_box (box : list (R * R)) : Prop := Forall wfp box.
Lemma in_box_nth xs box i : in_box xs box -> wf_box box -> holds (nth i xs 0) (IV RN (nth i box (0, 0))) /\ wfp (nth i box (0, 0)).
Proof.
  intros H W. revert i W. induction H as [|x p xs box Hxp H IH]; intros i W.
  - destruct i; cbn [nth holds]; unfold in_pr, wfp; cbn [fst snd]; repeat split; lra.
  - inversion W; subst. destruct i as [|i]; cbn [nth holds]; [split; assumption|]. apply IH; assumption.
Qed.

Theorem ieval_sound e : forall xs box v, in_box xs box -> wf_box box -> ievalR e box = Ok v -> wfv v /\ holds (evalR e xs) v.
Proof.
  induction e as [i|c k|a IHa b IHb|a IHa b IHb|a IHa b IHb|a IHa b IHb|a IHa k|a IHa|a IHa]; intros xs box v Hb Wb E; cbn [ieval eval] in *.
  - inversion E; subst. destruct (in_box_nth xs box i Hb Wb) as [H1 H2]. split; [exact H2|exact H1].
  - inversion E; subst. split; [exact I|reflexivity].
  - destruct (ievalR a box) as [u| |] eqn:Ea; try discriminate. destruct (ievalR b box) as [w| |] eqn:Eb; try discriminate. cbn [rbind] in E.
    destruct (IHa xs box u Hb Wb Ea) as [W1 H1]. destruct (IHb xs box w Hb Wb Eb) as [W2 H2].
    apply (bin_sound Add u w v _ _ W1 W2 H1 H2 E).
  - destruct (ievalR a box) as [u| |] eqn:Ea; try discriminate. destruct (ievalR b box) as [w| |] eqn:Eb; try discriminate. cbn [rbind] in E.
    destruct (IHa xs box u Hb Wb Ea) as [W1 H1]. destruct (IHb xs box w Hb Wb Eb) as [W2 H2].
    apply (bin_sound Sub u w v _ _ W1 W2 H1 H2 E).
  - destruct (ievalR a box) as [u| |] eqn:Ea; try discriminate. destruct (ievalR b box) as [w| |] eqn:Eb; try discriminate. cbn [rbind] in E.
    destruct (IHa xs box u Hb Wb Ea) as [W1 H1]. destruct (IHb xs box w Hb Wb Eb) as [W2 H2].
    apply (bin_sound Mul u w v _ _ W1 W2 H1 H2 E).
  - destruct (ievalR a box) as [u| |] eqn:Ea; try discriminate. destruct (ievalR b box) as [w| |] eqn:Eb; try discriminate. cbn [rbind] in E.
    destruct (IHa xs box u Hb Wb Ea) as [W1 H1]. destruct (IHb xs box w Hb Wb Eb) as [W2 H2].
    apply (bin_sound Div u w v _ _ W1 W2 H1 H2 E).
  - destruct (ievalR a box) as [u| |] eqn:Ea; try discriminate. cbn [rbind] in E.
    destruct (IHa xs box u Hb Wb Ea) as [W1 H1]. destruct u as [p|c]; cbn [wfv holds] in *.
    + destruct p as [lo hi]. destruct (ipow_nonneg_encl fpow fpow_is lo hi k W1) as (a' & b' & Ep & Henc).
      cbv iota beta in E. match type of E with rbind ?t _ = _ => replace t with (@Ok (R * R) (a', b')) in E by (symmetry; exact Ep) end. cbn [rbind] in E. inversion E; subst. cbn [wfv holds]. rewrite fpow_is. split.
      * specialize (Henc lo ltac:(unfold wfp in W1; cbn in W1; lra)). unfold wfp; cbn; lra.
      * apply Henc. exact H1.
    + inversion E; subst. split; [exact I|reflexivity].
  - destruct (ievalR a box) as [u| |] eqn:Ea; try discriminate. cbn [rbind] in E.
    destruct (IHa xs box u Hb Wb Ea) as [W1 H1]. destruct u as [p|c]; cbn [wfv holds] in *.
    + destruct p as [lo hi]. destruct (iexp_exact fexp fexp_is lo hi W1) as [Ee Henc]. cbv iota beta in E. match type of E with rbind ?t _ = _ => replace t with (@Ok (R * R) (exp lo, exp hi)) in E by (symmetry; exact Ee) end. cbn [rbind] in E. inversion E; subst.
      cbn [wfv holds]. rewrite fexp_is. split; [|apply Henc; exact H1]. specialize (Henc lo ltac:(unfold wfp in W1; cbn in W1; lra)). unfold wfp; cbn; lra.
    + inversion E; subst. split; [exact I|reflexivity].
  - destruct (ievalR a box) as [u| |] eqn:Ea; try discriminate. cbn [rbind] in E.
    destruct (IHa xs box u Hb Wb Ea) as [W1 H1]. destruct u as [p|c]; cbn [wfv holds] in *.
    + destruct p as [lo hi]. cbv iota beta in E. unfold isqrt, mkI in E. cbn [fst snd nsqrt nleb RN T] in E.
      destruct (Rleb_spec (sqrt lo) (sqrt hi)) as [Hs|Hs]; cbn [rbind] in E; [|discriminate]. inversion E; subst. cbn [wfv holds].
      split; [exact Hs|]. unfold in_pr in *; cbn [fst snd] in *. cbn [nsqrt RN]. split; apply sqrt_le_1_alt; lra.
    + inversion E; subst. split; [exact I|reflexivity].
Qed.

Theorem direct_encloses e xs box r : in_box xs box -> wf_box box -> direct RN fexp fpow e box = Ok r -> in_pr (evalR e xs) r.
Proof.
  intros Hb Wb. unfold direct. destruct (ievalR e box) as [v| |] eqn:E; cbn [rbind]; try discriminate. intros E2; inversion E2; subst.
  destruct (ieval_sound e xs box v Hb Wb E) as [_ H]. destruct v as [p|c]; cbn [as_pr holds] in *; [exact H|]. unfold in_pr; cbn; lra.
Qed.

(* ---------- tiling ---------- *)
Lemma consecutive_cover (l : list R) (x : R) : forall a b r, l = a :: b :: r -> a <= x <= last l 0 ->
  exists u v, In (u, v) (combine (removelast l) (tl l)) /\ u <= x <= v.
Proof.
  induction l as [|a0 l IH]; intros a b r E Hx; [discriminate|]. inversion E; subst. clear E.
  destruct (Rle_dec x b) as [Hxb|Hxb].
  - exists a, b. split; [cbn; destruct r; left; reflexivity | lra].
  - destruct r as [|c r].
    + cbn in Hx. lra.
    + destruct (IH b c r eq_refl) as (u & v & Hin & Huv).
      { change (last (a :: b :: c :: r) 0) with (last (b :: c :: r) 0) in Hx. lra. }
      exists u, v. split; [|exact Huv]. change (removelast (a :: b :: c :: r)) with (a :: removelast (b :: c :: r)).
      cbn [tl combine]. right. exact Hin.
Qed.
Lemma linspace_first (a b : R) n : (1 <= n)%nat -> nth 0 (linspace RN a b (S n)) 0 = a.
Proof. intros Hn. destruct n as [|n]; [lia|]. unfold linspace. cbn [seq map nth Nat.eqb Nat.sub]. cbn [nadd nmul nofZ RN T Z.of_nat]. lra. Qed.
Lemma linspace_last (a b : R) n : (1 <= n)%nat -> last (linspace RN a b (S n)) 0 = b.
Proof.
  intros Hn. destruct n as [|n]; [lia|]. unfold linspace.
  rewrite last_as_nth, map_length, seq_length.
  rewrite nth_map_seq_gen by lia. replace (S (S n) - 1)%nat with (S n) by lia. rewrite Nat.eqb_refl. reflexivity.
Qed.
Lemma cover_list (l : list R) x : (2 <= length l)%nat -> nth 0 l 0 <= x <= last l 0 ->
  exists t, In t (combine (removelast l) (tl l)) /\ in_pr x t.
Proof.
  intros Hl Hx. destruct l as [|a [|b r]]; cbn [length] in Hl; try lia. cbn [nth] in Hx.
  destruct (consecutive_cover (a :: b :: r) x a b r eq_refl Hx) as (u & v & Hin & Huv). exists (u, v). split; assumption.
Qed.
Theorem tiles1_cover (p : R * R) n x : (1 <= n)%nat -> in_pr x p -> exists t, In t (tiles1 RN p n) /\ in_pr x t.
Proof.
  intros Hn [H1 H2]. unfold tiles1. cbv zeta. apply cover_list.
  - rewrite linspace_length. lia.
  - rewrite linspace_first, linspace_last by exact Hn. split; assumption.
Qed.
Lemma cartesian_nonempty {A} (ls : list (list A)) : Forall (fun l => l <> []) ls -> cartesian ls <> [].
Proof. induction 1 as [|l ls Hl H IH]; cbn [cartesian]; [discriminate|].
  destruct l as [|a l]; [congruence|]. destruct (cartesian ls) as [|c cs] eqn:Ec; [congruence|]. cbn. discriminate. Qed.
Lemma cartesian_in {A} (ls : list (list A)) (xs : list A) : Forall2 (fun x l => In x l) xs ls -> In xs (cartesian ls).
Proof. induction 1 as [|x l xs ls Hx H IH]; cbn [cartesian]; [left; reflexivity|]. apply in_flat_map. exists x. split; [exact Hx|]. apply in_map. exact IH. Qed.
Lemma in_cartesian {A} (ls : list (list A)) (xs : list A) : In xs (cartesian ls) -> Forall2 (fun x l => In x l) xs ls.
Proof. revert xs; induction ls as [|l ls IH]; intros xs H; cbn [cartesian] in H.
  - destruct H as [<-|[]]. constructor.
  - apply in_flat_map in H. destruct H as (a & Ha & H). apply in_map_iff in H. destruct H as (ys & <- & Hys). constructor; auto. Qed.
Theorem tiles_cover box n xs : (1 <= n)%nat -> in_box xs box -> exists tb, In tb (subintervalise RN box n) /\ in_box xs tb.
Proof.
  intros Hn H. induction H as [|x p xs box Hxp H IH].
  - exists []. split; [left; reflexivity|constructor].
  - destruct IH as (tb & Hin & Htb). destruct (tiles1_cover p n x Hn Hxp) as (t & Ht & Hxt).
    exists (t :: tb). split; [|constructor; assumption]. unfold subintervalise in *. cbn [map cartesian].
    apply in_flat_map. exists t. split; [exact Ht|]. apply in_map. exact Hin.
Qed.

(* ---------- reconstitution ---------- *)
Lemma sequence_ok {A} (l : list (res A)) (rs : list A) : sequence l = Ok rs -> Forall2 (fun r a => r = Ok a) l rs.
Proof. revert rs; induction l as [|r l IH]; intros rs E; cbn [sequence] in E.
  - inversion E; constructor.
  - destruct r as [a| |]; cbn [rbind] in E; try discriminate. destruct (sequence l) as [b| |] eqn:Es; cbn [rbind] in E; try discriminate.
    inversion E; subst. constructor; auto. Qed.
Lemma reconstitute_contains (l : list (R * R)) (r t : R * R) : reconstitute RN l = Ok r -> In t l -> sub_pr t r.
Proof.
  unfold reconstitute, mkI. cbn [nleb RN T]. destruct (Rleb _ _); intros E Hin; inversion E; subst. unfold sub_pr; cbn [fst snd].
  split; [apply minl_le | apply maxl_ge]; apply in_map; exact Hin.
Qed.

(* subinterval reconstitution with direct evaluation encloses the true range *)
Theorem sub_direct_encloses e xs box n r : (1 <= n)%nat -> in_box xs box ->
  (forall tb, In tb (subintervalise RN box n) -> wf_box tb) ->
  sub_direct RN fexp fpow e box n = Ok r -> in_pr (evalR e xs) r.
Proof.
  intros Hn Hb Wt. unfold sub_direct. destruct (sequence _) as [rs| |] eqn:Es; cbn [rbind]; try discriminate. intros Er.
  destruct (tiles_cover box n xs Hn Hb) as (tb & Hin & Htb).
  pose proof (sequence_ok _ _ Es) as F.
  assert (exists rt, In rt rs /\ direct RN fexp fpow e tb = Ok rt) as (rt & Hrt & Ed).
  { clear -F Hin. remember (subintervalise RN box n) as tl eqn:Et. clear Et. revert rs F. induction tl as [|t tl IH]; intros rs F; [destruct Hin|].
    cbn [map] in F. inversion F as [|? a ? rs' Ha F']; subst. destruct Hin as [->|Hin].
    - exists a. split; [left; reflexivity|exact Ha].
    - destruct (IH Hin rs' F') as (rt & H1 & H2). exists rt. split; [right; exact H1|exact H2]. }
  pose proof (direct_encloses e xs tb rt Htb (Wt tb Hin) Ed) as [E1 E2].
  destruct (reconstitute_contains rs r rt Er Hrt) as [S1 S2]. unfold in_pr. lra.
Qed.

(* ---------- vertex method ---------- *)
Lemma corners_in_box box : wf_box box -> forall c, In c (corners RN box) -> in_box c box.
Proof.
  intros W c Hc. unfold corners in Hc. apply in_cartesian in Hc. rewrite Forall2_map_r in Hc || idtac.
  revert c Hc. induction W as [|p box Wp W IH]; intros c Hc; cbn [map] in Hc; inversion Hc; subst; constructor.
  - match goal with H : In _ [fst p; snd p] |- _ => destruct H as [<-|[<-|[]]] end; unfold in_pr, wfp in *; lra.
  - apply IH. assumption.
Qed.
(* the vertex result is attained at points of the box, hence lies inside the true range *)
Theorem endpoints_inside_range e box r : wf_box box -> endpoints RN fexp fpow e box = Ok r ->
  (exists c, in_box c box /\ evalR e c = fst r) /\ (exists c, in_box c box /\ evalR e c = snd r).
Proof.
  intros W. unfold endpoints, mkI. cbn [nleb RN T]. destruct (Rleb _ _); intros E; inversion E; subst. cbn [fst snd].
  assert (Hne : map (evalR e) (corners RN box) <> []).
  { intro E0. apply map_eq_nil in E0. revert E0. apply cartesian_nonempty. apply Forall_forall. intros l Hl.
    apply in_map_iff in Hl. destruct Hl as (p & <- & _). discriminate. }
  split.
  - pose proof (minl_in _ Hne) as Hin. apply in_map_iff in Hin. destruct Hin as (c & Hc & Hin). exists c. split; [apply corners_in_box; assumption|exact Hc].
  - pose proof (maxl_in _ Hne) as Hin. apply in_map_iff in Hin. destruct Hin as (c & Hc & Hin). exists c. split; [apply corners_in_box; assumption|exact Hc].
Qed.
(* the vertex result is exactly the min / max over the 2^d corners *)
Theorem endpoints_is_corner_minmax e box r : endpoints RN fexp fpow e box = Ok r ->
  (forall c, In c (corners RN box) -> fst r <= evalR e c <= snd r).
Proof.
  unfold endpoints, mkI. cbn [nleb RN T]. destruct (Rleb _ _); intros E; inversion E; subst. cbn [fst snd].
  intros c Hc. split; [apply minl_le | apply maxl_ge]; apply in_map; exact Hc.
Qed.
(* ---------- subinterval reconstitution with vertices: between the vertex result and the true range ---------- *)
Lemma last_tile (r : list R) : forall a b, exists u, In (u, last (a :: b :: r) 0) (combine (removelast (a :: b :: r)) (tl (a :: b :: r))).
Proof.
  induction r as [|c r IH]; intros a b.
  - exists a. cbn. left. reflexivity.
  - destruct (IH b c) as (u & Hu). exists u.
    change (last (a :: b :: c :: r) 0) with (last (b :: c :: r) 0).
    change (removelast (a :: b :: c :: r)) with (a :: removelast (b :: c :: r)). cbn [tl combine]. right. exact Hu.
Qed.
Lemma combine_consec_nonempty (l : list R) : (2 <= length l)%nat -> combine (removelast l) (tl l) <> [].
Proof. destruct l as [|a [|b l]]; cbn [length]; try lia. intros _. change (removelast (a :: b :: l)) with (a :: removelast (b :: l)). cbn [tl combine]. discriminate. Qed.
Lemma tiles1_ends (p : R * R) n : (1 <= n)%nat ->
  (exists t, In t (tiles1 RN p n) /\ fst t = fst p) /\ (exists t, In t (tiles1 RN p n) /\ snd t = snd p).
Proof.
  intros Hn. unfold tiles1. cbv zeta. cbn [T RN].
  pose proof (linspace_first (fst p) (snd p) n Hn) as Hf. pose proof (linspace_last (fst p) (snd p) n Hn) as Hl.
  pose proof (linspace_length (fst p) (snd p) (S n)) as Hlen.
  destruct (linspace RN (fst p) (snd p) (S n)) as [|a [|b r]]; cbn [length] in Hlen; try lia.
  split.
  - exists (a, b). split; [change (removelast (a :: b :: r)) with (a :: removelast (b :: r)); cbn [tl combine In]; left; reflexivity | cbn [fst nth] in *; exact Hf].
  - destruct (last_tile r a b) as (u & Hu). exists (u, last (a :: b :: r) 0). split; [exact Hu | cbn [snd]; exact Hl].
Qed.
(* every corner of the box is a corner of one of the tiles *)
Lemma corner_in_some_tile box n c : (1 <= n)%nat -> In c (corners RN box) ->
  exists tb, In tb (subintervalise RN box n) /\ In c (corners RN tb).
Proof.
  intros Hn Hc. unfold corners in Hc. apply in_cartesian in Hc. revert c Hc.
  induction box as [|p box IH]; intros c Hc; cbn [map] in Hc; inversion Hc as [|x l xs ls Hx Hxs]; subst.
  - exists []. split; left; reflexivity.
  - destruct (IH xs Hxs) as (tb & Htb & Hct).
    destruct (tiles1_ends p n Hn) as ((t1 & Ht1 & E1) & (t2 & Ht2 & E2)).
    assert (exists t, In t (tiles1 RN p n) /\ In x [fst t; snd t]) as (t & Ht & Hxt).
    { destruct Hx as [<-|[<-|[]]]; [exists t1 | exists t2]; (split; [assumption|]); cbn; auto. }
    exists (t :: tb). split.
    + unfold subintervalise in *. cbn [map cartesian]. apply in_flat_map. exists t. split; [exact Ht|apply in_map; exact Htb].
    + unfold corners in *. cbn [map cartesian]. apply in_flat_map. exists x. split; [exact Hxt|apply in_map; exact Hct].
Qed.
Lemma sequence_pick {A B} (f : A -> res B) (tl : list A) (rs : list B) (t : A) :
  sequence (map f tl) = Ok rs -> In t tl -> exists rt, In rt rs /\ f t = Ok rt.
Proof.
  intros Es Hin. pose proof (sequence_ok _ _ Es) as F. clear Es. revert rs F.
  induction tl as [|t0 tl IH]; intros rs F; [destruct Hin|].
  cbn [map] in F. inversion F as [|? a ? rs' Ha F']; subst. destruct Hin as [->|Hin].
  - exists a. split; [left; reflexivity|exact Ha].
  - destruct (IH Hin rs' F') as (rt & H1 & H2). exists rt. split; [right; exact H1|exact H2].
Qed.
Lemma sequence_pick_rev {A B} (f : A -> res B) (tl : list A) (rs : list B) (rt : B) :
  sequence (map f tl) = Ok rs -> In rt rs -> exists t, In t tl /\ f t = Ok rt.
Proof.
  intros Es Hin. pose proof (sequence_ok _ _ Es) as F. clear Es. revert rs F Hin.
  induction tl as [|t0 tl IH]; intros rs F Hin; cbn [map] in F; inversion F as [|? a ? rs' Ha F']; subst; [destruct Hin|].
  destruct Hin as [->|Hin].
  - exists t0. split; [left; reflexivity|exact Ha].
  - destruct (IH rs' F' Hin) as (t & H1 & H2). exists t. split; [right; exact H1|exact H2].
Qed.
(* (a) it contains the plain vertex result *)
Theorem sub_endpoints_contains_endpoints e box n r r0 : (1 <= n)%nat ->
  sub_endpoints RN fexp fpow e box n = Ok r -> endpoints RN fexp fpow e box = Ok r0 -> sub_pr r0 r.
Proof.
  intros Hn. unfold sub_endpoints. destruct (sequence _) as [rs| |] eqn:Es; cbn [rbind]; try discriminate. intros Er E0.
  assert (Hall : forall c, In c (corners RN box) -> fst r <= evalR e c <= snd r).
  { intros c Hc. destruct (corner_in_some_tile box n c Hn Hc) as (tb & Htb & Hct).
    destruct (sequence_pick _ _ _ tb Es Htb) as (rt & Hrt & Et).
    pose proof (endpoints_is_corner_minmax e tb rt Et c Hct) as Hv.
    destruct (reconstitute_contains rs r rt Er Hrt) as [S1 S2]. cbn [T RN] in *. lra. }
  revert E0. unfold endpoints, mkI. cbn [nleb RN T]. destruct (Rleb _ _); intros E0; inversion E0; subst. unfold sub_pr. cbn [fst snd].
  assert (Hne : map (evalR e) (corners RN box) <> []).
  { intro E1. apply map_eq_nil in E1. revert E1. apply cartesian_nonempty. apply Forall_forall. intros l Hl.
    apply in_map_iff in Hl. destruct Hl as (p & <- & _). discriminate. }
  pose proof (minl_in _ Hne) as H1. pose proof (maxl_in _ Hne) as H2.
  apply in_map_iff in H1. destruct H1 as (c1 & E1 & Hc1). apply in_map_iff in H2. destruct H2 as (c2 & E2 & Hc2).
  pose proof (Hall c1 Hc1) as A1. pose proof (Hall c2 Hc2) as A2. rewrite E1 in A1. rewrite E2 in A2.
  split; [exact (proj1 A1) | exact (proj2 A2)].
Qed.
(* (b) both of its ends are values of the function at points of the box: it lies inside the true range *)
Theorem sub_endpoints_inside_range e box n r : (1 <= n)%nat -> wf_box box ->
  (forall tb, In tb (subintervalise RN box n) -> wf_box tb /\ Forall2 sub_pr tb box) ->
  sub_endpoints RN fexp fpow e box n = Ok r ->
  (exists c, in_box c box /\ evalR e c = fst r) /\ (exists c, in_box c box /\ evalR e c = snd r).
Proof.
  intros Hn W Wt. unfold sub_endpoints. destruct (sequence _) as [rs| |] eqn:Es; cbn [rbind]; try discriminate.
  unfold reconstitute, mkI. cbn [nleb RN T]. destruct (Rleb _ _); intros E; inversion E; subst. cbn [fst snd].
  assert (Hne : rs <> []).
  { intro E0. subst rs. pose proof (sequence_ok _ _ Es) as F. inversion F as [E1|]. symmetry in E1. apply map_eq_nil in E1.
    revert E1. apply cartesian_nonempty. apply Forall_forall. intros l Hl. apply in_map_iff in Hl. destruct Hl as (p & <- & _).
    unfold tiles1. cbv zeta. apply combine_consec_nonempty. rewrite linspace_length. lia. }
  assert (Hin_box : forall tb c, In tb (subintervalise RN box n) -> in_box c tb -> in_box c box).
  { intros tb c Htb Hc. destruct (Wt tb Htb) as (_ & Hs). clear -Hs Hc. revert c Hc.
    induction Hs as [|t p tb box Htp Hs IH]; intros c Hc; inversion Hc; subst; constructor.
    - unfold in_pr, sub_pr in *. lra.
    - apply IH. assumption. }
  split.
  - assert (Hm : map fst rs <> []) by (intro E0; apply map_eq_nil in E0; contradiction).
    pose proof (minl_in _ Hm) as H1. apply in_map_iff in H1. destruct H1 as (rt & E1 & Hrt).
    destruct (sequence_pick_rev _ _ _ rt Es Hrt) as (tb & Htb & Et).
    destruct (endpoints_inside_range e tb rt (proj1 (Wt tb Htb)) Et) as ((c & Hc & Ec) & _).
    exists c. split; [apply (Hin_box tb); assumption | rewrite Ec; exact E1].
  - assert (Hm : map snd rs <> []) by (intro E0; apply map_eq_nil in E0; contradiction).
    pose proof (maxl_in _ Hm) as H1. apply in_map_iff in H1. destruct H1 as (rt & E1 & Hrt).
    destruct (sequence_pick_rev _ _ _ rt Es Hrt) as (tb & Htb & Et).
    destruct (endpoints_inside_range e tb rt (proj1 (Wt tb Htb)) Et) as (_ & (c & Hc & Ec)).
    exists c. split; [apply (Hin_box tb); assumption | rewrite Ec; exact E1].
Qed.
End S.
