(* C17: Kolmogorov-Smirnov confidence bands. *)
From Coq Require Import Reals Lra Lia List Bool.
From Interval Require Import Tactic.
From PUN Require Import Base.Num Base.Sort Model.Interval Model.Pbox Model.KS Gen.GenKS Proofs.ListR Proofs.Stacking.
Import ListNotations.
Open Scope R_scope.

Lemma clip_R a : clip RN a = Rmin (Rmax a 0) 1.
Proof. unfold clip, nzero, none. cbn [nltb nofZ RN T]. unfold Rmin, Rmax.
  destruct (Rltb_spec a 0) as [H|H];
    match goal with |- context [Rltb ?x 1] => destruct (Rltb_spec x 1) end; repeat destruct (Rle_dec _ _); lra. Qed.
Lemma clip_unit a : 0 <= clip RN a <= 1.
Proof. rewrite clip_R. unfold Rmin, Rmax. repeat destruct (Rle_dec _ _); lra. Qed.
Lemma clip_mono a b : a <= b -> clip RN a <= clip RN b.
Proof. intros H. rewrite !clip_R. unfold Rmin, Rmax. repeat destruct (Rle_dec _ _); lra. Qed.
Lemma clip_id a : 0 <= a <= 1 -> clip RN a = a.
Proof. intros H. rewrite clip_R. unfold Rmin, Rmax. repeat destruct (Rle_dec _ _); lra. Qed.

(* shifted and clipped copies of a non-decreasing probability list stay non-decreasing, inside [0,1], and enclose it *)
Theorem band_props (p : list R) (D : R) : Rsorted p -> (forall x, In x p -> 0 <= x <= 1) -> 0 <= D ->
  let up := map (fun x => clip RN (x + D)) p in let dn := map (fun x => clip RN (x - D)) p in
  Rsorted up /\ Rsorted dn /\ (forall x, In x up \/ In x dn -> 0 <= x <= 1) /\
  (forall i, (i < length p)%nat -> nth i dn 0 <= nth i p 0 <= nth i up 0) /\
  (* exactly D above / below wherever no clipping occurs *)
  (forall i, (i < length p)%nat -> nth i p 0 + D <= 1 -> nth i up 0 - nth i p 0 = D) /\
  (forall i, (i < length p)%nat -> 0 <= nth i p 0 - D -> nth i p 0 - nth i dn 0 = D).
Proof.
  intros Hs Hu HD. cbv zeta.
  assert (N1 : forall i, (i < length p)%nat -> nth i (map (fun x => clip RN (x + D)) p) 0 = clip RN (nth i p 0 + D)).
  { intros i Hi. rewrite (nth_indep _ 0 ((fun x => clip RN (x + D)) 0)) by (rewrite map_length; exact Hi). apply (map_nth (fun x => clip RN (x + D))). }
  assert (N2 : forall i, (i < length p)%nat -> nth i (map (fun x => clip RN (x - D)) p) 0 = clip RN (nth i p 0 - D)).
  { intros i Hi. rewrite (nth_indep _ 0 ((fun x => clip RN (x - D)) 0)) by (rewrite map_length; exact Hi). apply (map_nth (fun x => clip RN (x - D))). }
  repeat split.
  - apply nth_Rsorted. intros i j Hij. rewrite map_length in Hij. rewrite !N1 by lia. apply clip_mono. pose proof (Rsorted_nth p Hs i j Hij). lra.
  - apply nth_Rsorted. intros i j Hij. rewrite map_length in Hij. rewrite !N2 by lia. apply clip_mono. pose proof (Rsorted_nth p Hs i j Hij). lra.
  - destruct H as [H|H]; apply in_map_iff in H; destruct H as (y & <- & _); apply clip_unit.
  - destruct H as [H|H]; apply in_map_iff in H; destruct H as (y & <- & _); apply clip_unit.
  - rewrite N2 by assumption. specialize (Hu (nth i p 0) (nth_In _ _ H)). rewrite <- (clip_id (nth i p 0)) at 2 by exact Hu. apply clip_mono. lra.
  - rewrite N1 by assumption. specialize (Hu (nth i p 0) (nth_In _ _ H)). rewrite <- (clip_id (nth i p 0)) at 1 by exact Hu. apply clip_mono. lra.
  - intros i Hi H1. rewrite N1 by assumption. specialize (Hu (nth i p 0) (nth_In _ _ Hi)). rewrite clip_id by lra. lra.
  - intros i Hi H1. rewrite N2 by assumption. specialize (Hu (nth i p 0) (nth_In _ _ Hi)). rewrite clip_id by lra. lra.
Qed.

(* interval data: the ecdf of any selection inside the intervals lies between the ecdfs of the upper and of the lower endpoints,
   so its band lies inside the band of the interval data (cumulated mass = n * ecdf) *)
Theorem interval_band_contains (lo sel hi w : list R) (t D : R) :
  length lo = length w -> length sel = length w -> length hi = length w -> Forall (fun m => 0 <= m) w ->
  Forall2 Rle lo sel -> Forall2 Rle sel hi ->
  clip RN (Mass (combine hi w) t - D) <= clip RN (Mass (combine sel w) t - D) /\
  clip RN (Mass (combine sel w) t + D) <= clip RN (Mass (combine lo w) t + D).
Proof.
  intros L1 L2 L3 Hw H1 H2. pose proof (Mass_dom lo sel w t L1 L2 Hw H1). pose proof (Mass_dom sel hi w t L2 L3 Hw H2).
  split; apply clip_mono; lra.
Qed.

(* ---------- the critical value: positive, decreasing in n, decreasing in alpha (translated constants) ---------- *)
Definition in_table (a A : R) : Prop := In (a, A) ks_table.
Theorem D_pos a A n : in_table a A -> 2 <= n <= 500 -> 0 < ks_D a A n.
Proof.
  intros Hin Hn. unfold in_table, ks_table in Hin. cbn [In] in Hin.
  destruct Hin as [E|[E|[E|[]]]]; inversion E; subst; unfold ks_D, ks_c; interval with (i_bisect n).
Qed.
Theorem D_decr_n a A n : in_table a A -> 2 <= n <= 500 -> ks_D a A (n + 1) < ks_D a A n.
Proof.
  intros Hin Hn. unfold in_table, ks_table in Hin. cbn [In] in Hin. apply Rminus_gt_0_lt.
  destruct Hin as [E|[E|[E|[]]]]; inversion E; subst; unfold ks_D, ks_c; interval with (i_bisect n, i_taylor n).
Qed.
(* D grows as alpha shrinks: compare consecutive table rows (rows are listed by decreasing alpha) *)
Theorem D_decr_alpha n : 2 <= n <= 500 ->
  match ks_table with
  | [(a1, A1); (a2, A2); (a3, A3)] => a3 < a2 < a1 /\ ks_D a1 A1 n < ks_D a2 A2 n /\ ks_D a2 A2 n < ks_D a3 A3 n
  | _ => False end.
Proof.
  intros Hn. unfold ks_table. split; [lra|]. split; apply Rminus_gt_0_lt; unfold ks_D, ks_c; interval with (i_bisect n).
Qed.
