(* The binary operations of Staircase translated from pba/pbox_abc.py (Gen/GenGlue.v, regenerated on every run) are the operations
   of Model/PboxArith.v that the theorems of C02, C03, C06, C07 and C12 are about.  (functional extensionality is used to transport the induction hypothesis under the local closures of the translated Fixpoint.) *)
From Coq Require Import List Bool ZArith FunctionalExtensionality.
From PUN Require Import Base.Num Model.Interval Model.Pbox Model.PboxArith Gen.GenGlue.

Section G.
Variable N : Num.
Variable steps : nat.
Variable p_lo p_hi : N.
Notation pb := (pbox N).

Theorem gen_add_is_model fuel (p q : pb) d : gen_add N steps p_lo p_hi fuel p q d = padd N steps p_lo p_hi d p q.
Proof. unfold gen_add, padd. destruct d; cbn [dep_op]; match goal with |- context [let '(a, b) := ?k in _] => destruct k end; reflexivity. Qed.
Theorem gen_sub_is_model fuel (p q : pb) d : gen_sub N steps p_lo p_hi fuel p q d = psub N steps p_lo p_hi d p q.
Proof.
  unfold gen_sub, psub. cbv zeta. destruct (pneg N steps p_lo p_hi q) as [nq| |]; cbn [rbind]; try reflexivity.
  rewrite gen_add_is_model. destruct d; reflexivity.
Qed.
(* the Frechet product and its helpers *)
Lemma gen_classic_is_model (p q : pb) op : gen_classic_frechet_pbox N steps p_lo p_hi p q op = m_classic_frechet_pbox N steps p_lo p_hi p q op.
Proof. reflexivity. Qed.
Lemma gen_naive_is_model (p q : pb) op : gen_vectorised_naive_frechet_pbox N steps p_lo p_hi p q op = m_vectorised_naive_frechet_pbox N steps p_lo p_hi p q op.
Proof. reflexivity. Qed.
Lemma gen_nagative_is_model (p q : pb) : gen_nagative_frechet_pbox N steps p_lo p_hi p q = m_nagative_frechet_pbox N steps p_lo p_hi p q.
Proof. reflexivity. Qed.
Theorem gen_frechet_pbox_mul_is_model fuel : forall p q : pb, gen_frechet_pbox_mul N steps p_lo p_hi fuel p q = m_frechet_pbox_mul N steps p_lo p_hi fuel p q.
Proof.
  induction fuel as [|fuel IH]; intros p q; [reflexivity|]. cbn [gen_frechet_pbox_mul m_frechet_pbox_mul].
  assert (E : gen_frechet_pbox_mul N steps p_lo p_hi fuel = m_frechet_pbox_mul N steps p_lo p_hi fuel).
  { apply FunctionalExtensionality.functional_extensionality; intro a. apply FunctionalExtensionality.functional_extensionality; intro b. apply IH. }
  rewrite E. reflexivity.
Qed.
Theorem gen_balchprod_is_model fuel (p q : pb) : gen_balchprod N steps p_lo p_hi fuel p q = m_balchprod N steps p_lo p_hi fuel p q.
Proof.
  assert (E : gen_frechet_pbox_mul N steps p_lo p_hi fuel = m_frechet_pbox_mul N steps p_lo p_hi fuel).
  { apply FunctionalExtensionality.functional_extensionality; intro a. apply FunctionalExtensionality.functional_extensionality; intro b. apply gen_frechet_pbox_mul_is_model. }
  unfold gen_balchprod, m_balchprod. rewrite E. reflexivity.
Qed.
Theorem frechet_mul_is_translated (p q : pb) : frechet_mul N steps p_lo p_hi p q = gen_frechet_pbox_mul N steps p_lo p_hi mul_fuel p q.
Proof. unfold frechet_mul. symmetry. apply gen_frechet_pbox_mul_is_model. Qed.
Theorem gen_mul_is_model (p q : pb) d : gen_mul N steps p_lo p_hi mul_fuel p q d = pmul N steps p_lo p_hi d p q.
Proof.
  unfold gen_mul, pmul. destruct d; cbn [dep_op].
  - unfold frechet_mul. apply gen_frechet_pbox_mul_is_model.
  - destruct (perfect_op _ _ _ _ _ _); reflexivity.
  - destruct (opposite_op _ _ _ _ _ _); reflexivity.
  - destruct (independent_op _ _ _ _ _ _); reflexivity.
Qed.
Theorem gen_div_is_model (p q : pb) d : gen_div N steps p_lo p_hi mul_fuel p q d = pdiv N steps p_lo p_hi d p q.
Proof.
  unfold gen_div, pdiv, one_over. cbv zeta. change (nofZ N 1%Z) with (@none N).
  destruct (prdiv N steps p_lo p_hi none q) as [rq| |]; cbn [rbind]; try reflexivity.
  rewrite gen_mul_is_model. destruct d; reflexivity.
Qed.
End G.

(* C16: the bare operators between two p-boxes, as translated (the ambient setting is the parameter `ambient`), are the explicit
   methods called with that dependency *)
Section Op.
Variable N : Num.
Variable steps : nat.
Variable p_lo p_hi : N.
Notation pb := (pbox N).
Theorem operators_read_ambient (p q : pb) (d : dep) :
  gen_operator_add N steps p_lo p_hi mul_fuel p q d = padd N steps p_lo p_hi d p q /\
  gen_operator_sub N steps p_lo p_hi mul_fuel p q d = psub N steps p_lo p_hi d p q /\
  gen_operator_mul N steps p_lo p_hi mul_fuel p q d = pmul N steps p_lo p_hi d p q /\
  gen_operator_div N steps p_lo p_hi mul_fuel p q d = pdiv N steps p_lo p_hi d p q.
Proof.
  unfold gen_operator_add, gen_operator_sub, gen_operator_mul, gen_operator_div.
  repeat split; [apply gen_add_is_model | apply gen_sub_is_model | apply gen_mul_is_model | apply gen_div_is_model].
Qed.
End Op.
