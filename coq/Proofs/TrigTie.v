(* The elementary functions translated from pba/intervals/methods.py on every run (Gen/GenTrig.v) are the definitions of
   Model/IntervalFun.v that the theorems of C05 are about: a change of a case condition, of a returned endpoint, of the
   reduction modulus or of the order of the masked assignments in the source changes the translation and breaks these proofs. *)
From Coq Require Import List Bool ZArith.
From PUN Require Import Base.Num Model.Interval Model.IntervalFun Gen.GenTrig.

Section T.
Variable N : Num.
Variable pi : N.
Variables fexp flog fsin fcos ftan : N -> N.
Variable fmod : N -> N -> N.
Notation pr := (N * N)%type.

Lemma if_same {A} (c : bool) (a : A) : (if c then a else a) = a.
Proof. destruct c; reflexivity. Qed.

Theorem gen_exp_is_model (x : pr) : gen_exp N fexp x = iexp N fexp x.
Proof. reflexivity. Qed.
Theorem gen_log_is_model (x : pr) : gen_log N flog x = ilog N flog x.
Proof. reflexivity. Qed.
Theorem gen_sqrt_is_model (x : pr) : gen_sqrt N x = isqrt N x.
Proof. reflexivity. Qed.
Theorem gen_sin_is_model (x : pr) : gen_sin N pi fsin fmod x = isin N pi fsin fmod x.
Proof. reflexivity. Qed.
Theorem gen_cos_is_model (x : pr) : gen_cos N pi fcos fmod x = icos N pi fcos fmod x.
Proof. reflexivity. Qed.
Theorem gen_tan_is_model (x : pr) : gen_tan N pi ftan fmod x = itan N pi ftan fmod x.
Proof. unfold gen_tan, itan; cbv zeta; rewrite if_same; reflexivity. Qed.

(* the masked forms: the model keeps the pair, the source two arrays; equal case by case *)
Theorem gen_sin_vector_is_model (x : pr) : gen_sin_vector N pi fsin fmod x = isin_v N pi fsin fmod x.
Proof.
  cbv beta zeta delta [gen_sin_vector isin_v twopi pihalf three two mone].
  repeat match goal with |- context [if ?c then _ else _] =>
    lazymatch c with context [if _ then _ else _] => fail | _ => destruct c end end; reflexivity.
Qed.
Theorem gen_cos_vector_is_model (x : pr) : gen_cos_vector N pi fcos fmod x = icos_v N pi fcos fmod x.
Proof.
  cbv beta zeta delta [gen_cos_vector icos_v twopi pihalf three two mone].
  repeat match goal with |- context [if ?c then _ else _] =>
    lazymatch c with context [if _ then _ else _] => fail | _ => destruct c end end; reflexivity.
Qed.
End T.

(* ---------- the enclosure theorems, stated of the functions translated from the source ---------- *)
From Coq Require Import Reals Lra.
From PUN Require Import Proofs.IntervalFun Proofs.Trig Proofs.TrigV.
Open Scope R_scope.
Section E.
Variables (fsin fcos ftan : R -> R) (fmod : R -> R -> R).
Hypothesis fsin_is : forall x, fsin x = sin x.
Hypothesis fcos_is : forall x, fcos x = cos x.
Hypothesis ftan_is : forall x, ftan x = tan x.
Hypothesis fmod_spec : forall x, exists k : Z, fmod x (2 * PI) = x - IZR k * (2 * PI) /\ 0 <= fmod x (2 * PI) < 2 * PI.
Hypothesis fmodpi_spec : forall x, exists k : Z, fmod x PI = x - IZR k * PI /\ 0 <= fmod x PI < PI.
Lemma gen_sin_encl lo hi a b x : lo <= hi -> gen_sin RN PI fsin fmod (lo, hi) = Ok (a, b) -> lo <= x <= hi -> a <= sin x <= b.
Proof. rewrite gen_sin_is_model. exact (isin_encl fsin fmod fsin_is fmod_spec lo hi a b x). Qed.
Lemma gen_cos_encl lo hi a b x : lo <= hi -> gen_cos RN PI fcos fmod (lo, hi) = Ok (a, b) -> lo <= x <= hi -> a <= cos x <= b.
Proof. rewrite gen_cos_is_model. exact (icos_encl fcos fmod fcos_is fmod_spec lo hi a b x). Qed.
Lemma gen_sin_vector_encl lo hi a b x : lo <= hi -> gen_sin_vector RN PI fsin fmod (lo, hi) = Ok (a, b) -> lo <= x <= hi -> a <= sin x <= b.
Proof. rewrite gen_sin_vector_is_model. exact (isin_v_encl fsin fmod fsin_is fmod_spec lo hi a b x). Qed.
Lemma gen_cos_vector_encl lo hi a b x : lo <= hi -> gen_cos_vector RN PI fcos fmod (lo, hi) = Ok (a, b) -> lo <= x <= hi -> a <= cos x <= b.
Proof. rewrite gen_cos_vector_is_model. exact (icos_v_encl fcos fmod fcos_is fmod_spec lo hi a b x). Qed.
Lemma gen_tan_encl lo hi a b x : lo <= hi -> cos lo <> 0 -> cos hi <> 0 ->
  gen_tan RN PI ftan fmod (lo, hi) = Ok (@Fin RN a, @Fin RN b) -> lo <= x <= hi -> cos x <> 0 /\ a <= tan x <= b.
Proof. rewrite gen_tan_is_model. exact (itan_encl ftan fmod ftan_is fmodpi_spec lo hi a b x). Qed.
End E.
