(* C02, tightness: every step of the Frechet bounds is attained by a coupling of the bounding distributions.
   For the left bound of step i: pair step j of X with step i - j of Y for j <= i (the anti-diagonal), identically above. *)
From Coq Require Import Reals Lra List Arith Lia Bool Permutation.
From PUN Require Import Base.Num Base.Sort Model.Interval Model.Pbox Proofs.ListR Proofs.PboxWF Proofs.Frechet.
Import ListNotations.
Open Scope R_scope.

Definition couple_left (i j : nat) : nat := if (j <=? i)%nat then (i - j)%nat else j.
Definition coupling_left (n i : nat) : list nat := map (couple_left i) (seq 0 n).
Lemma seq_rev_map i : map (fun j => (i - j)%nat) (seq 0 (S i)) = rev (seq 0 (S i)).
Proof.
  apply nth_ext with (d := 0%nat) (d' := 0%nat); [rewrite map_length, rev_length; reflexivity|].
  intros k Hk. rewrite map_length, seq_length in Hk. rewrite (nth_indep _ 0%nat ((fun j => (i - j)%nat) 0%nat)) by (rewrite map_length, seq_length; exact Hk).
  rewrite map_nth, seq_nth by exact Hk. rewrite rev_nth by (rewrite seq_length; exact Hk). rewrite seq_length, seq_nth by lia. lia.
Qed.
Lemma coupling_left_perm n i : (i < n)%nat -> Permutation (coupling_left n i) (seq 0 n).
Proof.
  intros Hi. unfold coupling_left. replace n with (S i + (n - S i))%nat at 1 2 by lia. rewrite seq_app, map_app.
  apply Permutation_app.
  - rewrite (map_ext_in _ (fun j => (i - j)%nat)) by (intros j Hj; apply in_seq in Hj; unfold couple_left; rewrite (proj2 (Nat.leb_le j i)) by lia; reflexivity).
    rewrite seq_rev_map. apply Permutation_sym, Permutation_rev.
  - rewrite (map_ext_in _ (fun j => j)) by (intros j Hj; apply in_seq in Hj; unfold couple_left; rewrite (proj2 (Nat.leb_gt j i)) by lia; reflexivity).
    rewrite map_id. apply Permutation_refl.
Qed.

Section Left.
Variable op : R -> R -> R.
Variable D : R -> Prop.
Hypothesis op_mono : forall a a' b b', D a -> D b -> a <= a' -> b <= b' -> op a b <= op a' b'.
Variable n : nat.
Variables XL XR YL YR : list R.
Hypothesis lenXL : length XL = n. Hypothesis lenXR : length XR = n.
Hypothesis lenYL : length YL = n. Hypothesis lenYR : length YR = n.
Hypothesis sXL : Rsorted XL. Hypothesis sYL : Rsorted YL.
Hypothesis XLR : ple XL XR. Hypothesis YLR : ple YL YR.
Hypothesis DXL : forall j, (j < n)%nat -> D (nth j XL 0).
Hypothesis DYL : forall j, (j < n)%nat -> D (nth j YL 0).

(* the outcomes of the bounding left distributions under the coupling of step i *)
Definition outcomes_left (i : nat) : list R := zs op n XL YL (coupling_left n i).

Lemma antidiag_member i j : (i < n)%nat -> (j <= i)%nat ->
  In (op (nth j XL 0) (nth (i - j) YL 0)) (map2 op (firstn (S i) XL) (rev (firstn (S i) YL))).
Proof.
  intros Hi Hj.
  assert (L1 : length (firstn (S i) XL) = S i) by (rewrite firstn_length; lia).
  assert (L2 : length (rev (firstn (S i) YL)) = S i) by (rewrite rev_length, firstn_length; lia).
  replace (op (nth j XL 0) (nth (i - j) YL 0)) with (nth j (map2 op (firstn (S i) XL) (rev (firstn (S i) YL))) 0).
  - apply nth_In. rewrite map2_length, L1, L2. lia.
  - rewrite (map2_nth op _ _ 0 0 0) by lia. rewrite nth_firstn_lt by lia. f_equal.
    rewrite rev_nth by (rewrite firstn_length; lia). rewrite firstn_length. rewrite nth_firstn_lt by lia. f_equal. lia.
Qed.

Theorem frechet_left_attained i : (i < n)%nat ->
  nth i (Rsort (outcomes_left i)) 0 = frechet_left RN op XL YL i.
Proof.
  intros Hi. set (s := Rsort (outcomes_left i)). set (L := frechet_left RN op XL YL i).
  assert (Ps : Permutation s (outcomes_left i)) by (apply Permutation_sym, Rsort_perm).
  assert (Ss : Rsorted s) by apply Rsort_sorted.
  apply Rle_antisym.
  - (* at most n-1-i outcomes exceed L: those paired on the anti-diagonal are members of the list whose maximum is L *)
    apply Rleb_true. apply (rank_upper R Rleb Rleb_trans) with (l := outcomes_left i); auto.
    + unfold outcomes_left, zs. rewrite map_length, seq_length. exact Hi.
    + unfold cnt, outcomes_left, zs. rewrite len_filter_map, map_length, seq_length.
      etransitivity; [apply (len_filter_le _ (fun j => (i <? j)%nat))|apply len_filter_gtb].
      intros j Hj Hgt. apply in_seq in Hj. apply Rltb_ltb in Hgt. apply Nat.ltb_lt.
      destruct (Nat.lt_ge_cases i j) as [|Hle]; [assumption|exfalso].
      assert (E : p (coupling_left n i) j = (i - j)%nat).
      { unfold p, coupling_left. rewrite (nth_indep _ 0%nat (couple_left i 0%nat)) by (rewrite map_length, seq_length; lia).
        rewrite map_nth, seq_nth by lia. cbn [Nat.add]. unfold couple_left. rewrite (proj2 (Nat.leb_le j i)) by lia. reflexivity. }
      rewrite E in Hgt. pose proof (maxl_ge _ _ (antidiag_member i j Hi Hle)) as M. unfold L, frechet_left in Hgt. cbn [T RN] in *. lra.
  - (* soundness: L bounds the i-th outcome of every coupling from below *)
    assert (Hx : forall j, (j < n)%nat -> nth j XL 0 <= nth j XL 0 <= nth j XR 0) by (intros j Hj; split; [lra|apply ple_nth; auto; lia]).
    assert (Hy : forall j, (j < n)%nat -> nth j YL 0 <= nth j YL 0 <= nth j YR 0) by (intros j Hj; split; [lra|apply ple_nth; auto; lia]).
    exact (frechet_left_sound op D op_mono n XL XR YL YR lenXL lenXR lenYL lenYR sXL sYL DXL DYL XL YL lenXL lenYL Hx Hy
             (coupling_left n i) (coupling_left_perm n i Hi) s Ps Ss i Hi).
Qed.
End Left.

(* ---------- the right bound: pair step j >= i of X with step n-1+i-j of Y, identically below ---------- *)
Definition couple_right (n i j : nat) : nat := if (i <=? j)%nat then (n - 1 + i - j)%nat else j.
Definition coupling_right (n i : nat) : list nat := map (couple_right n i) (seq 0 n).
Lemma seq_rev_map_from a len : map (fun j => (a + len - 1 + a - j)%nat) (seq a len) = rev (seq a len).
Proof.
  apply nth_ext with (d := 0%nat) (d' := 0%nat); [rewrite map_length, rev_length; reflexivity|].
  intros k Hk. rewrite map_length, seq_length in Hk. rewrite (nth_indep _ 0%nat ((fun j => (a + len - 1 + a - j)%nat) 0%nat)) by (rewrite map_length, seq_length; exact Hk).
  rewrite map_nth, seq_nth by exact Hk. rewrite rev_nth by (rewrite seq_length; exact Hk). rewrite seq_length, seq_nth by lia. lia.
Qed.
Lemma coupling_right_perm n i : (i < n)%nat -> Permutation (coupling_right n i) (seq 0 n).
Proof.
  intros Hi. unfold coupling_right. replace n with (i + (n - i))%nat at 2 3 by lia. rewrite seq_app, map_app. cbn [Nat.add].
  apply Permutation_app.
  - rewrite (map_ext_in _ (fun j => j)) by (intros j Hj; apply in_seq in Hj; unfold couple_right; rewrite (proj2 (Nat.leb_gt i j)) by lia; reflexivity).
    rewrite map_id. apply Permutation_refl.
  - rewrite (map_ext_in _ (fun j => (i + (n - i) - 1 + i - j)%nat)).
    + rewrite seq_rev_map_from. apply Permutation_sym, Permutation_rev.
    + intros j Hj. apply in_seq in Hj. unfold couple_right. rewrite (proj2 (Nat.leb_le i j)) by lia. lia.
Qed.

Section Right.
Variable op : R -> R -> R.
Variable D : R -> Prop.
Hypothesis D_up : forall a a', D a -> a <= a' -> D a'.
Hypothesis op_mono : forall a a' b b', D a -> D b -> a <= a' -> b <= b' -> op a b <= op a' b'.
Variable n : nat.
Variables XL XR YL YR : list R.
Hypothesis lenXL : length XL = n. Hypothesis lenXR : length XR = n.
Hypothesis lenYL : length YL = n. Hypothesis lenYR : length YR = n.
Hypothesis sXR : Rsorted XR. Hypothesis sYR : Rsorted YR.
Hypothesis XLR : ple XL XR. Hypothesis YLR : ple YL YR.
Hypothesis DXL : forall j, (j < n)%nat -> D (nth j XL 0).
Hypothesis DYL : forall j, (j < n)%nat -> D (nth j YL 0).

Definition outcomes_right (i : nat) : list R := zs op n XR YR (coupling_right n i).

Lemma diag_member i j : (i < n)%nat -> (i <= j < n)%nat ->
  In (op (nth j XR 0) (nth (n - 1 + i - j) YR 0)) (map2 op (skipn i XR) (rev (skipn i YR))).
Proof.
  intros Hi Hj.
  assert (L1 : length (skipn i XR) = (n - i)%nat) by (rewrite skipn_length; lia).
  assert (L2 : length (rev (skipn i YR)) = (n - i)%nat) by (rewrite rev_length, skipn_length; lia).
  replace (op (nth j XR 0) (nth (n - 1 + i - j) YR 0)) with (nth (j - i) (map2 op (skipn i XR) (rev (skipn i YR))) 0).
  - apply nth_In. rewrite map2_length, L1, L2. lia.
  - rewrite (map2_nth op _ _ 0 0 0) by lia. rewrite nth_skipn_add. f_equal; [f_equal; lia|].
    rewrite rev_nth by (rewrite skipn_length; lia). rewrite skipn_length, nth_skipn_add. f_equal. lia.
Qed.

Theorem frechet_right_attained i : (i < n)%nat ->
  nth i (Rsort (outcomes_right i)) 0 = frechet_right RN op XR YR i.
Proof.
  intros Hi. set (s := Rsort (outcomes_right i)). set (U := frechet_right RN op XR YR i).
  assert (Ps : Permutation s (outcomes_right i)) by (apply Permutation_sym, Rsort_perm).
  assert (Ss : Rsorted s) by apply Rsort_sorted.
  apply Rle_antisym.
  - (* soundness: U bounds the i-th outcome of every coupling from above *)
    assert (Hx : forall j, (j < n)%nat -> nth j XL 0 <= nth j XR 0 <= nth j XR 0) by (intros j Hj; split; [apply ple_nth; auto; lia|lra]).
    assert (Hy : forall j, (j < n)%nat -> nth j YL 0 <= nth j YR 0 <= nth j YR 0) by (intros j Hj; split; [apply ple_nth; auto; lia|lra]).
    exact (frechet_right_sound op D D_up op_mono n XL XR YL YR lenXL lenXR lenYL lenYR sXR sYR DXL DYL XR YR lenXR lenYR Hx Hy
             (coupling_right n i) (coupling_right_perm n i Hi) s Ps Ss i Hi).
  - (* at most i outcomes lie below U: those paired on the diagonal j + k = n-1+i are members of the list whose minimum is U *)
    apply Rleb_true. apply (rank_lower R Rleb Rleb_trans) with (l := outcomes_right i); auto.
    + unfold cnt, outcomes_right, zs. rewrite len_filter_map.
      etransitivity; [apply (len_filter_le _ (fun j => (j <? i)%nat))|apply len_filter_ltb].
      intros j Hj Hlt. apply in_seq in Hj. apply Rltb_ltb in Hlt. apply Nat.ltb_lt.
      destruct (Nat.lt_ge_cases j i) as [|Hle]; [assumption|exfalso].
      assert (E : p (coupling_right n i) j = (n - 1 + i - j)%nat).
      { unfold p, coupling_right. rewrite (nth_indep _ 0%nat (couple_right n i 0%nat)) by (rewrite map_length, seq_length; lia).
        rewrite map_nth, seq_nth by lia. cbn [Nat.add]. unfold couple_right. rewrite (proj2 (Nat.leb_le i j)) by lia. reflexivity. }
      rewrite E in Hlt. pose proof (minl_le _ _ (diag_member i j Hi ltac:(lia))) as M. unfold U, frechet_right in Hlt. cbn [T RN] in *. lra.
    + unfold outcomes_right, zs. rewrite map_length, seq_length. exact Hi.
Qed.
End Right.
