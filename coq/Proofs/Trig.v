(* C05: enclosure of sin and cos by the case tables of methods.py, for every interval (any width, any position).
   fmod is any function with Python's % contract for a positive modulus: x % m = x - k m with 0 <= x % m < m. *)
From Coq Require Import Reals Lra Lia ZArith Bool List.
From PUN Require Import Base.Num Model.Interval Model.IntervalFun Proofs.IntervalFun.
Open Scope R_scope.

Lemma sin_shiftZ x (k : Z) : sin (x + IZR k * (2 * PI)) = sin x.
Proof. destruct k as [|p|p].
  - simpl. f_equal. lra.
  - rewrite <- (sin_period x (Pos.to_nat p)). f_equal. rewrite INR_IZR_INZ, positive_nat_Z. lra.
  - rewrite <- (sin_period (x + IZR (Z.neg p) * (2 * PI)) (Pos.to_nat p)). f_equal.
    rewrite INR_IZR_INZ, positive_nat_Z. change (Z.neg p) with (- Z.pos p)%Z. rewrite opp_IZR. lra.
Qed.
Lemma cos_shiftZ x (k : Z) : cos (x + IZR k * (2 * PI)) = cos x.
Proof. destruct k as [|p|p].
  - simpl. f_equal. lra.
  - rewrite <- (cos_period x (Pos.to_nat p)). f_equal. rewrite INR_IZR_INZ, positive_nat_Z. lra.
  - rewrite <- (cos_period (x + IZR (Z.neg p) * (2 * PI)) (Pos.to_nat p)). f_equal.
    rewrite INR_IZR_INZ, positive_nat_Z. change (Z.neg p) with (- Z.pos p)%Z. rewrite opp_IZR. lra.
Qed.

(* monotone segments of sin, in the two periods the reduced arguments can reach *)
Lemma sin_inc0 u x v : - (PI / 2) <= u -> u <= x -> x <= v -> v <= PI / 2 -> sin u <= sin x <= sin v.
Proof. intros. split; apply sin_incr_1; lra. Qed.
Lemma sin_dec0 u x v : PI / 2 <= u -> u <= x -> x <= v -> v <= 3 * (PI / 2) -> sin v <= sin x <= sin u.
Proof. intros. split; apply sin_decr_1; lra. Qed.
Lemma sin_2pi x : sin (x - 2 * PI) = sin x.
Proof. replace (x - 2 * PI) with (x + IZR (-1) * (2 * PI)) by (simpl; lra). apply sin_shiftZ. Qed.
Lemma sin_inc1 u x v : 3 * (PI / 2) <= u -> u <= x -> x <= v -> v <= 5 * (PI / 2) -> sin u <= sin x <= sin v.
Proof. intros. rewrite <- (sin_2pi u), <- (sin_2pi x), <- (sin_2pi v). apply sin_inc0; lra. Qed.
Lemma sin_dec1 u x v : 5 * (PI / 2) <= u -> u <= x -> x <= v -> v <= 7 * (PI / 2) -> sin v <= sin x <= sin u.
Proof. intros. rewrite <- (sin_2pi u), <- (sin_2pi x), <- (sin_2pi v). apply sin_dec0; lra. Qed.
Lemma sin_pi2 : sin (PI / 2) = 1. Proof. apply sin_PI2. Qed.
Lemma sin_3pi2 : sin (3 * (PI / 2)) = -1.
Proof. replace (3 * (PI / 2)) with (PI / 2 + PI) by lra. rewrite neg_sin, sin_PI2. lra. Qed.
Lemma sin_5pi2 : sin (5 * (PI / 2)) = 1.
Proof. rewrite <- (sin_2pi (5 * (PI / 2))). replace (5 * (PI / 2) - 2 * PI) with (PI / 2) by lra. apply sin_PI2. Qed.

Section Sin.
Variables (fsin : R -> R) (fmod : R -> R -> R).
Hypothesis fsin_is : forall x, fsin x = sin x.
Hypothesis fmod_spec : forall x, exists k : Z, fmod x (2 * PI) = x - IZR k * (2 * PI) /\ 0 <= fmod x (2 * PI) < 2 * PI.

(* where a point of [lo, hi] lands after subtracting the period count of lo *)
Lemma reduce lo hi x : lo <= x <= hi -> hi - lo < 2 * PI ->
  let yl := fmod lo (2 * PI) in let yh := fmod hi (2 * PI) in
  exists x', sin x' = sin x /\ cos x' = cos x /\ ((yl <= yh /\ yl <= x' <= yh) \/ (yh < yl /\ yl <= x' <= yh + 2 * PI)).
Proof.
  intros Hx Hw. cbv zeta. destruct (fmod_spec lo) as (kl & El & Rl). destruct (fmod_spec hi) as (kh & Eh & Rh).
  assert (P := PI_RGT_0).
  exists (x - IZR kl * (2 * PI)). split; [|split].
  - replace (x - IZR kl * (2 * PI)) with (x + IZR (- kl) * (2 * PI)) by (rewrite opp_IZR; lra). apply sin_shiftZ.
  - replace (x - IZR kl * (2 * PI)) with (x + IZR (- kl) * (2 * PI)) by (rewrite opp_IZR; lra). apply cos_shiftZ.
  - rewrite El, Eh in *. 
    assert (Hk : (kh = kl \/ kh = kl + 1)%Z).
    { assert (A : IZR kh - IZR kl < 2) by nra. assert (B : -1 < IZR kh - IZR kl) by nra.
      rewrite <- minus_IZR in A, B. apply lt_IZR in A. apply lt_IZR in B. lia. }
    destruct Hk as [-> | ->].
    + left. split; lra.
    + right. rewrite plus_IZR. split; nra.
Qed.
End Sin.

Lemma mkI_inv u v a b : mkI RN u v = Ok (a, b) -> a = u /\ b = v /\ u <= v.
Proof. unfold mkI. cbn [nleb RN T]. destruct (Rleb u v) eqn:E; [|discriminate]. intros H; inversion H; subst. apply Rleb_true in E. auto. Qed.
Lemma nmin_le a b : @nmin RN a b <= a /\ @nmin RN a b <= b.
Proof. unfold nmin; cbn [nleb RN T]. destruct (Rleb a b) eqn:E; [apply Rleb_true in E|apply Rleb_false in E]; lra. Qed.
Lemma nmax_ge a b : a <= @nmax RN a b /\ b <= @nmax RN a b.
Proof. unfold nmax; cbn [nleb RN T]. destruct (Rleb a b) eqn:E; [apply Rleb_true in E|apply Rleb_false in E]; lra. Qed.

Ltac bprop := repeat match goal with
  | H : _ && _ = true |- _ => apply andb_true_iff in H; destruct H
  | H : _ || _ = true |- _ => apply orb_true_iff in H; destruct H
  | H : Rleb _ _ = true |- _ => apply Rleb_true in H
  | H : Rltb _ _ = true |- _ => apply Rltb_true in H
  end.

Section SinEncl.
Variables (fsin : R -> R) (fmod : R -> R -> R).
Hypothesis fsin_is : forall x, fsin x = sin x.
Hypothesis fmod_spec : forall x, exists k : Z, fmod x (2 * PI) = x - IZR k * (2 * PI) /\ 0 <= fmod x (2 * PI) < 2 * PI.

Theorem isin_encl lo hi a b x : lo <= hi -> isin RN PI fsin fmod (lo, hi) = Ok (a, b) -> lo <= x <= hi -> a <= sin x <= b.
Proof.
  intros Hlh E Hx. assert (P := PI_RGT_0). unfold isin in E.
  unfold twopi, pihalf, three, two, mone, none, nzero, within in E. cbn [fst snd nleb nltb nsub nmul ndiv nofZ RN T] in E.
  destruct (Rleb (2 * PI) (hi - lo)) eqn:W.
  { apply mkI_inv in E. destruct E as (-> & -> & _). pose proof (SIN_bound x). lra. }
  apply Rleb_false in W.
  destruct (reduce fmod fmod_spec lo hi x Hx W) as (x' & Es & _ & Hcase). rewrite <- Es. clear Es.
  rewrite !fsin_is in E.
  set (yl := fmod lo (2 * PI)) in *. set (yh := fmod hi (2 * PI)) in *.
  assert (Syh : sin yh = sin (yh + 2 * PI)) by (rewrite <- (sin_2pi (yh + 2 * PI)); f_equal; lra).
  pose proof (SIN_bound x') as SB.
  pose proof (nmin_le (sin yl) (sin yh)) as [Mn1 Mn2]. pose proof (nmax_ge (sin yl) (sin yh)) as [Mx1 Mx2].
  (* branch 1 *)
  match type of E with (if ?c then _ else _) = _ => destruct c eqn:C1 end.
  { apply mkI_inv in E. destruct E as (-> & -> & _). bprop. destruct Hcase as [[NW1 NW2]|[NW1 NW2]]; [apply sin_inc0; lra|lra]. }
  match type of E with (if ?c then _ else _) = _ => destruct c eqn:C2 end.
  { apply mkI_inv in E. destruct E as (-> & -> & _). bprop. destruct Hcase as [[NW1 NW2]|[NW1 NW2]]; [apply sin_dec0; lra|lra]. }
  match type of E with (if ?c then _ else _) = _ => destruct c eqn:C3 end.
  { apply mkI_inv in E. destruct E as (-> & -> & _). bprop. destruct Hcase as [[NW1 NW2]|[NW1 NW2]]; [apply sin_inc1; lra|lra]. }
  match type of E with (if ?c then _ else _) = _ => destruct c eqn:C4 end.
  { apply mkI_inv in E. destruct E as (-> & -> & _). lra. }
  match type of E with (if ?c then _ else _) = _ => destruct c eqn:C5 end.
  { apply mkI_inv in E. destruct E as (-> & -> & _). bprop.
    - destruct Hcase as [[NW1 NW2]|[NW1 NW2]]; [apply sin_inc0; lra|lra].
    - destruct Hcase as [[NW1 NW2]|[NW1 NW2]]; [lra|]. rewrite Syh. apply sin_inc1; lra.
    - destruct Hcase as [[NW1 NW2]|[NW1 NW2]]; [apply sin_inc1; lra|lra]. }
  match type of E with (if ?c then _ else _) = _ => destruct c eqn:C6 end.
  { apply mkI_inv in E. destruct E as (-> & -> & _). split; [|lra]. bprop.
    - (* yl in d1, yh in d2 *) destruct Hcase as [[NW1 NW2]|[NW1 NW2]]; [|lra].
      destruct (Rle_dec x' (PI / 2)); [pose proof (sin_inc0 yl x' (PI / 2)); lra | pose proof (sin_dec0 (PI / 2) x' yh); lra].
    - (* yl in d3, yh in d2 *) destruct Hcase as [[NW1 NW2]|[NW1 NW2]].
      + assert (Ex : x' = yl) by lra. rewrite Ex. lra.
      + destruct (Rle_dec x' (5 * (PI / 2))); [pose proof (sin_inc1 yl x' (5 * (PI / 2))); lra|].
        pose proof (sin_dec1 (5 * (PI / 2)) x' (yh + 2 * PI)). lra. }
  match type of E with (if ?c then _ else _) = _ => destruct c eqn:C7 end.
  { apply mkI_inv in E. destruct E as (-> & -> & _). split; [lra|]. bprop.
    - (* yl in d2, yh in d1 *) destruct Hcase as [[NW1 NW2]|[NW1 NW2]].
      + assert (Ex : x' = yl) by lra. rewrite Ex. lra.
      + destruct (Rle_dec x' (3 * (PI / 2))); [pose proof (sin_dec0 yl x' (3 * (PI / 2))); lra|].
        pose proof (sin_inc1 (3 * (PI / 2)) x' (yh + 2 * PI)). lra.
    - (* yl in d2, yh in d3 *) destruct Hcase as [[NW1 NW2]|[NW1 NW2]]; [|lra].
      destruct (Rle_dec x' (3 * (PI / 2))); [pose proof (sin_dec0 yl x' (3 * (PI / 2))); lra | pose proof (sin_inc1 (3 * (PI / 2)) x' yh); lra]. }
  (* the last branch repeats the condition of the second one *)
  cbv iota in E. discriminate.
Qed.
End SinEncl.

(* ---------- cos ---------- *)
Lemma cos_2pi x : cos (x - 2 * PI) = cos x.
Proof. replace (x - 2 * PI) with (x + IZR (-1) * (2 * PI)) by (simpl; lra). apply cos_shiftZ. Qed.
Lemma cos_dec0 u x v : 0 <= u -> u <= x -> x <= v -> v <= PI -> cos v <= cos x <= cos u.
Proof. intros. split; apply cos_decr_1; lra. Qed.
Lemma cos_inc0 u x v : PI <= u -> u <= x -> x <= v -> v <= 2 * PI -> cos u <= cos x <= cos v.
Proof. intros. split; apply cos_incr_1; lra. Qed.
Lemma cos_dec1 u x v : 2 * PI <= u -> u <= x -> x <= v -> v <= 3 * PI -> cos v <= cos x <= cos u.
Proof. intros. rewrite <- (cos_2pi u), <- (cos_2pi x), <- (cos_2pi v). apply cos_dec0; lra. Qed.

Section CosEncl.
Variables (fcos : R -> R) (fmod : R -> R -> R).
Hypothesis fcos_is : forall x, fcos x = cos x.
Hypothesis fmod_spec : forall x, exists k : Z, fmod x (2 * PI) = x - IZR k * (2 * PI) /\ 0 <= fmod x (2 * PI) < 2 * PI.

Theorem icos_encl lo hi a b x : lo <= hi -> icos RN PI fcos fmod (lo, hi) = Ok (a, b) -> lo <= x <= hi -> a <= cos x <= b.
Proof.
  intros Hlh E Hx. assert (P := PI_RGT_0). unfold icos in E.
  unfold twopi, two, mone, none, nzero, within in E. cbn [fst snd nleb nltb nsub nmul ndiv nofZ RN T] in E.
  destruct (Rleb (2 * PI) (hi - lo)) eqn:W.
  { apply mkI_inv in E. destruct E as (-> & -> & _). pose proof (COS_bound x). lra. }
  apply Rleb_false in W.
  destruct (reduce fmod fmod_spec lo hi x Hx W) as (x' & _ & Ec & Hcase). rewrite <- Ec. clear Ec.
  rewrite !fcos_is in E.
  set (yl := fmod lo (2 * PI)) in *. set (yh := fmod hi (2 * PI)) in *.
  assert (Cyh : cos yh = cos (yh + 2 * PI)) by (rewrite <- (cos_2pi (yh + 2 * PI)); f_equal; lra).
  pose proof (COS_bound x') as CB.
  pose proof (nmin_le (cos yl) (cos yh)) as [Mn1 Mn2]. pose proof (nmax_ge (cos yl) (cos yh)) as [Mx1 Mx2].
  assert (C2pi : cos (2 * PI) = 1) by apply cos_2PI. assert (Cpi : cos PI = -1) by apply cos_PI.
  match type of E with (if ?c then _ else _) = _ => destruct c eqn:C1 end.
  { apply mkI_inv in E. destruct E as (-> & -> & _). lra. }
  match type of E with (if ?c then _ else _) = _ => destruct c eqn:C2 end.
  { apply mkI_inv in E. destruct E as (-> & -> & _). bprop. destruct Hcase as [[NW1 NW2]|[NW1 NW2]]; [apply cos_inc0; lra|lra]. }
  match type of E with (if ?c then _ else _) = _ => destruct c eqn:C3 end.
  { apply mkI_inv in E. destruct E as (-> & -> & _). split; [|lra]. bprop. destruct Hcase as [[NW1 NW2]|[NW1 NW2]].
    - assert (Ex : x' = yl) by lra. rewrite Ex. lra.
    - destruct (Rle_dec x' (2 * PI)); [pose proof (cos_inc0 yl x' (2 * PI)); lra|]. pose proof (cos_dec1 (2 * PI) x' (yh + 2 * PI)). lra. }
  match type of E with (if ?c then _ else _) = _ => destruct c eqn:C4 end.
  { apply mkI_inv in E. destruct E as (-> & -> & _). split; [lra|]. bprop. destruct Hcase as [[NW1 NW2]|[NW1 NW2]]; [|lra].
    destruct (Rle_dec x' PI); [pose proof (cos_dec0 yl x' PI); lra | pose proof (cos_inc0 PI x' yh); lra]. }
  match type of E with (if ?c then _ else _) = _ => destruct c eqn:C5 end.
  { apply mkI_inv in E. destruct E as (-> & -> & _). bprop. destruct Hcase as [[NW1 NW2]|[NW1 NW2]]; [apply cos_dec0; lra|lra]. }
  discriminate.
Qed.
End CosEncl.

(* ---------- tan ---------- *)
Lemma cos_pi_shift_nat x (k : nat) : cos (x + INR k * PI) = 0 <-> cos x = 0.
Proof. induction k as [|k IH]; [cbn [INR]; replace (x + 0 * PI) with x by ring; tauto|].
  rewrite S_INR. replace (x + (INR k + 1) * PI) with ((x + INR k * PI) + PI) by ring. rewrite neg_cos. rewrite <- IH. split; lra. Qed.
Lemma tan_pi_shift_nat x (k : nat) : tan (x + INR k * PI) = tan x.
Proof. induction k as [|k IH]; [cbn [INR]; f_equal; ring|].
  rewrite S_INR. replace (x + (INR k + 1) * PI) with ((x + INR k * PI) + PI) by ring. rewrite <- IH. unfold tan. rewrite neg_sin, neg_cos.
  unfold Rdiv. rewrite Rinv_opp. ring. Qed.

Lemma cos_pi_shiftZ x (k : Z) : cos (x + IZR k * PI) = 0 <-> cos x = 0.
Proof. destruct k as [|p|p].
  - replace (x + 0 * PI) with x by ring. tauto.
  - rewrite <- (cos_pi_shift_nat x (Pos.to_nat p)). rewrite INR_IZR_INZ, positive_nat_Z. tauto.
  - rewrite <- (cos_pi_shift_nat (x + IZR (Z.neg p) * PI) (Pos.to_nat p)). rewrite INR_IZR_INZ, positive_nat_Z.
    change (Z.neg p) with (- Z.pos p)%Z. rewrite opp_IZR. replace (x + - IZR (Z.pos p) * PI + IZR (Z.pos p) * PI) with x by ring. tauto. Qed.
Lemma tan_pi_shiftZ x (k : Z) : tan (x + IZR k * PI) = tan x.
Proof. destruct k as [|p|p].
  - f_equal. simpl. ring.
  - rewrite <- (tan_pi_shift_nat x (Pos.to_nat p)). rewrite INR_IZR_INZ, positive_nat_Z. reflexivity.
  - rewrite <- (tan_pi_shift_nat (x + IZR (Z.neg p) * PI) (Pos.to_nat p)). rewrite INR_IZR_INZ, positive_nat_Z.
    change (Z.neg p) with (- Z.pos p)%Z. rewrite opp_IZR. f_equal. ring. Qed.
(* tan is increasing, and cos does not vanish, strictly between two consecutive poles *)
Lemma tan_seg0 u x v : - (PI / 2) < u -> u <= x -> x <= v -> v < PI / 2 -> cos x <> 0 /\ tan u <= tan x <= tan v.
Proof. intros H1 H2 H3 H4. split; [apply Rgt_not_eq; apply cos_gt_0; lra|]. split.
  - destruct (Req_dec u x) as [->|Hne]; [lra|]. left. apply tan_increasing; lra.
  - destruct (Req_dec x v) as [->|Hne]; [lra|]. left. apply tan_increasing; lra. Qed.
Lemma tan_seg1 u x v : PI / 2 < u -> u <= x -> x <= v -> v < 3 * (PI / 2) -> cos x <> 0 /\ tan u <= tan x <= tan v.
Proof. intros. destruct (tan_seg0 (u - PI) (x - PI) (v - PI)) as [C T]; try lra.
  replace (u - PI) with (u + IZR (-1) * PI) in T by (simpl; ring). replace (x - PI) with (x + IZR (-1) * PI) in C, T by (simpl; ring).
  replace (v - PI) with (v + IZR (-1) * PI) in T by (simpl; ring). rewrite !tan_pi_shiftZ in T. split; [|exact T].
  intro E. apply C. apply cos_pi_shiftZ. exact E. Qed.

Section TanEncl.
Variables (ftan : R -> R) (fmod : R -> R -> R).
Hypothesis ftan_is : forall x, ftan x = tan x.
Hypothesis fmodpi_spec : forall x, exists k : Z, fmod x PI = x - IZR k * PI /\ 0 <= fmod x PI < PI.

(* a bounded result means: no pole in the interval, and tan between the bounds (the end points themselves are assumed not to be poles:
   a binary64 number is never exactly an odd multiple of pi/2) *)
Theorem itan_encl lo hi a b x : lo <= hi -> cos lo <> 0 -> cos hi <> 0 ->
  itan RN PI ftan fmod (lo, hi) = Ok (@Fin RN a, @Fin RN b) -> lo <= x <= hi -> cos x <> 0 /\ a <= tan x <= b.
Proof.
  intros Hlh Cl Ch E Hx. assert (P := PI_RGT_0). unfold itan in E.
  unfold pihalf, two, nzero, within in E. cbn [fst snd nleb nltb nsub nmul ndiv nofZ RN T] in E.
  destruct (fmodpi_spec lo) as (kl & El & Rl). destruct (fmodpi_spec hi) as (kh & Eh & Rh).
  set (zl := fmod lo PI) in *. set (zh := fmod hi PI) in *.
  match type of E with (if ?c then _ else _) = _ => destruct c eqn:C end; [discriminate|].
  rewrite !ftan_is in E. destruct (Rleb (tan zl) (tan zh)); [|discriminate]. inversion E; subst a b. clear E.
  apply orb_false_iff in C. destruct C as [C C4]. apply orb_false_iff in C. destruct C as [C C3]. apply orb_false_iff in C. destruct C as [C1 C2].
  apply Rleb_false in C1.
  (* the end points are not poles *)
  assert (Zl : zl <> PI / 2).
  { intro Z. apply Cl. replace lo with (zl + IZR kl * PI) by lra. apply cos_pi_shiftZ. rewrite Z. apply cos_PI2. }
  assert (Zh : zh <> PI / 2).
  { intro Z. apply Ch. replace hi with (zh + IZR kh * PI) by lra. apply cos_pi_shiftZ. rewrite Z. apply cos_PI2. }
  assert (Hk : (kh = kl \/ kh = kl + 1)%Z).
  { assert (A : IZR kh - IZR kl < 2) by nra. assert (B : -1 < IZR kh - IZR kl) by nra.
    rewrite <- minus_IZR in A, B. apply lt_IZR in A. apply lt_IZR in B. lia. }
  set (x' := x - IZR kl * PI).
  assert (Tx : tan x' = tan x) by (unfold x'; replace (x - IZR kl * PI) with (x + IZR (- kl) * PI) by (rewrite opp_IZR; ring); apply tan_pi_shiftZ).
  assert (Cx : cos x' <> 0 -> cos x <> 0) by (unfold x'; intros H0 E0; apply H0; replace (x - IZR kl * PI) with (x + IZR (- kl) * PI) by (rewrite opp_IZR; ring); apply cos_pi_shiftZ; exact E0).
  rewrite <- Tx.
  (* truth values of the domain tests *)
  destruct (Rle_dec zl (PI / 2)) as [L1|L1]; destruct (Rle_dec zh (PI / 2)) as [H1|H1].
  - (* both in d1 *) destruct Hk as [-> | ->].
    + destruct (tan_seg0 zl x' zh) as [Q1 Q2]; unfold x'; try lra. split; [apply Cx; exact Q1|exact Q2].
    + exfalso. rewrite plus_IZR in Eh. assert (zh < zl) by nra.
      rewrite (proj2 (Rltb_true zh zl)) in C2 by assumption. rewrite !(proj2 (Rleb_true _ _)) in C2 by lra. discriminate.
  - (* zl in d1, zh in d2: reported unbounded *) exfalso. rewrite !(proj2 (Rleb_true _ _)) in C4 by lra. discriminate.
  - (* zl in d2, zh in d1: the interval wraps through a multiple of pi *) destruct Hk as [-> | ->].
    + exfalso. nra.
    + rewrite plus_IZR in Eh. destruct (tan_seg1 zl x' (zh + PI)) as [Q1 Q2]; unfold x'; try nra.
      replace (zh + PI) with (zh + IZR 1 * PI) in Q2 by (simpl; ring). rewrite tan_pi_shiftZ in Q2. split; [apply Cx; exact Q1|exact Q2].
  - (* both in d2 *) destruct Hk as [-> | ->].
    + destruct (tan_seg1 zl x' zh) as [Q1 Q2]; unfold x'; try lra. split; [apply Cx; exact Q1|exact Q2].
    + exfalso. rewrite plus_IZR in Eh. assert (zh < zl) by nra.
      rewrite (proj2 (Rltb_true zh zl)) in C3 by assumption. rewrite !(proj2 (Rleb_true _ _)) in C3 by lra. discriminate.
Qed.
(* and an interval at least one period wide, or one that reaches across a pole, is reported unbounded *)
Theorem itan_wide lo hi : PI <= hi - lo -> itan RN PI ftan fmod (lo, hi) = Ok (@MInf RN, @PInf RN).
Proof. intros H. unfold itan. cbn [fst snd nleb nsub RN T]. rewrite (proj2 (Rleb_true _ _) H). reflexivity. Qed.
End TanEncl.
