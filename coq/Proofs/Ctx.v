(* C16: the ambient dependency setting is scoped, restored and isolated. *)
From Coq Require Import List Arith Lia Bool.
From PUN Require Import Model.Ctx.
Import ListNotations.

(* ---------- restore on exit, for any history (any order of exits) ---------- *)
Lemma run1_app c h1 h2 : snd (run1 c (h1 ++ h2)) = snd (run1 (snd (run1 c h1)) h2).
Proof. revert c; induction h1 as [|e t IH]; intros c; cbn [run1 app]; [reflexivity|].
  destruct (step1 c e) as [c' o]. specialize (IH c'). destruct (run1 c' (t ++ h2)); destruct (run1 c' t); cbn in *. exact IH. Qed.

(* the token of block b stays untouched by events that neither enter nor exit b *)
Definition mentions (b : nat) (e : ev) : bool := match e with Enter k _ => Nat.eqb k b | Exit k => Nat.eqb k b | Read => false end.
Lemma lookup_remove_other b k l : k <> b -> lookup b (remove_tok k l) = lookup b l.
Proof. intros Hk. induction l as [|[j v] l IH]; cbn; auto. destruct (Nat.eqb_spec j k) as [->|Hjk].
  - destruct (Nat.eqb_spec k b); [contradiction|reflexivity].
  - cbn. destruct (Nat.eqb j b); auto. Qed.
Lemma step_keeps_token b c e : mentions b e = false -> lookup b (saved (fst (step1 c e))) = lookup b (saved c).
Proof. destruct e as [k d|k|]; cbn [mentions step1]; intros H; try reflexivity.
  - cbn. rewrite H. reflexivity.
  - apply Nat.eqb_neq in H. destruct (lookup k (saved c)); cbn; [apply lookup_remove_other; exact H|reflexivity]. Qed.
Lemma run_keeps_token b h : forall c, forallb (fun e => negb (mentions b e)) h = true ->
  lookup b (saved (snd (run1 c h))) = lookup b (saved c).
Proof. induction h as [|e t IH]; intros c H; cbn [run1]; [reflexivity|]. cbn in H. apply andb_true_iff in H. destruct H as [He Ht].
  apply negb_true_iff in He. pose proof (step_keeps_token b c e He) as K. destruct (step1 c e) as [c' o]. cbn [fst] in K.
  specialize (IH c' Ht). destruct (run1 c' t). cbn [snd] in *. congruence. Qed.

Theorem exit_restores c b d body : forallb (fun e => negb (mentions b e)) body = true ->
  cur (snd (run1 c (Enter b d :: body ++ [Exit b]))) = cur c.
Proof.
  intros H. change (Enter b d :: body ++ [Exit b]) with ([Enter b d] ++ body ++ [Exit b]). rewrite run1_app. cbn [run1 step1 snd].
  rewrite run1_app. set (c1 := mkC d ((b, cur c) :: saved c)).
  pose proof (run_keeps_token b body c1 H) as K. cbn [saved c1 lookup] in K. rewrite Nat.eqb_refl in K.
  destruct (run1 c1 body) as [tr c2]. cbn [snd] in *. cbn [run1 step1]. rewrite K. reflexivity.
Qed.

(* ---------- well-bracketed nesting of any depth returns to the setting in force before ---------- *)
Lemma lifo_block : forall bl c, snd (run1 c (events bl)) = c.
Proof.
  fix IH 1. intros [b d body] c. cbn [events].
  change (Enter b d :: ?x ++ [Exit b]) with ([Enter b d] ++ x ++ [Exit b]).
  rewrite run1_app. cbn [run1 step1 snd]. rewrite run1_app. set (c1 := mkC d ((b, cur c) :: saved c)).
  assert (G : forall l c', snd (run1 c' ((fix go (l : list block) := match l with [] => [] | x :: r => events x ++ Read :: go r end) l)) = c').
  { induction l as [|x r IHr]; intros c'; [reflexivity|]. rewrite run1_app, (IH x c'). cbn [run1 step1]. specialize (IHr c').
    destruct (run1 c' _); cbn in *. exact IHr. }
  rewrite G. cbn [run1 step1 c1 saved lookup]. rewrite Nat.eqb_refl. cbn [remove_tok snd]. rewrite Nat.eqb_refl. destruct c; reflexivity.
Qed.
Theorem lifo_returns (bls : list block) c : snd (run1 c (concat (map events bls))) = c.
Proof. revert c; induction bls as [|bl r IH]; intros c; cbn [map concat]; [reflexivity|]. rewrite run1_app, lifo_block. apply IH. Qed.

(* ---------- isolation: every interleaving of any number of execution contexts ---------- *)
Theorem noninterference : forall h s i,
  proj i (fst (run s h)) = fst (run1 (s i) (proj i h)) /\ snd (run s h) i = snd (run1 (s i) (proj i h)).
Proof.
  induction h as [|[j e] t IH]; intros s i; cbn [run run1 proj filter map fst snd]; [split; reflexivity|].
  destruct (step1 (s j) e) as [c' o] eqn:Hs. specialize (IH (upd s j c') i).
  destruct (run (upd s j c') t) as [tr s'] eqn:Hr. cbn [fst snd] in *.
  destruct (Nat.eqb j i) eqn:Hji; cbn [filter map fst snd proj].
  - apply Nat.eqb_eq in Hji; subst j. cbn [run1]. rewrite Hs.
    assert (E : upd s i c' i = c') by (unfold upd; rewrite Nat.eqb_refl; reflexivity). rewrite E in IH.
    unfold proj in IH.
    destruct (run1 c' (map snd (filter (fun p => Nat.eqb (fst p) i) t))) as [tr1 c1]. cbn [fst snd] in *.
    destruct IH as [IH1 IH2]. rewrite Nat.eqb_refl. cbn [map snd]. split; [f_equal; exact IH1 | exact IH2].
  - assert (E : upd s j c' i = s i) by (unfold upd; rewrite Nat.eqb_sym, Hji; reflexivity). rewrite E in IH. rewrite Hji. exact IH.
Qed.

(* reading returns the value in force; entering makes the new code the value in force *)
Theorem read_is_current c : step1 c Read = (c, Some (cur c)).
Proof. reflexivity. Qed.
Theorem enter_sets c b d : cur (fst (step1 c (Enter b d))) = d.
Proof. reflexivity. Qed.
(* a new thread starts from the default, a task from its creator's value; neither can reset the creator's tokens *)
Theorem spawn_isolated parent b : lookup b (saved spawn_thread) = None /\ lookup b (saved (spawn_task parent)) = None /\ cur (spawn_task parent) = cur parent /\ cur spawn_thread = DepF.
Proof. repeat split. Qed.
