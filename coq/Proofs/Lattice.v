(* C11: envelope and imposition are the lattice join and meet of p-boxes. *)
From Coq Require Import Reals Lra List Arith Lia Bool Permutation Sorted.
From PUN Require Import Base.Num Base.Sort Model.Interval Model.Pbox Proofs.ListR Proofs.PboxWF.
Import ListNotations.
Open Scope R_scope.

(* containment order on p-boxes of equal length: P inside Q *)
Definition inside (p q : list R * list R) : Prop := ple (fst q) (fst p) /\ ple (snd p) (snd q).

Lemma map2_min_R (a b : list R) : map2 (@nmin RN) a b = map2 Rmin a b.
Proof. revert b; induction a; intros [|y b]; cbn; auto. rewrite nmin_R, IHa. reflexivity. Qed.
Lemma map2_max_R (a b : list R) : map2 (@nmax RN) a b = map2 Rmax a b.
Proof. revert b; induction a; intros [|y b]; cbn; auto. rewrite nmax_R, IHa. reflexivity. Qed.

Lemma map2_nth_R (f : R -> R -> R) (a b : list R) i : (i < length a)%nat -> (i < length b)%nat ->
  nth i (map2 f a b) 0 = f (nth i a 0) (nth i b 0).
Proof. intros. apply (map2_nth f a b 0 0 0); assumption. Qed.
Lemma map2_sorted (f : R -> R -> R) (a b : list R) : length a = length b ->
  (forall x x' y y', x <= x' -> y <= y' -> f x y <= f x' y') -> Rsorted a -> Rsorted b -> Rsorted (map2 f a b).
Proof. intros Hl Hf Sa Sb. apply nth_Rsorted. intros i j Hij. rewrite map2_length in Hij.
  rewrite !map2_nth_R by lia. apply Hf; apply Rsorted_nth; auto; lia. Qed.
Lemma ple_map2_both (f g : R -> R -> R) (a b c d : list R) : length a = length b -> length c = length d -> length a = length c ->
  (forall i, (i < length a)%nat -> f (nth i a 0) (nth i b 0) <= g (nth i c 0) (nth i d 0)) -> ple (map2 f a b) (map2 g c d).
Proof. intros H1 H2 H3 H. apply nth_ple; [rewrite !map2_length; lia|]. intros i Hi. rewrite map2_length in Hi.
  rewrite !map2_nth_R by lia. apply H. lia. Qed.

Section L.
Variable steps : nat.
Variables plo phi : R.
Notation WFs := (WF steps).
Notation penvR := (penv RN steps plo phi).
Notation pimpR := (pimp RN steps plo phi).

Definition env_raw (p q : list R * list R) := (map2 Rmin (fst p) (fst q), map2 Rmax (snd p) (snd q)).
Definition imp_raw (p q : list R * list R) := (map2 Rmax (fst p) (fst q), map2 Rmin (snd p) (snd q)).

Lemma Rmin_mono x x' y y' : x <= x' -> y <= y' -> Rmin x y <= Rmin x' y'.
Proof. intros. unfold Rmin. repeat destruct (Rle_dec _ _); lra. Qed.
Lemma Rmax_mono x x' y y' : x <= x' -> y <= y' -> Rmax x y <= Rmax x' y'.
Proof. intros. unfold Rmax. repeat destruct (Rle_dec _ _); lra. Qed.

Lemma env_raw_WF p q : WFs p -> WFs q -> WFs (env_raw p q).
Proof.
  intros [A1 A2 A3 A4 A5] [B1 B2 B3 B4 B5]. constructor; cbn [env_raw fst snd]; rewrite ?map2_length; try lia.
  - apply map2_sorted; auto; [lia|apply Rmin_mono]. - apply map2_sorted; auto; [lia|apply Rmax_mono].
  - apply ple_map2_both; try lia. intros i Hi. pose proof (ple_nth _ _ A5 i ltac:(lia)). pose proof (ple_nth _ _ B5 i ltac:(lia)).
    pose proof (Rmin_l (nth i (fst p) 0) (nth i (fst q) 0)). pose proof (Rmax_l (nth i (snd p) 0) (nth i (snd q) 0)). lra.
Qed.
Theorem penv_spec p q : WFs p -> WFs q -> penvR p q = Ok (env_raw p q).
Proof.
  intros Wp Wq. pose proof (env_raw_WF p q Wp Wq) as [E1 E2 E3 E4 E5]. unfold penv, mk_staircase. cbn [T RN].
  rewrite map2_min_R, map2_max_R. apply mk_ordered; auto.
Qed.

Definition disjoint_somewhere (p q : list R * list R) : Prop :=
  exists k, (k < steps)%nat /\ Rmin (nth k (snd p) 0) (nth k (snd q) 0) < Rmax (nth k (fst p) 0) (nth k (fst q) 0).

Lemma imp_raw_WF p q : WFs p -> WFs q -> ple (fst (imp_raw p q)) (snd (imp_raw p q)) -> WFs (imp_raw p q).
Proof.
  intros [A1 A2 A3 A4 A5] [B1 B2 B3 B4 B5] H. constructor; cbn [imp_raw fst snd] in *; rewrite ?map2_length; try lia; auto.
  - apply map2_sorted; auto; try lia; apply Rmax_mono. - apply map2_sorted; auto; try lia; apply Rmin_mono.
Qed.
Lemma existsb_combine_false (u d : list R) : length u = length d ->
  existsb (fun x : R * R => Rltb (snd x) (fst x)) (combine u d) = false <-> ple u d.
Proof.
  revert d; induction u as [|a u IH]; intros [|b d] Hl; cbn in Hl; try lia; cbn [combine existsb fst snd].
  - split; [constructor|reflexivity].
  - rewrite orb_false_iff, Rltb_false, IH by lia. split; [intros [? ?]; constructor; auto|intros H; inversion H; auto].
Qed.
Theorem pimp_spec p q : WFs p -> WFs q -> ple (fst (imp_raw p q)) (snd (imp_raw p q)) -> pimpR p q = Ok (imp_raw p q).
Proof.
  intros Wp Wq H. pose proof (imp_raw_WF p q Wp Wq H) as [E1 E2 E3 E4 E5]. unfold pimp, mk_staircase_lists. cbn [T RN nltb].
  rewrite map2_min_R, map2_max_R. cbn [imp_raw fst snd] in *.
  assert (Hl : length (map2 Rmax (fst p) (fst q)) = length (map2 Rmin (snd p) (snd q))) by lia.
  rewrite (proj2 (existsb_combine_false _ _ Hl) H). apply mk_ordered; auto.
Qed.
Theorem pimp_empty p q : WFs p -> WFs q -> ~ ple (fst (imp_raw p q)) (snd (imp_raw p q)) -> pimpR p q = Raise EmptyImp.
Proof.
  intros [A1 A2 A3 A4 A5] [B1 B2 B3 B4 B5] H. unfold pimp. cbn [T RN nltb]. rewrite map2_min_R, map2_max_R. cbn [imp_raw fst snd] in *.
  destruct (existsb _ _) eqn:E; [reflexivity|]. exfalso. apply H. apply existsb_combine_false; auto. rewrite !map2_length. lia.
Qed.

(* ---------- lattice laws on the raw bounds ---------- *)
Theorem env_upper p q : WFs p -> WFs q -> inside p (env_raw p q) /\ inside q (env_raw p q).
Proof.
  intros [A1 A2 A3 A4 A5] [B1 B2 B3 B4 B5]. unfold inside, env_raw; cbn [fst snd].
  repeat split; apply nth_ple; rewrite ?map2_length; try lia; intros i Hi; rewrite ?map2_length in Hi;
    rewrite map2_nth_R by lia; first [apply Rmin_l | apply Rmin_r | apply Rmax_l | apply Rmax_r].
Qed.
Theorem env_least p q z : WFs p -> WFs q -> WFs z -> inside p z -> inside q z -> inside (env_raw p q) z.
Proof.
  intros [A1 A2 A3 A4 A5] [B1 B2 B3 B4 B5] [C1 C2 C3 C4 C5] [P1 P2] [Q1 Q2]. unfold inside, env_raw; cbn [fst snd].
  split; apply nth_ple; rewrite ?map2_length; try lia; intros i Hi; rewrite ?map2_length in Hi; rewrite map2_nth_R by lia.
  - apply Rmin_glb; [apply (ple_nth _ _ P1) | apply (ple_nth _ _ Q1)]; lia.
  - apply Rmax_lub; [apply (ple_nth _ _ P2) | apply (ple_nth _ _ Q2)]; lia.
Qed.
Theorem imp_lower p q : WFs p -> WFs q -> inside (imp_raw p q) p /\ inside (imp_raw p q) q.
Proof.
  intros [A1 A2 A3 A4 A5] [B1 B2 B3 B4 B5]. unfold inside, imp_raw; cbn [fst snd].
  repeat split; apply nth_ple; rewrite ?map2_length; try lia; intros i Hi; rewrite ?map2_length in Hi;
    rewrite map2_nth_R by lia; first [apply Rmin_l | apply Rmin_r | apply Rmax_l | apply Rmax_r].
Qed.
Theorem imp_greatest p q z : WFs p -> WFs q -> WFs z -> inside z p -> inside z q -> inside z (imp_raw p q).
Proof.
  intros [A1 A2 A3 A4 A5] [B1 B2 B3 B4 B5] [C1 C2 C3 C4 C5] [P1 P2] [Q1 Q2]. unfold inside, imp_raw; cbn [fst snd].
  split; apply nth_ple; rewrite ?map2_length; try lia; intros i Hi; rewrite ?map2_length in Hi; rewrite map2_nth_R by lia.
  - apply Rmax_lub; [apply (ple_nth _ _ P1) | apply (ple_nth _ _ Q1)]; lia.
  - apply Rmin_glb; [apply (ple_nth _ _ P2) | apply (ple_nth _ _ Q2)]; lia.
Qed.
(* a common member distribution exists iff the meet is non-empty: if some z is inside both, the imposition does not raise *)
Theorem imp_nonempty_if_common p q z : WFs p -> WFs q -> WFs z -> inside z p -> inside z q ->
  ple (fst (imp_raw p q)) (snd (imp_raw p q)).
Proof.
  intros Wp Wq Wz Hp Hq. destruct (imp_greatest p q z Wp Wq Wz Hp Hq) as [G1 G2]. destruct Wz as [C1 C2 C3 C4 C5].
  pose proof Wp as [A1 A2 _ _ _]. pose proof Wq as [B1 B2 _ _ _].
  apply nth_ple; [cbn; rewrite !map2_length; lia|]. intros i Hi. cbn [imp_raw fst] in Hi. rewrite map2_length in Hi.
  pose proof (ple_nth _ _ G1 i). pose proof (ple_nth _ _ G2 i ltac:(lia)). pose proof (ple_nth _ _ C5 i ltac:(lia)).
  cbn [imp_raw fst snd] in *. rewrite map2_length in H. specialize (H ltac:(lia)). lra.
Qed.

Lemma map2_comm (f : R -> R -> R) (a b : list R) : (forall x y, f x y = f y x) -> map2 f a b = map2 f b a.
Proof. intros H. revert b; induction a; intros [|y b]; cbn; auto. rewrite H, IHa; reflexivity. Qed.
Lemma map2_assoc (f : R -> R -> R) (a b c : list R) : (forall x y z, f x (f y z) = f (f x y) z) ->
  map2 f a (map2 f b c) = map2 f (map2 f a b) c.
Proof. intros H. revert b c; induction a; intros [|y b] [|z c]; cbn; auto. rewrite H, IHa; reflexivity. Qed.
Lemma map2_idem (f : R -> R -> R) (a : list R) : (forall x, f x x = x) -> map2 f a a = a.
Proof. intros H. induction a; cbn; auto. rewrite H, IHa; reflexivity. Qed.
Theorem env_comm p q : env_raw p q = env_raw q p.
Proof. unfold env_raw. rewrite (map2_comm Rmin (fst p)), (map2_comm Rmax (snd p)); auto using Rmin_comm, Rmax_comm. Qed.
Theorem env_assoc p q r : env_raw p (env_raw q r) = env_raw (env_raw p q) r.
Proof. unfold env_raw; cbn [fst snd]. rewrite (map2_assoc Rmin), (map2_assoc Rmax); auto using Rmin_assoc, Rmax_assoc.
  all: intros; symmetry; auto using Rmin_assoc, Rmax_assoc. Qed.
Theorem env_idem p : env_raw p p = p.
Proof. unfold env_raw. rewrite (map2_idem Rmin), (map2_idem Rmax); [destruct p; reflexivity| |];
  intros x; unfold Rmin, Rmax; destruct (Rle_dec x x); lra. Qed.
Theorem imp_comm p q : imp_raw p q = imp_raw q p.
Proof. unfold imp_raw. rewrite (map2_comm Rmax (fst p)), (map2_comm Rmin (snd p)); auto using Rmin_comm, Rmax_comm. Qed.
Theorem imp_assoc p q r : imp_raw p (imp_raw q r) = imp_raw (imp_raw p q) r.
Proof. unfold imp_raw; cbn [fst snd]. rewrite (map2_assoc Rmin), (map2_assoc Rmax); auto.
  all: intros; symmetry; auto using Rmin_assoc, Rmax_assoc. Qed.
Theorem imp_idem p : imp_raw p p = p.
Proof. unfold imp_raw. rewrite (map2_idem Rmin), (map2_idem Rmax); [destruct p; reflexivity| |];
  intros x; unfold Rmin, Rmax; destruct (Rle_dec x x); lra. Qed.

(* folding the envelope over a family does not depend on the order of listing *)
Theorem env_fold_perm (l l' : list (list R * list R)) (z : list R * list R) :
  Permutation l l' -> fold_left env_raw l z = fold_left env_raw l' z.
Proof.
  intros H; revert z. induction H; intros z; cbn [fold_left]; auto.
  - f_equal. rewrite <- !env_assoc. f_equal. apply env_comm.
  - rewrite IHPermutation1. apply IHPermutation2.
Qed.

(* support-based containment test agrees with the ordering *)
Theorem contains_mono p q : WFs p -> WFs q -> (0 < steps)%nat -> inside p q ->
  nth 0 (fst q) 0 <= nth 0 (fst p) 0 /\ last (snd p) 0 <= last (snd q) 0.
Proof.
  intros [A1 A2 A3 A4 A5] [B1 B2 B3 B4 B5] Hs [I1 I2]. split.
  - apply (ple_nth _ _ I1). lia.
  - rewrite !last_as_nth, A2, B2. apply (ple_nth _ _ I2). lia.
Qed.
End L.
