(* C05: interval elementary functions and integer powers enclose every pointwise value. *)
From Coq Require Import Reals Lra Lia Psatz List Bool ZArith.
From PUN Require Import Base.Num Model.Interval Model.IntervalFun.
Import ListNotations.
Open Scope R_scope.

Definition inI (x : R) (p : R * R) : Prop := fst p <= x <= snd p.

Lemma mkI_ok a b : a <= b -> mkI RN a b = Ok (a, b).
Proof. intros H. unfold mkI. cbn [nleb RN T]. rewrite (proj2 (Rleb_true a b) H). reflexivity. Qed.

(* ---------- monotone functions: exact image ---------- *)
Section Mono.
Variables (fexp flog : R -> R).
Hypothesis fexp_is : forall x, fexp x = exp x.
Hypothesis flog_is : forall x, flog x = ln x.

Theorem iexp_exact lo hi : lo <= hi ->
  iexp RN fexp (lo, hi) = Ok (exp lo, exp hi) /\ forall x, lo <= x <= hi -> exp lo <= exp x <= exp hi.
Proof.
  intros H. assert (M : forall a b, a <= b -> exp a <= exp b).
  { intros a b [Hab| ->]; [left; apply exp_increasing; exact Hab|lra]. }
  split; [unfold iexp; cbn [fst snd]; rewrite !fexp_is; apply mkI_ok, M, H | intros x [Hx1 Hx2]; split; apply M; assumption].
Qed.
Theorem ilog_exact lo hi : 0 < lo -> lo <= hi ->
  ilog RN flog (lo, hi) = Ok (ln lo, ln hi) /\ forall x, lo <= x <= hi -> ln lo <= ln x <= ln hi.
Proof.
  intros Hp H. assert (M : forall a b, 0 < a -> a <= b -> ln a <= ln b).
  { intros a b Ha [Hab| ->]; [left; apply ln_increasing; assumption|lra]. }
  split.
  - unfold ilog; cbn [fst snd nltb RN T]. unfold nzero; cbn [nofZ RN]. rewrite (proj2 (Rltb_true 0 lo) Hp), !flog_is. apply mkI_ok, M; assumption.
  - intros x [Hx1 Hx2]; split; apply M; lra.
Qed.
Theorem ilog_domain lo hi : lo <= 0 -> ilog RN flog (lo, hi) = Raise AssertionErr.
Proof. intros H. unfold ilog; cbn [fst nltb RN T]. unfold nzero; cbn [nofZ RN]. rewrite (proj2 (Rltb_false 0 lo) H). reflexivity. Qed.
Theorem isqrt_exact lo hi : 0 <= lo -> lo <= hi ->
  isqrt RN (lo, hi) = Ok (sqrt lo, sqrt hi) /\ forall x, lo <= x <= hi -> sqrt lo <= sqrt x <= sqrt hi.
Proof.
  intros Hp H. split; [unfold isqrt; cbn [fst snd nsqrt RN]; apply mkI_ok, sqrt_le_1_alt, H|].
  intros x [Hx1 Hx2]; split; apply sqrt_le_1_alt; assumption.
Qed.

(* tanh x = 1 - 2 / (1 + exp(2x)) and the logistic function 1 / (1 + exp(-x)), each with a single occurrence of x *)
Definition tanh_form (x : R) : R := 1 - 2 / (1 + exp (2 * x)).
Definition sigm_form (x : R) : R := 1 / (1 + exp (- x)).
Lemma tanh_form_mono a b : a <= b -> tanh_form a <= tanh_form b.
Proof. intros H. unfold tanh_form. assert (E : exp (2 * a) <= exp (2 * b)) by (destruct H as [H| ->]; [left; apply exp_increasing; lra|lra]).
  pose proof (exp_pos (2 * a)). pose proof (exp_pos (2 * b)).
  assert (/ (1 + exp (2 * b)) <= / (1 + exp (2 * a))) by (apply Rinv_le_contravar; lra). unfold Rdiv. lra. Qed.
Lemma sigm_form_mono a b : a <= b -> sigm_form a <= sigm_form b.
Proof. intros H. unfold sigm_form. assert (E : exp (- b) <= exp (- a)) by (destruct H as [H| ->]; [left; apply exp_increasing; lra|lra]).
  pose proof (exp_pos (- a)). pose proof (exp_pos (- b)).
  assert (/ (1 + exp (- a)) <= / (1 + exp (- b))) by (apply Rinv_le_contravar; lra). unfold Rdiv. lra. Qed.
Theorem itanh_exact lo hi : lo <= hi ->
  itanh RN fexp (lo, hi) = Ok (tanh_form lo, tanh_form hi) /\ forall x, lo <= x <= hi -> tanh_form lo <= tanh_form x <= tanh_form hi.
Proof.
  intros H. split; [|intros x [H1 H2]; split; apply tanh_form_mono; assumption].
  unfold itanh, two, none, nzero. cbn [fst snd nleb nadd nsub nmul ndiv nofZ RN T]. rewrite !fexp_is.
  pose proof (exp_pos (2 * lo)) as P1. pose proof (exp_pos (2 * hi)) as P2.
  assert (E : exp (2 * lo) <= exp (2 * hi)) by (destruct H as [H| ->]; [left; apply exp_increasing; lra|lra]).
  rewrite (proj2 (Rleb_true _ _) E). cbn [negb].
  rewrite (proj2 (Rleb_false (1 + exp (2 * lo)) 0)) by lra. cbn [andb].
  rewrite (proj2 (Rleb_true 0 2)) by lra.
  assert (Q : 2 / (1 + exp (2 * hi)) <= 2 / (1 + exp (2 * lo))).
  { unfold Rdiv. apply Rmult_le_compat_l; [lra|]. apply Rinv_le_contravar; lra. }
  cbn [fst snd]. rewrite (proj2 (Rleb_true _ _) Q). cbn [negb]. unfold tanh_form. apply mkI_ok. lra.
Qed.
Theorem isigmoid_exact lo hi : lo <= hi ->
  isigmoid RN fexp (lo, hi) = Ok (sigm_form lo, sigm_form hi) /\ forall x, lo <= x <= hi -> sigm_form lo <= sigm_form x <= sigm_form hi.
Proof.
  intros H. split; [|intros x [H1 H2]; split; apply sigm_form_mono; assumption].
  unfold isigmoid, none, nzero. cbn [fst snd nleb nadd nopp ndiv nofZ RN T]. rewrite !fexp_is.
  pose proof (exp_pos (- lo)) as P1. pose proof (exp_pos (- hi)) as P2.
  assert (E : exp (- hi) <= exp (- lo)) by (destruct H as [H| ->]; [left; apply exp_increasing; lra|lra]).
  rewrite (proj2 (Rleb_true _ _) E). cbn [negb].
  rewrite (proj2 (Rleb_false (1 + exp (- hi)) 0)) by lra. cbn [andb].
  unfold sigm_form. apply mkI_ok. unfold Rdiv. apply Rmult_le_compat_l; [lra|]. apply Rinv_le_contravar; lra.
Qed.
End Mono.

(* ---------- abs: exact ---------- *)
Theorem iabs_exact lo hi : lo <= hi ->
  exists a b, iabs RN (lo, hi) = Ok (a, b) /\ (forall x, lo <= x <= hi -> a <= Rabs x <= b) /\
              (exists x, lo <= x <= hi /\ Rabs x = a) /\ (exists x, lo <= x <= hi /\ Rabs x = b).
Proof.
  intros H. unfold iabs, nabs, nzero. cbn [fst snd nleb nopp nofZ RN T]. rewrite nmin_R, nmax_R.
  destruct (Rleb_spec lo 0) as [L|L]; destruct (Rleb_spec 0 hi) as [U|U]; destruct (Rleb_spec 0 lo) as [L'|L']; cbn [andb];
    try (exfalso; lra).
  all: eexists; eexists; split; [apply mkI_ok | split; [|split]].
  all: unfold Rmin, Rmax, Rabs in *; repeat destruct (Rle_dec _ _); repeat destruct (Rcase_abs _); try lra.
  all: try (intros x Hx; destruct (Rcase_abs x); lra).
  all: try (exists 0; destruct (Rcase_abs 0); lra).
  all: try (exists lo; destruct (Rcase_abs lo); lra).
  all: try (exists hi; destruct (Rcase_abs hi); lra).
Qed.

(* ---------- integer powers ---------- *)
Lemma pow_mono_nonneg a b k : 0 <= a <= b -> a ^ k <= b ^ k.
Proof. intros H. apply pow_incr; exact H. Qed.
Lemma pow_even_abs x k : Nat.even k = true -> x ^ k = (Rabs x) ^ k.
Proof. intros E. apply Nat.even_spec in E. destruct E as [m ->]. rewrite !pow_mult.
  replace (Rabs x ^ 2) with (x ^ 2); [reflexivity|]. unfold Rabs. destruct (Rcase_abs x); ring. Qed.
Lemma pow_odd_opp x k : Nat.even k = false -> (- x) ^ k = - x ^ k.
Proof. intros E. assert (O : Nat.odd k = true) by (rewrite <- Nat.negb_even, E; reflexivity). apply Nat.odd_spec in O. destruct O as [m ->].
  replace (2 * m + 1)%nat with (S (2 * m)) by lia. replace (- x) with (-1 * x) by ring.
  rewrite Rpow_mult_distr, pow_1_odd. ring. Qed.
Lemma pow_odd_neg a k : Nat.even k = false -> a ^ k = - (- a) ^ k.
Proof. intros E. rewrite pow_odd_opp by exact E. ring. Qed.
Lemma pow_odd_mono a b k : Nat.even k = false -> a <= b -> a ^ k <= b ^ k.
Proof.
  intros E H. destruct (Rle_dec 0 a) as [Ha|Ha].
  - apply pow_incr; lra.
  - destruct (Rle_dec 0 b) as [Hb|Hb].
    + assert (a ^ k <= 0). { rewrite (pow_odd_neg a k E). assert (0 <= (- a) ^ k) by (apply pow_le; lra). lra. }
      assert (0 <= b ^ k) by (apply pow_le; lra). lra.
    + rewrite (pow_odd_neg a k E), (pow_odd_neg b k E).
      assert ((- b) ^ k <= (- a) ^ k) by (apply pow_incr; lra). lra.
Qed.

Section Pow.
Variable fpow : R -> nat -> R.
Hypothesis fpow_is : forall x k, fpow x k = x ^ k.
Notation npow_pow := fpow_is.
Theorem ipow_nonneg_encl lo hi k : lo <= hi ->
  exists a b, ipow_nonneg RN fpow (lo, hi) k = Ok (a, b) /\ forall x, lo <= x <= hi -> a <= x ^ k <= b.
Proof.
  intros H. unfold ipow_nonneg. cbv zeta. cbn [fst snd]. rewrite (npow_pow lo k), (npow_pow hi k), nmin_R, nmax_R. unfold nzero; cbn [nltb nofZ RN T].
  destruct (Nat.even k) eqn:E.
  - (* even: x^k = |x|^k *)
    assert (A : forall x, lo <= x <= hi -> x ^ k <= Rmax (lo ^ k) (hi ^ k)).
    { intros x Hx. rewrite (pow_even_abs x k E), (pow_even_abs lo k E), (pow_even_abs hi k E).
      destruct (Rle_dec 0 x).
      - apply Rle_trans with (Rabs hi ^ k); [apply pow_incr; split; [apply Rabs_pos|]; rewrite !Rabs_right by lra; lra | apply Rmax_r].
      - apply Rle_trans with (Rabs lo ^ k); [apply pow_incr; split; [apply Rabs_pos|]; rewrite !Rabs_left by lra; lra | apply Rmax_l]. }
    assert (Z : forall x, 0 <= x ^ k) by (intros x; rewrite (pow_even_abs x k E); apply pow_le, Rabs_pos).
    destruct (Rltb_spec hi 0) as [Hn|Hn]; destruct (Rltb_spec 0 lo) as [Hp|Hp]; try (exfalso; lra).
    + (* all negative: lower bound hi^k *)
      eexists; eexists; split; [apply mkI_ok; apply Rle_trans with (hi ^ k); [lra|apply Rmax_r]|].
      intros x Hx. split; [|apply A; exact Hx].
      rewrite (pow_even_abs x k E), (pow_even_abs hi k E). apply pow_incr. split; [apply Rabs_pos|]. rewrite !Rabs_left by lra. lra.
    + eexists; eexists; split; [apply mkI_ok; apply Rle_trans with (lo ^ k); [lra|apply Rmax_l]|].
      intros x Hx. split; [|apply A; exact Hx]. apply pow_incr. lra.
    + eexists; eexists; split; [apply mkI_ok; apply Rle_trans with (lo ^ k); [apply Z|apply Rmax_l]|].
      intros x Hx. split; [apply Z|apply A; exact Hx].
  - (* odd: increasing *)
    pose proof (pow_odd_mono lo hi k E H) as M.
    eexists; eexists; split; [apply mkI_ok; unfold Rmin, Rmax; repeat destruct (Rle_dec _ _); lra|].
    intros x [Hx1 Hx2]. pose proof (pow_odd_mono lo x k E Hx1). pose proof (pow_odd_mono x hi k E Hx2).
    unfold Rmin, Rmax; repeat destruct (Rle_dec _ _); lra.
Qed.

(* negative exponents: reciprocal of the positive power; a pole inside the interval raises *)
Theorem ipow_neg_encl lo hi (k : nat) : lo <= hi -> (0 < k)%nat -> (0 < lo \/ hi < 0) ->
  exists a b, ipow RN fpow (lo, hi) (- Z.of_nat k) = Ok (a, b) /\ forall x, lo <= x <= hi -> a <= / (x ^ k) <= b.
Proof.
  intros H Hk Hs. unfold ipow. assert (E : (- Z.of_nat k <? 0)%Z = true) by (apply Z.ltb_lt; lia). rewrite E.
  rewrite Z.opp_involutive, Nat2Z.id.
  destruct (ipow_nonneg_encl lo hi k H) as (a & b & Ep & Henc). rewrite Ep. cbn [rbind fst snd].
  (* the positive power excludes zero *)
  assert (NZ : forall x, lo <= x <= hi -> x ^ k <> 0) by (intros x Hx; apply pow_nonzero; lra).
  assert (Sgn : 0 < a \/ b < 0).
  { unfold ipow_nonneg in Ep. cbv zeta in Ep. cbn [fst snd] in Ep. rewrite (npow_pow lo k), (npow_pow hi k), nmin_R, nmax_R in Ep. unfold nzero in Ep; cbn [nltb nofZ RN T] in Ep.
    destruct (Nat.even k) eqn:Ev.
    - left. destruct Hs as [Hp|Hn].
      + rewrite (proj2 (Rltb_true 0 lo) Hp) in Ep. destruct (Rltb hi 0); unfold mkI in Ep; cbn [nleb RN T] in Ep; destruct (Rleb _ _); inversion Ep; subst; apply pow_lt; lra.
      + rewrite (proj2 (Rltb_true hi 0) Hn), (proj2 (Rltb_false 0 lo)) in Ep by lra. unfold mkI in Ep; cbn [nleb RN T] in Ep; destruct (Rleb _ _); inversion Ep; subst.
        rewrite (pow_even_abs hi k Ev). apply pow_lt. apply Rabs_pos_lt. lra.
    - unfold mkI in Ep; cbn [nleb RN T] in Ep; destruct (Rleb _ _); inversion Ep; subst.
      pose proof (pow_odd_mono lo hi k Ev H) as M. destruct Hs as [Hp|Hn].
      + left. assert (0 < lo ^ k) by (apply pow_lt; lra). unfold Rmin; destruct (Rle_dec _ _); lra.
      + right. assert (hi ^ k < 0). { rewrite (pow_odd_neg hi k Ev). assert (0 < (- hi) ^ k) by (apply pow_lt; lra). lra. }
        unfold Rmax; destruct (Rle_dec _ _); lra. }
  assert (Hab : a <= b) by (destruct (Henc lo ltac:(lra)); lra).
  unfold nzero, none; cbn [nleb ndiv nofZ RN T].
  assert (G : Rleb a 0 && Rleb 0 b = false).
  { destruct Sgn; [rewrite (proj2 (Rleb_false a 0)) by lra; reflexivity | rewrite andb_comm, (proj2 (Rleb_false 0 b)) by lra; reflexivity]. }
  rewrite G.
  assert (I1 : 1 / b <= 1 / a).
  { unfold Rdiv. rewrite !Rmult_1_l. destruct Sgn; [apply Rinv_le_contravar; lra|].
    apply Ropp_le_cancel. rewrite <- !Rinv_opp. apply Rinv_le_contravar; lra. }
  eexists; eexists; split; [apply mkI_ok; exact I1|].
  intros x Hx. destruct (Henc x Hx) as [E1 E2]. unfold Rdiv. rewrite !Rmult_1_l.
  destruct Sgn as [Sp|Sn].
  - split; apply Rinv_le_contravar; lra.
  - split; apply Ropp_le_cancel; rewrite <- !Rinv_opp; apply Rinv_le_contravar; lra.
Qed.
Theorem ipow_neg_pole lo hi (k : nat) : lo <= 0 <= hi -> (0 < k)%nat ->
  ipow RN fpow (lo, hi) (- Z.of_nat k) = Raise ZeroDivision.
Proof.
  intros [Hl Hh] Hk. unfold ipow. assert (E : (- Z.of_nat k <? 0)%Z = true) by (apply Z.ltb_lt; lia). rewrite E.
  rewrite Z.opp_involutive, Nat2Z.id.
  destruct (ipow_nonneg_encl lo hi k ltac:(lra)) as (a & b & Ep & Henc). rewrite Ep. cbn [rbind fst snd].
  assert (Z0 : a <= 0 <= b). { specialize (Henc 0 ltac:(lra)). rewrite pow_i in Henc by lia. exact Henc. }
  unfold nzero; cbn [nleb nofZ RN T]. rewrite (proj2 (Rleb_true a 0)), (proj2 (Rleb_true 0 b)) by lra. reflexivity.
Qed.

End Pow.

(* ---------- sin / cos: the result always lies in [-1, 1]; width >= one period gives [-1, 1] ---------- *)
Section Trig.
Variables (fsin fcos : R -> R) (fmod : R -> R -> R).
Hypothesis fsin_is : forall x, fsin x = sin x.
Hypothesis fcos_is : forall x, fcos x = cos x.
Theorem isin_full_period lo hi x : 2 * PI <= hi - lo ->
  isin RN PI fsin fmod (lo, hi) = Ok (-1, 1) /\ -1 <= sin x <= 1.
Proof. intros H. split; [|apply SIN_bound]. unfold isin, twopi, two, mone, none. cbn [fst snd nleb nsub nmul nofZ RN T].
  rewrite (proj2 (Rleb_true _ _) H). apply mkI_ok. lra. Qed.
Theorem icos_full_period lo hi x : 2 * PI <= hi - lo ->
  icos RN PI fcos fmod (lo, hi) = Ok (-1, 1) /\ -1 <= cos x <= 1.
Proof. intros H. split; [|apply COS_bound]. unfold icos, twopi, two, mone, none. cbn [fst snd nleb nsub nmul nofZ RN T].
  rewrite (proj2 (Rleb_true _ _) H). apply mkI_ok. lra. Qed.
End Trig.
