(* C02: the Frechet result encloses the results obtained under perfect, opposite and independent dependence
   (operations nondecreasing in both arguments on an upward-closed domain: + on all reals, x on non-negative operands).
   Perfect and opposite are the identity and the reversing coupling of the bounding selections, so they are instances of the
   soundness theorem; independence is a counting argument over the n*n pairs, at the order statistic k(n+1) kept by condensation. *)
From Coq Require Import Reals Lra Lia List Arith Bool Permutation Sorted.
From PUN Require Import Base.Num Base.Sort Model.Interval Model.Pbox Proofs.Hull Proofs.ListR Proofs.PboxWF Proofs.IntervalOps Proofs.Frechet Proofs.DepOps.
Import ListNotations.
Open Scope R_scope.

Lemma list_sum_bound (f : nat -> nat) (n j a b : nat) : (j <= n)%nat ->
  (forall t, (t < j)%nat -> (f t <= a)%nat) -> (forall t, (j <= t < n)%nat -> (f t <= b)%nat) ->
  (list_sum (map f (seq 0 n)) <= j * a + (n - j) * b)%nat.
Proof.
  intros Hj Ha Hb.
  assert (G : forall m, (m <= n)%nat -> (list_sum (map f (seq 0 m)) <= Nat.min m j * a + (m - j) * b)%nat).
  { induction m as [|m IH]; intros Hm; [cbn; lia|].
    rewrite seq_S, map_app, list_sum_app. cbn [map list_sum fold_right Nat.add]. specialize (IH ltac:(lia)).
    destruct (lt_dec m j) as [Hlt|Hge].
    - specialize (Ha m Hlt). rewrite Nat.min_l in * by lia. replace (S m - j)%nat with 0%nat by lia. replace (m - j)%nat with 0%nat in IH by lia. nia.
    - specialize (Hb m ltac:(lia)). rewrite Nat.min_r in * by lia. replace (S m - j)%nat with (S (m - j)) by lia. nia. }
  specialize (G n (le_n n)). rewrite Nat.min_r in G by lia. exact G.
Qed.
Lemma len_filter_flat_map {A B} (f : B -> bool) (g : A -> list B) (l : list A) :
  length (filter f (flat_map g l)) = list_sum (map (fun a => length (filter f (g a))) l).
Proof. induction l as [|a l IH]; cbn [flat_map map list_sum fold_right]; [reflexivity|]. rewrite filter_app, app_length, IH. reflexivity. Qed.

Section E.
Variable op : R -> R -> R.
Variable D : R -> Prop.
Hypothesis D_up : forall a a', D a -> a <= a' -> D a'.
Hypothesis op_mono : forall a a' b b', D a -> D b -> a <= a' -> b <= b' -> op a b <= op a' b'.
Variable n : nat.
Variables XL XR YL YR : list R.
Hypothesis lenXL : length XL = n. Hypothesis lenXR : length XR = n.
Hypothesis lenYL : length YL = n. Hypothesis lenYR : length YR = n.
Hypothesis sXL : Rsorted XL. Hypothesis sXR : Rsorted XR. Hypothesis sYL : Rsorted YL. Hypothesis sYR : Rsorted YR.
Hypothesis pX : ple XL XR. Hypothesis pY : ple YL YR.
Hypothesis DXL : forall j, (j < n)%nat -> D (nth j XL 0).
Hypothesis DYL : forall j, (j < n)%nat -> D (nth j YL 0).

Lemma DXR j : (j < n)%nat -> D (nth j XR 0).
Proof. intros Hj. apply (D_up (nth j XL 0)); [apply DXL; exact Hj | apply ple_nth; [exact pX | rewrite lenXL; exact Hj]]. Qed.
Lemma DYR j : (j < n)%nat -> D (nth j YR 0).
Proof. intros Hj. apply (D_up (nth j YL 0)); [apply DYL; exact Hj | apply ple_nth; [exact pY | rewrite lenYL; exact Hj]]. Qed.

(* the interval combination of two steps is [op of the lower ends, op of the upper ends] *)
Lemma istep_mono al ar bl br : D al -> D bl -> al <= ar -> bl <= br -> istep op (al, ar) (bl, br) = (op al bl, op ar br).
Proof.
  intros Da Db Ha Hb. unfold istep, corner_hull. cbn [fst snd].
  assert (Dar : D ar) by (apply (D_up al); assumption). assert (Dbr : D br) by (apply (D_up bl); assumption).
  pose proof (op_mono al al bl br Da Db (Rle_refl _) Hb). pose proof (op_mono al ar bl bl Da Db Ha (Rle_refl _)).
  pose proof (op_mono al ar bl br Da Db Ha Hb). pose proof (op_mono al ar br br Da Dbr Ha (Rle_refl _)). pose proof (op_mono ar ar bl br Dar Db (Rle_refl _) Hb).
  f_equal; unfold min4, max4, Rmin, Rmax; repeat destruct (Rle_dec _ _); lra.
Qed.

Lemma nth_combine (A B : list R) j : length A = length B -> nth j (combine A B) (0, 0) = (nth j A 0, nth j B 0).
Proof. revert B j; induction A as [|a A IH]; intros [|b B] [|j] H; cbn in *; try lia; auto; try (apply IH; lia). Qed.

(* ---------- perfect: the identity coupling ---------- *)
Lemma perfect_left_zs : map fst (map2 (istep op) (combine XL XR) (combine YL YR)) = zs op n XL YL (seq 0 n).
Proof.
  apply (nth_ext _ _ 0 0).
  - unfold zs. rewrite !map_length, map2_length, !combine_length, seq_length. lia.
  - intros j Hj. rewrite map_length, map2_length, !combine_length in Hj. assert (Hjn : (j < n)%nat) by lia.
    rewrite (nth_indep _ 0 (fst (0, 0))) by (rewrite map_length, map2_length, !combine_length; lia). rewrite map_nth.
    rewrite (map2_nth _ _ _ (0, 0) (0, 0)) by (rewrite combine_length; lia). rewrite !nth_combine by lia.
    rewrite istep_mono; auto; try (apply ple_nth; [assumption|lia]). cbn [fst].
    unfold zs. rewrite nth_map_seq by exact Hjn. unfold p. rewrite seq_nth by exact Hjn. reflexivity.
Qed.
Lemma perfect_right_zs : map snd (map2 (istep op) (combine XL XR) (combine YL YR)) = zs op n XR YR (seq 0 n).
Proof.
  apply (nth_ext _ _ 0 0).
  - unfold zs. rewrite !map_length, map2_length, !combine_length, seq_length. lia.
  - intros j Hj. rewrite map_length, map2_length, !combine_length in Hj. assert (Hjn : (j < n)%nat) by lia.
    rewrite (nth_indep _ 0 (snd (0, 0))) by (rewrite map_length, map2_length, !combine_length; lia). rewrite map_nth.
    rewrite (map2_nth _ _ _ (0, 0) (0, 0)) by (rewrite combine_length; lia). rewrite !nth_combine by lia.
    rewrite istep_mono; auto; try (apply ple_nth; [assumption|lia]). cbn [snd].
    unfold zs. rewrite nth_map_seq by exact Hjn. unfold p. rewrite seq_nth by exact Hjn. reflexivity.
Qed.

Lemma sel_lo : forall j, (j < n)%nat -> nth j XL 0 <= nth j XL 0 <= nth j XR 0.
Proof. intros j Hj. split; [lra|apply ple_nth; [assumption|lia]]. Qed.
Lemma sel_hi : forall j, (j < n)%nat -> nth j XL 0 <= nth j XR 0 <= nth j XR 0.
Proof. intros j Hj. split; [apply ple_nth; [assumption|lia]|lra]. Qed.
Lemma sel_lo_y : forall j, (j < n)%nat -> nth j YL 0 <= nth j YL 0 <= nth j YR 0.
Proof. intros j Hj. split; [lra|apply ple_nth; [assumption|lia]]. Qed.
Lemma sel_hi_y : forall j, (j < n)%nat -> nth j YL 0 <= nth j YR 0 <= nth j YR 0.
Proof. intros j Hj. split; [apply ple_nth; [assumption|lia]|lra]. Qed.

Theorem frechet_encloses_coupling (pi : list nat) i : Permutation pi (seq 0 n) -> (i < n)%nat ->
  nth i (fst (frechet_op RN op XL XR YL YR)) 0 <= nth i (Rsort (zs op n XL YL pi)) 0 /\
  nth i (Rsort (zs op n XR YR pi)) 0 <= nth i (snd (frechet_op RN op XL XR YL YR)) 0.
Proof.
  intros Hpi Hi. split.
  - apply (frechet_op_sound op D n XL XR YL YR XL YL pi (Rsort (zs op n XL YL pi))); auto using sel_lo, sel_lo_y, Rsort_sorted.
    apply Permutation_sym, Rsort_perm.
  - apply (frechet_op_sound op D n XL XR YL YR XR YR pi (Rsort (zs op n XR YR pi))); auto using sel_hi, sel_hi_y, Rsort_sorted.
    apply Permutation_sym, Rsort_perm.
Qed.

Theorem frechet_encloses_perfect i : (i < n)%nat ->
  nth i (fst (frechet_op RN op XL XR YL YR)) 0 <= nth i (fst (perfect_op RN op XL XR YL YR)) 0 /\
  nth i (snd (perfect_op RN op XL XR YL YR)) 0 <= nth i (snd (frechet_op RN op XL XR YL YR)) 0.
Proof.
  intros Hi. rewrite perfect_op_spec by lia. cbn [fst snd]. rewrite perfect_left_zs, perfect_right_zs.
  apply frechet_encloses_coupling; [apply Permutation_refl|exact Hi].
Qed.

(* ---------- opposite: the reversing coupling ---------- *)
Lemma nth_rev_seq j : (j < n)%nat -> nth j (rev (seq 0 n)) 0%nat = (n - 1 - j)%nat.
Proof. intros Hj. rewrite rev_nth by (rewrite seq_length; exact Hj). rewrite seq_length, seq_nth by lia. lia. Qed.
Lemma opposite_left_zs : map fst (map2 (istep op) (combine XL XR) (rev (combine YL YR))) = zs op n XL YL (rev (seq 0 n)).
Proof.
  apply (nth_ext _ _ 0 0).
  - unfold zs. rewrite !map_length, map2_length, rev_length, !combine_length, seq_length. lia.
  - intros j Hj. rewrite map_length, map2_length, rev_length, !combine_length in Hj. assert (Hjn : (j < n)%nat) by lia.
    rewrite (nth_indep _ 0 (fst (0, 0))) by (rewrite map_length, map2_length, rev_length, !combine_length; lia). rewrite map_nth.
    rewrite (map2_nth _ _ _ (0, 0) (0, 0)) by (rewrite ?rev_length, combine_length; lia).
    rewrite rev_nth by (rewrite combine_length; lia). rewrite combine_length, lenYL, lenYR, Nat.min_id. rewrite !nth_combine by lia.
    rewrite istep_mono; auto; try (apply DYL; lia); try (apply ple_nth; [assumption|lia]). cbn [fst].
    unfold zs. rewrite nth_map_seq by exact Hjn. unfold p. rewrite nth_rev_seq by exact Hjn. f_equal. f_equal. lia.
Qed.
Lemma opposite_right_zs : map snd (map2 (istep op) (combine XL XR) (rev (combine YL YR))) = zs op n XR YR (rev (seq 0 n)).
Proof.
  apply (nth_ext _ _ 0 0).
  - unfold zs. rewrite !map_length, map2_length, rev_length, !combine_length, seq_length. lia.
  - intros j Hj. rewrite map_length, map2_length, rev_length, !combine_length in Hj. assert (Hjn : (j < n)%nat) by lia.
    rewrite (nth_indep _ 0 (snd (0, 0))) by (rewrite map_length, map2_length, rev_length, !combine_length; lia). rewrite map_nth.
    rewrite (map2_nth _ _ _ (0, 0) (0, 0)) by (rewrite ?rev_length, combine_length; lia).
    rewrite rev_nth by (rewrite combine_length; lia). rewrite combine_length, lenYL, lenYR, Nat.min_id. rewrite !nth_combine by lia.
    rewrite istep_mono; auto; try (apply DYL; lia); try (apply ple_nth; [assumption|lia]). cbn [snd].
    unfold zs. rewrite nth_map_seq by exact Hjn. unfold p. rewrite nth_rev_seq by exact Hjn. f_equal. f_equal. lia.
Qed.
Theorem frechet_encloses_opposite i : (i < n)%nat ->
  nth i (fst (frechet_op RN op XL XR YL YR)) 0 <= nth i (fst (opposite_op RN op XL XR YL YR)) 0 /\
  nth i (snd (opposite_op RN op XL XR YL YR)) 0 <= nth i (snd (frechet_op RN op XL XR YL YR)) 0.
Proof.
  intros Hi. rewrite opposite_op_spec by lia. cbn [fst snd]. rewrite opposite_left_zs, opposite_right_zs.
  apply frechet_encloses_coupling; [apply Permutation_sym, Permutation_rev|exact Hi].
Qed.

(* ---------- independence: all n*n pairs, order statistic i(n+1) ---------- *)
Definition pairsL : list R := flat_map (fun j => map (fun k => op (nth j XL 0) (nth k YL 0)) (seq 0 n)) (seq 0 n).
Definition pairsR : list R := flat_map (fun j => map (fun k => op (nth j XR 0) (nth k YR 0)) (seq 0 n)) (seq 0 n).
Lemma pairs_length (f : nat -> nat -> R) : length (flat_map (fun j => map (f j) (seq 0 n)) (seq 0 n)) = (n * n)%nat.
Proof.
  assert (G : forall l : list nat, length (flat_map (fun j => map (f j) (seq 0 n)) l) = (length l * n)%nat).
  { induction l as [|a l IH]; cbn [flat_map length]; [reflexivity|]. rewrite app_length, map_length, seq_length, IH. lia. }
  rewrite G, seq_length. reflexivity.
Qed.

Lemma indep_left_pair j k i : (j + k = i)%nat -> (i < n)%nat ->
  op (nth j XL 0) (nth k YL 0) <= nth (i * (n + 1)) (Rsort pairsL) 0.
Proof.
  intros Hjk Hi. apply Rleb_true.
  apply (rank_lower R Rleb Rleb_trans) with (l := pairsL).
  - apply Permutation_sym, Rsort_perm.
  - apply Rsort_sorted.
  - unfold cnt, pairsL. rewrite len_filter_flat_map.
    etransitivity; [apply (list_sum_bound _ n j n k); [lia| |]|nia].
    + intros t Ht. rewrite len_filter_map. etransitivity; [apply len_filter_all|]. rewrite seq_length. lia.
    + intros t Ht. rewrite len_filter_map.
      etransitivity; [apply (len_filter_le _ (fun k' => (k' <? k)%nat))|apply len_filter_ltb].
      intros k' Hin Hlt. apply in_seq in Hin. apply Rltb_ltb in Hlt. destruct (Nat.ltb_spec k' k) as [|Hk]; [reflexivity|exfalso].
      assert (A : nth j XL 0 <= nth t XL 0) by (apply Rsorted_nth; [assumption|lia]).
      assert (B : nth k YL 0 <= nth k' YL 0) by (apply Rsorted_nth; [assumption|lia]).
      pose proof (op_mono _ _ _ _ (DXL j ltac:(lia)) (DYL k ltac:(lia)) A B). lra.
  - unfold pairsL. rewrite pairs_length. nia.
Qed.
Lemma indep_right_pair j k i : (j + k = n - 1 + i)%nat -> (j < n)%nat -> (k < n)%nat -> (i < n)%nat ->
  nth (i * (n + 1)) (Rsort pairsR) 0 <= op (nth j XR 0) (nth k YR 0).
Proof.
  intros Hjk Hj Hk Hi. apply Rleb_true.
  apply (rank_upper R Rleb Rleb_trans) with (l := pairsR).
  - apply Permutation_sym, Rsort_perm.
  - apply Rsort_sorted.
  - unfold pairsR. rewrite pairs_length. nia.
  - unfold cnt, pairsR. rewrite pairs_length, len_filter_flat_map.
    (* rows up to j: only columns beyond k can exceed; rows beyond j: at most n *)
    etransitivity; [apply (list_sum_bound _ n (S j) (n - 1 - k) n); [lia| |]|].
    + intros t Ht. rewrite len_filter_map.
      etransitivity; [apply (len_filter_le _ (fun k' => (k <? k')%nat))|apply len_filter_gtb].
      intros k' Hin Hlt. apply in_seq in Hin. apply Rltb_ltb in Hlt. destruct (Nat.ltb_spec k k') as [|Hk']; [reflexivity|exfalso].
      assert (A : nth t XR 0 <= nth j XR 0) by (apply Rsorted_nth; [assumption|lia]).
      assert (B : nth k' YR 0 <= nth k YR 0) by (apply Rsorted_nth; [assumption|lia]).
      pose proof (op_mono _ _ _ _ (DXR t ltac:(lia)) (DYR k' ltac:(lia)) A B). lra.
    + intros t Ht. rewrite len_filter_map. etransitivity; [apply len_filter_all|]. rewrite seq_length. lia.
    + (* (j+1)(k+1) >= 1 + i(n+1) when j + k = n - 1 + i and j, k < n: write j = i + d, k = i + e, n = i + d + e + 1 *)
      assert (Hde : exists d e, j = (i + d)%nat /\ k = (i + e)%nat /\ n = (i + d + e + 1)%nat) by (exists (j - i)%nat, (k - i)%nat; lia).
      destruct Hde as (d & e & -> & -> & Hn).
      replace (n - 1 - (i + e))%nat with d by lia. replace (n - S (i + d))%nat with e by lia.
      assert (F : (S (i + d) * d + e * n + 1 + i * (n + 1) <= n * n)%nat).
      { rewrite Hn. ring_simplify. nia. }
      lia.
Qed.

Theorem frechet_left_le_indep i : (i < n)%nat -> frechet_left RN op XL YL i <= nth (i * (n + 1)) (Rsort pairsL) 0.
Proof.
  intros Hi. unfold frechet_left. cbn [T RN]. apply maxl_le_all.
  - intros E. apply (f_equal (@length R)) in E. rewrite map2_length, rev_length, !firstn_length in E. cbn [T RN length] in E. rewrite lenXL, lenYL in E. lia.
  - intros v Hv. apply map2_In in Hv. destruct Hv as (j & a & b & Ha & Hb & ->).
    assert (Hj : (j < S i)%nat).
    { assert (j < length (firstn (S i) XL))%nat by (apply nth_error_Some; rewrite Ha; discriminate). rewrite firstn_length in H. lia. }
    apply (nth_error_nth _ _ 0) in Ha, Hb.
    rewrite nth_firstn_lt in Ha by lia.
    rewrite rev_nth in Hb by (rewrite firstn_length; lia).
    rewrite firstn_length, lenYL, Nat.min_l in Hb by lia. rewrite nth_firstn_lt in Hb by lia.
    subst a b. apply (indep_left_pair j (S i - S j) i); lia.
Qed.
Theorem indep_le_frechet_right i : (i < n)%nat -> nth (i * (n + 1)) (Rsort pairsR) 0 <= frechet_right RN op XR YR i.
Proof.
  intros Hi. unfold frechet_right. cbn [T RN]. apply minl_ge_all.
  - intros E. apply (f_equal (@length R)) in E. rewrite map2_length, rev_length, !skipn_length in E. cbn [T RN length] in E. rewrite lenXR, lenYR in E. lia.
  - intros v Hv. apply map2_In in Hv. destruct Hv as (m & a & b & Ha & Hb & ->).
    assert (Hm : (m < n - i)%nat).
    { assert (m < length (skipn i XR))%nat by (apply nth_error_Some; rewrite Ha; discriminate). rewrite skipn_length in H. lia. }
    apply (nth_error_nth _ _ 0) in Ha, Hb.
    rewrite nth_skipn_add in Ha.
    rewrite rev_nth in Hb by (rewrite skipn_length; lia).
    rewrite skipn_length, lenYR, nth_skipn_add in Hb.
    subst a b. apply (indep_right_pair (i + m) (i + (n - i - S m)) i); lia.
Qed.
(* the pair lists are the endpoint lists of independent_op *)
Lemma combine_as_map (A B : list R) : length A = n -> length B = n -> combine A B = map (fun j => (nth j A 0, nth j B 0)) (seq 0 n).
Proof.
  intros HA HB. apply (nth_ext _ _ (0, 0) (0, 0)).
  - rewrite combine_length, map_length, seq_length. lia.
  - intros j Hj. rewrite combine_length in Hj. rewrite nth_combine by lia.
    rewrite nth_map_seq_gen by lia. reflexivity.
Qed.
Lemma flat_map_map {A B C} (g : B -> list C) (h : A -> B) l : flat_map g (map h l) = flat_map (fun x => g (h x)) l.
Proof. induction l as [|a l IH]; cbn [map flat_map]; [reflexivity|]. rewrite IH. reflexivity. Qed.
Lemma map_flat_map' {A B C} (f : B -> C) (g : A -> list B) l : map f (flat_map g l) = flat_map (fun x => map f (g x)) l.
Proof. induction l as [|a l IH]; cbn [map flat_map]; [reflexivity|]. rewrite map_app, IH. reflexivity. Qed.
Lemma flat_map_ext_in {A B} (f g : A -> list B) l : (forall a, In a l -> f a = g a) -> flat_map f l = flat_map g l.
Proof. induction l as [|a l IH]; intros H; cbn [flat_map]; [reflexivity|]. rewrite (H a (or_introl eq_refl)), IH; [reflexivity|]. intros; apply H; right; assumption. Qed.
Lemma pairs_spec : map fst (all_pairs op (combine XL XR) (combine YL YR)) = pairsL /\ map snd (all_pairs op (combine XL XR) (combine YL YR)) = pairsR.
Proof.
  unfold all_pairs, pairsL, pairsR. rewrite (combine_as_map XL XR), (combine_as_map YL YR) by assumption.
  rewrite !map_flat_map', !flat_map_map. split; apply flat_map_ext_in; intros j Hj; apply in_seq in Hj; rewrite !map_map; apply map_ext_in; intros k Hk; apply in_seq in Hk;
    (rewrite istep_mono; [reflexivity | apply DXL; lia | apply DYL; lia | apply ple_nth; [assumption|lia] | apply ple_nth; [assumption|lia]]).
Qed.

Theorem frechet_encloses_independent i : (i < n)%nat ->
  nth i (fst (frechet_op RN op XL XR YL YR)) 0 <= nth (i * (n + 1)) (fst (independent_op RN op XL XR YL YR)) 0 /\
  nth (i * (n + 1)) (snd (independent_op RN op XL XR YL YR)) 0 <= nth i (snd (frechet_op RN op XL XR YL YR)) 0.
Proof.
  intros Hi. rewrite independent_op_spec by lia. destruct pairs_spec as [-> ->]. cbn [fst snd].
  assert (Hidx : forall a b, (a <= b < n)%nat -> (a * (n + 1) <= b * (n + 1) < n * n)%nat) by (intros; nia).
  set (bl := map (fun k => nth (k * (n + 1)) (Rsort pairsL) 0) (seq 0 n)).
  set (br := map (fun k => nth (k * (n + 1)) (Rsort pairsR) 0) (seq 0 n)).
  assert (Sbl : Rsorted bl).
  { apply nth_Rsorted. intros a b Hab. unfold bl in *. rewrite map_length, seq_length in Hab. rewrite !nth_map_seq by lia.
    apply Rsorted_nth; [apply Rsort_sorted|]. rewrite Rsort_length. unfold pairsL. rewrite pairs_length. apply Hidx. lia. }
  assert (Sbr : Rsorted br).
  { apply nth_Rsorted. intros a b Hab. unfold br in *. rewrite map_length, seq_length in Hab. rewrite !nth_map_seq by lia.
    apply Rsorted_nth; [apply Rsort_sorted|]. rewrite Rsort_length. unfold pairsR. rewrite pairs_length. apply Hidx. lia. }
  unfold frechet_op. cbn [fst snd T RN]. rewrite lenXL. split.
  - apply Rle_trans with (nth i (Rsort bl) 0); [|right; rewrite (Rsort_id bl Sbl); unfold bl; rewrite nth_map_seq by exact Hi; reflexivity].
    apply sort_pointwise_le; [unfold bl; rewrite !map_length; reflexivity| |rewrite map_length, seq_length; exact Hi].
    intros j Hj. rewrite map_length, seq_length in Hj. unfold bl. rewrite !nth_map_seq by exact Hj. apply frechet_left_le_indep. exact Hj.
  - apply Rle_trans with (nth i (Rsort br) 0); [right; rewrite (Rsort_id br Sbr); unfold br; rewrite nth_map_seq by exact Hi; reflexivity|].
    apply sort_pointwise_le; [unfold br; rewrite !map_length; reflexivity| |unfold br; rewrite map_length, seq_length; exact Hi].
    intros j Hj. unfold br in Hj. rewrite map_length, seq_length in Hj. unfold br. rewrite !nth_map_seq by exact Hj. apply indep_le_frechet_right. exact Hj.
Qed.
End E.
