(* The dependency kernels translated from pba/operation.py (Gen/GenKernels.v, regenerated on every run) compute exactly the
   kernels of Model/Pbox.v that the theorems of C02, C03, C07 and C12 are about, whenever the four bound arrays have one length. *)
From Coq Require Import List ZArith Lia Arith.
From PUN Require Import Base.Num Model.Interval Model.Pbox Model.ArrayOps Gen.GenKernels.
Import ListNotations.

Section K.
Variable N : Num.

Lemma nth_ext_N (l l' : list N) : length l = length l' -> (forall j, (j < length l)%nat -> nth j l nzero = nth j l' nzero) -> l = l'.
Proof. intros H1 H2. apply (nth_ext _ _ nzero nzero); assumption. Qed.
Lemma nth_map_seq_N (f : nat -> N) m j : (j < m)%nat -> nth j (map f (seq 0 m)) nzero = f j.
Proof. intros H. rewrite (nth_indep _ nzero (f 0%nat)) by (rewrite map_length, seq_length; exact H). rewrite map_nth, seq_nth by exact H. reflexivity. Qed.
Lemma nth_skipn_N (l : list N) a j : nth j (skipn a l) nzero = nth (a + j) l nzero.
Proof. revert l; induction a as [|a IH]; intros [|x l]; cbn; auto. destruct j; reflexivity. Qed.
Lemma nth_firstn_N (l : list N) m j : (j < m)%nat -> nth j (firstn m l) nzero = nth j l nzero.
Proof. revert m j; induction l as [|x l IH]; intros [|m] [|j] H; cbn; try lia; auto. apply IH; lia. Qed.

(* x[np.arange(a, b)] = x[a:b] *)
Lemma gather_up (l : list N) (a b : nat) : (a <= b <= length l)%nat ->
  gather l (arange_up (Z.of_nat a) (Z.of_nat b)) = firstn (b - a) (skipn a l).
Proof.
  intros H. unfold gather, arange_up. rewrite map_map. replace (Z.to_nat (Z.of_nat b - Z.of_nat a)) with (b - a)%nat by lia.
  apply nth_ext_N.
  - rewrite map_length, seq_length, firstn_length, skipn_length. lia.
  - intros j Hj. rewrite map_length, seq_length in Hj. rewrite nth_map_seq_N by exact Hj. rewrite nth_firstn_N by exact Hj. rewrite nth_skipn_N.
    f_equal. lia.
Qed.
(* x[np.arange(hi, lo - 1, -1)] = reversed x[lo:hi+1] *)
Lemma gather_down (l : list N) (hi lo : nat) : (lo <= S hi <= length l)%nat ->
  gather l (arange_down (Z.of_nat hi) (Z.of_nat lo - 1)) = rev (firstn (S hi - lo) (skipn lo l)).
Proof.
  intros H. unfold gather, arange_down. rewrite map_map. replace (Z.to_nat (Z.of_nat hi - (Z.of_nat lo - 1))) with (S hi - lo)%nat by lia.
  apply nth_ext_N.
  - rewrite map_length, seq_length, rev_length, firstn_length, skipn_length. lia.
  - intros j Hj. rewrite map_length, seq_length in Hj. rewrite nth_map_seq_N by exact Hj.
    rewrite rev_nth by (rewrite firstn_length, skipn_length; lia). rewrite firstn_length, skipn_length.
    rewrite nth_firstn_N by lia. rewrite nth_skipn_N. f_equal. lia.
Qed.

Theorem gen_frechet_op_is_model (op : N -> N -> N) (xl xr yl yr : list N) :
  length xr = length xl -> length yl = length xl -> length yr = length xl ->
  gen_frechet_op N op xl xr yl yr = frechet_op N op xl xr yl yr.
Proof.
  intros H1 H2 H3. unfold gen_frechet_op, frechet_op. cbv zeta. f_equal; f_equal; apply map_ext_in; intros i Hi; apply in_seq in Hi.
  - unfold frechet_left, amax. f_equal. f_equal.
    + change 0%Z with (Z.of_nat 0). replace (Z.of_nat i + 1)%Z with (Z.of_nat (S i)) by lia. rewrite gather_up by lia. rewrite Nat.sub_0_r. reflexivity.
    + change (-1)%Z with (Z.of_nat 0 - 1)%Z. rewrite gather_down by lia. rewrite Nat.sub_0_r. reflexivity.
  - unfold frechet_right, amin. f_equal. f_equal.
    + rewrite gather_up by lia. rewrite firstn_all2 by (rewrite skipn_length; lia). reflexivity.
    + replace (Z.of_nat (length xl) - 1)%Z with (Z.of_nat (length xl - 1)) by lia. rewrite gather_down by lia.
      rewrite firstn_all2 by (rewrite skipn_length; lia). reflexivity.
Qed.
Theorem gen_perfect_op_is_model (op : N -> N -> N) (xl xr yl yr : list N) :
  gen_perfect_op N op xl xr yl yr = perfect_op N op xl xr yl yr.
Proof. reflexivity. Qed.
Theorem gen_opposite_op_is_model (op : N -> N -> N) (xl xr yl yr : list N) :
  gen_opposite_op N op xl xr yl yr = opposite_op N op xl xr yl yr.
Proof. reflexivity. Qed.
Theorem gen_independent_op_is_model (op : N -> N -> N) (xl xr yl yr : list N) :
  gen_independent_op N op xl xr yl yr = independent_op N op xl xr yl yr.
Proof. reflexivity. Qed.
End K.
