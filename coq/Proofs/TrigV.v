(* C05: the array-valued forms of sin and cos (masked assignments of sin_vector / cos_vector, applied per element) enclose the
   function as well.  Their case tables differ from the scalar ones on the boundaries of the monotone segments (finding O28),
   so enclosure is proved for them separately: every Boolean condition is turned into a proposition about the reduced endpoints
   and the goal is closed by linear arithmetic over the monotone-segment facts. *)
From Coq Require Import Reals Lra Lia ZArith Bool List.
From PUN Require Import Base.Num Model.Interval Model.IntervalFun Proofs.IntervalFun Proofs.Trig.
Open Scope R_scope.

Ltac b2p H := repeat first [ rewrite andb_true_iff in H | rewrite orb_true_iff in H | rewrite andb_false_iff in H | rewrite orb_false_iff in H
                           | rewrite Rleb_true in H | rewrite Rltb_true in H | rewrite Rleb_false in H | rewrite Rltb_false in H ].
(* decide every comparison occurring in H from the hypotheses (used once the reduced endpoints are located in a region) *)
Ltac decide_bools H := repeat match type of H with
  | context [Rleb ?u ?v] => first [ rewrite (proj2 (Rleb_true u v)) in H by lra | rewrite (proj2 (Rleb_false u v)) in H by lra ]
  | context [Rltb ?u ?v] => first [ rewrite (proj2 (Rltb_true u v)) in H by lra | rewrite (proj2 (Rltb_false u v)) in H by lra ]
  end.
(* y < p | y = p | p < y < q | y = q | q < y *)
Ltac regions y p q :=
  destruct (Rlt_le_dec y p); [| destruct (Req_dec y p); [| destruct (Rlt_le_dec y q); [| destruct (Req_dec y q)]]].

Section SinV.
Variables (fsin : R -> R) (fmod : R -> R -> R).
Hypothesis fsin_is : forall x, fsin x = sin x.
Hypothesis fmod_spec : forall x, exists k : Z, fmod x (2 * PI) = x - IZR k * (2 * PI) /\ 0 <= fmod x (2 * PI) < 2 * PI.

Theorem isin_v_encl lo hi a b x : lo <= hi -> isin_v RN PI fsin fmod (lo, hi) = Ok (a, b) -> lo <= x <= hi -> a <= sin x <= b.
Proof.
  intros Hlh E Hx. assert (P := PI_RGT_0). unfold isin_v in E.
  unfold twopi, pihalf, three, two, mone, none, nzero, within in E. cbn [fst snd nleb nltb nsub nmul ndiv nofZ RN T] in E.
  rewrite !fsin_is in E.
  destruct (Rleb (2 * PI) (hi - lo)) eqn:W.
  { cbn [orb andb negb fst snd] in E. apply mkI_inv in E. destruct E as (-> & -> & _). pose proof (SIN_bound x). lra. }
  pose proof W as W'. apply Rleb_false in W'.
  destruct (reduce fmod fmod_spec lo hi x Hx W') as (x' & Es & _ & Hcase). rewrite <- Es. clear Es.
  destruct (fmod_spec lo) as (kl & _ & Rl). destruct (fmod_spec hi) as (kh & _ & Rh).
  set (yl := fmod lo (2 * PI)) in *. set (yh := fmod hi (2 * PI)) in *.
  assert (Syh : sin yh = sin (yh + 2 * PI)) by (rewrite <- (sin_2pi (yh + 2 * PI)); f_equal; lra).
  pose proof (SIN_bound x') as SB.
  pose proof (nmin_le (sin yl) (sin yh)) as [Mn1 Mn2]. pose proof (nmax_ge (sin yl) (sin yh)) as [Mx1 Mx2].
  pose proof sin_pi2 as S1. pose proof sin_3pi2 as S3. pose proof sin_5pi2 as S5.
  clear W kl kh Hx Hlh.
  cbn [orb] in E.
  match type of E with context [negb ?c] => set (case1 := c) in E end.
  destruct case1 eqn:K1; cbn [negb andb orb fst snd] in E.
  { apply mkI_inv in E. destruct E as (-> & -> & _). lra. }
  subst case1.
  (* the masked assignments, last one first *)
  match type of E with mkI _ (fst (if ?c then _ else _)) _ = _ => destruct c eqn:C4 end.
  { cbn [fst snd] in E. apply mkI_inv in E. destruct E as (-> & -> & _). clear K1. split; [lra|]. bprop.
    - (* yl in d2, yh in d1 *) destruct Hcase as [[NW1 NW2]|[NW1 NW2]].
      + assert (Ex : x' = yl) by lra. rewrite Ex. lra.
      + destruct (Rle_dec x' (3 * (PI / 2))); [pose proof (sin_dec0 yl x' (3 * (PI / 2))); lra|].
        pose proof (sin_inc1 (3 * (PI / 2)) x' (yh + 2 * PI)). lra.
    - (* yl in d2, yh in d3 *) destruct Hcase as [[NW1 NW2]|[NW1 NW2]]; [|lra].
      destruct (Rle_dec x' (3 * (PI / 2))); [pose proof (sin_dec0 yl x' (3 * (PI / 2))); lra | pose proof (sin_inc1 (3 * (PI / 2)) x' yh); lra]. }
  match type of E with mkI _ (fst (if ?c then _ else _)) _ = _ => destruct c eqn:C3 end.
  { cbn [fst snd] in E. apply mkI_inv in E. destruct E as (-> & -> & _). clear K1 C4. split; [|lra]. bprop.
    - (* yl in d1, yh in d2 *) destruct Hcase as [[NW1 NW2]|[NW1 NW2]]; [|lra].
      destruct (Rle_dec x' (PI / 2)); [pose proof (sin_inc0 yl x' (PI / 2)); lra | pose proof (sin_dec0 (PI / 2) x' yh); lra].
    - (* yl in d3, yh in d2 *) destruct Hcase as [[NW1 NW2]|[NW1 NW2]].
      + assert (Ex : x' = yl) by lra. rewrite Ex. lra.
      + destruct (Rle_dec x' (5 * (PI / 2))); [pose proof (sin_inc1 yl x' (5 * (PI / 2))); lra|].
        pose proof (sin_dec1 (5 * (PI / 2)) x' (yh + 2 * PI)). lra. }
  match type of E with mkI _ (fst (if ?c then _ else _)) _ = _ => destruct c eqn:C2 end.
  { cbn [fst snd] in E. apply mkI_inv in E. destruct E as (-> & -> & _). clear K1 C3 C4. bprop.
    destruct Hcase as [[NW1 NW2]|[NW1 NW2]]; [apply sin_dec0; lra|lra]. }
  (* nothing assigned: r = (sin yl, sin yh).  Neither reduced endpoint lies in [pi/2, 3pi/2] *)
  cbn [fst snd] in E. apply mkI_inv in E. destruct E as (-> & -> & _).
  b2p K1. b2p C2. b2p C3. b2p C4. destruct K1 as [[[K1a K1b] K1c] K1d]. destruct C3 as [C3a C3b]. destruct C4 as [C4a C4b].
  assert (Hyl : yl < PI / 2 \/ 3 * (PI / 2) < yl).
  { clear K1a K1b K1d C3a C3b Hcase. destruct (Rlt_le_dec yl (PI / 2)); [left; assumption|]. destruct (Rlt_le_dec (3 * (PI / 2)) yl); [right; assumption|]. exfalso.
    assert (PI / 2 < yh) by (clear K1c C2 C4b; lra). assert (yh < 3 * (PI / 2)) by (clear K1c C2 C4a; lra).
    clear C4a C4b. assert (yh < yl) by (clear K1c; lra). clear C2. lra. }
  assert (Hyh : yh < PI / 2 \/ 3 * (PI / 2) < yh).
  { clear K1a K1b K1c K1d C2 C4a C4b Hcase. destruct (Rlt_le_dec yh (PI / 2)); [left; assumption|]. destruct (Rlt_le_dec (3 * (PI / 2)) yh); [right; assumption|]. exfalso.
    destruct Hyl; [clear C3b|clear C3a]; lra. }
  clear C2 C3a C3b C4a C4b K1c.
  destruct Hyl as [Hyl|Hyl], Hyh as [Hyh|Hyh].
  - clear K1b K1d. destruct Hcase as [[NW1 NW2]|[NW1 NW2]]; [apply sin_inc0; lra|exfalso; lra].
  - exfalso. clear K1a K1d. lra.
  - clear K1a K1b K1d. destruct Hcase as [[NW1 NW2]|[NW1 NW2]]; [exfalso; lra|]. rewrite Syh. apply sin_inc1; lra.
  - clear K1a K1b. destruct Hcase as [[NW1 NW2]|[NW1 NW2]]; [apply sin_inc1; lra|exfalso; lra].
Qed.
End SinV.

Section CosV.
Variables (fcos : R -> R) (fmod : R -> R -> R).
Hypothesis fcos_is : forall x, fcos x = cos x.
Hypothesis fmod_spec : forall x, exists k : Z, fmod x (2 * PI) = x - IZR k * (2 * PI) /\ 0 <= fmod x (2 * PI) < 2 * PI.

Theorem icos_v_encl lo hi a b x : lo <= hi -> icos_v RN PI fcos fmod (lo, hi) = Ok (a, b) -> lo <= x <= hi -> a <= cos x <= b.
Proof.
  intros Hlh E Hx. assert (P := PI_RGT_0). unfold icos_v in E.
  unfold twopi, two, mone, none, nzero, within in E. cbn [fst snd nleb nltb nsub nmul ndiv nofZ RN T] in E.
  rewrite !fcos_is in E.
  destruct (Rleb (2 * PI) (hi - lo)) eqn:W.
  { cbn [orb andb negb fst snd] in E. apply mkI_inv in E. destruct E as (-> & -> & _). pose proof (COS_bound x). lra. }
  pose proof W as W'. apply Rleb_false in W'.
  destruct (reduce fmod fmod_spec lo hi x Hx W') as (x' & _ & Ec & Hcase). rewrite <- Ec. clear Ec.
  destruct (fmod_spec lo) as (kl & _ & Rl). destruct (fmod_spec hi) as (kh & _ & Rh).
  set (yl := fmod lo (2 * PI)) in *. set (yh := fmod hi (2 * PI)) in *.
  assert (Cyh : cos yh = cos (yh + 2 * PI)) by (rewrite <- (cos_2pi (yh + 2 * PI)); f_equal; lra).
  pose proof (COS_bound x') as CB.
  pose proof (nmin_le (cos yl) (cos yh)) as [Mn1 Mn2]. pose proof (nmax_ge (cos yl) (cos yh)) as [Mx1 Mx2].
  assert (C2pi : cos (2 * PI) = 1) by apply cos_2PI. assert (Cpi : cos PI = -1) by apply cos_PI.
  clear W kl kh Hx Hlh.
  cbn [orb] in E.
  (* the masked assignments, last one first *)
  match type of E with mkI _ (fst (if ?c then _ else _)) _ = _ => destruct c eqn:K1 end.
  { cbn [fst snd] in E. apply mkI_inv in E. destruct E as (-> & -> & _). lra. }
  match type of E with mkI _ (fst (if ?c then _ else _)) _ = _ => destruct c eqn:Cc end.
  { cbn [fst snd] in E. apply mkI_inv in E. destruct E as (-> & -> & _). clear K1. bprop.
    destruct Hcase as [[NW1 NW2]|[NW1 NW2]]; [apply cos_dec0; lra|lra]. }
  match type of E with mkI _ (fst (if ?c then _ else _)) _ = _ => destruct c eqn:Cb end.
  { cbn [fst snd] in E. apply mkI_inv in E. destruct E as (-> & -> & _). clear K1 Cc. split; [lra|]. bprop.
    destruct Hcase as [[NW1 NW2]|[NW1 NW2]]; [|lra].
    destruct (Rle_dec x' PI); [pose proof (cos_dec0 yl x' PI); lra | pose proof (cos_inc0 PI x' yh); lra]. }
  match type of E with mkI _ (fst (if ?c then _ else _)) _ = _ => destruct c eqn:Ca end.
  { cbn [fst snd] in E. apply mkI_inv in E. destruct E as (-> & -> & _). clear K1 Cc Cb. split; [|lra]. bprop.
    destruct Hcase as [[NW1 NW2]|[NW1 NW2]].
    - assert (Ex : x' = yl) by lra. rewrite Ex. lra.
    - destruct (Rle_dec x' (2 * PI)); [pose proof (cos_inc0 yl x' (2 * PI)); lra|]. pose proof (cos_dec1 (2 * PI) x' (yh + 2 * PI)). lra. }
  (* nothing assigned: r = (cos yl, cos yh).  Both reduced endpoints lie in (pi, 2 pi), in order *)
  cbn [fst snd] in E. apply mkI_inv in E. destruct E as (-> & -> & _).
  b2p K1. b2p Cc. b2p Cb. b2p Ca. destruct K1 as [K1a K1b].
  assert (Hyl : PI < yl).
  { clear K1b Ca Hcase. destruct (Rlt_le_dec PI yl); [assumption|exfalso].
    destruct (Rle_dec yh PI); [clear Cb; destruct (Rle_dec yl yh); [clear K1a|clear Cc]; lra | clear K1a Cc; lra]. }
  assert (Hyh : PI < yh) by (clear K1a K1b Cc Cb Hcase; destruct (Rlt_le_dec PI yh); [assumption|exfalso; lra]).
  assert (Hord : yl <= yh) by (clear K1a Cc Cb Ca Hcase; destruct (Rle_dec yl yh); [assumption|exfalso; lra]).
  clear K1a K1b Cc Cb Ca.
  destruct Hcase as [[NW1 NW2]|[NW1 NW2]]; [apply cos_inc0; lra|exfalso; lra].
Qed.
End CosV.
