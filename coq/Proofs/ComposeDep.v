(* C03 in the sample form of Proofs/Compose.v: under PERFECT dependence the two samples are comonotone (one common re-indexing of the outcomes
   sorts both), under OPPOSITE dependence countermonotone (it sorts one and reverses the other); the step-k-with-step-k (step n-1-k) rule of
   perfect_op / opposite_op then bounds the sample of outcomes, for +, -, x and / (divisor steps free of zero). *)
From Coq Require Import Reals Lra List Arith Lia Bool Permutation Sorted.
From PUN Require Import Base.Num Base.Sort Model.Interval Model.Pbox
  Proofs.ListR Proofs.Hull Proofs.IntervalOps Proofs.PboxWF Proofs.DepOps Proofs.Compose Proofs.ComposeNaive.
Import ListNotations.
Open Scope R_scope.

Definition comonotone (u v : list R) : Prop :=
  exists ps, Permutation ps (combine u v) /\ Rsorted (map fst ps) /\ Rsorted (map snd ps).
Definition countermonotone (u v : list R) : Prop :=
  exists ps, Permutation ps (combine u v) /\ Rsorted (map fst ps) /\ Rsorted (rev (map snd ps)).

Lemma nth_combine_R (A B : list R) j : length A = length B -> nth j (combine A B) (0, 0) = (nth j A 0, nth j B 0).
Proof. intros H. apply combine_nth. exact H. Qed.

Section Dep.
Variable op : bop.
Variables XL XR YL YR : list R.
Variable n : nat.
Hypothesis lXL : length XL = n. Hypothesis lXR : length XR = n.
Hypothesis lYL : length YL = n. Hypothesis lYR : length YR = n.
Hypothesis pX : ple XL XR. Hypothesis pY : ple YL YR.
Hypothesis nozero : is_div op = true -> forall j, (j < n)%nat -> ~ has0 (nth j YL 0, nth j YR 0).

(* the outcomes of outcome-wise pairs that lie step by step in the cells (X_k, Y_sigma(k)) are bounded by the sorted cell hulls *)
Lemma cells_bound (us vs : list R) (ys : list (R * R)) :
  length us = n -> length vs = n -> length ys = n ->
  (forall k, (k < n)%nat -> nth k XL 0 <= nth k us 0 <= nth k XR 0) ->
  (forall k, (k < n)%nat -> fst (nth k ys (0, 0)) <= nth k vs 0 <= snd (nth k ys (0, 0)) /\ wfp (nth k ys (0, 0)) /\ (is_div op = true -> ~ has0 (nth k ys (0, 0)))) ->
  let cells := map2 (istep (opR op)) (combine XL XR) ys in
  bounds (Rsort (map fst cells)) (Rsort (map snd cells)) (map2 (opR op) us vs).
Proof.
  intros Lu Lv Ly Hu Hv cells.
  assert (Lc : length cells = n) by (unfold cells; rewrite map2_length, combine_length, lXL, lXR, Ly; lia).
  assert (Lz : length (map2 (opR op) us vs) = n) by (rewrite map2_length, Lu, Lv; lia).
  split; [rewrite Rsort_length, map_length; lia|]. split; [rewrite !Rsort_length, !map_length; reflexivity|].
  intros s Hs Hss i Hi. rewrite Rsort_length, map_length, Lc in Hi.
  rewrite <- (Rsort_id s Hss). rewrite (Rsort_of_perm s _ Hs).
  assert (Hcell : forall k, (k < n)%nat -> nth k (map fst cells) 0 <= nth k (map2 (opR op) us vs) 0 <= nth k (map snd cells) 0).
  { intros k Hk. rewrite (nth_indep (map fst cells) 0 (fst (0, 0))), (nth_indep (map snd cells) 0 (snd (0, 0))) by (rewrite map_length; lia).
    rewrite !map_nth. unfold cells. rewrite (map2_nth _ _ _ (0, 0) (0, 0) (0, 0)) by (rewrite ?combine_length; lia).
    rewrite nth_combine_R by lia. rewrite (map2_nth _ _ _ 0 0 0) by lia.
    destruct (Hv k Hk) as (Hvk & Wy & Zy). unfold istep.
    apply corner_hull_encl; auto; [unfold wfp; cbn [fst snd]; apply ple_nth; auto; lia|cbn [fst snd]; apply Hu; exact Hk]. }
  split; apply sort_pointwise_le; rewrite ?map_length; try lia; intros j Hj; apply Hcell; lia.
Qed.

Theorem perfect_bounds (u v : list R) : bounds XL XR u -> bounds YL YR v -> comonotone u v ->
  bounds (fst (perfect_op RN (opR op) XL XR YL YR)) (snd (perfect_op RN (opR op) XL XR YL YR)) (map2 (opR op) u v).
Proof.
  intros Bu Bv (ps & HP & S1 & S2).
  assert (Lu : length u = n) by (destruct Bu as (H & _); lia). assert (Lv : length v = n) by (destruct Bv as (H & _); lia).
  assert (Pu : Permutation u (map fst ps)) by (rewrite <- (map_fst_combine' u v ltac:(lia)) at 1; apply Permutation_map, Permutation_sym; exact HP).
  assert (Pv : Permutation v (map snd ps)) by (rewrite <- (map_snd_combine' u v ltac:(lia)) at 1; apply Permutation_map, Permutation_sym; exact HP).
  assert (Lp : length ps = n) by (rewrite (Permutation_length HP), combine_length; lia).
  apply (bounds_perm _ _ (map2 (opR op) (map fst ps) (map snd ps))).
  { rewrite !map2_as_combine, combine_fst_snd. apply Permutation_map. exact HP. }
  rewrite perfect_op_spec by lia. cbn [fst snd].
  apply cells_bound; rewrite ?map_length, ?combine_length; try lia.
  - intros k Hk. apply (sorted_in_own_step XL XR (map fst ps) k (bounds_perm _ _ _ _ Pu Bu) S1). lia.
  - intros k Hk. rewrite nth_combine_R by lia. cbn [fst snd]. split; [|split].
    + apply (sorted_in_own_step YL YR (map snd ps) k (bounds_perm _ _ _ _ Pv Bv) S2). lia.
    + unfold wfp; cbn [fst snd]. apply ple_nth; auto; lia.
    + intros Hd. apply nozero; auto.
Qed.

Theorem opposite_bounds (u v : list R) : bounds XL XR u -> bounds YL YR v -> countermonotone u v ->
  bounds (fst (opposite_op RN (opR op) XL XR YL YR)) (snd (opposite_op RN (opR op) XL XR YL YR)) (map2 (opR op) u v).
Proof.
  intros Bu Bv (ps & HP & S1 & S2).
  assert (Lu : length u = n) by (destruct Bu as (H & _); lia). assert (Lv : length v = n) by (destruct Bv as (H & _); lia).
  assert (Pu : Permutation u (map fst ps)) by (rewrite <- (map_fst_combine' u v ltac:(lia)) at 1; apply Permutation_map, Permutation_sym; exact HP).
  assert (Pv : Permutation v (map snd ps)) by (rewrite <- (map_snd_combine' u v ltac:(lia)) at 1; apply Permutation_map, Permutation_sym; exact HP).
  assert (Lp : length ps = n) by (rewrite (Permutation_length HP), combine_length; lia).
  apply (bounds_perm _ _ (map2 (opR op) (map fst ps) (map snd ps))).
  { rewrite !map2_as_combine, combine_fst_snd. apply Permutation_map. exact HP. }
  rewrite opposite_op_spec by lia. cbn [fst snd].
  apply cells_bound; rewrite ?map_length, ?rev_length, ?combine_length; try lia.
  - intros k Hk. apply (sorted_in_own_step XL XR (map fst ps) k (bounds_perm _ _ _ _ Pu Bu) S1). lia.
  - intros k Hk. rewrite rev_nth by (rewrite combine_length; lia). rewrite combine_length, lYL, lYR, Nat.min_id.
    rewrite nth_combine_R by lia. cbn [fst snd].
    assert (Bv' : bounds YL YR (rev (map snd ps))) by (apply (bounds_perm _ _ v); [eapply Permutation_trans; [exact Pv|apply Permutation_rev]|exact Bv]).
    pose proof (sorted_in_own_step YL YR (rev (map snd ps)) (n - S k) Bv' S2 ltac:(lia)) as H.
    rewrite rev_nth in H by (rewrite map_length; lia). rewrite map_length, Lp in H.
    replace (n - S (n - S k))%nat with k in H by lia.
    split; [exact H|split].
    + unfold wfp; cbn [fst snd]. apply ple_nth; auto; lia.
    + intros Hd. apply nozero; auto. lia.
Qed.
End Dep.
