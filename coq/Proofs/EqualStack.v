(* Equal-weight stacking is an order statistic: with N focal values of mass 1/N each, listed in ANY order, the generalised inverse at a level a
   with t/N < a <= (t+1)/N is the (t+1)-th smallest value.  (The reference `equal_weight_problem` of the C14 check computes exactly this.) *)
From Coq Require Import Reals Lra Lia List Permutation.
From PUN Require Import Base.Num Base.Sort Model.Interval Model.Pbox Proofs.ListR Proofs.Stacking.
Import ListNotations.
Open Scope R_scope.

Lemma combine_repeat_perm (c : R) (s s' : list R) : Permutation s s' ->
  Permutation (combine s (repeat c (length s))) (combine s' (repeat c (length s'))).
Proof.
  induction 1 as [|x l l' H IH|x y l|l l' l'' H1 IH1 H2 IH2]; cbn [length repeat combine].
  - constructor.
  - constructor; exact IH.
  - apply perm_swap.
  - eapply perm_trans; eassumption.
Qed.

Lemma Rsum_repeat_inv (n : nat) : (0 < n)%nat -> Rsum (repeat (/ INR n) n) = 1.
Proof.
  intros Hn. assert (E : forall k, Rsum (repeat (/ INR n) k) = INR k * / INR n).
  { induction k as [|k IH]; cbn [repeat Rsum]; [cbn; lra|]. change (Rsum (repeat (/ INR n) k)) with (Rsum (repeat (/ INR n) k)) in IH.
    unfold Rsum in *. cbn [fold_right]. rewrite IH, S_INR. lra. }
  rewrite E. apply Rinv_r. apply not_0_INR. lia.
Qed.

Theorem equal_weight_order_statistic (s : list R) (t : nat) (a : R) : (t < length s)%nat ->
  INR t / INR (length s) < a <= INR (S t) / INR (length s) -> 0 < a <= 1 ->
  ecdf_at s (repeat (/ INR (length s)) (length s)) a = nth t (Rsort s) 0.
Proof.
  intros Ht Hlev Ha. set (n := length s) in *.
  assert (Hn : (0 < n)%nat) by lia.
  assert (Hpos : 0 < / INR n) by (apply Rinv_0_lt_compat, lt_0_INR; lia).
  assert (Hw : forall k, Forall (fun m => 0 <= m) (repeat (/ INR n) k)).
  { intros k. apply Forall_forall. intros x Hx. apply repeat_spec in Hx. subst x. lra. }
  pose proof (Rsort_length s) as HL. fold n in HL.
  rewrite (ecdf_at_perm s (repeat (/ INR n) n) (Rsort s) (repeat (/ INR n) n) a).
  - rewrite <- HL at 1 2. rewrite <- HL in Hlev, Ht. apply roundtrip_level; auto using Rsort_sorted.
  - rewrite repeat_length; reflexivity.
  - rewrite repeat_length; exact HL.
  - intros E; subst s; cbn in Hn; lia.
  - intros E. assert (length (Rsort s) = 0%nat) by (rewrite E; reflexivity). lia.
  - exact Ha.
  - apply Hw.
  - apply Hw.
  - rewrite Rsum_repeat_inv by lia. lra.
  - rewrite Rsum_repeat_inv by lia. lra.
  - pose proof (combine_repeat_perm (/ INR n) s (Rsort s) (Rsort_perm s)) as P. assert (HL' : @length R (Rsort s) = @length R s) by exact HL. rewrite HL' in P. exact P.
Qed.

(* the same with the weights as the mixed-propagation model writes them (Model/Mixed.v: equal_weights) *)
Lemma equal_weights_inv (n : nat) : equal_weights RN n = repeat (/ INR n) n.
Proof.
  unfold equal_weights. cbn [ndiv nofZ RN T]. unfold none; cbn [nofZ RN T]. f_equal.
  rewrite <- INR_IZR_INZ. unfold Rdiv. lra.
Qed.
Theorem equal_weight_mixture_order_statistic (s : list R) (t : nat) (a : R) : (t < length s)%nat ->
  INR t / INR (length s) < a <= INR (S t) / INR (length s) -> 0 < a <= 1 ->
  ecdf_at s (equal_weights RN (length s)) a = nth t (Rsort s) 0.
Proof. intros. rewrite equal_weights_inv. apply equal_weight_order_statistic; assumption. Qed.
