(* C13: "the vertex method ... equals the true range for functions monotone in each argument".
   The corners enumerated by b2b's endpoints strategy are the corners of the parametric model (Model/Parametric.v), so the corner
   enclosure theorem of C09 applies: a response that is monotone in each argument separately (either direction, possibly depending on
   the other arguments) takes all its values over the box between the least and the greatest corner value. *)
From Coq Require Import Reals Lra List Bool.
From PUN Require Import Base.Num Model.Interval Model.IntervalFun Model.Pbox Model.Parametric Model.B2B Proofs.ListR Proofs.WFExpr Proofs.Parametric Proofs.B2B.
Import ListNotations.
Open Scope R_scope.

Lemma corners_same (box : list (R * R)) : B2B.corners RN box = Parametric.corners RN box.
Proof.
  unfold B2B.corners. induction box as [|[lo hi] r IH]; [reflexivity|].
  cbn [map cartesian Parametric.corners flat_map fst snd]. rewrite IH, app_nil_r. reflexivity.
Qed.

Section S.
Variables (fexp : R -> R) (fpow : R -> nat -> R).
Theorem endpoints_exact_monotone e box r xs :
  wf_box box -> in_box xs box -> coord_mono (eval RN fexp fpow e) box -> endpoints RN fexp fpow e box = Ok r ->
  in_pr (eval RN fexp fpow e xs) r.
Proof.
  intros W Hin Hm E. unfold endpoints, mkI in E. cbn [nleb RN T] in E. destruct (Rleb _ _); inversion E; subst. clear E.
  unfold in_pr; cbn [fst snd]. rewrite corners_same.
  assert (Hw : Forall (fun i : R * R => fst i <= snd i) box) by (eapply Forall_impl; [|exact W]; intros a Ha; exact Ha).
  assert (Hi : Forall2 inb xs box) by exact Hin.
  exact (corner_enclosure box (eval RN fexp fpow e) xs Hw Hi Hm).
Qed.
End S.

(* ---------- the tiles of subintervalise partition each dimension exactly: n tiles, the first starts at the lower end of the box, the last
   ends at its upper end, and each tile ends where the next one starts (no gap, no overlap beyond the shared end point) ---------- *)
From Coq Require Import Arith Lia.
Lemma combine_consec_nth (xs : list R) : forall k, (S k < length xs)%nat ->
  nth k (combine (removelast xs) (tl xs)) (0, 0) = (nth k xs 0, nth (S k) xs 0).
Proof.
  induction xs as [|a [|b r] IH]; intros k Hk; cbn [length] in Hk; try lia.
  destruct k as [|k].
  - destruct r; reflexivity.
  - change (removelast (a :: b :: r)) with (a :: removelast (b :: r)). cbn [tl combine nth].
    specialize (IH k ltac:(cbn [length]; lia)). cbn [tl] in IH.
    destruct r as [|c r]; [cbn [length] in Hk; lia|]. exact IH.
Qed.
Lemma combine_consec_length (xs : list R) : length (combine (removelast xs) (tl xs)) = (length xs - 1)%nat.
Proof.
  induction xs as [|a [|b r] IH]; try reflexivity.
  change (removelast (a :: b :: r)) with (a :: removelast (b :: r)). cbn [tl combine length]. cbn [tl] in IH.
  destruct r as [|c r]; [reflexivity|]. rewrite IH. cbn [length]. lia.
Qed.
Theorem tiles1_partition (p : R * R) n : (1 <= n)%nat ->
  let t := tiles1 RN p n in
  length t = n /\ fst (nth 0 t (0, 0)) = fst p /\ snd (nth (n - 1) t (0, 0)) = snd p /\
  (forall k, (S k < n)%nat -> snd (nth k t (0, 0)) = fst (nth (S k) t (0, 0))).
Proof.
  intros Hn t. unfold t, tiles1. cbv zeta.
  pose proof (linspace_length (fst p) (snd p) (S n)) as Hlen.
  pose proof (linspace_first (fst p) (snd p) n Hn) as Hf. pose proof (linspace_last (fst p) (snd p) n Hn) as Hl.
  split; [rewrite combine_consec_length, linspace_length; lia|]. split; [|split].
  - rewrite combine_consec_nth by (rewrite linspace_length; lia). cbn [fst]. exact Hf.
  - rewrite combine_consec_nth by (rewrite linspace_length; lia). cbn [snd]. rewrite <- Hl, last_as_nth, linspace_length.
    replace (S (n - 1)) with (S n - 1)%nat by lia. reflexivity.
  - intros k Hk. rewrite !combine_consec_nth by (rewrite linspace_length; lia). reflexivity.
Qed.
