(* C06: p-box with a real number, negation, reciprocal and monotone maps act step by step. *)
From Coq Require Import Reals Lra List Arith Lia Bool Permutation Sorted.
From PUN Require Import Base.Num Base.Sort Model.Interval Model.Pbox Proofs.ListR Proofs.PboxWF.
Import ListNotations.
Open Scope R_scope.

Section U.
Variable steps : nat.
Variables plo phi : R.
Notation WFs := (WF steps).

Theorem pnum_mono (f : R -> R -> R) (c : R) (p : list R * list R) :
  WFs p -> (forall a b, a <= b -> f a c <= f b c) ->
  pnum RN steps plo phi f p c = Ok (map (fun x => f x c) (fst p), map (fun x => f x c) (snd p)).
Proof.
  intros [H1 H2 H3 H4 H5] Hf. unfold pnum, mk_staircase_lists. cbn [T RN].
  change (nsort RN) with Rsort. rewrite !Rsort_map_mono by assumption.
  apply mk_ordered; rewrite ?map_length; auto; try (apply map_mono_sorted; assumption);
    try (apply ple_map2; auto; intros; apply Hf; assumption).
Qed.
Theorem pnum_anti (f : R -> R -> R) (c : R) (p : list R * list R) :
  WFs p -> (forall a b, a <= b -> f b c <= f a c) ->
  pnum RN steps plo phi f p c = Ok (map (fun x => f x c) (rev (snd p)), map (fun x => f x c) (rev (fst p))).
Proof.
  intros [H1 H2 H3 H4 H5] Hf. unfold pnum, mk_staircase_lists. cbn [T RN].
  change (nsort RN) with Rsort. rewrite !Rsort_map_anti by assumption.
  apply mk_reversed; rewrite ?map_length, ?rev_length; auto; try (apply map_anti_rev_sorted; assumption);
    (* the candidate right bound lies below the candidate left bound everywhere *)
    try (apply ple_map_anti; [intros a b Hab; apply Hf; assumption | apply ple_rev; exact H5]).
Qed.

Theorem pneg_steps (p : list R * list R) : WFs p ->
  pneg RN steps plo phi p = Ok (map Ropp (rev (snd p)), map Ropp (rev (fst p))).
Proof.
  intros [H1 H2 H3 H4 H5]. unfold pneg, mk_staircase_lists. cbn [T RN nopp].
  change (nsort RN) with Rsort.
  assert (A : forall l, Rsorted l -> Rsorted (map Ropp (rev l))) by (intros; apply map_anti_rev_sorted; auto; intros; lra).
  rewrite !Rsort_id by (apply A; assumption).
  apply mk_ordered; rewrite ?map_length, ?rev_length; auto;
    try (apply ple_map_anti; [intros; lra | apply ple_rev; exact H5]).
Qed.
Lemma WF_neg (p : list R * list R) : WFs p -> WFs (map Ropp (rev (snd p)), map Ropp (rev (fst p))).
Proof. intros [H1 H2 H3 H4 H5]. constructor; cbn [fst snd]; rewrite ?map_length, ?rev_length; auto;
  try (apply map_anti_rev_sorted; auto; intros; lra). apply ple_map_anti; [intros; lra | apply ple_rev; exact H5]. Qed.
Theorem pneg_involutive (p : list R * list R) : WFs p ->
  rbind (pneg RN steps plo phi p) (pneg RN steps plo phi) = Ok p.
Proof.
  intros W. rewrite (pneg_steps p W). cbn [rbind]. rewrite (pneg_steps _ (WF_neg p W)). cbn [fst snd].
  rewrite <- !map_rev, !rev_involutive, !map_map.
  destruct p as [L R']; cbn [fst snd]. f_equal. f_equal; rewrite <- (map_id L) at 2 || rewrite <- (map_id R') at 2; apply map_ext; intros; lra.
Qed.

(* reciprocal of a p-box of one sign; a support containing zero raises *)
Theorem precip_steps (p : list R * list R) : WFs p -> (0 < nth 0 (fst p) 0 \/ last (snd p) 0 < 0) ->
  precip RN steps plo phi p = Ok (map (fun x => 1 / x) (rev (snd p)), map (fun x => 1 / x) (rev (fst p))).
Proof.
  intros W Hs. pose proof W as [H1 H2 H3 H4 H5]. unfold precip. cbn [T RN nleb ndiv]. unfold nth0, lastn, nzero, none; cbn [nofZ RN T].
  assert (G : Rleb (nth 0 (fst p) 0) 0 && Rleb 0 (last (snd p) 0) = false).
  { destruct Hs; [rewrite (proj2 (Rleb_false _ _)) by assumption; reflexivity|].
    rewrite andb_comm. rewrite (proj2 (Rleb_false _ _)) by assumption; reflexivity. }
  rewrite G.
  (* every element has the sign of the support *)
  assert (Hsign : (forall x, In x (fst p) \/ In x (snd p) -> 0 < x) \/ (forall x, In x (fst p) \/ In x (snd p) -> x < 0)).
  { destruct Hs as [Hp|Hn]; [left|right]; intros x Hx.
    - assert (Hx' : exists i, (i < steps)%nat /\ nth i (fst p) 0 <= x).
      { destruct Hx as [Hx|Hx]; destruct (In_nth _ _ 0 Hx) as (i & Hi & <-).
        - exists i; split; [lia|lra].
        - exists i; split; [lia|]. apply ple_nth; auto. lia. }
      destruct Hx' as (i & Hi & Hle). pose proof (Rsorted_nth _ H3 0 i ltac:(lia)). lra.
    - assert (Hx' : exists i, (i < steps)%nat /\ x <= nth i (snd p) 0).
      { destruct Hx as [Hx|Hx]; destruct (In_nth _ _ 0 Hx) as (i & Hi & <-).
        - exists i; split; [lia|]. apply ple_nth; auto.
        - exists i; split; [lia|lra]. }
      destruct Hx' as (i & Hi & Hle).
      assert (Hlast : nth i (snd p) 0 <= last (snd p) 0).
      { rewrite last_as_nth. apply Rsorted_nth; auto. lia. }
      lra. }
  assert (Hanti : forall l, Rsorted l -> (forall x, In x l -> In x (fst p) \/ In x (snd p)) -> Rsorted (map (fun x => 1 / x) (rev l))).
  { intros l Sl Hin. apply nth_Rsorted. intros i j Hij. rewrite map_length, rev_length in Hij.
    rewrite !(nth_indep (map (fun x => 1 / x) (rev l)) 0 (1 / 0)) by (rewrite map_length, rev_length; lia).
    rewrite !(map_nth (fun x => 1 / x)). pose proof (rev_sorted_anti l Sl i j Hij) as Hle.
    assert (Ii : In (nth i (rev l) 0) l) by (apply in_rev, nth_In; rewrite rev_length; lia).
    assert (Ij : In (nth j (rev l) 0) l) by (apply in_rev, nth_In; rewrite rev_length; lia).
    unfold Rdiv. rewrite !Rmult_1_l.
    destruct Hsign as [Hp|Hn].
    - apply Rinv_le_contravar; [apply Hp, Hin, Ij | exact Hle].
    - pose proof (Hn _ (Hin _ Ii)). pose proof (Hn _ (Hin _ Ij)).
      apply Ropp_le_cancel. rewrite <- !Rinv_opp. apply Rinv_le_contravar; lra. }
  apply mk_ordered; rewrite ?map_length, ?rev_length; auto; try (apply Hanti; auto; fail).
  - apply nth_ple; [rewrite !map_length, !rev_length; lia|]. intros i Hi. rewrite map_length, rev_length in Hi.
    rewrite !(nth_indep (map (fun x => 1 / x) (rev _)) 0 (1 / 0)) by (rewrite map_length, rev_length; lia).
    rewrite !(map_nth (fun x => 1 / x)). rewrite !rev_nth by lia. rewrite H1, H2.
    pose proof (ple_nth _ _ H5 (steps - S i) ltac:(lia)) as Hle.
    assert (Ia : In (nth (steps - S i) (fst p) 0) (fst p)) by (apply nth_In; lia).
    assert (Ib : In (nth (steps - S i) (snd p) 0) (snd p)) by (apply nth_In; lia).
    unfold Rdiv. rewrite !Rmult_1_l. destruct Hsign as [Hp|Hn].
    + apply Rinv_le_contravar; [apply Hp; left; exact Ia | exact Hle].
    + pose proof (Hn _ (or_introl Ia)). pose proof (Hn _ (or_intror Ib)).
      apply Ropp_le_cancel. rewrite <- !Rinv_opp. apply Rinv_le_contravar; lra.
Qed.
Theorem precip_zero (p : list R * list R) : nth 0 (fst p) 0 <= 0 <= last (snd p) 0 ->
  precip RN steps plo phi p = Raise ZeroDivision.
Proof. intros [A B]. unfold precip. cbn [T RN nleb]. unfold nth0, lastn, nzero; cbn [nofZ RN T].
  rewrite (proj2 (Rleb_true _ _) A), (proj2 (Rleb_true _ _) B). reflexivity. Qed.

(* P ** c with a negative real exponent on a support containing zero raises, whatever x ** c and the zero-straddling route are *)
Theorem ppow_zero (powf : R -> R -> R) (route0 : list R * list R -> R -> res (list R * list R)) (p : list R * list R) (c : R) :
  c < 0 -> nth 0 (fst p) 0 <= 0 <= last (snd p) 0 -> ppow RN steps plo phi powf route0 p c = Raise ZeroDivision.
Proof. intros C [A B]. unfold ppow. cbn [T RN nleb nltb]. unfold nth0, lastn, nzero; cbn [nofZ RN T].
  rewrite (proj2 (Rltb_true _ _) C), (proj2 (Rleb_true _ _) A), (proj2 (Rleb_true _ _) B). reflexivity. Qed.
(* ... and a value it returns did not come from that case: the exponent is non-negative or zero lies outside the support *)
Theorem ppow_ok_guard (powf : R -> R -> R) route0 (p : list R * list R) (c : R) r :
  ppow RN steps plo phi powf route0 p c = Ok r -> 0 <= c \/ 0 < nth 0 (fst p) 0 \/ last (snd p) 0 < 0.
Proof.
  intros E. destruct (Rle_dec 0 c) as [|C]; [left; assumption|right].
  destruct (Rlt_dec 0 (nth 0 (fst p) 0)) as [|A]; [left; assumption|right].
  destruct (Rlt_dec (last (snd p) 0) 0) as [|B]; [assumption|exfalso].
  rewrite ppow_zero in E; [discriminate|lra|lra].
Qed.

(* a map that is nondecreasing on a domain containing the support (exp, log, sqrt, positive powers) *)
Theorem punary_mono (f : R -> R) (D : R -> Prop) (p : list R * list R) :
  WFs p -> (forall x, In x (fst p) \/ In x (snd p) -> D x) -> (forall a b, D a -> D b -> a <= b -> f a <= f b) ->
  punary RN steps plo phi f p = Ok (map f (fst p), map f (snd p)).
Proof.
  intros [H1 H2 H3 H4 H5] HD Hf. unfold punary, mk_staircase.
  assert (S : forall l, Rsorted l -> (forall x, In x l -> D x) -> Rsorted (map f l)).
  { intros l Sl Dl. apply nth_Rsorted. intros i j Hij. rewrite map_length in Hij.
    rewrite !(nth_indep (map f l) 0 (f 0)) by (rewrite map_length; lia). rewrite !map_nth.
    apply Hf; [apply Dl, nth_In; lia | apply Dl, nth_In; lia | apply Rsorted_nth; auto]. }
  apply mk_ordered; rewrite ?map_length; auto.
  - apply nth_ple; [rewrite !map_length; lia|]. intros i Hi. rewrite map_length in Hi.
    rewrite !(nth_indep (map f _) 0 (f 0)) by (rewrite map_length; lia). rewrite !map_nth.
    apply Hf; [apply HD; left; apply nth_In; lia | apply HD; right; apply nth_In; lia | apply ple_nth; auto].
Qed.

(* laws *)
Lemma WF_map_mono (g : R -> R) (p : list R * list R) : WFs p -> (forall a b, a <= b -> g a <= g b) -> WFs (map g (fst p), map g (snd p)).
Proof. intros [H1 H2 H3 H4 H5] Hg. constructor; cbn [fst snd]; rewrite ?map_length; auto; try (apply map_mono_sorted; auto).
  apply ple_map2; auto. Qed.
Theorem rsub_law (c : R) (p : list R * list R) : WFs p ->
  rbind (pneg RN steps plo phi p) (fun q => pnum RN steps plo phi Rplus q c)
  = rbind (pnum RN steps plo phi Rplus p (- c)) (pneg RN steps plo phi).
Proof.
  intros W. rewrite (pneg_steps p W). cbn [rbind].
  rewrite (pnum_mono Rplus c _ (WF_neg p W)) by (intros; lra). cbn [fst snd].
  rewrite (pnum_mono Rplus (- c) p W) by (intros; lra). cbn [rbind].
  rewrite (pneg_steps _ (WF_map_mono (fun x => x + - c) p W ltac:(intros; lra))). cbn [fst snd].
  rewrite <- !map_rev, !map_map. f_equal. f_equal; apply map_ext; intros; lra.
Qed.
Theorem mul_zero (p : list R * list R) : WFs p ->
  pnum RN steps plo phi Rmult p 0 = Ok (map (fun _ => 0) (fst p), map (fun _ => 0) (snd p)).
Proof. intros W. rewrite (pnum_mono Rmult 0 p W) by (intros; lra). f_equal. f_equal; apply map_ext; intros; lra. Qed.
End U.
