(* C20 - hedged expressions and significant digits decode to intervals about the number.
   Exact rationals; the hedge table is translated from language_parsing.py on every run. *)
From Coq Require Import ZArith QArith String List.
From PUN Require Import Gen.GenHedge Model.Hedge Proofs.Hedge.
Open Scope Q_scope.

(* symmetric hedges contain the stated number strictly; half-widths 10^-(d+1), 2*10^-d, 10*10^-d *)
Theorem C20_exactly n : exists lo hi, hedge "exactly" n = Some (QFin lo, QFin hi) /\ lo < nvalue n /\ nvalue n < hi /\
  lo == nvalue n - 1 * p10 (- (decimal_place n + 1)) /\ hi == nvalue n + 1 * p10 (- (decimal_place n + 1)).
Proof. exact (sym_hedge_spec "exactly" 1 1 n tab_exactly). Qed.
Theorem C20_about n : exists lo hi, hedge "about" n = Some (QFin lo, QFin hi) /\ lo < nvalue n /\ nvalue n < hi /\
  lo == nvalue n - 2 * p10 (- (decimal_place n + 0)) /\ hi == nvalue n + 2 * p10 (- (decimal_place n + 0)).
Proof. exact (sym_hedge_spec "about" 2 0 n tab_about). Qed.
Theorem C20_around n : exists lo hi, hedge "around" n = Some (QFin lo, QFin hi) /\ lo < nvalue n /\ nvalue n < hi /\
  lo == nvalue n - 10 * p10 (- (decimal_place n + 0)) /\ hi == nvalue n + 10 * p10 (- (decimal_place n + 0)).
Proof. exact (sym_hedge_spec "around" 10 0 n tab_around). Qed.
(* exactly strictly inside about strictly inside around, for every numeral *)
Theorem C20_order n :
  exists e1 e2 a1 a2 r1 r2, hedge "exactly" n = Some (QFin e1, QFin e2) /\ hedge "about" n = Some (QFin a1, QFin a2) /\
     hedge "around" n = Some (QFin r1, QFin r2) /\ r1 < a1 /\ a1 < e1 /\ e2 < a2 /\ a2 < r2.
Proof. exact (hedge_order n). Qed.
(* one-sided hedges have the number as an endpoint *)
Theorem C20_one_sided n :
  (exists lo, hedge "almost" n = Some (QFin lo, QFin (1 * nvalue n + 0 * p10 (- (decimal_place n + 0)))) /\ lo < nvalue n) /\
  (exists lo, hedge "below" n = Some (QFin lo, QFin (1 * nvalue n + 0 * p10 (- (decimal_place n + 0)))) /\ lo < nvalue n) /\
  (exists hi, hedge "over" n = Some (QFin (1 * nvalue n + 0 * p10 (- (decimal_place n + 0))), QFin hi) /\ nvalue n < hi) /\
  (exists hi, hedge "above" n = Some (QFin (1 * nvalue n + 0 * p10 (- (decimal_place n + 0))), QFin hi) /\ nvalue n < hi) /\
  hedge "at most" n = Some (QNInf, QFin (1 * nvalue n + 0 * p10 (- (decimal_place n + 0)))) /\
  hedge "at least" n = Some (QFin (1 * nvalue n + 0 * p10 (- (decimal_place n + 0))), QPInf).
Proof. exact (one_sided n). Qed.
(* the offsets from the number depend only on the decimal place of the last written digit: in particular they are
   unchanged by changing the sign of the number (decimal_place (negate n) = decimal_place n) *)
Theorem C20_sign_keeps_place n : decimal_place (negate n) = decimal_place n.
Proof. exact (decimal_place_negate n). Qed.
Theorem C20_offsets_depend_on_place_only kw n m lo hi lo' hi' :
  decimal_place n = decimal_place m ->
  lookup_kw kw hedge_table = Some (BOff 1 lo 0, BOff 1 hi 0) \/ lookup_kw kw hedge_table = Some (BOff 1 lo 1, BOff 1 hi 1) ->
  hedge kw n = Some (QFin lo', QFin hi') ->
  exists lo2 hi2, hedge kw m = Some (QFin lo2, QFin hi2) /\ lo2 - nvalue m == lo' - nvalue n /\ hi2 - nvalue m == hi' - nvalue n.
Proof. exact (offsets_depend_on_place_only kw n m lo hi lo' hi'). Qed.
(* shifting the decimal point by k places multiplies the number and both endpoints by 10^k *)
Theorem C20_pow10_equivariant kw k n c1 c2 s :
  lookup_kw kw hedge_table = Some (BOff 1 c1 s, BOff 1 c2 s) ->
  exists lo hi lo' hi', hedge kw n = Some (QFin lo, QFin hi) /\ hedge kw (shift10 k n) = Some (QFin lo', QFin hi') /\
                        lo' == p10 k * lo /\ hi' == p10 k * hi.
Proof. exact (pow10_equivariant kw k n c1 c2 s). Qed.
(* a bare numeral: the number plus or minus half a unit of its last significant written digit *)
Theorem C20_significant_digits n : let u := p10 (nexp n - sg_j n) in
  fst (sgnumber n) == nvalue n - u / 2 /\ snd (sgnumber n) == nvalue n + u / 2 /\ fst (sgnumber n) < nvalue n /\ nvalue n < snd (sgnumber n).
Proof. exact (sg_half_unit n). Qed.

Example C20_ex : hedge "about" (mkNum true 125 (Some 1%nat) 0) = Some (QFin (1 * nvalue (mkNum true 125 (Some 1%nat) 0) + (-2 # 1) * p10 (- (1 + 0))),
                                                                      QFin (1 * nvalue (mkNum true 125 (Some 1%nat) 0) + (2 # 1) * p10 (- (1 + 0)))).
Proof. reflexivity. Qed.

Print Assumptions C20_about.
Print Assumptions C20_order.
Print Assumptions C20_one_sided.
Print Assumptions C20_pow10_equivariant.
Print Assumptions C20_significant_digits.
