(* C12 - inclusion isotonicity: widening an input never narrows an output.
   sub_pr p p' : interval p inside p';  pinside P P' : p-box P inside P' (lower left bound, higher right bound at every step). *)
From Coq Require Import Reals Lra List.
From PUN Require Import Base.Num Model.Interval Model.IntervalFun Model.Pbox Model.B2B
                        Proofs.ListR Proofs.PboxWF Proofs.IntervalOps Proofs.B2B Proofs.DepOps Proofs.Lattice Proofs.Stacking Proofs.Iso Proofs.IsoNum.
From PUN Require Import Model.PboxArith Gen.GenGlue Proofs.Glue.
Import ListNotations.
Open Scope R_scope.

(* interval + - * / in both arguments (the hull is the exact range, C01) *)
Theorem C12_interval_ops op s s' o o' : wfp s -> wfp o -> wfp s' -> wfp o' -> sub_pr s s' -> sub_pr o o' ->
  (is_div op = true -> ~ has0 o') -> sub_pr (corner_hull (opR op) s o) (corner_hull (opR op) s' o').
Proof. exact (corner_hull_iso op s s' o o'). Qed.

Section E.
Variables (fexp : R -> R) (fpow : R -> nat -> R).
Hypothesis fexp_is : forall x, fexp x = exp x.
Hypothesis fpow_is : forall x k, fpow x k = x ^ k.
(* integer powers *)
Theorem C12_interval_pow lo hi lo' hi' k r r' : (0 < k)%nat -> lo <= hi -> lo' <= lo -> hi <= hi' ->
  ipow_nonneg RN fpow (lo, hi) k = Ok r -> ipow_nonneg RN fpow (lo', hi') k = Ok r' -> sub_pr r r'.
Proof. exact (ipow_nonneg_iso fpow fpow_is lo hi lo' hi' k r r'). Qed.
(* every nested expression of the response-function grammar, any depth: direct interval propagation is isotone in the whole box *)
Theorem C12_expressions e box box' v v' : pos_pows e -> Forall2 sub_pr box box' -> wf_box box -> wf_box box' ->
  ieval RN fexp fpow e box = Ok v -> ieval RN fexp fpow e box' = Ok v' -> sub_v v v'.
Proof. exact (ieval_iso fexp fpow fexp_is fpow_is e box box' v v'). Qed.
End E.

(* Frechet arithmetic with an operation nondecreasing in both arguments *)
Theorem C12_frechet (op : R -> R -> R) (XL XR XL' XR' YL YR : list R) n :
  (forall a a' b b', a <= a' -> b <= b' -> op a b <= op a' b') ->
  length XL = n -> length XR = n -> length YL = n -> length YR = n -> ple XL' XL -> ple XR XR' ->
  pinside (frechet_op RN op XL XR YL YR) (frechet_op RN op XL' XR' YL YR).
Proof. intros M. exact (frechet_iso op M XL XR XL' XR' YL YR n). Qed.
(* perfect dependence, any operation and sign (opposite and independent follow) *)
Theorem C12_perfect (op : bop) (XL XR XL' XR' YL YR : list R) :
  length XR = length XL -> length YL = length XL -> length YR = length XL -> length XL' = length XL -> length XR' = length XL ->
  Forall2 sub_pr (combine XL XR) (combine XL' XR') -> Forall wfp (combine XL XR) -> Forall wfp (combine XL' XR') -> Forall wfp (combine YL YR) ->
  (is_div op = true -> Forall (fun q => ~ has0 q) (combine YL YR)) ->
  pinside (perfect_op RN (opR op) XL XR YL YR) (perfect_op RN (opR op) XL' XR' YL YR).
Proof. exact (perfect_iso op XL XR XL' XR' YL YR). Qed.
Theorem C12_opposite (op : bop) (XL XR XL' XR' YL YR : list R) :
  length XR = length XL -> length YL = length XL -> length YR = length XL -> length XL' = length XL -> length XR' = length XL ->
  Forall2 sub_pr (combine XL XR) (combine XL' XR') -> Forall wfp (combine XL XR) -> Forall wfp (combine XL' XR') -> Forall wfp (combine YL YR) ->
  (is_div op = true -> Forall (fun q => ~ has0 q) (combine YL YR)) ->
  pinside (opposite_op RN (opR op) XL XR YL YR) (opposite_op RN (opR op) XL' XR' YL YR).
Proof. exact (opposite_iso op XL XR XL' XR' YL YR). Qed.
Theorem C12_independent (op : bop) (XL XR XL' XR' YL YR : list R) :
  length XR = length XL -> length YR = length YL -> length XL' = length XL -> length XR' = length XL ->
  Forall2 sub_pr (combine XL XR) (combine XL' XR') -> Forall wfp (combine XL XR) -> Forall wfp (combine XL' XR') -> Forall wfp (combine YL YR) ->
  (is_div op = true -> Forall (fun q => ~ has0 q) (combine YL YR)) ->
  pinside (independent_op RN (opR op) XL XR YL YR) (independent_op RN (opR op) XL' XR' YL YR).
Proof. exact (independent_iso op XL XR XL' XR' YL YR). Qed.
(* envelope, imposition *)
Theorem C12_envelope p p' q : pinside p p' -> length (fst p) = length (fst q) -> length (snd p) = length (snd q) -> pinside (env_raw p q) (env_raw p' q).
Proof. exact (env_iso p p' q). Qed.
Theorem C12_imposition p p' q : pinside p p' -> length (fst p) = length (fst q) -> length (snd p) = length (snd q) -> pinside (imp_raw p q) (imp_raw p' q).
Proof. exact (imp_iso p p' q). Qed.
(* stacking: lower endpoints moved down / upper endpoints moved up move the bound the same way (fixed masses) *)
Theorem C12_stacking (s s' w : list R) a v v' : length s = length w -> length s' = length w -> Forall (fun m => 0 <= m) w ->
  Forall2 Rle s s' -> is_ginv (combine s w) a v -> is_ginv (combine s' w) a v' -> v <= v'.
Proof. exact (is_ginv_dom s s' w a v v'). Qed.
(* sorting preserves the pointwise order: the step shared by every dependency *)
Theorem C12_sort_preserves_order (a b : list R) : ple a b -> ple (Rsort a) (Rsort b).
Proof. exact (sort_ple a b). Qed.

(* TIE: the p-box operations these theorems are about are the ones translated from pba/pbox_abc.py on every run (Gen/GenGlue.v) *)
Theorem C12_operations_are_translated (N : Num) (steps : nat) (p_lo p_hi : N) (p q : pbox N) (d : dep) fuel :
  gen_add N steps p_lo p_hi fuel p q d = padd N steps p_lo p_hi d p q /\
  gen_sub N steps p_lo p_hi fuel p q d = psub N steps p_lo p_hi d p q /\
  gen_mul N steps p_lo p_hi mul_fuel p q d = pmul N steps p_lo p_hi d p q /\
  gen_div N steps p_lo p_hi mul_fuel p q d = pdiv N steps p_lo p_hi d p q.
Proof. exact (conj (gen_add_is_model N steps p_lo p_hi fuel p q d) (conj (gen_sub_is_model N steps p_lo p_hi fuel p q d)
              (conj (gen_mul_is_model N steps p_lo p_hi p q d) (gen_div_is_model N steps p_lo p_hi p q d)))). Qed.

Print Assumptions C12_interval_ops.
Print Assumptions C12_expressions.
Print Assumptions C12_frechet.
Print Assumptions C12_perfect.
Print Assumptions C12_envelope.
Print Assumptions C12_stacking.

(* operations with a constant and unary maps, for p-boxes on any grid: the wider operand gives the wider result *)
Theorem C12_number_op_increasing steps plo phi (f : R -> R -> R) (c : R) p p' r r' : WF steps p -> WF steps p' -> pinside p p' ->
  (forall a b, a <= b -> f a c <= f b c) ->
  pnum RN steps plo phi f p c = Ok r -> pnum RN steps plo phi f p' c = Ok r' -> pinside r r'.
Proof. exact (pnum_mono_iso steps plo phi f c p p' r r'). Qed.
Theorem C12_number_op_decreasing steps plo phi (f : R -> R -> R) (c : R) p p' r r' : WF steps p -> WF steps p' -> pinside p p' ->
  (forall a b, a <= b -> f b c <= f a c) ->
  pnum RN steps plo phi f p c = Ok r -> pnum RN steps plo phi f p' c = Ok r' -> pinside r r'.
Proof. exact (pnum_anti_iso steps plo phi f c p p' r r'). Qed.
Theorem C12_negation steps plo phi p p' r r' : WF steps p -> WF steps p' -> pinside p p' ->
  pneg RN steps plo phi p = Ok r -> pneg RN steps plo phi p' = Ok r' -> pinside r r'.
Proof. exact (pneg_iso steps plo phi p p' r r'). Qed.
Theorem C12_reciprocal steps plo phi p p' r r' : WF steps p -> WF steps p' -> pinside p p' -> (0 < steps)%nat ->
  (0 < nth 0 (fst p') 0 \/ last (snd p') 0 < 0) ->
  precip RN steps plo phi p = Ok r -> precip RN steps plo phi p' = Ok r' -> pinside r r'.
Proof. exact (precip_iso steps plo phi p p' r r'). Qed.
Theorem C12_monotone_map steps plo phi (f : R -> R) (D : R -> Prop) p p' r r' : WF steps p -> WF steps p' -> pinside p p' ->
  (forall x, In x (fst p') \/ In x (snd p') -> D x) -> (forall x, In x (fst p) \/ In x (snd p) -> D x) ->
  (forall a b, D a -> D b -> a <= b -> f a <= f b) ->
  punary RN steps plo phi f p = Ok r -> punary RN steps plo phi f p' = Ok r' -> pinside r r'.
Proof. exact (punary_iso steps plo phi f D p p' r r'). Qed.

(* REFUTED for subinterval reconstitution (finding O37): with a fixed number of tiles the result for a sub-box need not lie inside the
   result for the box.  Witness on the binary64 instance of the model (decided by computation, replayed on the implementation by
   the check): f(x) = x * x, three tiles, sub-box [-1, 1] inside the box [-1, 2]. *)
From Coq Require Import PrimFloat.
Definition o37_e : expr := EMul (Var 0) (Var 0).
Definition o37_run (box : list (float * float)) := sub_direct FN (fun x => x) (fun x _ => x) o37_e box 3.
Theorem C12_sub_direct_refuted :
  exists sub box r r', PrimFloat.leb (fst box) (fst sub) = true /\ PrimFloat.leb (snd sub) (snd box) = true /\
    o37_run [sub] = Ok r /\ o37_run [box] = Ok r' /\ PrimFloat.ltb (fst r) (fst r') = true.
Proof. exists (-1, 1)%float, (-1, 2)%float. eexists. eexists. repeat split; vm_compute; reflexivity. Qed.
Print Assumptions C12_number_op_increasing.
Print Assumptions C12_number_op_decreasing.
Print Assumptions C12_negation.
Print Assumptions C12_reciprocal.
Print Assumptions C12_monotone_map.
Print Assumptions C12_operations_are_translated.

(* ISOTONICITY ACROSS THE ROUTES OF THE PRODUCT (Proofs/ComposeTight.v).  Best possible => inside every sound bound, also for wider operands:
   if (BL, BR) bounds the outcomes of every pair of samples bounded by X', Y' and X, Y lie inside X', Y', the Frechet bounds of X, Y - attained
   by explicit couplings of the bounding distributions (C02) - lie inside (BL, BR) at every step ... *)
From PUN Require Import Proofs.Compose Proofs.ComposeOps Proofs.ComposeTight Model.PboxArith.
Theorem C12_tight_inside_sound (op : R -> R -> R) (D : R -> Prop) n (XL XR YL YR XL' XR' YL' YR' BL BR : list R) i :
  (forall a a', D a -> a <= a' -> D a') -> (forall a a' b b', D a -> D b -> a <= a' -> b <= b' -> op a b <= op a' b') ->
  length XL = n -> length XR = n -> length YL = n -> length YR = n ->
  Rsorted XL -> Rsorted XR -> Rsorted YL -> Rsorted YR -> ple XL XR -> ple YL YR ->
  (forall j, (j < n)%nat -> D (nth j XL 0)) -> (forall j, (j < n)%nat -> D (nth j YL 0)) ->
  ple XL' XL -> ple XR XR' -> ple YL' YL -> ple YR YR' -> length BL = n ->
  (forall u v, bounds XL' XR' u -> bounds YL' YR' v -> bounds BL BR (map2 op u v)) -> (i < n)%nat ->
  nth i BL 0 <= frechet_left RN op XL YL i /\ frechet_right RN op XR YR i <= nth i BR 0.
Proof. intros. eapply tight_inside_sound; eauto. Qed.
(* ... in particular the product under no dependence assumption: operands with non-negative lower bounds (classic route) inside operands of ANY
   sign (classic, negative or zero-straddling route): the product of the wider operands contains the Frechet bounds of the narrower product *)
Theorem C12_product_isotone_into_any_route steps plo phi (X Y X' Y' r : list R * list R) : (0 < steps)%nat ->
  WF steps X -> WF steps Y -> WF steps X' -> WF steps Y' ->
  (forall j, (j < steps)%nat -> 0 <= nth j (fst X) 0) -> (forall j, (j < steps)%nat -> 0 <= nth j (fst Y) 0) ->
  ple (fst X') (fst X) -> ple (snd X) (snd X') -> ple (fst Y') (fst Y) -> ple (snd Y) (snd Y') ->
  pmul RN steps plo phi DF X' Y' = Ok r ->
  forall i, (i < steps)%nat -> nth i (fst r) 0 <= frechet_left RN Rmult (fst X) (fst Y) i /\ frechet_right RN Rmult (snd X) (snd Y) i <= nth i (snd r) 0.
Proof. exact (product_isotone_into_any_route steps plo phi X Y X' Y' r). Qed.
Theorem C12_product_isotone_arrays steps plo phi (X Y X' Y' r : list R * list R) : (0 < steps)%nat ->
  WF steps X -> WF steps Y -> WF steps X' -> WF steps Y' ->
  (forall j, (j < steps)%nat -> 0 <= nth j (fst X) 0) -> (forall j, (j < steps)%nat -> 0 <= nth j (fst Y) 0) ->
  ple (fst X') (fst X) -> ple (snd X) (snd X') -> ple (fst Y') (fst Y) -> ple (snd Y) (snd Y') ->
  pmul RN steps plo phi DF X' Y' = Ok r ->
  ple (fst r) (fst (frechet_op RN Rmult (fst X) (snd X) (fst Y) (snd Y))) /\ ple (snd (frechet_op RN Rmult (fst X) (snd X) (fst Y) (snd Y))) (snd r).
Proof. exact (product_isotone_arrays steps plo phi X Y X' Y' r). Qed.
Print Assumptions C12_tight_inside_sound.
Print Assumptions C12_product_isotone_into_any_route.
