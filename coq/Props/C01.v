(* C01 - Interval + - * / return exactly the set image of the operands.
   Statements only; proofs live in Proofs/.  All statements are about the RN
   (Coq reals) instance of the model whose FN instance is run against /repo. *)
From Coq Require Import Reals Lra List Bool.
From PUN Require Import Base.Num Gen.GenArith Model.Interval Proofs.Hull Proofs.ArithTable Proofs.IntervalOps.
Import ListNotations.
Open Scope R_scope.

(* 1. the translated sign tables (all four shape branches) are the exact corner hull *)
Theorem C01_mul_tables sl sh ol oh : sl <= sh -> ol <= oh ->
  mul_ss RN sl sh ol oh = mul_hull sl sh ol oh /\ mul_vv RN sl sh ol oh = mul_hull sl sh ol oh /\
  mul_sv RN sl sh ol oh = mul_hull sl sh ol oh /\ mul_vs RN sl sh ol oh = mul_hull sl sh ol oh.
Proof. intros; repeat split; [apply mul_ss_hull|apply mul_vv_hull|apply mul_sv_hull|apply mul_vs_hull]; assumption. Qed.
Theorem C01_div_tables sl sh ol oh : sl <= sh -> ol <= oh -> (0 < ol \/ oh < 0) ->
  div_ss RN sl sh ol oh = div_hull sl sh ol oh /\ div_vv RN sl sh ol oh = div_hull sl sh ol oh /\
  div_sv RN sl sh ol oh = div_hull sl sh ol oh /\ div_vs RN sl sh ol oh = div_hull sl sh ol oh.
Proof. intros; repeat split; [apply div_ss_hull|apply div_vv_hull|apply div_sv_hull|apply div_vs_hull]; assumption. Qed.

(* 2. every operator, every operand kind on either side, every shape pairing:
      zero in a divisor element raises ZeroDivisionError, otherwise the result is,
      element by element under broadcasting, the corner hull *)
Theorem C01_operators_exact op a b sa sb :
  wf_op a -> wf_op b -> is_int a || is_int b = true -> as_ival a = Some sa -> as_ival b = Some sb ->
  binop RN op a b = spec (mism_of op a b) op sa sb.
Proof. exact (binop_exact op a b sa sb). Qed.

(* 3. the corner hull is the exact set image: it encloses every pointwise result and is attained at corners *)
Theorem C01_hull_encloses op s o x y :
  wfp s -> wfp o -> (is_div op = true -> ~ has0 o) -> fst s <= x <= snd s -> fst o <= y <= snd o ->
  fst (corner_hull (opR op) s o) <= opR op x y <= snd (corner_hull (opR op) s o).
Proof. exact (corner_hull_encl op s o x y). Qed.
Theorem C01_hull_attained f s o :
  let h := corner_hull f s o in
  (fst h = f (fst s) (fst o) \/ fst h = f (fst s) (snd o) \/ fst h = f (snd s) (fst o) \/ fst h = f (snd s) (snd o)) /\
  (snd h = f (fst s) (fst o) \/ snd h = f (fst s) (snd o) \/ snd h = f (snd s) (fst o) \/ snd h = f (snd s) (snd o)).
Proof. exact (corner_hull_attained f s o). Qed.

(* 4. scalar reading, zero divisor, element-by-element reading *)
Theorem C01_scalar op s o : wfp s -> wfp o -> (is_div op = true -> ~ has0 o) ->
  binop RN op (OInt RN (true, [s])) (OInt RN (true, [o])) = Ok (true, [corner_hull (opR op) s o]).
Proof. exact (scalar_binop op s o). Qed.
Theorem C01_zero_divisor (s o : ival RN) : Exists has0 (snd o) -> binop RN Div (OInt RN s) (OInt RN o) = Raise ZeroDivision.
Proof. exact (div_by_zero_interval s o). Qed.
Theorem C01_elementwise mism op (s o r : ival RN) :
  bc2 mism (corner_hull (opR op)) s o = Ok r ->
  forall c, In c (snd r) -> exists a b, In a (snd s) /\ In b (snd o) /\ c = corner_hull (opR op) a b.
Proof. intros H c Hc. exact (bc2_elem mism (corner_hull (opR op)) s o r H c Hc). Qed.

(* non-vacuity: a straddle x straddle product, a zero-touching quotient guard, a negative scalar *)
Example C01_ex_straddle : binop RN Mul (OInt RN (true, [(-1, 2)])) (OInt RN (true, [(-3, 4)]))
  = Ok (true, [corner_hull Rmult (-1, 2) (-3, 4)]).
Proof. apply scalar_binop; unfold wfp, has0; cbn; try lra; discriminate. Qed.
Example C01_ex_zero : binop RN Div (OInt RN (true, [(1, 2)])) (OInt RN (false, [(1, 2); (0, 3)])) = Raise ZeroDivision.
Proof. apply div_by_zero_interval. cbn. apply Exists_cons_tl, Exists_cons_hd. unfold has0; cbn; lra. Qed.

Print Assumptions C01_mul_tables.
Print Assumptions C01_div_tables.
Print Assumptions C01_operators_exact.
Print Assumptions C01_hull_encloses.
Print Assumptions C01_hull_attained.
Print Assumptions C01_scalar.
Print Assumptions C01_zero_divisor.
Print Assumptions C01_elementwise.
