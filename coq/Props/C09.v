(* C09 - a parametric p-box encloses every distribution of its parameter box.
   gen_param_bounds is generated from pbox_parametric.py on every run (corner enumeration + column-wise min / max). *)
From Coq Require Import Reals List.
From PUN Require Import Base.Num Model.Interval Model.Pbox Model.Parametric Gen.GenParametric Proofs.Parametric.
Import ListNotations.
Open Scope R_scope.

(* for ANY family whose quantile function is monotone in each parameter separately (either direction, possibly depending on the level
   and on the other parameters), any number of parameters, any grid: every member of the box lies between the bounds at every level *)
Theorem C09_enclosure (ppf : list R -> R -> R) (box : list (R * R)) (ps th : list R) :
  Forall (fun i => fst i <= snd i) box -> Forall2 inb th box -> (forall p, In p ps -> coord_mono (fun t => ppf t p) box) ->
  Forall2 (fun lo q => lo <= q) (fst (gen_param_bounds RN ppf box ps)) (map (ppf th) ps) /\
  Forall2 (fun q hi => q <= hi) (map (ppf th) ps) (snd (gen_param_bounds RN ppf box ps)).
Proof. exact (param_bounds_enclose ppf box ps th). Qed.
Print Assumptions C09_enclosure.
(* the mean and variance intervals contain the member's mean and variance (same corner reduction) *)
Theorem C09_moments (m : list R -> R) (box : list (R * R)) (th : list R) :
  Forall (fun i => fst i <= snd i) box -> Forall2 inb th box -> coord_mono m box ->
  fst (gen_moment_bounds RN m box) <= m th <= snd (gen_moment_bounds RN m box).
Proof. exact (corner_enclosure box m th). Qed.
(* point-valued parameters: the bounds coincide with the family's quantile function *)
Theorem C09_point (f : list R -> R) (th : list R) :
  bound_lo RN f (map (fun t => (t, t)) th) = f th /\ bound_hi RN f (map (fun t => (t, t)) th) = f th.
Proof. exact (point_box f th). Qed.
Print Assumptions C09_point.
(* location-scale families satisfy the hypothesis at every level: Q = loc + scale * z(p) *)
Theorem C09_locscale (z : R) (box : list (R * R)) : length box = 2%nat -> coord_mono (fun th => nth 0 th 0 + nth 1 th 0 * z) box.
Proof. exact (locscale_coord_mono z box). Qed.
(* what numpy computes (column-wise min / max of the stacked corner arrays) is the per-level reduction of the model *)
Theorem C09_arrays (ppf : list R -> R -> R) (box : list (R * R)) (ps : list R) :
  let arrs := map (fun c => map (ppf c) ps) (corners RN box) in
  gen_param_bounds RN ppf box ps = (reduce_cols RN (minl RN) arrs (length ps), reduce_cols RN (maxl RN) arrs (length ps)).
Proof. exact (param_bounds_arrays ppf box ps). Qed.
(* the bespoke uniform constructor *)
Theorem C09_uniform (al ar bl br a b t : R) : al <= a <= ar -> bl <= b <= br -> 0 <= t <= 1 ->
  al + t * (bl - al) <= a + t * (b - a) <= ar + t * (br - ar).
Proof. exact (uniform_between al ar bl br a b t). Qed.
