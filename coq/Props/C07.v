(* C07 - uncertain-number hierarchy: degenerate operands reduce to the simpler arithmetic.
   embed n (lo, hi) is the constant p-box of an interval (Interval.to_pbox); a real x is embed n (x, x). *)
From Coq Require Import Reals List String.
From PUN Require Import Base.Num Model.Interval Model.Pbox Model.PboxArith Gen.GenDispatch Model.Dispatch
  Proofs.ListR Proofs.IntervalOps Proofs.Hier Proofs.Dispatch.
From PUN Require Import Model.PboxArith Gen.GenGlue Proofs.Glue Proofs.HierScale.
Import ListNotations.
Open Scope R_scope.

(* interval operands under ANY dependency (Frechet, perfect, opposite, independent), any number of steps: the result is the
   interval-arithmetic result as a constant p-box *)
Theorem C07_add steps plo phi d a b : (0 < steps)%nat -> wfp a -> wfp b ->
  padd RN steps plo phi d (embed steps a) (embed steps b) = Ok (embed steps (fst a + fst b, snd a + snd b)).
Proof. intros H. exact (embed_add steps plo phi H d a b). Qed.
(* TIE: the p-box operations these theorems are about are the ones translated from pba/pbox_abc.py on every run (Gen/GenGlue.v) *)
Theorem C07_operations_are_translated (N : Num) (steps : nat) (p_lo p_hi : N) (p q : pbox N) (d : dep) fuel :
  gen_add N steps p_lo p_hi fuel p q d = padd N steps p_lo p_hi d p q /\
  gen_sub N steps p_lo p_hi fuel p q d = psub N steps p_lo p_hi d p q /\
  gen_mul N steps p_lo p_hi mul_fuel p q d = pmul N steps p_lo p_hi d p q /\
  gen_div N steps p_lo p_hi mul_fuel p q d = pdiv N steps p_lo p_hi d p q.
Proof. exact (conj (gen_add_is_model N steps p_lo p_hi fuel p q d) (conj (gen_sub_is_model N steps p_lo p_hi fuel p q d)
              (conj (gen_mul_is_model N steps p_lo p_hi p q d) (gen_div_is_model N steps p_lo p_hi p q d)))). Qed.

Print Assumptions C07_add.
Theorem C07_sub steps plo phi d a b : (0 < steps)%nat -> wfp a -> wfp b ->
  psub RN steps plo phi d (embed steps a) (embed steps b) = Ok (embed steps (fst a - snd b, snd a - fst b)).
Proof. intros H. exact (embed_sub steps plo phi H d a b). Qed.
(* products and quotients of intervals of any sign under perfect, opposite and independent dependence: the exact corner hull *)
Theorem C07_mul steps plo phi d a b : (0 < steps)%nat -> d <> DF ->
  pmul RN steps plo phi d (embed steps a) (embed steps b) = Ok (embed steps (corner_hull Rmult a b)).
Proof. intros H. exact (embed_mul steps plo phi H d a b). Qed.
Print Assumptions C07_mul.
Theorem C07_div steps plo phi d a b : (0 < steps)%nat -> d <> DF -> wfp b -> (0 < fst b \/ snd b < 0) ->
  pdiv RN steps plo phi d (embed steps a) (embed steps b) = Ok (embed steps (corner_hull Rmult a (1 / snd b, 1 / fst b))).
Proof. intros H. exact (embed_div steps plo phi H d a b). Qed.
(* point-valued operands give the real-number result *)
Theorem C07_real_add steps plo phi d x y : (0 < steps)%nat ->
  padd RN steps plo phi d (embed steps (x, x)) (embed steps (y, y)) = Ok (embed steps (x + y, x + y)).
Proof. intros H. exact (embed_real_add steps plo phi H d x y). Qed.
Theorem C07_real_mul steps plo phi d x y : (0 < steps)%nat -> d <> DF ->
  pmul RN steps plo phi d (embed steps (x, x)) (embed steps (y, y)) = Ok (embed steps (x * y, x * y)).
Proof. intros H. exact (embed_real_mul steps plo phi H d x y). Qed.
(* interval + precise distribution (quantiles q): the distribution shifted by the interval, under perfect, opposite and no (Frechet) dependence assumption *)
Theorem C07_shift_perfect steps plo phi a (q : list R) : wfp a -> List.length q = steps -> Rsorted q ->
  padd RN steps plo phi DP (embed steps a) (q, q) = Ok (map (Rplus (fst a)) q, map (Rplus (snd a)) q).
Proof. exact (shift_perfect steps plo phi a q). Qed.
Theorem C07_shift_opposite steps plo phi a (q : list R) : wfp a -> List.length q = steps -> Rsorted q ->
  padd RN steps plo phi DO (embed steps a) (q, q) = Ok (map (Rplus (fst a)) q, map (Rplus (snd a)) q).
Proof. exact (shift_opposite steps plo phi a q). Qed.
Theorem C07_shift_frechet steps plo phi a (q : list R) : wfp a -> List.length q = steps -> Rsorted q ->
  padd RN steps plo phi DF (embed steps a) (q, q) = Ok (map (Rplus (fst a)) q, map (Rplus (snd a)) q).
Proof. exact (shift_frechet steps plo phi a q). Qed.
Print Assumptions C07_shift_frechet.
(* interval x precise distribution: a non-negative interval times a non-negative precise distribution is the distribution scaled by the
   interval, under perfect, opposite and no (Frechet) dependence assumption (Frechet: upper ends strictly positive, which routes the product
   to the classic kernel) *)
Theorem C07_scale_perfect steps plo phi a (q : list R) : wfp a -> 0 <= fst a -> List.length q = steps -> Rsorted q -> Forall (fun x => 0 <= x) q ->
  pmul RN steps plo phi DP (embed steps a) (q, q) = Ok (map (Rmult (fst a)) q, map (Rmult (snd a)) q).
Proof. exact (scale_perfect steps plo phi a q). Qed.
Theorem C07_scale_opposite steps plo phi a (q : list R) : wfp a -> 0 <= fst a -> List.length q = steps -> Rsorted q -> Forall (fun x => 0 <= x) q ->
  pmul RN steps plo phi DO (embed steps a) (q, q) = Ok (map (Rmult (fst a)) q, map (Rmult (snd a)) q).
Proof. exact (scale_opposite steps plo phi a q). Qed.
Theorem C07_scale_frechet steps plo phi a (q : list R) : wfp a -> 0 <= fst a -> 0 < snd a -> List.length q = steps -> Rsorted q ->
  Forall (fun x => 0 <= x) q -> 0 < last q 0 ->
  pmul RN steps plo phi DF (embed steps a) (q, q) = Ok (map (Rmult (fst a)) q, map (Rmult (snd a)) q).
Proof. exact (scale_frechet steps plo phi a q). Qed.
Print Assumptions C07_scale_frechet.
(* operator forwarding of Dempster-Shafer structures (table translated from mixins.py on every run): every forward dunder computes
   self op other and every reflected dunder other op self on the p-box views, for any p-box calculus `bin` *)
Theorem C07_dss_forward (V : Type) (bin : string -> V -> V -> V) fwd refl : In (fwd, refl) refl_names ->
  forall self other : V, dss_dunder V bin fwd self other = Some (bin fwd self other).
Proof. exact (forward_ok V bin fwd refl). Qed.
Theorem C07_dss_reflected (V : Type) (bin : string -> V -> V -> V) fwd refl : In (fwd, refl) refl_names ->
  forall self other : V, dss_dunder V bin refl self other = Some (bin fwd other self).
Proof. exact (reflected_ok V bin fwd refl). Qed.
Print Assumptions C07_dss_reflected.
Print Assumptions C07_operations_are_translated.
