(* C03 - perfect / opposite / independent p-box arithmetic match their random-set meaning.
   Reading a p-box as focal steps (XL_k, XR_k): the result bounds are the sorted lower / upper endpoints
   of the exact interval combinations (corner hulls, C01) of the paired steps. *)
From Coq Require Import Reals Lra List Arith.
From PUN Require Import Base.Num Base.Sort Model.Interval Model.Pbox Proofs.Hull Proofs.ListR Proofs.IntervalOps Proofs.DepOps Model.ArrayOps Gen.GenKernels Proofs.Kernels Model.PboxArith Gen.GenGlue Proofs.Glue.
Import ListNotations.
Open Scope R_scope.

(* perfect: step k of X meets step k of Y, for any operation and operands of any sign *)
Theorem C03_perfect (op : R -> R -> R) (XL XR YL YR : list R) :
  length XR = length XL -> length YL = length XL -> length YR = length XL ->
  perfect_op RN op XL XR YL YR =
  (Rsort (map fst (map2 (istep op) (combine XL XR) (combine YL YR))),
   Rsort (map snd (map2 (istep op) (combine XL XR) (combine YL YR)))).
Proof. exact (perfect_op_spec op XL XR YL YR). Qed.

(* opposite: step k of X meets step n-1-k of Y *)
Theorem C03_opposite (op : R -> R -> R) (XL XR YL YR : list R) :
  length XR = length XL -> length YL = length XL -> length YR = length XL ->
  opposite_op RN op XL XR YL YR =
  (Rsort (map fst (map2 (istep op) (combine XL XR) (rev (combine YL YR)))),
   Rsort (map snd (map2 (istep op) (combine XL XR) (rev (combine YL YR))))).
Proof. exact (opposite_op_spec op XL XR YL YR). Qed.

(* independent: all n*n pairs, then condensation to the k(n+1)-th order statistics, i.e. inside the k-th block *)
Theorem C03_independent (op : R -> R -> R) (XL XR YL YR : list R) :
  length XR = length XL -> length YR = length YL ->
  independent_op RN op XL XR YL YR =
  (Rsort (map fst (all_pairs op (combine XL XR) (combine YL YR))),
   Rsort (map snd (all_pairs op (combine XL XR) (combine YL YR)))).
Proof. exact (independent_op_spec op XL XR YL YR). Qed.
Theorem C03_independent_block n k : (1 < n)%nat -> (k < n)%nat ->
  cond_index (n * n) n k = (k * (n + 1))%nat /\ (k * n <= cond_index (n * n) n k <= k * n + (n - 1))%nat.
Proof. exact (indep_block n k). Qed.

(* for + on well-formed operands the result step k is exactly X_k + Y_k (no reordering) *)
Theorem C03_perfect_add_stepwise (XL XR YL YR : list R) :
  length XR = length XL -> length YL = length XL -> length YR = length XL ->
  Rsorted XL -> Rsorted XR -> Rsorted YL -> Rsorted YR ->
  Forall wfp (combine XL XR) -> Forall wfp (combine YL YR) ->
  perfect_op RN Rplus XL XR YL YR = (map2 Rplus XL YL, map2 Rplus XR YR).
Proof. exact (perfect_add_steps XL XR YL YR). Qed.

(* subtraction / division pair the mirrored order of the second operand:
   opposite arithmetic on the negated (reversed) operand = perfect arithmetic on the stepwise negation *)
Theorem C03_mirror (op : R -> R -> R) (XL XR YL YR : list R) :
  length XR = length XL -> length YL = length XL -> length YR = length XL ->
  opposite_op RN op XL XR (map Ropp (rev YR)) (map Ropp (rev YL)) = perfect_op RN op XL XR (map Ropp YR) (map Ropp YL).
Proof. exact (opposite_of_neg op XL XR YL YR). Qed.

(* non-vacuity: a product with a negative step *)
Example C03_ex : map2 (istep Rmult) (combine [1] [2]) (combine [-3] [4]) = [(min4 (1 * -3) (1 * 4) (2 * -3) (2 * 4), max4 (1 * -3) (1 * 4) (2 * -3) (2 * 4))].
Proof. reflexivity. Qed.

(* TIE: the three kernels above are the ones translated from pba/operation.py on every run (Gen/GenKernels.v) *)
Theorem C03_kernels_are_translated (op : R -> R -> R) (XL XR YL YR : list R) :
  gen_perfect_op RN op XL XR YL YR = perfect_op RN op XL XR YL YR /\
  gen_opposite_op RN op XL XR YL YR = opposite_op RN op XL XR YL YR /\
  gen_independent_op RN op XL XR YL YR = independent_op RN op XL XR YL YR.
Proof. exact (conj (gen_perfect_op_is_model RN op XL XR YL YR) (conj (gen_opposite_op_is_model RN op XL XR YL YR) (gen_independent_op_is_model RN op XL XR YL YR))). Qed.

(* TIE: add / sub / mul / div of Staircase (the dependency dispatch, the perfect <-> opposite exchange of sub and div, the negation /
   reciprocal of the second operand) translated from pba/pbox_abc.py on every run are the operations of the model, on any number structure *)
Theorem C03_operations_are_translated (N : Num) (steps : nat) (p_lo p_hi : N) (p q : pbox N) (d : dep) fuel :
  gen_add N steps p_lo p_hi fuel p q d = padd N steps p_lo p_hi d p q /\
  gen_sub N steps p_lo p_hi fuel p q d = psub N steps p_lo p_hi d p q /\
  gen_mul N steps p_lo p_hi mul_fuel p q d = pmul N steps p_lo p_hi d p q /\
  gen_div N steps p_lo p_hi mul_fuel p q d = pdiv N steps p_lo p_hi d p q.
Proof. exact (conj (gen_add_is_model N steps p_lo p_hi fuel p q d) (conj (gen_sub_is_model N steps p_lo p_hi fuel p q d)
              (conj (gen_mul_is_model N steps p_lo p_hi p q d) (gen_div_is_model N steps p_lo p_hi p q d)))). Qed.

Print Assumptions C03_perfect.
Print Assumptions C03_opposite.
Print Assumptions C03_independent.
Print Assumptions C03_independent_block.
Print Assumptions C03_perfect_add_stepwise.
Print Assumptions C03_mirror.
Print Assumptions C03_kernels_are_translated.
Print Assumptions C03_operations_are_translated.

(* SAMPLE FORM (Proofs/ComposeDep.v, on the notion of Proofs/Compose.v: a p-box bounds a sample when the sorted sample lies step by step inside
   it).  Perfect dependence: the two samples are comonotone - one re-indexing of the outcomes sorts both; opposite dependence: it sorts one
   and reverses the other.  Then the result of perfect_op / opposite_op bounds the sample of outcomes u_i (op) v_i, for + - x / and operands
   of any sign (divisor steps free of zero). *)
From PUN Require Import Proofs.IntervalOps Proofs.PboxWF Proofs.Compose Proofs.ComposeDep.
Theorem C03_perfect_sound (op : bop) (XL XR YL YR : list R) n (u v : list R) :
  length XL = n -> length XR = n -> length YL = n -> length YR = n -> ple XL XR -> ple YL YR ->
  (is_div op = true -> forall j, (j < n)%nat -> ~ has0 (nth j YL 0, nth j YR 0)) ->
  bounds XL XR u -> bounds YL YR v -> comonotone u v ->
  bounds (fst (perfect_op RN (opR op) XL XR YL YR)) (snd (perfect_op RN (opR op) XL XR YL YR)) (map2 (opR op) u v).
Proof. intros. eapply perfect_bounds; eauto. Qed.
Theorem C03_opposite_sound (op : bop) (XL XR YL YR : list R) n (u v : list R) :
  length XL = n -> length XR = n -> length YL = n -> length YR = n -> ple XL XR -> ple YL YR ->
  (is_div op = true -> forall j, (j < n)%nat -> ~ has0 (nth j YL 0, nth j YR 0)) ->
  bounds XL XR u -> bounds YL YR v -> countermonotone u v ->
  bounds (fst (opposite_op RN (opR op) XL XR YL YR)) (snd (opposite_op RN (opR op) XL XR YL YR)) (map2 (opR op) u v).
Proof. intros. eapply opposite_bounds; eauto. Qed.
(* independence: the outcomes are the n*n pairwise combinations u_i (op) v_j; order statistic by order statistic they lie between the n*n
   sorted lower and upper corners computed by independent_op (before the result is condensed to n steps: C03_independent_block) *)
From PUN Require Import Proofs.ComposeIndep.
Theorem C03_independent_sound (op : bop) (XL XR YL YR u v : list R) n :
  length XL = n -> length XR = n -> length YL = n -> length YR = n -> ple XL XR -> ple YL YR ->
  (is_div op = true -> forall j, (j < n)%nat -> ~ has0 (nth j YL 0, nth j YR 0)) ->
  bounds XL XR u -> bounds YL YR v ->
  bounds (fst (independent_op RN (opR op) XL XR YL YR)) (snd (independent_op RN (opR op) XL XR YL YR)) (cart RN (opR op) u v).
Proof. exact (independent_bounds op XL XR YL YR u v n). Qed.
Print Assumptions C03_perfect_sound.
Print Assumptions C03_independent_sound.
Print Assumptions C03_opposite_sound.

(* np.add / np.subtract / np.multiply / np.divide with a p-box among the two inputs (recognised in the source on every run: Staircase.__array_ufunc__):
   when the first input is a p-box the operation is the forward operator of the FIRST input applied to the second - also when numpy hands the call to
   the second input because it is of a subclass (finding O39: the reflected operator was used there, which pairs the steps without the p <-> o exchange
   of subtraction and division) - so the laws above, stated of X.sub(Y, d) / X.div(Y, d), are the laws of np.subtract(X, Y) / np.divide(X, Y) *)
From PUN Require Import Gen.GenCtor Proofs.CtorTie.
Theorem C03_numpy_function_route_is_translated (first_is_pbox : bool) : gen_ufunc_route first_is_pbox = ufunc_route_of first_is_pbox.
Proof. exact (gen_ufunc_route_is_model first_is_pbox). Qed.
Theorem C03_two_pboxes_use_the_operator_of_the_first : gen_ufunc_route true = ForwardOfFirst.
Proof. reflexivity. Qed.
Print Assumptions C03_numpy_function_route_is_translated.
