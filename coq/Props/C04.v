(* C04 - every p-box value handed to the user is well formed.
   WF n p: both bounds have n entries, are sorted, and left <= right at every step (the support is then [first left, last right]). *)
From Coq Require Import Reals List Arith Lra.
From PUN Require Import Base.Num Model.Interval Model.Pbox Model.PboxArith Model.PExpr Proofs.ListR Proofs.PboxWF Proofs.WFExpr.
From PUN Require Import Gen.GenCtor Proofs.CtorTie.
Import ListNotations.
Open Scope R_scope.

(* the constructor, for ANY input arrays of any lengths (longer ones are condensed, shorter ones interpolated): whatever it
   accepts has exactly the configured number of steps, sorted bounds and left <= right at every step; otherwise it raises *)
Theorem C04_constructor steps plo phi b (l r : list R) p :
  mk_staircase_gen RN steps plo phi b l r = Ok p -> WF steps p.
Proof. exact (mk_total_wf steps plo phi b l r p). Qed.
(* TIE: the constructor of the model (exchange of reversed bounds, normalisation of the lengths, equal lengths, monotone bounds,
   no crossing) and the step-wise operations are the definitions recognised in the source on every run (Gen/GenCtor.v) *)
Theorem C04_constructor_is_translated (N : Num) (steps : nat) (p_lo p_hi : N) lists l r :
  gen_mk_staircase_gen N steps p_lo p_hi lists l r = mk_staircase_gen N steps p_lo p_hi lists l r.
Proof. exact (gen_constructor_is_model N steps p_lo p_hi lists l r). Qed.

Print Assumptions C04_constructor.
(* bounds in the right order are kept, bounds inverted everywhere (the image under an antitone map) are switched back *)
Theorem C04_constructor_ordered steps plo phi b (l r : list R) p : ple l r ->
  mk_staircase_gen RN steps plo phi b l r = Ok p -> p = (bound_steps_check RN steps plo phi l, bound_steps_check RN steps plo phi r).
Proof. intros H E. exact (proj2 (mk_wf steps plo phi b l r p H E)). Qed.
Theorem C04_constructor_switch steps plo phi b (l r : list R) p : ple r l ->
  mk_staircase_gen RN steps plo phi b l r = Ok p -> p = (bound_steps_check RN steps plo phi r, bound_steps_check RN steps plo phi l).
Proof. intros H E. exact (proj2 (mk_wf_rev steps plo phi b l r p H E)). Qed.
(* bounds that cross at some steps only are rejected (was accepted before the repair recorded as O21) *)
Theorem C04_constructor_rejects_crossing steps plo phi b (l r : list R) : length l = steps -> length r = steps ->
  ~ ple l r -> ~ ple r l -> forall p, mk_staircase_gen RN steps plo phi b l r <> Ok p.
Proof. exact (mk_rejects_crossing steps plo phi b l r). Qed.
Print Assumptions C04_constructor_rejects_crossing.

(* expressions of any depth over constructor leaves with ARBITRARY arrays, number operations on either side, negation, reciprocal,
   arbitrary maps, + - * / under every dependency, envelope, imposition: the value is well formed or the evaluation raises *)
Theorem C04_expression steps plo phi (e : pexpr RN) : (0 < steps)%nat ->
  forall p, peval RN steps plo phi e = Ok p -> WF steps p.
Proof. exact (peval_wf_total steps plo phi e). Qed.
Print Assumptions C04_expression.
(* the same conclusion by the route that does not use the constructor's final test: when the leaves are ordered and the maps are
   nondecreasing on their domain, every operation hands the constructor bounds that are already in the right order *)
Theorem C04_expression_ordered steps plo phi (e : pexpr RN) : (0 < steps)%nat -> ok_expr e ->
  forall p, peval RN steps plo phi e = Ok p -> WF steps p.
Proof. exact (peval_wf steps plo phi e). Qed.
(* the support reported from a well-formed value: [first left value, last right value] = [min left, max right] *)
Theorem C04_range n p : WF n p -> (0 < n)%nat ->
  minl RN (fst p) = nth 0 (fst p) 0 /\ maxl RN (snd p) = last (snd p) 0.
Proof. exact (wf_range n p). Qed.
(* moments of a bounding ECDF (the fallback estimator): a distribution on points inside [a, b] has its mean in [a, b]
   and its variance in [0, (b - a)^2 / 4] *)
Theorem C04_moments_in_range (xs ws : list R) a b : length xs = length ws -> Forall (fun x => a <= x <= b) xs ->
  Forall (fun w => 0 <= w) ws -> sum_list ws = 1 ->
  let m := dot ws xs in a <= m <= b /\ 0 <= dot ws (map (fun x => (x - m) * (x - m)) xs) <= (b - a) * (b - a) / 4.
Proof. exact (moments_in_range xs ws a b). Qed.
Print Assumptions C04_moments_in_range.
Print Assumptions C04_constructor_is_translated.
