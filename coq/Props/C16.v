(* C16 - the ambient dependency setting is scoped, restored and isolated.  Pure data model (no reals, no axioms). *)
From Coq Require Import List Arith Bool.
From PUN Require Import Model.Ctx Proofs.Ctx Gen.GenCtx Proofs.CtxTie.
From PUN Require Import Base.Num Model.Pbox Model.PboxArith Gen.GenGlue Proofs.Glue.
Import ListNotations.

(* when a block ends - normally, by exception or by closing a generator, all of which reset the block's token -
   the setting in force before the block is in force again, whatever happened inside (any nesting, any order of other exits) *)
Theorem C16_exit_restores c b d body : forallb (fun e => negb (mentions b e)) body = true ->
  cur (snd (run1 c (Enter b d :: body ++ [Exit b]))) = cur c.
Proof. exact (exit_restores c b d body). Qed.
(* well-bracketed nesting of any depth and width returns to the initial state *)
Theorem C16_lifo_returns (bls : list block) c : snd (run1 c (concat (map events bls))) = c.
Proof. exact (lifo_returns bls c). Qed.
(* every interleaving of the events of any number of execution contexts: what context i observes, and where it ends,
   are those of i's own history run alone *)
Theorem C16_noninterference h s i :
  proj i (fst (run s h)) = fst (run1 (s i) (proj i h)) /\ snd (run s h) i = snd (run1 (s i) (proj i h)).
Proof. exact (noninterference h s i). Qed.
Theorem C16_read_is_current c : step1 c Read = (c, Some (cur c)).
Proof. exact (read_is_current c). Qed.
Theorem C16_enter_sets c b d : cur (fst (step1 c (Enter b d))) = d.
Proof. exact (enter_sets c b d). Qed.
Theorem C16_spawn_isolated parent b :
  lookup b (saved spawn_thread) = None /\ lookup b (saved (spawn_task parent)) = None /\ cur (spawn_task parent) = cur parent /\ cur spawn_thread = DepF.
Proof. exact (spawn_isolated parent b). Qed.

Example C16_ex : fst (run1 cinit [Enter 0 DepP; Enter 1 DepO; Read; Exit 1; Read; Exit 0; Read])
  = [Some DepP; Some DepO; Some DepO; Some DepP; Some DepP; Some DepF; Some DepF].
Proof. reflexivity. Qed.

(* inside a block the bare operators + - * / between two p-boxes behave exactly like the explicit methods called with the setting in
   force: the operator bodies TRANSLATED from pba/pbox_abc.py on every run (the ambient setting is their parameter) are the model's
   add / sub / mul / div with that dependency, on any number structure (uses the tie of Proofs/Glue.v: functional extensionality) *)
Theorem C16_operators_read_ambient (N : Num) (steps : nat) (p_lo p_hi : N) (p q : pbox N) (d : dep) :
  gen_operator_add N steps p_lo p_hi mul_fuel p q d = padd N steps p_lo p_hi d p q /\
  gen_operator_sub N steps p_lo p_hi mul_fuel p q d = psub N steps p_lo p_hi d p q /\
  gen_operator_mul N steps p_lo p_hi mul_fuel p q d = pmul N steps p_lo p_hi d p q /\
  gen_operator_div N steps p_lo p_hi mul_fuel p q d = pdiv N steps p_lo p_hi d p q.
Proof. exact (operators_read_ambient N steps p_lo p_hi p q d). Qed.

(* TIE: the context manager as pba/context.py has it NOW (translated on every run, Gen/GenCtx.v) is the model's step function, starts from the
   default 'f', and restores the setting in force before the block for every history *)
Theorem C16_manager_is_translated c e : gen_step1 c e = step1 c e /\ gen_init = cinit.
Proof. exact (conj (gen_step1_is_model c e) gen_init_is_model). Qed.
Theorem C16_translated_exit_restores c b d body : forallb (fun e => negb (mentions b e)) body = true ->
  cur (snd (gen_run1 c (Enter b d :: body ++ [Exit b]))) = cur c.
Proof. exact (gen_exit_restores c b d body). Qed.

Print Assumptions C16_exit_restores.
Print Assumptions C16_manager_is_translated.
Print Assumptions C16_translated_exit_restores.
Print Assumptions C16_lifo_returns.
Print Assumptions C16_noninterference.
Print Assumptions C16_operators_read_ambient.
