(* C18 - p-box queries (alpha-cut, cdf, discretisation, prediction interval) match the bounds.
   The grid facts (length = steps, strictly increasing) are proved for the constants translated from params.py. *)
From Coq Require Import Reals Lra Lia List ZArith.
From PUN Require Import Base.Num Model.Pbox Gen.GenParams Proofs.ListR Proofs.PboxWF Proofs.Query Proofs.Condense.
Import ListNotations.
Open Scope R_scope.

Definition steps := GenParams.steps.
Definition plo : R := GenParams.p_lboundary RN.
Definition phi : R := GenParams.p_hboundary RN.
Notation grid := (p_values RN steps plo phi).
Notation acut := (alpha_cut RN steps plo phi).

(* the configured grid *)
Lemma plo_lt_phi : plo < phi.
Proof. unfold plo, phi, p_lboundary, p_hboundary, nofdec. cbn [ndiv nofZ RN T]. cbn [Z.of_nat Pos.of_succ_nat Pos.succ Z.pow Z.pow_pos Pos.iter Z.mul Pos.mul Pos.add].
  apply Rmult_lt_reg_r with (IZR (10 ^ 3)); [apply IZR_lt; reflexivity|].
  unfold Rdiv. rewrite !Rmult_assoc, Rinv_l by (apply not_0_IZR; discriminate). rewrite !Rmult_1_r. apply IZR_lt. reflexivity. Qed.
Theorem C18_grid_length : @length R grid = steps.
Proof. apply linspace_length. Qed.
Theorem C18_grid_increasing : strictly_increasing grid.
Proof. apply linspace_increasing; [exact plo_lt_phi | unfold steps, GenParams.steps; lia]. Qed.
Lemma steps_pos : (0 < steps)%nat. Proof. unfold steps, GenParams.steps; lia. Qed.

(* alpha-cut = focal interval at the nearest grid level (first one on ties), for every level a *)
Theorem C18_alpha_cut_nearest (p : list R * list R) (a : R) :
  let i := find_nearest RN grid a in
  acut p a = (nth i (fst p) 0, nth i (snd p) 0) /\ (i < steps)%nat /\
  (forall j, (j < steps)%nat -> Rabs (nth i grid 0 - a) <= Rabs (nth j grid 0 - a)).
Proof. intros; eapply (acut_is_nearest steps plo phi); eauto using C18_grid_length, C18_grid_increasing, steps_pos. Qed.
Theorem C18_alpha_cut_at_grid (p : list R * list R) k : (k < steps)%nat -> acut p (nth k grid 0) = (nth k (fst p) 0, nth k (snd p) 0).
Proof. intros; eapply (acut_at_grid steps plo phi); eauto using C18_grid_length, C18_grid_increasing, steps_pos. Qed.
Theorem C18_alpha_cut_monotone (p : list R * list R) (a b : R) : WF steps p -> a <= b ->
  fst (acut p a) <= fst (acut p b) /\ snd (acut p a) <= snd (acut p b).
Proof. intros; eapply (acut_mono steps plo phi); eauto using C18_grid_length, C18_grid_increasing, steps_pos. Qed.
(* cdf and alpha-cuts inverse within one grid step *)
Theorem C18_cdf_alpha_cut_inverse (p : list R * list R) (x : R) : WF steps p ->
  let hi := snd (pcdf RN steps plo phi p x) in let lo := fst (pcdf RN steps plo phi p x) in
  (forall j, (j < steps)%nat -> Rabs (fst (acut p hi) - x) <= Rabs (nth j (fst p) 0 - x)) /\
  (forall j, (j < steps)%nat -> Rabs (snd (acut p lo) - x) <= Rabs (nth j (snd p) 0 - x)).
Proof. intros; eapply (cdf_acut_inverse steps plo phi); eauto using C18_grid_length, C18_grid_increasing, steps_pos. Qed.
Theorem C18_discretise_native (p : list R * list R) : discretise RN steps plo phi p steps = combine (fst p) (snd p).
Proof. exact (discretise_native steps plo phi p). Qed.
(* each outer interval contains all alpha-cuts of its probability band *)
Theorem C18_outer_contains_band (p : list R * list R) (a b c : R) : WF steps p -> a <= c <= b ->
  fst (acut p a) <= fst (acut p c) /\ snd (acut p c) <= snd (acut p b).
Proof. intros; eapply (outer_contains_band steps plo phi); eauto using C18_grid_length, C18_grid_increasing, steps_pos. Qed.
(* prediction intervals *)
Theorem C18_widest_contains_narrowest (p : list R * list R) alpha lo hi lo' hi' : WF steps p -> 0 <= alpha ->
  pi_widest RN steps plo phi p alpha = Ok (lo, hi) -> pi_narrowest RN steps plo phi p alpha = Ok (lo', hi') -> lo <= lo' /\ hi' <= hi.
Proof. intros; eapply (pi_widest_contains_narrowest steps plo phi); eauto using C18_grid_length, C18_grid_increasing, steps_pos. Qed.
Theorem C18_widest_monotone (p : list R * list R) a1 a2 lo1 hi1 lo2 hi2 : WF steps p -> 0 <= a1 <= a2 ->
  pi_widest RN steps plo phi p a1 = Ok (lo1, hi1) -> pi_widest RN steps plo phi p a2 = Ok (lo2, hi2) -> lo2 <= lo1 /\ hi1 <= hi2.
Proof. intros; eapply (pi_widest_mono steps plo phi); eauto using C18_grid_length, C18_grid_increasing, steps_pos. Qed.
(* PARTIAL: 'narrowest' is monotone only where the narrowest interval exists; where it does not the code falls back to
   'widest' and monotonicity in the coverage level fails (known finding O24) *)
Theorem C18_narrowest_monotone_partial (p : list R * list R) a1 a2 : WF steps p -> 0 <= a1 <= a2 ->
  snd (acut p ((1 - a1) / 2)) <= fst (acut p (1 - (1 - a1) / 2)) ->
  exists lo1 hi1 lo2 hi2, pi_narrowest RN steps plo phi p a1 = Ok (lo1, hi1) /\ pi_narrowest RN steps plo phi p a2 = Ok (lo2, hi2)
                          /\ lo2 <= lo1 /\ hi1 <= hi2.
Proof. intros; eapply (pi_narrowest_mono_partial steps plo phi); eauto using C18_grid_length, C18_grid_increasing, steps_pos. Qed.

(* condensation to fewer steps contains the original p-box (n >= 3: n - 1 >= 2 outer intervals; condensation(2) raises, finding O27).
   The theorem needs the configured constants: the probability cut off below p_lboundary and above p_hboundary is at most
   half a grid step, so the stacked equal-weight levels i/(n-1) and the outer levels linspace(p_lo, p_hi, n) select focal
   intervals that bracket every grid level. *)
Lemma plo_val : plo = 1 / 1000.
Proof. unfold plo, p_lboundary, nofdec. cbn [ndiv nofZ RN T]. cbn [Z.of_nat Pos.of_succ_nat Pos.succ Z.pow Z.pow_pos Pos.iter Z.mul Pos.mul Pos.add]. reflexivity. Qed.
Lemma phi_val : phi = 999 / 1000.
Proof. unfold phi, p_hboundary, nofdec. cbn [ndiv nofZ RN T]. cbn [Z.of_nat Pos.of_succ_nat Pos.succ Z.pow Z.pow_pos Pos.iter Z.mul Pos.mul Pos.add]. reflexivity. Qed.
Lemma steps_val : INR (steps - 1) = 199.
Proof. unfold steps, GenParams.steps. rewrite INR_IZR_INZ. reflexivity. Qed.
Theorem C18_condensation_contains (p : list R * list R) (n : nat) : WF steps p -> (3 <= n)%nat ->
  exists c, pcondensation RN steps plo phi p n = Ok c /\ WF steps c /\ ple (fst c) (fst p) /\ ple (snd p) (snd c).
Proof.
  apply condensation_contains; rewrite ?steps_val, ?plo_val, ?phi_val; try lra.
  unfold steps, GenParams.steps; lia.
Qed.

Print Assumptions C18_alpha_cut_nearest.
Print Assumptions C18_alpha_cut_monotone.
Print Assumptions C18_cdf_alpha_cut_inverse.
Print Assumptions C18_outer_contains_band.
Print Assumptions C18_widest_contains_narrowest.
Print Assumptions C18_widest_monotone.
Print Assumptions C18_narrowest_monotone_partial.
Print Assumptions C18_condensation_contains.

(* quantile bounds ARE cdf bounds (Proofs/ComposeCdf.v, on the notion of Proofs/Compose.v): whatever sample the p-box bounds, at every abscissa x
   the number of sample values <= x lies between the number of right-bound values <= x and the number of left-bound values <= x - the
   cumulative-probability bounds at x bound the empirical distribution function of every bounded sample *)
From PUN Require Import Base.Sort Proofs.Compose Proofs.ComposeCdf.
Theorem C18_cdf_bounds_every_sample (L Rr u : list R) (x : R) : bounds L Rr u ->
  (cnt (fun a => Rleb a x) Rr <= cnt (fun a => Rleb a x) u <= cnt (fun a => Rleb a x) L)%nat.
Proof. exact (counts_bound_sample L Rr u x). Qed.
Print Assumptions C18_cdf_bounds_every_sample.
