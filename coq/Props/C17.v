(* C17 - Kolmogorov-Smirnov confidence bands are valid bands around the empirical cdf.
   The critical-value table and constants are translated from pbox_free.py (d_alpha) on every run; the translator also
   checks that an alpha outside the table is rejected. *)
From Coq Require Import Reals Lra List.
From PUN Require Import Base.Num Model.Pbox Model.KS Gen.GenKS Proofs.ListR Proofs.Stacking Proofs.KS.
Import ListNotations.
Open Scope R_scope.

(* the shifted, clipped bounds are non-decreasing, lie in [0,1], enclose the empirical cdf, and differ from it by exactly D
   wherever no clipping occurs (p = the cumulative probabilities of the ecdf) *)
Theorem C17_band (p : list R) (D : R) : Rsorted p -> (forall x, In x p -> 0 <= x <= 1) -> 0 <= D ->
  let up := map (fun x => clip RN (x + D)) p in let dn := map (fun x => clip RN (x - D)) p in
  Rsorted up /\ Rsorted dn /\ (forall x, In x up \/ In x dn -> 0 <= x <= 1) /\
  (forall i, (i < length p)%nat -> nth i dn 0 <= nth i p 0 <= nth i up 0) /\
  (forall i, (i < length p)%nat -> nth i p 0 + D <= 1 -> nth i up 0 - nth i p 0 = D) /\
  (forall i, (i < length p)%nat -> 0 <= nth i p 0 - D -> nth i p 0 - nth i dn 0 = D).
Proof. exact (band_props p D). Qed.
(* D(n, alpha) is positive and strictly decreasing in n for every real n in [2, 500] and every tabulated alpha ... *)
Theorem C17_D_positive a A n : in_table a A -> 2 <= n <= 500 -> 0 < ks_D a A n.
Proof. exact (D_pos a A n). Qed.
Theorem C17_D_decreasing_in_n a A n : in_table a A -> 2 <= n <= 500 -> ks_D a A (n + 1) < ks_D a A n.
Proof. exact (D_decr_n a A n). Qed.
(* ... and decreases as alpha grows (rows of the table) *)
Theorem C17_D_decreasing_in_alpha n : 2 <= n <= 500 ->
  match ks_table with
  | [(a1, A1); (a2, A2); (a3, A3)] => a3 < a2 < a1 /\ ks_D a1 A1 n < ks_D a2 A2 n /\ ks_D a2 A2 n < ks_D a3 A3 n
  | _ => False end.
Proof. exact (D_decr_alpha n). Qed.
(* the band for interval data contains the band of every data set chosen inside the intervals, at every abscissa t
   (Mass = cumulated weight of the data <= t, i.e. the ecdf for equal weights) *)
Theorem C17_interval_band_contains (lo sel hi w : list R) (t D : R) :
  length lo = length w -> length sel = length w -> length hi = length w -> Forall (fun m => 0 <= m) w ->
  Forall2 Rle lo sel -> Forall2 Rle sel hi ->
  clip RN (Mass (combine hi w) t - D) <= clip RN (Mass (combine sel w) t - D) /\
  clip RN (Mass (combine sel w) t + D) <= clip RN (Mass (combine lo w) t + D).
Proof. exact (interval_band_contains lo sel hi w t D). Qed.

Print Assumptions C17_band.
Print Assumptions C17_D_positive.
Print Assumptions C17_D_decreasing_in_n.
Print Assumptions C17_D_decreasing_in_alpha.
Print Assumptions C17_interval_band_contains.
