(* C17 - Kolmogorov-Smirnov confidence bands are valid bands around the empirical cdf.
   The critical-value table and constants are translated from pbox_free.py (d_alpha) on every run; the translator also
   checks that an alpha outside the table is rejected. *)
From Coq Require Import Reals Lra Lia List ZArith.
From PUN Require Import Base.Num Model.Pbox Model.KS Gen.GenKS Gen.GenParams Proofs.ListR Proofs.Stacking Proofs.KS Proofs.KSPbox.
Import ListNotations.
Open Scope R_scope.

(* the shifted, clipped bounds are non-decreasing, lie in [0,1], enclose the empirical cdf, and differ from it by exactly D
   wherever no clipping occurs (p = the cumulative probabilities of the ecdf) *)
Theorem C17_band (p : list R) (D : R) : Rsorted p -> (forall x, In x p -> 0 <= x <= 1) -> 0 <= D ->
  let up := map (fun x => clip RN (x + D)) p in let dn := map (fun x => clip RN (x - D)) p in
  Rsorted up /\ Rsorted dn /\ (forall x, In x up \/ In x dn -> 0 <= x <= 1) /\
  (forall i, (i < length p)%nat -> nth i dn 0 <= nth i p 0 <= nth i up 0) /\
  (forall i, (i < length p)%nat -> nth i p 0 + D <= 1 -> nth i up 0 - nth i p 0 = D) /\
  (forall i, (i < length p)%nat -> 0 <= nth i p 0 - D -> nth i p 0 - nth i dn 0 = D).
Proof. exact (band_props p D). Qed.
(* D(n, alpha) is positive and strictly decreasing in n for every real n in [2, 500] and every tabulated alpha ... *)
Theorem C17_D_positive a A n : in_table a A -> 2 <= n <= 500 -> 0 < ks_D a A n.
Proof. exact (D_pos a A n). Qed.
Theorem C17_D_decreasing_in_n a A n : in_table a A -> 2 <= n <= 500 -> ks_D a A (n + 1) < ks_D a A n.
Proof. exact (D_decr_n a A n). Qed.
(* ... and decreases as alpha grows (rows of the table) *)
Theorem C17_D_decreasing_in_alpha n : 2 <= n <= 500 ->
  match ks_table with
  | [(a1, A1); (a2, A2); (a3, A3)] => a3 < a2 < a1 /\ ks_D a1 A1 n < ks_D a2 A2 n /\ ks_D a2 A2 n < ks_D a3 A3 n
  | _ => False end.
Proof. exact (D_decr_alpha n). Qed.
(* the band for interval data contains the band of every data set chosen inside the intervals, at every abscissa t
   (Mass = cumulated weight of the data <= t, i.e. the ecdf for equal weights) *)
Theorem C17_interval_band_contains (lo sel hi w : list R) (t D : R) :
  length lo = length w -> length sel = length w -> length hi = length w -> Forall (fun m => 0 <= m) w ->
  Forall2 Rle lo sel -> Forall2 Rle sel hi ->
  clip RN (Mass (combine hi w) t - D) <= clip RN (Mass (combine sel w) t - D) /\
  clip RN (Mass (combine sel w) t + D) <= clip RN (Mass (combine lo w) t + D).
Proof. exact (interval_band_contains lo sel hi w t D). Qed.

(* the p-box made from the band (Staircase.from_CDFbundle: both cdf bounds extended to probabilities 0 and 1 and inverted on the configured
   probability grid with interp1d 'next') contains the empirical distribution: at every grid level the left bound lies below and the right
   bound above the empirical quantile (q, p = abscissae and cumulated probabilities of the ecdf; any D >= 0) *)
Theorem C17_pbox_contains_ecdf (q p : list R) (D : R) L R' :
  Rsorted q -> length p = length q -> (1 <= length q)%nat -> Rsorted p -> (forall x, In x p -> 0 <= x <= 1) -> 0 <= D ->
  let plo := GenParams.p_lboundary RN in let phi := GenParams.p_hboundary RN in
  from_cdfbundle RN GenParams.steps plo phi (q, map (fun x => clip RN (x + D)) p) (q, map (fun x => clip RN (x - D)) p) = Ok (L, R') ->
  forall k, (k < GenParams.steps)%nat ->
    nth k L 0 <= interp_next RN p q (nth k (p_values RN GenParams.steps plo phi) 0) <= nth k R' 0.
Proof.
  intros Sq Lp Lq Sp Pu HD plo phi. apply (band_pbox_contains GenParams.steps plo phi); auto.
  intros k Hk. unfold p_values. apply linspace_in; auto; unfold plo, phi, p_lboundary, p_hboundary, nofdec, GenParams.steps in *; cbn [ndiv nofZ RN T]; try lia;
    replace (10 ^ Z.of_nat 3)%Z with 1000%Z by reflexivity; lra.
Qed.
Print Assumptions C17_band.
Print Assumptions C17_pbox_contains_ecdf.
Print Assumptions C17_D_positive.
Print Assumptions C17_D_decreasing_in_n.
Print Assumptions C17_D_decreasing_in_alpha.
Print Assumptions C17_interval_band_contains.
