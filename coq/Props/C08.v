(* C08 - Dempster-Shafer structures convert to their belief / plausibility p-box.
   Mass l v = cumulated mass of the focal elements (value, mass) of l whose value is <= v  (order-free by construction).
   ecdf_at s w a = value returned by get_ecdf + extend_ecdf + 'next' interpolation at level a. *)
From Coq Require Import Reals Lra Lia List Permutation.
From PUN Require Import Base.Num Model.Pbox Gen.GenParams Proofs.ListR Proofs.PboxWF Proofs.Query Proofs.Stacking.
Import ListNotations.
Open Scope R_scope.

(* the conversion evaluates ecdf_at of the lower / of the upper endpoints on the probability grid *)
Theorem C08_stacking_bounds (steps : nat) (plo phi : R) (lo hi w : list R) :
  stacking RN steps plo phi lo hi w =
  mk_staircase RN steps plo phi (map (ecdf_at lo w) (p_values RN steps plo phi)) (map (ecdf_at hi w) (p_values RN steps plo phi)).
Proof. exact (stacking_bounds steps plo phi lo hi w). Qed.

(* generalised inverse: the smallest endpoint whose cumulated mass reaches the level *)
Theorem C08_generalised_inverse (s w : list R) (a : R) : length s = length w -> s <> [] -> 0 < a <= 1 ->
  Forall (fun m => 0 <= m) w -> a <= Rsum w ->
  let v := ecdf_at s w a in
  In v s /\ a <= Mass (combine s w) v /\ (forall v', v' < v -> Mass (combine s w) v' < a).
Proof. exact (ecdf_at_ginv s w a). Qed.

(* independent of the order in which focal elements are listed *)
Theorem C08_order_independent (s w s' w' : list R) (a : R) :
  length s = length w -> length s' = length w' -> s <> [] -> s' <> [] -> 0 < a <= 1 ->
  Forall (fun m => 0 <= m) w -> Forall (fun m => 0 <= m) w' -> a <= Rsum w -> a <= Rsum w' ->
  Permutation (combine s w) (combine s' w') -> ecdf_at s w a = ecdf_at s' w' a.
Proof. exact (ecdf_at_perm s w s' w' a). Qed.
(* unchanged when a focal element is split into copies sharing its mass *)
Theorem C08_split_invariant (s w : list R) (x m1 m2 a : R) :
  length s = length w -> 0 < a <= 1 -> Forall (fun m => 0 <= m) w -> 0 <= m1 -> 0 <= m2 -> a <= m1 + m2 + Rsum w ->
  ecdf_at (x :: s) ((m1 + m2) :: w) a = ecdf_at (x :: x :: s) (m1 :: m2 :: w) a.
Proof. exact (ecdf_at_split s w x m1 m2 a). Qed.
(* monotone in the level and in the endpoints (so lower-endpoint bound <= upper-endpoint bound) *)
Theorem C08_monotone_in_level l a a' v v' : a <= a' -> is_ginv l a v -> is_ginv l a' v' -> v <= v'.
Proof. exact (is_ginv_mono_level l a a' v v'). Qed.
Theorem C08_lower_below_upper (s s' w : list R) a v v' : length s = length w -> length s' = length w -> Forall (fun m => 0 <= m) w ->
  Forall2 Rle s s' -> is_ginv (combine s w) a v -> is_ginv (combine s' w) a v' -> v <= v'.
Proof. exact (is_ginv_dom s s' w a v v'). Qed.

(* round trip p-box -> DS structure (n equal masses) -> p-box *)
Theorem C08_roundtrip_level (L : list R) (t : nat) (a : R) : Rsorted L -> (t < length L)%nat ->
  INR t / INR (length L) < a <= INR (S t) / INR (length L) -> 0 < a <= 1 ->
  ecdf_at L (repeat (/ INR (length L)) (length L)) a = nth t L 0.
Proof. exact (roundtrip_level L t a). Qed.
(* ... and the configured grid (constants translated from params.py) satisfies the level condition at every step *)
Theorem C08_grid_levels t : (t < GenParams.steps)%nat ->
  let a := nth t (p_values RN GenParams.steps (GenParams.p_lboundary RN) (GenParams.p_hboundary RN)) 0 in
  INR t / INR GenParams.steps < a <= INR (S t) / INR GenParams.steps /\ 0 < a <= 1.
Proof.
  intros Ht. cbv zeta. unfold p_values. rewrite linspace_nth by (unfold GenParams.steps in *; lia).
  unfold GenParams.steps in *. unfold p_lboundary, p_hboundary, nofdec. cbn [ndiv nofZ RN T].
  replace (IZR (10 ^ Z.of_nat 3)) with 1000 by (cbn; lra).
  replace (INR (200 - 1)) with 199 by (cbn; lra). replace (INR 200) with 200 by (cbn; lra).
  rewrite S_INR. assert (H0 : 0 <= INR t) by apply pos_INR. assert (H1 : INR t <= 199) by (replace 199 with (INR 199) by (cbn; lra); apply le_INR; lia).
  repeat split; try (apply Rmult_lt_reg_r with 200; [lra|]); try (apply Rmult_le_reg_r with 200; [lra|]); unfold Rdiv; try field_simplify; lra.
Qed.

Example C08_ex : Mass (combine [1; 3; 2] [1/2; 1/4; 1/4]) 2 = 1/2 + (1/4 + 0).
Proof. unfold Mass. cbn [combine filter fst]. 
  repeat match goal with |- context [Rleb ?a ?b] => destruct (Rleb_spec a b); try lra end. reflexivity. Qed.

(* hence the p-box CONTAINS EVERY SELECTION: for any choice of one point x_i inside each focal interval, the quantile at level a of the
   distribution with atoms x_i and the given masses lies between the left and the right bound at that level *)
Theorem C08_contains_every_selection (lo x hi w : list R) a vl vx vh :
  length lo = length w -> length x = length w -> length hi = length w -> Forall (fun m => 0 <= m) w ->
  Forall2 Rle lo x -> Forall2 Rle x hi ->
  is_ginv (combine lo w) a vl -> is_ginv (combine x w) a vx -> is_ginv (combine hi w) a vh -> vl <= vx <= vh.
Proof. intros L1 L2 L3 Hw H1 H2 G1 G2 G3. split; [exact (is_ginv_dom lo x w a vl vx L1 L2 Hw H1 G1 G2)|exact (is_ginv_dom x hi w a vx vh L2 L3 Hw H2 G2 G3)]. Qed.
Print Assumptions C08_generalised_inverse.
Print Assumptions C08_contains_every_selection.
Print Assumptions C08_order_independent.
Print Assumptions C08_split_invariant.
Print Assumptions C08_roundtrip_level.
Print Assumptions C08_grid_levels.
Print Assumptions C08_stacking_bounds.
