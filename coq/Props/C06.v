(* C06 - p-box with a real number, negation, reciprocal and monotone maps act step by step, exactly.
   WF n (L,R): both bounds have n entries, are non-decreasing, and L <= R pointwise. *)
From Coq Require Import Reals Lra Lia List.
From PUN Require Import Base.Num Model.Pbox Proofs.ListR Proofs.PboxWF Proofs.PboxUnary.
From PUN Require Import Gen.GenCtor Proofs.CtorTie.
Import ListNotations.
Open Scope R_scope.

Section S.
Variable steps : nat.
Variables plo phi : R.

(* P op c for an operation nondecreasing in P (plus c, minus c, times c with c >= 0, over c with c > 0): every step is mapped, order kept *)
Theorem C06_number_increasing (f : R -> R -> R) (c : R) (p : list R * list R) :
  WF steps p -> (forall a b, a <= b -> f a c <= f b c) ->
  pnum RN steps plo phi f p c = Ok (map (fun x => f x c) (fst p), map (fun x => f x c) (snd p)).
Proof. exact (pnum_mono steps plo phi f c p). Qed.
(* decreasing in P (times c with c <= 0, over c with c < 0): bounds exchanged and re-ordered: step k = [f R_{n-1-k}, f L_{n-1-k}] *)
Theorem C06_number_decreasing (f : R -> R -> R) (c : R) (p : list R * list R) :
  WF steps p -> (forall a b, a <= b -> f b c <= f a c) ->
  pnum RN steps plo phi f p c = Ok (map (fun x => f x c) (rev (snd p)), map (fun x => f x c) (rev (fst p))).
Proof. exact (pnum_anti steps plo phi f c p). Qed.
Theorem C06_neg (p : list R * list R) : WF steps p ->
  pneg RN steps plo phi p = Ok (map Ropp (rev (snd p)), map Ropp (rev (fst p))).
Proof. exact (pneg_steps steps plo phi p). Qed.
Theorem C06_neg_involutive (p : list R * list R) : WF steps p ->
  rbind (pneg RN steps plo phi p) (pneg RN steps plo phi) = Ok p.
Proof. exact (pneg_involutive steps plo phi p). Qed.
Theorem C06_reciprocal (p : list R * list R) : WF steps p -> (0 < nth 0 (fst p) 0 \/ last (snd p) 0 < 0) ->
  precip RN steps plo phi p = Ok (map (fun x => 1 / x) (rev (snd p)), map (fun x => 1 / x) (rev (fst p))).
Proof. exact (precip_steps steps plo phi p). Qed.
Theorem C06_reciprocal_zero (p : list R * list R) : nth 0 (fst p) 0 <= 0 <= last (snd p) 0 ->
  precip RN steps plo phi p = Raise ZeroDivision.
Proof. exact (precip_zero steps plo phi p). Qed.
Theorem C06_monotone_map (f : R -> R) (D : R -> Prop) (p : list R * list R) :
  WF steps p -> (forall x, In x (fst p) \/ In x (snd p) -> D x) -> (forall a b, D a -> D b -> a <= b -> f a <= f b) ->
  punary RN steps plo phi f p = Ok (map f (fst p), map f (snd p)).
Proof. exact (punary_mono steps plo phi f D p). Qed.
(* c - P = -(P - c) *)
Theorem C06_rsub_law (c : R) (p : list R * list R) : WF steps p ->
  rbind (pneg RN steps plo phi p) (fun q => pnum RN steps plo phi Rplus q c)
  = rbind (pnum RN steps plo phi Rplus p (- c)) (pneg RN steps plo phi).
Proof. exact (rsub_law steps plo phi c p). Qed.
(* P * 0 is the number 0 *)
Theorem C06_mul_zero (p : list R * list R) : WF steps p ->
  pnum RN steps plo phi Rmult p 0 = Ok (map (fun _ => 0) (fst p), map (fun _ => 0) (snd p)).
Proof. exact (mul_zero steps plo phi p). Qed.
End S.

(* non-vacuity *)
Example C06_ex : WF 2 ([-1; 2], [0; 3]).
Proof. constructor; cbn [fst snd]; auto; try (apply nth_Rsorted; intros [|[|i]] [|[|j]] H; cbn in *; try lia; lra).
  repeat constructor; lra. Qed.

(* TIE: negation, reciprocal, number operations, monotone maps, envelope and imposition of the model are the definitions recognised in
   the source on every run (Gen/GenCtor.v) *)
Theorem C06_stepwise_ops_are_translated (N : Num) (steps : nat) (p_lo p_hi : N) (p q : pbox N) (f : N -> N -> N) (g : N -> N) (c : N) :
  gen_pneg N steps p_lo p_hi p = pneg N steps p_lo p_hi p /\
  gen_precip N steps p_lo p_hi p = precip N steps p_lo p_hi p /\
  gen_pnum N steps p_lo p_hi f p c = pnum N steps p_lo p_hi f p c /\
  gen_punary N steps p_lo p_hi g p = punary N steps p_lo p_hi g p /\
  gen_penv N steps p_lo p_hi p q = penv N steps p_lo p_hi p q /\
  gen_pimp N steps p_lo p_hi p q = pimp N steps p_lo p_hi p q.
Proof. exact (gen_stepwise_ops_are_model N steps p_lo p_hi p q f g c). Qed.

(* P ** c with a real exponent, as recognised in the source (Staircase.pow): a negative exponent on a support containing zero is an error like
   the reciprocal, for any power function and whatever the zero-straddling route does; a value is only returned outside that case; and the
   translated routing is the model's *)
Theorem C06_negative_power_of_zero_support_raises steps plo phi (powf : R -> R -> R) route0 (p : list R * list R) (c : R) :
  c < 0 -> nth 0 (fst p) 0 <= 0 <= last (snd p) 0 -> ppow RN steps plo phi powf route0 p c = Raise ZeroDivision.
Proof. exact (ppow_zero steps plo phi powf route0 p c). Qed.
Theorem C06_power_value_only_off_the_pole steps plo phi (powf : R -> R -> R) route0 (p : list R * list R) (c : R) r :
  ppow RN steps plo phi powf route0 p c = Ok r -> 0 <= c \/ 0 < nth 0 (fst p) 0 \/ last (snd p) 0 < 0.
Proof. exact (ppow_ok_guard steps plo phi powf route0 p c r). Qed.
Theorem C06_power_is_translated (N : Num) (steps : nat) (p_lo p_hi : N) (powf : N -> N -> N) (route0 : pbox N -> N -> res (pbox N)) (p : pbox N) (c : N) :
  gen_ppow N steps p_lo p_hi powf route0 p c = ppow N steps p_lo p_hi powf route0 p c.
Proof. exact (gen_power_is_model N steps p_lo p_hi powf route0 p c). Qed.
Example C06_power_ex : ppow RN 2 0 1 (fun x _ => x) (fun p _ => Ok p) ([0; 1], [0; 1]) (-1) = Raise ZeroDivision.
Proof. apply C06_negative_power_of_zero_support_raises; cbn; lra. Qed.
Print Assumptions C06_negative_power_of_zero_support_raises.
Print Assumptions C06_power_value_only_off_the_pole.
Print Assumptions C06_power_is_translated.

Print Assumptions C06_number_increasing.
Print Assumptions C06_number_decreasing.
Print Assumptions C06_neg_involutive.
Print Assumptions C06_reciprocal.
Print Assumptions C06_monotone_map.
Print Assumptions C06_rsub_law.
Print Assumptions C06_stepwise_ops_are_translated.

(* SAMPLE FORM (Proofs/Compose*.v): "transforms every focal interval by the same map" read on samples - whatever sample the operand bounds,
   the result (when there is one) is well formed and bounds the sample transformed value by value; increasing maps keep the order of the
   bounds, decreasing maps exchange and re-order them. *)
From PUN Require Import Proofs.Compose Proofs.ComposeOps Proofs.ComposeAll.
Theorem C06_number_op_sound steps plo phi (f : R -> R -> R) c (p : list R * list R) (u : list R) r :
  ((forall a b, a <= b -> f a c <= f b c) \/ (forall a b, a <= b -> f b c <= f a c)) ->
  snd_ steps p u -> pnum RN steps plo phi f p c = Ok r -> snd_ steps r (map (fun a => f a c) u).
Proof. intros [H|H]; [exact (pnum_sound_incr steps plo phi f c p u r H)|exact (pnum_sound_anti steps plo phi f c p u r H)]. Qed.
Theorem C06_negation_sound steps plo phi (p : list R * list R) (u : list R) r :
  snd_ steps p u -> pneg RN steps plo phi p = Ok r -> snd_ steps r (map Ropp u).
Proof. exact (pneg_sound steps plo phi p u r). Qed.
Theorem C06_reciprocal_sound steps plo phi (p : list R * list R) (u : list R) r : (0 < steps)%nat ->
  snd_ steps p u -> precip RN steps plo phi p = Ok r -> snd_ steps r (map (fun a => 1 / a) u).
Proof. intros. eapply precip_sound; eauto. Qed.
(* exp, log, sqrt, positive powers ...: a map nondecreasing on its domain (dom: the domain test the implementation applies to both bounds),
   the domain being upward closed *)
From PUN Require Import Model.PExpr Proofs.ComposeExpr.
Theorem C06_monotone_map_sound steps plo phi (f : R -> R) (dom : R -> bool) (p : list R * list R) (u : list R) r :
  (forall a b, dom a = true -> dom b = true -> a <= b -> f a <= f b) -> (forall a b, dom a = true -> a <= b -> dom b = true) ->
  snd_ steps p u -> map_eval RN steps plo phi f dom p = Ok r -> snd_ steps r (map f u).
Proof. exact (map_eval_sound steps plo phi f dom p u r). Qed.
Print Assumptions C06_number_op_sound.
Print Assumptions C06_reciprocal_sound.
