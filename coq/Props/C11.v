(* C11 - envelope and imposition are the lattice join and meet of uncertain numbers.
   inside P Q : Q's left bound is below and its right bound above P's, at every step. *)
From Coq Require Import Reals Lra Lia List Permutation.
From PUN Require Import Base.Num Model.Pbox Proofs.ListR Proofs.PboxWF Proofs.Lattice.
From PUN Require Import Gen.GenCtor Proofs.CtorTie.
Import ListNotations.
Open Scope R_scope.

Section S.
Variable steps : nat.
Variables plo phi : R.

(* the code's env / imp compute the pointwise min/max bounds (and imp raises exactly when they cross) *)
Theorem C11_env_is_pointwise p q : WF steps p -> WF steps q -> penv RN steps plo phi p q = Ok (env_raw p q).
Proof. exact (penv_spec steps plo phi p q). Qed.
Theorem C11_imp_is_pointwise p q : WF steps p -> WF steps q -> ple (fst (imp_raw p q)) (snd (imp_raw p q)) ->
  pimp RN steps plo phi p q = Ok (imp_raw p q).
Proof. exact (pimp_spec steps plo phi p q). Qed.
Theorem C11_imp_empty_raises p q : WF steps p -> WF steps q -> ~ ple (fst (imp_raw p q)) (snd (imp_raw p q)) ->
  pimp RN steps plo phi p q = Raise EmptyImp.
Proof. exact (pimp_empty steps plo phi p q). Qed.
Theorem C11_imp_exists_if_common p q z : WF steps p -> WF steps q -> WF steps z -> inside z p -> inside z q ->
  ple (fst (imp_raw p q)) (snd (imp_raw p q)).
Proof. exact (imp_nonempty_if_common steps p q z). Qed.
Theorem C11_env_wf p q : WF steps p -> WF steps q -> WF steps (env_raw p q).
Proof. exact (env_raw_WF steps p q). Qed.

(* join: upper bound and least *)
Theorem C11_env_upper p q : WF steps p -> WF steps q -> inside p (env_raw p q) /\ inside q (env_raw p q).
Proof. exact (env_upper steps p q). Qed.
Theorem C11_env_least p q z : WF steps p -> WF steps q -> WF steps z -> inside p z -> inside q z -> inside (env_raw p q) z.
Proof. exact (env_least steps p q z). Qed.
(* meet: lower bound and greatest *)
Theorem C11_imp_lower p q : WF steps p -> WF steps q -> inside (imp_raw p q) p /\ inside (imp_raw p q) q.
Proof. exact (imp_lower steps p q). Qed.
Theorem C11_imp_greatest p q z : WF steps p -> WF steps q -> WF steps z -> inside z p -> inside z q -> inside z (imp_raw p q).
Proof. exact (imp_greatest steps p q z). Qed.
End S.

(* commutative, associative, idempotent; folding over a family is independent of the order of listing *)
Theorem C11_env_comm p q : env_raw p q = env_raw q p. Proof. exact (env_comm p q). Qed.
Theorem C11_env_assoc p q r : env_raw p (env_raw q r) = env_raw (env_raw p q) r. Proof. exact (env_assoc p q r). Qed.
Theorem C11_env_idem p : env_raw p p = p. Proof. exact (env_idem p). Qed.
Theorem C11_imp_comm p q : imp_raw p q = imp_raw q p. Proof. exact (imp_comm p q). Qed.
Theorem C11_imp_assoc p q r : imp_raw p (imp_raw q r) = imp_raw (imp_raw p q) r. Proof. exact (imp_assoc p q r). Qed.
Theorem C11_imp_idem p : imp_raw p p = p. Proof. exact (imp_idem p). Qed.
Theorem C11_env_order_independent l l' z : Permutation l l' -> fold_left env_raw l z = fold_left env_raw l' z.
Proof. exact (env_fold_perm l l' z). Qed.
(* the support-based `in` test agrees with the ordering *)
Theorem C11_contains_monotone steps p q : WF steps p -> WF steps q -> (0 < steps)%nat -> inside p q ->
  nth 0 (fst q) 0 <= nth 0 (fst p) 0 /\ last (snd p) 0 <= last (snd q) 0.
Proof. exact (contains_mono steps p q). Qed.

Example C11_ex : env_raw ([1; 2], [3; 4]) ([0; 5], [1; 6]) = ([Rmin 1 0; Rmin 2 5], [Rmax 3 1; Rmax 4 6]).
Proof. reflexivity. Qed.

(* TIE: negation, reciprocal, number operations, monotone maps, envelope and imposition of the model are the definitions recognised in
   the source on every run (Gen/GenCtor.v) *)
Theorem C11_stepwise_ops_are_translated (N : Num) (steps : nat) (p_lo p_hi : N) (p q : pbox N) (f : N -> N -> N) (g : N -> N) (c : N) :
  gen_pneg N steps p_lo p_hi p = pneg N steps p_lo p_hi p /\
  gen_precip N steps p_lo p_hi p = precip N steps p_lo p_hi p /\
  gen_pnum N steps p_lo p_hi f p c = pnum N steps p_lo p_hi f p c /\
  gen_punary N steps p_lo p_hi g p = punary N steps p_lo p_hi g p /\
  gen_penv N steps p_lo p_hi p q = penv N steps p_lo p_hi p q /\
  gen_pimp N steps p_lo p_hi p q = pimp N steps p_lo p_hi p q.
Proof. exact (gen_stepwise_ops_are_model N steps p_lo p_hi p q f g c). Qed.

Print Assumptions C11_env_is_pointwise.
Print Assumptions C11_imp_is_pointwise.
Print Assumptions C11_imp_empty_raises.
Print Assumptions C11_env_least.
Print Assumptions C11_imp_greatest.
Print Assumptions C11_env_order_independent.
Print Assumptions C11_stepwise_ops_are_translated.

(* SAMPLE FORM (Proofs/ComposeOps.v): a sample bounded by one of the operands is bounded by their envelope; a sample bounded by BOTH operands
   is bounded by their imposition (whenever the operation returns a p-box, which is then well formed) *)
From PUN Require Import Proofs.Compose Proofs.ComposeOps.
Theorem C11_envelope_sound steps plo phi (p q : list R * list R) (w : list R) r : WF steps p -> WF steps q ->
  (snd_ steps p w \/ snd_ steps q w) -> penv RN steps plo phi p q = Ok r -> snd_ steps r w.
Proof. intros Wp Wq [H|H] E; apply (penv_sound steps plo phi p q w r Wq); auto. Qed.
Theorem C11_imposition_sound steps plo phi (p q : list R * list R) (w : list R) r :
  snd_ steps p w -> snd_ steps q w -> pimp RN steps plo phi p q = Ok r -> snd_ steps r w.
Proof. exact (pimp_sound steps plo phi p q w r). Qed.
Print Assumptions C11_envelope_sound.
Print Assumptions C11_imposition_sound.
