(* C19 - TMCMC tempering progresses to the posterior; its MH kernel respects the target.
   ess, log_prior, log_lik are arbitrary (oracles for numpy / scipy / the user's model); xr = reals with -inf, +inf and nan. *)
From Coq Require Import Reals Lra List ZArith Bool.
From PUN Require Import Base.Num Model.TMCMC Proofs.Stacking Proofs.TMCMC Gen.GenTMCMC Proofs.TMCMCTie.
Import ListNotations.
Open Scope R_scope.

(* the bisection terminates within 29 passes for every exponent in [0, 2) *)
Theorem C19_terminates (ess : nat -> R -> Z) rN beta : 0 <= beta -> beta < 2 -> bisect RN ess (1 / 10 ^ 8) rN beta 29 <> None.
Proof. intros H0 H2. exact (bisect_terminates ess (1 / 10 ^ 8) rN beta H0 H2 eq_refl). Qed.
(* every stage strictly increases the exponent, never beyond 1, and lands exactly on 1 as soon as the bisection reaches 1:
   the stage loop `while beta < 1` therefore ends with exponent exactly 1 *)
Theorem C19_next_beta (ess : nat -> R -> Z) tol rN beta fuel b e : 0 < tol -> beta < 1 -> tol < 1 ->
  next_beta RN ess tol rN beta fuel = Some (b, e) ->
  beta < b <= 1 /\ (forall s, bisect RN ess tol rN beta fuel = Some s -> (1 <= b_new RN s -> b = 1) /\ (b_new RN s < 1 -> b = b_new RN s)).
Proof. intros Ht. exact (next_beta_spec ess tol rN Ht beta fuel b e). Qed.
(* the exponent found brackets the ESS target: evaluated exponents with ESS above the target below it, below the target above it,
   less than tol apart (or the ESS equals the target) *)
Theorem C19_bisect_brackets (ess : nat -> R -> Z) tol rN beta fuel s : 0 < tol -> tol < 2 - beta -> bisect RN ess tol rN beta fuel = Some s ->
  beta < b_new RN s /\ b_min RN s <= b_new RN s <= b_max RN s /\ b_max RN s <= 2 /\
  (b_hit RN s = true \/ b_max RN s - b_min RN s <= tol) /\
  (b_min RN s = beta \/ exists k, IZR (ess k (b_min RN s)) > rN) /\ (b_max RN s = 2 \/ exists k, IZR (ess k (b_max RN s)) < rN) /\
  (exists k, b_ess RN s = ess k (b_new RN s)).
Proof. intros Ht. exact (bisect_spec ess tol rN Ht beta fuel s). Qed.
(* for an ESS that does not increase with the exponent: the largest admissible increment, within tol *)
Theorem C19_largest (ess : nat -> R -> Z) tol rN beta fuel s : 0 < tol -> tol < 2 - beta ->
  (forall k k' x y, x <= y -> (ess k' y <= ess k x)%Z) -> bisect RN ess tol rN beta fuel = Some s -> b_hit RN s = false ->
  b_max RN s - b_new RN s <= tol /\ (b_max RN s < 2 -> forall k y, b_max RN s <= y -> IZR (ess k y) < rN).
Proof. exact (bisect_largest ess tol rN beta fuel s). Qed.
Print Assumptions C19_largest.
(* TIE: the bisection as calibration/tmcmc.py has it NOW (translated on every run, Gen/GenTMCMC.v: initial bracket, midpoint, three-way update,
   `break`, tolerance literal, clamp) is the model's loop on any number structure ... *)
Theorem C19_bisection_is_translated (N : Num) (ess : nat -> N -> Z) beta rN fuel :
  gen_next_beta N ess beta rN fuel = next_beta N ess (gen_tol N) rN beta fuel.
Proof. exact (gen_next_beta_is_model N ess beta rN fuel). Qed.
(* ... and the two headline statements about the translated loop itself: it terminates within 29 passes with the tolerance written in the
   source, and every stage strictly increases the exponent, never beyond 1 *)
Theorem C19_translated_terminates (ess : nat -> R -> Z) rN beta : 0 <= beta -> beta < 2 -> gen_next_beta RN ess beta rN 29 <> None.
Proof. exact (gen_terminates ess rN beta). Qed.
Theorem C19_translated_increases (ess : nat -> R -> Z) rN beta fuel b e : beta < 1 ->
  gen_next_beta RN ess beta rN fuel = Some (b, e) -> beta < b <= 1.
Proof. exact (gen_next_beta_increases ess rN beta fuel b e). Qed.
Print Assumptions C19_bisection_is_translated.
Print Assumptions C19_translated_increases.
(* importance weights: a probability vector proportional to likelihood^increment *)
Theorem C19_weights inc ls M : ls <> [] ->
  let w := normalise (wts inc ls M) in
  Rsum w = 1 /\ Forall (fun x => 0 < x) w /\
  (forall i j, (i < length ls)%nat -> (j < length ls)%nat -> nth i w 0 / nth j w 0 = exp (inc * (nth i ls 0 - nth j ls 0))).
Proof. exact (weights_probability inc ls M). Qed.
Print Assumptions C19_weights.

Section MH.
Variable P : Type.
Variable padd : P -> P -> P.
Variable log_prior log_lik : P -> xr.
Variable beta : xr.
Notation mhR := (mh XR P padd log_prior log_lik beta).
(* a Metropolis-Hastings move, any number of steps, any increments and uniform draws: never leaves the prior support ... *)
Theorem C19_mh_support s steps : in_support P log_prior s -> in_support P log_prior (mhR s steps).
Proof. exact (mh_support P padd log_prior log_lik beta s steps). Qed.
(* ... and the stored log-likelihood and tempered log-posterior are those of the returned state at the current exponent *)
Theorem C19_mh_consistent s steps : consistent P log_prior log_lik beta s -> consistent P log_prior log_lik beta (mhR s steps).
Proof. exact (mh_consistent P padd log_prior log_lik beta s steps). Qed.
(* acceptance: exactly when the difference of tempered log-posteriors is finite and exceeds log u *)
Theorem C19_mh_rejects s d (u : xr) :
  let q := padd (m_cur XR P s) d in
  let post := if xfinite (log_prior q) then xadd (log_prior q) (xmul (log_lik q) beta) else XNegInf in
  xfinite (xsub post (m_post XR P s)) && xltb u (xsub post (m_post XR P s)) = false ->
  mh_step XR P padd log_prior log_lik beta s (d, u) = s.
Proof. exact (mh_step_rejects P padd log_prior log_lik beta s d u). Qed.
Theorem C19_mh_accepts s d (u : xr) :
  mh_step XR P padd log_prior log_lik beta s (d, u) = s \/
  (let q := padd (m_cur XR P s) d in
   mh_step XR P padd log_prior log_lik beta s (d, u) = mkM XR P q (log_lik q) (xadd (log_prior q) (xmul (log_lik q) beta)) (S (m_acc XR P s)) /\
   xfinite (log_prior q) = true /\
   xfinite (xsub (xadd (log_prior q) (xmul (log_lik q) beta)) (m_post XR P s)) = true /\
   xltb u (xsub (xadd (log_prior q) (xmul (log_lik q) beta)) (m_post XR P s)) = true).
Proof. exact (mh_step_cases P padd log_prior log_lik beta s d u). Qed.
(* every particle of a stage stays inside the support *)
Theorem C19_stage_support (particles : list (mstate XR P)) (moves : list (list (P * xr))) :
  Forall (in_support P log_prior) particles ->
  Forall (in_support P log_prior) (map (fun sm => mhR (fst sm) (snd sm)) (combine particles moves)).
Proof. exact (stage_support P padd log_prior log_lik beta particles moves). Qed.
End MH.
Print Assumptions C19_mh_support.
(* log u < log ratio  <->  u < ratio: for u uniform on (0,1) the move is accepted with probability min(1, ratio) *)
Theorem C19_log_accept (u a : R) : 0 < u -> (ln u < a <-> u < exp a).
Proof. exact (log_accept_iff u a). Qed.
