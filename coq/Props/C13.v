(* C13 - interval propagation strategies nest around the true range.
   Response functions range over a deep-embedded grammar (+ - * / integer powers exp sqrt, repeated variables);
   evalR e x is the point value, the strategies are the models of b2b.py. *)
From Coq Require Import Reals Lra List.
From PUN Require Import Base.Num Model.Interval Model.IntervalFun Model.Pbox Model.B2B Proofs.IntervalOps Proofs.Parametric Proofs.B2B Proofs.B2BMono Proofs.Iso.
Import ListNotations.
Open Scope R_scope.

Section S.
Variables (fexp : R -> R) (fpow : R -> nat -> R).
Hypothesis fexp_is : forall x, fexp x = exp x.
Hypothesis fpow_is : forall x k, fpow x k = x ^ k.

(* direct evaluation encloses the true range (fundamental theorem of interval arithmetic, any expression depth, any dimension) *)
Theorem C13_direct_encloses e xs box r : in_box xs box -> wf_box box -> direct RN fexp fpow e box = Ok r -> in_pr (eval RN fexp fpow e xs) r.
Proof. exact (direct_encloses fexp fpow fexp_is fpow_is e xs box r). Qed.
(* the tiles cover the box: every point of the box lies in some tile *)
Theorem C13_tiles_cover box n xs : (1 <= n)%nat -> in_box xs box -> exists tb, In tb (subintervalise RN box n) /\ in_box xs tb.
Proof. exact (tiles_cover box n xs). Qed.
(* subinterval reconstitution with direct evaluation encloses the true range *)
Theorem C13_sub_direct_encloses e xs box n r : (1 <= n)%nat -> in_box xs box ->
  (forall tb, In tb (subintervalise RN box n) -> wf_box tb) ->
  sub_direct RN fexp fpow e box n = Ok r -> in_pr (eval RN fexp fpow e xs) r.
Proof. exact (sub_direct_encloses fexp fpow fexp_is fpow_is e xs box n r). Qed.
(* every tile is a well-formed box inside the input box; hence the hypothesis above holds for every well-formed box, and the
   reconstituted result lies inside the un-subdivided direct result (functions whose powers have positive exponents) *)
Theorem C13_tiles_inside box n tb : wf_box box -> (1 <= n)%nat -> In tb (subintervalise RN box n) -> wf_box tb /\ Forall2 sub_pr tb box.
Proof. exact (tiles_inside box n tb). Qed.
Theorem C13_sub_direct_encloses_wf e xs box n r : (1 <= n)%nat -> in_box xs box -> wf_box box ->
  sub_direct RN fexp fpow e box n = Ok r -> in_pr (eval RN fexp fpow e xs) r.
Proof. intros Hn Hb W. apply (sub_direct_encloses fexp fpow fexp_is fpow_is e xs box n r Hn Hb). intros tb Hin. exact (proj1 (tiles_inside box n tb W Hn Hin)). Qed.
Theorem C13_sub_direct_inside_direct e box n r D : pos_pows e -> wf_box box -> (1 <= n)%nat ->
  sub_direct RN fexp fpow e box n = Ok r -> direct RN fexp fpow e box = Ok D -> sub_pr r D.
Proof. exact (sub_direct_inside_direct fexp fpow fexp_is fpow_is e box n r D). Qed.
(* the vertex method returns exactly the min / max over the 2^d corners, both attained inside the box *)
Theorem C13_endpoints_minmax e box r : endpoints RN fexp fpow e box = Ok r ->
  forall c, In c (corners RN box) -> fst r <= eval RN fexp fpow e c <= snd r.
Proof. exact (endpoints_is_corner_minmax fexp fpow e box r). Qed.
Theorem C13_endpoints_inside_range e box r : wf_box box -> endpoints RN fexp fpow e box = Ok r ->
  (exists c, in_box c box /\ eval RN fexp fpow e c = fst r) /\ (exists c, in_box c box /\ eval RN fexp fpow e c = snd r).
Proof. exact (endpoints_inside_range fexp fpow e box r). Qed.
(* subinterval reconstitution with vertices lies between the plain vertex result and the true range:
   (a) it contains the vertex result of the un-subdivided box (each box corner is a corner of the first or last tile per dimension);
   (b) both of its ends are values of the function at points of the box *)
Theorem C13_sub_endpoints_contains_endpoints e box n r r0 : (1 <= n)%nat ->
  sub_endpoints RN fexp fpow e box n = Ok r -> endpoints RN fexp fpow e box = Ok r0 -> sub_pr r0 r.
Proof. exact (sub_endpoints_contains_endpoints fexp fpow e box n r r0). Qed.
Theorem C13_sub_endpoints_inside_range e box n r : (1 <= n)%nat -> wf_box box ->
  sub_endpoints RN fexp fpow e box n = Ok r ->
  (exists c, in_box c box /\ eval RN fexp fpow e c = fst r) /\ (exists c, in_box c box /\ eval RN fexp fpow e c = snd r).
Proof. intros Hn W. apply (sub_endpoints_inside_range fexp fpow e box n r Hn W). intros tb Hin. exact (tiles_inside box n tb W Hn Hin). Qed.
(* the vertex method equals the true range for functions monotone in each argument (either direction, the direction may depend on the
   other arguments): every value over the box lies between the corner minimum and maximum - with C13_endpoints_inside_range (both ends are
   values of the function) the vertex result IS the range *)
Theorem C13_endpoints_exact_for_monotone e box r xs : wf_box box -> in_box xs box -> coord_mono (eval RN fexp fpow e) box ->
  endpoints RN fexp fpow e box = Ok r -> in_pr (eval RN fexp fpow e xs) r.
Proof. exact (endpoints_exact_monotone fexp fpow e box r xs). Qed.
End S.
(* the tiles partition each dimension exactly: n tiles, starting at the lower end of the box, ending at its upper end, each ending where the
   next begins (they cover the box - C13_tiles_cover -, share only end points, and reconstitute to it) *)
Theorem C13_tiles_partition (p : R * R) n : (1 <= n)%nat ->
  let t := tiles1 RN p n in
  length t = n /\ fst (nth 0 t (0, 0)) = fst p /\ snd (nth (n - 1) t (0, 0)) = snd p /\
  (forall k, (S k < n)%nat -> snd (nth k t (0, 0)) = fst (nth (S k) t (0, 0))).
Proof. exact (tiles1_partition p n). Qed.

Print Assumptions C13_direct_encloses.
Print Assumptions C13_tiles_cover.
Print Assumptions C13_sub_direct_encloses.
Print Assumptions C13_endpoints_inside_range.
Print Assumptions C13_sub_direct_encloses_wf.
Print Assumptions C13_sub_direct_inside_direct.
Print Assumptions C13_sub_endpoints_contains_endpoints.
Print Assumptions C13_sub_endpoints_inside_range.
Print Assumptions C13_endpoints_exact_for_monotone.
Print Assumptions C13_tiles_partition.
