(* C15 - UncertainNumber arithmetic equals construct arithmetic; units obey unit algebra.
   Units are integer exponent vectors; the construct-level mirror law is stated on the interval model of number.py. *)
From Coq Require Import List ZArith Reals.
From PUN Require Import Base.Num Model.Interval Model.Units Proofs.Hull Proofs.IntervalOps Proofs.Units.
Import ListNotations.

Theorem C15_mul_units_comm u v : unit_binop UMul (OUN u) (OUN v) = unit_binop UMul (OUN v) (OUN u).
Proof. exact (mul_units_comm u v). Qed.
Print Assumptions C15_mul_units_comm.
Theorem C15_div_undoes_mul u v : length u = length v ->
  match unit_binop UMul (OUN u) (OUN v) with UOk w => unit_binop UDiv (OUN w) (OUN v) = UOk u | _ => False end.
Proof. exact (div_undoes_mul u v). Qed.
Print Assumptions C15_div_undoes_mul.
Theorem C15_number_dimensionless u :
  unit_binop UMul (OUN u) ONum = UOk u /\ unit_binop UMul ONum (OUN u) = UOk u /\ unit_binop UDiv (OUN u) ONum = UOk u /\
  unit_binop UDiv ONum (OUN u) = UOk (map Z.opp u) /\ unit_binop UAdd (OUN u) ONum = UOk u /\ unit_binop USub ONum (OUN u) = UOk u.
Proof. exact (number_dimensionless u). Qed.
Print Assumptions C15_number_dimensionless.
Theorem C15_pow_units k u : unit_binop (UPow k) (OUN u) ONum = UOk (map (Z.mul k) u).
Proof. exact (pow_units k u). Qed.
Theorem C15_add_incompatible u v : u <> v -> unit_binop UAdd (OUN u) (OUN v) = UDimErr /\ unit_binop USub (OUN u) (OUN v) = UDimErr.
Proof. exact (add_incompatible u v). Qed.
Print Assumptions C15_add_incompatible.
Theorem C15_add_compatible u : unit_binop UAdd (OUN u) (OUN u) = UOk u.
Proof. exact (add_compatible u). Qed.
Open Scope R_scope.
(* c - X is the mirror image of X - c on interval constructs (model of number.py, real arithmetic) *)
Theorem C15_rsub_mirror (c : R) (s : R * R) : wfp s ->
  ni RN Sub (true, [c]) (true, [s]) = rbind (in_ RN Sub (true, [s]) (true, [c])) (ineg RN).
Proof. exact (rsub_mirror c s). Qed.
Print Assumptions C15_rsub_mirror.
(* non-vacuity *)
Example C15_units_example : unit_binop UDiv (OUN [1; 0; 0]%Z) (OUN [0; 1; 0]%Z) = UOk [1; -1; 0]%Z /\ unit_binop UAdd (OUN [1; 0; 0]%Z) (OUN [0; 1; 0]%Z) = UDimErr.
Proof. split; reflexivity. Qed.
