(* C02 - default (Frechet) p-box arithmetic bounds every dependence.
   Statements about the RN instance of Model/Pbox.v (frechet_op), for any number of steps n,
   every selection of one point per focal step and every permutation coupling. *)
From Coq Require Import Reals Lra List Permutation.
From PUN Require Import Base.Num Base.Sort Model.Interval Model.Pbox Proofs.ListR Proofs.PboxWF Proofs.Frechet Proofs.Tight Proofs.Encl Model.ArrayOps Gen.GenKernels Proofs.Kernels Model.PboxArith Gen.GenGlue Proofs.Glue Proofs.Compose Proofs.ComposeOps Proofs.ComposeAll Model.PExpr Proofs.ComposeExpr.
From Coq Require Import Lia.
Import ListNotations.
Open Scope R_scope.

(* sorted outcomes of the coupling pi applied to the selections x, y *)
Definition outcomes (op : R -> R -> R) (n : nat) (x y : list R) (pi : list nat) : list R := zs op n x y pi.

(* soundness for any operation that is nondecreasing in both arguments on an upward-closed domain D *)
Theorem C02_frechet_sound (op : R -> R -> R) (D : R -> Prop) n (XL XR YL YR x y : list R) (pi : list nat) (s : list R) :
  (forall a a', D a -> a <= a' -> D a') ->
  (forall a a' b b', D a -> D b -> a <= a' -> b <= b' -> op a b <= op a' b') ->
  length XL = n -> length XR = n -> length YL = n -> length YR = n ->
  Rsorted XL -> Rsorted XR -> Rsorted YL -> Rsorted YR ->
  (forall j, (j < n)%nat -> D (nth j XL 0)) -> (forall j, (j < n)%nat -> D (nth j YL 0)) ->
  length x = n -> length y = n ->
  (forall j, (j < n)%nat -> nth j XL 0 <= nth j x 0 <= nth j XR 0) ->
  (forall j, (j < n)%nat -> nth j YL 0 <= nth j y 0 <= nth j YR 0) ->
  Permutation pi (seq 0 n) ->
  Permutation s (outcomes op n x y pi) -> Rsorted s ->
  forall i, (i < n)%nat ->
    nth i (fst (frechet_op RN op XL XR YL YR)) 0 <= nth i s 0 <= nth i (snd (frechet_op RN op XL XR YL YR)) 0.
Proof. exact (frechet_op_sound op D n XL XR YL YR x y pi s). Qed.

(* + on operands of any sign *)
Theorem C02_add_sound n (XL XR YL YR x y : list R) (pi : list nat) (s : list R) :
  length XL = n -> length XR = n -> length YL = n -> length YR = n ->
  Rsorted XL -> Rsorted XR -> Rsorted YL -> Rsorted YR ->
  length x = n -> length y = n ->
  (forall j, (j < n)%nat -> nth j XL 0 <= nth j x 0 <= nth j XR 0) ->
  (forall j, (j < n)%nat -> nth j YL 0 <= nth j y 0 <= nth j YR 0) ->
  Permutation pi (seq 0 n) -> Permutation s (outcomes Rplus n x y pi) -> Rsorted s ->
  forall i, (i < n)%nat ->
    nth i (fst (frechet_op RN Rplus XL XR YL YR)) 0 <= nth i s 0 <= nth i (snd (frechet_op RN Rplus XL XR YL YR)) 0.
Proof.
  intros. apply (frechet_op_sound Rplus (fun _ => True) n XL XR YL YR x y pi s); auto.
  intros; lra.
Qed.

(* x on non-negative operands (the classic branch of the product routing) *)
Theorem C02_mul_sound n (XL XR YL YR x y : list R) (pi : list nat) (s : list R) :
  length XL = n -> length XR = n -> length YL = n -> length YR = n ->
  Rsorted XL -> Rsorted XR -> Rsorted YL -> Rsorted YR ->
  (forall j, (j < n)%nat -> 0 <= nth j XL 0) -> (forall j, (j < n)%nat -> 0 <= nth j YL 0) ->
  length x = n -> length y = n ->
  (forall j, (j < n)%nat -> nth j XL 0 <= nth j x 0 <= nth j XR 0) ->
  (forall j, (j < n)%nat -> nth j YL 0 <= nth j y 0 <= nth j YR 0) ->
  Permutation pi (seq 0 n) -> Permutation s (outcomes Rmult n x y pi) -> Rsorted s ->
  forall i, (i < n)%nat ->
    nth i (fst (frechet_op RN Rmult XL XR YL YR)) 0 <= nth i s 0 <= nth i (snd (frechet_op RN Rmult XL XR YL YR)) 0.
Proof.
  intros. apply (frechet_op_sound Rmult (fun a => 0 <= a) n XL XR YL YR x y pi s); auto.
  - intros; lra.
  - intros a a' b b' Ha Hb Haa Hbb. apply Rmult_le_compat; lra.
Qed.

(* every raw bound is one of the admissible pairings, i.e. the index arithmetic j+k=i / j+k=n-1+i *)
Theorem C02_left_pair (op : R -> R -> R) (D : R -> Prop) n XL XR YL YR x y pi s j0 k0 i :
  (forall a a' b b', D a -> D b -> a <= a' -> b <= b' -> op a b <= op a' b') ->
  length XL = n -> length XR = n -> length YL = n -> length YR = n -> Rsorted XL -> Rsorted YL ->
  (forall j, (j < n)%nat -> D (nth j XL 0)) -> (forall j, (j < n)%nat -> D (nth j YL 0)) ->
  length x = n -> length y = n ->
  (forall j, (j < n)%nat -> nth j XL 0 <= nth j x 0 <= nth j XR 0) ->
  (forall j, (j < n)%nat -> nth j YL 0 <= nth j y 0 <= nth j YR 0) ->
  Permutation pi (seq 0 n) -> Permutation s (outcomes op n x y pi) -> Rsorted s ->
  (j0 + k0 = i)%nat -> (i < n)%nat -> op (nth j0 XL 0) (nth k0 YL 0) <= nth i s 0.
Proof. intros Hm l1 l2 l3 l4 s1 s2 d1 d2 lx ly hx hy hp hs hss e hi.
  exact (frechet_left_pair op D Hm n XL XR YL YR l1 l2 l3 l4 s1 s2 d1 d2 x y lx ly hx hy pi hp s hs hss j0 k0 i e hi). Qed.

(* TIGHTNESS: for every step i there is a coupling of the bounding distributions that attains the bound (any n; any operation
   nondecreasing on an upward-closed domain: + on all reals, x on non-negative operands).  Left bound: step j of X with step i - j
   of Y for j <= i, identically above; right bound: step j >= i of X with step n-1+i-j of Y, identically below. *)
Theorem C02_left_attained (op : R -> R -> R) (D : R -> Prop) n XL XR YL YR i :
  (forall a a' b b', D a -> D b -> a <= a' -> b <= b' -> op a b <= op a' b') ->
  length XL = n -> length XR = n -> length YL = n -> length YR = n -> Rsorted XL -> Rsorted YL -> ple XL XR -> ple YL YR ->
  (forall j, (j < n)%nat -> D (nth j XL 0)) -> (forall j, (j < n)%nat -> D (nth j YL 0)) -> (i < n)%nat ->
  Permutation (coupling_left n i) (seq 0 n) /\
  nth i (Rsort (outcomes op n XL YL (coupling_left n i))) 0 = frechet_left RN op XL YL i.
Proof. intros Hm l1 l2 l3 l4 s1 s2 p1 p2 d1 d2 Hi. split; [exact (coupling_left_perm n i Hi)|].
  exact (frechet_left_attained op D Hm n XL XR YL YR l1 l2 l3 l4 s1 s2 p1 p2 d1 d2 i Hi). Qed.
Theorem C02_right_attained (op : R -> R -> R) (D : R -> Prop) n XL XR YL YR i :
  (forall a a', D a -> a <= a' -> D a') -> (forall a a' b b', D a -> D b -> a <= a' -> b <= b' -> op a b <= op a' b') ->
  length XL = n -> length XR = n -> length YL = n -> length YR = n -> Rsorted XR -> Rsorted YR -> ple XL XR -> ple YL YR ->
  (forall j, (j < n)%nat -> D (nth j XL 0)) -> (forall j, (j < n)%nat -> D (nth j YL 0)) -> (i < n)%nat ->
  Permutation (coupling_right n i) (seq 0 n) /\
  nth i (Rsort (outcomes op n XR YR (coupling_right n i))) 0 = frechet_right RN op XR YR i.
Proof. intros Hu Hm l1 l2 l3 l4 s1 s2 p1 p2 d1 d2 Hi. split; [exact (coupling_right_perm n i Hi)|].
  exact (frechet_right_attained op D Hu Hm n XL XR YL YR l1 l2 l3 l4 s1 s2 p1 p2 d1 d2 i Hi). Qed.
(* instance: + on any operands *)
Corollary C02_add_left_attained n XL XR YL YR i :
  length XL = n -> length XR = n -> length YL = n -> length YR = n -> Rsorted XL -> Rsorted YL -> ple XL XR -> ple YL YR -> (i < n)%nat ->
  nth i (Rsort (outcomes Rplus n XL YL (coupling_left n i))) 0 = frechet_left RN Rplus XL YL i.
Proof. intros l1 l2 l3 l4 s1 s2 p1 p2 Hi.
  exact (frechet_left_attained Rplus (fun _ => True) ltac:(intros; lra) n XL XR YL YR l1 l2 l3 l4 s1 s2 p1 p2 ltac:(intros; exact I) ltac:(intros; exact I) i Hi). Qed.

(* CONSEQUENCE: the Frechet result encloses the results under perfect, opposite and independent dependence, step by step
   (any n; any operation nondecreasing on an upward-closed domain).  Perfect / opposite are the identity / reversing coupling of the
   bounding selections; independence is compared at the order statistic k(n+1) of the n*n pairs, the one condensation keeps (C03). *)
Theorem C02_encloses_perfect (op : R -> R -> R) (D : R -> Prop) n XL XR YL YR i :
  (forall a a', D a -> a <= a' -> D a') -> (forall a a' b b', D a -> D b -> a <= a' -> b <= b' -> op a b <= op a' b') ->
  length XL = n -> length XR = n -> length YL = n -> length YR = n -> Rsorted XL -> Rsorted XR -> Rsorted YL -> Rsorted YR ->
  ple XL XR -> ple YL YR -> (forall j, (j < n)%nat -> D (nth j XL 0)) -> (forall j, (j < n)%nat -> D (nth j YL 0)) -> (i < n)%nat ->
  nth i (fst (frechet_op RN op XL XR YL YR)) 0 <= nth i (fst (perfect_op RN op XL XR YL YR)) 0 /\
  nth i (snd (perfect_op RN op XL XR YL YR)) 0 <= nth i (snd (frechet_op RN op XL XR YL YR)) 0.
Proof. intros. eapply (frechet_encloses_perfect op D); eassumption. Qed.
Theorem C02_encloses_opposite (op : R -> R -> R) (D : R -> Prop) n XL XR YL YR i :
  (forall a a', D a -> a <= a' -> D a') -> (forall a a' b b', D a -> D b -> a <= a' -> b <= b' -> op a b <= op a' b') ->
  length XL = n -> length XR = n -> length YL = n -> length YR = n -> Rsorted XL -> Rsorted XR -> Rsorted YL -> Rsorted YR ->
  ple XL XR -> ple YL YR -> (forall j, (j < n)%nat -> D (nth j XL 0)) -> (forall j, (j < n)%nat -> D (nth j YL 0)) -> (i < n)%nat ->
  nth i (fst (frechet_op RN op XL XR YL YR)) 0 <= nth i (fst (opposite_op RN op XL XR YL YR)) 0 /\
  nth i (snd (opposite_op RN op XL XR YL YR)) 0 <= nth i (snd (frechet_op RN op XL XR YL YR)) 0.
Proof. intros. eapply (frechet_encloses_opposite op D); eassumption. Qed.
Theorem C02_encloses_independent (op : R -> R -> R) (D : R -> Prop) n XL XR YL YR i :
  (forall a a', D a -> a <= a' -> D a') -> (forall a a' b b', D a -> D b -> a <= a' -> b <= b' -> op a b <= op a' b') ->
  length XL = n -> length XR = n -> length YL = n -> length YR = n -> Rsorted XL -> Rsorted XR -> Rsorted YL -> Rsorted YR ->
  ple XL XR -> ple YL YR -> (forall j, (j < n)%nat -> D (nth j XL 0)) -> (forall j, (j < n)%nat -> D (nth j YL 0)) -> (i < n)%nat ->
  nth i (fst (frechet_op RN op XL XR YL YR)) 0 <= nth (i * (n + 1)) (fst (independent_op RN op XL XR YL YR)) 0 /\
  nth (i * (n + 1)) (snd (independent_op RN op XL XR YL YR)) 0 <= nth i (snd (frechet_op RN op XL XR YL YR)) 0.
Proof. intros. eapply (frechet_encloses_independent op D); eassumption. Qed.

(* TIE: the kernel these theorems are about is the one translated from pba/operation.py on every run (Gen/GenKernels.v):
   gather / arange index arithmetic of the source = the firstn / skipn / rev form of the model, for arrays of one length *)
Theorem C02_kernel_is_translated (op : R -> R -> R) (XL XR YL YR : list R) :
  length XR = length XL -> length YL = length XL -> length YR = length XL ->
  gen_frechet_op RN op XL XR YL YR = frechet_op RN op XL XR YL YR.
Proof. exact (gen_frechet_op_is_model RN op XL XR YL YR). Qed.

(* TIE: the default product of the model (sign routing, negation route, zero-straddling route with the naive bound, the Balch product and
   their imposition) equals the function translated from pba/pbox_abc.py on every run, at every fuel, on any number structure *)
Theorem C02_product_is_translated (N : Num) (steps : nat) (p_lo p_hi : N) (p q : pbox N) :
  pmul N steps p_lo p_hi DF p q = gen_frechet_pbox_mul N steps p_lo p_hi mul_fuel p q.
Proof. exact (frechet_mul_is_translated N steps p_lo p_hi p q). Qed.

(* non-vacuity: a two-step instance with the swapping coupling *)
Example C02_ex : nth 0 (fst (frechet_op RN Rplus [1; 2] [2; 3] [10; 20] [11; 21])) 0 = 11 /\
                 nth 1 (snd (frechet_op RN Rplus [1; 2] [2; 3] [10; 20] [11; 21])) 0 = 24.
Proof.
  assert (E : frechet_op RN Rplus [1; 2] [2; 3] [10; 20] [11; 21] = (Rsort [11; 21], Rsort [14; 24])).
  { unfold frechet_op, frechet_left, frechet_right. cbn [length seq map firstn skipn rev app map2 maxl minl fold_left fst snd T RN].
    rewrite !nmax_R, !nmin_R. unfold Rmax, Rmin, Rsort.
    destruct (Rle_dec (1 + 20) (2 + 10)); [lra|]. destruct (Rle_dec (2 + 21) (3 + 11)); [lra|].
    repeat f_equal; lra. }
  rewrite E; cbn [fst snd].
  rewrite !Rsort_id; [cbn; split; lra | |]; apply nth_Rsorted; intros [|[|i]] [|[|j]] H; cbn in *; try lia; lra.
Qed.

Print Assumptions C02_frechet_sound.
Print Assumptions C02_add_sound.
Print Assumptions C02_mul_sound.
Print Assumptions C02_left_pair.
Print Assumptions C02_left_attained.
Print Assumptions C02_right_attained.
Print Assumptions C02_encloses_perfect.
Print Assumptions C02_encloses_opposite.
Print Assumptions C02_encloses_independent.
Print Assumptions C02_kernel_is_translated.
Print Assumptions C02_product_is_translated.

(* ---------------------------------------------------------------------------------------------------------------------------------------
   COMPOSITIONAL FORM (Proofs/Compose*.v).  A p-box BOUNDS a sample u - one value per equally likely outcome of an underlying space -
   when the sorted sample lies step by step inside it.  Two samples u, v bounded by two operands, in ANY joint order, are exactly "one
   value from each probability step of each operand, coupled in any way that preserves the marginals".  The statements below have the same
   form in hypothesis and conclusion, so they chain through any expression: intermediate results are dependent on each other in arbitrary
   ways and the bounds stay valid. *)

(* the Frechet convolution: any operation nondecreasing on an upward-closed domain *)
Theorem C02_frechet_composes (op : R -> R -> R) (D : R -> Prop) (XL XR YL YR u v : list R) :
  (forall a a', D a -> a <= a' -> D a') ->
  (forall a a' b b', D a -> D b -> a <= a' -> b <= b' -> op a b <= op a' b') ->
  length YL = length XL ->
  (forall j, (j < length XL)%nat -> D (nth j XL 0)) -> (forall j, (j < length XL)%nat -> D (nth j YL 0)) ->
  bounds XL XR u -> bounds YL YR v ->
  bounds (fst (frechet_op RN op XL XR YL YR)) (snd (frechet_op RN op XL XR YL YR)) (map2 op u v).
Proof. exact (frechet_bounds op D XL XR YL YR u v). Qed.

(* the four operations of the model under no dependence assumption, operands of ANY sign: whenever an operation returns a p-box, that
   p-box is well formed and bounds the sample of outcomes.  For x this covers the whole routing of frechet_pbox_mul - classic, negative,
   and the zero-straddling route (naive bound over the n*n pairwise products, Balch product with its shifted operands, imposition) -
   which was justified by the oracle only before; / is x by the reciprocal, - is + of the negation. *)
Theorem C02_operations_sound steps plo phi (p q : list R * list R) (u v : list R) r : (0 < steps)%nat ->
  snd_ steps p u -> snd_ steps q v ->
  (padd RN steps plo phi DF p q = Ok r -> snd_ steps r (map2 Rplus u v)) /\
  (psub RN steps plo phi DF p q = Ok r -> snd_ steps r (map2 Rminus u v)) /\
  (pmul RN steps plo phi DF p q = Ok r -> snd_ steps r (map2 Rmult u v)) /\
  (pdiv RN steps plo phi DF p q = Ok r -> snd_ steps r (map2 Rdiv u v)).
Proof.
  intros Hs Sp Sq. split; [|split; [|split]]; intros E.
  - eapply add_sound; eauto.
  - eapply sub_sound; eauto.
  - eapply mul_sound; eauto.
  - eapply div_sound; eauto.
Qed.

(* the hypotheses are satisfiable: a two-step p-box straddling zero and a sample listed in decreasing order *)
Example C02_bounded_sample : snd_ 2 ([-1; 1], [0; 2]) [3 / 2; -1 / 2].
Proof.
  split.
  - constructor; cbn [fst snd]; try reflexivity; try (apply nth_Rsorted; intros [|[|i]] [|[|j]] H; cbn in *; try lia; lra).
    repeat constructor; lra.
  - split; [reflexivity|]. split; [reflexivity|]. intros s Hs Hss i Hi. cbn [fst snd length] in *.
    assert (E : s = [-1 / 2; 3 / 2]).
    { apply Rsorted_perm_eq; auto; [apply nth_Rsorted; intros [|[|a]] [|[|b]] H; cbn in *; try lia; lra|].
      eapply Permutation_trans; [exact Hs|]. apply perm_swap. }
    subst s. destruct i as [|[|i]]; cbn [nth]; try lia; lra.
Qed.
(* whole expressions (any depth): +, -, x, / under no dependence assumption, negation, operations with numbers.  `sample e` is the
   expression computed outcome by outcome on the samples attached to the leaves; the same sample may feed several leaves (a variable
   that occurs more than once), different leaves may depend on each other in any way *)
Theorem C02_expression_sound steps plo phi (e : fexpr) r : (0 < steps)%nat -> leaves_ok steps e ->
  peval RN steps plo phi (erase e) = Ok r -> snd_ steps r (sample e).
Proof. intros Hs. exact (expression_sound steps plo phi Hs e r). Qed.
Example C02_repeated_variable : let X := FLeaf [-1; 1] [0; 2] [3 / 2; -1 / 2] in
  leaves_ok 2 (FBin Sub (FBin Mul X X) X) /\ sample (FBin Sub (FBin Mul X X) X) = [3 / 2 * (3 / 2) - 3 / 2; -1 / 2 * (-1 / 2) - -1 / 2].
Proof. cbv zeta. cbn [leaves_ok sample map2]. pose proof C02_bounded_sample as (_ & B). cbn [fst snd] in B.
  assert (LX : length [-1; 1] = 2%nat /\ length [0; 2] = 2%nat /\ bounds [-1; 1] [0; 2] [3 / 2; -1 / 2]) by (split; [reflexivity|split; [reflexivity|exact B]]).
  split; [exact (conj (conj LX LX) LX)|reflexivity]. Qed.
(* ... and of the operations as pba/pbox_abc.py has them NOW: Staircase.add / sub / mul / div translated on every run (Gen/GenGlue.v), called
   with dependency 'f', return - when they return - a well-formed p-box that bounds the sample of outcomes *)
Theorem C02_translated_operations_sound steps plo phi (p q : list R * list R) (u v : list R) r fuel : (0 < steps)%nat ->
  snd_ steps p u -> snd_ steps q v ->
  (gen_add RN steps plo phi fuel p q DF = Ok r -> snd_ steps r (map2 Rplus u v)) /\
  (gen_sub RN steps plo phi fuel p q DF = Ok r -> snd_ steps r (map2 Rminus u v)) /\
  (gen_mul RN steps plo phi mul_fuel p q DF = Ok r -> snd_ steps r (map2 Rmult u v)) /\
  (gen_div RN steps plo phi mul_fuel p q DF = Ok r -> snd_ steps r (map2 Rdiv u v)).
Proof.
  intros Hs Sp Sq. rewrite gen_add_is_model, gen_sub_is_model, gen_mul_is_model, gen_div_is_model.
  exact (C02_operations_sound steps plo phi p q u v r Hs Sp Sq).
Qed.
(* the compositional statement subsumes the original one: a selection of one point per step is a bounded sample, a permutation coupling
   re-indexes one of the two samples - C02_frechet_sound re-derived from C02_frechet_composes *)
From PUN Require Import Proofs.ComposeLink.
Theorem C02_composes_implies_couplings (op : R -> R -> R) (D : R -> Prop) n (XL XR YL YR x y : list R) (pi : list nat) (s : list R) :
  (forall a a', D a -> a <= a' -> D a') ->
  (forall a a' b b', D a -> D b -> a <= a' -> b <= b' -> op a b <= op a' b') ->
  length XL = n -> length XR = n -> length YL = n -> length YR = n ->
  Rsorted XL -> Rsorted XR -> Rsorted YL -> Rsorted YR ->
  (forall j, (j < n)%nat -> D (nth j XL 0)) -> (forall j, (j < n)%nat -> D (nth j YL 0)) ->
  length x = n -> length y = n ->
  (forall j, (j < n)%nat -> nth j XL 0 <= nth j x 0 <= nth j XR 0) ->
  (forall j, (j < n)%nat -> nth j YL 0 <= nth j y 0 <= nth j YR 0) ->
  Permutation pi (seq 0 n) -> Permutation s (outcomes op n x y pi) -> Rsorted s ->
  forall i, (i < n)%nat ->
    nth i (fst (frechet_op RN op XL XR YL YR)) 0 <= nth i s 0 <= nth i (snd (frechet_op RN op XL XR YL YR)) 0.
Proof. exact (frechet_op_sound_from_compose op D n XL XR YL YR x y pi s). Qed.
(* BEST POSSIBLE, in the same terms: the Frechet bounds are the LEAST sound bounds - whatever arrays (BL, BR) bound the outcomes of every pair of
   samples bounded by the operands, they contain frechet_left / frechet_right at every step (together with C02_frechet_composes: the Frechet
   result is sound, and it lies inside every other sound result) *)
From PUN Require Import Proofs.ComposeTight.
Theorem C02_frechet_is_least_sound (op : R -> R -> R) (D : R -> Prop) n (XL XR YL YR BL BR : list R) i :
  (forall a a', D a -> a <= a' -> D a') -> (forall a a' b b', D a -> D b -> a <= a' -> b <= b' -> op a b <= op a' b') ->
  length XL = n -> length XR = n -> length YL = n -> length YR = n ->
  Rsorted XL -> Rsorted XR -> Rsorted YL -> Rsorted YR -> ple XL XR -> ple YL YR ->
  (forall j, (j < n)%nat -> D (nth j XL 0)) -> (forall j, (j < n)%nat -> D (nth j YL 0)) -> length BL = n ->
  (forall u v, bounds XL XR u -> bounds YL YR v -> bounds BL BR (map2 op u v)) -> (i < n)%nat ->
  nth i BL 0 <= frechet_left RN op XL YL i /\ frechet_right RN op XR YR i <= nth i BR 0.
Proof. intros. eapply (tight_inside_sound op D) with (XL' := XL) (XR' := XR) (YL' := YL) (YR' := YR); eauto using ple_refl. Qed.
Print Assumptions C02_frechet_composes.
Print Assumptions C02_frechet_is_least_sound.
Print Assumptions C02_translated_operations_sound.
Print Assumptions C02_expression_sound.
Print Assumptions C02_operations_sound.
