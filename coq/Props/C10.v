(* C10 - distribution-free p-boxes enclose every distribution meeting the constraints.
   free_min_mean / free_mean_std are generated from pbox_free.py on every run.  A finite distribution is a list of atoms with weights. *)
From Coq Require Import Reals List.
From PUN Require Import Base.Num Gen.GenFree Proofs.ListR Proofs.WFExpr Proofs.Free Proofs.FreeTight.
Import ListNotations.
Open Scope R_scope.

(* Markov: support bounded below, given mean.  q with P(X < q) <= p is at most the upper p-quantile *)
Theorem C10_markov_upper ws xs mn q p : dist_ok ws xs -> Forall (fun x => mn <= x) xs -> mass (fun x => Rltb x q) ws xs <= p -> p < 1 ->
  q <= mn + (mean_of ws xs - mn) / (1 - p).
Proof. intros OK. exact (markov_upper ws xs OK mn q p). Qed.
Theorem C10_markov_lower ws xs mx q p : dist_ok ws xs -> Forall (fun x => x <= mx) xs -> p <= mass (fun x => Rleb x q) ws xs -> 0 < p ->
  mx - (mx - mean_of ws xs) / p <= q.
Proof. intros OK. exact (markov_lower ws xs OK mx q p). Qed.
(* Cantelli: given mean and standard deviation *)
Theorem C10_cantelli_upper ws xs sd q p : dist_ok ws xs -> 0 <= sd -> sd * sd = var_of ws xs -> mass (fun x => Rltb x q) ws xs <= p -> 0 <= p -> p < 1 ->
  q <= mean_of ws xs + sd * sqrt (p / (1 - p)).
Proof. intros OK. exact (cantelli_upper ws xs OK sd q p). Qed.
Theorem C10_cantelli_lower ws xs sd q p : dist_ok ws xs -> 0 <= sd -> sd * sd = var_of ws xs -> p <= mass (fun x => Rleb x q) ws xs -> 0 < p -> p <= 1 ->
  mean_of ws xs - sd * sqrt (1 / p - 1) <= q.
Proof. intros OK. exact (cantelli_lower ws xs OK sd q p). Qed.
Print Assumptions C10_cantelli_lower.

(* the generated mean_std constructor, any number of steps n >= 3: on every step k (the outermost ones exempt) the entry handed to
   Staircase bounds the quantiles of EVERY finite distribution with that mean and standard deviation at every level inside the step *)
Theorem C10_mean_std_left n mu sd ws xs k p q : (3 <= n)%nat -> dist_ok ws xs -> mean_of ws xs = mu -> 0 <= sd -> sd * sd = var_of ws xs ->
  (1 <= k < n - 1)%nat -> INR k / INR n <= p -> p <= 1 -> p <= mass (fun x => Rleb x q) ws xs ->
  nth k (fst (free_mean_std RN n mu sd)) 0 <= q.
Proof. intros H. exact (mean_std_left_sound n H mu sd ws xs k p q). Qed.
Theorem C10_mean_std_right n mu sd ws xs k p q : (3 <= n)%nat -> dist_ok ws xs -> mean_of ws xs = mu -> 0 <= sd -> sd * sd = var_of ws xs ->
  (k < n - 1)%nat -> 0 <= p -> p <= INR (k + 1) / INR n -> mass (fun x => Rltb x q) ws xs <= p ->
  q <= nth k (snd (free_mean_std RN n mu sd)) 0.
Proof. intros H. exact (mean_std_right_sound n H mu sd ws xs k p q). Qed.
Print Assumptions C10_mean_std_right.
(* the generated min_mean constructor *)
Theorem C10_min_mean_right n mu mn ws xs k p q : (3 <= n)%nat -> dist_ok ws xs -> mean_of ws xs = mu -> Forall (fun x => mn <= x) xs ->
  (k < n - 1)%nat -> p <= INR (k + 1) / INR n -> mass (fun x => Rltb x q) ws xs <= p ->
  q <= nth k (snd (free_min_mean RN n mn mu)) 0.
Proof. intros H. exact (min_mean_right_sound n H mu mn ws xs k p q). Qed.
(* the generated min_max_mean constructor, any number of steps: every finite distribution on [mn, mx] with that mean *)
Theorem C10_min_max_mean_left n mn mx mu ws xs k p q : (1 <= n)%nat -> dist_ok ws xs -> mean_of ws xs = mu -> Forall (fun x => mn <= x <= mx) xs ->
  (k < n)%nat -> INR k / INR n <= p -> 0 < p -> p <= mass (fun x => Rleb x q) ws xs ->
  nth k (fst (free_min_max_mean RN n mn mx mu)) 0 <= q.
Proof. intros H. exact (mmm_left_sound n H mn mx mu ws xs k p q). Qed.
Theorem C10_min_max_mean_right n mn mx mu ws xs k p q : (1 <= n)%nat -> dist_ok ws xs -> mean_of ws xs = mu -> Forall (fun x => mn <= x <= mx) xs -> mn < mx ->
  (k < n)%nat -> p <= INR (k + 1) / INR n -> p < 1 -> mass (fun x => Rltb x q) ws xs <= p ->
  q <= nth k (snd (free_min_max_mean RN n mn mx mu)) 0.
Proof. intros H. exact (mmm_right_sound n H mn mx mu ws xs k p q). Qed.
Print Assumptions C10_min_max_mean_right.
(* which grid point each entry uses (the entry of step k of the left edge is the bound at the LEFT end k/n of the step) *)
Theorem C10_mean_std_left_grid n mu sd k : (3 <= n)%nat -> (k < n - 1)%nat ->
  nth k (fst (free_mean_std RN n mu sd)) 0 = mu - sd * sqrt (1 / (INR (Nat.max k 1) / INR n) - 1).
Proof. intros H. exact (mean_std_left_nth n H mu sd k). Qed.

(* range and median (free_min_max_median is generated from pbox_free.py on every run; pvals is the probability grid of the p-box):
   on every step the bounds enclose the quantiles of every finite distribution on [mn, mx] of which med is a median *)
Theorem C10_min_max_median_left pvals mn mx med ws xs l r k p q : mn <> mx -> dist_ok ws xs -> Forall (fun x => mn <= x <= mx) xs -> is_median ws xs med ->
  free_min_max_median RN pvals mn mx med = Some (l, r) ->
  (k < length pvals)%nat -> nth k pvals 0 <= p -> 0 < p -> p <> 1 / 2 -> p <= mass (fun x => Rleb x q) ws xs -> nth k l 0 <= q.
Proof. intros Hne. exact (median_left_sound pvals mn mx med Hne ws xs l r k p q). Qed.
Theorem C10_min_max_median_right pvals mn mx med ws xs l r k p q : mn <> mx -> dist_ok ws xs -> Forall (fun x => mn <= x <= mx) xs -> is_median ws xs med ->
  free_min_max_median RN pvals mn mx med = Some (l, r) ->
  (k < length pvals)%nat -> p <= nth k pvals 0 -> p < 1 -> mass (fun x => Rltb x q) ws xs <= p -> q <= nth k r 0.
Proof. intros Hne. exact (median_right_sound pvals mn mx med Hne ws xs l r k p q). Qed.
Theorem C10_min_max_median_ordered pvals mn mx med l r k : mn <> mx -> mn <= med <= mx ->
  free_min_max_median RN pvals mn mx med = Some (l, r) -> (k < length pvals)%nat -> nth k l 0 <= nth k r 0.
Proof. intros Hne. exact (median_ordered pvals mn mx med Hne l r k). Qed.
Print Assumptions C10_min_max_median_left.
Print Assumptions C10_min_max_median_right.

(* "The bounds are not vacuous": for every level p the classical extremal two-point distribution satisfies the constraints and has the
   bound itself as its quantile at level p - the value q = bound meets the hypothesis of the corresponding soundness theorem above, so no
   smaller upper bound (larger lower bound) is valid for all admissible distributions. *)
Theorem C10_markov_upper_tight mn mu p : mn <= mu -> 0 <= p < 1 ->
  exists ws xs, dist_ok ws xs /\ Forall (fun x => mn <= x) xs /\ mean_of ws xs = mu /\ mass (fun x => Rltb x (mn + (mu - mn) / (1 - p))) ws xs <= p.
Proof. exact (markov_upper_tight mn mu p). Qed.
Theorem C10_markov_lower_tight mx mu p : mu <= mx -> 0 < p <= 1 ->
  exists ws xs, dist_ok ws xs /\ Forall (fun x => x <= mx) xs /\ mean_of ws xs = mu /\ p <= mass (fun x => Rleb x (mx - (mx - mu) / p)) ws xs.
Proof. exact (markov_lower_tight mx mu p). Qed.
Theorem C10_cantelli_tight mu sd p : 0 <= sd -> 0 < p < 1 ->
  exists ws xs, dist_ok ws xs /\ mean_of ws xs = mu /\ var_of ws xs = sd * sd /\
    mass (fun x => Rltb x (mu + sd * sqrt (p / (1 - p)))) ws xs <= p /\ p <= mass (fun x => Rleb x (mu - sd * sqrt (1 / p - 1))) ws xs.
Proof. exact (cantelli_tight mu sd p). Qed.
Print Assumptions C10_markov_upper_tight.
Print Assumptions C10_cantelli_tight.
