(* C05 - interval elementary functions and integer powers enclose every pointwise value.
   The libm functions are oracles of the model; in these theorems they are the real functions exp, ln, sin, cos. *)
From Coq Require Import Reals Lra ZArith.
From PUN Require Import Base.Num Model.Interval Model.IntervalFun Proofs.IntervalFun Proofs.Trig Proofs.TrigV Gen.GenTrig Proofs.TrigTie.
Open Scope R_scope.

Section S.
Variables (fexp flog fsin fcos ftan : R -> R) (fmod : R -> R -> R) (fpow : R -> nat -> R).
Hypothesis fpow_is : forall x k, fpow x k = x ^ k.
Hypothesis fexp_is : forall x, fexp x = exp x.
Hypothesis flog_is : forall x, flog x = ln x.
Hypothesis fsin_is : forall x, fsin x = sin x.
Hypothesis fcos_is : forall x, fcos x = cos x.
Hypothesis ftan_is : forall x, ftan x = tan x.

(* monotone functions: the result is exactly [f lo, f hi] = [min f, max f] *)
Theorem C05_exp_exact lo hi : lo <= hi ->
  iexp RN fexp (lo, hi) = Ok (exp lo, exp hi) /\ forall x, lo <= x <= hi -> exp lo <= exp x <= exp hi.
Proof. exact (iexp_exact fexp fexp_is lo hi). Qed.
Theorem C05_log_exact lo hi : 0 < lo -> lo <= hi ->
  ilog RN flog (lo, hi) = Ok (ln lo, ln hi) /\ forall x, lo <= x <= hi -> ln lo <= ln x <= ln hi.
Proof. exact (ilog_exact flog flog_is lo hi). Qed.
Theorem C05_log_domain lo hi : lo <= 0 -> ilog RN flog (lo, hi) = Raise AssertionErr.
Proof. exact (ilog_domain flog lo hi). Qed.
Theorem C05_sqrt_exact lo hi : 0 <= lo -> lo <= hi ->
  isqrt RN (lo, hi) = Ok (sqrt lo, sqrt hi) /\ forall x, lo <= x <= hi -> sqrt lo <= sqrt x <= sqrt hi.
Proof. exact (isqrt_exact lo hi). Qed.
Theorem C05_tanh_exact lo hi : lo <= hi ->
  itanh RN fexp (lo, hi) = Ok (tanh_form lo, tanh_form hi) /\ forall x, lo <= x <= hi -> tanh_form lo <= tanh_form x <= tanh_form hi.
Proof. exact (itanh_exact fexp fexp_is lo hi). Qed.
Theorem C05_sigmoid_exact lo hi : lo <= hi ->
  isigmoid RN fexp (lo, hi) = Ok (sigm_form lo, sigm_form hi) /\ forall x, lo <= x <= hi -> sigm_form lo <= sigm_form x <= sigm_form hi.
Proof. exact (isigmoid_exact fexp fexp_is lo hi). Qed.
(* abs: exactly [min |x|, max |x|], both attained *)
Theorem C05_abs_exact lo hi : lo <= hi ->
  exists a b, iabs RN (lo, hi) = Ok (a, b) /\ (forall x, lo <= x <= hi -> a <= Rabs x <= b) /\
              (exists x, lo <= x <= hi /\ Rabs x = a) /\ (exists x, lo <= x <= hi /\ Rabs x = b).
Proof. exact (iabs_exact lo hi). Qed.
(* integer powers: enclosure for k >= 0; for k < 0 enclosure when 0 is outside, ZeroDivisionError when a pole lies inside *)
Theorem C05_pow_encloses lo hi k : lo <= hi ->
  exists a b, ipow_nonneg RN fpow (lo, hi) k = Ok (a, b) /\ forall x, lo <= x <= hi -> a <= x ^ k <= b.
Proof. exact (ipow_nonneg_encl fpow fpow_is lo hi k). Qed.
Theorem C05_negative_pow_encloses lo hi (k : nat) : lo <= hi -> (0 < k)%nat -> (0 < lo \/ hi < 0) ->
  exists a b, ipow RN fpow (lo, hi) (- Z.of_nat k) = Ok (a, b) /\ forall x, lo <= x <= hi -> a <= / (x ^ k) <= b.
Proof. exact (ipow_neg_encl fpow fpow_is lo hi k). Qed.
Theorem C05_negative_pow_pole lo hi (k : nat) : lo <= 0 <= hi -> (0 < k)%nat ->
  ipow RN fpow (lo, hi) (- Z.of_nat k) = Raise ZeroDivision.
Proof. exact (ipow_neg_pole fpow fpow_is lo hi k). Qed.
(* sin / cos: for EVERY interval (any width, any position) the scalar case table encloses the function; fmod is any function
   with Python's % contract for the modulus 2 pi:  x % m = x - k m  with  0 <= x % m < m *)
Hypothesis fmod_spec : forall x, exists k : Z, fmod x (2 * PI) = x - IZR k * (2 * PI) /\ 0 <= fmod x (2 * PI) < 2 * PI.
Theorem C05_sin_encloses lo hi a b x : lo <= hi -> isin RN PI fsin fmod (lo, hi) = Ok (a, b) -> lo <= x <= hi -> a <= sin x <= b.
Proof. exact (isin_encl fsin fmod fsin_is fmod_spec lo hi a b x). Qed.
Theorem C05_cos_encloses lo hi a b x : lo <= hi -> icos RN PI fcos fmod (lo, hi) = Ok (a, b) -> lo <= x <= hi -> a <= cos x <= b.
Proof. exact (icos_encl fcos fmod fcos_is fmod_spec lo hi a b x). Qed.
(* the array-valued forms (masked assignments of sin_vector / cos_vector, per element) enclose the function as well; their tables differ
   from the scalar ones exactly on the boundaries of the monotone segments (finding O28), where both are enclosures *)
Theorem C05_sin_array_encloses lo hi a b x : lo <= hi -> isin_v RN PI fsin fmod (lo, hi) = Ok (a, b) -> lo <= x <= hi -> a <= sin x <= b.
Proof. exact (isin_v_encl fsin fmod fsin_is fmod_spec lo hi a b x). Qed.
Theorem C05_cos_array_encloses lo hi a b x : lo <= hi -> icos_v RN PI fcos fmod (lo, hi) = Ok (a, b) -> lo <= x <= hi -> a <= cos x <= b.
Proof. exact (icos_v_encl fcos fmod fcos_is fmod_spec lo hi a b x). Qed.
(* tan: a bounded result means that no pole lies in the interval and tan stays between the bounds; an interval at least pi wide is
   reported unbounded (end points are assumed not to be poles themselves: no binary64 number is an odd multiple of pi/2) *)
Hypothesis fmodpi_spec : forall x, exists k : Z, fmod x PI = x - IZR k * PI /\ 0 <= fmod x PI < PI.
Theorem C05_tan_encloses lo hi a b x : lo <= hi -> cos lo <> 0 -> cos hi <> 0 ->
  itan RN PI ftan fmod (lo, hi) = Ok (@Fin RN a, @Fin RN b) -> lo <= x <= hi -> cos x <> 0 /\ a <= tan x <= b.
Proof. exact (itan_encl ftan fmod ftan_is fmodpi_spec lo hi a b x). Qed.
Theorem C05_tan_wide lo hi : PI <= hi - lo -> itan RN PI ftan fmod (lo, hi) = Ok (@MInf RN, @PInf RN).
Proof. exact (itan_wide ftan fmod lo hi). Qed.
Theorem C05_sin_full_period lo hi x : 2 * PI <= hi - lo ->
  isin RN PI fsin fmod (lo, hi) = Ok (-1, 1) /\ -1 <= sin x <= 1.
Proof. exact (isin_full_period fsin fmod lo hi x). Qed.
Theorem C05_cos_full_period lo hi x : 2 * PI <= hi - lo ->
  icos RN PI fcos fmod (lo, hi) = Ok (-1, 1) /\ -1 <= cos x <= 1.
Proof. exact (icos_full_period fcos fmod lo hi x). Qed.
(* TIE: the same statements about the functions translated from pba/intervals/methods.py on every run (Gen/GenTrig.v): the scalar case
   tables of sin, cos, tan and the masked array forms, as the source has them NOW, enclose the function for every interval *)
Theorem C05_translated_sin_encloses lo hi a b x : lo <= hi -> gen_sin RN PI fsin fmod (lo, hi) = Ok (a, b) -> lo <= x <= hi -> a <= sin x <= b.
Proof. exact (gen_sin_encl fsin fmod fsin_is fmod_spec lo hi a b x). Qed.
Theorem C05_translated_cos_encloses lo hi a b x : lo <= hi -> gen_cos RN PI fcos fmod (lo, hi) = Ok (a, b) -> lo <= x <= hi -> a <= cos x <= b.
Proof. exact (gen_cos_encl fcos fmod fcos_is fmod_spec lo hi a b x). Qed.
Theorem C05_translated_sin_array_encloses lo hi a b x : lo <= hi -> gen_sin_vector RN PI fsin fmod (lo, hi) = Ok (a, b) -> lo <= x <= hi -> a <= sin x <= b.
Proof. exact (gen_sin_vector_encl fsin fmod fsin_is fmod_spec lo hi a b x). Qed.
Theorem C05_translated_cos_array_encloses lo hi a b x : lo <= hi -> gen_cos_vector RN PI fcos fmod (lo, hi) = Ok (a, b) -> lo <= x <= hi -> a <= cos x <= b.
Proof. exact (gen_cos_vector_encl fcos fmod fcos_is fmod_spec lo hi a b x). Qed.
Theorem C05_translated_tan_encloses lo hi a b x : lo <= hi -> cos lo <> 0 -> cos hi <> 0 ->
  gen_tan RN PI ftan fmod (lo, hi) = Ok (@Fin RN a, @Fin RN b) -> lo <= x <= hi -> cos x <> 0 /\ a <= tan x <= b.
Proof. exact (gen_tan_encl ftan fmod ftan_is fmodpi_spec lo hi a b x). Qed.
End S.
(* exp, log, sqrt of the source are the model's definitions (any number structure) *)
Theorem C05_monotone_functions_are_translated (N : Num) (fexp flog : N -> N) (x : N * N) :
  gen_exp N fexp x = iexp N fexp x /\ gen_log N flog x = ilog N flog x /\ gen_sqrt N x = isqrt N x.
Proof. exact (conj (gen_exp_is_model N fexp x) (conj (gen_log_is_model N flog x) (gen_sqrt_is_model N x))). Qed.

Print Assumptions C05_exp_exact.
Print Assumptions C05_tanh_exact.
Print Assumptions C05_abs_exact.
Print Assumptions C05_pow_encloses.
Print Assumptions C05_negative_pow_encloses.
Print Assumptions C05_negative_pow_pole.
Print Assumptions C05_sin_encloses.
Print Assumptions C05_cos_encloses.
Print Assumptions C05_tan_encloses.
Print Assumptions C05_sin_array_encloses.
Print Assumptions C05_cos_array_encloses.
Print Assumptions C05_translated_sin_encloses.
Print Assumptions C05_translated_cos_encloses.
Print Assumptions C05_translated_tan_encloses.
Print Assumptions C05_translated_sin_array_encloses.
Print Assumptions C05_translated_cos_array_encloses.
Print Assumptions C05_monotone_functions_are_translated.
