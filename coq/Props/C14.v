(* C14 - mixed propagation outputs are mixtures of interval images of input alpha-cuts.
   grid = the probability grid of the p-boxes; hypotheses on it (length, strictly increasing, inside (0,1]) hold for Params. *)
From Coq Require Import Reals List Arith.
From PUN Require Import Base.Num Model.Interval Model.Pbox Model.B2B Model.Mixed Proofs.ListR Proofs.PboxWF Proofs.Query Proofs.Hier Proofs.Iso Proofs.Mixed Proofs.MixedSel.
Import ListNotations.
Open Scope R_scope.

Section C14.
Variable steps : nat.
Variables plo phi : R.
Notation grid := (p_values RN steps plo phi).
Hypothesis grid_len : @length R grid = steps.
Hypothesis grid_inc : strictly_increasing grid.
Hypothesis grid_ok : Forall (fun a => 0 < a <= 1) grid.
Hypothesis grid_sorted : Rsorted grid.
Hypothesis steps_pos : (0 < steps)%nat.

(* every value of the mixture's bounds is an endpoint of a focal interval; the mixture is accepted and well formed *)
Theorem C14_mixture_values (focal : list (R * R)) : (1 < length focal)%nat -> Forall (fun i => fst i <= snd i) focal ->
  let p := (map (Stacking.ecdf_at (map fst focal) (equal_weights RN (length focal))) grid, map (Stacking.ecdf_at (map snd focal) (equal_weights RN (length focal))) grid) in
  mixture RN steps plo phi focal = Ok p /\ WF steps p /\
  Forall (fun v => In v (map fst focal)) (fst p) /\ Forall (fun v => In v (map snd focal)) (snd p).
Proof. exact (mixture_values steps plo phi grid_len grid_ok grid_sorted focal). Qed.
(* the output CONTAINS THE RESPONSES: for any choice of one value inside each focal interval (the response function at any point of each box
   lies in the interval image of that box, C13), the quantile of the equal-weight distribution of those values lies, at every level of the
   grid, between the left and the right bound of the mixture (which C14_mixture_values identifies as these two ecdf inverses) *)
Theorem C14_contains_every_selection (focal : list (R * R)) (x : list R) : (1 < length focal)%nat ->
  Forall2 (fun i v => fst i <= v <= snd i) focal x ->
  let w := equal_weights RN (length focal) in
  forall a, In a grid -> Stacking.ecdf_at (map fst focal) w a <= Stacking.ecdf_at x w a <= Stacking.ecdf_at (map snd focal) w a.
Proof. exact (mixture_contains_selection steps plo phi grid_len grid_ok focal x). Qed.
(* output support inside the image of the input supports: for ANY image function that maps boxes inside the supports into Y
   (every inclusion-isotone interval extension does, C12/C13), any rows of levels, any number of inputs *)
Theorem C14_support (img : list (R * R) -> res (R * R)) (vars : list (list R * list R)) (levels : list (list R)) (Y : R * R) focal :
  Forall (WF steps) vars -> Forall (fun row => length row = length vars) levels -> (1 < length levels)%nat ->
  (forall b y, inside_box b (supports vars) -> img b = Ok y -> fst y <= snd y /\ fst Y <= fst y /\ snd y <= snd Y) ->
  focal_elements RN steps plo phi img vars levels = Ok focal ->
  exists p, mixture RN steps plo phi focal = Ok p /\ Forall (fun v => fst Y <= v) (fst p) /\ Forall (fun v => v <= snd Y) (snd p).
Proof. exact (mixed_support steps plo phi grid_len grid_ok grid_sorted steps_pos img vars levels Y focal). Qed.
(* inputs that are all intervals give exactly the interval image, whatever the rows of levels *)
Theorem C14_all_intervals (img : list (R * R) -> res (R * R)) (ivs : list (R * R)) (levels : list (list R)) (y : R * R) :
  (1 < length levels)%nat -> Forall (fun row => length row = length ivs) levels -> img ivs = Ok y -> fst y <= snd y ->
  rbind (focal_elements RN steps plo phi img (map (Hier.embed steps) ivs) levels) (mixture RN steps plo phi) = Ok (Hier.embed steps y).
Proof. exact (mixed_all_intervals steps plo phi grid_len grid_ok grid_sorted steps_pos img ivs levels y). Qed.
(* degenerate focal intervals (precise inputs under an exact image) give a zero-width output *)
Theorem C14_precise (focal : list (R * R)) : (1 < length focal)%nat -> Forall (fun i => fst i = snd i) focal ->
  exists p, mixture RN steps plo phi focal = Ok p /\ fst p = snd p.
Proof. exact (mixture_precise steps plo phi grid_len grid_ok grid_sorted focal). Qed.
Theorem C14_cut_precise (q : list R) (a : R) : fst (alpha_cut RN steps plo phi (q, q) a) = snd (alpha_cut RN steps plo phi (q, q) a).
Proof. exact (cut_precise steps plo phi q a). Qed.
(* inputs that are all precise distributions, `direct` strategy, any response function whose powers have positive exponents:
   every alpha-cut box is a box of points, its image is a point, the output has zero width *)
Theorem C14_all_precise (fexp : R -> R) (fpow : R -> nat -> R) e (qs : list (list R)) (levels : list (list R)) focal :
  (forall x k, fpow x k = x ^ k) -> Iso.pos_pows e -> (1 < length levels)%nat ->
  focal_elements RN steps plo phi (direct RN fexp fpow e) (map (fun q => (q, q)) qs) levels = Ok focal ->
  exists p, mixture RN steps plo phi focal = Ok p /\ fst p = snd p.
Proof. intros Hf. exact (mixed_all_precise steps plo phi grid_len grid_ok grid_sorted fexp fpow Hf e qs levels focal). Qed.
End C14.
Print Assumptions C14_support.
(* slicing with k slices of d inputs: k^d rows, no row twice, every combination of grid levels present *)
Theorem C14_slicing_levels (plo phi : R) (k d : nat) : NoDup (linspace RN plo phi k) ->
  length (slicing_levels RN plo phi k d) = (k ^ d)%nat /\ NoDup (slicing_levels RN plo phi k d) /\
  (forall t, In t (slicing_levels RN plo phi k d) <-> length t = d /\ Forall (fun a => In a (linspace RN plo phi k)) t).
Proof. exact (slicing_levels_complete plo phi k d). Qed.
Print Assumptions C14_slicing_levels.
Print Assumptions C14_contains_every_selection.

(* "stacking, with equal weights": with N focal intervals of mass 1/N each, listed in ANY order, the bound at a level a with t/N < a <= (t+1)/N is the
   (t+1)-th smallest lower (upper) end - the order-statistic reference the C14 check decides the returned p-box against at every grid level *)
From Coq Require Import Lra.
From PUN Require Import Proofs.Stacking Proofs.EqualStack.
Theorem C14_equal_weight_stack_is_order_statistic (s : list R) (t : nat) (a : R) : (t < length s)%nat ->
  (INR t / INR (length s) < a <= INR (S t) / INR (length s))%R -> (0 < a <= 1)%R ->
  ecdf_at s (equal_weights RN (length s)) a = nth t (Rsort s) 0%R.
Proof. exact (equal_weight_mixture_order_statistic s t a). Qed.
Print Assumptions C14_equal_weight_stack_is_order_statistic.
Example C14_order_statistic_ex : ecdf_at [3; 1; 2]%R (equal_weights RN 3) (1 / 2)%R = nth 1 (Rsort [3; 1; 2]%R) 0%R.
Proof. apply (C14_equal_weight_stack_is_order_statistic [3; 1; 2]%R 1 (1 / 2)%R); cbn; [auto | split | split]; lra. Qed.
