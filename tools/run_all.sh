#!/bin/sh
# usage: tools/run_all.sh [quick|thorough]  -- every registered check once on the current tree (rewrites evidence/*.json)
cd "$(dirname "$0")/.." || exit 2; tier=${1:-quick}
for n in 01 02 03 04 05 06 07 08 09 10 11 12 13 14 15 16 17 18 19 20; do
  out=$(./check C$n $tier 2>&1); rc=$?
  echo "C$n rc=$rc $(echo "$out" | grep -c '^VIOLATION') violations, $(echo "$out" | grep -c '^KNOWN-FINDING') known | $(echo "$out" | tail -1 | sed 's/.*evaluations/evaluations/' | cut -c1-150)"
done
