#!/venv/bin/python
"""C14 - mixed propagation outputs are mixtures of interval images of input alpha-cuts."""
import itertools
import math
import os
import sys
import warnings

sys.path.insert(0, os.path.dirname(os.path.abspath(__file__)))
import vlib
import pbx
import check_c13 as g13
from pbx import np, coq_pb, coq_pout
from vlib import coq_list, flist, hexf

warnings.filterwarnings("ignore")
STRATS = {"direct": ("SDirect", dict(interval_strategy="direct")),
          "endpoints": ("SEndpoints", dict(interval_strategy="endpoints")),
          "sub_direct": ("(SSubDirect 2)", dict(interval_strategy="subinterval", subinterval_style="direct", n_sub=2)),
          "sub_endpoints": ("(SSubEndpoints 2)", dict(interval_strategy="subinterval", subinterval_style="endpoints", n_sub=2))}
FOCAL = []      # focal intervals handed to stacking by the implementation (recorded by a wrapper installed in this process)


def gen_var(rng, kind):
    c = rng.choice([0.5, 1.0, -1.0, 2.0, 0.0])
    if kind == "I":
        return {"kind": "I", "lo": c, "hi": c + rng.choice([0.0, 0.25, 1.0])}
    if kind == "D":
        fam = rng.choice(["gaussian", "uniform"])
        return {"kind": "D", "family": fam, "params": [c, rng.choice([0.125, 0.25])] if fam == "gaussian" else [c, c + rng.choice([0.5, 1.0])]}
    w = rng.choice([0.25, 0.5])
    if rng.random() < 0.3:
        # plateaus: several grid levels share one focal interval, so propagated boxes repeat with unequal multiplicities
        k1 = rng.choice([50, 120, 150])
        L = [c] * k1 + [c + 2.0] * (200 - k1)
        return {"kind": "P", "ctor": "staircase", "args": [L, [v + w for v in L]]}
    if rng.random() < 0.5:
        return {"kind": "P", "ctor": "normal", "args": [[c, c + w], rng.choice([0.125, [0.125, 0.25]])]}
    return {"kind": "P", "ctor": "uniform", "args": [[c, c + w], [c + 1.0, c + 1.0 + w]]}


def build(v):
    from pyuncertainnumber import pba
    if v["kind"] == "I":
        return pba.I(v["lo"], v["hi"])
    if v["kind"] == "D":
        return pba.Distribution(v["family"], tuple(v["params"]))
    if v["ctor"] == "staircase":
        from pyuncertainnumber.pba.pbox_abc import Staircase
        return Staircase(np.array(v["args"][0], float), np.array(v["args"][1], float))
    return getattr(pba, v["ctor"])(*v["args"])


def gen_dep(rng, d):
    k = rng.choice(["none", "none", "gaussian", "frank", "clayton", "independence"]) if d >= 2 else "none"
    if k == "none":
        return None
    if k == "gaussian":
        if d == 2:
            return {"family": "gaussian", "kw": {"corr": rng.choice([0.5, -0.7, 0.9]), "k_dim": 2}}
        m = [[1.0, 0.5, 0.3], [0.5, 1.0, 0.4], [0.3, 0.4, 1.0]]
        return {"family": "gaussian", "kw": {"corr": m, "k_dim": 3}}
    if k == "independence":
        return {"family": "independence", "kw": {"k_dim": d}}
    return {"family": k, "kw": {"theta": rng.choice([2.0, 5.0]), "k_dim": d}}


def mk_dep(spec):
    from pyuncertainnumber import pba
    if spec is None:
        return None
    kw = dict(spec["kw"])
    if isinstance(kw.get("corr"), list):
        kw["corr"] = np.array(kw["corr"])
    return pba.Dependency(spec["family"], **kw)


def install_recorder():
    from pyuncertainnumber.propagation import mixed_up
    real = mixed_up.stacking

    def rec(container, *a, **k):
        FOCAL.append([(float(np.min(i.lo)), float(np.max(i.hi))) for i in container])
        return real(container, *a, **k)
    mixed_up.stacking = rec


def own_cut(L, R, pv, a):
    """alpha-cut by the nearest grid level (first index of the minimum distance)"""
    i = int(np.argmin(np.abs(pv - a)))
    return (float(L[i]), float(R[i]))


def equal_weight_problem(focal, outL, outR, steps, plo, phi):
    """independent reference for 'stacking with equal weights': at grid level p_i (the exact rational grid plo + i*(phi-plo)/(steps-1)) the left
    bound is the k-th smallest lower end and the right bound the k-th smallest upper end of the N focal intervals, k = ceil(p_i * N). Where p_i * N is
    an integer the float sums of the implementation may land on either side, so k+1 is accepted as well - except at level 0 when the mass 1/N is added
    at most twice (N = 1000 or 2000 for the default grid), which floats do exactly."""
    from fractions import Fraction as Fr
    N = len(focal)
    lows, highs = sorted(a for a, _ in focal), sorted(b for _, b in focal)
    for i in range(steps):
        t = (Fr(plo) + (Fr(phi) - Fr(plo)) * Fr(i, steps - 1)) * N
        k = max(1, math.ceil(t))
        ks = [k]
        if t == k and not (i == 0 and k <= 2) and k < N:
            ks.append(k + 1)
        k0 = min(k, N)
        if outL[i] not in [lows[min(j, N) - 1] for j in ks] or outR[i] not in [highs[min(j, N) - 1] for j in ks]:
            return (f"step {i} (level {float(Fr(plo) + (Fr(phi) - Fr(plo)) * Fr(i, steps - 1))}) is [{outL[i]}, {outR[i]}]; with {N} equally weighted focal intervals it is the "
                    f"{k0}-th smallest lower / upper end [{lows[k0 - 1]}, {highs[k0 - 1]}]")
    return None


def body(chk):
    from pyuncertainnumber import pba
    from pyuncertainnumber.pba.params import Params
    from pyuncertainnumber.pba.pbox_abc import convert_pbox
    from pyuncertainnumber.propagation import mixed_up
    from pyuncertainnumber.propagation.b2b import b2b
    from pyuncertainnumber.propagation.p import MixedPropagation
    from pyuncertainnumber.pba.aggregation import stacking
    pbx.patch_fast_moments()
    g13.patch_exp_recorder()
    install_recorder()
    pr = chk.do_proofs()
    rng = chk.rng
    pv = np.asarray(Params.p_values, float)
    items, litems, flat = [], [], []
    n_cases = 36 if chk.tier == "quick" else 300
    for it in range(n_cases):
        d = rng.choice([1, 2, 2, 3])
        kinds = [rng.choice(["P", "I", "D"]) for _ in range(d)]
        if it % 9 == 0:
            kinds = ["I"] * d
        elif it % 9 == 1:
            kinds = ["D"] * d
        vspec = [gen_var(rng, k) for k in kinds]
        e = g13.gen_expr(rng, d, rng.choice([1, 2]))
        while g13.high_pow(e):
            e = g13.gen_expr(rng, d, rng.choice([1, 2]))
        f, src = g13.make_func(e)
        sname = rng.choice(list(STRATS))
        coq_strat, kw = STRATS[sname]
        method = rng.choice(["slicing", "imc"])
        api = rng.choice(["function", "class", "propagation"])
        mixed_ok = ("P" in kinds) or ("I" in kinds and "D" in kinds)
        if api != "function" and not mixed_ok:
            api = "function"
        seed = rng.randint(0, 10 ** 6)
        dep_spec = gen_dep(rng, d) if method == "imc" else None
        n = rng.choice([2, 3, 5, 8, 20]) if (method == "slicing" and d == 1) else rng.choice([2, 3, 4]) if method == "slicing" else rng.choice([2, 5, 12, 30])
        if it >= n_cases - 4:
            # large cases, N a multiple of 1000 (a cumulated mass 1/N, 2/N then meets the first grid level exactly): many probability levels per
            # grid cell (anything keyed on a level must use the level's own alpha-cut). The response is the plain sum of smooth, non-interval
            # inputs in two or three dimensions, so that the smallest focal intervals are all different (ties would hide which one is used)
            d = 3 if it == n_cases - 4 else rng.choice([2, 3])
            kinds = [rng.choice(["P", "D"]) for _ in range(d)]
            vspec = [gen_var(rng, k) for k in kinds]
            while any(v.get("ctor") == "staircase" for v in vspec):
                vspec = [gen_var(rng, k) for k in kinds]
            e = ("var", 0)
            for j_ in range(1, d):
                e = ("add", e, ("var", j_))
            f, src = g13.make_func(e)
            api = "function"
            if it == n_cases - 4:
                method, sname, n, dep_spec = "slicing", "direct", 10, None       # 10^3 boxes
            else:
                method = "imc"
                sname = ["direct", "endpoints", "direct"][n_cases - 1 - it]
                dep_spec = gen_dep(rng, d)
                n = 2000 if d == 2 else 1000
            coq_strat, kw = STRATS[sname]
        site = f"{method}:{api}:{sname}:{''.join(kinds)}" + (f":{dep_spec['family']}" if dep_spec else "")
        replay = {"kind": "oracle", "vars": vspec, "function": g13.py_src(e), "strategy": sname, "method": method, "api": api, "n": n, "seed": seed, "dependency": dep_spec}
        chk.count(f"{method}-{api}-{sname}-d{d}" + ("-dep" if dep_spec else ""), key=(str(vspec), g13.py_src(e), sname, method, api, n, seed, str(dep_spec)))

        def call():
            vars_ = [build(v) for v in vspec]
            dep = mk_dep(dep_spec)
            if api == "propagation":       # the high-level API on uncertain numbers
                from pyuncertainnumber.propagation.p import Propagation
                from pyuncertainnumber.characterisation.uncertainNumber import UncertainNumber as UN
                uns = [UN.fromConstruct(v) for v in vars_]
                extra = {k: v for k, v in kw.items() if k != "interval_strategy"}
                if method == "slicing":
                    r = Propagation(vars=uns, func=f, method="slicing", interval_strategy=kw["interval_strategy"]).run(n_slices=n, **extra)
                    return (r.construct if hasattr(r, "construct") else r), None
                r = Propagation(vars=uns, func=f, method="interval_monte_carlo", dependency=dep, interval_strategy=kw["interval_strategy"]).run(
                    n_sam=n, random_state=seed, **extra)
                return (r.construct if hasattr(r, "construct") else r), np.asarray((dep or pba.Dependency("independence", k_dim=d)).u_sample(n, random_state=seed))
            if method == "slicing":
                if api == "function":
                    return mixed_up.slicing(vars_, f, n_slices=n, **kw), None
                return MixedPropagation(vars=vars_, func=f, method="slicing", interval_strategy=kw["interval_strategy"]).run(
                    n_slices=n, **{k: v for k, v in kw.items() if k != "interval_strategy"}), None
            if api == "function":
                return mixed_up.interval_monte_carlo(vars_, f, n_sam=n, dependency=dep, random_state=seed, side_effects=True, **kw)
            return MixedPropagation(vars=vars_, func=f, method="interval_monte_carlo", dependency=dep, interval_strategy=kw["interval_strategy"]).run(
                n_sam=n, random_state=seed, side_effects=True, **{k: v for k, v in kw.items() if k != "interval_strategy"})

        del g13.RECORD[:]
        del FOCAL[:]
        try:
            p, levels = call()
            out = ("ok", [float(x) for x in p.left], [float(x) for x in p.right])
        except Exception as ex:
            out = ("exc", pbx.exc_code(ex), type(ex).__name__ + ": " + str(ex)[:100])
            levels = None
        focal = FOCAL[-1] if FOCAL else None
        table = list(g13.RECORD)
        views = [convert_pbox(build(v)) for v in vspec]
        VL = [(np.asarray(q.left, float), np.asarray(q.right, float)) for q in views]
        # (a) the rows of probability levels
        if method == "slicing":
            grid1 = np.linspace(Params.p_lboundary, Params.p_hboundary, n)
            rows = [list(map(float, r)) for r in itertools.product(*([grid1] * d))]
            litems.append(f"({n}%nat, {d}%nat, {coq_list([flist(r) for r in rows])})")
        else:
            dep2 = mk_dep(dep_spec) or pba.Dependency("independence", k_dim=d)
            rows = [list(map(float, np.atleast_1d(r))) for r in np.asarray(dep2.u_sample(n, random_state=seed)).reshape(n, -1)]
            if out[0] == "ok":
                got = [list(map(float, np.atleast_1d(r))) for r in np.asarray(levels).reshape(len(levels), -1)]
                if any(not (0.0 <= a <= 1.0) for r in got for a in r):
                    chk.report(site + ":levels", "a reported probability level lies outside [0, 1]", replay)
                if got != rows:
                    chk.report(site + ":levels", f"the probability levels reported for seed {seed} and dependency {dep_spec} are not the sample of that copula with that seed "
                               f"(first reported row {got[0]}, expected {rows[0]})", replay)
        # (b) focal intervals = images of the alpha-cut boxes at exactly those rows
        exp_focal, img_fail = [], None
        for r in rows:
            box = [own_cut(L, R, pv, a) for (L, R), a in zip(VL, r)]
            try:
                y = b2b([pba.I(*b) for b in box] if d > 1 else pba.I(*box[0]), f, **kw)
                exp_focal.append((float(np.min(y.lo)), float(np.max(y.hi))))
            except Exception as ex:
                img_fail = type(ex).__name__
                break
        table = table + list(g13.RECORD)
        if img_fail is not None:
            if out[0] == "ok":
                chk.report(site, f"the response fails on an alpha-cut box ({img_fail}) but the propagation returned a p-box", replay)
            continue
        if out[0] != "ok":
            if len(rows) > 1:
                chk.report(site, f"propagation fails: {out[2]}", replay)
            continue
        if method == "slicing" and focal is not None and len(focal) != n ** d:
            chk.report(site + ":count", f"slicing with {n} slices of {d} inputs propagated {len(focal)} boxes instead of {n ** d}", replay)
        if focal is not None and sorted(focal) != sorted(exp_focal):
            bad = next((x for x in focal if x not in exp_focal), focal[0])
            chk.report(site + ":focal", f"the focal intervals handed to stacking are not the images of the alpha-cut boxes at the {'grid' if method == 'slicing' else 'sampled'} levels "
                       f"(e.g. {bad}; {len(set(focal) - set(exp_focal))} of {len(focal)} differ)", replay)
        # (c) the result is the equal-weight mixture of those images: an independent order-statistic reference, then the library's own stacking
        why = equal_weight_problem(exp_focal, out[1], out[2], len(pv), "0.001", "0.999") if (len(pv) == 200 and pv[0] == 0.001 and pv[-1] == 0.999) else None
        if os.environ.get("VERIF_DEBUG") and len(exp_focal) >= 1000:
            print(f"  [debug] large case {site} n={n} N={len(exp_focal)} out0=[{out[1][0]}, {out[2][0]}] lows={sorted(a for a, _ in exp_focal)[:3]} highs={sorted(b for _, b in exp_focal)[:3]} why={why}")
        if why:
            chk.report(site + ":equal-weights", "the returned p-box is not the equal-weight stack of the interval images of the alpha-cut boxes: " + why, replay)
        try:
            ref = stacking([pba.I(*y) for y in exp_focal])
            if not (np.array_equal(np.asarray(ref.left, float), out[1]) and np.array_equal(np.asarray(ref.right, float), out[2])):
                k = int(np.argmax(np.abs(np.asarray(ref.left) - out[1]) + np.abs(np.asarray(ref.right) - out[2])))
                chk.report(site + ":mixture", f"the returned p-box is not the equal-weight mixture of the interval images of the alpha-cut boxes: step {k} is "
                           f"[{out[1][k]}, {out[2][k]}], expected [{float(ref.left[k])}, {float(ref.right[k])}]", replay)
        except Exception as ex:
            chk.report(site + ":mixture", f"reference mixture fails: {type(ex).__name__}", replay)
        # (d) support inside the image of the supports (the inclusion-isotone strategy)
        if sname == "direct":
            sup = [(float(L[0]), float(R[-1])) for L, R in VL]
            try:
                Y = b2b([pba.I(*b) for b in sup] if d > 1 else pba.I(*sup[0]), f, **kw)
                ylo, yhi = float(np.min(Y.lo)), float(np.max(Y.hi))
                if out[1][0] < ylo or out[2][-1] > yhi:
                    chk.report(site + ":support", f"output support [{out[1][0]}, {out[2][-1]}] is not inside the interval image [{ylo}, {yhi}] of the input supports", replay)
            except Exception:
                pass
        # (e) all intervals: exactly the interval image;  (f) all precise: zero width
        if all(k == "I" for k in kinds):
            y = exp_focal[0]
            if not (all(v == y[0] for v in out[1]) and all(v == y[1] for v in out[2])):
                chk.report(site + ":all-intervals", f"inputs that are all intervals give [{out[1][0]}..{out[1][-1]}, {out[2][0]}..{out[2][-1]}] instead of the interval image {y}", replay)
        if all(k == "D" for k in kinds) and sname in ("direct", "endpoints"):
            w = max(b - a for a, b in zip(out[1], out[2]))
            if w != 0.0:
                chk.report(site + ":all-precise", f"inputs that are all precise distributions give an output of width {w}", replay)
        # (g) reproducible
        if method == "imc":
            try:
                p2, _ = call()
                if not (np.array_equal(np.asarray(p2.left, float), out[1]) and np.array_equal(np.asarray(p2.right, float), out[2])):
                    chk.report(site + ":reproducible", f"the same seed {seed} and dependency give a different p-box on a second run", replay)
            except Exception as ex:
                chk.report(site + ":reproducible", f"second run fails: {type(ex).__name__}", replay)
        # correspondence with the Coq model
        if len(rows) <= 64 and sname in ("direct", "endpoints", "sub_direct", "sub_endpoints"):
            tab = {}
            for a, b in table:
                tab.setdefault(a, b)
            tabs = "[" + "; ".join(f"({hexf(a)}, {hexf(b)})" for a, b in tab.items()) + "]"
            items.append(f"({coq_strat}, {g13.coq_src(e)}, {coq_list([coq_pb(list(L), list(R)) for L, R in VL])}, {coq_list([flist(r) for r in rows])}, {tabs}, {coq_pout(out)})")
            flat.append((site, replay))

    chunks = []
    CH = 3
    for s in range(0, len(items), CH):
        chunks.append(("Definition cases : list mcase := " + coq_list(items[s:s + CH]) + ".\nDefinition verdicts := map mcheck cases.\n", len(items[s:s + CH])))
    n_m = len(items)
    for s in range(0, len(litems), 10):
        chunks.append(("Definition cases : list lcase := " + coq_list(litems[s:s + 10]) + ".\nDefinition verdicts := map lcheck cases.\n", len(litems[s:s + 10])))
    exact, rounded, bad, log = vlib.run_coq_cases("C14", chunks, "From PUN Require Import Model.B2B Model.Mixed Corr.CorrPbox Corr.CorrC14.\nImport Mixed.\n", jobs=16, timeout=900)
    chk.corr = {"mixture_cases": n_m, "level_grid_cases": len(litems), "bit_exact": exact, "rounded": rounded, "disagree": len(bad)}
    if log:
        chk.corr["log"] = log[-600:]
    if flat:
        chk.sample({"site": flat[0][0], "replay": flat[0][1]})
        chk.sample({"site": flat[len(flat) // 2][0], "replay": flat[len(flat) // 2][1]})
    seen = set()
    for i in bad:
        site, replay = flat[i] if i < n_m else ("slicing:levels", {"kind": "correspondence", "case": litems[i - n_m][:80]})
        if site in seen:
            continue
        seen.add(site)
        chk.report(site, "the returned p-box differs from the model (alpha-cuts at the recorded rows of levels, interval images, equal-weight stacking)", dict(replay, kind="correspondence"), found_input=True)
    if not pr["ok"]:
        if not chk.violations:
            chk.report("proof", "proof obligation no longer checks", chk.proof_broken_replay(), found_input=False)
        else:
            chk.violations[0][0]["proof_broken"] = chk.proof_broken_replay()


RULE = ("1-3 inputs of kinds p-box (normal / uniform with interval parameters), interval, precise distribution (every ninth case all intervals, every ninth all precise); response "
        "functions from the C13 grammar (depth 1-2, no libm powers); strategies direct, endpoints, subinterval(direct|endpoints, 2 tiles); slicing with 2-4 slices (1 input: up to 20) "
        "and interval Monte Carlo with 2-30 samples, seeds, dependency none / independence / gaussian / frank / clayton; called as functions and through MixedPropagation.run. "
        "Observed: returned p-box, the levels reported (side_effects), the focal intervals handed to stacking (wrapper in the harness process). Compared with: the copula sample "
        "recomputed for the same seed and dependency, own nearest-level alpha-cuts, b2b on the cut boxes, stacking of the images, and the Coq model run on binary64. "
        "distinct key = (inputs, function, strategy, method, api, n, seed, dependency)")
TB = ["statsmodels copula sampling (Dependency.u_sample) is a library: the levels enter the model as recorded rows; the harness recomputes them with the same seed",
      "b2b (C13) and stacking (C08) are used as reference implementations for the focal images and the mixture; both are also modelled in the Coq run",
      "numpy exp is a recorded lookup table in the Coq run",
      "the support theorem quantifies over image functions that map boxes inside the supports into Y (inclusion isotonicity of `direct` is C12); vertex / tiled strategies are not isotone",
      "double_monte_carlo is not covered"]

if __name__ == "__main__":
    chk = vlib.main_wrapper("C14", body)
    sys.exit(chk.finish(rule=RULE, trusted_base=TB))
