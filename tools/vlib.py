"""Shared machinery of the PyUncertainNumber verification checks.

Every check runs:   translate -> make Props/<id>.vo (+ Print Assumptions capture)
                    -> correspondence (model FN evaluated inside Coq vs implementation)
                    -> property oracle on the implementation (violation search)
                    -> known findings -> evidence -> exit code
"""
import fcntl
import hashlib
import json
import math
import os
import random
import re
import subprocess
import sys
import time
import traceback
from fractions import Fraction

VERIF = os.path.dirname(os.path.dirname(os.path.abspath(__file__)))
COQ = os.path.join(VERIF, "coq")
REPO = os.environ.get("PUN_REPO", "/repo")
SRC = os.path.join(REPO, "src")
PKG = os.path.join(SRC, "pyuncertainnumber")

ALLOWED_AXIOMS = {
    "ClassicalDedekindReals.sig_forall_dec",
    "ClassicalDedekindReals.sig_not_dec",
    "FunctionalExtensionality.functional_extensionality_dep",
    "Classical_Prop.classic",
}

# specifications of Coq's primitive 63-bit integers and binary64 floats, declared by the standard library itself
# (Numbers/Cyclic/Int63, Floats/FloatAxioms); they appear under theorems closed by the `interval` tactic of coq-interval
ALLOWED_AXIOM_PREFIXES = ("Uint63.", "PrimInt63.", "PrimFloat.", "FloatAxioms.", "Sint63.")

FORBIDDEN = re.compile(r"\b(Admitted|admit|Axiom|Axioms|Parameter|Parameters|Conjecture|Conjectures|Admit Obligations)\b|Unset Guard|bypass_check|type-in-type|impredicative-set|Unset Universe Checking|Unset Positivity")


def setup_impl_path():
    """make `import pyuncertainnumber` resolve to /repo's working tree"""
    if SRC not in sys.path:
        sys.path.insert(0, SRC)
    os.environ.setdefault("MPLBACKEND", "Agg")
    import warnings
    warnings.filterwarnings("ignore")
    import logging
    logging.disable(logging.WARNING)


# ----------------------------------------------------------------------------
# float <-> Coq literal
# ----------------------------------------------------------------------------
def hexf(x):
    x = float(x)
    if x != x:
        return "nan"
    if x == math.inf:
        return "infinity"
    if x == -math.inf:
        return "neg_infinity"
    h = x.hex()
    if h.startswith("-"):
        return "(-" + h[1:] + ")"
    return h


def coq_list(items):
    return "[" + "; ".join(items) + "]"


def flist(xs):
    return coq_list([hexf(x) for x in xs])


def frac(x):
    return Fraction(float(x))


def ulp_close(a, b, ulps=8, abs_tol=0.0):
    """|a-b| within `ulps` units in the last place of the larger magnitude"""
    a, b = float(a), float(b)
    if a == b:
        return True
    if math.isnan(a) or math.isnan(b) or math.isinf(a) or math.isinf(b):
        return False
    return abs(a - b) <= ulps * math.ulp(max(abs(a), abs(b))) + abs_tol


# ----------------------------------------------------------------------------
# Coq build and case runs
# ----------------------------------------------------------------------------
class Lock:
    def __enter__(self):
        self.f = open(os.path.join(COQ, ".lock"), "w")
        fcntl.flock(self.f, fcntl.LOCK_EX)
        return self

    def __exit__(self, *a):
        fcntl.flock(self.f, fcntl.LOCK_UN)
        self.f.close()


def sh(cmd, timeout=1800, cwd=None):
    t = time.time()
    try:
        p = subprocess.run(cmd, shell=True, cwd=cwd, stdout=subprocess.PIPE, stderr=subprocess.STDOUT,
                           timeout=timeout, text=True)
        return p.returncode, p.stdout, time.time() - t
    except subprocess.TimeoutExpired as e:
        return 124, (e.stdout or "") + "\nTIMEOUT", time.time() - t


def write_if_changed(path, text):
    old = None
    if os.path.exists(path):
        old = open(path).read()
    if old != text:
        os.makedirs(os.path.dirname(path), exist_ok=True)     # coq/Gen is git-ignored: absent in a fresh checkout
        with open(path, "w") as f:
            f.write(text)
        return True
    return False


def run_translators():
    """regenerate coq/Gen/*.v from the working tree; returns list of (name, error) for aborted translators.
    An aborted translator leaves a Gen file that does not compile, so dependent proofs break."""
    sys.path.insert(0, os.path.join(VERIF, "tools"))
    import translators
    errors = []
    for name, fn in translators.ALL:
        target = os.path.join(COQ, "Gen", name + ".v")
        try:
            text = fn()
        except Exception as e:  # fail closed
            msg = f"{type(e).__name__}: {e}"
            errors.append((name, msg))
            text = "(* translator aborted: %s *)\nTRANSLATOR_ABORTED.\n" % msg.replace("*)", "* )")
        write_if_changed(target, text)
    return errors


def ensure_makefile():
    mk = os.path.join(COQ, "Makefile")
    cp = os.path.join(COQ, "_CoqProject")
    if (not os.path.exists(mk)) or os.path.getmtime(mk) < os.path.getmtime(cp):
        sh("coq_makefile -f _CoqProject -o Makefile", cwd=COQ)


def grep_gate():
    bad = []
    for root, _, files in os.walk(COQ):
        if "/Cases" in root:
            continue
        for fn in files:
            if fn.endswith(".v"):
                p = os.path.join(root, fn)
                txt = open(p).read()
                # strip comments (non-nested is enough for our sources)
                txt2 = re.sub(r"\(\*.*?\*\)", "", txt, flags=re.S)
                for m in FORBIDDEN.finditer(txt2):
                    bad.append(f"{os.path.relpath(p, COQ)}: {m.group(0)}")
    return bad


def dep_graph():
    rc, out, _ = sh("coqdep -f _CoqProject 2>/dev/null", cwd=COQ)
    deps = {}
    for line in out.splitlines():
        if ":" not in line:
            continue
        lhs, rhs = line.split(":", 1)
        tgt = lhs.split()[0]
        if tgt.endswith(".vo"):
            deps[tgt[:-1]] = [d[:-1] for d in rhs.split() if d.endswith(".vo")]
    return deps


def closure(deps, roots):
    seen, todo = [], list(roots)
    while todo:
        f = todo.pop()
        if f in seen:
            continue
        seen.append(f)
        todo.extend(deps.get(f, []))
    return seen


def dep_closure(pid):
    """the .v files Props/<pid>.v depends on (through coqdep)"""
    return closure(dep_graph(), [f"Props/{pid}.v"])


def count_obligations(files):
    n = 0
    for f in files:
        p = os.path.join(COQ, f)
        if os.path.exists(p):
            txt = re.sub(r"\(\*.*?\*\)", "", open(p).read(), flags=re.S)
            n += len(re.findall(r"^\s*(?:Theorem|Lemma|Corollary|Example|Fact|Proposition)\s", txt, flags=re.M))
    return n


def build_props(pid, timeout=3000, extra=()):
    """translate, build Props/<pid>.vo, capture Print Assumptions. Returns dict."""
    info = {"ok": False, "translator_errors": [], "log_tail": "", "assumptions": [], "axioms_outside_allowed": [],
            "obligations": 0, "discharged": 0, "checker_cmd": "", "gate": []}
    with Lock():
        info["translator_errors"] = run_translators()
        ensure_makefile()
        info["gate"] = grep_gate()
        targets = f"Props/{pid}.vo"
        if os.path.exists(os.path.join(COQ, "Corr", f"Corr{pid}.v")):
            targets += f" Corr/Corr{pid}.vo"
        for e in extra:
            targets += " " + e
        cmd = f"timeout {timeout} make -j16 {targets}"
        info["checker_cmd"] = f"cd {COQ} && coq_makefile -f _CoqProject -o Makefile && {cmd} && coqc -R . PUN Props/{pid}.v"
        rc, out, _ = sh(cmd, timeout=timeout + 60, cwd=COQ)
        files = dep_closure(pid)
        info["files"] = files
        info["obligations"] = count_obligations(files)
        if rc != 0:
            info["log_tail"] = out[-3000:]
            m = re.search(r'File "\./([^"]+)", line (\d+)', out)
            info["failed_at"] = f"{m.group(1)}:{m.group(2)}" if m else "unknown"
            # discharged: obligations of the files that do not depend on the failing file
            deps = dep_graph()
            failing = m.group(1) if m else None
            done = [f for f in files if failing is not None and failing not in closure(deps, [f])]
            info["discharged"] = count_obligations(done)
            return info
        # re-run the property file alone to capture Print Assumptions
        rc, out, _ = sh(f"timeout 600 coqc -R . PUN -w -notation-overridden Props/{pid}.v", cwd=COQ, timeout=660)
        if rc != 0:
            info["log_tail"] = out[-3000:]
            info["failed_at"] = f"Props/{pid}.v"
            return info
        axioms = set()
        closed = 0
        in_ax = False
        for line in out.splitlines():
            if "Closed under the global context" in line:
                closed += 1
                in_ax = False
                continue
            if line.strip() == "Axioms:":
                in_ax = True
                continue
            if in_ax:
                if line and not line[0].isspace():
                    m2 = re.match(r"^([A-Za-z_][\w.']*)", line)
                    if m2:
                        axioms.add(m2.group(1))
                elif not line.strip():
                    in_ax = False
        info["assumptions"] = sorted(axioms)
        info["axioms_outside_allowed"] = sorted(a for a in axioms if a not in ALLOWED_AXIOMS and not a.startswith(ALLOWED_AXIOM_PREFIXES))
        info["closed_theorems"] = closed
        info["discharged"] = info["obligations"]
        info["ok"] = (not info["translator_errors"]) and (not info["gate"]) and (not info["axioms_outside_allowed"])
    return info


CASE_HEADER = """From Coq Require Import List PrimFloat ZArith Bool String.
Import ListNotations.
From PUN Require Import Base.Num.
"""


def run_coq_cases(pid, chunks, requires, timeout=900, jobs=8, scope="float_scope"):
    """chunks: list of Coq texts each defining `verdicts : list nat` (0 exact, 1 rounded, >=2 disagree).
    Returns (n_exact, n_rounded, [global indices of disagreements], log)."""
    os.makedirs(os.path.join(COQ, "Cases"), exist_ok=True)
    tag = f"{pid}_{os.getpid()}"
    names = []
    for k, (text, ncases) in enumerate(chunks):
        name = f"Cases/K{tag}_{k}.v"
        with open(os.path.join(COQ, name), "w") as f:
            f.write(CASE_HEADER + requires + f"\nOpen Scope {scope}.\n" + text +
                    "\nEval vm_compute in (summary verdicts).\n")
        names.append((name, ncases))
    procs = []
    results = []
    idx = 0
    pending = list(enumerate(names))
    running = []
    outs = {}
    while pending or running:
        while pending and len(running) < jobs:
            k, (name, ncases) = pending.pop(0)
            p = subprocess.Popen(f"ulimit -s unlimited 2>/dev/null; timeout {timeout} coqc -R . PUN -w none {name}", shell=True, cwd=COQ,
                                 stdout=subprocess.PIPE, stderr=subprocess.STDOUT, text=True)
            running.append((k, p))
        for k, p in list(running):
            if p.poll() is not None:
                outs[k] = (p.returncode, p.stdout.read())
                running.remove((k, p))
        time.sleep(0.05)
    exact = rounded = 0
    bad = []
    log = ""
    offset = 0
    for k, (name, ncases) in enumerate(names):
        rc, out = outs[k]
        flat = " ".join(out.split()).replace("%nat", "")
        m = re.search(r"= \((\d+), (\d+), \[(.*?)\]\)", flat)
        if rc != 0 or not m:
            log += f"\n[{name}] rc={rc}\n{out[-1500:]}"
            bad.extend(range(offset, offset + ncases))
        else:
            exact += int(m.group(1))
            rounded += int(m.group(2))
            if m.group(3).strip():
                bad.extend(offset + int(t) for t in m.group(3).split(";"))
            if int(m.group(1)) + int(m.group(2)) + (len(m.group(3).split(";")) if m.group(3).strip() else 0) != ncases:
                log += f"\n[{name}] case count mismatch: {flat[-200:]}"
                bad.append(offset)
        offset += ncases
        base = os.path.join(COQ, name[:-2])
        for ext in (".v", ".vo", ".vok", ".vos", ".glob"):
            try:
                os.remove(base + ext)
            except OSError:
                pass
        try:
            d, b = os.path.split(base)
            os.remove(os.path.join(d, "." + b + ".aux"))
        except OSError:
            pass
    return exact, rounded, sorted(set(bad)), log


# ----------------------------------------------------------------------------
# findings, replays, evidence
# ----------------------------------------------------------------------------
def load_known_findings(pid):
    p = os.path.join(VERIF, "known_findings.json")
    if not os.path.exists(p):
        return []
    data = json.load(open(p))
    return [e for e in data.get("findings", []) if e.get("property") == pid]


def write_replay(pid, obj):
    d = os.path.join(VERIF, "replays", pid)
    os.makedirs(d, exist_ok=True)
    blob = json.dumps(obj, sort_keys=True, default=str)
    h = hashlib.sha1(blob.encode()).hexdigest()[:12]
    path = os.path.join(d, h + ".json")
    with open(path, "w") as f:
        json.dump(obj, f, indent=1, sort_keys=True, default=str)
    return path


class Check:
    """collects the outcome of one run and writes evidence / exit code"""

    def __init__(self, pid, tier, seed):
        self.pid, self.tier, self.seed = pid, tier, seed
        self.t0 = time.time()
        self.rng = random.Random(seed)
        self.violations = []          # (replay_obj, found_input: bool)
        self.known_hits = []          # strings
        self.cov = {"evaluations": 0, "distinct_nontrivial": 0, "samples": [], "strata": {}}
        self.assumptions = []
        self.notes = []
        self.proof = None
        self.corr = {}
        self._distinct = set()
        self.known = load_known_findings(pid)

    # -- coverage bookkeeping
    def count(self, stratum, key=None, nontrivial=True, n=1):
        self.cov["evaluations"] += n
        self.cov["strata"][stratum] = self.cov["strata"].get(stratum, 0) + n
        if nontrivial and key is not None:
            self._distinct.add(key if isinstance(key, (str, int, tuple)) else repr(key))

    def sample(self, obj, cap=6):
        if len(self.cov["samples"]) < cap:
            self.cov["samples"].append(obj)

    # -- findings
    def matches_known(self, site, detail):
        for e in self.known:
            if e.get("status") != "open":
                continue
            if e.get("site") == site and re.search(e.get("what_regex", ""), detail or ""):
                return e
        return None

    def report(self, site, what, replay, found_input=True):
        """a property failure observed; suppressed to KNOWN-FINDING only if an open finding lists its site"""
        e = self.matches_known(site, what)
        if e is not None:
            msg = f"{e['key']} {e['what']}"
            if msg not in self.known_hits:
                self.known_hits.append(msg)
            return False
        replay = dict(replay)
        replay.update({"property": self.pid, "site": site, "what": what, "seed": self.seed, "tier": self.tier})
        self.violations.append((replay, found_input))
        return True

    def finish(self, level="proof", rule="", trusted_base=None, extra=None):
        cov = self.cov
        cov["distinct_nontrivial"] = len(self._distinct)
        cov["rule"] = rule
        pr = self.proof or {}
        cov["obligations"] = pr.get("obligations", 0)
        cov["discharged"] = pr.get("discharged", 0)
        cov["checker_cmd"] = pr.get("checker_cmd", "")
        tb = list(trusted_base or [])
        tb.append("Coq 8.16.1 kernel incl. vm_compute (no native_compute); axioms reported by Print Assumptions: "
                  + (", ".join(pr.get("assumptions", [])) or "none"))
        cov["trusted_base"] = tb
        cov["print_assumptions"] = pr.get("assumptions", [])
        cov["proof_files"] = pr.get("files", [])
        cov["correspondence"] = self.corr
        cov["known_findings_printed"] = self.known_hits
        if extra:
            cov.update(extra)
        # print outcome
        for msg in self.known_hits:
            print(f"KNOWN-FINDING: property={self.pid} {msg}")
        rc = 0
        seen_paths = set()
        # prefer violations with a concrete input
        vio = sorted(self.violations, key=lambda v: not v[1])
        for replay, found in vio[:5]:
            path = write_replay(self.pid, replay)
            if path in seen_paths:
                continue
            seen_paths.add(path)
            tail = "" if found else " no-failing-input-found"
            print(f"VIOLATION property={self.pid} replay={path}{tail}")
            rc = 1
        if os.environ.get("VERIF_DEBUG"):
            for replay, found in vio:
                print(f"  [debug] {replay.get('site')} | {str(replay.get('what'))[:300]}")
        ev = {"property_id": self.pid, "tier": self.tier, "seed": self.seed, "level": level, "coverage": cov,
              "assumptions": self.assumptions, "wall_s": round(time.time() - self.t0, 2),
              "violations": len(self.violations)}
        os.makedirs(os.path.join(VERIF, "evidence"), exist_ok=True)
        with open(os.path.join(VERIF, "evidence", self.pid + ".json"), "w") as f:
            json.dump(ev, f, indent=1, default=str)
        print(f"[{self.pid}] tier={self.tier} seed={self.seed} evaluations={cov['evaluations']} distinct={cov['distinct_nontrivial']} "
              f"proof_ok={pr.get('ok')} obligations={cov['discharged']}/{cov['obligations']} corr={self.corr} "
              f"violations={len(self.violations)} wall={ev['wall_s']}s")
        return rc

    # -- standard steps
    def do_proofs(self, extra=()):
        self.proof = build_props(self.pid, extra=extra)
        return self.proof

    def proof_broken_replay(self):
        pr = self.proof
        return {"kind": "proof-obligation", "failed_at": pr.get("failed_at"), "translator_errors": pr.get("translator_errors"),
                "gate": pr.get("gate"), "axioms_outside_allowed": pr.get("axioms_outside_allowed"),
                "log_tail": pr.get("log_tail", "")[-1500:],
                "replay_cmd": pr.get("checker_cmd")}


def main_wrapper(pid, body):
    """common CLI: <script> [quick|thorough]"""
    tier = os.environ.get("VERIF_TIER") or (sys.argv[1] if len(sys.argv) > 1 else "quick")
    if tier not in ("quick", "thorough"):
        tier = "quick"
    seed = int(os.environ.get("VERIF_SEED", "20260930"))
    os.environ["PYTHONHASHSEED"] = "0"
    chk = Check(pid, tier, seed)
    try:
        body(chk)
    except Exception:
        tb = traceback.format_exc()
        print(tb)
        chk.report("harness", "check crashed", {"kind": "harness-crash", "traceback": tb[-2000:]}, found_input=False)
    return chk
