#!/bin/sh
# usage: tools/run_refactors.sh [names...]  -- applies each refactors/<name>/patch.diff (a HARMLESS rewrite written by a sub-agent) to /repo, runs
# the property's quick check, undoes it; writes refactors/<name>/result.json {check_exit, violation_lines, with_concrete_input, proof_ok}.
# Expected on a harmless rewrite: exit 0, or exit 1 with ONLY `no-failing-input-found` lines (a broken tie); a VIOLATION with a concrete
# input would be a false alarm of the harness.
cd /verif
[ -z "$(git -C /repo status --porcelain)" ] || { echo "/repo not clean"; exit 2; }
names=${*:-$(ls refactors)}
for n in $names; do
  d=/verif/refactors/$n
  id=$(/venv/bin/python -c "import json;print(json.load(open('$d/meta.json'))['property'])")
  if git -C /repo apply --check $d/patch.diff 2>/dev/null; then
    git -C /repo apply $d/patch.diff
    cp evidence/$id.json /tmp/evidence_$id.keep 2>/dev/null
    out=$(./check $id quick 2>&1); rc=$?
    git -C /repo checkout -- .
    [ -f /tmp/evidence_$id.keep ] && mv /tmp/evidence_$id.keep evidence/$id.json
    nv=$(echo "$out" | grep -c '^VIOLATION')
    nfi=$(echo "$out" | grep '^VIOLATION' | grep -vc 'no-failing-input-found')
    pok=$(echo "$out" | grep -o 'proof_ok=[A-Za-z]*' | tail -1 | cut -d= -f2)
    echo "$out" | grep '^VIOLATION' | grep -v 'no-failing-input-found' | head -3 > $d/false_alarm_lines.txt
    echo "{\"refactor\": \"$n\", \"property\": \"$id\", \"applies\": true, \"check_exit\": $rc, \"violation_lines\": $nv, \"with_concrete_input\": $nfi, \"proof_ok\": \"$pok\"}" > $d/result.json
  else
    echo "{\"refactor\": \"$n\", \"property\": \"$id\", \"applies\": false}" > $d/result.json
  fi
  cat $d/result.json
done
/venv/bin/python tools/setup.py >/dev/null 2>&1
[ -z "$(git -C /repo status --porcelain)" ] && echo "repo clean"
