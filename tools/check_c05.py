#!/venv/bin/python
"""C05 - interval elementary functions and integer powers enclose every pointwise value."""
import math
import os
import sys
from fractions import Fraction

sys.path.insert(0, os.path.dirname(os.path.abspath(__file__)))
import vlib
import pbx
from pbx import np
from vlib import coq_list, hexf

PI = math.pi
TWOPI = 2 * np.pi
FUNS = ["abs", "sqrt", "exp", "log", "sin", "cos", "tan", "tanh", "sigmoid", "pow"]
CODE = {"abs": "FAbs", "sqrt": "FSqrt", "exp": "FExp", "log": "FLog", "sin": "FSin", "cos": "FCos", "tan": "FTan",
        "tanh": "FTanh", "sigmoid": "FSigmoid"}
EXC = {"ZeroDivisionError": 0, "AssertionError": 1, "ValueError": 2, "TypeError": 3}


def gen_interval(rng, f):
    """intervals stratified by width relative to the period and by the position of lo on the period grid"""
    r = rng.random()
    if f in ("sin", "cos", "tan"):
        per = TWOPI if f != "tan" else np.pi
        wclass = rng.choice(["zero", "small", "quarter", "half", "most", "period", "period+", "long"])
        w = {"zero": 0.0, "small": rng.uniform(1e-6, 0.3), "quarter": rng.uniform(0.3, per / 4), "half": rng.uniform(per / 4, per / 2),
             "most": rng.uniform(per / 2, per * 0.999), "period": float(per), "period+": float(per) * (1 + rng.uniform(1e-9, 0.2)),
             "long": rng.uniform(per, 5 * per)}[wclass]
        pos = rng.choice(["grid", "grid-", "grid+", "any", "wrap0", "neg", "far"])
        k = rng.randint(-4, 8)
        if pos == "grid":
            lo = k * (np.pi / 2)
        elif pos == "grid-":
            lo = float(np.nextafter(k * (np.pi / 2), -np.inf))
        elif pos == "grid+":
            lo = float(np.nextafter(k * (np.pi / 2), np.inf))
        elif pos == "wrap0":
            lo = k * TWOPI - rng.uniform(0, w) if w > 0 else k * TWOPI
        elif pos == "neg":
            lo = -rng.uniform(0, 20)
        elif pos == "far":
            lo = rng.choice([-1, 1]) * rng.uniform(50, 1e4)
        else:
            lo = rng.uniform(-8, 8)
        return float(lo), float(lo + w), (wclass, pos)
    if f == "log":
        lo = rng.choice([-1.0, 0.0]) if r < 0.15 else 10 ** rng.uniform(-8, 4)
        return lo, lo + (0.0 if r > 0.9 else 10 ** rng.uniform(-6, 3)), ("dom" if lo <= 0 else "pos", "")
    if f == "sqrt":
        lo = -rng.uniform(0.1, 3) if r < 0.15 else (0.0 if r < 0.3 else 10 ** rng.uniform(-8, 4))
        return lo, lo + (0.0 if r > 0.9 else 10 ** rng.uniform(-6, 3)), ("dom" if lo < 0 else "pos", "")
    kind = rng.randrange(9)
    from check_c01 import sign_class
    a, b = sign_class(rng, kind)
    if f in ("exp", "tanh", "sigmoid"):
        s = rng.choice([1, 1, 20, 60])
        a, b = a * s / 100, b * s / 100      # |x| <= 600: exp stays finite
    return float(a), float(b), (f"class{kind}", "")


def call(f, x, k=None, via="method"):
    from pyuncertainnumber.pba.intervals import methods as M
    from pyuncertainnumber.pba.intervals import activation as A
    if f == "pow":
        return x ** k
    if f == "tanh":
        return M.tanh(x)
    if f == "sigmoid":
        return A.sigmoid(x)
    if via == "ufunc" and f in ("sin", "cos", "tan", "exp", "sqrt", "log"):
        return getattr(np, f)(x)
    return getattr(x, f)()


def run_scalar(f, lo, hi, k=None, via="method"):
    from pyuncertainnumber.pba.intervals.number import Interval as I
    try:
        r = call(f, I(lo, hi), k, via)
        if r is None or type(r).__name__ != "Interval":
            return ("exc", 4, f"returned {type(r).__name__}")
        return ("ok", float(r.lo), float(r.hi))
    except Exception as e:
        return ("exc", EXC.get(type(e).__name__, 9), type(e).__name__ + ": " + str(e)[:60])


def run_vector(f, ivs, k=None):
    from pyuncertainnumber.pba.intervals.number import Interval as I
    try:
        r = call(f, I([a for a, _ in ivs], [b for _, b in ivs]), k)
        if r is None or type(r).__name__ != "Interval":
            return ("exc", 4, f"returned {type(r).__name__}")
        return ("ok", [float(v) for v in np.atleast_1d(r.lo)], [float(v) for v in np.atleast_1d(r.hi)])
    except Exception as e:
        return ("exc", EXC.get(type(e).__name__, 9), type(e).__name__ + ": " + str(e)[:60])


def tables(f, lo, hi, k):
    """library values at the points the model evaluates"""
    with np.errstate(all="ignore"):
        if f in ("sin", "cos"):
            yl, yh = np.float64(lo) % TWOPI, np.float64(hi) % TWOPI
            g = np.sin if f == "sin" else np.cos
            return [(yl, g(yl)), (yh, g(yh))], [(lo, yl), (hi, yh)], []
        if f == "tan":
            zl, zh = np.float64(lo) % np.pi, np.float64(hi) % np.pi
            return [(zl, np.tan(zl)), (zh, np.tan(zh))], [], [(lo, zl), (hi, zh)]
        if f == "exp":
            return [(lo, np.exp(lo)), (hi, np.exp(hi))], [], []
        if f == "log":
            return [(lo, np.log(lo)), (hi, np.log(hi))], [], []
        if f == "tanh":
            a, b = 2 * np.float64(lo), 2 * np.float64(hi)
            return [(a, np.exp(a)), (b, np.exp(b))], [], []
        if f == "sigmoid":
            a, b = -np.float64(hi), -np.float64(lo)
            return [(a, np.exp(a)), (b, np.exp(b))], [], []
        if f == "pow":
            kk = abs(k)
            return [(lo, np.float64(lo) ** kk), (hi, np.float64(hi) ** kk)], [], []
    return [], [], []


def coq_tab(t):
    return coq_list([f"({hexf(a)}, {hexf(b)})" for a, b in t])


def coq_case(f, form, lo, hi, k, out):
    code = CODE.get(f, None)
    if f == "pow":
        code = f"(FPow ({k})%Z)"
    elif form == "v" and f in ("sin", "cos"):
        code += "V"
    t = tables(f, lo, hi, k)
    o = f"FOk {hexf(out[1])} {hexf(out[2])}" if out[0] == "ok" else f"FExc {out[1]}"
    return f"({code}, ({hexf(lo)}, {hexf(hi)}), mkT {coq_tab(t[0])} {coq_tab(t[1])} {coq_tab(t[2])}, {o})"


# ---------------------------------------------------------------------------
def ref(f, x, k):
    if f == "abs":
        return abs(x)
    if f == "sqrt":
        return math.sqrt(x)
    if f == "exp":
        return math.exp(x)
    if f == "log":
        return math.log(x)
    if f == "sin":
        return math.sin(x)
    if f == "cos":
        return math.cos(x)
    if f == "tan":
        return math.tan(x)
    if f == "tanh":
        return math.tanh(x)
    if f == "sigmoid":
        return 1 / (1 + math.exp(-x)) if x > -700 else 0.0
    if f == "pow":
        return float(x) ** k


def has_pole(f, lo, hi, k):
    if f == "tan":
        n0 = math.ceil((lo - PI / 2) / PI)
        return lo <= PI / 2 + n0 * PI <= hi
    if f == "pow" and k < 0:
        return lo <= 0 <= hi
    return False


def oracle(f, lo, hi, k, out, rng):
    """enclosure of densely sampled values (+ analytic extrema); exactness for monotone functions and abs"""
    if f == "log" and lo <= 0 or f == "sqrt" and lo < 0:
        return None if out[0] == "exc" else "argument outside the domain returns a value instead of raising"
    if has_pole(f, lo, hi, k):
        if out[0] == "exc" or (out[1] == -math.inf and out[2] == math.inf):
            return None
        # a pole within one ulp of an endpoint is decided by the rounding of the argument reduction
        if f == "tan":
            n0 = math.ceil((lo - PI / 2) / PI)
            pole = PI / 2 + n0 * PI
            if min(abs(pole - lo), abs(hi - pole)) <= 4 * math.ulp(max(abs(lo), abs(hi), 1.0)):
                return None
        return f"a pole lies in the interval but the result is the bounded interval [{out[1]}, {out[2]}]"
    if out[0] != "ok":
        return f"valid argument raises {out[2]}"
    a, b = out[1], out[2]
    if f == "tan" and a == -math.inf and b == math.inf:
        return None   # unbounded is always an enclosure (poles near the endpoints)
    pts = [lo, hi, (lo + hi) / 2] + [lo + (hi - lo) * rng.random() for _ in range(60)] + [lo + (hi - lo) * i / 200 for i in range(201)]
    if f in ("sin", "cos"):
        n0 = math.ceil(lo / (PI / 2))
        while n0 * (PI / 2) <= hi and len(pts) < 400:
            pts.append(n0 * (PI / 2))
            n0 += 1
    if f in ("abs", "pow") and lo <= 0 <= hi:
        pts.append(0.0)
    for x in pts:
        if not (lo <= x <= hi):
            continue
        try:
            v = ref(f, x, k)
        except (OverflowError, ValueError, ZeroDivisionError):
            continue
        tol = 4 * math.ulp(max(abs(v), 1e-300))
        if f in ("tanh", "sigmoid"):
            tol += 4 * math.ulp(1.0)       # 1 - 2/(1+exp(2x)) and 1/(1+exp(-x)) are evaluated with absolute accuracy ulp(1)
        if f in ("sin", "cos", "tan"):
            d = 1.0 if f != "tan" else 1 + v * v
            tol += 4 * math.ulp(max(abs(x), 1.0)) * d     # the code evaluates f(x mod period): the reduction alone loses ulp(|x|)
        if not (a - tol <= v <= b + tol):
            return f"{f}({x!r}) = {v!r} lies outside the result [{a!r}, {b!r}]"
    if f in ("sin", "cos") and not (-1 <= a and b <= 1):
        return f"result [{a}, {b}] exceeds [-1, 1]"
    if f in ("exp", "log", "sqrt", "tanh", "sigmoid", "abs"):
        # exactly [min f, max f]
        try:
            vals = [ref(f, lo, k), ref(f, hi, k)] + ([0.0] if f == "abs" and lo <= 0 <= hi else [])
        except (OverflowError, ValueError):
            return None
        mn, mx = min(vals), max(vals)
        u = 8 if f in ("tanh", "sigmoid") else 4
        extra = 4 * math.ulp(1.0) if f in ("tanh", "sigmoid") else 0
        if abs(a - mn) > u * math.ulp(max(abs(mn), 1e-300)) + extra or abs(b - mx) > u * math.ulp(max(abs(mx), 1e-300)) + extra:
            return f"monotone function: result [{a!r}, {b!r}] is not [min f, max f] = [{mn!r}, {mx!r}]"
    return None


def body(chk):
    pr = chk.do_proofs()
    rng = chk.rng
    reps = 26 if chk.tier == "quick" else 400
    scalar_cases = []
    for f in FUNS:
        for _ in range(reps * (3 if f in ("sin", "cos", "tan") else 1)):
            lo, hi, tag = gen_interval(rng, f)
            k = rng.randint(-4, 6) if f == "pow" else None
            via = "ufunc" if rng.random() < 0.2 else "method"
            scalar_cases.append((f, lo, hi, k, tag, via))
    items, flat = [], []
    for f, lo, hi, k, tag, via in scalar_cases:
        out = run_scalar(f, lo, hi, k, via)
        chk.count(f"scalar-{f}", key=(f, tag, k, via))
        why = oracle(f, lo, hi, k, out, rng)
        if why:
            chk.report(f"Interval.{f}:scalar", why, {"kind": "oracle", "f": f, "lo": lo, "hi": hi, "k": k, "via": via, "observed": out})
        items.append(coq_case(f, "s", lo, hi, k, out))
        flat.append((f, "s", lo, hi, k, out))
    # array-valued forms: element by element the same as the scalar form
    n_vec = 40 if chk.tier == "quick" else 500
    # the witnesses of the open findings O28-sin / O28-cos, re-examined (and printed while they persist) in every run
    for f in ("sin", "cos"):
        ivs = [(-3 * PI / 2, -3 * PI / 2), (0.0, 1.0)]
        chk.count(f"witness-O28-{f}", key=("O28", f))
        out = run_vector(f, ivs, 0)
        s0 = run_scalar(f, ivs[0][0], ivs[0][1], 0)
        if out[0] == "ok" and s0[0] == "ok" and (out[1][0], out[2][0]) != (s0[1], s0[2]):
            chk.report(f"Interval.{f}:vector:grid-boundary", f"element 0 of the array form is [{out[1][0]!r}, {out[2][0]!r}], the scalar form gives {s0[1:]}",
                       {"kind": "witness", "f": f, "intervals": ivs})
    for i in range(n_vec):
        f = FUNS[i % len(FUNS)]
        if f in ("tanh", "sigmoid") and False:
            continue
        m = rng.randint(2, 6)
        ivs, k = [], (rng.randint(-4, 6) if f == "pow" else None)
        for _ in range(m):
            lo, hi, _ = gen_interval(rng, f)
            if f == "log" and lo <= 0:
                lo = 0.5
                hi = max(hi, 0.5)
            if f == "sqrt" and lo < 0:
                lo = 0.0
                hi = max(hi, 0.0)
            if f == "pow" and k < 0 and lo <= 0 <= hi:
                lo, hi = 0.5 + abs(lo), 0.5 + abs(lo) + abs(hi)
            ivs.append((lo, hi))
        out = run_vector(f, ivs, k)
        chk.count(f"vector-{f}", key=(f, "vec", i))
        rep = {"kind": "oracle", "f": f, "intervals": ivs, "k": k}
        if out[0] != "ok":
            chk.report(f"Interval.{f}:vector", f"array-valued form raises {out[2]}", rep)
            continue
        for j, (lo, hi) in enumerate(ivs):
            s = run_scalar(f, lo, hi, k)
            e = ("ok", out[1][j], out[2][j])
            if s[0] != "ok" or s[1] != e[1] or s[2] != e[2]:
                site = f"Interval.{f}:vector"
                if f in ("sin", "cos", "tan") and s[0] == "ok":
                    # both forms enclose and a reduced endpoint sits on the pi/2 grid: the two case tables resolve the tie differently
                    on_grid = any(abs((v / (PI / 2)) - round(v / (PI / 2))) < 1e-9 for v in (lo, hi))
                    if on_grid and oracle(f, lo, hi, k, e, rng) is None and oracle(f, lo, hi, k, s, rng) is None:
                        site += ":grid-boundary"
                chk.report(site, f"element {j} of the array form is [{e[1]!r}, {e[2]!r}], the scalar form gives {s[1:]}", dict(rep, element=j))
                if not site.endswith("grid-boundary"):
                    break
            items.append(coq_case(f, "v", lo, hi, k, e))
            flat.append((f, "v", lo, hi, k, e))
    # ---- sessions: ONE array-valued Interval object goes through several functions in a row; every result is held and all values are
    # decided only afterwards, element by element, against the oracle for the ORIGINAL endpoints (a function must not change its argument,
    # nor an earlier result)
    from pyuncertainnumber.pba.intervals.number import Interval as _I
    for sn in range(6 if chk.tier == "quick" else 60):
        m = rng.randint(2, 5)
        ivs = []
        for _ in range(m):
            lo = 10 ** rng.uniform(-2, 1)
            ivs.append((lo, lo + 10 ** rng.uniform(-2, 0.7)))            # positive: inside the domain of every function
        # the endpoints reach the constructor in different storage forms: lists, float64 / float32 / integer arrays (same VALUES: the
        # answer is decided against the values, whatever array type carried them in)
        storage = ("list", "float64", "float32", "int64", "int32", "float32")[sn % 6]
        if storage == "float32":
            ivs = [(float(np.float32(a)), float(np.float32(b))) for a, b in ivs]
            ivs = [(a, b if b > a else float(np.nextafter(np.float32(a), np.float32(np.inf)))) for a, b in ivs]
        elif storage.startswith("int"):
            ivs = [(float(a), float(a + rng.randint(1, 6))) for a in (rng.randint(1, 20) for _ in range(m))]
        if storage == "list":
            x = _I([a for a, _ in ivs], [b for _, b in ivs])
        else:
            x = _I(np.array([a for a, _ in ivs], dtype=storage), np.array([b for _, b in ivs], dtype=storage))
        seq = rng.sample(["sin", "cos", "exp", "log", "sqrt", "tanh", "abs", "pow", "sin", "cos"], 5)
        held = []
        for f in seq:
            k = rng.choice([2, 3, -1, -2]) if f == "pow" else None
            try:
                held.append((f, k, call(f, x, k)))
            except Exception as e:
                chk.report(f"Interval.{f}:session", f"step {len(held) + 1} of a sequence of functions applied to ONE array-valued interval raises {type(e).__name__}: {str(e)[:60]}",
                           {"kind": "oracle", "intervals": ivs, "sequence": seq, "endpoint_storage": storage})
                break
        for step, (f, k, r) in enumerate(held):
            chk.count(f"session-{f}", key=("session", sn, step))
            try:
                los, his = [float(v) for v in np.atleast_1d(r.lo)], [float(v) for v in np.atleast_1d(r.hi)]
            except Exception:
                continue
            bad = None
            for j, (lo, hi) in enumerate(ivs):
                why = oracle(f, lo, hi, k, ("ok", los[j], his[j]), rng) if j < len(los) else "missing element"
                if why:
                    bad = (j, why)
                    break
            if bad:
                chk.report(f"Interval.{f}:session", f"step {step + 1} ({f}) of a sequence of functions applied to ONE array-valued interval, values read after the last step: element {bad[0]}: {bad[1]}",
                           {"kind": "oracle", "intervals": ivs, "sequence": seq, "k": k, "endpoint_storage": storage})
                break
    chunks = []
    CH = 300
    for s in range(0, len(items), CH):
        chunks.append(("Definition cases : list fcase := " + coq_list(items[s:s + CH]).replace("; (F", ";\n (F").replace("; ((F", ";\n ((F") +
                       ".\nDefinition verdicts := map fcheck cases.\n", len(items[s:s + CH])))
    exact, rounded, bad, log = vlib.run_coq_cases("C05", chunks, "From PUN Require Import Model.Interval Model.IntervalFun Corr.CorrC05.\n", jobs=12)
    chk.corr = {"cases": len(items), "bit_exact": exact, "rounded": rounded, "disagree": len(bad)}
    if log:
        chk.corr["log"] = log[-600:]
    chk.sample({"f": flat[0][0], "lo": flat[0][2], "hi": flat[0][3], "impl": flat[0][5]})
    chk.sample({"f": flat[130][0], "lo": flat[130][2], "hi": flat[130][3], "impl": flat[130][5]})
    for i in bad[:3]:
        f, form, lo, hi, k, out = flat[i]
        why = oracle(f, lo, hi, k, out, rng)
        chk.report(f"correspondence:{f}:{form}", why or "model and implementation disagree",
                   {"kind": "correspondence", "f": f, "form": form, "lo": lo, "hi": hi, "k": k, "observed": out}, found_input=bool(why))
    if not pr["ok"]:
        if not chk.violations:
            chk.report("proof", "proof obligation no longer checks", chk.proof_broken_replay(), found_input=False)
        else:
            chk.violations[0][0]["proof_broken"] = chk.proof_broken_replay()


RULE = ("scalar cases: abs, sqrt, exp, log, sin, cos, tan, tanh, sigmoid, X**k (k in -4..6), method and numpy-ufunc routes; trigonometric intervals stratified by "
        "width {0, small, <quarter, <half, <period, =period, >period, long} x position of lo {on / just below / just above the pi/2 grid, wrapping through 0 mod 2pi, "
        "negative, far, any}; other functions by the 9 sign classes and domain violations; array forms with 2..6 mixed elements compared element-wise with the scalar form; "
        "every case is compared with the Coq model (libm values as recorded tables) and with a dense-sampling oracle. distinct key = (function, strata, k, route)")
TB = ["hand-written Model/IntervalFun.v (case tables of methods.py sin/cos/tan and their *_vector forms, abs/sqrt/exp/log, tanh, sigmoid, __pow__) tied by the in-Coq run",
      "numpy sin/cos/tan/exp/log/power and the float remainder enter the run as recorded tables (oracles); numpy.pi as the binary64 literal",
      "sin/cos/tan case tables for intervals shorter than a period are not Coq theorems yet: differential run + dense sampling only",
      "sampling tolerance: 4 ulp of the value plus 4 ulp(|x|) |f'| for the argument reduction"]

if __name__ == "__main__":
    chk = vlib.main_wrapper("C05", body)
    sys.exit(chk.finish(rule=RULE, trusted_base=TB))
