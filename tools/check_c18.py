#!/venv/bin/python
"""C18 - p-box queries (alpha-cut, cdf, discretisation, prediction interval) match the bounds."""
import math
import os
import sys

sys.path.insert(0, os.path.dirname(os.path.abspath(__file__)))
import vlib
import pbx
from pbx import np, coq_pb, flist
from vlib import coq_list, hexf


def grid():
    from pyuncertainnumber.pba.params import Params
    return np.array(Params.p_values, dtype=float)


def nearest_ref(g, a):
    """independent reference: first index of the minimal |g - a| (exact comparison of float distances)"""
    best, bi = None, 0
    for i, v in enumerate(g):
        d = abs(v - a)
        if best is None or d < best:
            best, bi = d, i
    return bi


def gen_queries(chk, X, tier):
    rng = chk.rng
    g = grid()
    n = len(g)
    L, R = X
    qs = []
    levels = [0.0, 1.0, float(g[0]), float(g[-1]), 0.5, 0.0005, 0.9995, float(g[rng.randrange(n)])]
    k = rng.randrange(n - 1)
    levels += [(float(g[k]) + float(g[k + 1])) / 2, rng.random(), rng.random() * 0.002, 1 - rng.random() * 0.002,
               float(np.nextafter((g[k] + g[k + 1]) / 2, 1)), float(np.nextafter((g[k] + g[k + 1]) / 2, 0))]
    for a in levels[: (8 if tier == "quick" else 14)]:
        qs.append(("acut", a))
    qs.append(("acuts", [rng.random() for _ in range(5)] + [0.0, 1.0]))
    xs = [L[0] - 1.0, R[-1] + 1.0, L[0], R[-1], (L[0] + R[-1]) / 2, L[rng.randrange(n)], R[rng.randrange(n)],
          rng.uniform(L[0], R[-1])]
    for x in xs[: (5 if tier == "quick" else 8)]:
        qs.append(("cdf", float(x)))
    for m in [200, rng.choice([2, 3, 5]), rng.randint(6, 60), rng.choice([100, 199, 150])]:
        qs.append(("disc", m))
    for m in [None, 2, rng.randint(3, 12), rng.randint(13, 200)]:
        qs.append(("outer", m))
    for m in [rng.choice([2, 3, 4, 5]), rng.randint(6, 50)] + ([rng.randint(51, 200)] if tier != "quick" else []):
        qs.append(("cond", m))
    alphas = [0.95, 0.5, 0.1, rng.random(), 0.0, 0.99]
    # coverage levels at which the two alpha-cuts of the narrowest prediction interval just touch (right bound at the lower level == left bound at
    # the upper level): the narrowest interval exists there and is the single point
    touching = [i for i in range(n // 2) if R[i] == L[n - 1 - i]]
    for i in (rng.sample(touching, 2) if len(touching) > 2 else touching):
        alphas.append(1 - 2 * float(g[i]))
    for alpha in alphas:
        qs.append(("pi", alpha, True))
        qs.append(("pi", alpha, False))
    return qs


def run_query(p, q):
    try:
        if q[0] == "acut":
            r = p.alpha_cut(q[1])
            return ("pair", float(r.lo), float(r.hi))
        if q[0] == "acuts":
            r = p.alpha_cut(np.array(q[1]))
            return ("pairs", [float(v) for v in r.lo], [float(v) for v in r.hi])
        if q[0] == "cdf":
            r = p.cdf(q[1])
            return ("pair", float(r.lo), float(r.hi))
        if q[0] == "disc":
            r = p.discretise(q[1])
            return ("pairs", [float(v) for v in np.atleast_1d(r.lo)], [float(v) for v in np.atleast_1d(r.hi)])
        if q[0] == "outer":
            r = p.outer_discretisation(q[1])
            return ("pairs", [float(v) for v in np.atleast_1d(r.lo)], [float(v) for v in np.atleast_1d(r.hi)])
        if q[0] == "cond":
            r = p.condensation(q[1])
            return ("box", [float(v) for v in r.left], [float(v) for v in r.right])
        if q[0] == "pi":
            r = p.get_PI(alpha=q[1], style="widest" if q[2] else "narrowest")
            return ("pair", float(r.lo), float(r.hi))
    except Exception as e:
        return ("exc", pbx.exc_code(e), type(e).__name__ + ": " + str(e)[:80])


def coq_query(q):
    if q[0] == "acut":
        return f"QAcut {hexf(q[1])}"
    if q[0] == "acuts":
        return f"QAcuts {flist(q[1])}"
    if q[0] == "cdf":
        return f"QCdf {hexf(q[1])}"
    if q[0] == "disc":
        return f"QDisc {q[1]}%nat"
    if q[0] == "outer":
        return "QOuter None" if q[1] is None else f"QOuter (Some {q[1]}%nat)"
    if q[0] == "cond":
        return f"QCond {q[1]}%nat"
    return f"QPI {hexf(q[1])} {'true' if q[2] else 'false'}"


def coq_qout(o):
    if o[0] == "pair":
        return f"QPair {hexf(o[1])} {hexf(o[2])}"
    if o[0] == "pairs":
        return "QPairs " + coq_list([f"({hexf(a)}, {hexf(b)})" for a, b in zip(o[1], o[2])])
    if o[0] == "box":
        return f"QBox {flist(o[1])} {flist(o[2])}"
    return f"QExc {o[1]}"


def oracle(X, q, o, pis):
    """property-level checks against an independent reference"""
    g = grid()
    L, R = np.array(X[0]), np.array(X[1])
    n = len(g)
    if q[0] in ("acut", "acuts"):
        levels = [q[1]] if q[0] == "acut" else q[1]
        if o[0] == "exc":
            return f"alpha_cut raises {o[2]}"
        los = [o[1]] if q[0] == "acut" else o[1]
        his = [o[2]] if q[0] == "acut" else o[2]
        for a, lo, hi in zip(levels, los, his):
            i = nearest_ref(g, a)
            if lo != L[i] or hi != R[i]:
                return f"alpha_cut({a!r}) = [{lo!r}, {hi!r}] but the bounds at the nearest grid level {g[i]!r} (index {i}) are [{L[i]!r}, {R[i]!r}]"
    elif q[0] == "cdf":
        x = q[1]
        if o[0] == "exc":
            return f"cdf({x!r}) raises {o[2]}"
        if not (0 <= o[1] <= o[2] <= 1):
            return f"cdf({x!r}) = [{o[1]}, {o[2]}] is not an ordered probability interval"
        # inverse within one grid step: the alpha-cut at the reported probability is a bound value nearest to x
        ih = nearest_ref(g, o[2])
        il = nearest_ref(g, o[1])
        dl = np.abs(L - x).min()
        dr = np.abs(R - x).min()
        if abs(L[ih] - x) > dl or abs(R[il] - x) > dr:
            return f"cdf({x!r}) and alpha_cut are not inverse within one grid step"
    elif q[0] == "disc":
        m = q[1]
        if o[0] == "exc":
            return f"discretise({m}) raises {o[2]}"
        if m == n:
            if o[1] != list(L) or o[2] != list(R):
                return "discretise(native count) does not return the focal intervals themselves"
        else:
            if len(o[1]) != m:
                return f"discretise({m}) returns {len(o[1])} intervals"
            lv = np.linspace(g[0], g[-1], m)
            for a, lo, hi in zip(lv, o[1], o[2]):
                i = nearest_ref(g, a)
                if lo != L[i] or hi != R[i]:
                    return f"discretise({m}): interval at level {a!r} is not the alpha-cut at the nearest grid level"
    elif q[0] == "outer":
        m = q[1]
        if o[0] == "exc":
            return f"outer_discretisation({m}) raises {o[2]}"
        lv = g if m is None else np.linspace(g[0], g[-1], m)
        if len(o[1]) != len(lv) - 1:
            return f"outer_discretisation({m}) returns {len(o[1])} intervals, expected {len(lv) - 1}"
        for k in range(len(lv) - 1):
            i0, i1 = nearest_ref(g, lv[k]), nearest_ref(g, lv[k + 1])
            # contains all alpha-cuts of its probability band
            if o[1][k] > L[i0:i1 + 1].min() or o[2][k] < R[i0:i1 + 1].max():
                return f"outer interval {k} [{o[1][k]!r}, {o[2][k]!r}] does not contain the alpha-cuts of its band (grid indices {i0}..{i1})"
    elif q[0] == "cond":
        if o[0] == "exc":
            return f"condensation({q[1]}) raises {o[2]}"
        why = pbx.wf_problem(o[1], o[2], n)
        if why:
            return "condensation: ill-formed result: " + why
        l, r = np.array(o[1]), np.array(o[2])
        if (l > L).any() or (r < R).any():
            k = int(np.argmax((l > L) | (r < R)))
            return f"condensation({q[1]}) does not contain the original p-box at step {k}: [{l[k]!r},{r[k]!r}] vs [{L[k]!r},{R[k]!r}]"
    elif q[0] == "pi":
        if o[0] == "exc":
            return f"get_PI({q[1]}, {'widest' if q[2] else 'narrowest'}) raises {o[2]}"
        pis.append((q[1], q[2], o[1], o[2]))
    return None


def pi_relations(chk, X, pis, site_prefix):
    wid = sorted((a, lo, hi) for a, w, lo, hi in pis if w)
    nar = sorted((a, lo, hi) for a, w, lo, hi in pis if not w)
    for (a, lo, hi), (a2, lo2, hi2) in zip(wid, nar):
        if lo > lo2 or hi2 > hi:
            chk.report(site_prefix + "get_PI:contains", f"widest PI [{lo},{hi}] does not contain narrowest [{lo2},{hi2}] at coverage {a}", {"kind": "oracle", "X": X, "alpha": a})
    g = grid()

    def exists(a):
        """the narrowest interval exists at coverage a: the two alpha-cuts (own nearest-level reference) do not overlap, touching included"""
        lo_level = (1 - a) / 2
        return X[1][nearest_ref(g, lo_level)] <= X[0][nearest_ref(g, 1 - lo_level)]
    for seq, name in ((wid, "widest"), (nar, "narrowest")):
        for (a1, lo1, hi1), (a2, lo2, hi2) in zip(seq, seq[1:]):
            if lo2 > lo1 or hi2 < hi1:
                # where the narrowest interval does not exist the library answers with the widest (open finding O24, its own site); a failure between
                # two coverage levels at which it does exist is a different matter
                both = name == "narrowest" and exists(a1) and exists(a2)
                chk.report(site_prefix + f"get_PI:{name}:monotone" + ("-where-it-exists" if both else ""),
                           f"{name} PI is not monotone in the coverage level: {a1} -> [{lo1},{hi1}], {a2} -> [{lo2},{hi2}]" + (" (the narrowest interval exists at both levels)" if both else ""),
                           {"kind": "oracle", "X": X, "alpha": [a1, a2], "style": name})
                break


def body(chk):
    from pyuncertainnumber.pba.pbox_abc import Staircase
    pbx.patch_fast_moments()
    pr = chk.do_proofs()
    rng = chk.rng
    n_boxes = 12 if chk.tier == "quick" else 120
    cases = []
    # the witnesses of the open findings, so that each is re-examined (and printed while it persists) in every run
    from pyuncertainnumber import pba
    chk.count("witness-O24", key="O24")
    try:
        w = pba.normal([4, 5], [1, 2])
        a1, a2 = w.get_PI(0.1, "narrowest"), w.get_PI(0.5, "narrowest")
        if float(a2.lo) > float(a1.lo) or float(a2.hi) < float(a1.hi):
            chk.report("Pbox.get_PI:narrowest:monotone", f"narrowest PI is not monotone in the coverage level: 0.1 -> [{float(a1.lo)},{float(a1.hi)}], 0.5 -> [{float(a2.lo)},{float(a2.hi)}]",
                       {"kind": "witness", "call": "pba.normal([4,5],[1,2]).get_PI(alpha, 'narrowest') for alpha in (0.1, 0.5)"})
    except Exception as e:
        chk.report("Pbox.get_PI:narrowest:monotone", f"narrowest PI is not monotone: raises {type(e).__name__}", {"kind": "witness"})
    chk.count("witness-O25", key="O25")
    try:
        Staircase(np.concatenate([np.linspace(0, 1, 100), np.repeat(1.0, 100)]), np.linspace(1, 3, 200)).cdf(5.0)
    except AssertionError:
        chk.report("Pbox.cdf", "cdf(5.0) raises AssertionError for a p-box whose left bound is flat at the top", {"kind": "witness",
                   "call": "Staircase(concatenate([linspace(0,1,100), repeat(1.,100)]), linspace(1,3,200)).cdf(5.0)"})
    chk.count("witness-O27", key="O27")
    try:
        pba.normal([4, 5], 1).condensation(2)
    except AssertionError as e:
        chk.report("Pbox.cond", f"condensation(2) raises AssertionError: {str(e)[:60]}", {"kind": "witness", "call": "pba.normal([4,5],1).condensation(2)"})
    for b in range(n_boxes):
        kind = (pbx.KINDS + pbx.TOUCH)[b % (len(pbx.KINDS) + len(pbx.TOUCH))]
        X = pbx.gen_bounds(rng, 200, kind, dy=rng.random() < 0.5)
        if b % 7 == 3:
            # plateaus on a common lattice, as stacking binned / touching interval data gives: bounds of different levels coincide exactly
            kind = "binned"
            bw, w, c0 = rng.choice([20, 25, 40, 50]), rng.choice([1, 2, 3, 4]), float(rng.randint(-5, 5))
            X = ([c0 + (k // bw) for k in range(200)], [c0 + (k // bw) + w for k in range(200)])
        p = Staircase(np.array(X[0]), np.array(X[1]))
        pis = []
        touched = None
        if b % 3 == 1:      # the public attributes and properties of the p-box are read first (mean, var, support, enclosed_area, ...): no answer may change
            touched = pbx.touch_public(p)
            chk.count("attributes-read-first", key=("touch", b))
        for q in gen_queries(chk, X, chk.tier):
            o = run_query(p, q)
            cases.append((X, q, o, kind))
            chk.count(f"{q[0]}", key=(q[0], kind, str(q[1:])[:40]))
            why = oracle(X, q, o, pis)
            if why:
                chk.report(f"Pbox.{q[0]}", why, {"kind": "oracle", "X": X, "query": q, "observed": o if o[0] in ("pair", "exc") else o[0],
                                                 "attributes_read_before_the_query (this p-box, or an earlier one in the same process)": touched or "see earlier boxes: b % 3 == 1"})
        pi_relations(chk, X, pis, "Pbox.")
    # correspondence: group the queries of one p-box in one file (the p-box literal is written once)
    chunks = []
    by_box = {}
    for X, q, o, kind in cases:
        by_box.setdefault(id(X), (X, []))[1].append((q, o))
    flat = []
    for X, lst in by_box.values():
        items = [f"({coq_query(q)}, pb, {coq_qout(o)})" for q, o in lst]
        flat.extend((X, q, o) for q, o in lst)
        chunks.append((f"Definition pb := {coq_pb(*X)}.\nDefinition cases : list qcase := " + coq_list(items).replace("; (Q", ";\n (Q") +
                       ".\nDefinition verdicts := map qcheck cases.\n", len(items)))
    exact, rounded, bad, log = vlib.run_coq_cases("C18", chunks, "From PUN Require Import Model.Interval Model.PboxArith Corr.CorrPbox Corr.CorrC18.\n", jobs=14)
    chk.corr = {"cases": len(flat), "bit_exact": exact, "rounded": rounded, "disagree": len(bad)}
    if log:
        chk.corr["log"] = log[-600:]
    chk.sample({"query": cases[0][1], "kind": cases[0][3], "impl": cases[0][2]})
    chk.sample({"query": cases[9][1], "impl": cases[9][2] if cases[9][2][0] in ("pair", "exc") else cases[9][2][0]})
    for i in bad[:3]:
        X, q, o = flat[i]
        why = oracle(X, q, o, [])
        chk.report(f"correspondence:{q[0]}", why or "model and implementation disagree", {"kind": "correspondence", "X": X, "query": q, "observed": o if o[0] in ("pair", "exc") else o[0], "coq_log": log[-300:]}, found_input=bool(why))
    if not pr["ok"]:
        if not chk.violations:
            chk.report("proof", "proof obligation no longer checks", chk.proof_broken_replay(), found_input=False)
        else:
            chk.violations[0][0]["proof_broken"] = chk.proof_broken_replay()


RULE = ("p-boxes of 200 steps of every kind (incl. partially degenerate); queries: alpha_cut at levels 0, 1, grid points, midpoints and their float "
        "neighbours, random and array levels; cdf inside/outside/at the ends of the support; discretise (native and other counts); outer_discretisation "
        "(default grid and m pieces); condensation; get_PI widest/narrowest at several coverages; compared bit-exactly with the Coq model and with an "
        "independent nearest-level reference. distinct key = (query kind, p-box kind, arguments)")
TB = ["hand-written Model/Pbox.v (find_nearest, alpha_cut, cdf, discretise, outer_discretisation, condensation via stacking, get_PI) tied by the in-Coq run",
      "np.linspace modelled as i*step+a with the last element forced to b",
      "condensation contains the original p-box: theorem C18_condensation_contains over the reals for every n >= 3 (uses the translated constants 0.001 / 0.999 / 200); floating-point ties at band edges are covered by the oracle only",
      "Staircase moments use the ECDF fallback in the harness process (LP disabled for speed)"]

if __name__ == "__main__":
    chk = vlib.main_wrapper("C18", body)
    sys.exit(chk.finish(rule=RULE, trusted_base=TB))
