#!/bin/sh
# usage: tools/run_seeds.sh [names...]   -- applies each seeded/<name>/patch.diff to /repo, runs the property's quick check, undoes it;
# writes seeded/<name>/result.json {applies, demo_clean, demo_seeded, check_exit, violations, proof_ok}
cd /verif
[ -z "$(git -C /repo status --porcelain)" ] || { echo "/repo not clean"; exit 2; }
names=${*:-$(ls seeded)}
for n in $names; do
  d=/verif/seeded/$n
  id=$(/venv/bin/python -c "import json;print(json.load(open('$d/meta.json'))['property'])")
  if [ -n "$SKIP_DEMO" ] && [ -f $d/result.json ]; then   # reuse the demo outcomes recorded earlier (the demos take up to two minutes each)
    dc=$(/venv/bin/python -c "import json;print(json.load(open('$d/result.json')).get('demo_exit_unchanged',0))")
  else
    (cd /tmp && PYTHONPATH=/repo/src MPLBACKEND=Agg timeout 900 /venv/bin/python $d/demo.py >/dev/null 2>&1); dc=$?
  fi
  if git -C /repo apply --check $d/patch.diff 2>/dev/null; then
    git -C /repo apply $d/patch.diff
    cp evidence/$id.json /tmp/evidence_$id.keep 2>/dev/null
    if [ -n "$SKIP_DEMO" ] && [ -f $d/result.json ]; then
      ds=$(/venv/bin/python -c "import json;print(json.load(open('$d/result.json')).get('demo_exit_seeded',1))")
    else
      (cd /tmp && PYTHONPATH=/repo/src MPLBACKEND=Agg timeout 900 /venv/bin/python $d/demo.py >/dev/null 2>&1); ds=$?
    fi
    tf=$(/venv/bin/python -c "import json;print(json.dumps(json.load(open('$d/result.json')).get('repo_test_failures_with_change')))" 2>/dev/null || echo null); [ -z "$tf" ] && tf=null   # keep an earlier test-suite result
    if [ -n "$RUN_TESTS" ]; then   # the repository's own suite on the changed tree (failures other than the known flake tests/test_fit.py::test_mom)
      tf=$(cd /repo && MPLBACKEND=Agg timeout 1800 /venv/bin/python -m pytest -q -p no:cacheprovider --timeout=900 2>&1 | grep -E "^FAILED|^ERROR" | grep -vc "test_fit.py::test_mom")
      find /repo -name __pycache__ -type d -prune -exec rm -rf {} + 2>/dev/null
    fi
    out=$(./check $id quick 2>&1); rc=$?
    git -C /repo checkout -- .
    [ -f /tmp/evidence_$id.keep ] && mv /tmp/evidence_$id.keep evidence/$id.json   # evidence must come from the unchanged tree
    nv=$(echo "$out" | grep -c '^VIOLATION')
    nfi=$(echo "$out" | grep '^VIOLATION' | grep -vc 'no-failing-input-found')
    pok=$(echo "$out" | grep -o 'proof_ok=[A-Za-z]*' | tail -1)
    echo "{\"seed\": \"$n\", \"property\": \"$id\", \"applies\": true, \"demo_exit_unchanged\": $dc, \"demo_exit_seeded\": $ds, \"repo_test_failures_with_change\": $tf, \"check\": \"./check $id quick\", \"check_exit\": $rc, \"violation_lines\": $nv, \"with_concrete_input\": $nfi, \"$(echo $pok | cut -d= -f1)\": \"$(echo $pok | cut -d= -f2)\"}" > $d/result.json
  else
    echo "{\"seed\": \"$n\", \"property\": \"$id\", \"applies\": false}" > $d/result.json
  fi
  cat $d/result.json
done
/venv/bin/python tools/setup.py >/dev/null 2>&1   # Gen/*.v and .vo files back to the unchanged tree
[ -z "$(git -C /repo status --porcelain)" ] && echo "repo clean"
