"""Fail-closed translator: pba/pbox_free.py  min_mean, mean_std, pos_mean_std, min_max_mean  ->  Gen/GenFree.v

Each of these constructors builds two Python lists by comprehensions over probability grids and hands them to Staircase.
Recognised statements
    NAME = GRID                         GRID ::= np.array(GRID) | GRID + GRID | [E, ...] | [E for v in range(A, B)]
    NAME = [E for v in NAME]            (map over a named grid; E may use  X if C else Y, max((a, b)), min((a, b)), np.sqrt)
    NAME = E                            (a scalar)
    return Staircase(left=L, right=R, ...)     L, R ::= NAME | np.array(NAME) | np.repeat(E, len(NAME))
Everything else aborts.  The generated functions are generic over Num and return the (left, right) lists given to the constructor.
Python semantics kept: int / int is true division; max((a, b)) returns a unless b > a; min((a, b)) returns a unless b < a.
"""
import ast


class Unsupported(Exception):
    pass


FUNCS = {"min_mean": ["minimum", "mean"], "mean_std": ["mean", "std"], "pos_mean_std": ["mean", "std"], "min_max_mean": ["minimum", "maximum", "mean"]}


class Tr:
    def __init__(self, scalars):
        self.scalars = set(scalars)      # names of type N
        self.nats = {"steps"}
        self.lists = {}                  # name -> gallina term (list N)
        self.loopvars = {}               # name -> 'nat' | 'N'

    def num(self, node):
        """expression of type N"""
        if isinstance(node, ast.Constant) and type(node.value) is int:
            return f"(nofZ N ({node.value})%Z)"
        if isinstance(node, ast.Name):
            if node.id in self.loopvars:
                return f"(nofZ N (Z.of_nat {node.id}))" if self.loopvars[node.id] == "nat" else node.id
            if node.id in self.scalars:
                return node.id
            if node.id in self.nats:
                return f"(nofZ N (Z.of_nat {node.id}))"
            raise Unsupported("name " + node.id)
        if isinstance(node, ast.BinOp):
            op = {ast.Add: "nadd", ast.Sub: "nsub", ast.Mult: "nmul", ast.Div: "ndiv"}.get(type(node.op))
            if op is None:
                raise Unsupported("operator " + ast.unparse(node))
            return f"({op} N {self.num(node.left)} {self.num(node.right)})"
        if isinstance(node, ast.UnaryOp) and isinstance(node.op, ast.USub):
            return f"(nopp N {self.num(node.operand)})"
        if isinstance(node, ast.Call):
            f = ast.unparse(node.func)
            if f == "np.sqrt" and len(node.args) == 1:
                return f"(nsqrt N {self.num(node.args[0])})"
            if f in ("max", "min") and len(node.args) == 1 and isinstance(node.args[0], ast.Tuple) and len(node.args[0].elts) == 2:
                a, b = (self.num(e) for e in node.args[0].elts)
                test = f"nltb N {a} {b}" if f == "max" else f"nltb N {b} {a}"
                return f"(if {test} then {b} else {a})"
            raise Unsupported("call " + ast.unparse(node))
        if isinstance(node, ast.IfExp):
            return f"(if {self.cond(node.test)} then {self.num(node.body)} else {self.num(node.orelse)})"
        raise Unsupported("expression " + ast.unparse(node))

    def cond(self, node):
        if isinstance(node, ast.Compare) and len(node.ops) == 1:
            a, b = self.num(node.left), self.num(node.comparators[0])
            if isinstance(node.ops[0], ast.LtE):
                return f"nleb N {a} {b}"
            if isinstance(node.ops[0], ast.Lt):
                return f"nltb N {a} {b}"
        raise Unsupported("condition " + ast.unparse(node))

    def nat(self, node):
        if isinstance(node, ast.Constant) and type(node.value) is int and node.value >= 0:
            return str(node.value)
        if isinstance(node, ast.Name) and node.id in self.nats:
            return node.id
        if isinstance(node, ast.BinOp) and isinstance(node.op, (ast.Add, ast.Sub)):
            return f"({self.nat(node.left)} {'+' if isinstance(node.op, ast.Add) else '-'} {self.nat(node.right)})"
        raise Unsupported("nat expression " + ast.unparse(node))

    def grid(self, node):
        """expression of type list N"""
        if isinstance(node, ast.Call) and ast.unparse(node.func) == "np.array" and len(node.args) == 1:
            return self.grid(node.args[0])
        if isinstance(node, ast.BinOp) and isinstance(node.op, ast.Add):
            return f"({self.grid(node.left)} ++ {self.grid(node.right)})"
        if isinstance(node, ast.List):
            return "[" + "; ".join(self.num(e) for e in node.elts) + "]"
        if isinstance(node, ast.Name) and node.id in self.lists:
            return node.id
        if isinstance(node, ast.ListComp) and len(node.generators) == 1 and not node.generators[0].ifs:
            g = node.generators[0]
            if not isinstance(g.target, ast.Name):
                raise Unsupported("comprehension target")
            v = g.target.id
            it = g.iter
            if isinstance(it, ast.Call) and ast.unparse(it.func) == "range" and len(it.args) in (1, 2):
                a, b = ("0", self.nat(it.args[0])) if len(it.args) == 1 else (self.nat(it.args[0]), self.nat(it.args[1]))
                self.loopvars[v] = "nat"
                body = self.num(node.elt)
                del self.loopvars[v]
                return f"(map (fun {v} : nat => {body}) (seq {a} ({b} - {a})))"
            if isinstance(it, ast.Name) and it.id in self.lists:
                self.loopvars[v] = "N"
                body = self.num(node.elt)
                del self.loopvars[v]
                return f"(map (fun {v} : N => {body}) {it.id})"
        raise Unsupported("grid " + ast.unparse(node)[:80])

    def array_arg(self, node):
        if isinstance(node, ast.Call) and ast.unparse(node.func) == "np.repeat" and len(node.args) == 2:
            ln = node.args[1]
            if isinstance(ln, ast.Call) and ast.unparse(ln.func) == "len" and isinstance(ln.args[0], ast.Name) and ln.args[0].id in self.lists:
                return f"(repeat {self.num(node.args[0])} (length {ln.args[0].id}))"
        return self.grid(node)


def translate_fn(fn, params):
    names = [a.arg for a in fn.args.args]
    if names[:len(params)] != params or names[len(params):] not in ([], ["steps"]):
        raise Unsupported(f"{fn.name}: signature {names}")
    tr = Tr(params)
    lets = []
    ret = None
    for st in fn.body:
        if isinstance(st, ast.Expr) and isinstance(st.value, ast.Constant):
            continue
        if isinstance(st, ast.Assign) and len(st.targets) == 1 and isinstance(st.targets[0], ast.Name):
            name = st.targets[0].id
            try:
                term = tr.grid(st.value)
                tr.lists[name] = term
                lets.append((name, "list N", term))
            except Unsupported:
                term = tr.num(st.value)
                tr.scalars.add(name)
                lets.append((name, "N", term))
            continue
        if isinstance(st, ast.Return) and isinstance(st.value, ast.Call) and ast.unparse(st.value.func) == "Staircase" and not st.value.args:
            kw = {k.arg: k.value for k in st.value.keywords}
            if "left" not in kw or "right" not in kw or set(kw) - {"left", "right", "mean", "var", "steps"}:
                raise Unsupported(f"{fn.name}: Staircase keywords {sorted(kw)}")
            ret = (tr.array_arg(kw["left"]), tr.array_arg(kw["right"]))
            continue
        raise Unsupported(f"{fn.name}: statement {ast.unparse(st)[:80]}")
    if ret is None:
        raise Unsupported(f"{fn.name}: no return Staircase(...)")
    body = "".join(f"  let {n} : {t} := {term} in\n" for n, t, term in lets) + f"  ({ret[0]}, {ret[1]})."
    return f"Definition free_{fn.name} (N : Num) (steps : nat) ({' '.join(params)} : N) : list N * list N :=\n{body}\n"


# ---------- min_max_median: np.where over the default probability grid ----------
def float_const(node):
    """a float literal as an exact decimal: nofdec N mantissa exponent"""
    if isinstance(node, ast.Constant) and type(node.value) in (int, float):
        from decimal import Decimal
        d = Decimal(repr(node.value))
        sign, digits, exp = d.as_tuple()
        if sign or exp > 0:
            raise Unsupported("constant " + repr(node.value))
        m = int("".join(map(str, digits)))
        return f"(nofdec N ({m})%Z {-exp}%nat)"
    raise Unsupported("constant " + ast.unparse(node))


DEAD_OK = ("p_minmax.alpha_cut(0.5)", "p_minmax.left.copy()", "steps // 2")


def translate_median(fn):
    names = [a.arg for a in fn.args.args]
    if names != ["minimum", "maximum", "median", "steps"]:
        raise Unsupported(f"min_max_median: signature {names}")
    body = [s for s in fn.body if not (isinstance(s, ast.Expr) and isinstance(s.value, ast.Constant))]
    if not body or ast.unparse(body[0]) != "if minimum == maximum:\n    return min_max(minimum, maximum)":
        raise Unsupported("min_max_median: degenerate branch " + ast.unparse(body[0])[:80])
    grid_name, wheres, ret, dead = None, {}, None, set()
    scal = {"minimum", "maximum", "median"}
    for st in body[1:]:
        if isinstance(st, ast.Assign) and len(st.targets) == 1 and isinstance(st.targets[0], ast.Name):
            name, rhs = st.targets[0].id, ast.unparse(st.value)
            if rhs == "I(minimum, maximum).to_pbox()":
                grid_name = name
                continue
            if rhs in DEAD_OK:
                dead.add(name)           # never used below (checked at the end)
                continue
            v = st.value
            if (isinstance(v, ast.Call) and ast.unparse(v.func) == "np.where" and len(v.args) == 3 and not v.keywords
                    and isinstance(v.args[0], ast.Compare) and len(v.args[0].ops) == 1
                    and ast.unparse(v.args[0].left) == f"{grid_name}.p_values"
                    and all(isinstance(a, ast.Name) and a.id in scal for a in v.args[1:])):
                c = float_const(v.args[0].comparators[0])
                op = type(v.args[0].ops[0])
                test = {ast.Lt: f"nltb N p {c}", ast.LtE: f"nleb N p {c}", ast.Gt: f"nltb N {c} p", ast.GtE: f"nleb N {c} p"}.get(op)
                if test is None:
                    raise Unsupported("min_max_median: comparison " + rhs)
                wheres[name] = f"(map (fun p : N => if {test} then {v.args[1].id} else {v.args[2].id}) pvals)"
                continue
            raise Unsupported("min_max_median: statement " + ast.unparse(st)[:80])
        if isinstance(st, ast.Return) and isinstance(st.value, ast.Call) and ast.unparse(st.value.func) == "Staircase" and not st.value.args:
            kw = {k.arg: k.value for k in st.value.keywords}
            if set(kw) - {"left", "right", "mean", "var", "steps"} or not {"left", "right"} <= set(kw):
                raise Unsupported(f"min_max_median: Staircase keywords {sorted(kw)}")
            l, r = ast.unparse(kw["left"]), ast.unparse(kw["right"])
            if l not in wheres or r not in wheres:
                raise Unsupported("min_max_median: bounds " + l + ", " + r)
            ret = (wheres[l], wheres[r])
            continue
        raise Unsupported("min_max_median: statement " + ast.unparse(st)[:80])
    if ret is None or grid_name is None:
        raise Unsupported("min_max_median: no return Staircase(...)")
    used = {n.id for st in body[1:] for n in ast.walk(st) if isinstance(n, ast.Name) and isinstance(n.ctx, ast.Load)}
    if dead & used:
        raise Unsupported(f"min_max_median: {sorted(dead & used)} is used")
    return ("(* None: minimum == maximum, delegated to min_max; pvals: the default probability grid (p_values of any Staircase) *)\n"
            "Definition free_min_max_median (N : Num) (pvals : list N) (minimum maximum median : N) : option (list N * list N) :=\n"
            f"  if neqb N minimum maximum then None else Some ({ret[0]},\n    {ret[1]}).\n")


def translate(path):
    tree = ast.parse(open(path).read())
    fns = {n.name: n for n in tree.body if isinstance(n, ast.FunctionDef)}
    out = [f"(* generated by tools/translate_free.py from {path}; do not edit *)", "From Coq Require Import List ZArith.",
           "From PUN Require Import Base.Num.", "Import ListNotations.", ""]
    for name, params in FUNCS.items():
        if name not in fns:
            raise Unsupported(name + " not found")
        out.append(translate_fn(fns[name], params))
    if "min_max_median" not in fns:
        raise Unsupported("min_max_median not found")
    out.append(translate_median(fns["min_max_median"]))
    # mean_var and max_mean are thin wrappers
    for name, expect in (("mean_var", "return mean_std(mean, np.sqrt(var))"), ("max_mean", "return min_mean(-maximum, -mean).__neg__()")):
        body = [ast.unparse(s) for s in fns[name].body if not (isinstance(s, ast.Expr) and isinstance(s.value, ast.Constant))]
        if body != [expect]:
            raise Unsupported(f"{name}: {body}")
    return "\n".join(out)


if __name__ == "__main__":
    import sys
    print(translate(sys.argv[1]))
