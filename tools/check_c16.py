#!/venv/bin/python
"""C16 - the ambient dependency setting is scoped, restored and isolated.

Real threads and asyncio tasks are driven, one event at a time, through schedules chosen by the harness;
after every event the worker reports get_current_dependency(). The Coq model (Model/Ctx.v) replays the same history."""
import asyncio
import itertools
import os
import queue
import sys
import threading

sys.path.insert(0, os.path.dirname(os.path.abspath(__file__)))
import vlib
import pbx
from pbx import np
from vlib import coq_list

CODES = ["f", "p", "o", "i", "z"]     # 'z' is an unknown dependency code
COQ_D = {"f": "DepF", "p": "DepP", "o": "DepO", "i": "DepI", "z": "DepUnknown"}
OBS = {c: k for k, c in enumerate(CODES)}


class Worker:
    """executes the events of one execution context inside that context"""

    def __init__(self, ops):
        self.blocks = {}
        self.ops = ops

    def do(self, cmd):
        from pyuncertainnumber.pba.context import dependency, get_current_dependency
        kind = cmd[0]
        extra = None
        try:
            if kind == "enter":
                _, b, d, style = cmd
                if style == "with":
                    cm = dependency(d)
                    cm.__enter__()
                    self.blocks[b] = ("with", cm)
                else:
                    def gen(dd):
                        with dependency(dd):
                            yield 1
                            yield 2
                    it = gen(d)
                    next(it)
                    self.blocks[b] = ("gen", it)
            elif kind == "exit":
                _, b, how = cmd
                style, obj = self.blocks.pop(b)
                if style == "gen":
                    obj.close()                      # early return from a generator: GeneratorExit inside the block
                elif how == "raise":
                    try:
                        raise KeyError("boom")
                    except KeyError as e:
                        obj.__exit__(type(e), e, e.__traceback__)   # what `with` does when the body raises
                else:
                    obj.__exit__(None, None, None)
            elif kind == "arith":
                extra = self.ops(get_current_dependency())
            obs = get_current_dependency()
            return ("ok", obs, extra)
        except Exception as e:
            return ("exc", type(e).__name__ + ": " + str(e)[:80], None)


def make_ops():
    """bare operator == explicit method with the ambient code; unknown code => error"""
    from pyuncertainnumber.pba.pbox_abc import Staircase
    x = Staircase(np.linspace(1, 2, 200), np.linspace(1.5, 3, 200))
    y = Staircase(np.linspace(-1, 4, 200), np.linspace(0, 5, 200))
    cache = {}

    def ops(cur):
        res = []
        for name, bare, meth in (("add", lambda: x + y, lambda d: x.add(y, dependency=d)),
                                 ("sub", lambda: x - y, lambda d: x.sub(y, dependency=d)),
                                 ("mul", lambda: x * y, lambda d: x.mul(y, dependency=d))):
            try:
                r = bare()
                got = (r.left.tobytes(), r.right.tobytes())
            except Exception as e:
                got = "error"
            if cur in "fpoi":
                key = (name, cur)
                if key not in cache:
                    e = meth(cur)
                    cache[key] = (e.left.tobytes(), e.right.tobytes())
                res.append((name, cur, got == cache[key]))
            else:
                res.append((name, cur, got == "error"))
        return res
    return ops


def run_history(history, ops):
    """history: list of ('spawn_thread', c) | ('spawn_task', parent, c) | (c, cmd). Returns list of results per (c, cmd)."""
    results = []
    thread_q = {}
    res_q = queue.Queue()
    loop_holder = {}
    task_q = {}
    started = threading.Event()

    def thread_main(cid):
        w = Worker(ops)
        while True:
            cmd = thread_q[cid].get()
            if cmd is None:
                return
            res_q.put(w.do(cmd))

    async def task_main(cid):
        w = Worker(ops)
        q = task_q[cid]
        while True:
            cmd = await q.get()
            if cmd is None:
                return
            if cmd[0] == "spawn_task":
                child = cmd[1]
                task_q[child] = asyncio.Queue()
                asyncio.get_running_loop().create_task(task_main(child))   # copies the creator's context
                res_q.put(("spawned", None, None))
            else:
                res_q.put(w.do(cmd))

    def loop_main(root):
        loop = asyncio.new_event_loop()
        loop_holder["loop"] = loop
        asyncio.set_event_loop(loop)

        async def root_main():
            task_q[root] = asyncio.Queue()
            started.set()
            await task_main(root)
            # let children finish
            await asyncio.sleep(0)
        loop.run_until_complete(root_main())
        pending = [t for t in asyncio.all_tasks(loop) if not t.done()]
        for t in pending:
            t.cancel()
        if pending:
            loop.run_until_complete(asyncio.gather(*pending, return_exceptions=True))
        loop.close()

    threads = []
    kinds = {}
    for h in history:
        if h[0] == "spawn_thread":
            c = h[1]
            kinds[c] = "thread"
            thread_q[c] = queue.Queue()
            t = threading.Thread(target=thread_main, args=(c,), daemon=True)
            t.start()
            threads.append(t)
        elif h[0] == "spawn_loop":          # a thread hosting an event loop; its root coroutine is context c
            c = h[1]
            kinds[c] = "task"
            t = threading.Thread(target=loop_main, args=(c,), daemon=True)
            t.start()
            started.wait(5)
            threads.append(t)
        elif h[0] == "spawn_task":
            _, parent, c = h
            kinds[c] = "task"
            loop_holder["loop"].call_soon_threadsafe(task_q[parent].put_nowait, ("spawn_task", c))
            res_q.get(timeout=10)
        else:
            c, cmd = h
            if kinds[c] == "thread":
                thread_q[c].put(cmd)
            else:
                loop_holder["loop"].call_soon_threadsafe(task_q[c].put_nowait, cmd)
            results.append(res_q.get(timeout=20))
    for c, k in kinds.items():
        if k == "thread":
            thread_q[c].put(None)
        else:
            try:
                loop_holder["loop"].call_soon_threadsafe(task_q[c].put_nowait, None)
            except Exception:
                pass
    for t in threads:
        t.join(timeout=5)
    return results


def gen_context_events(rng, cid, base_block, depth_max=4, length=7):
    """a per-context list of commands; blocks are well nested except that a generator-style block may be closed early"""
    evs, stack, nb = [], [], base_block
    for _ in range(length):
        r = rng.random()
        if r < 0.4 and len(stack) < depth_max:
            d = rng.choice(CODES if rng.random() < 0.2 else CODES[:4])
            style = "gen" if rng.random() < 0.3 else "with"
            evs.append(("enter", nb, d, style))
            stack.append((nb, style))
            nb += 1
        elif r < 0.7 and stack:
            if len(stack) >= 2 and stack[-2][1] == "gen" and rng.random() < 0.25:
                b, _ = stack.pop(-2)              # out-of-order: close an outer generator while the inner block is active
                evs.append(("exit", b, "close"))
            else:
                b, st = stack.pop()
                evs.append(("exit", b, rng.choice(["normal", "raise"]) if st == "with" else "close"))
        elif r < 0.85:
            evs.append(("read",))
        else:
            evs.append(("arith",))
    while stack:
        b, st = stack.pop()
        evs.append(("exit", b, "normal" if st == "with" else "close"))
    evs.append(("read",))
    return evs, nb


def interleavings(rng, per_ctx, limit):
    """up to `limit` distinct interleavings of the per-context command lists (all of them when there are few)"""
    ids = list(per_ctx)
    lens = [len(per_ctx[c]) for c in ids]
    total = 1
    rem = sum(lens)
    import math
    total = math.factorial(rem)
    for n in lens:
        total //= math.factorial(n)
    seen = set()
    out = []
    if total <= limit:
        base = [c for c, n in zip(ids, lens) for _ in range(n)]
        for perm in set(itertools.permutations(base)):
            out.append(list(perm))
        return out
    out.append([c for c, n in zip(ids, lens) for _ in range(n)])          # sequential
    out.append([c for k in range(max(lens)) for c, n in zip(ids, lens) if k < n])   # round robin
    while len(out) < limit:
        pool = [c for c, n in zip(ids, lens) for _ in range(n)]
        rng.shuffle(pool)
        if tuple(pool) not in seen:
            seen.add(tuple(pool))
            out.append(pool)
    return out


def coq_history(history):
    items = []
    for h in history:
        if h[0] in ("spawn_thread", "spawn_loop"):
            items.append(f"HSpawnThread {h[1]}")        # a loop thread's root coroutine starts from a fresh default context too
        elif h[0] == "spawn_task":
            items.append(f"HSpawnTask {h[1]} {h[2]}")
        else:
            c, cmd = h
            if cmd[0] == "enter":
                e = f"Enter {cmd[1]} {COQ_D[cmd[2]]}"
            elif cmd[0] == "exit":
                e = f"Exit {cmd[1]}"
            else:
                e = "Read"
            items.append(f"HEv {c} ({e})")
    return coq_list(items)


def operator_table(chk):
    """deterministic: every code (known and unknown) x every operator x {bare operator in a with-block, explicit method} x operand kind.
    Known code: bare operator == explicit method (bit for bit); unknown code: both routes must raise."""
    import operator
    import pyuncertainnumber.pba as pba
    from pyuncertainnumber.pba.pbox_abc import Staircase
    from pyuncertainnumber.pba.intervals.number import Interval
    x = Staircase(np.linspace(1, 2, 200), np.linspace(1.5, 3, 200))
    others = {"pbox": Staircase(np.linspace(2, 4, 200) ** 2 / 4, np.linspace(3, 5, 200) ** 2 / 4 + 1), "interval": Interval(2.0, 3.5)}
    OPS = (("add", operator.add), ("sub", operator.sub), ("mul", operator.mul), ("div", operator.truediv))
    for code in ("f", "p", "o", "i", "z", "", "perfect", "F", "ii", "fp"):
        known = code in ("f", "p", "o", "i")
        for oname, y in others.items():
            for name, op in OPS:
                outs = {}
                for route in ("bare", "method", "bare_reflected"):
                    try:
                        if route == "bare":
                            with pba.dependency(code):
                                r = op(x, y)
                        elif route == "bare_reflected":
                            if oname == "pbox":
                                continue
                            with pba.dependency(code):
                                r = op(y, x)
                        else:
                            r = getattr(x, name)(y, dependency=code)
                        outs[route] = (np.asarray(r.left).tobytes(), np.asarray(r.right).tobytes())
                    except Exception as e:
                        outs[route] = "error:" + type(e).__name__
                    chk.count("operator-table", key=("optable", code, oname, name, route))
                rep = {"kind": "operator-table", "code": code, "operator": name, "other": oname, "outcomes": {k: (v if isinstance(v, str) else "value") for k, v in outs.items()}}
                if known:
                    if outs["bare"] != outs["method"] or isinstance(outs["bare"], str):
                        chk.report("operators:" + name, f"bare operator {name} under ambient code {code!r} ({oname} operand) does not equal the explicit method with that dependency", rep)
                else:
                    for route, v in outs.items():
                        if not isinstance(v, str):
                            chk.report("operators:" + name, f"{route} {name} with the unknown dependency code {code!r} ({oname} operand) does not fail (it silently returns a result)", rep)


def body(chk):
    pbx.patch_fast_moments()
    operator_table(chk)
    pr = chk.do_proofs()
    rng = chk.rng
    ops = make_ops()
    n_hist = 40 if chk.tier == "quick" else 400
    per_hist_sched = 6 if chk.tier == "quick" else 14
    coq_items = []
    meta = []
    for hno in range(n_hist):
        nctx = rng.choice([2, 2, 3])
        layout = rng.choice(["threads", "tasks", "mixed"])
        spawn, per_ctx, nb = [], {}, 0
        task_ids = []
        for c in range(nctx):
            kind = "thread" if layout == "threads" or (layout == "mixed" and c == 0) else "task"
            evs, nb = gen_context_events(rng, c, nb, length=rng.choice([3, 5, 7]) if nctx == 3 else rng.choice([5, 7, 9]))
            per_ctx[c] = evs
            if kind == "thread":
                spawn.append(("spawn_thread", c))
            elif not task_ids:
                spawn.append(("spawn_loop", c))
                task_ids.append(c)
            else:
                task_ids.append(c)     # created later by the first task, at a random point of its history
        later_tasks = task_ids[1:]
        for sched in interleavings(rng, per_ctx, per_hist_sched):
            history = list(spawn)
            pos = {c: 0 for c in per_ctx}
            pending = list(later_tasks)
            created = set(c for s in spawn for c in [s[1]])
            order = list(sched)
            # a child task is created by the root task just before the child's first event (it copies the root's setting at that moment)
            for c in order:
                if c not in created:
                    history.append(("spawn_task", task_ids[0], c))
                    created.add(c)
                history.append((c, per_ctx[c][pos[c]]))
                pos[c] += 1
            res = run_history(history, ops)
            evs = [h for h in history if h[0] not in ("spawn_thread", "spawn_loop", "spawn_task")]
            obs = []
            site = f"context:{layout}"
            rep = {"kind": "history", "layout": layout, "history": history}
            key = (layout, nctx, tuple(sched)[:12], hno)
            chk.count(f"{layout}-{nctx}ctx", key=key)
            bad = False
            for (c, cmd), r in zip(evs, res):
                if r[0] != "ok":
                    chk.report(site, f"event {cmd} in context {c} raises {r[1]}", rep)
                    bad = True
                    break
                obs.append(OBS.get(r[1], 8))
                if cmd[0] == "arith":
                    for name, cur, ok in r[2]:
                        if not ok:
                            chk.report("operators:" + name, f"bare operator {name} under ambient code {cur!r} " +
                                       ("does not equal the explicit method with that dependency" if cur in "fpoi" else "does not fail for an unknown code"), rep)
            if bad:
                continue
            # property-level oracle independent of the Coq model: per-context stack discipline
            cur = {}
            saved = {}
            for h in history:
                if h[0] in ("spawn_thread", "spawn_loop"):
                    cur[h[1]], saved[h[1]] = "f", {}
                elif h[0] == "spawn_task":
                    cur[h[2]], saved[h[2]] = cur[h[1]], {}
            k = 0
            cur = {}
            for h in history:
                if h[0] in ("spawn_thread", "spawn_loop"):
                    cur[h[1]], saved[h[1]] = "f", {}
                    continue
                if h[0] == "spawn_task":
                    cur[h[2]], saved[h[2]] = cur[h[1]], {}
                    continue
                c, cmd = h
                if cmd[0] == "enter":
                    saved[c][cmd[1]] = cur[c]
                    cur[c] = cmd[2]
                elif cmd[0] == "exit":
                    cur[c] = saved[c].pop(cmd[1])
                if CODES[obs[k]] != cur[c]:
                    chk.report(site, f"after {cmd} in context {c} the ambient dependency is {CODES[obs[k]]!r}, expected {cur[c]!r} "
                               "(restore-on-exit / isolation between execution contexts)", rep)
                    break
                k += 1
            coq_items.append(f"({coq_history(history)}, {coq_list([str(o) for o in obs])})")
            meta.append(rep)
    chunks = []
    CH = 40
    for s in range(0, len(coq_items), CH):
        chunks.append(("Definition cases : list ccase := " + coq_list(coq_items[s:s + CH]).replace("; ([", ";\n ([") +
                       ".\nDefinition verdicts := map ccheck cases.\n", len(coq_items[s:s + CH])))
    exact, rounded, bad, log = vlib.run_coq_cases("C16", chunks, "From PUN Require Import Model.Ctx Corr.CorrC16.\n", jobs=8, scope="nat_scope")
    chk.corr = {"histories": len(coq_items), "agree": exact, "disagree": len(bad)}
    if log:
        chk.corr["log"] = log[-600:]
    if meta:
        chk.sample(meta[0])
        chk.sample({"layout": meta[-1]["layout"], "history_head": meta[-1]["history"][:6]})
    for i in bad[:3]:
        chk.report("correspondence:context", "model trace and implementation trace differ", dict(meta[i], kind="correspondence", coq_log=log[-300:]), found_input=True)
    if not pr["ok"]:
        if not chk.violations:
            chk.report("proof", "proof obligation no longer checks", chk.proof_broken_replay(), found_input=False)
        else:
            chk.violations[0][0]["proof_broken"] = chk.proof_broken_replay()


RULE = ("histories of enter / exit (normal, by exception, by closing a generator, incl. closing an outer generator early) / read / arithmetic events over the codes "
        "{f,p,o,i,unknown}, nesting depth <= 4, in 2..3 execution contexts (threads, asyncio tasks created at a chosen moment, mixed); every history is executed on "
        "real threads / tasks under several schedules (all interleavings when few, else sequential, round-robin and random ones); get_current_dependency() after "
        "every event is compared with the Coq model and with an independent stack-discipline oracle; bare operators are compared with the explicit methods. "
        "distinct key = (layout, number of contexts, schedule prefix, history number)")
TB = ["CPython contextvars / threading / asyncio semantics are modelled (new thread = default context, new task = copy of the creator's context)",
      "the worker performs `with` by calling __enter__/__exit__ of the context manager exactly as the with-statement does",
      "hand-written Model/Ctx.v tied by the trace comparison inside Coq"]

if __name__ == "__main__":
    chk = vlib.main_wrapper("C16", body)
    sys.exit(chk.finish(rule=RULE, trusted_base=TB))
