#!/venv/bin/python
"""C12 - inclusion isotonicity: widening an input never narrows an output.

Theorems live in Props/C12.v (on top of the models validated by the C01, C03, C05, C06, C08, C11, C13 correspondences,
whose proof obligations - incl. the translated sign tables - are rebuilt here).  The run relates pairs of executions
of the implementation: (X, Y) and (X', Y) with X inside X'."""
import itertools
import math
import os
import sys

sys.path.insert(0, os.path.dirname(os.path.abspath(__file__)))
import vlib
import pbx
from pbx import np
import check_c01 as c01
import check_c13 as c13


def widen_interval(rng, a, b):
    m = rng.choice(["both", "lo", "hi", "tiny", "none"])
    w = max(abs(a), abs(b), 1e-3)
    dl = {"both": rng.uniform(0, w), "lo": rng.uniform(0, w), "hi": 0.0, "tiny": math.ulp(w) * rng.randint(1, 4), "none": 0.0}[m]
    dh = {"both": rng.uniform(0, w), "lo": 0.0, "hi": rng.uniform(0, w), "tiny": math.ulp(w) * rng.randint(1, 4), "none": 0.0}[m]
    return a - dl, b + dh


def widen_pbox(rng, L, R):
    L, R = np.array(L), np.array(R)
    m = rng.choice(["shift", "steps", "tail", "none"])
    span = max(R[-1] - L[0], 1e-3)
    if m == "shift":
        return list(L - rng.uniform(0, span / 2)), list(R + rng.uniform(0, span / 2))
    if m == "steps":
        dl = np.sort(np.array([rng.uniform(0, span / 4) for _ in L]))[::-1]      # keep the left bound non-decreasing
        dr = np.sort(np.array([rng.uniform(0, span / 4) for _ in R]))
        return list(L - dl), list(R + dr)
    if m == "tail":
        L2, R2 = L.copy(), R.copy()
        k = rng.randint(1, 60)
        L2[:k] = L2[:k] - rng.uniform(0, span)
        R2[-k:] = R2[-k:] + rng.uniform(0, span)
        return list(np.minimum.accumulate(L2[::-1])[::-1]), list(np.maximum.accumulate(R2))
    return list(L), list(R)


def inside(a, b, tol=0.0):
    """interval / bound arrays a inside b"""
    return bool(np.all(np.asarray(b[0]) <= np.asarray(a[0]) + tol) and np.all(np.asarray(a[1]) <= np.asarray(b[1]) + tol))


def scale_of(*arrs):
    m = 1.0
    for a in arrs:
        a = np.asarray(a, dtype=float)
        a = a[np.isfinite(a)]
        if len(a):
            m = max(m, float(np.max(np.abs(a))))
    return m


# --------------------------------------------------------------------------- interval level
def interval_pairs(chk, tier):
    from pyuncertainnumber.pba.intervals.number import Interval as I
    rng = chk.rng
    n = 900 if tier == "quick" else 12000
    for i in range(n):
        op = c01.OPS[i % 4]
        shape_a, shape_b = rng.choice(["0", "1", "k"]), rng.choice(["0", "1", "k"])
        a = c01.gen_interval(rng, shape_a)
        b = c01.gen_interval(rng, shape_b)
        if shape_a == "k" and shape_b == "k":
            b["els"] = [c01.sign_class(rng, rng.randrange(9)) for _ in a["els"]]
        a2 = dict(a, els=[widen_interval(rng, lo, hi) for lo, hi in a["els"]])
        other_first = rng.random() < 0.5
        if rng.random() < 0.25:     # a constant or an ndarray as the fixed operand
            b = c01.gen_number(rng, rng.choice(["int", "float", "npfloat"])) if rng.random() < 0.6 else c01.gen_array(rng, len(a["els"]) if shape_a == "k" else None)
        chk.count(f"interval-{op}", key=("I", op, shape_a, shape_b, b["kind"], other_first, i))
        c1 = (op, b, a) if other_first else (op, a, b)
        c2 = (op, b, a2) if other_first else (op, a2, b)
        r1, r2 = c01.run_impl(c1), c01.run_impl(c2)
        rep = {"kind": "pair", "op": op, "narrow": c1[1:], "wide": c2[1:], "narrow_result": r1, "wide_result": r2}
        site = f"Interval.{op}:{c1[1]['kind']}:{c1[2]['kind']}"
        if r2[0] == "exc":
            continue       # the wider operand may legitimately hit a zero divisor
        if r1[0] == "exc":
            if r1[1] == "ZeroDivisionError":
                chk.report(site, "the narrower divisor raises ZeroDivisionError but the wider one does not", rep)
            elif r1[1] not in ("ValueError", "TypeError", "UnboundLocalError"):
                chk.report(site, f"narrow operand raises {r1[1]} while the wide one returns a value", rep)
            continue
        s = scale_of(r2[2], r2[3])
        if not inside((r1[2], r1[3]), (r2[2], r2[3]), 8 * math.ulp(s)):
            chk.report(site, "the result for the contained operand is not contained in the result for the wider operand", rep)


def expr_pairs(chk, tier):
    """nested expressions through b2b direct / subinterval with a fixed discretisation"""
    rng = chk.rng
    c13.patch_exp_recorder()
    # witness of the open finding O37 (subinterval reconstitution is not inclusion isotone): f(x) = x * x, box [-1, 2] against its
    # sub-box [-1, 1] with three tiles each: the middle tile [-1/3, 1/3] of the sub-box gives [-1/9, 1/9], below the lower end 0 of the box's result
    wf, wsrc = c13.make_func(("mul", ("var", 0), ("var", 0)))
    chk.count("witness-O37", key="O37")
    w1, w2 = c13.run_strategy(wf, [(-1.0, 1.0)], ("sub_direct", 3)), c13.run_strategy(wf, [(-1.0, 2.0)], ("sub_direct", 3))
    if w1[0] == "ok" and w2[0] == "ok" and not (w2[1] <= w1[1] and w1[2] <= w2[2]):
        chk.report("b2b:sub_direct", f"result for the sub-box [{w1[1]}, {w1[2]}] is not contained in the result for the box [{w2[1]}, {w2[2]}]",
                   {"kind": "witness", "function": "x[0] * x[0]", "sub_box": [[-1.0, 1.0]], "box": [[-1.0, 2.0]], "strategy": ["sub_direct", 3]})
    for fi in range(60 if tier == "quick" else 800):
        d = rng.choice([1, 2, 2, 3])
        e = c13.gen_expr(rng, d, rng.choice([2, 3]))
        if not c13.variables(e):
            e = ("add", e, ("var", 0))
        box = c13.gen_box(rng, d)
        box2 = [widen_interval(rng, a, b) for a, b in box]
        f, src = c13.make_func(e)
        nsub = rng.choice([2, 3])
        for st in (("direct",), ("sub_direct", nsub)):   # the vertex method is not an enclosure method and is not isotone
            chk.count(f"expr-{st[0]}", key=("E", src, tuple(box), st))
            r1, r2 = c13.run_strategy(f, box, st), c13.run_strategy(f, box2, st)
            if r1[0] != "ok" or r2[0] != "ok":
                continue
            s = scale_of([r2[1], r2[2]])
            if not inside(([r1[1]], [r1[2]]), ([r2[1]], [r2[2]]), 1e-12 * s):
                chk.report(f"b2b:{st[0]}", f"result for the sub-box [{r1[1]}, {r1[2]}] is not contained in the result for the box [{r2[1]}, {r2[2]}]",
                           {"kind": "pair", "function": src, "sub_box": box, "box": box2, "strategy": st})


# --------------------------------------------------------------------------- p-box level
def pbox_pairs(chk, tier):
    from pyuncertainnumber.pba.pbox_abc import Staircase
    from pyuncertainnumber import pba
    import pyuncertainnumber as pun
    from pyuncertainnumber.pba.aggregation import stacking
    rng = chk.rng
    S = lambda X: Staircase(np.array(X[0]), np.array(X[1]))
    ops = []
    for d in "fpo":
        for o in ("add", "sub", "mul", "div"):
            ops.append((o, d))
    ops += [("add", "i"), ("mul", "i"), ("sub", "i"), ("div", "i")]
    ops += [("num", k) for k in ("add", "rsub", "mul", "rdiv", "div")] + [("unary", k) for k in ("exp", "log", "sqrt", "neg", "recip")]
    ops += [("env", None), ("imp", None), ("stack", None), ("nested", None)]
    ops += [("env", "near"), ("imp", "near")]      # second operand within 3e-6 (relative) of the WIDER first operand, but not equal to it
    # a thin X and a copy Y shifted by more than X's width but less than its range: the supports overlap, the bounds cross at EVERY level (no meet
    # with X), while the wider X' does meet Y
    ops += [("imp", "shifted"), ("env", "shifted")]
    reps = 1 if tier == "quick" else 12
    # every run: each arithmetic operation under each dependency on each pairing of definite / straddling signs
    # (the sign routing of products and quotients has one branch per pairing)
    SIGN_PAIRS = [("pos", "neg"), ("neg", "pos"), ("pos", "pos"), ("neg", "neg"), ("straddle", "pos"), ("straddle", "neg"), ("pos", "straddle"), ("neg", "straddle")]
    grid = [(o, d, kx, ky) for d in "fpoi" for o in ("mul", "div", "add", "sub") for (kx, ky) in SIGN_PAIRS
            if not (o == "div" and ky == "straddle") and not (o in ("add", "sub") and (kx, ky) not in SIGN_PAIRS[:2] + SIGN_PAIRS[4:5])]
    todo = [(kind, arg, None, None, 0) for (kind, arg) in ops]
    for rep_i in range(1, reps):
        todo += [(kind, arg, None, None, rep_i) for (kind, arg) in ops]
    todo += [(o, d, kx, ky, "grid") for (o, d, kx, ky) in grid]
    if True:
        for (kind, arg, fkx, fky, rep_i) in todo:
            kx = fkx or rng.choice(pbx.KINDS + pbx.TOUCH)
            ky = fky or rng.choice(["pos", "neg", "straddle", "interval", "precise", "touch"])
            X = pbx.gen_bounds(rng, 200, kx, dy=False)
            Y = pbx.gen_bounds(rng, 200, ky, dy=False)
            if kind in ("div",) or (kind == "add" and False):
                pass
            if kind == "div" and fky is None:
                Y = pbx.gen_bounds(rng, 200, rng.choice(["pos", "neg"]), dy=False)
            if kind == "unary" and arg in ("log", "sqrt", "recip"):
                X = pbx.gen_bounds(rng, 200, "pos", dy=False)
                X = ([v + 0.5 for v in X[0]], [v + 0.5 for v in X[1]])
            if kind == "num" and arg == "rdiv":
                X = pbx.gen_bounds(rng, 200, rng.choice(["pos", "neg"]), dy=False)
            X2 = widen_pbox(rng, *X)
            if arg == "shifted":
                t0, rg, w = pbx.dyadic(rng, -3, 3), rng.choice([4.0, 10.0]), rng.choice([0.0625, 0.125, 0.5])
                sh = w + rng.choice([0.25, 1.0, 1.5])
                t = [t0 + rg * k / 199 for k in range(200)]
                X = (list(t), [v + w for v in t])
                Y = ([v + sh for v in t], [v + sh + w for v in t])
                m_ = rng.choice([0.5, 1.0, 2.0])
                X2 = (list(t), [v + sh + w * m_ for v in t])
            if arg == "near":
                eps = [3e-6 * abs(v) + 3e-9 for v in X2[0]]
                if kind == "env":       # slightly wider than X2 on both sides
                    Y = ([v - e for v, e in zip(X2[0], eps)], [v + (3e-6 * abs(v) + 3e-9) for v in X2[1]])
                else:                   # slightly narrower than X2 where it has room, so that the meet with X exists
                    Y = ([min(v + e, w) for v, e, w in zip(X2[0], eps, X[0])], [max(v - (3e-6 * abs(v) + 3e-9), w) for v, w in zip(X2[1], X[1])])
            if kind == "unary" and arg in ("log", "sqrt", "recip") or (kind == "num" and arg == "rdiv"):
                # keep the widened operand inside the domain
                if X2[0][0] <= 0 <= X2[1][-1] or (arg in ("log", "sqrt") and X2[0][0] <= 0):
                    X2 = (list(X[0]), [v + 1.0 for v in X[1]]) if X[0][0] > 0 else ([v - 1.0 for v in X[0]], list(X[1]))
            c = rng.choice([-2.5, -1, 2, 0.5, 3])
            chk.count(f"pbox-{kind}-{arg}", key=("P", kind, arg, kx, ky, rep_i))

            def apply(x):
                y = S(Y)
                if kind in ("add", "sub", "mul", "div"):
                    return getattr(x, kind)(y, dependency=arg)
                if kind == "num":
                    return {"add": lambda: x + c, "rsub": lambda: c - x, "mul": lambda: x * c, "rdiv": lambda: c / x, "div": lambda: x / c}[arg]()
                if kind == "unary":
                    return {"exp": lambda: x.exp() if x.hi < 50 else x, "log": x.log, "sqrt": x.sqrt, "neg": lambda: -x, "recip": x.reciprocal}[arg]()
                if kind == "env":
                    return pun.envelope(x, y)
                if kind == "imp":
                    return pun.imposition(x, y)
                if kind == "stack":
                    idx = sorted(rng2.sample(range(200), 7))
                    return stacking([[x.left[i], x.right[i]] for i in idx], weights=wts)
                if kind == "nested":
                    return ((x + y) * c).env(x.sub(y, dependency="p")) if True else None
            import random as _r
            rng2 = _r.Random(rng.random())
            st = rng2.getstate()
            w0 = [rng.randint(1, 5) for _ in range(7)]
            wts = [v / sum(w0) for v in w0]
            try:
                rng2.setstate(st)
                r1 = apply(S(X))
                rng2.setstate(st)
                r2 = apply(S(X2))
            except Exception as e:
                if kind == "imp" or (kind in ("div",) ):
                    continue       # an empty meet / zero divisor for one of the two operands
                chk.report(f"Pbox.{kind}:{arg}", f"operation raises {type(e).__name__}: {str(e)[:80]}", {"kind": "pair", "op": [kind, arg], "X": X, "X_wide": X2, "Y": Y, "c": c})
                continue
            s = scale_of(r2.left, r2.right)
            if not inside((r1.left, r1.right), (r2.left, r2.right), 1e-12 * s):
                k = int(np.argmax((np.asarray(r2.left) > np.asarray(r1.left) + 1e-12 * s) | (np.asarray(r1.right) > np.asarray(r2.right) + 1e-12 * s)))
                chk.report(f"Pbox.{kind}:{arg}", f"result for the contained operand is not contained in the result for the wider operand (step {k}: "
                           f"[{r1.left[k]}, {r1.right[k]}] vs [{r2.left[k]}, {r2.right[k]}])", {"kind": "pair", "op": [kind, arg], "X": X, "X_wide": X2, "Y": Y, "c": c})


def ds_pairs(chk, tier):
    """Dempster-Shafer structures with UNEQUAL masses whose focal elements are nested / overlapping (the order of the lower ends differs
    from the order of the upper ends): widening some focal elements must widen the stacked p-box, through every conversion route"""
    from pyuncertainnumber import pba
    from pyuncertainnumber.pba.aggregation import stacking, stochastic_mixture
    rng = chk.rng
    for i in range(18 if tier == "quick" else 200):
        n = rng.randint(2, 6)
        c = [pbx.dyadic(rng, -4, 4) for _ in range(n)]
        if i % 2 == 0:      # nested around a common centre
            c0 = c[0]
            rad = sorted(pbx.dyadic(rng, 0.125, 6) for _ in range(n))
            rng.shuffle(rad)
            ivs = [[c0 - r * rng.choice([1, 0.5, 0.25]), c0 + r] for r in rad]
        else:
            ivs = [[a, a + pbx.dyadic(rng, 0, 5)] for a in c]
        m = [rng.choice([1, 1, 2, 5, 9, 18]) for _ in range(n)]
        masses = [x / sum(m) for x in m]
        wide = [[a - (pbx.dyadic(rng, 0, 3) if rng.random() < 0.6 else 0.0), b + (pbx.dyadic(rng, 0, 3) if rng.random() < 0.6 else 0.0)] for a, b in ivs]
        route = ["stacking", "dss", "mixture"][i % 3]
        f = {"stacking": lambda v: stacking([list(t) for t in v], weights=masses),
             "dss": lambda v: pba.DempsterShafer(intervals=[list(t) for t in v], masses=masses).to_pbox(),
             "mixture": lambda v: stochastic_mixture(*[list(t) for t in v], weights=masses)}[route]
        chk.count(f"ds-{route}", key=("DS", route, i))
        rep = {"kind": "pair", "route": route, "intervals": ivs, "intervals_wide": wide, "masses": masses}
        try:
            r1, r2 = f(ivs), f(wide)
        except Exception as e:
            if "exceeds the right bound" in str(e):     # float tie of cumulated masses (finding O26 of C08)
                continue
            chk.report(f"DS.{route}", f"conversion raises {type(e).__name__}: {str(e)[:80]}", rep)
            continue
        s_ = scale_of(r2.left, r2.right)
        if not inside((r1.left, r1.right), (r2.left, r2.right), 1e-12 * s_):
            k = int(np.argmax((np.asarray(r2.left) > np.asarray(r1.left) + 1e-12 * s_) | (np.asarray(r1.right) > np.asarray(r2.right) + 1e-12 * s_)))
            chk.report(f"DS.{route}", f"p-box of the structure with the contained focal elements is not contained in the p-box of the widened structure (step {k}: "
                       f"[{r1.left[k]}, {r1.right[k]}] vs [{r2.left[k]}, {r2.right[k]}])", rep)


def session_pairs(chk, tier):
    """X inside X' as two OBJECTS built once and used for a whole sequence of operations; in between, the wider operand alone takes part in
    aggregations whose results are discarded (imposition / envelope with a p-box that cuts into it).  Every later pair of results must
    still be nested: an operation may not change its operands."""
    from pyuncertainnumber.pba.pbox_abc import Staircase
    import pyuncertainnumber as pun
    rng = chk.rng
    S = lambda X: Staircase(np.array(X[0]), np.array(X[1]))
    for i in range(4 if tier == "quick" else 40):
        kx = rng.choice(["pos", "straddle", "neg", "steps"])
        X = pbx.gen_bounds(rng, 200, kx, dy=False)
        span = max(X[1][-1] - X[0][0], 1e-3)
        X2 = ([v - span / 3 for v in X[0]], [v + span / 3 for v in X[1]])                  # X strictly inside X2
        B = ([v + span / 2 for v in X2[0]], [v + span for v in X2[1]])                     # overlaps X2, its left bound lies ABOVE that of X: the meet with X2 no longer contains X
        Y = pbx.gen_bounds(rng, 200, "pos", dy=False)
        x, xw, b, y = S(X), S(X2), S(B), S(Y)
        c = rng.choice([-2.5, 2.0, 0.5])
        steps = [("perturb", "imposition(X', B)", lambda: pun.imposition(xw, b)), ("pair", "X + c", lambda p: p + c), ("pair", "-X", lambda p: -p),
                 ("perturb", "envelope(X', B)", lambda: pun.envelope(xw, b)), ("pair", "X.add(Y, 'p')", lambda p: p.add(y, dependency="p")),
                 ("pair", "X + Y", lambda p: p + y), ("perturb", "B.imp(X')", lambda: b.imp(xw)), ("pair", "X * c", lambda p: p * c), ("pair", "X - Y", lambda p: p - y)]
        done = []
        for kind, text, f in steps:
            done.append(text)
            try:
                if kind == "perturb":
                    f()
                    continue
                r1, r2 = f(x), f(xw)
            except Exception as e:
                if kind == "pair":
                    chk.report("Pbox.session", f"{text} raises {type(e).__name__}: {str(e)[:80]} in a sequence on two operand objects", {"kind": "pair", "X": X, "X_wide": X2, "B": B, "sequence": list(done)})
                continue
            chk.count("session-pair", key=("session", i, text))
            s_ = scale_of(r2.left, r2.right)
            if not inside((r1.left, r1.right), (r2.left, r2.right), 1e-12 * s_):
                k = int(np.argmax((np.asarray(r2.left) > np.asarray(r1.left) + 1e-12 * s_) | (np.asarray(r1.right) > np.asarray(r2.right) + 1e-12 * s_)))
                chk.report("Pbox.session", f"{text}: the result for X is not contained in the result for the wider X' (step {k}: [{r1.left[k]}, {r1.right[k]}] vs [{r2.left[k]}, {r2.right[k]}]) "
                           f"after the operations {done[:-1]} on the same operand objects", {"kind": "pair", "X": X, "X_wide": X2, "B": B, "Y": Y, "c": c, "sequence": list(done)})
                break


def body(chk):
    pbx.patch_fast_moments()
    pr = chk.do_proofs()
    interval_pairs(chk, chk.tier)
    expr_pairs(chk, chk.tier)
    pbox_pairs(chk, chk.tier)
    ds_pairs(chk, chk.tier)
    session_pairs(chk, chk.tier)
    chk.corr = {"note": "no model run of its own: the models used by the theorems are validated by the C01, C03, C05, C06, C08, C11, C13 correspondence runs"}
    chk.sample({"pair": "Interval op: X inside X' (widened lo / hi / both / by a few ulp), second operand of every kind and shape"})
    chk.sample({"pair": "p-box op: X inside X' (shifted bounds / per-step widening / widened tails), dependencies f,p,o,i, constants, unary maps, env, imp, stacking, nested"})
    if not pr["ok"]:
        if not chk.violations:
            chk.report("proof", "proof obligation no longer checks", chk.proof_broken_replay(), found_input=False)
        else:
            chk.violations[0][0]["proof_broken"] = chk.proof_broken_replay()


RULE = ("pairs of executions (X, Y) and (X', Y) with X inside X': interval + - * / over all shape pairings, operand kinds and both operand orders; nested response "
        "functions through b2b direct / subinterval / endpoints with a fixed discretisation; p-box arithmetic under f, p, o, i, operations with constants, unary maps, "
        "envelope, imposition, stacking with fixed masses, a nested expression; the result for X must be inside the result for X'. distinct key = (level, op, kinds, index)")
TB = ["theorems in Props/C12.v over the models of the other properties (translated sign tables included: a changed cell breaks C12's proof closure)",
      "opposite / independent dependence reuse the step-wise argument proved for perfect dependence (only perfect is stated as a theorem)",
      "no correspondence run of its own; pairs are bounded samples"]

if __name__ == "__main__":
    chk = vlib.main_wrapper("C12", body)
    sys.exit(chk.finish(rule=RULE, trusted_base=TB))
