#!/venv/bin/python
"""C02 - default (Frechet) p-box arithmetic bounds every dependence, and tightly."""
import itertools
import math
import os
import sys
from fractions import Fraction

sys.path.insert(0, os.path.dirname(os.path.abspath(__file__)))
import vlib
import pbx
from pbx import np, Stub, coq_pb, coq_pout, fr, flist
from vlib import coq_list

KOPS = {"Add": lambda a, b: a + b, "Mul": lambda a, b: a * b}


def kernel_cases(chk, tier):
    rng = chk.rng
    out = []
    n_cases = 500 if tier == "quick" else 6000
    for _ in range(n_cases):
        n = rng.choice([1, 2, 3, 3, 4, 4, 5, 6, 8])
        fn = rng.choice(["KFrechet", "KFrechet", "KNaive"])
        op = rng.choice(["Add", "Mul"])
        kx, ky = rng.choice(pbx.KINDS), rng.choice(pbx.KINDS)
        if op == "Mul" and fn == "KFrechet" and rng.random() < 0.7:
            kx, ky = rng.choice(["pos", "zero_lo", "precise", "interval"]), rng.choice(["pos", "zero_lo", "steps"])
        X = pbx.gen_bounds(rng, n, kx)
        Y = pbx.gen_bounds(rng, n, ky)
        out.append((fn, op, X, Y, (kx, ky, n)))
    return out


def run_kernel(case):
    from pyuncertainnumber.pba import operation as O
    fn, op, X, Y, _ = case
    f = {"KFrechet": O.frechet_op, "KNaive": O.new_vectorised_naive_frechet_op}[fn]
    l, r = f(Stub(*X), Stub(*Y), pbx.PYOPS[op])
    return [float(v) for v in l], [float(v) for v in r]


def monotone_case(op, X, Y):
    """the operation is nondecreasing in both arguments on the operands' ranges"""
    return op == "Add" or (X[0][0] >= 0 and Y[0][0] >= 0)


def kernel_oracle(case, out):
    """exact check of soundness (all couplings x corner selections) and tightness for small n"""
    fn, op, X, Y, (kx, ky, n) = case
    f = KOPS[op]
    XL, XR, YL, YR = map(fr, (X[0], X[1], Y[0], Y[1]))
    L, R = out
    if fn == "KFrechet":
        if not monotone_case(op, X, Y):
            return None  # frechet_op is only meant for monotone operations (the routing keeps it so)
        refL, refR = pbx.ref_frechet(f, XL, XR, YL, YR)
        why = pbx.arrays_close(L, refL, 4) or pbx.arrays_close(R, refR, 4)
        if why:
            return "frechet_op differs from the Frank-Nelsen-Sklar bounds: " + why
        if n <= 5:
            tol = lambda v: Fraction(4 * math.ulp(max(abs(float(v)), 1e-300)))
            attained_L = [False] * n
            attained_R = [False] * n
            for pi in itertools.permutations(range(n)):
                for sx, sy in ((XL, YL), (XR, YR), (XL, YR), (XR, YL)):
                    z = sorted(f(sx[j], sy[pi[j]]) for j in range(n))
                    for k in range(n):
                        if z[k] < Fraction(L[k]) - tol(L[k]) or z[k] > Fraction(R[k]) + tol(R[k]):
                            return f"coupling {pi} of endpoint selections gives {k}-th smallest outcome {float(z[k])!r} outside step [{L[k]!r}, {R[k]!r}]"
                    if sx is XL and sy is YL:
                        for k in range(n):
                            attained_L[k] |= abs(z[k] - Fraction(L[k])) <= tol(L[k])
                    if sx is XR and sy is YR:
                        for k in range(n):
                            attained_R[k] |= abs(z[k] - Fraction(R[k])) <= tol(R[k])
            if not all(attained_L) or not all(attained_R):
                return f"bounds not attained by any coupling of the bounding distributions: left {attained_L}, right {attained_R}"
        return None
    # naive: encloses every coupling and every selection (any sign)
    if n <= 4:
        for pi in itertools.permutations(range(n)):
            for sx, sy in ((XL, YL), (XR, YR), (XL, YR), (XR, YL)):
                z = sorted(f(sx[j], sy[pi[j]]) for j in range(n))
                for k in range(n):
                    if z[k] < Fraction(L[k]) - Fraction(1, 10**12) or z[k] > Fraction(R[k]) + Fraction(1, 10**12):
                        return f"naive Frechet: coupling {pi} gives outcome {float(z[k])!r} outside step {k} [{L[k]!r}, {R[k]!r}]"
    return None


# --------------------------------------------------------------------------- API level
def api_cases(chk, tier):
    rng = chk.rng
    out = []
    # every pairing of sign classes for products and quotients in every run (the routing of the Frechet product depends on them,
    # including operands that touch zero from either side); sums and differences and the remaining kinds at random
    signs = ("pos", "neg", "straddle", "zero_lo", "zero_hi")
    combos = [(op, kx, ky) for op in ("Mul", "Div") for kx in signs for ky in signs]
    extra = [(op, kx, ky) for op in ("Add", "Sub", "Mul", "Div") for kx in ("pos", "neg", "straddle", "zero_lo", "zero_hi", "precise", "interval", "steps")
             for ky in ("pos", "neg", "straddle", "zero_hi", "zero_lo", "interval", "precise")]
    rng.shuffle(extra)
    combos += extra[:14 if tier == "quick" else 350]
    for op, kx, ky in combos:
        X = pbx.gen_bounds(rng, 200, kx, dy=rng.random() < 0.5)
        Y = pbx.gen_bounds(rng, 200, ky, dy=rng.random() < 0.5)
        out.append((op, "f", X, Y, (kx, ky), rng.random() < 0.3))
    # thin p-boxes whose quantiles cross zero, with different lower ends: the Balch product of two straddling operands (its cross
    # terms only show when x.lo != y.lo, and only in the tails against couplings of opposite endpoint selections)
    t = [i / 199 for i in range(200)]
    thin = lambda a, w, d: ([a + w * u for u in t], [a + d + w * u for u in t])
    T = [thin(-1.0, 9.0, 1.0), thin(-6.0, 7.0, 1.0), thin(-3.0, 4.0, 1.0), thin(-1.0, 8.0, 1.0), thin(-8.0, 9.5, 0.5)]
    for i, j in ((0, 1), (1, 0), (2, 3), (3, 2), (4, 0), (1, 3)):
        out.append(("Mul", "f", T[i], T[j], ("thin-straddle", "thin-straddle"), (i + j) % 2 == 0))
    # sessions: one pair of operand objects through all four operations in a row (shared operand lists => shared objects, see pbx.staircase_of)
    for kx, ky in (("straddle", "pos"), ("neg", "straddle")):
        X = pbx.gen_bounds(rng, 200, kx, dy=True)
        Y = pbx.gen_bounds(rng, 200, ky, dy=True)
        for op in ("Mul", "Add", "Div", "Sub", "Mul"):
            if not (op == "Div" and ky == "straddle"):
                out.append((op, "f", X, Y, (kx, ky, "session"), op == "Add"))
    # a Dempster-Shafer structure as the first operand of several operations in a row (ONE object, float focal elements listed in no
    # particular order, unequal masses): each result is decided against the p-box of the structure AS GIVEN (converted from a copy)
    from pyuncertainnumber import pba as _pba
    for sn in range(2):
        n = rng.randint(3, 6)
        lo = [pbx.dyadic(rng, 0.5, 6) for _ in range(n)]
        fe = np.array([[a, a + pbx.dyadic(rng, 0.25, 4)] for a in lo], dtype=float)
        m = [rng.choice([1, 2, 5, 9]) for _ in range(n)]
        masses = [v / sum(m) for v in m]
        ref = _pba.DempsterShafer(intervals=fe.copy(), masses=list(masses)).to_pbox()
        X = ([float(v) for v in ref.left], [float(v) for v in ref.right])
        DSS_SESSIONS[sn] = _pba.DempsterShafer(intervals=fe, masses=list(masses))
        Y = pbx.gen_bounds(rng, 200, "pos", dy=True)
        for op in ("Add", "Sub", "Mul", "Div", "Add"):
            out.append((op, "f", X, Y, ("dss", "pos", "session"), True, f"dss:{sn}"))
    # Staircase.balchprod called directly ("Frechet convolution of two p-boxes when any of them straddles zero"): every pairing of
    # straddling / one-signed operands, either order
    for kx, ky in (("straddle", "pos"), ("pos", "straddle"), ("straddle", "straddle"), ("straddle", "neg"), ("neg", "straddle"), ("pos", "pos")):
        X = pbx.gen_bounds(rng, 200, kx, dy=rng.random() < 0.5)
        Y = pbx.gen_bounds(rng, 200, ky, dy=rng.random() < 0.5)
        out.append(("Mul", "f", X, Y, (kx, ky, "balchprod"), False, "balch"))
    # the Frechet combination requested explicitly while ANOTHER dependency is the ambient setting: still the Frechet result
    for amb in "poi":
        for op, kx, ky in (("Mul", "straddle", "straddle"), ("Mul", "straddle", "pos"), ("Mul", "neg", "straddle"), ("Div", "straddle", "pos"), ("Add", "pos", "straddle"), ("Sub", "neg", "pos")):
            X = pbx.gen_bounds(rng, 200, kx, dy=rng.random() < 0.5)
            Y = pbx.gen_bounds(rng, 200, ky, dy=rng.random() < 0.5)
            out.append((op, "f", X, Y, (kx, ky, "ambient-" + amb), False, amb))
    return out


DSS_SESSIONS = {}


def run_api(case):
    from pyuncertainnumber.pba.pbox_abc import Staircase
    import contextlib
    op, d, X, Y, _, bare = case[:6]
    amb = case[6] if len(case) > 6 else None
    try:
        x, y = pbx.staircase_of(X), pbx.staircase_of(Y)
        if amb == "balch":
            r = x.balchprod(y)
        elif amb and amb.startswith("dss:"):
            r = pbx.PYOPS[op](DSS_SESSIONS[int(amb[4:])], y)
        elif bare:
            r = pbx.PYOPS[op](x, y)
        else:
            from pyuncertainnumber.pba.context import dependency as _dep
            with (_dep(amb) if amb in ("p", "o", "i") else contextlib.nullcontext()):
                r = {"Add": x.add, "Sub": x.sub, "Mul": x.mul, "Div": x.div}[op](y, dependency=d)
        return ("ok", [float(v) for v in r.left], [float(v) for v in r.right])
    except Exception as e:
        return ("exc", pbx.exc_code(e), type(e).__name__ + ": " + str(e)[:100])


def api_reference(op, X, Y):
    """reference bounds for the default dependency, or None where no tight reference exists (straddling product)"""
    XL, XR = list(X[0]), list(X[1])
    YL, YR = list(Y[0]), list(Y[1])
    add = lambda a, b: a + b
    mul = lambda a, b: a * b

    def mul_ref(AL, AR, BL, BR):
        sa, sb = pbx.sign_of(AL, AR), pbx.sign_of(BL, BR)
        if sa == "straddle" or sb == "straddle":
            return None
        na, nb = AR[-1] <= 0, BR[-1] <= 0
        if na:
            AL, AR = pbx.ref_neg(AL, AR)
        if nb:
            BL, BR = pbx.ref_neg(BL, BR)
        L, R = pbx.ref_frechet(mul, AL, AR, BL, BR)
        if na ^ nb:
            L, R = pbx.ref_neg(L, R)
        return L, R
    if op == "Add":
        return pbx.ref_frechet(add, XL, XR, YL, YR)
    if op == "Sub":
        NL, NR = pbx.ref_neg(YL, YR)
        return pbx.ref_frechet(add, XL, XR, NL, NR)
    if op == "Mul":
        return mul_ref(XL, XR, YL, YR)
    if op == "Div":
        if YL[0] <= 0 <= YR[-1]:
            return "zero"
        IL, IR = pbx.ref_recip(YL, YR)
        return mul_ref(XL, XR, IL, IR)


def api_oracle(chk, case, out):
    op, d, X, Y, kinds, bare = case[:6]
    rng = chk.rng
    ref = api_reference(op, X, Y)
    if len(case) > 6 and case[6] == "balch" and ref is not None and ref != "zero" and (pbx.sign_of(*X) == "straddle" or pbx.sign_of(*Y) == "straddle"):
        ref = None
    if ref == "zero":
        if out[0] == "ok":
            return "quotient by a p-box containing zero returns a bounded p-box instead of raising"
        return None
    if out[0] != "ok":
        return f"well-formed operands raise {out[2]}"
    L, R = np.array(out[1]), np.array(out[2])
    why = pbx.wf_problem(L, R, 200)
    if why:
        return "ill-formed result: " + why
    if ref is not None:
        why = pbx.arrays_close(L, ref[0], 64, 1e-300) or pbx.arrays_close(R, ref[1], 64, 1e-300)
        if why:
            return "differs from the best-possible (Frank-Nelsen-Sklar) bounds: " + why
    # soundness against sampled couplings and selections
    f = pbx.PYOPS[op]
    XL, XR, YL, YR = map(np.array, (X[0], X[1], Y[0], Y[1]))
    n = 200
    scale = max(1.0, float(np.max(np.abs(L[np.isfinite(L)]))) if np.isfinite(L).any() else 1.0, float(np.max(np.abs(R[np.isfinite(R)]))) if np.isfinite(R).any() else 1.0)
    tol = 1e-9 * scale
    perms = [np.arange(n), np.arange(n)[::-1]] + [np.array(rng.sample(range(n), n)) for _ in range(4)]
    # extremal anti-diagonal block couplings
    for i in (0, 1, 57, 198, 199):
        p = np.arange(n)
        p[: i + 1] = np.arange(i, -1, -1)
        perms.append(p)
        q = np.arange(n)
        q[i:] = np.arange(n - 1, i - 1, -1)
        perms.append(q)
    for pi in perms:
        for sel in range(5):
            if sel == 0:
                xs, ys = XL, YL
            elif sel == 1:
                xs, ys = XR, YR
            elif sel == 2:
                xs, ys = XL, YR
            elif sel == 4:
                xs, ys = XR, YL
            else:
                u = np.array([rng.random() for _ in range(n)])
                v = np.array([rng.random() for _ in range(n)])
                xs, ys = XL + u * (XR - XL), YL + v * (YR - YL)
            with np.errstate(all="ignore"):
                z = np.sort(f(xs, ys[pi]))
            bad = (z < L - tol) | (z > R + tol)
            if bad.any():
                k = int(np.argmax(bad))
                return f"a coupling/selection gives {k}-th smallest outcome {z[k]!r} outside step [{L[k]!r}, {R[k]!r}]"
    return None


def enclosure_oracle(case, out, others):
    """the Frechet result encloses the results under perfect / opposite / independent dependence"""
    if out[0] != "ok":
        return None
    L, R = np.array(out[1]), np.array(out[2])
    scale = max(1.0, float(np.max(np.abs(L))), float(np.max(np.abs(R))))
    for d, o in others.items():
        if o[0] != "ok":
            continue
        l, r = np.array(o[1]), np.array(o[2])
        if (L > l + 1e-9 * scale).any() or (r > R + 1e-9 * scale).any():
            k = int(np.argmax((L > l + 1e-9 * scale) | (r > R + 1e-9 * scale)))
            return f"result under dependency '{d}' is not enclosed at step {k}: [{l[k]!r},{r[k]!r}] vs Frechet [{L[k]!r},{R[k]!r}]"
    return None


def body(chk):
    pbx.patch_fast_moments()
    pr = chk.do_proofs(extra=["Corr/CorrPbox.vo"])
    # ---- kernel level
    kc = kernel_cases(chk, chk.tier)
    kouts = []
    for c in kc:
        try:
            kouts.append(run_kernel(c))
        except Exception as e:
            kouts.append(None)
            chk.report(f"kernel:{c[0]}", f"kernel function raises {type(e).__name__}: {e}", {"kind": "kernel", "case": c})
    chunks = []
    CH = 250
    valid = [(c, o) for c, o in zip(kc, kouts) if o is not None]
    for s in range(0, len(valid), CH):
        items = [f"({c[0]}, {c[1]}, {coq_pb(*c[2])}, {coq_pb(*c[3])}, {coq_pb(*o)})" for c, o in valid[s:s + CH]]
        chunks.append(("Definition cases : list kcase := " + coq_list(items).replace("; (K", ";\n (K") +
                       ".\nDefinition verdicts := map kcheck cases.\n", len(items)))
    # ---- API level
    ac = api_cases(chk, chk.tier)
    CA = 6
    is_balch = lambda c: len(c) > 6 and c[6] == "balch"
    ac = [c for c in ac if not is_balch(c)] + [c for c in ac if is_balch(c)]      # balchprod cases last (their own case type)
    aouts = [run_api(c) for c in ac]
    n_plain = len([c for c in ac if not is_balch(c)])
    for s in range(0, n_plain, CA):
        items = [f"({c[0]}, {pbx.DEPS[c[1]]}, {coq_pb(*c[2])}, {coq_pb(*c[3])}, {coq_pout(o)})" for c, o in zip(ac[s:min(s + CA, n_plain)], aouts[s:min(s + CA, n_plain)])]
        chunks.append(("Definition cases : list acase := " + coq_list(items) + ".\nDefinition verdicts := map acheck cases.\n", len(items)))
    for s in range(n_plain, len(ac), CA):
        items = [f"({coq_pb(*c[2])}, {coq_pb(*c[3])}, {coq_pout(o)})" for c, o in zip(ac[s:s + CA], aouts[s:s + CA])]
        chunks.append(("Definition cases : list balchcase := " + coq_list(items) + ".\nDefinition verdicts := map balchcheck cases.\n", len(items)))
    exact, rounded, bad, log = vlib.run_coq_cases("C02", chunks, "From PUN Require Import Model.Interval Model.PboxArith Corr.CorrPbox.\n", jobs=12)
    chk.corr = {"kernel_cases": len(valid), "api_cases": len(ac), "bit_exact": exact, "rounded": rounded, "disagree": len(bad)}
    if log:
        chk.corr["log"] = log[-600:]
    # ---- oracles
    for c, o in valid:
        chk.count(f"kernel-{c[0]}-{c[1]}", key=(c[0], c[1], c[4]))
        why = kernel_oracle(c, o)
        if why:
            chk.report(f"operation.{c[0]}:{c[1]}", why, {"kind": "oracle-kernel", "fn": c[0], "op": c[1], "X": c[2], "Y": c[3], "observed": o})
    for c, o in zip(ac, aouts):
        chk.count(f"api-{c[0]}-{'bare' if c[5] else 'method'}", key=(c[0], c[4], c[5]))
        why = api_oracle(chk, c, o)
        site = f"Pbox.{'balchprod' if is_balch(c) else c[0]}:f:{pbx.sign_of(*c[2])}:{pbx.sign_of(*c[3])}"
        if why:
            chk.report(site, why, {"kind": "oracle-api", "op": c[0], "X": c[2], "Y": c[3], "observed": o[:1] + tuple(o[1:2] if o[0] != "ok" else ())})
        elif o[0] == "ok" and c[0] in ("Add", "Mul") :
            others = {}
            for d in "poi":
                oc = (c[0], d, c[2], c[3], c[4], False)
                others[d] = run_api(oc)
                chk.count(f"api-enclose-{d}", key=(c[0], d, c[4]))
            why = enclosure_oracle(c, o, others)
            if why:
                chk.report(site, why, {"kind": "oracle-enclosure", "op": c[0], "X": c[2], "Y": c[3]})
    chk.sample({"fn": kc[0][0], "op": kc[0][1], "X": kc[0][2], "Y": kc[0][3], "impl": kouts[0]})
    chk.sample({"api": ac[0][0], "kinds": ac[0][4], "X_left_head": ac[0][2][0][:3], "Y_left_head": ac[0][3][0][:3], "impl_left_head": aouts[0][1][:3] if aouts[0][0] == "ok" else aouts[0]})
    if bad:
        allc = [("kernel", c, o) for c, o in valid] + [("api", c, o) for c, o in zip(ac, aouts)]
        for i in bad[:3]:
            lvl, c, o = allc[i]
            why = kernel_oracle(c, o) if lvl == "kernel" else api_oracle(chk, c, o)
            chk.report(f"correspondence:{lvl}:{c[0]}:{c[1]}", why or "model and implementation disagree",
                       {"kind": "correspondence", "level": lvl, "case": [c[0], c[1], c[2], c[3]], "coq_log": log[-400:]}, found_input=bool(why))
    if not pr["ok"]:
        if not chk.violations:
            chk.report("proof", "proof obligation no longer checks", chk.proof_broken_replay(), found_input=False)
        else:
            chk.violations[0][0]["proof_broken"] = chk.proof_broken_replay()


RULE = ("kernel cases: frechet_op / vectorised naive Frechet on stub operands with n in 1..8 steps, operand kinds "
        "{pos,neg,straddle,zero-touching,precise,interval,step-shaped}, ops {+,*}; exact-rational oracle enumerates all n! couplings x 4 "
        "endpoint selections for n<=5 (soundness and attainment). API cases: Staircase operands at 200 steps through add/sub/mul/div('f') and "
        "bare operators, compared with the model inside Coq, with an independent Frank-Nelsen-Sklar reference, with sampled and extremal couplings, "
        "and against the p/o/i results. distinct key = (function, op, operand kinds, n)")
TB = ["hand-written Model/Pbox.v + Model/PboxArith.v tied by in-Coq differential run (bit-exact expected)",
      "translator translate_params.py (steps, grid boundaries)",
      "straddling Frechet product (naive + Balch + imposition) is not modelled in Coq: covered by the oracle (sampled couplings) only",
      "couplings are permutation matrices of the focal steps",
      "Staircase moments use the ECDF fallback in the harness process (LP disabled for speed)"]

if __name__ == "__main__":
    chk = vlib.main_wrapper("C02", body)
    sys.exit(chk.finish(rule=RULE, trusted_base=TB))
